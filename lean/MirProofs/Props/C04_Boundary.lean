import MirProofs.Lemmas.Boundary
/-!
  C04 (segment boundaries) — `segment.detection` and `segment.deviation` equal their documented definitions.

  * boundaries = the distinct interval end points after rounding to 5 decimals (nearest, ties to even),
    in increasing order; `trim` removes the first and the last one;
  * detection: P = k/|est boundaries|, R = k/|ref boundaries|, F = F_beta(P, R) with `k` the size of a
    **maximum** matching pairing only boundaries at most `window` apart;
  * deviation: the median, over the boundaries of one annotation, of the distance to the nearest boundary of
    the other one; and the median is a median (half of the data on either side).
-/
namespace Mir.C04.Boundary
open Mir.Boundary Mir.MiscStats

/-- `util.intervals_to_boundaries`: strictly increasing, and exactly the rounded end points -/
theorem boundaries_spec (iv : List (Rat × Rat)) :
    (intervalsToBoundaries iv).Pairwise (· < ·) ∧
      ∀ x, x ∈ intervalsToBoundaries iv ↔ ∃ p ∈ iv, x = round5 p.1 ∨ x = round5 p.2 :=
  ⟨unique_strict _, mem_intervalsToBoundaries iv⟩

/-- rounding to 5 decimals: a multiple of 1e-5 within half a unit of the argument, the even multiple at a tie -/
theorem round5_spec (x : Rat) :
    (∃ n : Int, round5 x = (n : Rat) / 100000 ∧
        (x * 100000 - ((x * 100000).floor : Rat) = 1 / 2 → n % 2 = 0)) ∧
      |round5 x - x| ≤ 1 / 200000 :=
  ⟨⟨roundHalfEven (x * 100000), rfl, roundHalfEven_tie_even _⟩, round5_close x⟩

/-- `trim=True` drops exactly the first and the last boundary -/
theorem trim_spec (iv : List (Rat × Rat)) :
    boundaries iv false = intervalsToBoundaries iv ∧
      boundaries iv true = ((intervalsToBoundaries iv).drop 1).dropLast := ⟨rfl, rfl⟩

/-- detection on valid input with boundaries on both sides: maximum-matching hit count over the window graph -/
theorem detection_is_matching_score (ref est : List (Rat × Rat)) (w beta : Rat) (trim : Bool)
    (hv : validateBoundary ref est trim = .ok ()) (hr : boundaries ref trim ≠ []) (he : boundaries est trim ≠ []) :
    ∃ k : Nat, IsMaxSize (hitGraph (withinWindow w) (boundaries ref trim) (boundaries est trim)) k ∧
      (∀ i j, (i, j) ∈ hitGraph (withinWindow w) (boundaries ref trim) (boundaries est trim) ↔
        ∃ r e, (boundaries ref trim)[i]? = some r ∧ (boundaries est trim)[j]? = some e ∧ |r - e| ≤ w) ∧
      detection ref est w beta trim =
        .ok ((k : Rat) / (boundaries est trim).length, (k : Rat) / (boundaries ref trim).length,
             Mir.fMeasure ((k : Rat) / (boundaries est trim).length) ((k : Rat) / (boundaries ref trim).length) beta) := by
  refine ⟨hitCount (withinWindow w) (boundaries ref trim) (boundaries est trim), maxMatchSize_isMax _, ?_, ?_⟩
  · intro i j
    rw [mem_hitGraph]
    constructor
    · rintro ⟨r, e, h1, h2, h⟩; exact ⟨r, e, h1, h2, (ww_iff w r e).1 h⟩
    · rintro ⟨r, e, h1, h2, h⟩; exact ⟨r, e, h1, h2, (ww_iff w r e).2 h⟩
  · rw [detection_of_valid w beta hv]
    simp [hitPRF, prf, hr, he]

/-- no boundaries on a side: all three scores are 0 -/
theorem detection_empty (ref est : List (Rat × Rat)) (w beta : Rat) (trim : Bool)
    (hv : validateBoundary ref est trim = .ok ()) (h : boundaries ref trim = [] ∨ boundaries est trim = []) :
    detection ref est w beta trim = .ok (0, 0, 0) := by
  rw [detection_of_valid w beta hv]
  rcases h with h | h <;> simp [hitPRF, h]

/-- deviation = (median of nearest-estimate distances over reference boundaries,
                 median of nearest-reference distances over estimated boundaries) -/
theorem deviation_is_median_of_nearest (ref est : List (Rat × Rat)) (trim : Bool)
    (hv : validateBoundary ref est trim = .ok ()) (hr : boundaries ref trim ≠ []) (he : boundaries est trim ≠ []) :
    ∃ dr de : List Rat,
      List.Forall₂ (fun r d => IsNearestDist r (boundaries est trim) d) (boundaries ref trim) dr ∧
      List.Forall₂ (fun e d => IsNearestDist e (boundaries ref trim) d) (boundaries est trim) de ∧
      deviation ref est trim = .ok (median? dr, median? de) := by
  obtain ⟨r0, rs, hr'⟩ := List.exists_cons_of_ne_nil hr
  obtain ⟨e0, es, he'⟩ := List.exists_cons_of_ne_nil he
  refine ⟨(r0 :: rs).map fun r => minOver (fun e => absQ (r - e)) e0 es,
          (e0 :: es).map fun e => minOver (fun r => absQ (r - e)) r0 rs, ?_, ?_, ?_⟩
  · rw [hr', he', List.forall₂_map_right_iff, List.forall₂_same]
    intro r _
    constructor
    · intro y hy
      have := minOver_le (fun e => absQ (r - e)) e0 es y hy
      rw [← absQ_eq_abs]; exact this
    · obtain ⟨y, hy, h⟩ := minOver_attained (fun e => absQ (r - e)) e0 es
      exact ⟨y, hy, by rw [h, absQ_eq_abs]⟩
  · rw [hr', he', List.forall₂_map_right_iff, List.forall₂_same]
    intro e _
    constructor
    · intro y hy
      have := minOver_le (fun r => absQ (r - e)) r0 rs y hy
      rw [abs_sub_comm, ← absQ_eq_abs]; exact this
    · obtain ⟨y, hy, h⟩ := minOver_attained (fun r => absQ (r - e)) r0 rs
      exact ⟨y, hy, by rw [h, absQ_eq_abs, abs_sub_comm]⟩
  · exact deviation_of_valid_cons hv hr' he'

/-- `np.median` as modelled is a median: at least half of the data is ≤ it and at least half is ≥ it;
    it is NaN (`none`) exactly on empty data -/
theorem median_spec (xs : List Rat) :
    (median? xs = none ↔ xs = []) ∧
    ∀ m, median? xs = some m →
      xs.length ≤ 2 * (xs.filter fun x => decide (x ≤ m)).length ∧
      xs.length ≤ 2 * (xs.filter fun x => decide (m ≤ x)).length :=
  ⟨median?_eq_none_iff xs, fun _ hm => median?_spec hm⟩

/-! non-vacuity -/
example : intervalsToBoundaries [(0, 1 / 64), (1 / 64, 3 / 64), (3 / 64, 1)] = [0, 781 / 50000, 293 / 6250, 1] := by
  decide +kernel
example : median? [3, 1, 2, 10] = some (5 / 2) := by decide +kernel
example : detection [(0, 1), (1, 3)] [(0, 2), (2, 3)] 1 4 true = .ok (1, 1, 1) := by
  rw [detection_of_valid _ _ (by decide +kernel), hitPRF_eq_brute]; decide +kernel

end Mir.C04.Boundary
