import MirGen.Defaults
/-!
# C04 — documented default parameter values hold for the code as it is now

`Mir.Gen.defaults` is REGENERATED from the AST of `/repo`'s current source on every run
(`harness/translate/defaults.py`).  `documented` below is written by hand from the docstrings / the published
definitions the metrics implement (numbers as exact rationals of the documented decimal).  The theorem is re-checked by
the kernel against the regenerated table: a changed default is a broken obligation of C04 before any input is run.
-/
namespace Mir.C04.Defaults

/-- default of parameter `k` of function `f` in a table -/
def lookup (t : List (String × List (String × String))) (f k : String) : Option String :=
  match t.find? (fun e => e.1 == f) with
  | some e => (e.2.find? (fun kv => kv.1 == k)).map (·.2)
  | none => none

/-- the documented defaults (canonical values as in `harness/translate/defaults.py`) -/
def documented : List (String × List (String × String)) := [
  ("alignment.percentage_correct", [("window", "num:3/10")]),
  ("beat.cemgil", [("cemgil_sigma", "num:1/25")]),
  ("beat.continuity", [("continuity_phase_threshold", "num:7/40"), ("continuity_period_threshold", "num:7/40")]),
  ("beat.f_measure", [("f_measure_threshold", "num:7/100")]),
  ("beat.goto", [("goto_threshold", "num:7/20"), ("goto_mu", "num:1/5"), ("goto_sigma", "num:1/5")]),
  ("beat.information_gain", [("bins", "num:41/1")]),
  ("beat.p_score", [("p_score_threshold", "num:1/5")]),
  ("beat.trim_beats", [("min_beat_time", "num:5/1")]),
  ("melody.overall_accuracy", [("cent_tolerance", "num:50/1")]),
  ("melody.raw_chroma_accuracy", [("cent_tolerance", "num:50/1")]),
  ("melody.raw_pitch_accuracy", [("cent_tolerance", "num:50/1")]),
  ("multipitch.compute_num_true_positives", [("window", "num:1/2"), ("chroma", "False")]),
  ("onset.f_measure", [("window", "num:1/20")]),
  ("pattern.establishment_FPR", [("similarity_metric", "str:cardinality_score")]),
  ("pattern.first_n_target_proportion_R", [("n", "num:5/1")]),
  ("pattern.first_n_three_layer_P", [("n", "num:5/1")]),
  ("pattern.occurrence_FPR", [("thres", "num:3/4"), ("similarity_metric", "str:cardinality_score")]),
  ("pattern.standard_FPR", [("tol", "num:1/100000")]),
  ("segment.detection", [("window", "num:1/2"), ("beta", "num:1/1"), ("trim", "False")]),
  ("segment.deviation", [("trim", "False")]),
  ("tempo.detection", [("tol", "num:2/25")]),
  ("transcription.match_notes", [("onset_tolerance", "num:1/20"), ("pitch_tolerance", "num:50/1"), ("offset_ratio", "num:1/5"), ("offset_min_tolerance", "num:1/20"), ("strict", "False")]),
  ("transcription.offset_precision_recall_f1", [("offset_ratio", "num:1/5"), ("offset_min_tolerance", "num:1/20"), ("strict", "False"), ("beta", "num:1/1")]),
  ("transcription.onset_precision_recall_f1", [("onset_tolerance", "num:1/20"), ("strict", "False"), ("beta", "num:1/1")]),
  ("transcription.precision_recall_f1_overlap", [("onset_tolerance", "num:1/20"), ("pitch_tolerance", "num:50/1"), ("offset_ratio", "num:1/5"), ("offset_min_tolerance", "num:1/20"), ("strict", "False"), ("beta", "num:1/1")]),
  ("transcription_velocity.match_notes", [("velocity_tolerance", "num:1/10")])
]

/-- every documented default is the default the current source declares -/
def holds (gen : List (String × List (String × String))) : Bool :=
  documented.all fun e => e.2.all fun kv => lookup gen e.1 kv.1 == some kv.2

/-- **the documented defaults are the defaults of the regenerated signature table** -/
theorem documented_defaults_hold : holds Mir.Gen.defaults = true := by decide +kernel

/-- spelled out for the most used ones -/
theorem beat_f_measure_threshold : lookup Mir.Gen.defaults "beat.f_measure" "f_measure_threshold" = some "num:7/100" := by
  decide +kernel
theorem onset_window : lookup Mir.Gen.defaults "onset.f_measure" "window" = some "num:1/20" := by decide +kernel
theorem transcription_offset_ratio :
    lookup Mir.Gen.defaults "transcription.match_notes" "offset_ratio" = some "num:1/5" := by decide +kernel

/-- non-vacuity: the check distinguishes tables — a table with another beat F-measure threshold fails it -/
example : holds [("beat.f_measure", [("f_measure_threshold", "num:1/10")])] = false := by decide +kernel
example : documented.length = 26 := by decide

end Mir.C04.Defaults
