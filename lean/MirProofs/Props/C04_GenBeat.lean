import MirGen.Beat
import MirProofs.Lemmas.PyBeat
import MirProofs.Lemmas.GenPScore
import MirProofs.Props.C01_Beat
import MirProofs.Props.C04_Beat
/-!
  C04 (regenerated) — `trim_beats`, `_get_reference_beat_variations` and `p_score` of `mir_eval/beat.py` AS TRANSLATED from
  the source on every run (`lean/MirGen/Beat.lean`, harness/translate/beat.py) equal the hand-written model
  `MirModel/Beat.lean` (`trimBeats`, `variations`, `pScore`), for ALL beat lists (empty, one beat, duplicates, unsorted).
  Consequence: every theorem about the hand model that goes through `trimBeats` / `variations` (C04 `variations_spec`,
  the Cemgil / continuity "best metric level" theorems of C04 / C01 / C07, `evaluate`'s trimming in C14 / C08) is a theorem
  about the code as translated; the headline ones are re-stated below on the translated definitions.
-/
set_option linter.unusedSimpArgs false
set_option linter.unusedTactic false
namespace Mir.C04.GenBeat
open Mir Mir.Beat
open Mir.PyMel (ok_bind error_bind throw_eq pure_eq)

/-- the five arrays `_get_reference_beat_variations` returns, as the list the hand model uses -/
def asList (t : List Rat × List Rat × List Rat × List Rat × List Rat) : List (List Rat) :=
  [t.1, t.2.1, t.2.2.1, t.2.2.2.1, t.2.2.2.2]

/-- **`trim_beats` as translated = the hand model**, for ALL arrays (sorted or not) and every threshold: the boolean-mask
    selection `beats[beats >= min_beat_time]` never raises (the mask has the array's length) and keeps exactly the beats
    `≥ min_beat_time`, in order. -/
theorem trim_beats_eq_model (beats : List Rat) (t : Rat) :
    Mir.Gen.beat.trim_beats beats t = .ok (trimBeats beats t) := by
  unfold Mir.Gen.beat.trim_beats trimBeats
  rw [PyBeat.getMask_map_filter]
  try simp only [ok_bind, pure_eq, ge_iff_le]

/-- the documented default of `min_beat_time` is 5 s -/
theorem trim_beats_default (beats : List Rat) :
    Mir.Gen.beat.trim_beats beats = .ok (trimBeats beats 5) := trim_beats_eq_model beats 5

/-- **`_get_reference_beat_variations` as translated = the hand model**, for ALL beat lists incl. the empty one and a single
    beat: `np.interp` of the beats at the half-integer indices `np.arange(0, n - 0.5, 0.5)` over the sample points
    `np.arange(0, n)` never raises and is the hand model's `doubled`; the three `[k::2]` slices are `everyOther`. -/
theorem variations_eq_model (ref : List Rat) :
    (Mir.Gen.beat._get_reference_beat_variations ref).map asList = .ok (variations ref) := by
  unfold Mir.Gen.beat._get_reference_beat_variations
  have h := PyBeat.interp_doubled ref
  simp only [PyM.shape0, PyM.len, one_div, sub_eq_add_neg] at h ⊢
  rw [h]; simp [ok_bind, pure_eq, asList, variations, PyBeat.step2, Except.map]

/-- the translated function always returns (no exception for any beat list) -/
theorem variations_total (ref : List Rat) :
    ∃ t, Mir.Gen.beat._get_reference_beat_variations ref = .ok t ∧ asList t = variations ref := by
  have h := variations_eq_model ref
  cases hg : Mir.Gen.beat._get_reference_beat_variations ref with
  | error e => rw [hg] at h; simp [Except.map] at h
  | ok t => rw [hg] at h; refine ⟨t, rfl, ?_⟩; simpa [Except.map] using h

/-! ### headline statements on the translated definitions -/

/-- C04: what the translated `trim_beats` returns is exactly the sub-sequence of beats at or after the threshold:
    every returned beat is `≥ t` and an input beat, every input beat `≥ t` is returned, the order is kept. -/
theorem gen_trim_beats_spec (beats : List Rat) (t : Rat) :
    ∃ out, Mir.Gen.beat.trim_beats beats t = .ok out ∧ out.Sublist beats ∧ ∀ b, b ∈ out ↔ (b ∈ beats ∧ t ≤ b) := by
  refine ⟨trimBeats beats t, trim_beats_eq_model beats t, ?_, ?_⟩
  · unfold trimBeats; exact List.filter_sublist
  · intro b; unfold trimBeats; simp [List.mem_filter]

/-- C04: the five metrical variations of the translated code are the annotation itself, the midpoints of consecutive beats
    (off-beat), the beats interleaved with those midpoints (double tempo, 2n-1 values), the even-indexed and the odd-indexed
    beats (half tempo). -/
theorem gen_variations_spec (ref : List Rat) :
    ∃ t, Mir.Gen.beat._get_reference_beat_variations ref = .ok t ∧
      asList t = [ref, midpoints ref, interleave ref (midpoints ref), everyOther ref, everyOther (ref.drop 1)] ∧
      t.2.2.1.length = 2 * ref.length - 1 := by
  obtain ⟨t, ht, hl⟩ := variations_total ref
  have hs := Mir.C04.Beat.variations_spec ref
  refine ⟨t, ht, by rw [hl]; exact hs.1, ?_⟩
  have h3 : t.2.2.1 = doubled ref := by
    have := hl; simp only [asList, variations, List.cons.injEq] at this; exact this.2.2.1
  rw [h3]; exact hs.2.1

/-- C08 on the translated `trim_beats`: shifting beats and threshold together shifts the result. -/
theorem gen_trim_beats_shift (c t : Rat) (l : List Rat) :
    Mir.Gen.beat.trim_beats (l.map (· + c)) (t + c) = (Mir.Gen.beat.trim_beats l t).map (List.map (· + c)) := by
  rw [trim_beats_eq_model, trim_beats_eq_model, trimBeats_shift]; rfl

/-! ### `p_score` -/

open Mir.Segment (Num)

/-- **`p_score` as translated = the hand model**, for ALL pairs of beat lists and every threshold (also 0, negative, > 1):
    `ValueError` exactly when validation fails; 0 with fewer than two beats on either side or when all reference beats fall
    into one 10 ms sample; otherwise the impulse trains, `np.correlate(.., "full")`, the Python slice `[middle - win :
    middle + win + 1]` (a negative start wraps around, as in the code — the recorded finding for thresholds > 1) and the
    final quotient, which is a finite number (`n_beats ≥ 2`).  No other exception: `np.zeros` gets a non-negative length,
    every quantised beat is a valid train index, both trains are non-empty. -/
theorem p_score_eq_model (ref est : List Rat) (thr : Rat) :
    Mir.Gen.beat.p_score ref est thr = (Beat.pScore ref est thr).map Num.val :=
  Mir.PyBeat.gen_p_score_eq_model ref est thr

/-- the translated code is, step by step, the literal model (trains, full correlation, slice) after validation -/
theorem p_score_eq_literal (ref est : List Rat) (thr : Rat) :
    Mir.Gen.beat.p_score ref est thr = (do validate ref est; pScoreLiteral ref est thr).map Num.val :=
  Mir.PyBeat.gen_p_score_eq_literal ref est thr

/-- the documented default of `p_score_threshold` is 0.2 -/
theorem p_score_default (ref est : List Rat) :
    Mir.Gen.beat.p_score ref est = (Beat.pScore ref est (1 / 5)).map Num.val := by
  have h := p_score_eq_model ref est ((1 : Rat) / 5)
  exact h

/-- C01 / C14 on the translated `p_score`: on every validated input it returns a FINITE, non-negative number (never an
    exception, never nan — in particular when all reference beats fall into one 10 ms sample). -/
theorem gen_p_score_total (ref est : List Rat) (thr : Rat) (hv : validate ref est = .ok ()) :
    Mir.Gen.beat.p_score ref est thr = .ok (Num.val (pScoreCore ref est thr)) ∧ 0 ≤ pScoreCore ref est thr := by
  have hd := Mir.C01.Beat.p_score_defined ref est thr hv
  refine ⟨by rw [p_score_eq_model, hd]; rfl, Mir.C01.Beat.p_score_nonneg ref est thr _ hd⟩

/-- C04 on the translated `p_score`: **McKinney's definition for thresholds in [0, 1]** (the documented default is 0.2) —
    for all validated beat sequences with at least two beats each whose reference beats do not all fall into one sample,
    the translated code returns the number of pairs of quantised reference / estimated samples at most `win` samples apart
    divided by `max(|ref|, |est|)`. -/
theorem gen_p_score_definition_unit_threshold (r r' : Rat) (rs : List Rat) (e e' : Rat) (es : List Rat) (thr : Rat)
    (win : Int) (N cnt : Nat) (hv : validate (r :: r' :: rs) (e :: e' :: es) = .ok ())
    (h : pScoreParts r (r' :: rs) e (e' :: es) thr = some (win, N, cnt)) (h0 : 0 ≤ thr) (h1 : thr ≤ 1) :
    Mir.Gen.beat.p_score (r :: r' :: rs) (e :: e' :: es) thr = .ok (Num.val
      ((windowPairs (trainSupport (r :: r' :: rs) (min (minList e (e' :: es)) (minList r (r' :: rs))))
        (trainSupport (e :: e' :: es) (min (minList e (e' :: es)) (minList r (r' :: rs)))) win : Rat) /
        ((max (es.length + 2) (rs.length + 2) : Nat) : Rat))) := by
  rw [(gen_p_score_total _ _ thr hv).1,
    (Mir.C04.Beat.pscore_definition_unit_threshold r r' rs e e' es thr win N cnt h h0 h1).2]

/-- degenerate inputs on the translated `p_score`: fewer than two beats on either side give 0 (after validation) -/
theorem gen_p_score_degenerate (ref est : List Rat) (thr : Rat) (hv : validate ref est = .ok ())
    (h : ref.length ≤ 1 ∨ est.length ≤ 1) : Mir.Gen.beat.p_score ref est thr = .ok (Num.val 0) := by
  rw [(gen_p_score_total _ _ thr hv).1, (Mir.C04.Beat.pscore_degenerate ref est thr).1 h]

/-- invalid input (unsorted / beyond MAX_TIME): the translated `p_score` raises what `validate` raises -/
theorem gen_p_score_invalid (ref est : List Rat) (thr : Rat) (e : PyErr) (hv : validate ref est = .error e) :
    Mir.Gen.beat.p_score ref est thr = .error e := by
  rw [p_score_eq_model]; unfold Beat.pScore; rw [hv]; rfl

example : Mir.Gen.beat.trim_beats [4, 5, 6] = .ok [5, 6] := by decide +kernel
example : (Mir.Gen.beat._get_reference_beat_variations [1, 2, 4]).map asList
    = .ok [[1, 2, 4], [3 / 2, 3], [1, 3 / 2, 2, 3, 4], [1, 4], [2]] := by decide +kernel
example : Mir.Gen.beat.p_score [6, 5] [5, 6] 1 = .error .valueError := gen_p_score_invalid _ _ _ _ (by decide +kernel)
example : Mir.Gen.beat.p_score [5, 6, 7] [5] 1 = .ok (Num.val 0) :=
  gen_p_score_degenerate _ _ _ (by decide +kernel) (by decide)
example : Mir.Gen.beat.p_score [5, 11 / 2] [5, 11 / 2] = .ok (Num.val 1) := by
  rw [(gen_p_score_total _ _ _ (by decide +kernel)).1]; decide +kernel

end Mir.C04.GenBeat
