import MirGen.EvalGlue
import MirProofs.Props.C04_GenGlue
/-!
# C04 (generated `evaluate` glue) — `onset.evaluate`, `tempo.evaluate` as regenerated from the source equal the hand models

`lean/MirGen/EvalGlue.lean` is regenerated on every run by `harness/translate/evalglue.py` (a configuration of the
`alignment` translator): `**kwargs` routed through `util.filter_kwargs` to the one keyword the metric has (`window` / `tol`,
default taken from the metric's regenerated signature), the OrderedDict in insertion order.  The metric itself is the
definition of the `evglue` part, proved equal to the hand model in `C04_GenGlue`; composing gives `evaluate = model` for ALL
inputs and keyword values.
-/
namespace Mir.C04.GenEvalGlue
open Mir Mir.PyAl
open Mir.Segment (Num)

/-- `onset.evaluate` as translated = the hand model's `Onset.evaluate` (keys `F-measure`, `Precision`, `Recall`, in order) -/
theorem onset_evaluate_eq (r e : List Rat) (w : Option Rat) :
    Gen.onset.evaluate r e w = (Onset.evaluate r e w).map fun kv => kv.map fun p => (p.1, SVal.num (.val p.2)) := by
  unfold Gen.onset.evaluate Onset.evaluate
  rw [Mir.C04.GenGlue.onset_f_measure_eq_model]
  cases Onset.fMeasure r e (w.getD (1 / 20)) with
  | error x => rfl
  | ok s => rfl

/-- `tempo.evaluate` as translated = the hand model's `Tempo.evaluate` (keys `P-score`, `One-correct`, `Both-correct`) -/
theorem tempo_evaluate_eq (r : List Rat) (wt : Rat) (e : List Rat) (tol : Option Rat) :
    Gen.tempo.evaluate r wt e tol = (Tempo.evaluate r wt e tol).map fun s =>
      [("P-score", SVal.num (.val s.1)), ("One-correct", SVal.bool s.2.1), ("Both-correct", SVal.bool s.2.2)] := by
  unfold Gen.tempo.evaluate Tempo.evaluate
  rw [Mir.C04.GenGlue.tempo_detection_eq_model]
  cases Tempo.detection r wt e (tol.getD (2 / 25)) with
  | error x => rfl
  | ok s => rfl

/-- the keyword defaults are the documented ones (`window = 0.05`, `tol = 0.08`) -/
theorem onset_evaluate_default (r e : List Rat) :
    Gen.onset.evaluate r e = (Onset.fMeasure r e (1 / 20)).map fun s =>
      [("F-measure", SVal.num (.val s.1)), ("Precision", SVal.num (.val s.2.1)), ("Recall", SVal.num (.val s.2.2))] := by
  rw [onset_evaluate_eq]
  unfold Onset.evaluate
  simp only [Option.getD_none]
  cases Onset.fMeasure r e (1 / 20) with
  | error x => rfl
  | ok s => rfl

example : Gen.tempo.evaluate [60, 120] (1 / 2) [60, 180] none =
    .ok [("P-score", .num (.val (1 / 2))), ("One-correct", .bool true), ("Both-correct", .bool false)] := by decide +kernel

end Mir.C04.GenEvalGlue
