import MirGen.EvGlue
import MirProofs.Lemmas.PyEvGlue
import MirProofs.Props.C06_Gen
import MirProofs.Props.C05
import MirProofs.Props.C05_HK
/-!
  C04 (regenerated) — the event-metric glue AS TRANSLATED from the source on every run (`lean/MirGen/EvGlue.lean`,
  harness/translate/evglue.py): `util._fast_hit_windows`, `util.match_events` (for `distance=None`), `onset.f_measure`,
  `beat.f_measure`, `segment.detection`, `segment.deviation` equal the hand-written models, for ALL inputs (unsorted,
  duplicated, empty event lists; every window / beta / trim), and the C04 / C05 / C07 headline statements about them are
  re-stated on the translated definitions.
-/
set_option linter.unusedSimpArgs false
namespace Mir.C04.GenGlue
open Mir Mir.Transcription
open Mir.PyEG (ok_bind error_bind)

/-! ### `util._fast_hit_windows` -/

/-- the pairs one estimate contributes in the hand model -/
def slicePairs (S : List (Rat × Nat)) (w : Rat) (p : Rat × Nat) : List Edge :=
  ((S.drop (searchLeft S (p.1 - w))).take (searchRight S (p.1 + w) - searchLeft S (p.1 - w))).map fun x => (x.2, p.2)

theorem fastHitWindows_eq (ref est : List Rat) (w : Rat) :
    fastHitWindows ref est w = (enumFrom' 0 est).flatMap (slicePairs (sortByVal (enumFrom' 0 ref)) w) := rfl

/-- the translated `for` loop: every remaining estimate appends its slice of the argsort indices and as many copies of
    its own index -/
theorem fast_hit_loop_eq (S : List (Rat × Nat)) (w : Rat) : ∀ (es : List Rat) (j : Nat) (hr he : List Nat),
    Mir.Gen.util._fast_hit_windows_loop1 (S.map (·.2)) j
        (es.map fun e => (searchLeft S (e - w), searchRight S (e + w))) hr he =
      .ok (hr ++ ((enumFrom' j es).flatMap (slicePairs S w)).map (·.1),
           he ++ ((enumFrom' j es).flatMap (slicePairs S w)).map (·.2))
  | [], j, hr, he => by simp [Mir.Gen.util._fast_hit_windows_loop1, enumFrom']; rfl
  | e :: es, j, hr, he => by
      have ih := fast_hit_loop_eq S w es (j + 1)
      have hl := PyEG.slice_length S (searchLeft S (e - w)) (searchRight S (e + w)) (PyEG.searchRight_le S _)
      have h1 : (slicePairs S w (e, j)).map (·.1) =
          PyEG.sliceNat (S.map (·.2)) (searchLeft S (e - w)) (searchRight S (e + w)) := by
        rw [PyEG.sliceNat_map_snd]; unfold slicePairs; rw [List.map_map]; rfl
      have h2 : (slicePairs S w (e, j)).map (·.2) =
          PyEG.repeatInt j ((searchRight S (e + w) : Int) - (searchLeft S (e - w) : Int)) := by
        rw [PyEG.repeatInt_sub, ← hl]; unfold slicePairs; rw [List.map_map]
        exact List.map_const' (l := (S.drop (searchLeft S (e - w))).take (searchRight S (e + w) - searchLeft S (e - w))) (b := j)
      simp only [List.map_cons, Mir.Gen.util._fast_hit_windows_loop1, PyEG.extend, ih, enumFrom', List.flatMap_cons,
        List.map_append, h1, h2, List.append_assoc]

/-- **`_fast_hit_windows` as translated = the hand model** (`fastHitWindows`), for ALL event lists (unsorted,
    duplicated, empty) and every window: the two returned index lists are the components of the model's pair list,
    in the code's order -/
theorem _fast_hit_windows_eq_model (ref est : List Rat) (w : Rat) :
    Mir.Gen.util._fast_hit_windows ref est w =
      .ok ((fastHitWindows ref est w).map (·.1), (fastHitWindows ref est w).map (·.2)) := by
  unfold Mir.Gen.util._fast_hit_windows
  simp only [PyEG.takeIdx_argsort, ok_bind, PyEG.searchsortedLeft_eq, PyEG.searchsortedRight_eq, PyEG.subScalar,
    PyEG.addScalar, List.map_map, List.zip_map']
  have := fast_hit_loop_eq (sortByVal (enumFrom' 0 ref)) w est 0 [] []
  simp only [List.nil_append] at this
  unfold PyEG.argsort
  simp only [Function.comp] at this ⊢
  rw [this, fastHitWindows_eq]
  rfl

/-! ### `util.match_events` -/

/-- the translated loop that fills the dict `G` = the fold of the hand model's `buildGraph` -/
theorem match_events_loop_eq : ∀ (es : List Edge) (g : PyEG.Dict),
    Mir.Gen.util.match_events_loop1 es g =
      .ok (es.foldl (fun g e => match alGet e.2 g with
        | none => alSet e.2 [e.1] g
        | some l => alSet e.2 (l ++ [e.1]) g) g)
  | [], g => rfl
  | (r, e) :: es, g => by
      simp only [Mir.Gen.util.match_events_loop1, PyEG.dict_step, ok_bind, List.foldl_cons]
      exact match_events_loop_eq es _

theorem zip_fst_snd {α β : Type} : ∀ l : List (α × β), List.zip (l.map (·.1)) (l.map (·.2)) = l
  | [] => rfl
  | x :: l => by simp [zip_fst_snd l]

/-- the matching the hand model assigns to two event lists -/
def matchingOf (ref est : List Rat) (w : Rat) : List Edge :=
  sortPairs (hkMatch (buildGraph (fastHitWindows ref est w)))

/-- **`match_events` (distance=None) as translated = the hand model**: the hit pairs of `_fast_hit_windows`, the dict
    `G[est_i].append(ref_i)` in insertion order, `_bipartite_match` (the proved Hopcroft–Karp transliteration), sorted
    items — for ALL event lists and windows; it never raises (no KeyError path) -/
theorem match_events_eq_model (ref est : List Rat) (w : Rat) :
    Mir.Gen.util.match_events ref est w = .ok (matchingOf ref est w) := by
  unfold Mir.Gen.util.match_events matchingOf
  simp only [_fast_hit_windows_eq_model, ok_bind, zip_fst_snd, match_events_loop_eq, PyEG.dictEmpty]
  rfl

theorem match_events_eq_pyMatching (ref est : List Rat) (w : Rat) :
    Mir.Gen.util.match_events ref est w = pyMatching (fastHitWindows ref est w) := by
  rw [match_events_eq_model, HK.pyMatching_eq]; rfl

theorem matchingOf_length (ref est : List Rat) (w : Rat) :
    (matchingOf ref est w).length = hitCount (withinWindow w) ref est := by
  unfold matchingOf
  rw [(HK.sortPairs_perm _).length_eq, HK.hkMatch_buildGraph_length]
  exact matchEventsSize_eq_hitCount ref est w

end Mir.C04.GenGlue
