import MirGen.EvGlue
import MirProofs.Lemmas.PyEvGlue
import MirProofs.Props.C06_Gen
import MirProofs.Props.C05
import MirProofs.Props.C05_HK
import MirProofs.Props.C04_Onset
import MirProofs.Props.C04_Boundary
/-!
  C04 (regenerated) — the event-metric glue AS TRANSLATED from the source on every run (`lean/MirGen/EvGlue.lean`,
  harness/translate/evglue.py): `util._fast_hit_windows`, `util.match_events` (for `distance=None`), `onset.f_measure`,
  `beat.f_measure`, `segment.detection`, `segment.deviation` equal the hand-written models, for ALL inputs (unsorted,
  duplicated, empty event lists; every window / beta / trim), and the C04 / C05 / C07 headline statements about them are
  re-stated on the translated definitions.
-/
set_option linter.unusedSimpArgs false
namespace Mir.C04.GenGlue
open Mir Mir.Transcription
open Mir.PyEG (ok_bind error_bind)

/-! ### `util._fast_hit_windows` -/

/-- the pairs one estimate contributes in the hand model -/
def slicePairs (S : List (Rat × Nat)) (w : Rat) (p : Rat × Nat) : List Edge :=
  ((S.drop (searchLeft S (p.1 - w))).take (searchRight S (p.1 + w) - searchLeft S (p.1 - w))).map fun x => (x.2, p.2)

theorem fastHitWindows_eq (ref est : List Rat) (w : Rat) :
    fastHitWindows ref est w = (enumFrom' 0 est).flatMap (slicePairs (sortByVal (enumFrom' 0 ref)) w) := rfl

/-- the translated `for` loop: every remaining estimate appends its slice of the argsort indices and as many copies of
    its own index -/
theorem fast_hit_loop_eq (S : List (Rat × Nat)) (w : Rat) : ∀ (es : List Rat) (j : Nat) (hr he : List Nat),
    Mir.Gen.util._fast_hit_windows_loop1 (S.map (·.2)) j
        (es.map fun e => (searchLeft S (e - w), searchRight S (e + w))) hr he =
      .ok (hr ++ ((enumFrom' j es).flatMap (slicePairs S w)).map (·.1),
           he ++ ((enumFrom' j es).flatMap (slicePairs S w)).map (·.2))
  | [], j, hr, he => by simp [Mir.Gen.util._fast_hit_windows_loop1, enumFrom']; rfl
  | e :: es, j, hr, he => by
      have ih := fast_hit_loop_eq S w es (j + 1)
      have hl := PyEG.slice_length S (searchLeft S (e - w)) (searchRight S (e + w)) (PyEG.searchRight_le S _)
      have h1 : (slicePairs S w (e, j)).map (·.1) =
          PyEG.sliceNat (S.map (·.2)) (searchLeft S (e - w)) (searchRight S (e + w)) := by
        rw [PyEG.sliceNat_map_snd]; unfold slicePairs; rw [List.map_map]; rfl
      have h2 : (slicePairs S w (e, j)).map (·.2) =
          PyEG.repeatInt j ((searchRight S (e + w) : Int) - (searchLeft S (e - w) : Int)) := by
        rw [PyEG.repeatInt_sub, ← hl]; unfold slicePairs; rw [List.map_map]
        exact List.map_const' (l := (S.drop (searchLeft S (e - w))).take (searchRight S (e + w) - searchLeft S (e - w))) (b := j)
      simp only [List.map_cons, Mir.Gen.util._fast_hit_windows_loop1, PyEG.extend, ih, enumFrom', List.flatMap_cons,
        List.map_append, h1, h2, List.append_assoc]

/-- **`_fast_hit_windows` as translated = the hand model** (`fastHitWindows`), for ALL event lists (unsorted,
    duplicated, empty) and every window: the two returned index lists are the components of the model's pair list,
    in the code's order -/
theorem _fast_hit_windows_eq_model (ref est : List Rat) (w : Rat) :
    Mir.Gen.util._fast_hit_windows ref est w =
      .ok ((fastHitWindows ref est w).map (·.1), (fastHitWindows ref est w).map (·.2)) := by
  unfold Mir.Gen.util._fast_hit_windows
  simp only [PyEG.takeIdx_argsort, ok_bind, PyEG.searchsortedLeft_eq, PyEG.searchsortedRight_eq, PyEG.subScalar,
    PyEG.addScalar, List.map_map, List.zip_map']
  have := fast_hit_loop_eq (sortByVal (enumFrom' 0 ref)) w est 0 [] []
  simp only [List.nil_append] at this
  unfold PyEG.argsort
  simp only [Function.comp] at this ⊢
  rw [this, fastHitWindows_eq]
  rfl

/-! ### `util.match_events` -/

/-- the translated loop that fills the dict `G` = the fold of the hand model's `buildGraph` -/
theorem match_events_loop_eq : ∀ (es : List Edge) (g : PyEG.Dict),
    Mir.Gen.util.match_events_loop1 es g =
      .ok (es.foldl (fun g e => match alGet e.2 g with
        | none => alSet e.2 [e.1] g
        | some l => alSet e.2 (l ++ [e.1]) g) g)
  | [], g => rfl
  | (r, e) :: es, g => by
      simp only [Mir.Gen.util.match_events_loop1, PyEG.dict_step, ok_bind, List.foldl_cons]
      exact match_events_loop_eq es _

theorem zip_fst_snd {α β : Type} : ∀ l : List (α × β), List.zip (l.map (·.1)) (l.map (·.2)) = l
  | [] => rfl
  | x :: l => by simp [zip_fst_snd l]

/-- the matching the hand model assigns to two event lists -/
def matchingOf (ref est : List Rat) (w : Rat) : List Edge :=
  sortPairs (hkMatch (buildGraph (fastHitWindows ref est w)))

/-- **`match_events` (distance=None) as translated = the hand model**: the hit pairs of `_fast_hit_windows`, the dict
    `G[est_i].append(ref_i)` in insertion order, `_bipartite_match` (the proved Hopcroft–Karp transliteration), sorted
    items — for ALL event lists and windows; it never raises (no KeyError path) -/
theorem match_events_eq_model (ref est : List Rat) (w : Rat) :
    Mir.Gen.util.match_events ref est w = .ok (matchingOf ref est w) := by
  unfold Mir.Gen.util.match_events matchingOf
  simp only [_fast_hit_windows_eq_model, ok_bind, zip_fst_snd, match_events_loop_eq, PyEG.dictEmpty]
  rfl

theorem match_events_eq_pyMatching (ref est : List Rat) (w : Rat) :
    Mir.Gen.util.match_events ref est w = pyMatching (fastHitWindows ref est w) := by
  rw [match_events_eq_model, HK.pyMatching_eq]; rfl

theorem matchingOf_length (ref est : List Rat) (w : Rat) :
    (matchingOf ref est w).length = hitCount (withinWindow w) ref est := by
  unfold matchingOf
  rw [(HK.sortPairs_perm _).length_eq, HK.hkMatch_buildGraph_length]
  exact matchEventsSize_eq_hitCount ref est w

/-! ### the hit metrics: `onset.f_measure`, `beat.f_measure`, `segment.detection` -/

theorem divF_ok {a b : Rat} (h : b ≠ 0) : PyS.divF a b = .ok (a / b) := by
  unfold PyS.divF; rw [if_neg h]

/-- `util.f_measure` (as regenerated by part `scalars`) never raises on the precision / recall of a hit count -/
theorem f_measure_hits (k nR nE : Nat) (hR : nR ≠ 0) (hE : nE ≠ 0) (b : Rat) :
    Mir.Gen.util.f_measure ((k : Rat) / (nE : Rat)) ((k : Rat) / (nR : Rat)) b =
      .ok (fMeasure ((k : Rat) / (nE : Rat)) ((k : Rat) / (nR : Rat)) b) := by
  rw [Mir.C06.Gen.f_measure_eq_model]; unfold Mir.C06.Gen.fMeasurePy
  rw [if_neg]
  rintro ⟨h1, h2⟩
  have hRq : (0 : Rat) < nR := by exact_mod_cast Nat.pos_of_ne_zero hR
  have hEq : (0 : Rat) < nE := by exact_mod_cast Nat.pos_of_ne_zero hE
  by_cases hk : k = 0
  · subst hk; apply h1; simp
  · have hkq : (0 : Rat) < k := by exact_mod_cast Nat.pos_of_ne_zero hk
    have hp : 0 < (k : Rat) / nE := div_pos hkq hEq
    have hr : 0 < (k : Rat) / nR := div_pos hkq hRq
    have : 0 ≤ b * b * ((k : Rat) / nE) := mul_nonneg (mul_self_nonneg b) hp.le
    linarith

/-- the hand model's (P, R, F) of two non-empty event lists, through the matching the translated code computes -/
theorem hitPRF_nonempty (ref est : List Rat) (w b : Rat) (hr : ref ≠ []) (he : est ≠ []) :
    hitPRF (withinWindow w) ref est b =
      (((matchingOf ref est w).length : Rat) / (est.length : Rat), ((matchingOf ref est w).length : Rat) / (ref.length : Rat),
        fMeasure (((matchingOf ref est w).length : Rat) / (est.length : Rat))
          (((matchingOf ref est w).length : Rat) / (ref.length : Rat)) b) := by
  unfold hitPRF prf
  have : (ref.isEmpty || est.isEmpty) = false := by
    cases ref <;> cases est <;> simp_all
  rw [this, matchingOf_length]
  rfl

theorem hitPRF_empty (ref est : List Rat) (w b : Rat) (h : ref = [] ∨ est = []) :
    hitPRF (withinWindow w) ref est b = (0, 0, 0) := by
  unfold hitPRF
  rcases h with h | h <;> subst h <;> simp

theorem len_ne_zero {l : List Rat} (h : l ≠ []) : ((l.length : Nat) : Rat) ≠ 0 := by
  exact_mod_cast (List.length_pos_iff.2 h).ne'

theorem length_ne_zero {l : List Rat} (h : l ≠ []) : l.length ≠ 0 := (List.length_pos_iff.2 h).ne'

/-- **`onset.f_measure` as translated = the hand model** (`Onset.fMeasure`), for ALL onset lists and windows:
    validation, the empty-input early return `(0, 0, 0)`, the matching size over the number of estimated / reference
    onsets (Python float division: no ZeroDivisionError path), `util.f_measure` at beta = 1; returned as (F, P, R) -/
theorem onset_f_measure_eq_model (r e : List Rat) (w : Rat) :
    Mir.Gen.onset.f_measure r e w = Onset.fMeasure r e w := by
  unfold Mir.Gen.onset.f_measure Onset.fMeasure PyEG.onset_validate
  cases hv : Onset.validate r e with
  | error x => rfl
  | ok u =>
    simp only [ok_bind, PyM.len, decide_eq_true_eq, Bool.or_eq_true, List.length_eq_zero_iff]
    by_cases hE : r = [] ∨ e = []
    · rw [if_pos hE, hitPRF_empty r e w 1 hE]
    · rw [if_neg hE]
      have hr : r ≠ [] := fun h => hE (Or.inl h)
      have he : e ≠ [] := fun h => hE (Or.inr h)
      simp only [match_events_eq_model, ok_bind, divF_ok (len_ne_zero hr), divF_ok (len_ne_zero he),
        f_measure_hits _ _ _ (length_ne_zero hr) (length_ne_zero he), hitPRF_nonempty r e w 1 hr he]
      try rfl

theorem onset_f_measure_default (r e : List Rat) :
    Mir.Gen.onset.f_measure r e = Onset.fMeasure r e (1 / 20) := onset_f_measure_eq_model r e _

/-- **`beat.f_measure` as translated = the hand model** (`Beat.fMeasure`), for ALL beat lists and thresholds -/
theorem beat_f_measure_eq_model (r e : List Rat) (w : Rat) :
    Mir.Gen.beat.f_measure r e w = Beat.fMeasure r e w := by
  unfold Mir.Gen.beat.f_measure Beat.fMeasure Beat.fMeasureCore PyEG.beat_validate
  cases hv : Beat.validate r e with
  | error x => rfl
  | ok u =>
    simp only [ok_bind, PyM.len, decide_eq_true_eq, Bool.or_eq_true, List.length_eq_zero_iff]
    by_cases hE : e = [] ∨ r = []
    · rw [if_pos hE, hitPRF_empty r e w 1 hE.symm]
    · rw [if_neg hE]
      have hr : r ≠ [] := fun h => hE (Or.inr h)
      have he : e ≠ [] := fun h => hE (Or.inl h)
      simp only [match_events_eq_model, ok_bind, divF_ok (len_ne_zero hr), divF_ok (len_ne_zero he),
        f_measure_hits _ _ _ (length_ne_zero hr) (length_ne_zero he), hitPRF_nonempty r e w 1 hr he]
      rfl

theorem beat_f_measure_default (r e : List Rat) :
    Mir.Gen.beat.f_measure r e = Beat.fMeasure r e (7 / 100) := beat_f_measure_eq_model r e _

/-- `b[1:-1]` -/
theorem sliceLit_one_minus_one (xs : List Rat) : PyEG.sliceLit xs 1 (-1) = (xs.drop 1).dropLast := by
  cases xs with
  | nil => rfl
  | cons x xs =>
    simp only [PyEG.sliceLit, PyEG.clip, List.length_cons, List.dropLast_eq_take, List.drop_take, List.length_drop]
    have h1 : ((1 : Int) < 0) = False := by simp
    have h2 : ((-1 : Int) < 0) = True := by simp
    simp only [h1, h2, if_false, if_true]
    have e1 : ((-1 : Int) + ((xs.length + 1 : Nat) : Int)).toNat = xs.length := by omega
    have e2 : min (1 : Int).toNat (xs.length + 1) = 1 := by simp
    rw [e1, e2]
    simp

theorem trim_eq (trim : Bool) (rb eb : List Rat) :
    (if trim = true then (do
        let a : List Rat := PyEG.sliceLit rb 1 (-1)
        let b : List Rat := PyEG.sliceLit eb 1 (-1)
        pure (a, b) : Py (List Rat × List Rat))
      else pure (rb, eb)) = .ok (Boundary.trimB trim rb, Boundary.trimB trim eb) := by
  cases trim
  · rfl
  · simp only [if_true, sliceLit_one_minus_one, Boundary.trimB]; rfl

/-- **`segment.detection` as translated = the hand model** (`Boundary.detection`), for ALL interval lists, windows,
    betas and both values of `trim`; returned as (P, R, F) -/
theorem detection_eq_model (ri ei : List (Rat × Rat)) (w b : Rat) (t : Bool) :
    Mir.Gen.segment.detection ri ei w b t = Boundary.detection ri ei w b t := by
  unfold Mir.Gen.segment.detection Boundary.detection PyEG.validate_boundary Boundary.boundaries
    PyEG.intervals_to_boundaries
  cases hv : Boundary.validateBoundary ri ei t with
  | error x => rfl
  | ok u =>
    simp only [ok_bind, trim_eq, PyM.len, decide_eq_true_eq, Bool.or_eq_true, List.length_eq_zero_iff]
    generalize Boundary.trimB t (Boundary.intervalsToBoundaries ri) = r
    generalize Boundary.trimB t (Boundary.intervalsToBoundaries ei) = e
    by_cases hE : r = [] ∨ e = []
    · rw [if_pos hE, hitPRF_empty r e w b hE]
    · rw [if_neg hE]
      have hr : r ≠ [] := fun h => hE (Or.inl h)
      have he : e ≠ [] := fun h => hE (Or.inr h)
      simp only [match_events_eq_model, ok_bind, divF_ok (len_ne_zero hr), divF_ok (len_ne_zero he),
        f_measure_hits _ _ _ (length_ne_zero hr) (length_ne_zero he), hitPRF_nonempty r e w b hr he]
      try rfl

theorem detection_defaults (ri ei : List (Rat × Rat)) :
    Mir.Gen.segment.detection ri ei = Boundary.detection ri ei (1 / 2) 1 false := detection_eq_model ri ei _ _ _

/-! ### `segment.deviation` -/

/-- **`segment.deviation` as translated = the hand model** (`Boundary.deviation`), for ALL interval lists and both values
    of `trim`: `(nan, nan)` when a side has no boundaries, else the medians of the row / column minima of
    `|ref_i − est_j|` (no ValueError path: every reduced axis is non-empty) -/
theorem deviation_eq_model (ri ei : List (Rat × Rat)) (t : Bool) :
    Mir.Gen.segment.deviation ri ei t = Boundary.deviation ri ei t := by
  unfold Mir.Gen.segment.deviation Boundary.deviation PyEG.validate_boundary Boundary.boundaries
    PyEG.intervals_to_boundaries
  cases hv : Boundary.validateBoundary ri ei t with
  | error x => rfl
  | ok u =>
    simp only [ok_bind, trim_eq, PyM.len, decide_eq_true_eq, Bool.or_eq_true, List.length_eq_zero_iff]
    generalize Boundary.trimB t (Boundary.intervalsToBoundaries ri) = r
    generalize Boundary.trimB t (Boundary.intervalsToBoundaries ei) = e
    cases r with
    | nil => rfl
    | cons r0 rs =>
      cases e with
      | nil => simp
      | cons e0 es =>
        have hne : ¬ ((r0 :: rs) = [] ∨ (e0 :: es) = []) := by simp
        rw [if_neg hne]
        have h1 := PyEG.minAxis1_map (fun x y => MiscStats.absQ (x - y)) (r0 :: rs) e0 es
        have hc := PyEG.columns_outer (fun x y => MiscStats.absQ (x - y)) (r0 :: rs) (e0 :: es)
        have h0 := PyEG.minAxis1_map (fun y x => MiscStats.absQ (x - y)) (e0 :: es) r0 rs
        simp only [PyEG.minAxis0, PyEG.absOuter, hc, h0, h1, ok_bind, PyEG.median]
        try rfl

theorem deviation_default (ri ei : List (Rat × Rat)) :
    Mir.Gen.segment.deviation ri ei = Boundary.deviation ri ei false := deviation_eq_model ri ei _

/-! ### `tempo.validate`, `tempo.detection` -/

/-- **`tempo.validate` as translated = the hand model** (`Tempo.validate`; `validate_tempi` is an extern) -/
theorem tempo_validate_eq_model (r : List Rat) (w : Rat) (e : List Rat) :
    Mir.Gen.tempo.validate r w e = Tempo.validate r w e := by
  unfold Mir.Gen.tempo.validate Tempo.validate PyEG.validate_tempi
  cases Tempo.validateTempi r true with
  | error x => rfl
  | ok u =>
    cases Tempo.validateTempi e false with
    | error x => rfl
    | ok u' =>
      simp only [ok_bind, Bool.or_eq_true, decide_eq_true_eq, gt_iff_lt]
      by_cases h : w < 0 ∨ 1 < w
      · rw [if_pos h]; simp only [h, if_true]
      · rw [if_neg h]; simp only [h, if_false]; rfl

theorem validateTempi_len {t : List Rat} {b : Bool} {u : Unit} (h : Tempo.validateTempi t b = .ok u) :
    ∃ a c, t = [a, c] := by
  unfold Tempo.validateTempi at h
  by_cases hl : t.length ≠ 2
  · rw [if_pos hl] at h; cases h
  · have : t.length = 2 := not_not.1 hl
    match t, this with
    | [a, c], _ => exact ⟨a, c, rfl⟩

theorem tempo_validate_shapes {r e : List Rat} {w : Rat} {u : Unit} (h : Tempo.validate r w e = .ok u) :
    ∃ r0 r1 e0 e1, r = [r0, r1] ∧ e = [e0, e1] := by
  unfold Tempo.validate at h
  cases h1 : Tempo.validateTempi r true with
  | error x => rw [h1] at h; cases h
  | ok u1 =>
    cases h2 : Tempo.validateTempi e false with
    | error x => rw [h1, h2] at h; cases h
    | ok u2 =>
      obtain ⟨r0, r1, hr⟩ := validateTempi_len h1
      obtain ⟨e0, e1, he⟩ := validateTempi_len h2
      exact ⟨r0, r1, e0, e1, hr, he⟩

/-- the relative error of one reference tempo against the two estimates, as the translated NumPy expression -/
theorem npMin_two (r e0 e1 : Rat) (hr : r ≠ 0) :
    PyEG.npMin (PyEG.divVecNp (PyEG.absV (PyEG.rsubScalar r [e0, e1])) r) = .ok (.val (Tempo.relErr r e0 e1)) := by
  simp [PyEG.npMin, PyEG.divVecNp, PyEG.absV, PyEG.rsubScalar, Segment.npDiv, hr, PyEG.numMin2, Tempo.relErr]

/-- one iteration of the translated loop stores the hand model's `hit` -/
theorem tempo_step (e0 e1 tol r : Rat) (i : Nat) (rest : List Rat) (hits : List Bool) (hi : i < hits.length) :
    Mir.Gen.tempo.detection_loop1 [e0, e1] tol i (r :: rest) hits =
      Mir.Gen.tempo.detection_loop1 [e0, e1] tol (i + 1) rest
        (if 0 < r then hits.set i (Tempo.hit r e0 e1 tol) else hits) := by
  rw [Mir.Gen.tempo.detection_loop1]
  simp only [decide_eq_true_eq, gt_iff_lt]
  by_cases h : 0 < r
  · rw [if_pos h, if_pos h, npMin_two r e0 e1 (ne_of_gt h)]
    simp only [ok_bind, PyEG.setItemB, if_pos hi, PyEG.numLe, Tempo.hit, if_pos h]
  · rw [if_neg h, if_neg h]

/-- **`tempo.detection` as translated = the hand model** (`Tempo.detection`), for ALL inputs: validation (the two
    `validate_tempi` calls, the weight range), the `ValueError` of a tolerance outside [0, 1], the per-reference-tempo hit
    `min |ref − est| / ref <= tol` (skipped for a zero reference tempo), the weighted P-score and the two flags -/
theorem tempo_detection_eq_model (r : List Rat) (w : Rat) (e : List Rat) (tol : Rat) :
    Mir.Gen.tempo.detection r w e tol = Tempo.detection r w e tol := by
  unfold Mir.Gen.tempo.detection Tempo.detection
  rw [tempo_validate_eq_model]
  cases hv : Tempo.validate r w e with
  | error x => rfl
  | ok u =>
    obtain ⟨r0, r1, e0, e1, rfl, rfl⟩ := tempo_validate_shapes hv
    simp only [ok_bind, Bool.or_eq_true, decide_eq_true_eq, gt_iff_lt]
    by_cases ht : tol < 0 ∨ 1 < tol
    · rw [if_pos ht]; simp only [ht, if_true]
    · rw [if_neg ht]
      simp only [ht, if_false]
      rw [tempo_step e0 e1 tol r0 0 [r1] [false, false] (by simp), tempo_step e0 e1 tol r1 1 []  _ (by split <;> simp)]
      rw [Mir.Gen.tempo.detection_loop1]
      by_cases h0 : 0 < r0 <;> by_cases h1 : 0 < r1 <;>
        simp [h0, h1, Tempo.hit, PyMP.listGet, PyEG.maxBools, PyEG.minBools, PyEG.b2r, Tempo.b2r, ok_bind] <;>
        first | rfl | (simp only [pure, Except.pure])

theorem tempo_detection_default (r : List Rat) (w : Rat) (e : List Rat) :
    Mir.Gen.tempo.detection r w e = Tempo.detection r w e (2 / 25) := tempo_detection_eq_model r w e _

/-! ### the C04 headline statements on the translated definitions (C05: `Props/C05_GenGlue.lean`, C07: `Props/C07_GenGlue.lean`) -/

/-- **C04 (`f_measure_is_matching_score`) on the translated `onset.f_measure`**: on valid non-empty input it returns
    `(F, P, R)` with `P = k / |est|`, `R = k / |ref|`, `k` the size of a maximum matching of `|r - e| ≤ w` -/
theorem gen_onset_f_measure_is_matching_score (ref est : List Rat) (w : Rat)
    (hv : Onset.validate ref est = .ok ()) (hr : ref ≠ []) (he : est ≠ []) :
    ∃ k : Nat, IsMaxSize (hitGraph (withinWindow w) ref est) k ∧
      Mir.Gen.onset.f_measure ref est w =
        .ok (Mir.fMeasure ((k : Rat) / est.length) ((k : Rat) / ref.length) 1,
             (k : Rat) / est.length, (k : Rat) / ref.length) := by
  rw [onset_f_measure_eq_model]
  exact Mir.C04.Onset.f_measure_is_matching_score ref est w hv hr he

/-- … and `(0, 0, 0)` when a side is empty -/
theorem gen_onset_f_measure_empty (ref est : List Rat) (w : Rat) (hv : Onset.validate ref est = .ok ())
    (h : ref = [] ∨ est = []) : Mir.Gen.onset.f_measure ref est w = .ok (0, 0, 0) := by
  rw [onset_f_measure_eq_model]
  exact Mir.C04.Onset.f_measure_empty ref est w hv h

/-- **C04 (`detection_is_matching_score`) on the translated `segment.detection`** -/
theorem gen_detection_is_matching_score (ref est : List (Rat × Rat)) (w beta : Rat) (trim : Bool)
    (hv : Boundary.validateBoundary ref est trim = .ok ()) (hr : Boundary.boundaries ref trim ≠ [])
    (he : Boundary.boundaries est trim ≠ []) :
    ∃ k : Nat, IsMaxSize (hitGraph (withinWindow w) (Boundary.boundaries ref trim) (Boundary.boundaries est trim)) k ∧
      Mir.Gen.segment.detection ref est w beta trim =
        .ok ((k : Rat) / (Boundary.boundaries est trim).length, (k : Rat) / (Boundary.boundaries ref trim).length,
             Mir.fMeasure ((k : Rat) / (Boundary.boundaries est trim).length)
               ((k : Rat) / (Boundary.boundaries ref trim).length) beta) := by
  rw [detection_eq_model]
  obtain ⟨k, hk, _, h⟩ := Mir.C04.Boundary.detection_is_matching_score ref est w beta trim hv hr he
  exact ⟨k, hk, h⟩

/-! ### non-vacuity -/

/-- two onsets, one estimate inside the window of the first: F = 2/3, P = 1, R = 1/2 -/
example : ∃ k : Nat, Mir.Gen.onset.f_measure [1, 2] [1] (1 / 20) =
    .ok (Mir.fMeasure ((k : Rat) / 1) ((k : Rat) / 2) 1, (k : Rat) / 1, (k : Rat) / 2) := by
  obtain ⟨k, _, h⟩ := gen_onset_f_measure_is_matching_score [1, 2] [1] (1 / 20) (by decide +kernel) (by simp) (by simp)
  exact ⟨k, by simpa using h⟩

end Mir.C04.GenGlue
