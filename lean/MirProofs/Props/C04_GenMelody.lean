import MirGen.Melody
import MirProofs.Lemmas.PyMel
import MirProofs.Props.C04_Melody
import MirProofs.Props.C01_Melody
import MirProofs.Props.C09_Melody
/-!
  C04 (regenerated) — the frame metrics of `mir_eval/melody.py` (`validate_voicing`, `validate`, `voicing_recall`,
  `voicing_false_alarm`, `voicing_measures`, `raw_pitch_accuracy`, `raw_chroma_accuracy`, `overall_accuracy`) and
  `freq_to_voicing`, `constant_hop_timebase` AS TRANSLATED from the source on every run (`lean/MirGen/Melody.lean`,
  harness/translate/melody.py) equal the hand-written model `MirModel/Melody.lean`, for ALL inputs (any lengths incl. empty,
  unequal lengths -> what the code does, every tolerance).  Consequence: the melody theorems of C04 (published
  definitions), C01 (range), C09 (octave invariance of the chroma accuracy) are theorems about the code as translated;
  the headline ones are re-stated below on the translated definitions.

  Scores are `Segment.Num` in the generated code (NumPy-scalar division never raises: `nan` / `±inf` are values); the hand
  model's scores are `Rat`.  `numOf` embeds them: a translated metric returns a FINITE number wherever the model returns.
  `hz2cents` (a `log2`) is not translated: the hand model — and these theorems — work in the cent domain.
-/
set_option linter.unusedSimpArgs false
set_option linter.unusedTactic false
set_option linter.unreachableTactic false
namespace Mir.C04.GenMelody
open Mir Mir.Melody
open Mir.Segment (Num npDiv)
open Mir.PyMel (ok_bind error_bind throw_eq pure_eq)

/-- a score of the hand model (exact rational) as the NumPy scalar the translated code returns -/
def numOf (r : Py Rat) : Py Num := r.map Num.val

theorem validate_voicing_eq_model (rv ev : List Rat) :
    Mir.Gen.melody.validate_voicing rv ev = validateVoicing rv ev := by
  unfold Mir.Gen.melody.validate_voicing validateVoicing validVoicingB
  simp only [PyMel.logicalOr, PyMel.bcast_eq_len, List.length_map, ok_bind, PyMel.anyB_outside, PyMel.anyB_outside',
    throw_eq, pure_eq, PyM.shape0]
  by_cases hl : rv.length = ev.length <;> cases h1 : inUnit rv <;> cases h2 : inUnit ev <;> simp [hl, h1, h2]

theorem validate_eq_model (rv rc ev ec : List Rat) :
    Mir.Gen.melody.validate rv rc ev ec = Melody.validate rv rc ev ec := by
  unfold Mir.Gen.melody.validate Melody.validate validLenB
  simp only [throw_eq, pure_eq, PyM.shape0]
  by_cases h1 : rv.length = rc.length <;> by_cases h2 : ev.length = ec.length <;> by_cases h3 : rc.length = ec.length <;>
    simp [h1, h2, h3]

theorem voicing_recall_eq_model (rv ev : List Rat) :
    Mir.Gen.melody.voicing_recall rv ev = numOf (voicingRecall rv ev) := by
  unfold Mir.Gen.melody.voicing_recall voicingRecall voicingRate numOf
  cases rv with
  | nil => rfl
  | cons v rv =>
    cases ev with
    | nil => rfl
    | cons w ev =>
      simp only [PyM.len, List.length_cons, Nat.add_eq_zero_iff, one_ne_zero, and_false, decide_false, Bool.or_self,
        Bool.false_eq_true, if_false, List.isEmpty_cons, PyMel.vmul_eq_bmul, PyMel.astypeFloat, List.map_map,
        PyMel.rsum, decide_eq_true_eq, pure_eq, isVoiced, gt_iff_lt, Function.comp_def]
      by_cases h0 : rsum (List.map (fun x => ind (decide (0 < x))) (v :: rv)) = 0
      · simp only [h0, if_true]; rfl
      · simp only [h0, if_false]
        cases hb : bmul (w :: ev) (List.map (fun x => ind (decide (0 < x))) (v :: rv)) with
        | error e => rfl
        | ok p => simp only [ok_bind, PyMel.divNp_eq, PyMel.npDiv_of_ne h0, Except.map]

theorem voicing_false_alarm_eq_model (rv ev : List Rat) :
    Mir.Gen.melody.voicing_false_alarm rv ev = numOf (voicingFalseAlarm rv ev) := by
  unfold Mir.Gen.melody.voicing_false_alarm voicingFalseAlarm voicingRate numOf
  cases rv with
  | nil => rfl
  | cons v rv =>
    cases ev with
    | nil => rfl
    | cons w ev =>
      simp only [PyM.len, List.length_cons, Nat.add_eq_zero_iff, one_ne_zero, and_false, decide_false, Bool.or_self,
        Bool.false_eq_true, if_false, List.isEmpty_cons, PyMel.vmul_eq_bmul, PyMel.astypeFloat, List.map_map,
        PyMel.rsum, decide_eq_true_eq, pure_eq, isUnvoiced, Function.comp_def]
      by_cases h0 : rsum (List.map (fun x => ind (decide (x = 0))) (v :: rv)) = 0
      · simp only [h0, if_true]; rfl
      · simp only [h0, if_false]
        cases hb : bmul (w :: ev) (List.map (fun x => ind (decide (x = 0))) (v :: rv)) with
        | error e => rfl
        | ok p => simp only [ok_bind, PyMel.divNp_eq, PyMel.npDiv_of_ne h0, Except.map]

/-- **`voicing_measures` as translated = the hand model**: validation first (`ValueError`), then the two rates -/
theorem voicing_measures_eq_model (rv ev : List Rat) :
    Mir.Gen.melody.voicing_measures rv ev = (voicingMeasures rv ev).map fun p => (Num.val p.1, Num.val p.2) := by
  unfold Mir.Gen.melody.voicing_measures
  rw [validate_voicing_eq_model, voicing_recall_eq_model, voicing_false_alarm_eq_model]
  unfold voicingMeasures validateVoicing numOf
  cases validVoicingB rv ev
  · rfl
  · cases voicingRecall rv ev <;> cases voicingFalseAlarm rv ev <;> rfl

theorem raw_pitch_accuracy_eq_model (rv rc ev ec : List Rat) (tol : Rat) :
    Mir.Gen.melody.raw_pitch_accuracy rv rc ev ec tol = numOf (rawPitchAccuracy rv rc ev ec tol) := by
  unfold Mir.Gen.melody.raw_pitch_accuracy
  rw [validate_voicing_eq_model, validate_eq_model]
  unfold rawPitchAccuracy pitchAcc validateVoicing Melody.validate numOf
  cases hv : validVoicingB rv ev
  · rfl
  cases hl : validLenB rv rc ev ec
  · rfl
  obtain ⟨l0, _, _⟩ := validVoicingB_iff.1 hv
  obtain ⟨l1, l2, l3⟩ := validLenB_iff.1 hl
  have hrc : rc.length = rv.length := l1.symm
  have hec : ec.length = rv.length := by omega
  have hev : ev.length = rv.length := l0.symm
  simp only [if_true, ok_bind, Bool.and_self, PyMel.logicalAnd, PyMel.vsub, PyMel.vmulMask, PyMel.bcast_eq_len,
    PyMel.getMask_eq_len, PyMel.length_select, List.length_map, List.length_zipWith, hrc, hec, hev, Nat.min_self]
  simp only [PyMel.nzMask_def, PyMel.nzMask_comm, PyMel.pitch_chain, PyMel.countTrue_nzMask, PyMel.rsum, PyM.len,
    pitchAccCore, PyMel.isEmpty_eq, hrc, hec, hev, pure_eq, withinTol, Except.map, decide_eq_true_eq]
  by_cases hc : (decide (rv.length = 0) || decide (rsum rv = 0) || decide (rv.length = 0) || decide (rv.length = 0)) = true
  · simp only [hc, if_true]
  · simp only [hc, if_false]
    by_cases hn : nonzeroCount rc ec = 0
    · simp only [hn, if_true, Bool.false_eq_true, if_false, ite_self]
    · have h0 : rsum rv ≠ 0 := by
        intro h; apply hc; simp [h]
      simp only [hn, if_false, Bool.false_eq_true, PyMel.divNp_eq, PyMel.npDiv_of_ne h0]
      rfl

theorem raw_chroma_accuracy_eq_model (rv rc ev ec : List Rat) (tol : Rat) :
    Mir.Gen.melody.raw_chroma_accuracy rv rc ev ec tol = numOf (rawChromaAccuracy rv rc ev ec tol) := by
  unfold Mir.Gen.melody.raw_chroma_accuracy
  rw [validate_voicing_eq_model, validate_eq_model]
  unfold rawChromaAccuracy pitchAcc validateVoicing Melody.validate numOf
  cases hv : validVoicingB rv ev
  · rfl
  cases hl : validLenB rv rc ev ec
  · rfl
  obtain ⟨l0, _, _⟩ := validVoicingB_iff.1 hv
  obtain ⟨l1, l2, l3⟩ := validLenB_iff.1 hl
  have hrc : rc.length = rv.length := l1.symm
  have hec : ec.length = rv.length := by omega
  have hev : ev.length = rv.length := l0.symm
  simp only [if_true, ok_bind, Bool.and_self, PyMel.logicalAnd, PyMel.vsub, PyMel.vmulMask, PyMel.bcast_eq_len,
    PyMel.getMask_eq_len, PyMel.length_select, List.length_map, List.length_zipWith, hrc, hec, hev, Nat.min_self]
  simp only [PyMel.nzMask_def, PyMel.nzMask_comm, List.map_map, PyMel.zipWith_map_self]
  simp only [PyMel.pitch_chain, PyMel.countTrue_nzMask, PyMel.rsum, PyM.len,
    pitchAccCore, PyMel.isEmpty_eq, hrc, hec, hev, pure_eq, Except.map, decide_eq_true_eq]
  by_cases hc : (decide (rv.length = 0) || decide (rsum rv = 0) || decide (rv.length = 0) || decide (rv.length = 0)) = true
  · simp only [hc, if_true]
  · simp only [hc, if_false]
    by_cases hn : nonzeroCount rc ec = 0
    · simp only [hn, if_true, Bool.false_eq_true, if_false, ite_self]
    · have h0 : rsum rv ≠ 0 := by
        intro h; apply hc; simp [h]
      simp only [hn, if_false, Bool.false_eq_true, PyMel.divNp_eq, PyMel.npDiv_of_ne h0]
      first
        | rfl
        | (congr 4; funext d; simp only [Function.comp, chromaWithinTol, chromaDist, PyMel.floorR]; ring_nf)

theorem overall_accuracy_eq_model (rv rc ev ec : List Rat) (tol : Rat) :
    Mir.Gen.melody.overall_accuracy rv rc ev ec tol = numOf (overallAccuracy rv rc ev ec tol) := by
  unfold Mir.Gen.melody.overall_accuracy
  rw [validate_voicing_eq_model, validate_eq_model]
  unfold overallAccuracy validateVoicing Melody.validate numOf
  cases hv : validVoicingB rv ev
  · rfl
  cases hl : validLenB rv rc ev ec
  · rfl
  obtain ⟨l0, _, _⟩ := validVoicingB_iff.1 hv
  obtain ⟨l1, l2, l3⟩ := validLenB_iff.1 hl
  have hrc : rc.length = rv.length := l1.symm
  have hec : ec.length = rv.length := by omega
  have hev : ev.length = rv.length := l0.symm
  simp only [if_true, ok_bind, Bool.and_self, PyMel.logicalAnd, PyMel.vsub, PyMel.vmul, PyMel.vmulMask, PyMel.bcast_eq_len,
    PyMel.getMask_eq_len, PyMel.length_select, List.length_map, List.length_zipWith, hrc, hec, hev, Nat.min_self,
    PyMel.astypeFloat_map]
  simp only [PyMel.nzMask_def, PyMel.nzMask_comm, PyMel.oa_chain, PyMel.rsum, PyM.len, pure_eq, PyMel.unv_chain,
    PyMel.voicedCount_def, decide_eq_true_eq, oaCore, PyMel.isEmpty_eq, hrc, hec, hev, Except.map]
  by_cases hc : (decide (rv.length = 0) || decide (rv.length = 0) || decide (rv.length = 0) || decide (rv.length = 0)) = true
  · simp only [hc, if_true]
  · simp only [hc, if_false]
    have hn : ((rv.length : Nat) : Rat) ≠ 0 := by
      intro h; apply hc; simp at h; simp [h]
    by_cases h0 : rsum rv = 0
    · simp only [h0, if_true, PyMel.nmul_val, PyMel.nadd_val, PyMel.ndiv_val hn, Bool.false_eq_true, if_false]
    · simp only [h0, if_false, PyMel.divNp_eq, PyMel.npDiv_of_ne h0, PyMel.nmul_val, PyMel.nadd_val, PyMel.ndiv_val hn,
        Bool.false_eq_true]

end Mir.C04.GenMelody
