import MirGen.Melody
import MirProofs.Lemmas.PyMel
import MirProofs.Props.C04_Melody
import MirProofs.Props.C01_Melody
import MirProofs.Props.C09_Melody
import MirProofs.Props.C07_Melody
/-!
  C04 (regenerated) — the frame metrics of `mir_eval/melody.py` (`validate_voicing`, `validate`, `voicing_recall`,
  `voicing_false_alarm`, `voicing_measures`, `raw_pitch_accuracy`, `raw_chroma_accuracy`, `overall_accuracy`) and
  `freq_to_voicing`, `constant_hop_timebase`, `evaluate` (its glue around the extern `to_cent_voicing`) AS TRANSLATED from the source on every run (`lean/MirGen/Melody.lean`,
  harness/translate/melody.py) equal the hand-written model `MirModel/Melody.lean`, for ALL inputs (any lengths incl. empty,
  unequal lengths -> what the code does, every tolerance).  Consequence: the melody theorems of C04 (published
  definitions), C01 (range), C09 (octave invariance of the chroma accuracy) are theorems about the code as translated;
  the headline ones are re-stated below on the translated definitions.

  Scores are `Segment.Num` in the generated code (NumPy-scalar division never raises: `nan` / `±inf` are values); the hand
  model's scores are `Rat`.  `numOf` embeds them: a translated metric returns a FINITE number wherever the model returns.
  `hz2cents` (a `log2`) is not translated: the hand model — and these theorems — work in the cent domain.
-/
set_option linter.unusedSimpArgs false
set_option linter.unusedTactic false
set_option linter.unreachableTactic false
namespace Mir.C04.GenMelody
open Mir Mir.Melody
open Mir.Segment (Num npDiv)
open Mir.PyMel (ok_bind error_bind throw_eq pure_eq)

/-- a score of the hand model (exact rational) as the NumPy scalar the translated code returns -/
def numOf (r : Py Rat) : Py Num := r.map Num.val

/-- **`validate_voicing` as translated = the hand model**, for ALL pairs of arrays: `ValueError` iff the lengths differ or
    an entry of either array lies outside [0, 1] (the `for voicing in [ref_voicing, est_voicing]` loop is unrolled; the four
    warning blocks are dropped) -/
theorem validate_voicing_eq_model (rv ev : List Rat) :
    Mir.Gen.melody.validate_voicing rv ev = validateVoicing rv ev := by
  unfold Mir.Gen.melody.validate_voicing validateVoicing validVoicingB
  simp only [PyMel.logicalOr, PyMel.bcast_eq_len, List.length_map, ok_bind, PyMel.anyB_outside, PyMel.anyB_outside',
    throw_eq, pure_eq, PyM.shape0]
  by_cases hl : rv.length = ev.length <;> cases h1 : inUnit rv <;> cases h2 : inUnit ev <;> simp [hl, h1, h2]

/-- **`validate` as translated = the hand model**: `ValueError` iff the four lengths are not all equal -/
theorem validate_eq_model (rv rc ev ec : List Rat) :
    Mir.Gen.melody.validate rv rc ev ec = Melody.validate rv rc ev ec := by
  unfold Mir.Gen.melody.validate Melody.validate validLenB
  simp only [throw_eq, pure_eq, PyM.shape0]
  by_cases h1 : rv.length = rc.length <;> by_cases h2 : ev.length = ec.length <;> by_cases h3 : rc.length = ec.length <;>
    simp [h1, h2, h3]

/-- **`voicing_recall` as translated = the hand model**, for ALL arrays — no validation here, so unequal lengths are what
    NumPy does: a length-1 operand is broadcast, anything else is a `ValueError`; an empty side gives 0, a reference
    without voiced frames 1, otherwise Σ est·[ref > 0] / Σ [ref > 0] (finite: the divisor is not 0) -/
theorem voicing_recall_eq_model (rv ev : List Rat) :
    Mir.Gen.melody.voicing_recall rv ev = numOf (voicingRecall rv ev) := by
  unfold Mir.Gen.melody.voicing_recall voicingRecall voicingRate numOf
  simp only [PyM.len, PyMel.isEmpty_eq, PyMel.vmul_eq_bmul, PyMel.astypeFloat_map, PyMel.rsum, decide_eq_true_eq, pure_eq,
    isVoiced, gt_iff_lt, PyMel.zero_eq_rat, PyMel.zero_eq_nat]
  by_cases hr : rv.length = 0
  · simp only [hr, decide_true, Bool.true_or, Bool.or_true, if_true]; rfl
  by_cases he : ev.length = 0
  · simp only [he, decide_true, Bool.true_or, Bool.or_true, if_true]; rfl
  simp only [hr, he, decide_false, Bool.or_self, Bool.false_eq_true, if_false]
  by_cases h0 : rsum (List.map (fun x => ind (decide (0 < x))) rv) = 0
  · simp only [h0, if_true]; rfl
  · simp only [h0, if_false]
    cases hb : bmul ev (List.map (fun x => ind (decide (0 < x))) rv) with
    | error e => rfl
    | ok p => simp only [ok_bind, PyMel.divNp_eq, PyMel.npDiv_of_ne h0, Except.map]

/-- **`voicing_false_alarm` as translated = the hand model**, for ALL arrays (as above with `[ref == 0]`, default 0) -/
theorem voicing_false_alarm_eq_model (rv ev : List Rat) :
    Mir.Gen.melody.voicing_false_alarm rv ev = numOf (voicingFalseAlarm rv ev) := by
  unfold Mir.Gen.melody.voicing_false_alarm voicingFalseAlarm voicingRate numOf
  simp only [PyM.len, PyMel.isEmpty_eq, PyMel.vmul_eq_bmul, PyMel.astypeFloat_map, PyMel.rsum, decide_eq_true_eq, pure_eq,
    isUnvoiced, gt_iff_lt, PyMel.zero_eq_rat, PyMel.zero_eq_nat]
  by_cases hr : rv.length = 0
  · simp only [hr, decide_true, Bool.true_or, Bool.or_true, if_true]; rfl
  by_cases he : ev.length = 0
  · simp only [he, decide_true, Bool.true_or, Bool.or_true, if_true]; rfl
  simp only [hr, he, decide_false, Bool.or_self, Bool.false_eq_true, if_false]
  by_cases h0 : rsum (List.map (fun x => ind (decide (x = 0))) rv) = 0
  · simp only [h0, if_true]; rfl
  · simp only [h0, if_false]
    cases hb : bmul ev (List.map (fun x => ind (decide (x = 0))) rv) with
    | error e => rfl
    | ok p => simp only [ok_bind, PyMel.divNp_eq, PyMel.npDiv_of_ne h0, Except.map]

/-- **`voicing_measures` as translated = the hand model**: validation first (`ValueError`), then the two rates -/
theorem voicing_measures_eq_model (rv ev : List Rat) :
    Mir.Gen.melody.voicing_measures rv ev = (voicingMeasures rv ev).map fun p => (Num.val p.1, Num.val p.2) := by
  unfold Mir.Gen.melody.voicing_measures
  rw [validate_voicing_eq_model, voicing_recall_eq_model, voicing_false_alarm_eq_model]
  unfold voicingMeasures validateVoicing numOf
  cases validVoicingB rv ev
  · rfl
  · cases voicingRecall rv ev <;> cases voicingFalseAlarm rv ev <;> rfl

/-- **`raw_pitch_accuracy` as translated = the hand model**, for ALL four arrays and every tolerance: the two validators
    (`ValueError`), the early zeros, the mask `np.logical_and(est != 0, ref != 0)`, the STRICT comparison with the
    tolerance, the division by Σ ref_voicing (finite: the early return has excluded 0) -/
theorem raw_pitch_accuracy_eq_model (rv rc ev ec : List Rat) (tol : Rat) :
    Mir.Gen.melody.raw_pitch_accuracy rv rc ev ec tol = numOf (rawPitchAccuracy rv rc ev ec tol) := by
  unfold Mir.Gen.melody.raw_pitch_accuracy
  rw [validate_voicing_eq_model, validate_eq_model]
  unfold rawPitchAccuracy pitchAcc validateVoicing Melody.validate numOf
  cases hv : validVoicingB rv ev
  · rfl
  cases hl : validLenB rv rc ev ec
  · rfl
  obtain ⟨l0, _, _⟩ := validVoicingB_iff.1 hv
  obtain ⟨l1, l2, l3⟩ := validLenB_iff.1 hl
  have hrc : rc.length = rv.length := l1.symm
  have hec : ec.length = rv.length := by omega
  have hev : ev.length = rv.length := l0.symm
  simp only [if_true, ok_bind, Bool.and_self, PyMel.logicalAnd, PyMel.vsub, PyMel.vmulMask, PyMel.bcast_eq_len,
    PyMel.getMask_eq_len, PyMel.length_select, List.length_map, List.length_zipWith, hrc, hec, hev, Nat.min_self]
  simp only [PyMel.nzMask_def, PyMel.nzMask_swap ec rc, PyMel.absdiff_swap ec rc, PyMel.pitch_chain,
    PyMel.countTrue_nzMask, PyMel.rsum, PyM.len, pitchAccCore, PyMel.isEmpty_eq, hrc, hec, hev, pure_eq, withinTol,
    Except.map, decide_eq_true_eq, PyMel.zero_eq_rat, PyMel.zero_eq_nat]
  by_cases hn0 : rv.length = 0
  · simp only [hn0, decide_true, Bool.true_or, Bool.or_true, if_true]
  by_cases h0 : rsum rv = 0
  · simp only [h0, decide_true, Bool.true_or, Bool.or_true, if_true]
  simp only [hn0, h0, decide_false, Bool.or_self, Bool.false_eq_true, if_false]
  by_cases hn : nonzeroCount rc ec = 0
  · simp only [hn, if_true]
  · simp only [hn, if_false, PyMel.divNp_eq, PyMel.npDiv_of_ne h0]
    rfl

/-- **`raw_chroma_accuracy` as translated = the hand model**: the same with the distance folded by
    `d - 1200·floor(d/1200 + 0.5)` (= `chromaDist`) -/
theorem raw_chroma_accuracy_eq_model (rv rc ev ec : List Rat) (tol : Rat) :
    Mir.Gen.melody.raw_chroma_accuracy rv rc ev ec tol = numOf (rawChromaAccuracy rv rc ev ec tol) := by
  unfold Mir.Gen.melody.raw_chroma_accuracy
  rw [validate_voicing_eq_model, validate_eq_model]
  unfold rawChromaAccuracy pitchAcc validateVoicing Melody.validate numOf
  cases hv : validVoicingB rv ev
  · rfl
  cases hl : validLenB rv rc ev ec
  · rfl
  obtain ⟨l0, _, _⟩ := validVoicingB_iff.1 hv
  obtain ⟨l1, l2, l3⟩ := validLenB_iff.1 hl
  have hrc : rc.length = rv.length := l1.symm
  have hec : ec.length = rv.length := by omega
  have hev : ev.length = rv.length := l0.symm
  simp only [if_true, ok_bind, Bool.and_self, PyMel.logicalAnd, PyMel.vsub, PyMel.vmulMask, PyMel.bcast_eq_len,
    PyMel.getMask_eq_len, PyMel.length_select, List.length_map, List.length_zipWith, hrc, hec, hev, Nat.min_self]
  simp only [PyMel.nzMask_def, PyMel.nzMask_swap ec rc, PyMel.absdiff_swap ec rc, List.map_map, PyMel.zipWith_map_self]
  simp only [PyMel.pitch_chain, PyMel.countTrue_nzMask, PyMel.rsum, PyM.len,
    pitchAccCore, PyMel.isEmpty_eq, hrc, hec, hev, pure_eq, Except.map, decide_eq_true_eq, PyMel.zero_eq_rat,
    PyMel.zero_eq_nat]
  by_cases hn0 : rv.length = 0
  · simp only [hn0, decide_true, Bool.true_or, Bool.or_true, if_true]
  by_cases h0 : rsum rv = 0
  · simp only [h0, decide_true, Bool.true_or, Bool.or_true, if_true]
  simp only [hn0, h0, decide_false, Bool.or_self, Bool.false_eq_true, if_false]
  by_cases hn : nonzeroCount rc ec = 0
  · simp only [hn, if_true]
  · simp only [hn, if_false, PyMel.divNp_eq, PyMel.npDiv_of_ne h0]
    first
      | rfl
      | (congr 4; funext d; simp only [Function.comp, chromaWithinTol, chromaDist, PyMel.floorR]; ring_nf)

/-- **`overall_accuracy` as translated = the hand model**, for ALL inputs: ratio = Σ[ref > 0] / Σ ref (0 when Σ ref = 0),
    (ratio · Σ ref·est·correct over the pitched frames + Σ (1 - [ref > 0])·(1 - est)) / number of frames — every NumPy-scalar
    operation of the source is finite on this path (`ndiv`, `nadd`, `nmul` never meet nan / inf) -/
theorem overall_accuracy_eq_model (rv rc ev ec : List Rat) (tol : Rat) :
    Mir.Gen.melody.overall_accuracy rv rc ev ec tol = numOf (overallAccuracy rv rc ev ec tol) := by
  unfold Mir.Gen.melody.overall_accuracy
  rw [validate_voicing_eq_model, validate_eq_model]
  unfold overallAccuracy validateVoicing Melody.validate numOf
  cases hv : validVoicingB rv ev
  · rfl
  cases hl : validLenB rv rc ev ec
  · rfl
  obtain ⟨l0, _, _⟩ := validVoicingB_iff.1 hv
  obtain ⟨l1, l2, l3⟩ := validLenB_iff.1 hl
  have hrc : rc.length = rv.length := l1.symm
  have hec : ec.length = rv.length := by omega
  have hev : ev.length = rv.length := l0.symm
  simp only [if_true, ok_bind, Bool.and_self, PyMel.logicalAnd, PyMel.vsub, PyMel.vmul, PyMel.vmulMask, PyMel.bcast_eq_len,
    PyMel.getMask_eq_len, PyMel.length_select, List.length_map, List.length_zipWith, hrc, hec, hev, Nat.min_self,
    PyMel.astypeFloat_map]
  simp only [PyMel.nzMask_def, PyMel.nzMask_swap ec rc, PyMel.absdiff_swap ec rc, PyMel.oa_chain, PyMel.rsum, PyM.len,
    pure_eq, PyMel.unv_chain, PyMel.voicedCount_def, decide_eq_true_eq, oaCore, PyMel.isEmpty_eq, hrc, hec, hev, Except.map,
    PyMel.zero_eq_rat, PyMel.zero_eq_nat]
  by_cases hn0 : rv.length = 0
  · simp only [hn0, decide_true, Bool.true_or, Bool.or_true, Bool.or_self, if_true]
  have hn : ((rv.length : Nat) : Rat) ≠ 0 := by exact_mod_cast hn0
  simp only [hn0, decide_false, Bool.or_self, Bool.false_eq_true, if_false]
  by_cases h0 : rsum rv = 0
  · simp only [h0, if_true, PyMel.nmul_val, PyMel.nadd_val, PyMel.ndiv_val hn]
  · simp only [h0, if_false, PyMel.divNp_eq, PyMel.npDiv_of_ne h0, PyMel.nmul_val, PyMel.nadd_val, PyMel.ndiv_val hn]

/-! ### `freq_to_voicing`, `constant_hop_timebase` -/

theorem zipWith_mask_flip {α : Type} (p : α → Bool) (c : Rat) (fs : List α) (v : List Rat) :
    List.zipWith (fun x b => if b = true then c else x) v (fs.map p) =
      List.zipWith (fun f x => if p f = true then c else x) fs v := by
  induction fs generalizing v with
  | nil => cases v <;> rfl
  | cons f fs ih => cases v with
    | nil => rfl
    | cons x v => simp only [List.map_cons, List.zipWith_cons_cons, ih]

/-- **`freq_to_voicing` as translated = the hand model**, for every Hz array and every optional voicing array (a given
    voicing array of another length: `IndexError`, except against an empty frequency array — NumPy accepts an empty mask) -/
theorem freq_to_voicing_eq_model (fs : List Freq) (voicing : Option (List Rat)) :
    Mir.Gen.melody.freq_to_voicing fs voicing = freqToVoicing fs voicing := by
  unfold Mir.Gen.melody.freq_to_voicing freqToVoicing
  cases voicing with
  | none => simp only [PyMel.astypeFloat_map, pure_eq, gt_iff_lt]
  | some v =>
    simp only [PyMel.maskAssign, List.length_map, PyMel.isEmpty_eq, decide_eq_true_eq]
    by_cases h0 : fs.length = 0
    · have : fs = [] := List.length_eq_zero_iff.1 h0
      subst this
      simp only [List.length_nil, if_true, ok_bind, pure_eq, List.map_nil]
    · simp only [h0, if_false]
      by_cases h1 : v.length = fs.length
      · simp only [h1, if_true, ok_bind, pure_eq, zipWith_mask_flip, decide_eq_true_eq]
      · simp only [h1, if_false, error_bind]


theorem pyInt_floor (a : Rat) : PyMel.pyInt (PyMel.npFloor (.val a)) = .ok a.floor := by
  simp only [PyMel.npFloor, PyMel.pyInt, PyMel.floorR, Rat.floor_intCast]
  congr 1
  split
  · rfl
  · rw [← Int.cast_neg, Rat.floor_intCast, neg_neg]

/-- **`constant_hop_timebase` as translated = the hand model**, for every hop and end time: `hop = 0` gives `int(nan)`
    (ValueError) or `int(inf)` (OverflowError), a negative sample count the ValueError of `np.linspace`, otherwise the
    rounded grid `0, hop, …, hop·⌊end/hop⌋` -/
theorem constant_hop_timebase_eq_model (hop endTime : Rat) :
    Mir.Gen.melody.constant_hop_timebase hop endTime = constantHopTimebase hop endTime := by
  unfold Mir.Gen.melody.constant_hop_timebase constantHopTimebase
  simp only [PyMel.round10, PyMel.divNp_eq]
  by_cases hh : hop = 0
  · subst hh
    by_cases he : round10 endTime = 0
    · simp only [he, npDiv, if_true]; rfl
    · simp only [he, npDiv, if_true, if_false]; rfl
  · simp only [hh, if_false, PyMel.npDiv_of_ne hh, pyInt_floor, ok_bind, PyMel.linspace, pure_eq]
    generalize (round10 endTime / hop).floor = k
    by_cases hk : k + 1 < 0
    · simp only [hk, if_true, error_bind]
    · simp only [hk, if_false, ok_bind, List.map_map]
      congr 1
      apply List.map_congr_left
      intro i hi
      simp only [Function.comp, List.mem_range] at hi ⊢
      congr 1
      by_cases k0 : k = 0
      · subst k0
        have : i = 0 := by simpa using hi
        subst this
        simp
      · have : ((k : Int) : Rat) ≠ 0 := by exact_mod_cast k0
        push_cast
        rw [zero_add, sub_zero, add_sub_cancel_right, mul_div_assoc, div_self this, mul_one, mul_comm]

/-! ### documented defaults of the translated signatures -/

/-- the translated `cent_tolerance` defaults are the documented 50 cents -/
theorem cent_tolerance_defaults (rv rc ev ec : List Rat) :
    Mir.Gen.melody.raw_pitch_accuracy rv rc ev ec = Mir.Gen.melody.raw_pitch_accuracy rv rc ev ec 50 ∧
    Mir.Gen.melody.raw_chroma_accuracy rv rc ev ec = Mir.Gen.melody.raw_chroma_accuracy rv rc ev ec 50 ∧
    Mir.Gen.melody.overall_accuracy rv rc ev ec = Mir.Gen.melody.overall_accuracy rv rc ev ec 50 :=
  ⟨rfl, rfl, rfl⟩

/-! ### the headline statements of C04 / C01 / C09 / C07 on the translated definitions -/

theorem numOf_ok {r : Py Rat} {x : Num} (h : numOf r = .ok x) : ∃ q, r = .ok q ∧ x = .val q := by
  cases r with
  | error e => cases h
  | ok q => exact ⟨q, rfl, by injection h with h; exact h.symm⟩

/-- C04 on the code as translated: voicing recall = (# frames voiced in both) / (# voiced reference frames), 1 when
    the reference has none (binary estimated voicing) -/
theorem gen_voicing_recall_spec {rv ev : List Rat} (hlen : rv.length = ev.length) (hb : isBinary ev = true)
    (hne : rv ≠ []) :
    Mir.Gen.melody.voicing_recall rv ev = .ok (.val (if nRefVoiced rv = 0 then 1 else
      (((List.zip rv ev).countP fun p => isVoiced p.1 && isVoiced p.2 : Nat) : Rat) / (nRefVoiced rv : Rat))) := by
  rw [voicing_recall_eq_model, Mir.C04.Melody.voicing_recall_spec hlen hb hne]; rfl

/-- C04: voicing false alarm = (# frames unvoiced in the reference, voiced in the estimate) / (# unvoiced reference
    frames), 0 when every reference frame is voiced -/
theorem gen_voicing_false_alarm_spec {rv ev : List Rat} (hlen : rv.length = ev.length) (hb : isBinary ev = true)
    (hne : rv ≠ []) :
    Mir.Gen.melody.voicing_false_alarm rv ev = .ok (.val (if rv.countP isUnvoiced = 0 then 0 else
      (((List.zip rv ev).countP fun p => isUnvoiced p.1 && isVoiced p.2 : Nat) : Rat) /
        ((rv.countP isUnvoiced : Nat) : Rat))) := by
  rw [voicing_false_alarm_eq_model, Mir.C04.Melody.voicing_false_alarm_spec hlen hb hne]; rfl

/-- C04: raw pitch accuracy = (# voiced reference frames whose estimate is STRICTLY within `tol` cents) / (# voiced
    reference frames), 0 if there is none -/
theorem gen_raw_pitch_accuracy_spec {rv rc ev ec : List Rat} {tol : Rat}
    (hv : validVoicingB rv ev = true) (hl : validLenB rv rc ev ec = true) (hb : isBinary rv = true) :
    Mir.Gen.melody.raw_pitch_accuracy rv rc ev ec tol = .ok (.val (if nRefVoiced rv = 0 then 0 else
      (nCorrect (fun d => decide (d < tol)) rv rc ec : Rat) / (nRefVoiced rv : Rat))) := by
  rw [raw_pitch_accuracy_eq_model, Mir.C04.Melody.raw_pitch_accuracy_spec hv hl hb]; rfl

/-- C04: raw chroma accuracy, the same with the distance folded onto the nearest multiple of an octave
    (`chroma_dist_spec`: `chromaDist d` is attained, minimal, in [0, 600]) -/
theorem gen_raw_chroma_accuracy_spec {rv rc ev ec : List Rat} {tol : Rat}
    (hv : validVoicingB rv ev = true) (hl : validLenB rv rc ev ec = true) (hb : isBinary rv = true) :
    Mir.Gen.melody.raw_chroma_accuracy rv rc ev ec tol = .ok (.val (if nRefVoiced rv = 0 then 0 else
      (nCorrect (fun d => decide (chromaDist d < tol)) rv rc ec : Rat) / (nRefVoiced rv : Rat))) := by
  rw [raw_chroma_accuracy_eq_model, Mir.C04.Melody.raw_chroma_accuracy_spec hv hl hb]; rfl

/-- C04: overall accuracy = (# frames voiced in both with a correct pitch + # frames unvoiced in both) / # frames -/
theorem gen_overall_accuracy_spec {rv rc ev ec : List Rat} {tol : Rat}
    (hv : validVoicingB rv ev = true) (hl : validLenB rv rc ev ec = true)
    (hb : isBinary rv = true) (hbe : isBinary ev = true) (hne : rv ≠ []) :
    Mir.Gen.melody.overall_accuracy rv rc ev ec tol = .ok (.val
      (((((Mir.C04.Melody.frames rv rc ev ec).countP fun p => isVoiced p.1 && isVoiced p.2.2.1 &&
            (decide (p.2.2.2 ≠ 0) && decide (p.2.1 ≠ 0) && decide ((p.2.1 - p.2.2.2).abs < tol)) : Nat) : Rat) +
        (((List.zip rv ev).countP fun p => !isVoiced p.1 && !isVoiced p.2 : Nat) : Rat)) / (rv.length : Rat))) := by
  rw [overall_accuracy_eq_model, Mir.C04.Melody.overall_accuracy_spec hv hl hb hbe hne]; rfl

/-- C01 on the code as translated: whenever a translated frame metric returns, the value is a FINITE number in [0, 1]
    (binary and continuous voicings, every tolerance, every cent array) -/
theorem gen_frame_metrics_range {rv rc ev ec : List Rat} {tol : Rat} {x : Num}
    (h : Mir.Gen.melody.raw_pitch_accuracy rv rc ev ec tol = .ok x ∨
         Mir.Gen.melody.raw_chroma_accuracy rv rc ev ec tol = .ok x ∨
         Mir.Gen.melody.overall_accuracy rv rc ev ec tol = .ok x) :
    ∃ q : Rat, x = .val q ∧ 0 ≤ q ∧ q ≤ 1 := by
  rcases h with h | h | h
  · rw [raw_pitch_accuracy_eq_model] at h
    obtain ⟨q, hq, rfl⟩ := numOf_ok h
    exact ⟨q, rfl, Mir.C01.Melody.raw_pitch_accuracy_range hq⟩
  · rw [raw_chroma_accuracy_eq_model] at h
    obtain ⟨q, hq, rfl⟩ := numOf_ok h
    exact ⟨q, rfl, Mir.C01.Melody.raw_chroma_accuracy_range hq⟩
  · rw [overall_accuracy_eq_model] at h
    obtain ⟨q, hq, rfl⟩ := numOf_ok h
    exact ⟨q, rfl, Mir.C01.Melody.overall_accuracy_range hq⟩

/-- C01: the translated `voicing_measures` returns two finite numbers in [0, 1] whenever it returns -/
theorem gen_voicing_measures_range {rv ev : List Rat} {a b : Num}
    (h : Mir.Gen.melody.voicing_measures rv ev = .ok (a, b)) :
    ∃ p q : Rat, a = .val p ∧ b = .val q ∧ (0 ≤ p ∧ p ≤ 1) ∧ (0 ≤ q ∧ q ≤ 1) := by
  rw [voicing_measures_eq_model] at h
  cases hm : voicingMeasures rv ev with
  | error e => rw [hm] at h; cases h
  | ok pq =>
    obtain ⟨p, q⟩ := pq
    rw [hm] at h
    injection h with h
    injection h with h1 h2
    have := Mir.C01.Melody.voicing_measures_range hm
    exact ⟨p, q, h1.symm, h2.symm, this.1, this.2⟩

/-- C14-style totality on the code as translated: a translated frame metric returns exactly on the inputs its two
    validators accept (equal lengths, voicings in [0, 1]); everything else is a `ValueError` -/
theorem gen_frame_metrics_total (rv rc ev ec : List Rat) (tol : Rat) :
    (validVoicingB rv ev && validLenB rv rc ev ec) = true ∧
      (∃ x, Mir.Gen.melody.raw_pitch_accuracy rv rc ev ec tol = .ok (.val x)) ∧
      (∃ x, Mir.Gen.melody.raw_chroma_accuracy rv rc ev ec tol = .ok (.val x)) ∧
      (∃ x, Mir.Gen.melody.overall_accuracy rv rc ev ec tol = .ok (.val x))
    ∨ (validVoicingB rv ev && validLenB rv rc ev ec) = false ∧
      Mir.Gen.melody.raw_pitch_accuracy rv rc ev ec tol = .error .valueError ∧
      Mir.Gen.melody.raw_chroma_accuracy rv rc ev ec tol = .error .valueError ∧
      Mir.Gen.melody.overall_accuracy rv rc ev ec tol = .error .valueError := by
  rw [raw_pitch_accuracy_eq_model, raw_chroma_accuracy_eq_model, overall_accuracy_eq_model]
  unfold rawPitchAccuracy rawChromaAccuracy overallAccuracy pitchAcc numOf
  cases h : (validVoicingB rv ev && validLenB rv rc ev ec)
  · right; exact ⟨rfl, rfl, rfl, rfl⟩
  · left; exact ⟨rfl, ⟨_, rfl⟩, ⟨_, rfl⟩, ⟨_, rfl⟩⟩

/-- C09 on the code as translated: moving every pitched estimate by `k` whole octaves (no shifted pitch landing on
    0 cents = "no pitch") leaves the translated raw chroma accuracy unchanged, at every tolerance -/
theorem gen_raw_chroma_accuracy_octave (k : Int) (rv rc ev ec : List Rat) (tol : Rat)
    (hnz : ∀ e ∈ ec, e ≠ 0 → e + 1200 * (k : Rat) ≠ 0) :
    Mir.Gen.melody.raw_chroma_accuracy rv rc ev (ec.map (shiftCents (1200 * (k : Rat)))) tol =
      Mir.Gen.melody.raw_chroma_accuracy rv rc ev ec tol := by
  rw [raw_chroma_accuracy_eq_model, raw_chroma_accuracy_eq_model,
    Mir.C09.Melody.raw_chroma_accuracy_octave_est_uniform k rv rc ev ec tol hnz]

/-- C09: per-frame octave shifts (any number of octaves per frame) likewise -/
theorem gen_raw_chroma_accuracy_octave_per_frame (sh : Rat → Rat) (rv rc ev ec : List Rat) (tol : Rat)
    (hsh : ∀ e ∈ ec, (sh e = 0 ↔ e = 0) ∧ ∃ k : Int, sh e = e + 1200 * (k : Rat)) :
    Mir.Gen.melody.raw_chroma_accuracy rv rc ev (ec.map sh) tol = Mir.Gen.melody.raw_chroma_accuracy rv rc ev ec tol := by
  rw [raw_chroma_accuracy_eq_model, raw_chroma_accuracy_eq_model,
    Mir.C09.Melody.raw_chroma_accuracy_octave_est sh rv rc ev ec tol hsh]

/-- C09: joint transposition of reference and estimate leaves the three translated pitch metrics unchanged -/
theorem gen_joint_shift (δ : Rat) (rv rc ev ec : List Rat) (tol : Rat)
    (hnz : ∀ x ∈ rc ++ ec, x ≠ 0 → x + δ ≠ 0) :
    Mir.Gen.melody.raw_pitch_accuracy rv (rc.map (shiftCents δ)) ev (ec.map (shiftCents δ)) tol =
      Mir.Gen.melody.raw_pitch_accuracy rv rc ev ec tol ∧
    Mir.Gen.melody.raw_chroma_accuracy rv (rc.map (shiftCents δ)) ev (ec.map (shiftCents δ)) tol =
      Mir.Gen.melody.raw_chroma_accuracy rv rc ev ec tol ∧
    Mir.Gen.melody.overall_accuracy rv (rc.map (shiftCents δ)) ev (ec.map (shiftCents δ)) tol =
      Mir.Gen.melody.overall_accuracy rv rc ev ec tol := by
  simp only [raw_pitch_accuracy_eq_model, raw_chroma_accuracy_eq_model, overall_accuracy_eq_model,
    Mir.C09.Melody.raw_pitch_accuracy_joint_shift δ rv rc ev ec tol hnz,
    Mir.C09.Melody.raw_chroma_accuracy_joint_shift δ rv rc ev ec tol hnz,
    Mir.C09.Melody.overall_accuracy_joint_shift δ rv rc ev ec tol hnz, and_self]

/-- C04: the translated `constant_hop_timebase` is the grid `0, hop, …, n·hop` with `n·hop ≤ end < (n+1)·hop` (positive
    hop and non-negative end with at most 10 decimals) -/
theorem gen_constant_hop_timebase_spec {hop e : Rat} {zh ze : Int} (hpos : 0 < hop) (he : 0 ≤ e)
    (hh : hop * 10000000000 = (zh : Rat)) (hee : e * 10000000000 = (ze : Rat)) :
    ∃ n : Nat, Mir.Gen.melody.constant_hop_timebase hop e =
        .ok ((List.range (n + 1)).map fun (i : Nat) => hop * (i : Rat)) ∧
      hop * (n : Rat) ≤ e ∧ e < hop * ((n : Rat) + 1) := by
  rw [constant_hop_timebase_eq_model]
  exact Mir.C04.Melody.constant_hop_timebase_spec hpos he hh hee

/-- C04: the translated `freq_to_voicing(f)`: a frame is voiced iff its frequency is positive, and `|f|` is returned -/
theorem gen_freq_to_voicing_spec (fs : List Freq) :
    Mir.Gen.melody.freq_to_voicing fs none = .ok (fs.map Freq.abs, fs.map fun f => if 0 < f.sgn then 1 else 0) := by
  rw [freq_to_voicing_eq_model]
  exact (Mir.C04.Melody.freq_to_voicing_spec fs).1

/-! ### `evaluate` (its glue; `to_cent_voicing` is an extern) -/

/-- **`evaluate` as translated = the hand model**: `to_cent_voicing` (an extern: bound to the hand model) receives the six
    positional arguments and the `hop` / `kind` keywords, each of the five metrics receives the four arrays in the right order
    (the three pitch metrics also `cent_tolerance`), and the scores are stored under the five documented keys in the
    documented order; the first exception wins -/
theorem evaluate_eq_model (rt : List Rat) (rf : List Freq) (et : List Rat) (ef : List Freq)
    (ev rr : Option (List Rat)) (hop : Option Rat) (kind : Option Kind) (tol : Option Rat) :
    Mir.Gen.melody.evaluate rt rf et ef ev rr hop kind tol =
      (Melody.evaluate rt rf et ef ev rr hop (kind.getD .linear) (tol.getD 50)).map
        (List.map fun kv => (kv.1, Num.val kv.2)) := by
  unfold Mir.Gen.melody.evaluate Melody.evaluate PyMel.to_cent_voicing
  cases toCentVoicing rt rf et ef ev rr hop (kind.getD .linear) with
  | error e => rfl
  | ok cv =>
    simp only [Except.map, ok_bind, voicing_recall_eq_model, voicing_false_alarm_eq_model, raw_pitch_accuracy_eq_model,
      raw_chroma_accuracy_eq_model, overall_accuracy_eq_model, scoreAll, numOf]
    cases voicingRecall cv.refVoicing cv.estVoicing <;> try rfl
    cases voicingFalseAlarm cv.refVoicing cv.estVoicing <;> try rfl
    cases rawPitchAccuracy cv.refVoicing cv.refCent cv.estVoicing cv.estCent (tol.getD 50) <;> try rfl
    cases rawChromaAccuracy cv.refVoicing cv.refCent cv.estVoicing cv.estCent (tol.getD 50) <;> try rfl
    cases overallAccuracy cv.refVoicing cv.refCent cv.estVoicing cv.estCent (tol.getD 50) <;> rfl

/-- the documented default tolerance reaches the three pitch metrics when `cent_tolerance` is not passed, and the default
    interpolation kind is `linear` -/
theorem evaluate_defaults (rt : List Rat) (rf : List Freq) (et : List Rat) (ef : List Freq)
    (ev rr : Option (List Rat)) (hop : Option Rat) :
    Mir.Gen.melody.evaluate rt rf et ef ev rr hop =
      Mir.Gen.melody.evaluate rt rf et ef ev rr hop (some .linear) (some 50) := by
  rw [evaluate_eq_model, evaluate_eq_model]; rfl

/-- C04 / C01 / C07 on `evaluate` as translated: whenever it returns, it returns the five documented keys in the
    documented order, each with a FINITE score in [0, 1], and raw pitch accuracy ≤ raw chroma accuracy -/
theorem gen_evaluate_headline {rt : List Rat} {rf : List Freq} {et : List Rat} {ef : List Freq}
    {ev rr : Option (List Rat)} {hop : Option Rat} {kind : Option Kind} {tol : Option Rat}
    {scores : List (String × Num)} (h : Mir.Gen.melody.evaluate rt rf et ef ev rr hop kind tol = .ok scores) :
    ∃ vr vfa rpa rca oa : Rat, scores = [("Voicing Recall", .val vr), ("Voicing False Alarm", .val vfa),
        ("Raw Pitch Accuracy", .val rpa), ("Raw Chroma Accuracy", .val rca), ("Overall Accuracy", .val oa)] ∧
      rpa ≤ rca ∧ ∀ x ∈ [vr, vfa, rpa, rca, oa], 0 ≤ x ∧ x ≤ 1 := by
  rw [evaluate_eq_model] at h
  cases hm : Melody.evaluate rt rf et ef ev rr hop (kind.getD .linear) (tol.getD 50) with
  | error e => rw [hm] at h; cases h
  | ok sc =>
    obtain ⟨vr, vfa, rpa, rca, oa, hs, hle⟩ := Mir.C07.Melody.evaluate_rpa_le_rca hm
    have hr := Mir.C01.Melody.evaluate_range hm
    rw [hm] at h
    subst hs
    injection h with h
    refine ⟨vr, vfa, rpa, rca, oa, h.symm, hle, ?_⟩
    intro x hx
    simp only [List.mem_cons, List.not_mem_nil, or_false] at hx
    rcases hx with rfl | rfl | rfl | rfl | rfl
    · exact hr ("Voicing Recall", _) (by simp)
    · exact hr ("Voicing False Alarm", _) (by simp)
    · exact hr ("Raw Pitch Accuracy", _) (by simp)
    · exact hr ("Raw Chroma Accuracy", _) (by simp)
    · exact hr ("Overall Accuracy", _) (by simp)

/-! non-vacuity: the translated definitions compute (kernel evaluation of the generated code itself) -/
example : Mir.Gen.melody.voicing_recall [1, 1, 0, 1] [1, 0, 1, 1] = .ok (.val (2/3)) := by decide +kernel
example : Mir.Gen.melody.raw_pitch_accuracy [1, 1, 0, 1] [3000, 3100, 0, 3300] [1, 0, 1, 1] [3049, 3150, 0, 0] 50
    = .ok (.val (1/3)) := by decide +kernel
example : Mir.Gen.melody.raw_pitch_accuracy [1] [3000] [1] [3050] = .ok (.val 0) ∧
    Mir.Gen.melody.raw_pitch_accuracy [1] [3000] [1] [3050] 51 = .ok (.val 1) := by
  refine ⟨by decide +kernel, by decide +kernel⟩
example : Mir.Gen.melody.raw_chroma_accuracy [1, 1] [3000, 4000] [1, 1] [3010 - 2400, 4100 + 1200] 50
    = .ok (.val (1/2)) := by decide +kernel
example : Mir.Gen.melody.overall_accuracy [1, 1, 0, 0] [3000, 3100, 0, 0] [1, 0, 0, 1] [3049, 3100, 0, 3000] 50
    = .ok (.val (1/2)) := by decide +kernel
example : Mir.Gen.melody.overall_accuracy [1] [3000, 0] [1] [3000] = .error .valueError ∧
    Mir.Gen.melody.validate_voicing [1, 2] [1, 1] = .error .valueError ∧
    Mir.Gen.melody.voicing_recall [1, 1, 0] [1] = .ok (.val 1) := by
  refine ⟨by decide +kernel, by decide +kernel, by decide +kernel⟩
example : Mir.Gen.melody.constant_hop_timebase (1/4) (9/10) = .ok [0, 1/4, 1/2, 3/4] ∧
    Mir.Gen.melody.constant_hop_timebase 0 1 = .error .other ∧
    Mir.Gen.melody.constant_hop_timebase 0 0 = .error .valueError := by
  refine ⟨by decide +kernel, by decide +kernel, by decide +kernel⟩
example : Mir.Gen.melody.freq_to_voicing [⟨1, 4800⟩, ⟨-1, 5000⟩, ⟨0, 0⟩] (some [1/2, 1/2, 1/2]) =
    .ok ([⟨1, 4800⟩, ⟨1, 5000⟩, ⟨0, 0⟩], [1/2, 1/2, 0]) := by decide +kernel

end Mir.C04.GenMelody
