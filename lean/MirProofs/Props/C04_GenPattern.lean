import MirGen.Pattern
import MirProofs.Props.C14_GenVal
import MirProofs.Props.C14_Pattern
import MirProofs.Props.C04_Pattern
import MirProofs.Props.C01_Pattern

/-!
# C04 / C01 — the pattern-discovery metrics as REGENERATED from `mir_eval/pattern.py` equal the hand model

`MirGen/Pattern.lean` (`Mir.Gen.pattern.*`, written by `harness/translate/pattern.py` from the current source on every
run) is proved equal to `MirModel/Pattern.lean` for ALL pattern lists: `raw x` is the nested-list form the code
receives for the model's point lists `x` (every point a 2-list); inputs that are not of that form are exactly the
ones `validate` rejects (`gen_*_malformed`).  So every theorem about the hand model (C04 / C01 / C02 / C06 / C08 / C14
`*_Pattern.lean`) speaks about the code as translated.
-/
namespace Mir.C04.GenPattern
set_option linter.unusedSimpArgs false
set_option linter.unusedVariables false
open Mir Mir.Pattern Mir.PyPat Mir.Validate
open Mir.C14.Pattern (raw)

/-- a point as the code sees it -/
def rawPt (p : Point) : Pt := [p.1, p.2]
def rawOcc (o : Pattern.Occ) : PyPat.Occ := o.map rawPt
def rawPat (p : Pattern.Pat) : PyPat.Pat := p.map rawOcc

theorem raw_eq (x : Pattern.Pats) : raw x = x.map rawPat := rfl

theorem rawPt_inj : Function.Injective rawPt := by
  intro a b h
  simp [rawPt] at h
  exact Prod.ext h.1 h.2

/-! ## helper lemmas (not obligations of their own interest: the primitives in the model's terms) -/

theorem mem_setOf {α : Type} [DecidableEq α] (a : α) (l : List α) : a ∈ PyPat.setOf l ↔ a ∈ l := by
  induction l with
  | nil => simp [PyPat.setOf]
  | cons x xs ih =>
    unfold PyPat.setOf
    split
    · rw [ih]; constructor
      · exact fun h => List.mem_cons_of_mem _ h
      · intro h; rcases List.mem_cons.1 h with rfl | h
        · assumption
        · exact h
    · simp [ih]

theorem setOf_map (P : Pattern.Occ) : PyPat.setOf (P.map rawPt) = (dedup P).map rawPt := by
  induction P with
  | nil => simp [PyPat.setOf, dedup]
  | cons x xs ih =>
    unfold PyPat.setOf dedup
    have : rawPt x ∈ xs.map rawPt ↔ x ∈ xs := by
      simp only [List.mem_map]
      constructor
      · rintro ⟨y, hy, h⟩; rw [← rawPt_inj h]; exact hy
      · exact fun h => ⟨x, h, rfl⟩
    by_cases h : x ∈ xs
    · simp [this, h, ih]
    · simp [this, h, ih]

theorem occurrence_intersection_eq_model (P Q : Pattern.Occ) :
    Gen.pattern._occurrence_intersection (rawOcc P) (rawOcc Q) = .ok ((inter P Q).map rawPt) := by
  unfold Gen.pattern._occurrence_intersection
  simp only [rawOcc, PyPat.tuple, List.map_map, Function.comp_def, pure, Except.pure, List.map_id', bind, Except.bind]
  congr 1
  show setInter (PyPat.setOf (P.map rawPt)) (PyPat.setOf (Q.map rawPt)) = _
  rw [setOf_map]
  unfold setInter inter
  rw [List.filter_map]
  congr 1
  apply List.filter_congr
  intro p _
  simp only [Function.comp, mem_setOf]
  congr 1
  simp only [List.mem_map, eq_iff_iff]
  constructor
  · rintro ⟨y, hy, h⟩; rw [← rawPt_inj h]; exact hy
  · exact fun h => ⟨p, h, rfl⟩

theorem mapM_map_congr {α β γ : Type} (f : α → β) (g : β → Py γ) (h : α → Py γ) (l : List α)
    (hh : ∀ a ∈ l, g (f a) = h a) : (l.map f).mapM g = l.mapM h := by
  induction l with
  | nil => rfl
  | cons x xs ih =>
    simp only [List.map_cons, List.mapM_cons, hh x (by simp), ih (fun a ha => hh a (by simp [ha]))]

/-- `Py` results that carry a matrix: the generated code's `Mat` remembers the shape -/
def asMat (r c : Nat) (x : Py (List (List Rat))) : Py Mat := x.map fun d => ⟨r, c, d⟩

theorem fill2_raw {α β α' β' : Type} (fa : α → α') (fb : β → β') (xs : List α) (ys : List β)
    (g : α' → β' → Py Rat) (h : α → β → Py Rat) (hh : ∀ a b, g (fa a) (fb b) = h a b) :
    fill2 (xs.map fa) (ys.map fb) g = asMat xs.length ys.length (xs.mapM fun x => ys.mapM fun y => h x y) := by
  unfold fill2 asMat
  rw [mapM_map_congr fa _ (fun x => ys.mapM fun y => h x y) xs
    (fun a _ => mapM_map_congr fb _ _ ys (fun b _ => hh a b))]
  cases (xs.mapM fun x => ys.mapM fun y => h x y) <;> simp [bind, Except.bind, pure, Except.pure, Except.map]

theorem divF_nat (a d : Nat) :
    divF (a : Rat) (d : Rat) = if d = 0 then .error .zeroDivision else .ok ((a : Rat) / (d : Rat)) := by
  unfold divF
  by_cases h : d = 0
  · simp [h]
  · have : (d : Rat) ≠ 0 := by exact_mod_cast h
    simp [h, this]

theorem compute_score_matrix_eq_model (P Q : Pattern.Pat) (m : String) :
    Gen.pattern._compute_score_matrix (rawPat P) (rawPat Q) m
      = asMat P.length Q.length (scoreMatrix P Q m) := by
  unfold Gen.pattern._compute_score_matrix rawPat scoreMatrix
  rw [fill2_raw rawOcc rawOcc P Q _ (fun p q => if m = cardName then cardScore p q else .error .valueError)]
  intro p q
  by_cases h : m = cardName
  · have h' : m = "cardinality_score" := h
    simp only [h', decide_true, if_true, occurrence_intersection_eq_model, bind, Except.bind, List.length_map]
    simp only [rawOcc, List.length_map, divF_nat, cardScore, interCount, cardName, if_true]
  · have h' : ¬ m = "cardinality_score" := h
    simp [h', h, throw, throwThe, MonadExceptOf.throw]

end Mir.C04.GenPattern
