import MirGen.Pattern
import MirProofs.Props.C14_GenVal
import MirProofs.Props.C14_Pattern
import MirProofs.Props.C04_Pattern
import MirProofs.Props.C01_Pattern

/-!
# C04 / C01 — the pattern-discovery metrics as REGENERATED from `mir_eval/pattern.py` equal the hand model

`MirGen/Pattern.lean` (`Mir.Gen.pattern.*`, written by `harness/translate/pattern.py` from the current source on every
run) is proved equal to `MirModel/Pattern.lean` for ALL pattern lists: `raw x` is the nested-list form the code
receives for the model's point lists `x` (every point a 2-list); inputs that are not of that form are exactly the
ones `validate` rejects (`gen_*_malformed`).  So every theorem about the hand model (C04 / C01 / C02 / C06 / C08 / C14
`*_Pattern.lean`) speaks about the code as translated.
-/
namespace Mir.C04.GenPattern
set_option linter.unusedSimpArgs false
set_option linter.unusedVariables false
open Mir Mir.Pattern Mir.PyPat Mir.Validate
open Mir.C14.Pattern (raw)

/-- a point as the code sees it -/
def rawPt (p : Point) : Pt := [p.1, p.2]
def rawOcc (o : Pattern.Occ) : PyPat.Occ := o.map rawPt
def rawPat (p : Pattern.Pat) : PyPat.Pat := p.map rawOcc

theorem raw_eq (x : Pattern.Pats) : raw x = x.map rawPat := rfl

theorem rawPt_inj : Function.Injective rawPt := by
  intro a b h
  simp [rawPt] at h
  exact Prod.ext h.1 h.2

/-! ## helper lemmas (not obligations of their own interest: the primitives in the model's terms) -/

theorem mem_setOf {α : Type} [DecidableEq α] (a : α) (l : List α) : a ∈ PyPat.setOf l ↔ a ∈ l := by
  induction l with
  | nil => simp [PyPat.setOf]
  | cons x xs ih =>
    unfold PyPat.setOf
    split
    · rw [ih]; constructor
      · exact fun h => List.mem_cons_of_mem _ h
      · intro h; rcases List.mem_cons.1 h with rfl | h
        · assumption
        · exact h
    · simp [ih]

theorem setOf_map (P : Pattern.Occ) : PyPat.setOf (P.map rawPt) = (dedup P).map rawPt := by
  induction P with
  | nil => simp [PyPat.setOf, dedup]
  | cons x xs ih =>
    unfold PyPat.setOf dedup
    have : rawPt x ∈ xs.map rawPt ↔ x ∈ xs := by
      simp only [List.mem_map]
      constructor
      · rintro ⟨y, hy, h⟩; rw [← rawPt_inj h]; exact hy
      · exact fun h => ⟨x, h, rfl⟩
    by_cases h : x ∈ xs
    · simp [this, h, ih]
    · simp [this, h, ih]

theorem occurrence_intersection_eq_model (P Q : Pattern.Occ) :
    Gen.pattern._occurrence_intersection (rawOcc P) (rawOcc Q) = .ok ((inter P Q).map rawPt) := by
  unfold Gen.pattern._occurrence_intersection
  simp only [rawOcc, PyPat.tuple, List.map_map, Function.comp_def, pure, Except.pure, List.map_id', bind, Except.bind]
  congr 1
  show setInter (PyPat.setOf (P.map rawPt)) (PyPat.setOf (Q.map rawPt)) = _
  rw [setOf_map]
  unfold setInter inter
  rw [List.filter_map]
  congr 1
  apply List.filter_congr
  intro p _
  simp only [Function.comp, mem_setOf]
  congr 1
  simp only [List.mem_map, eq_iff_iff]
  constructor
  · rintro ⟨y, hy, h⟩; rw [← rawPt_inj h]; exact hy
  · exact fun h => ⟨p, h, rfl⟩

theorem mapM_map_congr {α β γ : Type} (f : α → β) (g : β → Py γ) (h : α → Py γ) (l : List α)
    (hh : ∀ a ∈ l, g (f a) = h a) : (l.map f).mapM g = l.mapM h := by
  induction l with
  | nil => rfl
  | cons x xs ih =>
    simp only [List.map_cons, List.mapM_cons, hh x (by simp), ih (fun a ha => hh a (by simp [ha]))]

/-- `Py` results that carry a matrix: the generated code's `Mat` remembers the shape -/
def asMat (r c : Nat) (x : Py (List (List Rat))) : Py Mat := x.map fun d => ⟨r, c, d⟩

theorem fill2_raw {α β α' β' : Type} (fa : α → α') (fb : β → β') (xs : List α) (ys : List β)
    (g : α' → β' → Py Rat) (h : α → β → Py Rat) (hh : ∀ a b, g (fa a) (fb b) = h a b) :
    fill2 (xs.map fa) (ys.map fb) g = asMat xs.length ys.length (xs.mapM fun x => ys.mapM fun y => h x y) := by
  unfold fill2 asMat
  rw [mapM_map_congr fa _ (fun x => ys.mapM fun y => h x y) xs
    (fun a _ => mapM_map_congr fb _ _ ys (fun b _ => hh a b))]
  cases (xs.mapM fun x => ys.mapM fun y => h x y) <;> simp [bind, Except.bind, pure, Except.pure, Except.map]

theorem divF_nat (a d : Nat) :
    divF (a : Rat) (d : Rat) = if d = 0 then .error .zeroDivision else .ok ((a : Rat) / (d : Rat)) := by
  unfold divF
  by_cases h : d = 0
  · simp [h]
  · have : (d : Rat) ≠ 0 := by exact_mod_cast h
    simp [h, this]

theorem compute_score_matrix_eq_model (P Q : Pattern.Pat) (m : String) :
    Gen.pattern._compute_score_matrix (rawPat P) (rawPat Q) m
      = asMat P.length Q.length (scoreMatrix P Q m) := by
  unfold Gen.pattern._compute_score_matrix rawPat scoreMatrix
  rw [fill2_raw rawOcc rawOcc P Q _ (fun p q => if m = cardName then cardScore p q else .error .valueError)]
  intro p q
  by_cases h : m = cardName
  · have h' : m = "cardinality_score" := h
    simp only [h', decide_true, if_true, occurrence_intersection_eq_model, bind, Except.bind, List.length_map]
    simp only [rawOcc, List.length_map, divF_nat, cardScore, interCount, cardName, if_true]
  · have h' : ¬ m = "cardinality_score" := h
    simp [h', h, throw, throwThe, MonadExceptOf.throw]

/-! ## the common prefix: `validate`, the emptiness test -/

theorem validate_raw (ref est : Pattern.Pats) :
    GenV.pattern.validate (raw ref) (raw est) = Pattern.validate ref est := by
  rw [Mir.C14.GenVal.pattern_validate_eq_model, Mir.C14.Pattern.validate_agrees]

theorem n_onset_raw (x : Pattern.Pats) : GenV.pattern._n_onset_midi (raw x) = .ok (nOnsetMidi x) := by
  rw [Mir.C14.GenVal.n_onset_midi_eq]
  congr 1
  unfold raw nOnsetMidi
  induction x with
  | nil => rfl
  | cons p ps ih =>
    simp only [List.map_cons, List.flatMap_cons, List.length_append, List.sum_cons, ih]
    congr 1
    induction p with
    | nil => rfl
    | cons o os ih2 => simp only [List.map_cons, List.flatMap_cons, List.length_append, List.sum_cons, ih2, List.length_map]

theorem validate_cases (ref est : Pattern.Pats) :
    Pattern.validate ref est = .ok () ∨ Pattern.validate ref est = .error .valueError := by
  unfold Pattern.validate; split
  · exact Or.inr rfl
  · exact Or.inl rfl

/-- `np.mean(np.max(M, axis=0))`, `np.mean(np.max(M, axis=1))` of a generated matrix are the model's reductions -/
theorem colMaxMean_mat (r c : Nat) (d : List (List Rat)) :
    (do let v ← maxAxis0 ⟨r, c, d⟩; npMean v) = colMaxMean c d := rfl
theorem rowMaxMean_mat (r c : Nat) (d : List (List Rat)) :
    (do let v ← maxAxis1 ⟨r, c, d⟩; npMean v) = rowMaxMean d := rfl

/-- the last lines of the matrix metrics: both reductions, then a continuation -/
theorem prf_tail' {α : Type} (r c : Nat) (d : List (List Rat)) (K : Rat → Rat → Py α) :
    (do let v ← maxAxis0 ⟨r, c, d⟩; let p ← npMean v; let w ← maxAxis1 ⟨r, c, d⟩; let q ← npMean w; K p q)
      = (do let p ← colMaxMean c d; let q ← rowMaxMean d; K p q) := by
  rw [← colMaxMean_mat r c d, ← rowMaxMean_mat r c d]
  cases maxAxis0 ⟨r, c, d⟩ with
  | error e => rfl
  | ok v =>
    cases h : npMean v with
    | error e => simp [bind, Except.bind, h]
    | ok p =>
      cases maxAxis1 ⟨r, c, d⟩ with
      | error e => simp [bind, Except.bind, h]
      | ok w => simp [bind, Except.bind, h]

theorem prf_tail (r c : Nat) (d : List (List Rat)) :
    (do let v ← maxAxis0 ⟨r, c, d⟩; let p ← npMean v; let w ← maxAxis1 ⟨r, c, d⟩; let q ← npMean w
        (pure (fMeasure p q, p, q) : Py (Rat × Rat × Rat)))
      = (do let p ← colMaxMean c d; let q ← rowMaxMean d; pure (fMeasure p q, p, q)) :=
  prf_tail' r c d fun p q => pure (fMeasure p q, p, q)

/-! ## establishment_FPR -/

theorem establishment_FPR_eq_model (ref est : Pattern.Pats) (m : String) :
    Gen.pattern.establishment_FPR (raw ref) (raw est) m = establishmentFPR ref est m := by
  unfold Gen.pattern.establishment_FPR establishmentFPR
  simp only [validate_raw, n_onset_raw]
  rcases validate_cases ref est with hv | hv <;> rw [hv]
  swap
  · rfl
  simp only [bind, Except.bind, pure, Except.pure, isZero]
  by_cases h1 : nOnsetMidi ref = 0
  · simp [h1]
  by_cases h2 : nOnsetMidi est = 0
  · simp [h1, h2]
  have hz : (nOnsetMidi ref == 0 || nOnsetMidi est == 0) = false := by simp [h1, h2]
  simp only [h1, h2, hz, decide_false, Bool.false_eq_true, if_false]
  rw [raw_eq, raw_eq, fill2_raw rawPat rawPat ref est _ (fun p q => do let s ← scoreMatrix p q m; maxL s.flatten)]
  · unfold asMat estMatrix
    cases (List.mapM (fun x => List.mapM (fun y => do let s ← scoreMatrix x y m; maxL s.flatten) est) ref) with
    | error e => rfl
    | ok S => exact prf_tail ref.length est.length S
  · intro p q
    show (do let s ← Gen.pattern._compute_score_matrix (rawPat p) (rawPat q) m; _) = _
    rw [compute_score_matrix_eq_model]
    cases scoreMatrix p q m <;> rfl

/-! ## three_layer_FPR (closures; `compute_layer` specialised to `layer = 1`, `layer = 2`) -/

theorem first_layer_eq_model (p q : Pattern.Occ) :
    Gen.pattern.three_layer_FPR.compute_first_layer_PR (rawOcc p) (rawOcc q) = firstLayerPR p q := by
  unfold Gen.pattern.three_layer_FPR.compute_first_layer_PR firstLayerPR
  simp only [occurrence_intersection_eq_model, bind, Except.bind, List.length_map]
  simp only [rawOcc, List.length_map, divF_nat, interCount]
  by_cases h1 : p.length = 0
  · simp [h1]
  by_cases h2 : q.length = 0
  · simp [h1, h2]
  simp [h1, h2, pure, Except.pure]

theorem layer1_eq_model (rp ep : Pattern.Pat) :
    Gen.pattern.three_layer_FPR.compute_layer_1 (rawPat rp) (rawPat ep) = asMat rp.length ep.length (layer1 rp ep) := by
  unfold Gen.pattern.three_layer_FPR.compute_layer_1 rawPat layer1
  rw [fill2_raw rawOcc rawOcc rp ep _ (fun ro eo => do let pr ← firstLayerPR ro eo; return fMeasure pr.1 pr.2)]
  intro p q
  rw [first_layer_eq_model]

theorem second_layer_eq_model (rp ep : Pattern.Pat) :
    Gen.pattern.three_layer_FPR.compute_second_layer_PR (rawPat rp) (rawPat ep) = secondLayerPR rp ep := by
  unfold Gen.pattern.three_layer_FPR.compute_second_layer_PR secondLayerPR
  rw [layer1_eq_model]
  unfold asMat
  cases layer1 rp ep with
  | error e => rfl
  | ok F => exact prf_tail' rp.length ep.length F fun p q => pure (p, q)

theorem layer2_eq_model (ref est : Pattern.Pats) :
    Gen.pattern.three_layer_FPR.compute_layer_2 (raw ref) (raw est) = asMat ref.length est.length (layer2 ref est) := by
  unfold Gen.pattern.three_layer_FPR.compute_layer_2 layer2
  rw [raw_eq, raw_eq,
    fill2_raw rawPat rawPat ref est _ (fun rp ep => do let pr ← secondLayerPR rp ep; return fMeasure pr.1 pr.2)]
  intro p q
  rw [second_layer_eq_model]

theorem three_layer_FPR_eq_model (ref est : Pattern.Pats) :
    Gen.pattern.three_layer_FPR (raw ref) (raw est) = threeLayerFPR ref est := by
  unfold Gen.pattern.three_layer_FPR threeLayerFPR
  simp only [validate_raw, n_onset_raw, layer2_eq_model]
  rcases validate_cases ref est with hv | hv <;> rw [hv]
  swap
  · rfl
  simp only [bind, Except.bind, pure, Except.pure, isZero]
  by_cases h1 : nOnsetMidi ref = 0
  · simp [h1]
  by_cases h2 : nOnsetMidi est = 0
  · simp [h1, h2]
  have hz : (nOnsetMidi ref == 0 || nOnsetMidi est == 0) = false := by simp [h1, h2]
  simp only [h1, h2, hz, decide_false, Bool.false_eq_true, if_false]
  unfold asMat
  cases layer2 ref est with
  | error e => rfl
  | ok S => exact prf_tail ref.length est.length S

/-! ## first_n_three_layer_P, first_n_target_proportion_R -/

theorem firstN_raw (est : Pattern.Pats) (n : Int) :
    pySliceTo (raw est) (minInt (((raw est).length : Nat) : Int) n) = raw (firstN est n) := by
  have hl : (raw est).length = est.length := by simp [raw]
  have hm : minInt ((est.length : Nat) : Int) n = if (est.length : Int) ≤ n then (est.length : Int) else n := by
    unfold minInt; split <;> split <;> omega
  rw [hl, hm]
  unfold firstN pySliceTo
  simp only [raw, List.length_map]
  split <;> split <;> simp only [List.map_take]

theorem first_n_three_layer_P_eq_model (ref est : Pattern.Pats) (n : Int) :
    Gen.pattern.first_n_three_layer_P (raw ref) (raw est) n = firstNThreeLayerP ref est n := by
  unfold Gen.pattern.first_n_three_layer_P firstNThreeLayerP
  simp only [validate_raw, n_onset_raw, firstN_raw, three_layer_FPR_eq_model]
  rcases validate_cases ref est with hv | hv <;> rw [hv]
  swap
  · rfl
  simp only [bind, Except.bind, pure, Except.pure, isZero]
  by_cases h1 : nOnsetMidi ref = 0
  · simp [h1]
  by_cases h2 : nOnsetMidi est = 0
  · simp [h1, h2]
  have hz : (nOnsetMidi ref == 0 || nOnsetMidi est == 0) = false := by simp [h1, h2]
  simp only [h1, h2, hz, decide_false, Bool.false_eq_true, if_false]

theorem first_n_target_proportion_R_eq_model (ref est : Pattern.Pats) (n : Int) :
    Gen.pattern.first_n_target_proportion_R (raw ref) (raw est) n = firstNTargetProportionR ref est n := by
  unfold Gen.pattern.first_n_target_proportion_R firstNTargetProportionR
  simp only [validate_raw, n_onset_raw, firstN_raw, establishment_FPR_eq_model]
  rcases validate_cases ref est with hv | hv <;> rw [hv]
  swap
  · rfl
  simp only [bind, Except.bind, pure, Except.pure, isZero]
  by_cases h1 : nOnsetMidi ref = 0
  · simp [h1]
  by_cases h2 : nOnsetMidi est = 0
  · simp [h1, h2]
  have hz : (nOnsetMidi ref == 0 || nOnsetMidi est == 0) = false := by simp [h1, h2]
  simp only [h1, h2, hz, decide_false, Bool.false_eq_true, if_false]
  rfl

/-! ## standard_FPR (nested loops with `break`, the translation test) -/

theorem sameShape_raw (P Q : Pattern.Occ) (h : P.length = Q.length) :
    sameShape (P.map rawPt) (Q.map rawPt) = true := by
  unfold sameShape
  simp only [List.length_map, h, beq_self_eq_true, Bool.true_and]
  induction P generalizing Q with
  | nil => simp
  | cons p ps ih =>
    cases Q with
    | nil => simp at h
    | cons q qs =>
      simp only [List.map_cons, List.zipWith_cons_cons, List.all_cons]
      rw [ih qs (by simpa using h)]
      rfl

/-- the rows of `P - Q` in the model's terms -/
def subRows (P Q : Pattern.Occ) : List Point := List.zipWith (fun (p q : Point) => (p.1 - q.1, p.2 - q.2)) P Q

theorem msub_raw (P Q : Pattern.Occ) (h : P.length = Q.length) :
    msub (rawOcc P) (rawOcc Q) = .ok ((subRows P Q).map rawPt) := by
  unfold msub rawOcc
  rw [sameShape_raw P Q h]
  simp only [if_true, subRows, List.zipWith_map, List.map_zipWith]
  rfl

theorem maxabs_raw (d : List Point) :
    npMaxArr (PyPat.mabs (diff0 (d.map rawPt)))
      = maxL ((List.zipWith (fun (a b : Point) => (b.1 - a.1, b.2 - a.2)) d d.tail).flatMap
          fun x => [absR x.1, absR x.2]) := by
  unfold npMaxArr PyPat.mabs diff0
  congr 1
  rw [← List.map_tail, List.zipWith_map, List.map_zipWith, List.flatMap_def, List.map_zipWith]
  rfl

theorem getItem0_raw (e : Pattern.Pat) : getItem0 (rawPat e) = (proto e).map rawOcc := by
  cases e <;> rfl

/-- the inner loop: any body that, on the prototype of an estimated pattern, breaks with `k + 1` on a match and goes
    on with `k` otherwise -/
theorem inner_loop (tol : Rat) (P : Pattern.Occ) (body : PyPat.Pat → Nat → Py (Step Nat))
    (hb : ∀ e k, body (rawPat e) k = do
      let Q ← proto e
      let m ← protoMatch tol P Q
      pure (if m then Step.brk (k + 1) else Step.next k))
    (est : Pattern.Pats) (k : Nat) :
    forLoop (raw est) k body = (matchAny tol P est).map fun m => if m then k + 1 else k := by
  induction est with
  | nil => rfl
  | cons e es ih =>
    rw [raw_eq, List.map_cons, forLoop, hb, ← raw_eq, matchAny]
    cases proto e with
    | error x => rfl
    | ok Q =>
      cases hm : protoMatch tol P Q with
      | error x => simp [bind, Except.bind, hm, Except.map]
      | ok m =>
        cases m with
        | true => simp [bind, Except.bind, hm, Except.map, pure, Except.pure]
        | false =>
          simp only [bind, Except.bind, hm, Except.map, pure, Except.pure, Bool.false_eq_true, if_false]
          rw [ih]; rfl

/-- the outer loop: any body that adds one for a reference prototype that matches some estimated prototype -/
theorem outer_loop (tol : Rat) (est : Pattern.Pats) (body : PyPat.Pat → Nat → Py (Step Nat))
    (hb : ∀ r k, body (rawPat r) k = do
      let P ← proto r
      let m ← matchAny tol P est
      pure (Step.next (if m then k + 1 else k)))
    (ref : Pattern.Pats) (k : Nat) :
    forLoop (raw ref) k body = (countMatches tol ref est).map fun c => k + c := by
  induction ref generalizing k with
  | nil => rfl
  | cons r rs ih =>
    rw [raw_eq, List.map_cons, forLoop, hb, ← raw_eq, countMatches]
    cases proto r with
    | error x => rfl
    | ok P =>
      cases hm : matchAny tol P est with
      | error x => simp [bind, Except.bind, hm, Except.map]
      | ok m =>
        simp only [bind, Except.bind, hm, pure, Except.pure]
        rw [ih]
        cases countMatches tol rs est with
        | error x => rfl
        | ok c =>
          cases m <;> simp [Except.map]; omega

theorem standard_FPR_eq_model (ref est : Pattern.Pats) (tol : Rat) :
    Gen.pattern.standard_FPR (raw ref) (raw est) tol = standardFPR ref est tol := by
  unfold Gen.pattern.standard_FPR standardFPR
  simp only [validate_raw, n_onset_raw]
  rcases validate_cases ref est with hv | hv <;> rw [hv]
  swap
  · rfl
  simp only [bind, Except.bind, pure, Except.pure, isZero]
  by_cases h1 : nOnsetMidi ref = 0
  · simp [h1]
  by_cases h2 : nOnsetMidi est = 0
  · simp [h1, h2]
  have hz : (nOnsetMidi ref == 0 || nOnsetMidi est == 0) = false := by simp [h1, h2]
  simp only [h1, h2, hz, decide_false, Bool.false_eq_true, if_false]
  rw [outer_loop tol est _ ?_ ref 0]
  · have hl : ∀ x : Pattern.Pats, (raw x).length = x.length := fun x => by simp [raw]
    cases countMatches tol ref est with
    | error x => rfl
    | ok c =>
      simp only [Except.map, hl, divF_nat, Nat.zero_add]
      by_cases he : est.length = 0
      · simp [he, throw, throwThe, MonadExceptOf.throw]
      by_cases hr : ref.length = 0
      · simp [he, hr, throw, throwThe, MonadExceptOf.throw]
      simp [he, hr]
  · intro r k
    rw [getItem0_raw]
    cases proto r with
    | error x => rfl
    | ok P =>
      simp only [Except.map, asarray]
      rw [inner_loop tol P _ ?_ est k]
      · simp only [bind, Except.bind, pure, Except.pure]
        cases matchAny tol P est <;> rfl
      · intro e k'
        rw [getItem0_raw]
        cases proto e with
        | error x => rfl
        | ok Q =>
          simp only [Except.map, protoMatch, rawOcc, List.length_map, bind, Except.bind, pure, Except.pure]
          by_cases hlen : P.length = Q.length
          · have hm := msub_raw P Q hlen
            simp only [rawOcc] at hm
            simp only [hm, maxabs_raw, diffRows, subRows]
            simp only [hlen, ne_eq, not_true_eq_false, decide_false, decide_true, Bool.true_and, if_false,
              Bool.false_eq_true, decide_eq_true_eq]
            by_cases h1 : Q.length = 1
            · simp [h1]
            · simp only [h1, if_false]
              generalize maxL _ = mx
              cases mx with
              | error x => rfl
              | ok v => by_cases hv : v < tol <;> simp [hv]
          · simp [hlen]

/-! ## occurrence_FPR (the sparse 3-D array, `rel_idx`, `np.ix_`) -/

theorem fillOpt_raw {α β α' β' : Type} (fa : α → α') (fb : β → β') (xs : List α) (ys : List β)
    (g : α' → β' → Py (Option (Rat × Rat))) (h : α → β → Py (Option (Rat × Rat)))
    (hh : ∀ a b, g (fa a) (fb b) = h a b) :
    fillOpt (xs.map fa) (ys.map fb) g
      = (xs.mapM fun x => ys.mapM fun y => h x y).map fun d => (⟨xs.length, ys.length, d⟩, relIdx d) := by
  unfold fillOpt
  rw [mapM_map_congr fa _ (fun x => ys.mapM fun y => h x y) xs
    (fun a _ => mapM_map_congr fb _ _ ys (fun b _ => hh a b))]
  cases (xs.mapM fun x => ys.mapM fun y => h x y) <;> simp [bind, Except.bind, pure, Except.pure, Except.map]

theorem occ_cell_eq_model (thres : Rat) (m : String) (p q : Pattern.Pat)
    (K : Mat → Rat → Py (Option (Rat × Rat)))
    (hK : ∀ s mx, K ⟨p.length, q.length, s⟩ mx = if thres ≤ mx then do
        let a ← colMaxMean q.length s
        let b ← rowMaxMean s
        pure (some (a, b)) else pure none) :
    (do let s ← Gen.pattern._compute_score_matrix (rawPat p) (rawPat q) m
        let mx ← npMaxMat s
        K s mx) = occCell thres m p q := by
  rw [compute_score_matrix_eq_model]
  unfold occCell asMat
  cases scoreMatrix p q m with
  | error e => rfl
  | ok s =>
    simp only [Except.map, bind, Except.bind, npMaxMat]
    cases maxL s.flatten with
    | error e => rfl
    | ok mx => simp only [hK]; rfl

theorem mapM_bind_pure {α β γ : Type} (f : α → Py β) (g : β → γ) (l : List α) :
    (l.mapM fun a => do let c ← f a; pure (g c)) = (do let r ← l.mapM f; pure (r.map g)) := by
  induction l with
  | nil => rfl
  | cons x xs ih =>
    simp only [List.mapM_cons, ih]
    cases f x with
    | error e => rfl
    | ok v => cases List.mapM f xs <;> rfl

theorem getCell_map (O : List (List (Option (Rat × Rat)))) (g : Rat × Rat → Rat) (i j : Nat) :
    getCell (O.map fun r => r.map fun c => g (c.getD (0, 0))) i j = (do let c ← lookup O i j; pure (g c)) := by
  unfold getCell lookup
  simp only [List.getElem?_map]
  cases O[i]? with
  | none => rfl
  | some row =>
    simp only [Option.map_some, List.getElem?_map]
    cases row[j]? <;> rfl

/-- the gathered cells, before a plane is chosen -/
def gathered (O : List (List (Option (Rat × Rat)))) (rel : List (Nat × Nat)) : Py (List (List (Rat × Rat))) :=
  rel.mapM fun a => rel.mapM fun b => lookup O a.1 b.2

theorem ix_plane (r c : Nat) (O : List (List (Option (Rat × Rat)))) (g : Rat × Rat → Rat) (rel : List (Nat × Nat)) :
    ix ⟨r, c, O.map fun r => r.map fun c => g (c.getD (0, 0))⟩ (relCol0 rel) (relCol1 rel)
      = (do let L ← gathered O rel; pure ⟨rel.length, rel.length, L.map fun r => r.map g⟩) := by
  unfold ix relCol0 relCol1 gathered
  rw [mapM_map_congr (fun a : Nat × Nat => a.1) _
    (fun a => do let r ← rel.mapM (fun b => lookup O a.1 b.2); pure (r.map g)) rel
    (fun a _ => by
      rw [mapM_map_congr (fun b : Nat × Nat => b.2) _ (fun b => do let c ← lookup O a.1 b.2; pure (g c)) rel
        (fun b _ => getCell_map O g a.1 b.2)]
      exact mapM_bind_pure _ g rel)]
  rw [mapM_bind_pure (fun a => rel.mapM fun b => lookup O a.1 b.2) (fun r => r.map g) rel]
  simp only [List.length_map]
  cases (rel.mapM fun a => rel.mapM fun b => lookup O a.1 b.2) <;> rfl

theorem model_gather (O : List (List (Option (Rat × Rat)))) (g : Rat × Rat → Rat) (rel : List (Nat × Nat)) :
    (rel.mapM fun a => rel.mapM fun b => do let c ← lookup O a.1 b.2; pure (g c))
      = (do let L ← gathered O rel; pure (L.map fun r => r.map g)) := by
  unfold gathered
  rw [← mapM_bind_pure (fun a => rel.mapM fun b => lookup O a.1 b.2) (fun r => r.map g) rel]
  congr 1
  funext a
  exact mapM_bind_pure _ g rel

theorem occurrence_FPR_eq_model (ref est : Pattern.Pats) (thres : Rat) (m : String) :
    Gen.pattern.occurrence_FPR (raw ref) (raw est) thres m = occurrenceFPR ref est thres m := by
  unfold Gen.pattern.occurrence_FPR occurrenceFPR
  simp only [validate_raw, n_onset_raw]
  rcases validate_cases ref est with hv | hv <;> rw [hv]
  swap
  · rfl
  simp only [bind, Except.bind, pure, Except.pure, isZero]
  by_cases h1 : nOnsetMidi ref = 0
  · simp [h1]
  by_cases h2 : nOnsetMidi est = 0
  · simp [h1, h2]
  have hz : (nOnsetMidi ref == 0 || nOnsetMidi est == 0) = false := by simp [h1, h2]
  simp only [h1, h2, hz, decide_false, Bool.false_eq_true, if_false]
  rw [raw_eq, raw_eq, fillOpt_raw rawPat rawPat ref est _ (fun p q => occCell thres m p q)]
  · unfold occMatrix
    cases (List.mapM (fun x => List.mapM (fun y => occCell thres m x y) est) ref) with
    | error e => rfl
    | ok O =>
      simp only [Except.map]
      by_cases hr : (relIdx O).length = 0
      · have : (relIdx O).isEmpty = true := by simpa using hr
        simp [hr, this]
      · have : (relIdx O).isEmpty = false := by
          cases h : relIdx O with
          | nil => simp [h] at hr
          | cons a l => rfl
        simp only [hr, this, decide_false, Bool.false_eq_true, if_false, plane0, plane1]
        have e0 := ix_plane ref.length est.length O (fun c => c.1) (relIdx O)
        have e1 := ix_plane ref.length est.length O (fun c => c.2) (relIdx O)
        have m0 := model_gather O (fun c => c.1) (relIdx O)
        have m1 := model_gather O (fun c => c.2) (relIdx O)
        simp only [bind, Except.bind, pure, Except.pure] at e0 e1 m0 m1
        rw [e0, e1, m0, m1]
        cases gathered O (relIdx O) with
        | error e => rfl
        | ok L =>
          simp only []
          rw [← colMaxMean_mat (relIdx O).length (relIdx O).length, ← rowMaxMean_mat (relIdx O).length (relIdx O).length]
          simp only [bind, Except.bind, pure, Except.pure]
          cases maxAxis0 ⟨(relIdx O).length, (relIdx O).length, L.map fun r => r.map fun c => c.1⟩ with
          | error e => rfl
          | ok v =>
            cases h : npMean v with
            | error e => simp [h]
            | ok p =>
              simp only [h]
              cases maxAxis1 ⟨(relIdx O).length, (relIdx O).length, L.map fun r => r.map fun c => c.2⟩ with
              | error e => rfl
              | ok w => cases h' : npMean w <;> simp [h']
  · intro p q
    apply occ_cell_eq_model thres m p q
    intro s mx
    by_cases hle : thres ≤ mx
    · simp only [hle, ge_iff_le, decide_true, if_true]
      exact prf_tail' p.length q.length s fun a b => pure (some (a, b))
    · simp only [hle, ge_iff_le, decide_false, Bool.false_eq_true, if_false]
      rfl

/-! ## inputs that are not point lists: `validate`'s `ValueError`, from every metric -/

theorem map_eq_self {α : Type} (f : α → α) (l : List α) (h : ∀ a ∈ l, f a = a) : l.map f = l := by
  induction l with
  | nil => rfl
  | cons x xs ih =>
    rw [List.map_cons, h x (by simp), ih (fun a ha => h a (by simp [ha]))]

/-- every nested list the validator accepts is the image of a model input … -/
theorem valid_is_raw (r : PyPat.Pats) (h : Mir.C14.ValidPatterns r) : ∃ x : Pattern.Pats, r = raw x := by
  refine ⟨r.map fun pat => pat.map fun occ => occ.map fun om => (om.getD 0 0, om.getD 1 0), ?_⟩
  unfold raw
  simp only [List.map_map]
  symm
  apply map_eq_self
  intro pat hp
  simp only [Function.comp, List.map_map]
  apply map_eq_self
  intro occ ho
  simp only [Function.comp, List.map_map]
  apply map_eq_self
  intro om hom
  have := (h pat hp).2 occ ho om hom
  match om, this with
  | [a, b], _ => rfl

/-- … and on everything else each translated metric raises `ValueError` (its first statement) -/
theorem gen_metrics_malformed (r e : PyPat.Pats)
    (h : ¬ Mir.C14.ValidPatterns r ∨ ¬ Mir.C14.ValidPatterns e) (tol thres : Rat) (m : String) (n : Int) :
    Gen.pattern.standard_FPR r e tol = .error .valueError ∧
    Gen.pattern.establishment_FPR r e m = .error .valueError ∧
    Gen.pattern.occurrence_FPR r e thres m = .error .valueError ∧
    Gen.pattern.three_layer_FPR r e = .error .valueError ∧
    Gen.pattern.first_n_three_layer_P r e n = .error .valueError ∧
    Gen.pattern.first_n_target_proportion_R r e n = .error .valueError := by
  have hv : GenV.pattern.validate r e = .error .valueError := by
    rw [Mir.C14.GenVal.pattern_validate_eq_model]; exact Mir.C14.pattern_validate_rejects h
  refine ⟨?_, ?_, ?_, ?_, ?_, ?_⟩
  · unfold Gen.pattern.standard_FPR; rw [hv]; rfl
  · unfold Gen.pattern.establishment_FPR; rw [hv]; rfl
  · unfold Gen.pattern.occurrence_FPR; rw [hv]; rfl
  · unfold Gen.pattern.three_layer_FPR; rw [hv]; rfl
  · unfold Gen.pattern.first_n_three_layer_P; rw [hv]; rfl
  · unfold Gen.pattern.first_n_target_proportion_R; rw [hv]; rfl

/-! ## defaults of the translated signatures -/

theorem gen_defaults :
    Gen.pattern.standard_FPR.default_tol = defaultTol ∧
    Gen.pattern.occurrence_FPR.default_thres = defaultThres ∧
    Gen.pattern.establishment_FPR.default_similarity_metric = cardName ∧
    Gen.pattern.occurrence_FPR.default_similarity_metric = cardName ∧
    Gen.pattern._compute_score_matrix.default_similarity_metric = cardName ∧
    Gen.pattern.first_n_three_layer_P.default_n = defaultN ∧
    Gen.pattern.first_n_target_proportion_R.default_n = defaultN := by
  refine ⟨by decide +kernel, by decide +kernel, rfl, rfl, rfl, rfl, rfl⟩

/-! ## the C04 / C01 headline statements, on the translated definitions -/

open Mir.C04.Pattern Mir.C01.Pattern in
/-- C04: the translated `establishment_FPR` is the documented establishment matrix reduction -/
theorem gen_establishment_spec (ref est : Pattern.Pats) :
    Gen.pattern.establishment_FPR (raw ref) (raw est) cardName =
      if (ref ++ est).any List.isEmpty then .error .valueError
      else if isZero ref est then .ok (0, 0, 0)
      else if anyEmptyOcc ref && anyEmptyOcc est then .error .zeroDivision
      else .ok (Spec.establishment ref est) := by
  rw [establishment_FPR_eq_model]; exact Mir.C04.Pattern.establishment_spec ref est

theorem gen_occurrence_spec (ref est : Pattern.Pats) (thres : Rat) :
    Gen.pattern.occurrence_FPR (raw ref) (raw est) thres cardName =
      if (ref ++ est).any List.isEmpty then .error .valueError
      else if isZero ref est then .ok (0, 0, 0)
      else if anyEmptyOcc ref && anyEmptyOcc est then .error .zeroDivision
      else .ok (Spec.occurrence thres ref est) := by
  rw [occurrence_FPR_eq_model]; exact Mir.C04.Pattern.occurrence_spec ref est thres

/-- C04: three layers; an empty occurrence on EITHER side is a `ZeroDivisionError` -/
theorem gen_three_layer_spec (ref est : Pattern.Pats) :
    Gen.pattern.three_layer_FPR (raw ref) (raw est) =
      if (ref ++ est).any List.isEmpty then .error .valueError
      else if isZero ref est then .ok (0, 0, 0)
      else if anyEmptyOcc ref || anyEmptyOcc est then .error .zeroDivision
      else .ok (Spec.threeLayer ref est) := by
  rw [three_layer_FPR_eq_model]; exact Mir.C04.Pattern.three_layer_spec ref est

/-- C04: `k` translation-equivalent reference prototypes, P = k / |est|, R = k / |ref| (strict `<` against `tol`) -/
theorem gen_standard_spec (ref est : Pattern.Pats) (tol : Rat) :
    Gen.pattern.standard_FPR (raw ref) (raw est) tol =
      if (ref ++ est).any List.isEmpty then .error .valueError
      else if isZero ref est then .ok (0, 0, 0)
      else if anyEmptyProto ref && anyEmptyProto est then .error .valueError
      else .ok (Spec.standard tol ref est) := by
  rw [standard_FPR_eq_model]; exact Mir.C04.Pattern.standard_spec ref est tol

theorem gen_first_n_spec (ref est : Pattern.Pats) (n : Int) :
    Gen.pattern.first_n_three_layer_P (raw ref) (raw est) n =
      (if (ref ++ est).any List.isEmpty then .error .valueError
       else if isZero ref est then .ok 0
       else (Gen.pattern.three_layer_FPR (raw ref) (raw (firstN est n))).map fun t => t.2.1) ∧
    Gen.pattern.first_n_target_proportion_R (raw ref) (raw est) n =
      (if (ref ++ est).any List.isEmpty then .error .valueError
       else if isZero ref est then .ok 0
       else (Gen.pattern.establishment_FPR (raw ref) (raw (firstN est n)) cardName).map fun t => t.2.2) := by
  rw [first_n_three_layer_P_eq_model, first_n_target_proportion_R_eq_model, three_layer_FPR_eq_model,
    establishment_FPR_eq_model]
  exact ⟨Mir.C04.Pattern.first_n_three_layer_spec ref est n, Mir.C04.Pattern.first_n_target_proportion_spec ref est n⟩

/-- C01: whenever they return, the translated establishment / occurrence / three-layer scores are in [0, 1] -/
theorem gen_matrix_metrics_range (ref est : Pattern.Pats) (thres : Rat) (t : Rat × Rat × Rat)
    (h : Gen.pattern.establishment_FPR (raw ref) (raw est) cardName = .ok t ∨
         Gen.pattern.occurrence_FPR (raw ref) (raw est) thres cardName = .ok t ∨
         Gen.pattern.three_layer_FPR (raw ref) (raw est) = .ok t) : Mir.Pattern.In01 t := by
  rcases h with h | h | h
  · rw [establishment_FPR_eq_model] at h; exact Mir.C01.Pattern.establishment_range ref est t h
  · rw [occurrence_FPR_eq_model] at h; exact Mir.C01.Pattern.occurrence_range ref est thres t h
  · rw [three_layer_FPR_eq_model] at h; exact Mir.C01.Pattern.three_layer_range ref est t h

/-- C01, the recorded finding mirrored: the translated `standard_FPR` returns precision 2 (F = 4/3) for two
    translation-equivalent references against one estimate (`k` counts references, the divisor is `nQ`) … -/
theorem gen_standard_precision_exceeds_one :
    Gen.pattern.standard_FPR (raw Mir.C01.Pattern.witnessRef) (raw Mir.C01.Pattern.witnessEst)
      Gen.pattern.standard_FPR.default_tol = .ok (4/3, 2, 1) := by
  rw [standard_FPR_eq_model]; exact Mir.C01.Pattern.standard_witness

/-- … what holds on every input: recall in [0, 1], `P ≤ |ref| / |est|`, and all three in [0, 1] when `nP ≤ nQ` -/
theorem gen_standard_range (ref est : Pattern.Pats) (tol : Rat) (t : Rat × Rat × Rat)
    (h : Gen.pattern.standard_FPR (raw ref) (raw est) tol = .ok t) :
    (0 ≤ t.2.2 ∧ t.2.2 ≤ 1) ∧ 0 ≤ t.2.1 ∧ t.2.1 ≤ (ref.length : Rat) / (est.length : Rat) ∧
      (ref.length ≤ est.length → Mir.Pattern.In01 t) := by
  rw [standard_FPR_eq_model] at h
  have a := Mir.C01.Pattern.standard_recall_range ref est tol t h
  exact ⟨a.1, a.2.1, Mir.C01.Pattern.standard_precision_bound ref est tol t h,
    fun hl => Mir.C01.Pattern.standard_precision_partial ref est tol t hl h⟩

/-! non-vacuity -/
example : Gen.pattern.establishment_FPR (raw Mir.C01.Pattern.witnessRef) (raw Mir.C01.Pattern.witnessEst) cardName
    = .ok (2/3, 1, 1/2) := by rw [establishment_FPR_eq_model]; decide +kernel
example : Gen.pattern.three_layer_FPR [[[[0, 60]], []]] [[[[0, 60]]]] = .error .zeroDivision := by
  have := three_layer_FPR_eq_model [[[(0, 60)], []]] [[[(0, 60)]]]
  simp only [raw, List.map] at this
  rw [this]; decide +kernel
example : Gen.pattern.standard_FPR [[[[0, 60, 1]]]] [[[[0, 60]]]] (1/2) = .error .valueError :=
  (gen_metrics_malformed _ _ (Or.inl (by
    intro h; have := (h _ (List.mem_singleton.2 rfl)).2 _ (List.mem_singleton.2 rfl) _ (List.mem_singleton.2 rfl)
    simp at this)) _ 0 "" 0).1

end Mir.C04.GenPattern
