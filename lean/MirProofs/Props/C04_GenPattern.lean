import MirGen.Pattern
import MirProofs.Props.C14_GenVal
import MirProofs.Props.C14_Pattern
import MirProofs.Props.C04_Pattern
import MirProofs.Props.C01_Pattern

/-!
# C04 / C01 — the pattern-discovery metrics as REGENERATED from `mir_eval/pattern.py` equal the hand model

`MirGen/Pattern.lean` (`Mir.Gen.pattern.*`, written by `harness/translate/pattern.py` from the current source on every
run) is proved equal to `MirModel/Pattern.lean` for ALL pattern lists: `raw x` is the nested-list form the code
receives for the model's point lists `x` (every point a 2-list); inputs that are not of that form are exactly the
ones `validate` rejects (`gen_*_malformed`).  So every theorem about the hand model (C04 / C01 / C02 / C06 / C08 / C14
`*_Pattern.lean`) speaks about the code as translated.
-/
namespace Mir.C04.GenPattern
set_option linter.unusedSimpArgs false
set_option linter.unusedVariables false
open Mir Mir.Pattern Mir.PyPat Mir.Validate
open Mir.C14.Pattern (raw)

/-- a point as the code sees it -/
def rawPt (p : Point) : Pt := [p.1, p.2]
def rawOcc (o : Pattern.Occ) : PyPat.Occ := o.map rawPt
def rawPat (p : Pattern.Pat) : PyPat.Pat := p.map rawOcc

theorem raw_eq (x : Pattern.Pats) : raw x = x.map rawPat := rfl

theorem rawPt_inj : Function.Injective rawPt := by
  intro a b h
  simp [rawPt] at h
  exact Prod.ext h.1 h.2

/-! ## helper lemmas (not obligations of their own interest: the primitives in the model's terms) -/

theorem mem_setOf {α : Type} [DecidableEq α] (a : α) (l : List α) : a ∈ PyPat.setOf l ↔ a ∈ l := by
  induction l with
  | nil => simp [PyPat.setOf]
  | cons x xs ih =>
    unfold PyPat.setOf
    split
    · rw [ih]; constructor
      · exact fun h => List.mem_cons_of_mem _ h
      · intro h; rcases List.mem_cons.1 h with rfl | h
        · assumption
        · exact h
    · simp [ih]

theorem setOf_map (P : Pattern.Occ) : PyPat.setOf (P.map rawPt) = (dedup P).map rawPt := by
  induction P with
  | nil => simp [PyPat.setOf, dedup]
  | cons x xs ih =>
    unfold PyPat.setOf dedup
    have : rawPt x ∈ xs.map rawPt ↔ x ∈ xs := by
      simp only [List.mem_map]
      constructor
      · rintro ⟨y, hy, h⟩; rw [← rawPt_inj h]; exact hy
      · exact fun h => ⟨x, h, rfl⟩
    by_cases h : x ∈ xs
    · simp [this, h, ih]
    · simp [this, h, ih]

theorem occurrence_intersection_eq_model (P Q : Pattern.Occ) :
    Gen.pattern._occurrence_intersection (rawOcc P) (rawOcc Q) = .ok ((inter P Q).map rawPt) := by
  unfold Gen.pattern._occurrence_intersection
  simp only [rawOcc, PyPat.tuple, List.map_map, Function.comp_def, pure, Except.pure, List.map_id', bind, Except.bind]
  congr 1
  show setInter (PyPat.setOf (P.map rawPt)) (PyPat.setOf (Q.map rawPt)) = _
  rw [setOf_map]
  unfold setInter inter
  rw [List.filter_map]
  congr 1
  apply List.filter_congr
  intro p _
  simp only [Function.comp, mem_setOf]
  congr 1
  simp only [List.mem_map, eq_iff_iff]
  constructor
  · rintro ⟨y, hy, h⟩; rw [← rawPt_inj h]; exact hy
  · exact fun h => ⟨p, h, rfl⟩

theorem mapM_map_congr {α β γ : Type} (f : α → β) (g : β → Py γ) (h : α → Py γ) (l : List α)
    (hh : ∀ a ∈ l, g (f a) = h a) : (l.map f).mapM g = l.mapM h := by
  induction l with
  | nil => rfl
  | cons x xs ih =>
    simp only [List.map_cons, List.mapM_cons, hh x (by simp), ih (fun a ha => hh a (by simp [ha]))]

/-- `Py` results that carry a matrix: the generated code's `Mat` remembers the shape -/
def asMat (r c : Nat) (x : Py (List (List Rat))) : Py Mat := x.map fun d => ⟨r, c, d⟩

theorem fill2_raw {α β α' β' : Type} (fa : α → α') (fb : β → β') (xs : List α) (ys : List β)
    (g : α' → β' → Py Rat) (h : α → β → Py Rat) (hh : ∀ a b, g (fa a) (fb b) = h a b) :
    fill2 (xs.map fa) (ys.map fb) g = asMat xs.length ys.length (xs.mapM fun x => ys.mapM fun y => h x y) := by
  unfold fill2 asMat
  rw [mapM_map_congr fa _ (fun x => ys.mapM fun y => h x y) xs
    (fun a _ => mapM_map_congr fb _ _ ys (fun b _ => hh a b))]
  cases (xs.mapM fun x => ys.mapM fun y => h x y) <;> simp [bind, Except.bind, pure, Except.pure, Except.map]

theorem divF_nat (a d : Nat) :
    divF (a : Rat) (d : Rat) = if d = 0 then .error .zeroDivision else .ok ((a : Rat) / (d : Rat)) := by
  unfold divF
  by_cases h : d = 0
  · simp [h]
  · have : (d : Rat) ≠ 0 := by exact_mod_cast h
    simp [h, this]

theorem compute_score_matrix_eq_model (P Q : Pattern.Pat) (m : String) :
    Gen.pattern._compute_score_matrix (rawPat P) (rawPat Q) m
      = asMat P.length Q.length (scoreMatrix P Q m) := by
  unfold Gen.pattern._compute_score_matrix rawPat scoreMatrix
  rw [fill2_raw rawOcc rawOcc P Q _ (fun p q => if m = cardName then cardScore p q else .error .valueError)]
  intro p q
  by_cases h : m = cardName
  · have h' : m = "cardinality_score" := h
    simp only [h', decide_true, if_true, occurrence_intersection_eq_model, bind, Except.bind, List.length_map]
    simp only [rawOcc, List.length_map, divF_nat, cardScore, interCount, cardName, if_true]
  · have h' : ¬ m = "cardinality_score" := h
    simp [h', h, throw, throwThe, MonadExceptOf.throw]

/-! ## the common prefix: `validate`, the emptiness test -/

theorem validate_raw (ref est : Pattern.Pats) :
    GenV.pattern.validate (raw ref) (raw est) = Pattern.validate ref est := by
  rw [Mir.C14.GenVal.pattern_validate_eq_model, Mir.C14.Pattern.validate_agrees]

theorem n_onset_raw (x : Pattern.Pats) : GenV.pattern._n_onset_midi (raw x) = .ok (nOnsetMidi x) := by
  rw [Mir.C14.GenVal.n_onset_midi_eq]
  congr 1
  unfold raw nOnsetMidi
  induction x with
  | nil => rfl
  | cons p ps ih =>
    simp only [List.map_cons, List.flatMap_cons, List.length_append, List.sum_cons, ih]
    congr 1
    induction p with
    | nil => rfl
    | cons o os ih2 => simp only [List.map_cons, List.flatMap_cons, List.length_append, List.sum_cons, ih2, List.length_map]

theorem validate_cases (ref est : Pattern.Pats) :
    Pattern.validate ref est = .ok () ∨ Pattern.validate ref est = .error .valueError := by
  unfold Pattern.validate; split
  · exact Or.inr rfl
  · exact Or.inl rfl

/-- `np.mean(np.max(M, axis=0))`, `np.mean(np.max(M, axis=1))` of a generated matrix are the model's reductions -/
theorem colMaxMean_mat (r c : Nat) (d : List (List Rat)) :
    (do let v ← maxAxis0 ⟨r, c, d⟩; npMean v) = colMaxMean c d := rfl
theorem rowMaxMean_mat (r c : Nat) (d : List (List Rat)) :
    (do let v ← maxAxis1 ⟨r, c, d⟩; npMean v) = rowMaxMean d := rfl

/-- the last lines of the matrix metrics: both reductions, then a continuation -/
theorem prf_tail' {α : Type} (r c : Nat) (d : List (List Rat)) (K : Rat → Rat → Py α) :
    (do let v ← maxAxis0 ⟨r, c, d⟩; let p ← npMean v; let w ← maxAxis1 ⟨r, c, d⟩; let q ← npMean w; K p q)
      = (do let p ← colMaxMean c d; let q ← rowMaxMean d; K p q) := by
  rw [← colMaxMean_mat r c d, ← rowMaxMean_mat r c d]
  cases maxAxis0 ⟨r, c, d⟩ with
  | error e => rfl
  | ok v =>
    cases h : npMean v with
    | error e => simp [bind, Except.bind, h]
    | ok p =>
      cases maxAxis1 ⟨r, c, d⟩ with
      | error e => simp [bind, Except.bind, h]
      | ok w => simp [bind, Except.bind, h]

theorem prf_tail (r c : Nat) (d : List (List Rat)) :
    (do let v ← maxAxis0 ⟨r, c, d⟩; let p ← npMean v; let w ← maxAxis1 ⟨r, c, d⟩; let q ← npMean w
        (pure (fMeasure p q, p, q) : Py (Rat × Rat × Rat)))
      = (do let p ← colMaxMean c d; let q ← rowMaxMean d; pure (fMeasure p q, p, q)) :=
  prf_tail' r c d fun p q => pure (fMeasure p q, p, q)

/-! ## establishment_FPR -/

theorem establishment_FPR_eq_model (ref est : Pattern.Pats) (m : String) :
    Gen.pattern.establishment_FPR (raw ref) (raw est) m = establishmentFPR ref est m := by
  unfold Gen.pattern.establishment_FPR establishmentFPR
  simp only [validate_raw, n_onset_raw]
  rcases validate_cases ref est with hv | hv <;> rw [hv]
  swap
  · rfl
  simp only [bind, Except.bind, pure, Except.pure, isZero]
  by_cases h1 : nOnsetMidi ref = 0
  · simp [h1]
  by_cases h2 : nOnsetMidi est = 0
  · simp [h1, h2]
  have hz : (nOnsetMidi ref == 0 || nOnsetMidi est == 0) = false := by simp [h1, h2]
  simp only [h1, h2, hz, decide_false, Bool.false_eq_true, if_false]
  rw [raw_eq, raw_eq, fill2_raw rawPat rawPat ref est _ (fun p q => do let s ← scoreMatrix p q m; maxL s.flatten)]
  · unfold asMat estMatrix
    cases (List.mapM (fun x => List.mapM (fun y => do let s ← scoreMatrix x y m; maxL s.flatten) est) ref) with
    | error e => rfl
    | ok S => exact prf_tail ref.length est.length S
  · intro p q
    show (do let s ← Gen.pattern._compute_score_matrix (rawPat p) (rawPat q) m; _) = _
    rw [compute_score_matrix_eq_model]
    cases scoreMatrix p q m <;> rfl

/-! ## three_layer_FPR (closures; `compute_layer` specialised to `layer = 1`, `layer = 2`) -/

theorem first_layer_eq_model (p q : Pattern.Occ) :
    Gen.pattern.three_layer_FPR.compute_first_layer_PR (rawOcc p) (rawOcc q) = firstLayerPR p q := by
  unfold Gen.pattern.three_layer_FPR.compute_first_layer_PR firstLayerPR
  simp only [occurrence_intersection_eq_model, bind, Except.bind, List.length_map]
  simp only [rawOcc, List.length_map, divF_nat, interCount]
  by_cases h1 : p.length = 0
  · simp [h1]
  by_cases h2 : q.length = 0
  · simp [h1, h2]
  simp [h1, h2, pure, Except.pure]

theorem layer1_eq_model (rp ep : Pattern.Pat) :
    Gen.pattern.three_layer_FPR.compute_layer_1 (rawPat rp) (rawPat ep) = asMat rp.length ep.length (layer1 rp ep) := by
  unfold Gen.pattern.three_layer_FPR.compute_layer_1 rawPat layer1
  rw [fill2_raw rawOcc rawOcc rp ep _ (fun ro eo => do let pr ← firstLayerPR ro eo; return fMeasure pr.1 pr.2)]
  intro p q
  rw [first_layer_eq_model]

theorem second_layer_eq_model (rp ep : Pattern.Pat) :
    Gen.pattern.three_layer_FPR.compute_second_layer_PR (rawPat rp) (rawPat ep) = secondLayerPR rp ep := by
  unfold Gen.pattern.three_layer_FPR.compute_second_layer_PR secondLayerPR
  rw [layer1_eq_model]
  unfold asMat
  cases layer1 rp ep with
  | error e => rfl
  | ok F => exact prf_tail' rp.length ep.length F fun p q => pure (p, q)

theorem layer2_eq_model (ref est : Pattern.Pats) :
    Gen.pattern.three_layer_FPR.compute_layer_2 (raw ref) (raw est) = asMat ref.length est.length (layer2 ref est) := by
  unfold Gen.pattern.three_layer_FPR.compute_layer_2 layer2
  rw [raw_eq, raw_eq,
    fill2_raw rawPat rawPat ref est _ (fun rp ep => do let pr ← secondLayerPR rp ep; return fMeasure pr.1 pr.2)]
  intro p q
  rw [second_layer_eq_model]

theorem three_layer_FPR_eq_model (ref est : Pattern.Pats) :
    Gen.pattern.three_layer_FPR (raw ref) (raw est) = threeLayerFPR ref est := by
  unfold Gen.pattern.three_layer_FPR threeLayerFPR
  simp only [validate_raw, n_onset_raw, layer2_eq_model]
  rcases validate_cases ref est with hv | hv <;> rw [hv]
  swap
  · rfl
  simp only [bind, Except.bind, pure, Except.pure, isZero]
  by_cases h1 : nOnsetMidi ref = 0
  · simp [h1]
  by_cases h2 : nOnsetMidi est = 0
  · simp [h1, h2]
  have hz : (nOnsetMidi ref == 0 || nOnsetMidi est == 0) = false := by simp [h1, h2]
  simp only [h1, h2, hz, decide_false, Bool.false_eq_true, if_false]
  unfold asMat
  cases layer2 ref est with
  | error e => rfl
  | ok S => exact prf_tail ref.length est.length S

/-! ## first_n_three_layer_P, first_n_target_proportion_R -/

theorem firstN_raw (est : Pattern.Pats) (n : Int) :
    pySliceTo (raw est) (minInt (((raw est).length : Nat) : Int) n) = raw (firstN est n) := by
  have hl : (raw est).length = est.length := by simp [raw]
  have hm : minInt ((est.length : Nat) : Int) n = if (est.length : Int) ≤ n then (est.length : Int) else n := by
    unfold minInt; split <;> split <;> omega
  rw [hl, hm]
  unfold firstN pySliceTo
  simp only [raw, List.length_map]
  split <;> split <;> simp only [List.map_take]

theorem first_n_three_layer_P_eq_model (ref est : Pattern.Pats) (n : Int) :
    Gen.pattern.first_n_three_layer_P (raw ref) (raw est) n = firstNThreeLayerP ref est n := by
  unfold Gen.pattern.first_n_three_layer_P firstNThreeLayerP
  simp only [validate_raw, n_onset_raw, firstN_raw, three_layer_FPR_eq_model]
  rcases validate_cases ref est with hv | hv <;> rw [hv]
  swap
  · rfl
  simp only [bind, Except.bind, pure, Except.pure, isZero]
  by_cases h1 : nOnsetMidi ref = 0
  · simp [h1]
  by_cases h2 : nOnsetMidi est = 0
  · simp [h1, h2]
  have hz : (nOnsetMidi ref == 0 || nOnsetMidi est == 0) = false := by simp [h1, h2]
  simp only [h1, h2, hz, decide_false, Bool.false_eq_true, if_false]

theorem first_n_target_proportion_R_eq_model (ref est : Pattern.Pats) (n : Int) :
    Gen.pattern.first_n_target_proportion_R (raw ref) (raw est) n = firstNTargetProportionR ref est n := by
  unfold Gen.pattern.first_n_target_proportion_R firstNTargetProportionR
  simp only [validate_raw, n_onset_raw, firstN_raw, establishment_FPR_eq_model]
  rcases validate_cases ref est with hv | hv <;> rw [hv]
  swap
  · rfl
  simp only [bind, Except.bind, pure, Except.pure, isZero]
  by_cases h1 : nOnsetMidi ref = 0
  · simp [h1]
  by_cases h2 : nOnsetMidi est = 0
  · simp [h1, h2]
  have hz : (nOnsetMidi ref == 0 || nOnsetMidi est == 0) = false := by simp [h1, h2]
  simp only [h1, h2, hz, decide_false, Bool.false_eq_true, if_false]
  rfl

/-! ## standard_FPR (nested loops with `break`, the translation test) -/

theorem sameShape_raw (P Q : Pattern.Occ) (h : P.length = Q.length) :
    sameShape (P.map rawPt) (Q.map rawPt) = true := by
  unfold sameShape
  simp only [List.length_map, h, beq_self_eq_true, Bool.true_and]
  induction P generalizing Q with
  | nil => simp
  | cons p ps ih =>
    cases Q with
    | nil => simp at h
    | cons q qs =>
      simp only [List.map_cons, List.zipWith_cons_cons, List.all_cons]
      rw [ih qs (by simpa using h)]
      rfl

/-- the rows of `P - Q` in the model's terms -/
def subRows (P Q : Pattern.Occ) : List Point := List.zipWith (fun (p q : Point) => (p.1 - q.1, p.2 - q.2)) P Q

theorem msub_raw (P Q : Pattern.Occ) (h : P.length = Q.length) :
    msub (rawOcc P) (rawOcc Q) = .ok ((subRows P Q).map rawPt) := by
  unfold msub rawOcc
  rw [sameShape_raw P Q h]
  simp only [if_true, subRows, List.zipWith_map, List.map_zipWith]
  rfl

theorem maxabs_raw (d : List Point) :
    npMaxArr (PyPat.mabs (diff0 (d.map rawPt)))
      = maxL ((List.zipWith (fun (a b : Point) => (b.1 - a.1, b.2 - a.2)) d d.tail).flatMap
          fun x => [absR x.1, absR x.2]) := by
  unfold npMaxArr PyPat.mabs diff0
  congr 1
  rw [← List.map_tail, List.zipWith_map, List.map_zipWith, List.flatMap_def, List.map_zipWith]
  rfl

theorem getItem0_raw (e : Pattern.Pat) : getItem0 (rawPat e) = (proto e).map rawOcc := by
  cases e <;> rfl

/-- the inner loop: any body that, on the prototype of an estimated pattern, breaks with `k + 1` on a match and goes
    on with `k` otherwise -/
theorem inner_loop (tol : Rat) (P : Pattern.Occ) (body : PyPat.Pat → Nat → Py (Step Nat))
    (hb : ∀ e k, body (rawPat e) k = do
      let Q ← proto e
      let m ← protoMatch tol P Q
      pure (if m then Step.brk (k + 1) else Step.next k))
    (est : Pattern.Pats) (k : Nat) :
    forLoop (raw est) k body = (matchAny tol P est).map fun m => if m then k + 1 else k := by
  induction est with
  | nil => rfl
  | cons e es ih =>
    rw [raw_eq, List.map_cons, forLoop, hb, ← raw_eq, matchAny]
    cases proto e with
    | error x => rfl
    | ok Q =>
      cases hm : protoMatch tol P Q with
      | error x => simp [bind, Except.bind, hm, Except.map]
      | ok m =>
        cases m with
        | true => simp [bind, Except.bind, hm, Except.map, pure, Except.pure]
        | false =>
          simp only [bind, Except.bind, hm, Except.map, pure, Except.pure, Bool.false_eq_true, if_false]
          rw [ih]; rfl

/-- the outer loop: any body that adds one for a reference prototype that matches some estimated prototype -/
theorem outer_loop (tol : Rat) (est : Pattern.Pats) (body : PyPat.Pat → Nat → Py (Step Nat))
    (hb : ∀ r k, body (rawPat r) k = do
      let P ← proto r
      let m ← matchAny tol P est
      pure (Step.next (if m then k + 1 else k)))
    (ref : Pattern.Pats) (k : Nat) :
    forLoop (raw ref) k body = (countMatches tol ref est).map fun c => k + c := by
  induction ref generalizing k with
  | nil => rfl
  | cons r rs ih =>
    rw [raw_eq, List.map_cons, forLoop, hb, ← raw_eq, countMatches]
    cases proto r with
    | error x => rfl
    | ok P =>
      cases hm : matchAny tol P est with
      | error x => simp [bind, Except.bind, hm, Except.map]
      | ok m =>
        simp only [bind, Except.bind, hm, pure, Except.pure]
        rw [ih]
        cases countMatches tol rs est with
        | error x => rfl
        | ok c =>
          cases m <;> simp [Except.map]; omega

theorem standard_FPR_eq_model (ref est : Pattern.Pats) (tol : Rat) :
    Gen.pattern.standard_FPR (raw ref) (raw est) tol = standardFPR ref est tol := by
  unfold Gen.pattern.standard_FPR standardFPR
  simp only [validate_raw, n_onset_raw]
  rcases validate_cases ref est with hv | hv <;> rw [hv]
  swap
  · rfl
  simp only [bind, Except.bind, pure, Except.pure, isZero]
  by_cases h1 : nOnsetMidi ref = 0
  · simp [h1]
  by_cases h2 : nOnsetMidi est = 0
  · simp [h1, h2]
  have hz : (nOnsetMidi ref == 0 || nOnsetMidi est == 0) = false := by simp [h1, h2]
  simp only [h1, h2, hz, decide_false, Bool.false_eq_true, if_false]
  rw [outer_loop tol est _ ?_ ref 0]
  · have hl : ∀ x : Pattern.Pats, (raw x).length = x.length := fun x => by simp [raw]
    cases countMatches tol ref est with
    | error x => rfl
    | ok c =>
      simp only [Except.map, hl, divF_nat, Nat.zero_add]
      by_cases he : est.length = 0
      · simp [he, throw, throwThe, MonadExceptOf.throw]
      by_cases hr : ref.length = 0
      · simp [he, hr, throw, throwThe, MonadExceptOf.throw]
      simp [he, hr]
  · intro r k
    rw [getItem0_raw]
    cases proto r with
    | error x => rfl
    | ok P =>
      simp only [Except.map, asarray]
      rw [inner_loop tol P _ ?_ est k]
      · simp only [bind, Except.bind, pure, Except.pure]
        cases matchAny tol P est <;> rfl
      · intro e k'
        rw [getItem0_raw]
        cases proto e with
        | error x => rfl
        | ok Q =>
          simp only [Except.map, protoMatch, rawOcc, List.length_map, bind, Except.bind, pure, Except.pure]
          by_cases hlen : P.length = Q.length
          · have hm := msub_raw P Q hlen
            simp only [rawOcc] at hm
            simp only [hm, maxabs_raw, diffRows, subRows]
            simp only [hlen, ne_eq, not_true_eq_false, decide_false, decide_true, Bool.true_and, if_false,
              Bool.false_eq_true, decide_eq_true_eq]
            by_cases h1 : Q.length = 1
            · simp [h1]
            · simp only [h1, if_false]
              generalize maxL _ = mx
              cases mx with
              | error x => rfl
              | ok v => by_cases hv : v < tol <;> simp [hv]
          · simp [hlen]

end Mir.C04.GenPattern
