import MirGen.Pattern
import MirProofs.Lemmas.PyPat
import MirProofs.Props.C14_GenVal
import MirProofs.Props.C14_Pattern
import MirProofs.Props.C04_Pattern
import MirProofs.Props.C01_Pattern

/-!
# C04 / C01 — the pattern-discovery metrics as REGENERATED from `mir_eval/pattern.py` equal the hand model

`MirGen/Pattern.lean` (`Mir.Gen.pattern.*`, written by `harness/translate/pattern.py` from the current source on every
run) is proved equal to `MirModel/Pattern.lean` for ALL pattern lists: `raw x` is the nested-list form the code
receives for the model's point lists `x` (every point a 2-list); inputs that are not of that form are exactly the
ones `validate` rejects (`gen_metrics_malformed`).  Helper lemmas about the run-time primitives: `Lemmas/PyPat.lean`.  So every theorem about the hand model (C04 / C01 / C02 / C06 / C08 / C14
`*_Pattern.lean`) speaks about the code as translated.
-/
namespace Mir.C04.GenPattern
set_option linter.unusedSimpArgs false
set_option linter.unusedVariables false
open Mir Mir.Pattern Mir.PyPat Mir.Validate
open Mir.C14.Pattern (raw)

/-! ## _occurrence_intersection, _compute_score_matrix -/

theorem occurrence_intersection_eq_model (P Q : Pattern.Occ) :
    Gen.pattern._occurrence_intersection (rawOcc P) (rawOcc Q) = .ok ((inter P Q).map rawPt) := by
  unfold Gen.pattern._occurrence_intersection
  simp only [rawOcc, PyPat.tuple, List.map_map, Function.comp_def, pure, Except.pure, List.map_id', bind, Except.bind]
  congr 1
  show setInter (PyPat.setOf (P.map rawPt)) (PyPat.setOf (Q.map rawPt)) = _
  rw [setOf_map]
  unfold setInter inter
  rw [List.filter_map]
  congr 1
  apply List.filter_congr
  intro p _
  simp only [Function.comp, mem_setOf]
  congr 1
  simp only [List.mem_map, eq_iff_iff]
  constructor
  · rintro ⟨y, hy, h⟩; rw [← rawPt_inj h]; exact hy
  · exact fun h => ⟨p, h, rfl⟩

theorem compute_score_matrix_eq_model (P Q : Pattern.Pat) (m : String) :
    Gen.pattern._compute_score_matrix (rawPat P) (rawPat Q) m
      = asMat P.length Q.length (scoreMatrix P Q m) := by
  unfold Gen.pattern._compute_score_matrix rawPat scoreMatrix
  rw [fill2_raw rawOcc rawOcc P Q _ (fun p q => if m = cardName then cardScore p q else .error .valueError)]
  intro p q
  by_cases h : m = cardName
  · have h' : m = "cardinality_score" := h
    simp only [h', decide_true, if_true, occurrence_intersection_eq_model, bind, Except.bind, List.length_map]
    simp only [rawOcc, List.length_map, divF_nat, cardScore, interCount, cardName, if_true]
  · have h' : ¬ m = "cardinality_score" := h
    simp [h', h, throw, throwThe, MonadExceptOf.throw]

/-! ## the common prefix: `validate`, the emptiness test -/

theorem validate_raw (ref est : Pattern.Pats) :
    GenV.pattern.validate (raw ref) (raw est) = Pattern.validate ref est := by
  rw [Mir.C14.GenVal.pattern_validate_eq_model, Mir.C14.Pattern.validate_agrees]

theorem n_onset_raw (x : Pattern.Pats) : GenV.pattern._n_onset_midi (raw x) = .ok (nOnsetMidi x) := by
  rw [Mir.C14.GenVal.n_onset_midi_eq]
  congr 1
  unfold raw nOnsetMidi
  induction x with
  | nil => rfl
  | cons p ps ih =>
    simp only [List.map_cons, List.flatMap_cons, List.length_append, List.sum_cons, ih]
    congr 1
    induction p with
    | nil => rfl
    | cons o os ih2 => simp only [List.map_cons, List.flatMap_cons, List.length_append, List.sum_cons, ih2, List.length_map]

/-! ## establishment_FPR -/

theorem establishment_FPR_eq_model (ref est : Pattern.Pats) (m : String) :
    Gen.pattern.establishment_FPR (raw ref) (raw est) m = establishmentFPR ref est m := by
  unfold Gen.pattern.establishment_FPR establishmentFPR
  simp only [validate_raw, n_onset_raw]
  rcases validate_cases ref est with hv | hv <;> rw [hv]
  swap
  · rfl
  simp only [bind, Except.bind, pure, Except.pure, isZero]
  by_cases h1 : nOnsetMidi ref = 0
  · simp [h1]
  by_cases h2 : nOnsetMidi est = 0
  · simp [h1, h2]
  have hz : (nOnsetMidi ref == 0 || nOnsetMidi est == 0) = false := by simp [h1, h2]
  simp only [h1, h2, hz, decide_false, Bool.false_eq_true, if_false]
  rw [raw_eq, raw_eq, fill2_raw rawPat rawPat ref est _ (fun p q => do let s ← scoreMatrix p q m; maxL s.flatten)]
  · unfold asMat estMatrix
    cases (List.mapM (fun x => List.mapM (fun y => do let s ← scoreMatrix x y m; maxL s.flatten) est) ref) with
    | error e => rfl
    | ok S => exact prf_tail ref.length est.length S
  · intro p q
    show (do let s ← Gen.pattern._compute_score_matrix (rawPat p) (rawPat q) m; _) = _
    rw [compute_score_matrix_eq_model]
    cases scoreMatrix p q m <;> rfl

/-! ## three_layer_FPR (closures; `compute_layer` specialised to `layer = 1`, `layer = 2`) -/

theorem first_layer_eq_model (p q : Pattern.Occ) :
    Gen.pattern.three_layer_FPR.compute_first_layer_PR (rawOcc p) (rawOcc q) = firstLayerPR p q := by
  unfold Gen.pattern.three_layer_FPR.compute_first_layer_PR firstLayerPR
  simp only [occurrence_intersection_eq_model, bind, Except.bind, List.length_map]
  simp only [rawOcc, List.length_map, divF_nat, interCount]
  by_cases h1 : p.length = 0
  · simp [h1]
  by_cases h2 : q.length = 0
  · simp [h1, h2]
  simp [h1, h2, pure, Except.pure]

theorem layer1_eq_model (rp ep : Pattern.Pat) :
    Gen.pattern.three_layer_FPR.compute_layer_1 (rawPat rp) (rawPat ep) = asMat rp.length ep.length (layer1 rp ep) := by
  unfold Gen.pattern.three_layer_FPR.compute_layer_1 rawPat layer1
  rw [fill2_raw rawOcc rawOcc rp ep _ (fun ro eo => do let pr ← firstLayerPR ro eo; return fMeasure pr.1 pr.2)]
  intro p q
  rw [first_layer_eq_model]

theorem second_layer_eq_model (rp ep : Pattern.Pat) :
    Gen.pattern.three_layer_FPR.compute_second_layer_PR (rawPat rp) (rawPat ep) = secondLayerPR rp ep := by
  unfold Gen.pattern.three_layer_FPR.compute_second_layer_PR secondLayerPR
  rw [layer1_eq_model]
  unfold asMat
  cases layer1 rp ep with
  | error e => rfl
  | ok F => exact prf_tail' rp.length ep.length F fun p q => pure (p, q)

theorem layer2_eq_model (ref est : Pattern.Pats) :
    Gen.pattern.three_layer_FPR.compute_layer_2 (raw ref) (raw est) = asMat ref.length est.length (layer2 ref est) := by
  unfold Gen.pattern.three_layer_FPR.compute_layer_2 layer2
  rw [raw_eq, raw_eq,
    fill2_raw rawPat rawPat ref est _ (fun rp ep => do let pr ← secondLayerPR rp ep; return fMeasure pr.1 pr.2)]
  intro p q
  rw [second_layer_eq_model]

theorem three_layer_FPR_eq_model (ref est : Pattern.Pats) :
    Gen.pattern.three_layer_FPR (raw ref) (raw est) = threeLayerFPR ref est := by
  unfold Gen.pattern.three_layer_FPR threeLayerFPR
  simp only [validate_raw, n_onset_raw, layer2_eq_model]
  rcases validate_cases ref est with hv | hv <;> rw [hv]
  swap
  · rfl
  simp only [bind, Except.bind, pure, Except.pure, isZero]
  by_cases h1 : nOnsetMidi ref = 0
  · simp [h1]
  by_cases h2 : nOnsetMidi est = 0
  · simp [h1, h2]
  have hz : (nOnsetMidi ref == 0 || nOnsetMidi est == 0) = false := by simp [h1, h2]
  simp only [h1, h2, hz, decide_false, Bool.false_eq_true, if_false]
  unfold asMat
  cases layer2 ref est with
  | error e => rfl
  | ok S => exact prf_tail ref.length est.length S

/-! ## first_n_three_layer_P, first_n_target_proportion_R -/

theorem first_n_three_layer_P_eq_model (ref est : Pattern.Pats) (n : Int) :
    Gen.pattern.first_n_three_layer_P (raw ref) (raw est) n = firstNThreeLayerP ref est n := by
  unfold Gen.pattern.first_n_three_layer_P firstNThreeLayerP
  simp only [validate_raw, n_onset_raw, firstN_raw, three_layer_FPR_eq_model]
  rcases validate_cases ref est with hv | hv <;> rw [hv]
  swap
  · rfl
  simp only [bind, Except.bind, pure, Except.pure, isZero]
  by_cases h1 : nOnsetMidi ref = 0
  · simp [h1]
  by_cases h2 : nOnsetMidi est = 0
  · simp [h1, h2]
  have hz : (nOnsetMidi ref == 0 || nOnsetMidi est == 0) = false := by simp [h1, h2]
  simp only [h1, h2, hz, decide_false, Bool.false_eq_true, if_false]

theorem first_n_target_proportion_R_eq_model (ref est : Pattern.Pats) (n : Int) :
    Gen.pattern.first_n_target_proportion_R (raw ref) (raw est) n = firstNTargetProportionR ref est n := by
  unfold Gen.pattern.first_n_target_proportion_R firstNTargetProportionR
  simp only [validate_raw, n_onset_raw, firstN_raw, establishment_FPR_eq_model]
  rcases validate_cases ref est with hv | hv <;> rw [hv]
  swap
  · rfl
  simp only [bind, Except.bind, pure, Except.pure, isZero]
  by_cases h1 : nOnsetMidi ref = 0
  · simp [h1]
  by_cases h2 : nOnsetMidi est = 0
  · simp [h1, h2]
  have hz : (nOnsetMidi ref == 0 || nOnsetMidi est == 0) = false := by simp [h1, h2]
  simp only [h1, h2, hz, decide_false, Bool.false_eq_true, if_false]
  rfl

/-! ## standard_FPR (nested loops with `break`, the translation test) -/

theorem standard_FPR_eq_model (ref est : Pattern.Pats) (tol : Rat) :
    Gen.pattern.standard_FPR (raw ref) (raw est) tol = standardFPR ref est tol := by
  unfold Gen.pattern.standard_FPR standardFPR
  simp only [validate_raw, n_onset_raw]
  rcases validate_cases ref est with hv | hv <;> rw [hv]
  swap
  · rfl
  simp only [bind, Except.bind, pure, Except.pure, isZero]
  by_cases h1 : nOnsetMidi ref = 0
  · simp [h1]
  by_cases h2 : nOnsetMidi est = 0
  · simp [h1, h2]
  have hz : (nOnsetMidi ref == 0 || nOnsetMidi est == 0) = false := by simp [h1, h2]
  simp only [h1, h2, hz, decide_false, Bool.false_eq_true, if_false]
  rw [outer_loop tol est _ ?_ ref 0]
  · have hl : ∀ x : Pattern.Pats, (raw x).length = x.length := fun x => by simp [raw]
    cases countMatches tol ref est with
    | error x => rfl
    | ok c =>
      simp only [Except.map, hl, divF_nat, Nat.zero_add]
      by_cases he : est.length = 0
      · simp [he, throw, throwThe, MonadExceptOf.throw]
      by_cases hr : ref.length = 0
      · simp [he, hr, throw, throwThe, MonadExceptOf.throw]
      simp [he, hr]
  · intro r k
    rw [getItem0_raw]
    cases proto r with
    | error x => rfl
    | ok P =>
      simp only [Except.map, asarray]
      rw [inner_loop tol P _ ?_ est k]
      · simp only [bind, Except.bind, pure, Except.pure]
        cases matchAny tol P est <;> rfl
      · intro e k'
        rw [getItem0_raw]
        cases proto e with
        | error x => rfl
        | ok Q =>
          simp only [Except.map, protoMatch, rawOcc, List.length_map, bind, Except.bind, pure, Except.pure]
          by_cases hlen : P.length = Q.length
          · have hm := msub_raw P Q hlen
            simp only [rawOcc] at hm
            simp only [hm, maxabs_raw, diffRows, subRows]
            simp only [hlen, ne_eq, not_true_eq_false, decide_false, decide_true, Bool.true_and, if_false,
              Bool.false_eq_true, decide_eq_true_eq]
            by_cases h1 : Q.length = 1
            · simp [h1]
            · simp only [h1, if_false]
              generalize maxL _ = mx
              cases mx with
              | error x => rfl
              | ok v => by_cases hv : v < tol <;> simp [hv]
          · simp [hlen]

/-! ## occurrence_FPR (the sparse 3-D array, `rel_idx`, `np.ix_`) -/

theorem occ_cell_eq_model (thres : Rat) (m : String) (p q : Pattern.Pat)
    (K : Mat → Rat → Py (Option (Rat × Rat)))
    (hK : ∀ s mx, K ⟨p.length, q.length, s⟩ mx = if thres ≤ mx then do
        let a ← colMaxMean q.length s
        let b ← rowMaxMean s
        pure (some (a, b)) else pure none) :
    (do let s ← Gen.pattern._compute_score_matrix (rawPat p) (rawPat q) m
        let mx ← npMaxMat s
        K s mx) = occCell thres m p q := by
  rw [compute_score_matrix_eq_model]
  unfold occCell asMat
  cases scoreMatrix p q m with
  | error e => rfl
  | ok s =>
    simp only [Except.map, bind, Except.bind, npMaxMat]
    cases maxL s.flatten with
    | error e => rfl
    | ok mx => simp only [hK]; rfl

theorem occurrence_FPR_eq_model (ref est : Pattern.Pats) (thres : Rat) (m : String) :
    Gen.pattern.occurrence_FPR (raw ref) (raw est) thres m = occurrenceFPR ref est thres m := by
  unfold Gen.pattern.occurrence_FPR occurrenceFPR
  simp only [validate_raw, n_onset_raw]
  rcases validate_cases ref est with hv | hv <;> rw [hv]
  swap
  · rfl
  simp only [bind, Except.bind, pure, Except.pure, isZero]
  by_cases h1 : nOnsetMidi ref = 0
  · simp [h1]
  by_cases h2 : nOnsetMidi est = 0
  · simp [h1, h2]
  have hz : (nOnsetMidi ref == 0 || nOnsetMidi est == 0) = false := by simp [h1, h2]
  simp only [h1, h2, hz, decide_false, Bool.false_eq_true, if_false]
  rw [raw_eq, raw_eq, fillOpt_raw rawPat rawPat ref est _ (fun p q => occCell thres m p q)]
  · unfold occMatrix
    cases (List.mapM (fun x => List.mapM (fun y => occCell thres m x y) est) ref) with
    | error e => rfl
    | ok O =>
      simp only [Except.map]
      by_cases hr : (relIdx O).length = 0
      · have : (relIdx O).isEmpty = true := by simpa using hr
        simp [hr, this]
      · have : (relIdx O).isEmpty = false := by
          cases h : relIdx O with
          | nil => simp [h] at hr
          | cons a l => rfl
        simp only [hr, this, decide_false, Bool.false_eq_true, if_false, plane0, plane1]
        have e0 := ix_plane ref.length est.length O (fun c => c.1) (relIdx O)
        have e1 := ix_plane ref.length est.length O (fun c => c.2) (relIdx O)
        have m0 := model_gather O (fun c => c.1) (relIdx O)
        have m1 := model_gather O (fun c => c.2) (relIdx O)
        simp only [bind, Except.bind, pure, Except.pure] at e0 e1 m0 m1
        rw [e0, e1, m0, m1]
        cases gathered O (relIdx O) with
        | error e => rfl
        | ok L =>
          simp only []
          rw [← colMaxMean_mat (relIdx O).length (relIdx O).length, ← rowMaxMean_mat (relIdx O).length (relIdx O).length]
          simp only [bind, Except.bind, pure, Except.pure]
          cases maxAxis0 ⟨(relIdx O).length, (relIdx O).length, L.map fun r => r.map fun c => c.1⟩ with
          | error e => rfl
          | ok v =>
            cases h : npMean v with
            | error e => simp [h]
            | ok p =>
              simp only [h]
              cases maxAxis1 ⟨(relIdx O).length, (relIdx O).length, L.map fun r => r.map fun c => c.2⟩ with
              | error e => rfl
              | ok w => cases h' : npMean w <;> simp [h']
  · intro p q
    apply occ_cell_eq_model thres m p q
    intro s mx
    by_cases hle : thres ≤ mx
    · simp only [hle, ge_iff_le, decide_true, if_true]
      exact prf_tail' p.length q.length s fun a b => pure (some (a, b))
    · simp only [hle, ge_iff_le, decide_false, Bool.false_eq_true, if_false]
      rfl

/-! ## inputs that are not point lists: `validate`'s `ValueError`, from every metric -/

/-- every nested list the validator accepts is the image of a model input … -/
theorem valid_is_raw (r : PyPat.Pats) (h : Mir.C14.ValidPatterns r) : ∃ x : Pattern.Pats, r = raw x := by
  refine ⟨r.map fun pat => pat.map fun occ => occ.map fun om => (om.getD 0 0, om.getD 1 0), ?_⟩
  unfold raw
  simp only [List.map_map]
  symm
  apply map_eq_self
  intro pat hp
  simp only [Function.comp, List.map_map]
  apply map_eq_self
  intro occ ho
  simp only [Function.comp, List.map_map]
  apply map_eq_self
  intro om hom
  have := (h pat hp).2 occ ho om hom
  match om, this with
  | [a, b], _ => rfl

/-- … and on everything else each translated metric raises `ValueError` (its first statement) -/
theorem gen_metrics_malformed (r e : PyPat.Pats)
    (h : ¬ Mir.C14.ValidPatterns r ∨ ¬ Mir.C14.ValidPatterns e) (tol thres : Rat) (m : String) (n : Int) :
    Gen.pattern.standard_FPR r e tol = .error .valueError ∧
    Gen.pattern.establishment_FPR r e m = .error .valueError ∧
    Gen.pattern.occurrence_FPR r e thres m = .error .valueError ∧
    Gen.pattern.three_layer_FPR r e = .error .valueError ∧
    Gen.pattern.first_n_three_layer_P r e n = .error .valueError ∧
    Gen.pattern.first_n_target_proportion_R r e n = .error .valueError := by
  have hv : GenV.pattern.validate r e = .error .valueError := by
    rw [Mir.C14.GenVal.pattern_validate_eq_model]; exact Mir.C14.pattern_validate_rejects h
  refine ⟨?_, ?_, ?_, ?_, ?_, ?_⟩
  · unfold Gen.pattern.standard_FPR; rw [hv]; rfl
  · unfold Gen.pattern.establishment_FPR; rw [hv]; rfl
  · unfold Gen.pattern.occurrence_FPR; rw [hv]; rfl
  · unfold Gen.pattern.three_layer_FPR; rw [hv]; rfl
  · unfold Gen.pattern.first_n_three_layer_P; rw [hv]; rfl
  · unfold Gen.pattern.first_n_target_proportion_R; rw [hv]; rfl

/-! ## defaults of the translated signatures -/

theorem gen_defaults :
    Gen.pattern.standard_FPR.default_tol = defaultTol ∧
    Gen.pattern.occurrence_FPR.default_thres = defaultThres ∧
    Gen.pattern.establishment_FPR.default_similarity_metric = cardName ∧
    Gen.pattern.occurrence_FPR.default_similarity_metric = cardName ∧
    Gen.pattern._compute_score_matrix.default_similarity_metric = cardName ∧
    Gen.pattern.first_n_three_layer_P.default_n = defaultN ∧
    Gen.pattern.first_n_target_proportion_R.default_n = defaultN := by
  refine ⟨by decide +kernel, by decide +kernel, rfl, rfl, rfl, rfl, rfl⟩

/-! ## the C04 / C01 headline statements, on the translated definitions -/

open Mir.C04.Pattern Mir.C01.Pattern in
/-- C04: the translated `establishment_FPR` is the documented establishment matrix reduction -/
theorem gen_establishment_spec (ref est : Pattern.Pats) :
    Gen.pattern.establishment_FPR (raw ref) (raw est) cardName =
      if (ref ++ est).any List.isEmpty then .error .valueError
      else if isZero ref est then .ok (0, 0, 0)
      else if anyEmptyOcc ref && anyEmptyOcc est then .error .zeroDivision
      else .ok (Spec.establishment ref est) := by
  rw [establishment_FPR_eq_model]; exact Mir.C04.Pattern.establishment_spec ref est

theorem gen_occurrence_spec (ref est : Pattern.Pats) (thres : Rat) :
    Gen.pattern.occurrence_FPR (raw ref) (raw est) thres cardName =
      if (ref ++ est).any List.isEmpty then .error .valueError
      else if isZero ref est then .ok (0, 0, 0)
      else if anyEmptyOcc ref && anyEmptyOcc est then .error .zeroDivision
      else .ok (Spec.occurrence thres ref est) := by
  rw [occurrence_FPR_eq_model]; exact Mir.C04.Pattern.occurrence_spec ref est thres

/-- C04: three layers; an empty occurrence on EITHER side is a `ZeroDivisionError` -/
theorem gen_three_layer_spec (ref est : Pattern.Pats) :
    Gen.pattern.three_layer_FPR (raw ref) (raw est) =
      if (ref ++ est).any List.isEmpty then .error .valueError
      else if isZero ref est then .ok (0, 0, 0)
      else if anyEmptyOcc ref || anyEmptyOcc est then .error .zeroDivision
      else .ok (Spec.threeLayer ref est) := by
  rw [three_layer_FPR_eq_model]; exact Mir.C04.Pattern.three_layer_spec ref est

/-- C04: `k` translation-equivalent reference prototypes, P = k / |est|, R = k / |ref| (strict `<` against `tol`) -/
theorem gen_standard_spec (ref est : Pattern.Pats) (tol : Rat) :
    Gen.pattern.standard_FPR (raw ref) (raw est) tol =
      if (ref ++ est).any List.isEmpty then .error .valueError
      else if isZero ref est then .ok (0, 0, 0)
      else if anyEmptyProto ref && anyEmptyProto est then .error .valueError
      else .ok (Spec.standard tol ref est) := by
  rw [standard_FPR_eq_model]; exact Mir.C04.Pattern.standard_spec ref est tol

theorem gen_first_n_spec (ref est : Pattern.Pats) (n : Int) :
    Gen.pattern.first_n_three_layer_P (raw ref) (raw est) n =
      (if (ref ++ est).any List.isEmpty then .error .valueError
       else if isZero ref est then .ok 0
       else (Gen.pattern.three_layer_FPR (raw ref) (raw (firstN est n))).map fun t => t.2.1) ∧
    Gen.pattern.first_n_target_proportion_R (raw ref) (raw est) n =
      (if (ref ++ est).any List.isEmpty then .error .valueError
       else if isZero ref est then .ok 0
       else (Gen.pattern.establishment_FPR (raw ref) (raw (firstN est n)) cardName).map fun t => t.2.2) := by
  rw [first_n_three_layer_P_eq_model, first_n_target_proportion_R_eq_model, three_layer_FPR_eq_model,
    establishment_FPR_eq_model]
  exact ⟨Mir.C04.Pattern.first_n_three_layer_spec ref est n, Mir.C04.Pattern.first_n_target_proportion_spec ref est n⟩

/-- C01: whenever they return, the translated establishment / occurrence / three-layer scores are in [0, 1] -/
theorem gen_matrix_metrics_range (ref est : Pattern.Pats) (thres : Rat) (t : Rat × Rat × Rat)
    (h : Gen.pattern.establishment_FPR (raw ref) (raw est) cardName = .ok t ∨
         Gen.pattern.occurrence_FPR (raw ref) (raw est) thres cardName = .ok t ∨
         Gen.pattern.three_layer_FPR (raw ref) (raw est) = .ok t) : Mir.Pattern.In01 t := by
  rcases h with h | h | h
  · rw [establishment_FPR_eq_model] at h; exact Mir.C01.Pattern.establishment_range ref est t h
  · rw [occurrence_FPR_eq_model] at h; exact Mir.C01.Pattern.occurrence_range ref est thres t h
  · rw [three_layer_FPR_eq_model] at h; exact Mir.C01.Pattern.three_layer_range ref est t h

/-- C01, the recorded finding mirrored: the translated `standard_FPR` returns precision 2 (F = 4/3) for two
    translation-equivalent references against one estimate (`k` counts references, the divisor is `nQ`) … -/
theorem gen_standard_precision_exceeds_one :
    Gen.pattern.standard_FPR (raw Mir.C01.Pattern.witnessRef) (raw Mir.C01.Pattern.witnessEst)
      Gen.pattern.standard_FPR.default_tol = .ok (4/3, 2, 1) := by
  rw [standard_FPR_eq_model]; exact Mir.C01.Pattern.standard_witness

/-- … what holds on every input: recall in [0, 1], `P ≤ |ref| / |est|`, and all three in [0, 1] when `nP ≤ nQ` -/
theorem gen_standard_range (ref est : Pattern.Pats) (tol : Rat) (t : Rat × Rat × Rat)
    (h : Gen.pattern.standard_FPR (raw ref) (raw est) tol = .ok t) :
    (0 ≤ t.2.2 ∧ t.2.2 ≤ 1) ∧ 0 ≤ t.2.1 ∧ t.2.1 ≤ (ref.length : Rat) / (est.length : Rat) ∧
      (ref.length ≤ est.length → Mir.Pattern.In01 t) := by
  rw [standard_FPR_eq_model] at h
  have a := Mir.C01.Pattern.standard_recall_range ref est tol t h
  exact ⟨a.1, a.2.1, Mir.C01.Pattern.standard_precision_bound ref est tol t h,
    fun hl => Mir.C01.Pattern.standard_precision_partial ref est tol t hl h⟩

/-! non-vacuity -/
example : Gen.pattern.establishment_FPR (raw Mir.C01.Pattern.witnessRef) (raw Mir.C01.Pattern.witnessEst) cardName
    = .ok (2/3, 1, 1/2) := by rw [establishment_FPR_eq_model]; decide +kernel
example : Gen.pattern.three_layer_FPR [[[[0, 60]], []]] [[[[0, 60]]]] = .error .zeroDivision := by
  have := three_layer_FPR_eq_model [[[(0, 60)], []]] [[[(0, 60)]]]
  simp only [raw, List.map] at this
  rw [this]; decide +kernel
example : Gen.pattern.standard_FPR [[[[0, 60, 1]]]] [[[[0, 60]]]] (1/2) = .error .valueError :=
  (gen_metrics_malformed _ _ (Or.inl (by
    intro h; have := (h _ (List.mem_singleton.2 rfl)).2 _ (List.mem_singleton.2 rfl) _ (List.mem_singleton.2 rfl)
    simp at this)) _ 0 "" 0).1

end Mir.C04.GenPattern
