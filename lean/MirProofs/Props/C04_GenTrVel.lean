import MirGen.TrVel
import MirProofs.Props.C05_GenTr
import MirProofs.Props.C07_Transcription
import MirProofs.Props.C01_Transcription
import MirProofs.Props.C04_Transcription
import MirProofs.Props.C14_GenVal
import MirProofs.Props.C02_Transcription
/-!
  C04 (regenerated) — `transcription.average_overlap_ratio` and the velocity-aware functions of
  `mir_eval/transcription_velocity.py` AS TRANSLATED from the source on every run (`lean/MirGen/TrVel.lean`,
  harness/translate/trvel.py) equal the hand-written model `MirModel/Transcription.lean` for ALL note lists, and the headline
  statements (AOR is the mean of the overlap ratios and ≤ 1; the velocity-filtered pairs are a sub-list of the plain
  matching; with-velocity scores ≤ without-velocity scores) are re-stated on the translated definitions.
-/
set_option linter.unusedSimpArgs false
namespace Mir.C04.GenTrVel
open Mir Mir.Transcription
open Mir.PyTR (ok_bind error_bind)

/-! ### the scalar primitives in the hand model's terms -/

theorem max2_eq (a b : Rat) : PyTV.max2 a b = maxR a b := by
  unfold PyTV.max2 maxR
  by_cases h : a < b
  · rw [if_pos h, if_pos (le_of_lt h)]
  · rw [if_neg h]
    by_cases h2 : a ≤ b
    · rw [if_pos h2]; exact le_antisymm h2 (not_lt.1 h)
    · rw [if_neg h2]

theorem min2_eq (a b : Rat) : PyTV.min2 a b = minR a b := by
  unfold PyTV.min2 minR
  by_cases h : b < a
  · rw [if_pos h, if_neg (not_le.2 h)]
  · rw [if_neg h, if_pos (not_lt.1 h)]

/-! ### `average_overlap_ratio` -/

/-- the loop of `average_overlap_ratio` appends the overlap ratios of the remaining pairs (IndexError as in `ratiosOf`) -/
theorem aor_loop_eq (ri ei : List Ival) : ∀ (m : List Edge) (acc : List Rat),
    Mir.Gen.transcription.average_overlap_ratio_loop1 ri ei m acc =
      (match ratiosOf ri ei m with
       | .error e => .error e
       | .ok l => .ok (acc ++ l))
  | [], acc => by simp [Mir.Gen.transcription.average_overlap_ratio_loop1, ratiosOf, pure, Except.pure]
  | (i, j) :: rest, acc => by
      unfold Mir.Gen.transcription.average_overlap_ratio_loop1 ratiosOf PyTV.row
      cases hi : ri[i]? with
      | none => rfl
      | some r =>
        cases hj : ei[j]? with
        | none => rfl
        | some e =>
          simp only [ok_bind, aor_loop_eq ri ei rest]
          cases ratiosOf ri ei rest with
          | error x => rfl
          | ok l =>
            simp only [ok_bind, pure, Except.pure, PyTV.npDiv, max2_eq, min2_eq, overlapRatio, List.append_assoc,
              List.singleton_append]

/-- **`average_overlap_ratio` as translated = the hand model** (`averageOverlapRatio`), for ALL interval lists and ALL lists
    of index pairs (IndexError for a pair outside the arrays, 0 for no pairs, the mean otherwise) -/
theorem average_overlap_ratio_eq_model (ri ei : List Ival) (m : List Edge) :
    Mir.Gen.transcription.average_overlap_ratio ri ei m = averageOverlapRatio ri ei m := by
  unfold Mir.Gen.transcription.average_overlap_ratio averageOverlapRatio
  simp only [aor_loop_eq]
  cases ratiosOf ri ei m with
  | error x => rfl
  | ok l =>
    cases l with
    | nil => rfl
    | cons a t => simp [PyM.len, PyTV.mean, pure, Except.pure, bind, Except.bind]

/-! ### `transcription_velocity.match_notes` -/

theorem lookupAll_length {vs : List Rat} : ∀ {idx : List Nat} {l : List Rat}, lookupAll vs idx = .ok l → l.length = idx.length
  | [], l, h => by cases h; rfl
  | i :: rest, l, h => by
      unfold lookupAll at h
      cases hi : vs[i]? with
      | none => rw [hi] at h; cases h
      | some v =>
        rw [hi] at h
        cases hr : lookupAll vs rest with
        | error x => rw [hr] at h; cases h
        | ok tl =>
          rw [hr] at h
          cases h
          simp [lookupAll_length hr]

/-- the mask of `velocity_diff < velocity_tolerance` applied to the matching = the hand model's `velFilter` -/
theorem mask_eq_velFilter (s b t : Rat) : ∀ (m : List Edge) (rs es : List Rat), rs.length = m.length → es.length = m.length →
    (m.zip (PyTV.ltVS (PyTV.absV (List.zipWith (fun x y => x - y) (PyTV.addVS (PyTR.scaleV s es) b) rs)) t)).filterMap
        (fun x => if x.2 then some x.1 else none) = velFilter s b t m rs es
  | [], rs, es, _, _ => by simp [velFilter]
  | p :: m, [], es, h, _ => by simp at h
  | p :: m, r :: rs, [], _, h => by simp at h
  | p :: m, r :: rs, e :: es, h1, h2 => by
      have ih := mask_eq_velFilter s b t m rs es (by simpa using h1) (by simpa using h2)
      simp only [PyTV.ltVS, PyTV.absV, PyTV.addVS, PyTR.scaleV, List.map_cons, List.zipWith_cons_cons, List.zip_cons_cons,
        List.filterMap_cons, velFilter] at ih ⊢
      by_cases hc : absR (s * e + b - r) < t
      · simp only [hc, decide_true, if_true]
        rw [ih]
      · simp only [hc, decide_false, if_false, Bool.false_eq_true]
        rw [ih]

/-- **`transcription_velocity.match_notes` as translated = the hand model** (`velMatchNotes`) for ALL notes with one pitch per
    interval on both sides, ALL velocity lists (of any lengths), every tolerance: the regenerated `transcription.match_notes`,
    `np.min` / `np.max` (ValueError on no reference velocity), the normalisation by `max(1, max − min)`, the empty matching,
    the gathered velocities (IndexError), the least-squares line, the strict tolerance filter -/
theorem match_notes_eq_model (ri : List Ival) (rp rv : List Rat) (ei : List Ival) (ep ev : List Rat) (ot pt : Rat)
    (ratio : Option Rat) (mt : Rat) (strict : Bool) (vt : Rat) (hr : ri.length = rp.length) (he : ei.length = ep.length) :
    Mir.Gen.transcription_velocity.match_notes ri rp rv ei ep ev ot pt ratio mt strict vt =
      velMatchNotes ri rp rv ei ep ev ⟨ot, pt, ratio, mt, strict⟩ vt := by
  unfold Mir.Gen.transcription_velocity.match_notes velMatchNotes
  rw [Mir.C05.GenTr.match_notes_eq_model ri rp ei ep ot pt ratio mt strict hr he]
  cases hm : matchNotes ri rp ei ep ⟨ot, pt, ratio, mt, strict⟩ with
  | error x => rfl
  | ok m =>
    simp only [ok_bind]
    unfold normVelocities PyTV.amin PyTV.amax
    cases rv with
    | nil => rfl
    | cons v0 vs =>
      simp only [minList, maxList, ok_bind, max2_eq, PyTV.divVS, PyTV.subVS, PyTV.npDiv, List.map_map, Function.comp_def]
      cases m with
      | nil => rfl
      | cons p m =>
        have hsz : ¬ (PyTV.pairsSize (p :: m) = 0) := by simp [PyTV.pairsSize]
        simp only [hsz, decide_false, Bool.false_eq_true, if_false, List.isEmpty_cons, velKeep, PyTV.take, PyTV.pcol0, PyTV.pcol1,
          ok_bind]
        cases h1 : lookupAll (List.map (fun x => (x - List.foldl minR v0 vs) / maxR 1 (List.foldl maxR v0 vs - List.foldl minR v0 vs)) (v0 :: vs))
            (List.map Prod.fst (p :: m)) with
        | error x => rfl
        | ok rvs =>
          simp only [ok_bind]
          cases h2 : lookupAll ev (List.map Prod.snd (p :: m)) with
          | error x => rfl
          | ok evs =>
            have l1 : rvs.length = (p :: m).length := by rw [lookupAll_length h1, List.length_map]
            have l2 : evs.length = (p :: m).length := by rw [lookupAll_length h2, List.length_map]
            have l3 : (PyTV.addVS (PyTR.scaleV (PyTV.lstsqLine evs rvs).1 evs) (PyTV.lstsqLine evs rvs).2).length = rvs.length := by
              simp [PyTV.addVS, PyTR.scaleV, l1, l2]
            simp only [ok_bind, PyTV.subVV, l3, if_true, PyTV.maskPairs]
            have l4 : (PyTV.ltVS (PyTV.absV (List.zipWith (fun x y => x - y)
                (PyTV.addVS (PyTR.scaleV (PyTV.lstsqLine evs rvs).1 evs) (PyTV.lstsqLine evs rvs).2) rvs)) vt).length = (p :: m).length := by
              simp [PyTV.ltVS, PyTV.absV, PyTV.addVS, PyTR.scaleV, l1, l2]
            rw [if_pos l4]
            simp only [ok_bind, pure, Except.pure, mask_eq_velFilter _ _ _ _ _ _ l1 l2, PyTV.lstsqLine]

/-! ### `transcription_velocity.validate`: the definition regenerated by part `validators`, on the array views -/

section bridge
open Mir.Validate

theorem check_eq_raiseIf (b : Bool) : check b = raiseIf b := by cases b <;> rfl

theorem rows2_flat : ∀ iv : List (Rat × Rat), rows2 (iv.flatMap fun r => [r.1, r.2]) = iv
  | [] => rfl
  | r :: t => by simp [rows2, rows2_flat t]

theorem any_flat (iv : List (Rat × Rat)) :
    (iv.flatMap fun r => [r.1, r.2]).any (fun x => decide (x < 0)) = iv.any (fun x => decide (x.1 < 0) || decide (x.2 < 0)) := by
  induction iv with
  | nil => rfl
  | cons r t ih => simp [ih, Bool.or_assoc]

/-- `util.validate_intervals` of the hand model of part `validators` on the view of an interval list = `validateIntervals1` -/
theorem utilIntervals_ivArr (iv : List (Rat × Rat)) : utilIntervals (PyTV.ivArr iv) = validateIntervals1 iv := by
  unfold utilIntervals validateIntervals1 PyTV.ivArr
  simp only [notNby2, bne_self_eq_false, rows2_flat, any_flat]
  cases h1 : iv.any (fun x => decide (x.1 < 0) || decide (x.2 < 0)) <;>
    cases h2 : iv.any (fun x => decide (x.2 ≤ x.1)) <;> simp [check, bind, Except.bind]

theorem eq_of_total {p : Py Unit} {b : Bool} (ht : OkOrVE p) (h : p = .ok () ↔ b = false) : p = raiseIf b := by
  cases b with
  | false => simpa [raiseIf] using h.2 rfl
  | true =>
    rcases ht with h0 | h0
    · have := h.1 h0; cases this
    · simpa [raiseIf] using h0

theorem minNegative_vec (v : List Rat) : minNegative (PyTV.vecArr v) = raiseIf (v.any fun x => decide (x < 0)) := by
  apply eq_of_total (minNegative_total _)
  rw [minNegative_ok_iff]
  simp [PyTV.vecArr, List.any_eq_false]

theorem minNonPositive_midi (p : List Rat) : minNonPositive (PyTV.midiArr p) = .ok () := by
  rw [minNonPositive_ok_iff]
  intro x hx
  have h1 : x = 1 := by
    simp only [PyTV.midiArr, List.mem_map] at hx
    obtain ⟨_, _, h⟩ := hx
    exact h.symm
  rw [h1]; decide +kernel

/-- **`transcription_velocity.validate` as regenerated by part `validators`**, applied to the array views of interval /
    MIDI-pitch / velocity lists, **= the hand model** (`velValidate`), for ALL lists (any lengths, any values) -/
theorem velocity_validate_eq_model (ri : List (Rat × Rat)) (rp rv : List Rat) (ei : List (Rat × Rat)) (ep ev : List Rat) :
    Mir.GenV.transcription_velocity.validate (PyTV.ivArr ri) (PyTV.midiArr rp) (PyTV.vecArr rv) (PyTV.ivArr ei)
        (PyTV.midiArr ep) (PyTV.vecArr ev) = velValidate ri (rp.map some) rv ei (ep.map some) ev := by
  rw [Mir.C14.GenVal.velocity_validate_eq_model]
  unfold velocityValidate transcriptionValidate transcriptionIntervals velValidate Transcription.validate validateIntervals
  simp only [utilIntervals_ivArr, minNegative_vec, minNonPositive_midi, check_eq_raiseIf]
  simp only [PyTV.ivArr, PyTV.midiArr, PyTV.vecArr, Arr.shape0, List.length_map, bind_assoc]
  cases validateIntervals1 ri with
  | error x => rfl
  | ok u =>
    cases validateIntervals1 ei with
    | error x => rfl
    | ok u2 => simp [bind, Except.bind, raiseIf, List.any_map]

end bridge

/-! ### `transcription_velocity.precision_recall_f1_overlap` -/

theorem velValidate_lengths {ri ei : List Ival} {rp rv ep ev : List Rat} {u : Unit}
    (h : velValidate ri (rp.map some) rv ei (ep.map some) ev = .ok u) : ri.length = rp.length ∧ ei.length = ep.length := by
  unfold velValidate at h
  cases h0 : Transcription.validate ri (rp.map some) ei (ep.map some) with
  | error x => rw [h0] at h; cases h
  | ok u0 => exact Mir.C05.GenTr.validate_lengths h0

/-- **`transcription_velocity.precision_recall_f1_overlap` as translated = the hand model** (`velPRFOverlap`), for ALL inputs -/
theorem precision_recall_f1_overlap_eq_model (ri : List Ival) (rp rv : List Rat) (ei : List Ival) (ep ev : List Rat)
    (ot pt : Rat) (ratio : Option Rat) (mt : Rat) (strict : Bool) (vt beta : Rat) :
    Mir.Gen.transcription_velocity.precision_recall_f1_overlap ri rp rv ei ep ev ot pt ratio mt strict vt beta =
      velPRFOverlap ri rp rv ei ep ev ⟨ot, pt, ratio, mt, strict⟩ vt beta := by
  unfold Mir.Gen.transcription_velocity.precision_recall_f1_overlap velPRFOverlap
  rw [velocity_validate_eq_model]
  cases hv : velValidate ri (rp.map some) rv ei (ep.map some) ev with
  | error x => rfl
  | ok u =>
    obtain ⟨hr, he⟩ := velValidate_lengths hv
    simp only [ok_bind, PyM.len, decide_eq_true_eq, Bool.or_eq_true, List.length_eq_zero_iff, List.isEmpty_iff]
    by_cases hE : rp = [] ∨ ep = []
    · rw [if_pos hE, if_pos hE]
    · rw [if_neg hE, if_neg hE]
      have hr0 : rp ≠ [] := fun h => hE (Or.inl h)
      have he0 : ep ≠ [] := fun h => hE (Or.inr h)
      rw [match_notes_eq_model ri rp rv ei ep ev ot pt ratio mt strict vt hr he]
      cases hm : velMatchNotes ri rp rv ei ep ev ⟨ot, pt, ratio, mt, strict⟩ vt with
      | error x => rfl
      | ok m =>
        simp only [ok_bind, Mir.C04.GenGlue.divF_ok (Mir.C05.GenTr.lenq_ne_zero hr0),
          Mir.C04.GenGlue.divF_ok (Mir.C05.GenTr.lenq_ne_zero he0),
          Mir.C04.GenGlue.f_measure_hits _ _ _ (Mir.C05.GenTr.length_ne_zero hr0) (Mir.C05.GenTr.length_ne_zero he0),
          average_overlap_ratio_eq_model]
        cases averageOverlapRatio ri ei m <;> rfl

/-! ### the `evaluate` glue -/

/-- **`transcription.evaluate` as translated = the hand model** (`Transcription.evaluate`) for ALL inputs and ALL keyword
    dicts: an absent keyword (`none`) is the callee's documented default, `offset_ratio` may be absent, None or a number;
    `setdefault`, the forced `offset_ratio=None` for the `_no_offset` scores, the restored value for the offset scores, the
    keys of the OrderedDict in insertion order -/
theorem evaluate_eq_model (ri : List Ival) (rp : List Rat) (ei : List Ival) (ep : List Rat) (ot pt : Option Rat)
    (ratio : Option (Option Rat)) (mt : Option Rat) (strict : Option Bool) (beta : Option Rat) :
    Mir.Gen.transcription.evaluate ri rp ei ep ot pt ratio mt strict beta =
      Transcription.evaluate ri rp ei ep
        ⟨ot.getD (1 / 20), pt.getD 50, ratio.getD (some (1 / 5)), mt.getD (1 / 20), strict.getD false⟩ (beta.getD 1) := by
  unfold Mir.Gen.transcription.evaluate Transcription.evaluate
  simp only [Mir.C05.GenTr.precision_recall_f1_overlap_eq_model, Mir.C05.GenTr.onset_precision_recall_f1_eq_model,
    Mir.C05.GenTr.offset_precision_recall_f1_eq_model]
  generalize Option.getD ratio (some (1 / 5)) = R
  generalize Option.getD ot (1 / 20) = OT
  generalize Option.getD pt 50 = PT
  generalize Option.getD mt (1 / 20) = MT
  generalize Option.getD strict false = S
  generalize Option.getD beta 1 = B
  cases R with
  | none =>
    simp only [ok_bind, pure_bind, List.nil_append]
    cases precisionRecallF1Overlap ri rp ei ep ⟨OT, PT, none, MT, S⟩ B with
    | error x => rfl
    | ok q =>
      simp only [ok_bind]
      cases onsetPRF ri ei OT S B with
      | error x => rfl
      | ok o => rfl
  | some ρ =>
    simp only [ok_bind, pure_bind, List.nil_append]
    cases precisionRecallF1Overlap ri rp ei ep ⟨OT, PT, some ρ, MT, S⟩ B with
    | error x => rfl
    | ok q0 =>
      simp only [ok_bind]
      cases precisionRecallF1Overlap ri rp ei ep ⟨OT, PT, none, MT, S⟩ B with
      | error x => rfl
      | ok q =>
        simp only [ok_bind]
        cases onsetPRF ri ei OT S B with
        | error x => rfl
        | ok o =>
          simp only [ok_bind]
          cases offsetPRF ri ei ρ MT S B with
          | error x => rfl
          | ok f => simp [pure, Except.pure, bind, Except.bind]

/-- **`transcription_velocity.evaluate` as translated = the hand model** (`velEvaluate`) for ALL inputs and ALL keyword dicts -/
theorem velocity_evaluate_eq_model (ri : List Ival) (rp rv : List Rat) (ei : List Ival) (ep ev : List Rat) (ot pt : Option Rat)
    (ratio : Option (Option Rat)) (mt : Option Rat) (strict : Option Bool) (vt beta : Option Rat) :
    Mir.Gen.transcription_velocity.evaluate ri rp rv ei ep ev ot pt ratio mt strict vt beta =
      velEvaluate ri rp rv ei ep ev
        ⟨ot.getD (1 / 20), pt.getD 50, ratio.getD (some (1 / 5)), mt.getD (1 / 20), strict.getD false⟩
        (vt.getD (1 / 10)) (beta.getD 1) := by
  unfold Mir.Gen.transcription_velocity.evaluate velEvaluate
  simp only [precision_recall_f1_overlap_eq_model]
  generalize Option.getD ratio (some (1 / 5)) = R
  generalize Option.getD ot (1 / 20) = OT
  generalize Option.getD pt 50 = PT
  generalize Option.getD mt (1 / 20) = MT
  generalize Option.getD strict false = S
  generalize Option.getD vt (1 / 10) = VT
  generalize Option.getD beta 1 = B
  cases R with
  | none =>
    simp only [ok_bind, pure_bind, List.nil_append]
  | some ρ =>
    simp only [ok_bind, pure_bind, List.nil_append]
    cases velPRFOverlap ri rp rv ei ep ev ⟨OT, PT, some ρ, MT, S⟩ VT B with
    | error x => rfl
    | ok q0 =>
      simp only [ok_bind]
      cases velPRFOverlap ri rp rv ei ep ev ⟨OT, PT, none, MT, S⟩ VT B with
      | error x => rfl
      | ok q => simp [pure, Except.pure, bind, Except.bind]

/-- the keys of the translated `transcription.evaluate`, in order: 14 with an offset ratio, 7 with `offset_ratio=None` -/
theorem gen_evaluate_keys (ri : List Ival) (rp : List Rat) (ei : List Ival) (ep : List Rat) (ot pt : Option Rat)
    (ratio : Option (Option Rat)) (mt : Option Rat) (strict : Option Bool) (beta : Option Rat) (d : List (String × Rat))
    (h : Mir.Gen.transcription.evaluate ri rp ei ep ot pt ratio mt strict beta = .ok d) :
    d.map Prod.fst = (if (ratio.getD (some (1 / 5))).isSome then
        ["Precision", "Recall", "F-measure", "Average_Overlap_Ratio"] else []) ++
      ["Precision_no_offset", "Recall_no_offset", "F-measure_no_offset", "Average_Overlap_Ratio_no_offset",
       "Onset_Precision", "Onset_Recall", "Onset_F-measure"] ++
      (if (ratio.getD (some (1 / 5))).isSome then ["Offset_Precision", "Offset_Recall", "Offset_F-measure"] else []) := by
  rw [evaluate_eq_model] at h
  exact Mir.C04.Transcription.evaluate_keys ri ei rp ep _ _ d h

/-! ### the headline statements on the translated definitions -/

/-- **AOR definition**: the translated `average_overlap_ratio` of a non-empty pairing is the mean, over the pairs, of
    `(min offsets − max onsets) / (max offsets − min onsets)` -/
theorem gen_aor_definition (ri ei : List Ival) (m : List Edge) (a : Rat) (hne : m ≠ [])
    (h : Mir.Gen.transcription.average_overlap_ratio ri ei m = .ok a) :
    ∃ rs : List Rat, rs.length = m.length ∧ a = rs.sum / (rs.length : Rat) ∧
      ∀ x ∈ rs, ∃ ij ∈ m, ∃ r e, ri[ij.1]? = some r ∧ ei[ij.2]? = some e ∧
        x = (min r.2 e.2 - max r.1 e.1) / (max r.2 e.2 - min r.1 e.1) := by
  rw [average_overlap_ratio_eq_model] at h
  exact Mir.C04.Transcription.aor_definition ri ei m a hne h

/-- the translated `average_overlap_ratio` of no pairs is 0 -/
theorem gen_aor_empty (ri ei : List Ival) : Mir.Gen.transcription.average_overlap_ratio ri ei [] = .ok 0 := by
  rw [average_overlap_ratio_eq_model]; rfl

/-- **AOR ≤ 1** for every list of index pairs over valid reference intervals -/
theorem gen_aor_le_one (ri ei : List Ival) (m : List Edge) (a : Rat) (hv : validateIntervals1 ri = .ok ())
    (h : Mir.Gen.transcription.average_overlap_ratio ri ei m = .ok a) : a ≤ 1 := by
  rw [average_overlap_ratio_eq_model] at h
  exact Mir.C01.Transcription.aor_le_one ri ei m a hv h

/-- **matched pairs ⊆ the plain matching**: whatever the translated velocity-aware `match_notes` returns is a sub-list of
    what the translated `transcription.match_notes` returns on the same notes -/
theorem gen_velocity_pairs_sublist (ri : List Ival) (rp rv : List Rat) (ei : List Ival) (ep ev : List Rat) (ot pt : Rat)
    (ratio : Option Rat) (mt : Rat) (strict : Bool) (vt : Rat) (hr : ri.length = rp.length) (he : ei.length = ep.length)
    (M' : List Edge) (h : Mir.Gen.transcription_velocity.match_notes ri rp rv ei ep ev ot pt ratio mt strict vt = .ok M') :
    ∃ M, Mir.Gen.transcription.match_notes ri rp ei ep ot pt ratio mt strict = .ok M ∧ M'.Sublist M := by
  rw [match_notes_eq_model ri rp rv ei ep ev ot pt ratio mt strict vt hr he] at h
  rw [Mir.C05.GenTr.match_notes_eq_model ri rp ei ep ot pt ratio mt strict hr he]
  exact velMatchNotes_sublist h

/-- **with-velocity scores ≤ without-velocity scores**: P, R and F of the translated
    `transcription_velocity.precision_recall_f1_overlap` never exceed those of the translated
    `transcription.precision_recall_f1_overlap` on the same notes -/
theorem gen_with_velocity_le_without (ri : List Ival) (rp rv : List Rat) (ei : List Ival) (ep ev : List Rat)
    (ot pt : Rat) (ratio : Option Rat) (mt : Rat) (strict : Bool) (vt beta : Rat) (a b : Rat × Rat × Rat × Rat)
    (ha : Mir.Gen.transcription_velocity.precision_recall_f1_overlap ri rp rv ei ep ev ot pt ratio mt strict vt beta = .ok a)
    (hb : Mir.Gen.transcription.precision_recall_f1_overlap ri rp ei ep ot pt ratio mt strict beta = .ok b) :
    PRFLe a b := by
  rw [precision_recall_f1_overlap_eq_model] at ha
  rw [Mir.C05.GenTr.precision_recall_f1_overlap_eq_model] at hb
  exact Mir.C07.Transcription.with_velocity_le_without ri ei rp rv ep ev _ vt beta a b ha hb

/-- the velocity-aware scores as translated: P, R, F ∈ [0, 1] and AOR ≤ 1 -/
theorem gen_velocity_prf_overlap_range (ri : List Ival) (rp rv : List Rat) (ei : List Ival) (ep ev : List Rat)
    (ot pt : Rat) (ratio : Option Rat) (mt : Rat) (strict : Bool) (vt beta : Rat) (s : Rat × Rat × Rat × Rat)
    (h : Mir.Gen.transcription_velocity.precision_recall_f1_overlap ri rp rv ei ep ev ot pt ratio mt strict vt beta = .ok s) :
    Mir.C01.Transcription.In01 s.1 ∧ Mir.C01.Transcription.In01 s.2.1 ∧ Mir.C01.Transcription.In01 s.2.2.1 ∧ s.2.2.2 ≤ 1 := by
  rw [precision_recall_f1_overlap_eq_model] at h
  exact Mir.C01.Transcription.velocity_prf_overlap_range ri ei rp rv ep ev _ vt beta s h

/-- widening the velocity tolerance never lowers P, R or F of the translated function -/
theorem gen_velocity_tolerance_widen (ri : List Ival) (rp rv : List Rat) (ei : List Ival) (ep ev : List Rat)
    (ot pt : Rat) (ratio : Option Rat) (mt : Rat) (strict : Bool) (vt vt' beta : Rat) (hvt : vt ≤ vt') (a b : Rat × Rat × Rat × Rat)
    (ha : Mir.Gen.transcription_velocity.precision_recall_f1_overlap ri rp rv ei ep ev ot pt ratio mt strict vt beta = .ok a)
    (hb : Mir.Gen.transcription_velocity.precision_recall_f1_overlap ri rp rv ei ep ev ot pt ratio mt strict vt' beta = .ok b) :
    PRFLe a b := by
  rw [precision_recall_f1_overlap_eq_model] at ha hb
  exact Mir.C07.Transcription.velocity_tolerance_widen ri ei rp rv ep ev _ vt vt' beta hvt a b ha hb

/-- (C02 on the translated definition) with the identity pairing the translated AOR of `(x, x)` is 1 -/
theorem gen_aor_identity (ri : List Ival) (m : List Edge) (a : Rat) (hv : validateIntervals1 ri = .ok ())
    (hne : m ≠ []) (hid : ∀ ij ∈ m, ij.1 = ij.2) (h : Mir.Gen.transcription.average_overlap_ratio ri ri m = .ok a) : a = 1 := by
  rw [average_overlap_ratio_eq_model] at h
  exact Mir.C02.Transcription.aor_identity ri m a hv hne hid h

/-- (C05 on the translated definition) the velocity-filtered pairing is still one-to-one and feasible for the note criterion -/
theorem gen_velocity_pairing_valid (ri : List Ival) (rp rv : List Rat) (ei : List Ival) (ep ev : List Rat) (ot pt : Rat)
    (ratio : Option Rat) (mt : Rat) (strict : Bool) (vt : Rat) (hr : ri.length = rp.length) (he : ei.length = ep.length)
    (M' : List Edge) (h : Mir.Gen.transcription_velocity.match_notes ri rp rv ei ep ev ot pt ratio mt strict vt = .ok M') :
    ValidMatching (hitGraph (noteHit ⟨ot, pt, ratio, mt, strict⟩) (ri.zip rp) (ei.zip ep)) M' := by
  rw [match_notes_eq_model ri rp rv ei ep ev ot pt ratio mt strict vt hr he] at h
  exact Mir.C05.Transcription.velocity_pairing_valid ri ei rp rv ep ev _ vt M' h

/-! ### non-vacuity -/

/-- no reference velocity at all: `np.min` of an empty array raises — also on the translated definition (the matching
    itself succeeds: no offset criterion, so nothing validates the intervals) -/
example : Mir.Gen.transcription_velocity.match_notes [(0, 1)] [60] [] [(0, 1)] [60] [64] (1 / 20) 50 none (1 / 20) false (1 / 10)
    = .error .valueError := by
  rw [match_notes_eq_model _ _ _ _ _ _ _ _ _ _ _ _ rfl rfl]
  unfold velMatchNotes matchNotes durationsCheck
  simp only [Option.isSome_none, Bool.false_eq_true, if_false, ok_bind, Mir.C05.GenTr.pyMatching_ok]
  rfl

example : Mir.Gen.transcription.average_overlap_ratio [(0, 1)] [(1 / 2, 1)] [(0, 0)] = .ok (1 / 2) := by
  rw [average_overlap_ratio_eq_model]; decide +kernel

end Mir.C04.GenTrVel
