import MirProofs.Props.C09
/-! C04 — the key score equals the documented relationship table (finite key type: every key pair). -/
namespace Mir.C04.Key
open Mir Mir.Key

/-- For every pair of major / minor / X keys the model's `weighted_score` is the documented relationship table
    (same key 1, estimate a perfect fifth above 0.5, relative major/minor 0.3, parallel major/minor 0.2, else 0). -/
theorem key_table (r e : Key) (hr : r.mode ≠ some .other) (he : e.mode ≠ some .other) :
    weightedScore r e = (Spec.relation r e).score :=
  Mir.C09.key_table r e hr he

/-- and the string pipeline (validate_key, split, lower-casing) on any case variant returns that finite-level score -/
theorem key_score_values (r e : Key) : weightedScore r e ∈ [0, 1 / 5, 3 / 10, 1 / 2, 1] :=
  Mir.C09.key_score_values r e

end Mir.C04.Key
