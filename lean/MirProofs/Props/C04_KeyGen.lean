import MirGen.Scalars
import MirProofs.Lemmas.PyScalar
import MirProofs.Lemmas.Key
import MirProofs.Props.C09
/-
  C04 (key) — the generated definitions of `mir_eval.key` (MirGen/Scalars.lean, regenerated from the source on every
  run) equal the hand-written string-level model `Mir.Key.*` for ALL arguments.  So the documented-table theorems
  (C04_Key / C09 / C01_Key / C02_Key), which are about the hand model, speak about the code as translated.
-/
namespace Mir.C04.KeyGen
open Mir Mir.Key

/-- the regenerated dict literal is the table of the hand-written model -/
theorem KEY_TO_SEMITONE_eq : Mir.Gen.key.KEY_TO_SEMITONE = Mir.Key.KEY_TO_SEMITONE := rfl

theorem dictHas_eq (k : List Char) :
    Mir.PyS.dictHas Mir.Gen.key.KEY_TO_SEMITONE k = (keyLookup k).isSome := by
  unfold Mir.PyS.dictHas keyLookup
  rw [KEY_TO_SEMITONE_eq, Mir.PyS.lookup_eq_find]

theorem dictIndex_eq (k : List Char) :
    Mir.PyS.dictIndex Mir.Gen.key.KEY_TO_SEMITONE k =
      (match keyLookup k with | some v => .ok v | none => .error .keyError) := by
  unfold Mir.PyS.dictIndex keyLookup
  rw [KEY_TO_SEMITONE_eq, Mir.PyS.lookup_eq_find]
  cases Option.map (fun x => x.2) (List.find? (fun p => p.1 == k) Mir.Key.KEY_TO_SEMITONE) <;> rfl

/-- `key.validate_key` as translated = `Key.validateKey` -/
theorem validate_key_eq (key : List Char) : Mir.Gen.key.validate_key key = validateKey key := by
  unfold Mir.Gen.key.validate_key validateKey
  simp only [dictHas_eq, Mir.PyS.split, Mir.PyS.lower, Mir.PyS.len_eq_two, Mir.PyS.len_ne_zero]
  have hpure : (pure () : Py Unit) = Except.ok () := rfl
  generalize split key = toks
  by_cases hx : lower key = ['x'] <;>
    rcases toks with _ | ⟨a, _ | ⟨b, _ | ⟨c, t⟩⟩⟩ <;>
      simp [hx, hpure, sMajor, sMinor, sOther, Option.isNone_iff_eq_none]
  by_cases ha : lower a = ['x'] <;> simp [ha]

/-- `key.validate` as translated = validating the reference key, then the estimated key -/
theorem validate_eq (r e : List Char) :
    Mir.Gen.key.validate r e = (do validateKey r; validateKey e) := by
  unfold Mir.Gen.key.validate
  simp only [validate_key_eq]
  cases validateKey r <;> cases validateKey e <;> rfl

/-- `key.split_key_string` as translated = `Key.splitKeyString` -/
theorem split_key_string_eq (key : List Char) : Mir.Gen.key.split_key_string key = splitKeyString key := by
  unfold Mir.Gen.key.split_key_string splitKeyString
  simp only [dictIndex_eq, Mir.PyS.split, Mir.PyS.lower]
  generalize split key = toks
  by_cases hx : lower key = ['x']
  · simp only [hx, decide_true, Bool.not_true, Bool.false_eq_true, if_false, ne_eq, not_true_eq_false]
    cases keyLookup ['x'] <;> rfl
  · simp only [hx, decide_false, Bool.not_false, if_true, ne_eq, not_false_eq_true]
    rcases toks with _ | ⟨a, _ | ⟨b, _ | ⟨c, t⟩⟩⟩ <;> try rfl
    cases h : keyLookup (lower a) <;> simp [h]

/-- `key.weighted_score` as translated (validate both keys, split both, the decision cascade with its
    `None`-arithmetic made explicit) = `Key.weightedScoreStr`; in particular the cascade never raises TypeError -/
theorem weighted_score_eq (r e : List Char) : Mir.Gen.key.weighted_score r e = weightedScoreStr r e := by
  unfold Mir.Gen.key.weighted_score weightedScoreStr
  simp only [validate_eq, split_key_string_eq]
  cases validateKey r with
  | error x => rfl
  | ok u =>
    cases validateKey e with
    | error x => rfl
    | ok u' =>
      cases splitKeyString r with
      | error x => rfl
      | ok p =>
        obtain ⟨rk, rm⟩ := p
        cases splitKeyString e with
        | error x => rfl
        | ok q =>
          obtain ⟨ek, em⟩ := q
          cases rk <;> cases ek <;>
            simp [scoreCore, bind, Except.bind, pure, Except.pure, sMajor, sMinor] <;>
            split_ifs <;> simp_all <;> grind

/-- the documented relationship table, on the code as translated: for every pair of major / minor / X keys, written
    in any case variant, the translated `key.weighted_score` returns the table's score -/
theorem weighted_score_table (r e : Key) (v w : Nat) (hv : v < 4) (hw : w < 4)
    (hr : r.mode ≠ some .other) (he : e.mode ≠ some .other) :
    Mir.Gen.key.weighted_score (r.render v) (e.render w) = .ok (Spec.relation r e).score := by
  rw [weighted_score_eq, weightedScoreStr_render r e v w hv hw, Mir.C09.key_table r e hr he]

/-- non-vacuity: one instance per row of the table, the `X` key, a malformed key -/
example :
    Mir.Gen.key.weighted_score "C major".toList "c major".toList = .ok 1 ∧
    Mir.Gen.key.weighted_score "C major".toList "G major".toList = .ok (1 / 2) ∧
    Mir.Gen.key.weighted_score "C major".toList "a minor".toList = .ok (3 / 10) ∧
    Mir.Gen.key.weighted_score "A minor".toList "C major".toList = .ok (3 / 10) ∧
    Mir.Gen.key.weighted_score "C major".toList "C minor".toList = .ok (1 / 5) ∧
    Mir.Gen.key.weighted_score "C major".toList "D major".toList = .ok 0 ∧
    Mir.Gen.key.weighted_score "X".toList "x".toList = .ok 1 ∧
    Mir.Gen.key.weighted_score "X".toList "D major".toList = .ok 0 ∧
    Mir.Gen.key.weighted_score "C Major".toList "D major".toList = .error .valueError ∧
    Mir.Gen.key.split_key_string "Db minor".toList = .ok (some 1, some "minor".toList) ∧
    Mir.Gen.key.split_key_string "H minor".toList = .error .keyError := by
  decide +kernel

end Mir.C04.KeyGen
