import MirProofs.Lemmas.Melody
/-! C04 (melody): the frame measures equal their published definitions (Poliner et al. 2007, Salamon et al.
    2014: ratios of frame counts, for binary voicings), the chroma folding `|d − 1200·⌊d/1200 + ½⌋|` is the
    distance from `d` to the nearest multiple of an octave, resampling is piecewise-linear interpolation of the
    cent series gated by a zero-order hold, and the constant-hop time base is the grid `0, hop, 2·hop, … ≤ end`. -/
namespace Mir.C04.Melody
open Mir Mir.Melody

/-! ## chroma distance -/

/-- `chromaDist d` is the distance from `d` to the lattice 1200·ℤ: it is attained and it is minimal -/
theorem chroma_dist_spec (d : Rat) :
    (∃ k : Int, chromaDist d = (d - 1200 * (k : Rat)).abs) ∧
    (∀ k : Int, chromaDist d ≤ (d - 1200 * (k : Rat)).abs) ∧ 0 ≤ chromaDist d ∧ chromaDist d ≤ 600 :=
  ⟨chromaDist_attained d, chromaDist_le d, chromaDist_nonneg d, chromaDist_le_600 d⟩

/-! ## frame counts -/

/-- frames as tuples (ref voicing, ref cent, est voicing, est cent) -/
def frames (rv rc ev ec : List Rat) : List (Rat × Rat × Rat × Rat) :=
  List.zip rv (List.zip rc (List.zip ev ec))

/-- voicing recall = (# frames voiced in both) / (# frames voiced in the reference); 1 if the reference has no
    voiced frame.  (The reference may carry continuous voicing: only `> 0` is used.) -/
theorem voicing_recall_spec {rv ev : List Rat} (hlen : rv.length = ev.length) (hb : isBinary ev = true)
    (hne : rv ≠ []) :
    voicingRecall rv ev = .ok (if nRefVoiced rv = 0 then 1 else
      (((List.zip rv ev).countP fun p => isVoiced p.1 && isVoiced p.2 : Nat) : Rat) / (nRefVoiced rv : Rat)) := by
  have hne' : ev ≠ [] := by intro h; rw [h] at hlen; exact hne (List.length_eq_zero_iff.1 hlen)
  unfold voicingRecall voicingRate nRefVoiced
  simp only [isEmpty_false hne, isEmpty_false hne', Bool.or_self, Bool.false_eq_true, if_false,
    rsum_map_ind, Nat.cast_eq_zero]
  by_cases h0 : rv.countP isVoiced = 0
  · simp only [h0, if_true]
  · simp only [h0, if_false]
    rw [bmul_eq_of_length (by simp [hlen])]
    simp only [zipMul_count (isBinary_iff.1 hb)]

/-- voicing false alarm = (# frames unvoiced in the reference, voiced in the estimate) / (# unvoiced reference
    frames); 0 if every reference frame is voiced -/
theorem voicing_false_alarm_spec {rv ev : List Rat} (hlen : rv.length = ev.length) (hb : isBinary ev = true)
    (hne : rv ≠ []) :
    voicingFalseAlarm rv ev = .ok (if rv.countP isUnvoiced = 0 then 0 else
      (((List.zip rv ev).countP fun p => isUnvoiced p.1 && isVoiced p.2 : Nat) : Rat) /
        ((rv.countP isUnvoiced : Nat) : Rat)) := by
  have hne' : ev ≠ [] := by intro h; rw [h] at hlen; exact hne (List.length_eq_zero_iff.1 hlen)
  unfold voicingFalseAlarm voicingRate
  simp only [isEmpty_false hne, isEmpty_false hne', Bool.or_self, Bool.false_eq_true, if_false,
    rsum_map_ind, Nat.cast_eq_zero]
  by_cases h0 : rv.countP isUnvoiced = 0
  · simp only [h0, if_true]
  · simp only [h0, if_false]
    rw [bmul_eq_of_length (by simp [hlen])]
    simp only [zipMul_count (isBinary_iff.1 hb)]

/-- raw pitch accuracy = (# voiced reference frames whose estimate is within `tol` cents, strictly) /
    (# voiced reference frames); 0 if there is none — the estimated voicing plays no role -/
theorem raw_pitch_accuracy_spec {rv rc ev ec : List Rat} {tol : Rat}
    (hv : validVoicingB rv ev = true) (hl : validLenB rv rc ev ec = true) (hb : isBinary rv = true) :
    rawPitchAccuracy rv rc ev ec tol = .ok (if nRefVoiced rv = 0 then 0 else
      (nCorrect (fun d => decide (d < tol)) rv rc ec : Rat) / (nRefVoiced rv : Rat)) :=
  pitchAcc_spec hv hl hb

/-- raw chroma accuracy: the same with the octave-folded distance -/
theorem raw_chroma_accuracy_spec {rv rc ev ec : List Rat} {tol : Rat}
    (hv : validVoicingB rv ev = true) (hl : validLenB rv rc ev ec = true) (hb : isBinary rv = true) :
    rawChromaAccuracy rv rc ev ec tol = .ok (if nRefVoiced rv = 0 then 0 else
      (nCorrect (fun d => decide (chromaDist d < tol)) rv rc ec : Rat) / (nRefVoiced rv : Rat)) :=
  pitchAcc_spec hv hl hb

/-- overall accuracy = (# frames voiced in both with a correct pitch + # frames unvoiced in both) / # frames -/
theorem overall_accuracy_spec {rv rc ev ec : List Rat} {tol : Rat}
    (hv : validVoicingB rv ev = true) (hl : validLenB rv rc ev ec = true)
    (hb : isBinary rv = true) (hbe : isBinary ev = true) (hne : rv ≠ []) :
    overallAccuracy rv rc ev ec tol = .ok
      (((((frames rv rc ev ec).countP fun p => isVoiced p.1 && isVoiced p.2.2.1 &&
            (decide (p.2.2.2 ≠ 0) && decide (p.2.1 ≠ 0) && decide ((p.2.1 - p.2.2.2).abs < tol)) : Nat) : Rat) +
        (((List.zip rv ev).countP fun p => !isVoiced p.1 && !isVoiced p.2 : Nat) : Rat)) / (rv.length : Rat)) := by
  have hb' := isBinary_iff.1 hb
  have hbe' := isBinary_iff.1 hbe
  obtain ⟨l0, hrv, hev⟩ := validVoicingB_iff.1 hv
  obtain ⟨l1, l2, l3⟩ := validLenB_iff.1 hl
  have hrc : rc ≠ [] := by intro h; rw [h] at l1; exact hne (List.length_eq_zero_iff.1 l1)
  have hec : ec ≠ [] := by intro h; rw [h] at l3; exact hrc (List.length_eq_zero_iff.1 l3)
  have hev' : ev ≠ [] := by intro h; rw [h] at l0; exact hne (List.length_eq_zero_iff.1 l0)
  unfold overallAccuracy
  simp only [hv, hl, Bool.and_self, if_true, Except.ok.injEq]
  unfold oaCore frames
  simp only [isEmpty_false hne, isEmpty_false hrc, isEmpty_false hec, isEmpty_false hev', Bool.or_self,
    Bool.false_eq_true, if_false]
  congr 1
  rw [← oaSum_count hb' hbe' rc ec, ← unvSum_count hb' hbe']
  congr 1
  split
  · rename_i h0
    have := oaSum_bounds tol (inUnit_iff.1 hrv) (inUnit_iff.1 hev) rc ec
    rw [h0] at this
    have : oaSum tol rv rc ev ec = 0 := le_antisymm this.2 this.1
    rw [this]; ring
  · rename_i h0
    rw [voicedCount_eq_rsum hb', div_self h0, one_mul]

/-! ## frequencies -/

/-- `freq_to_voicing(f)`: a frame is voiced iff its frequency is positive; `hz2cents` forgets the sign and maps
    0 Hz to 0 -/
theorem freq_to_voicing_spec (fs : List Freq) :
    freqToVoicing fs none = .ok (fs.map Freq.abs, fs.map fun f => if 0 < f.sgn then 1 else 0) ∧
    hz2cents (fs.map Freq.abs) = fs.map fun f => if f.sgn = 0 then 0 else f.cent := by
  constructor
  · simp only [freqToVoicing, ind, decide_eq_true_eq]
  · simp only [hz2cents, List.map_map]
    apply List.map_congr_left
    intro f _
    by_cases h : f.sgn = 0 <;> simp [Freq.abs, h]

/-! ## resampling -/

/-- On strictly increasing time stamps the frequency interpolant used for `kind='linear'` is the chord between
    the two neighbouring samples … -/
theorem interp_linear_spec {p : Rat × Rat} {rest l₁ l₂ : List (Rat × Rat)} {a b : Rat × Rat} {x : Rat}
    (hs : Increasing (p :: rest)) (hd : p :: rest = l₁ ++ a :: b :: l₂) (ha : a.1 ≤ x) (hb : x < b.1) :
    interpLinear p rest x = a.2 + (b.2 - a.2) / (b.1 - a.1) * (x - a.1) :=
  interpLinear_segment hs hd ha hb

/-- … it passes through the samples … -/
theorem interp_linear_knot {p : Rat × Rat} {rest l₁ l₂ : List (Rat × Rat)} {a b : Rat × Rat}
    (hs : Increasing (p :: rest)) (hd : p :: rest = l₁ ++ a :: b :: l₂) :
    interpLinear p rest a.1 = a.2 :=
  interpLinear_knot hs hd

/-- … and the mask / voicing interpolant (`'zero'`) holds the value of the sample to the left. -/
theorem interp_zero_spec {p : Rat × Rat} {rest l₁ l₂ : List (Rat × Rat)} {a b : Rat × Rat} {x : Rat}
    (hs : Increasing (p :: rest)) (hd : p :: rest = l₁ ++ a :: b :: l₂) (ha : a.1 ≤ x) (hb : x < b.1) :
    interpZero p rest x = a.2 :=
  interpZero_segment hs hd ha hb

/-- from the last sample on, both return the last value -/
theorem interp_last_spec {p : Rat × Rat} {rest : List (Rat × Rat)} {x : Rat} (h : ∀ q ∈ p :: rest, q.1 ≤ x) :
    interpLinear p rest x = ((p :: rest).getLast (by simp)).2 ∧
    interpZero p rest x = ((p :: rest).getLast (by simp)).2 :=
  interp_last h

/-- identical time bases are not resampled at all -/
theorem resample_same_timebase (t f v : List Rat) (kind : Kind) :
    resampleMelodySeries t f v t kind = .ok (f, v) := resample_self t f v kind

/-- `constant_hop_timebase(hop, end)` for a positive hop with at most 10 decimals and `end ≥ 0` with at most 10
    decimals: the grid `0, hop, …, n·hop` with `n·hop ≤ end < (n+1)·hop`. -/
theorem constant_hop_timebase_spec {hop e : Rat} {zh ze : Int} (hpos : 0 < hop) (he : 0 ≤ e)
    (hh : hop * 10000000000 = (zh : Rat)) (hee : e * 10000000000 = (ze : Rat)) :
    ∃ n : Nat, constantHopTimebase hop e = .ok ((List.range (n + 1)).map fun (i : Nat) => hop * (i : Rat)) ∧
      hop * (n : Rat) ≤ e ∧ e < hop * ((n : Rat) + 1) := by
  have hfl0 : 0 ≤ (e / hop).floor := Rat.le_floor_iff.2 (by simpa using div_nonneg he hpos.le)
  refine ⟨(e / hop).floor.toNat, ?_, ?_, ?_⟩
  · unfold constantHopTimebase
    rw [round10_exact hee]
    simp only [ne_of_gt hpos, if_false]
    rw [if_neg (by omega)]
    have : ((e / hop).floor + 1).toNat = (e / hop).floor.toNat + 1 := by omega
    rw [this]
    congr 1
    apply List.map_congr_left
    intro i _
    apply round10_exact (z := zh * (i : Int))
    push_cast
    rw [← hh]; ring
  · have h1 := Rat.floor_le (e / hop)
    have hc : (((e / hop).floor.toNat : Nat) : Rat) = ((e / hop).floor : Rat) := by
      have : (((e / hop).floor.toNat : Nat) : Int) = (e / hop).floor := Int.toNat_of_nonneg hfl0
      exact_mod_cast this
    rw [hc]
    calc hop * ((e / hop).floor : Rat) ≤ hop * (e / hop) := mul_le_mul_of_nonneg_left h1 hpos.le
      _ = e := by field_simp
  · have h2 := Rat.lt_floor_add_one (e / hop)
    push_cast at h2
    have hc : (((e / hop).floor.toNat : Nat) : Rat) = ((e / hop).floor : Rat) := by
      have : (((e / hop).floor.toNat : Nat) : Int) = (e / hop).floor := Int.toNat_of_nonneg hfl0
      exact_mod_cast this
    rw [hc]
    calc e = hop * (e / hop) := by field_simp
      _ < hop * (((e / hop).floor : Rat) + 1) := mul_lt_mul_of_pos_left h2 hpos

/-! non-vacuity -/
example : voicingRecall [1, 1, 0, 1] [1, 0, 1, 1] = .ok (2/3) ∧ nRefVoiced [1, 1, 0, 1] = 3 := by
  refine ⟨by decide +kernel, by decide +kernel⟩
example : rawPitchAccuracy [1, 1, 0, 1] [3000, 3100, 0, 3300] [1, 0, 1, 1] [3049, 3150, 0, 0] 50 = .ok (1/3) ∧
    nCorrect (fun d => decide (d < 50)) [1, 1, 0, 1] [3000, 3100, 0, 3300] [3049, 3150, 0, 0] = 1 := by
  refine ⟨by decide +kernel, by decide +kernel⟩
example : overallAccuracy [1, 1, 0, 0] [3000, 3100, 0, 0] [1, 0, 0, 1] [3049, 3100, 0, 3000] 50 = .ok (1/2) := by
  decide +kernel
example : constantHopTimebase (1/4) (9/10) = .ok [0, 1/4, 1/2, 3/4] := by decide +kernel
example : interpLinear (0, 100) [(1, 200), (3, 0)] 2 = 100 ∧ interpZero (0, 100) [(1, 200), (3, 0)] 2 = 200 ∧
    Increasing [((0 : Rat), (100 : Rat)), (1, 200), (3, 0)] := by
  refine ⟨by decide +kernel, by decide +kernel, ?_⟩
  simp [Increasing]

end Mir.C04.Melody
