import MirProofs.Lemmas.MultipitchInvariance
import MirProofs.Lemmas.MultipitchFastHit
/-! C04 (multipitch part) — the scores equal their published definitions (Poliner & Ellis 2007, Bay et al.
    2009): with `TP_i` the size of a maximum one-to-one pairing of reference and estimated pitches of frame
    `i` within the window, `R_i`, `E_i` the numbers of reference / estimated pitches,
    precision = ΣTP/ΣE, recall = ΣTP/ΣR, accuracy = ΣTP/(ΣTP + ΣFP + ΣFN),
    E_sub = Σ(min(R,E) − TP)/ΣR, E_miss = Σ(R−E)⁺/ΣR, E_fa = Σ(E−R)⁺/ΣR, E_tot = Σ(max(R,E) − TP)/ΣR. -/
open Mir Mir.Multipitch

namespace Mir.C04.Multipitch

/-- the frame pairs that are scored: reference frame `i` with the estimate frame aligned to it -/
def scoredPairs (rt et : List Rat) (rf ef : Frames) : Pairs := rf.zip (alignedEst rt et ef)

def TP (feas : Rat → Rat → Bool) (ps : Pairs) : Int := (ps.map fun p => (maxMatchSize (hitGraph feas p.1 p.2) : Int)).sum
def NR (ps : Pairs) : Int := (ps.map fun p => (p.1.length : Int)).sum
def NE (ps : Pairs) : Int := (ps.map fun p => (p.2.length : Int)).sum

/-- precision, recall, accuracy are the documented quotients of the summed counts (0 when the denominator
    is 0); accuracy's denominator is TP + FP + FN with FP = ΣE − TP, FN = ΣR − TP -/
theorem accuracy_scores_equal_definition (rt et : List Rat) (rf ef : Frames) (w : Rat) (m : Seven × Seven)
    (h : metrics rt rf et ef w = .ok m) (chroma : Bool) :
    let ps := scoredPairs rt et rf ef
    let feas := feasOf w chroma
    let s := if chroma then m.2 else m.1
    let tp := TP feas ps
    let fp := NE ps - tp
    let fn := NR ps - tp
    s.precision = (if 0 < NE ps then ofInt tp / ofInt (NE ps) else 0) ∧
    s.recall = (if 0 < NR ps then ofInt tp / ofInt (NR ps) else 0) ∧
    s.accuracy = (if 0 < tp + fp + fn then ofInt tp / ofInt (tp + fp + fn) else 0) := by
  obtain ⟨rfl, hr, he⟩ := metrics_ok h
  intro ps feas s tp fp fn
  have hden : tp + fp + fn = NE ps + NR ps - tp := by simp only [fp, fn]; omega
  rw [hden]
  have key : ∀ f : Rat → Rat → Bool,
      (sevenOf (rowsP f ps)).precision = (if 0 < NE ps then ofInt (TP f ps) / ofInt (NE ps) else 0) ∧
      (sevenOf (rowsP f ps)).recall = (if 0 < NR ps then ofInt (TP f ps) / ofInt (NR ps) else 0) ∧
      (sevenOf (rowsP f ps)).accuracy =
        (if 0 < NE ps + NR ps - TP f ps then ofInt (TP f ps) / ofInt (NE ps + NR ps - TP f ps) else 0) := by
    intro f
    show (computeAccuracy _).1 = _ ∧ (computeAccuracy _).2.1 = _ ∧ (computeAccuracy _).2.2 = _
    rw [computeAccuracy_accOf, tpSum_rowsP_eq, refSum_rowsP_eq, estSum_rowsP_eq]
    exact ⟨rfl, rfl, rfl⟩
  have hm := metricsCore_eq (rt := rt) (et := et) (rf := rf) (ef := ef) w hr he
  cases chroma
  · have : s = sevenOf (rowsP (rawFeas w) ps) := by simp only [s, hm]; rfl
    rw [this]; exact key _
  · have : s = sevenOf (rowsP (chromaFeas w) ps) := by simp only [s, hm]; rfl
    rw [this]; exact key _

/-- the four error scores are the documented sums divided by the number of reference pitches -/
theorem error_scores_equal_definition (rows : List Row) (hR : sumBy (fun x => x.2.1) rows ≠ 0) :
    (sevenOf rows).esub = ofInt (sumBy (fun x => min x.2.1 x.2.2 - x.1) rows) / ofInt (sumBy (fun x => x.2.1) rows) ∧
    (sevenOf rows).emiss = ofInt (sumBy (fun x => max (x.2.1 - x.2.2) 0) rows) / ofInt (sumBy (fun x => x.2.1) rows) ∧
    (sevenOf rows).efa = ofInt (sumBy (fun x => max (x.2.2 - x.2.1) 0) rows) / ofInt (sumBy (fun x => x.2.1) rows) ∧
    (sevenOf rows).etot = ofInt (sumBy (fun x => max x.2.1 x.2.2 - x.1) rows) / ofInt (sumBy (fun x => x.2.1) rows) := by
  have h1 : sumBy (fun x => if x.2.1 - x.2.2 < 0 then 0 else x.2.1 - x.2.2) rows
      = sumBy (fun x => max (x.2.1 - x.2.2) 0) rows := sumBy_congr fun x _ => by split <;> omega
  have h2 : sumBy (fun x => if x.2.2 - x.2.1 < 0 then 0 else x.2.2 - x.2.1) rows
      = sumBy (fun x => max (x.2.2 - x.2.1) 0) rows := sumBy_congr fun x _ => by split <;> omega
  show (computeErrScore rows).1 = _ ∧ (computeErrScore rows).2.1 = _ ∧ (computeErrScore rows).2.2.1 = _ ∧
    (computeErrScore rows).2.2.2 = _
  unfold computeErrScore
  simp only [hR, if_false, h1, h2, and_self]

/-- `TP_i` is the size of a maximum one-to-one pairing under the stated tolerance, and it is what the code's
    `util.match_events` route (`_fast_hit_windows`) computes for the raw criterion -/
theorem frame_count_is_maximum_matching (w : Rat) (chroma : Bool) (r e : List Rat) :
    IsMaxSize (hitGraph (feasOf w chroma) r e) (frameCount w chroma r e) ∧
    frameCount w false r e = matchEventsSize r e w :=
  ⟨maxMatchSize_isMax _, (matchEventsSize_eq_hitCount r e w).symm⟩

/-- non-vacuity -/
example : valid [0, 1 / 4] [[60, 64], [67]] [0, 1 / 4] [[60, 61, 90], []] = true := by decide +kernel

end Mir.C04.Multipitch
