import MirProofs.Lemmas.Onset
/-!
  C04 (onset) — `onset.f_measure` equals its documented definition: precision = #hits / #estimated,
  recall = #hits / #reference, F = 2PR/(P+R), where #hits is the size of a **maximum** one-to-one matching
  between reference and estimated onsets that pairs only onsets at most `window` apart.
-/
namespace Mir.C04.Onset
open Mir.Onset Mir.MiscStats

/-- the feasibility graph pairs exactly the onsets with `|ref_i - est_j| ≤ window` -/
theorem window_graph_edges (w : Rat) (ref est : List Rat) (i j : Nat) :
    (i, j) ∈ hitGraph (withinWindow w) ref est ↔
      ∃ r e, ref[i]? = some r ∧ est[j]? = some e ∧ |r - e| ≤ w := by
  rw [mem_hitGraph]
  constructor
  · rintro ⟨r, e, hr, he, h⟩; exact ⟨r, e, hr, he, (ww_iff w r e).1 h⟩
  · rintro ⟨r, e, hr, he, h⟩; exact ⟨r, e, hr, he, (ww_iff w r e).2 h⟩

/-- on valid non-empty input the three scores are k/|est|, k/|ref| and their F-measure, where `k` is the
    size of a maximum matching of the window graph (some valid matching has `k` pairs, none has more) -/
theorem f_measure_is_matching_score (ref est : List Rat) (w : Rat) (hv : Onset.validate ref est = .ok ())
    (hr : ref ≠ []) (he : est ≠ []) :
    ∃ k : Nat, IsMaxSize (hitGraph (withinWindow w) ref est) k ∧
      Onset.fMeasure ref est w =
        .ok (Mir.fMeasure ((k : Rat) / est.length) ((k : Rat) / ref.length) 1,
             (k : Rat) / est.length, (k : Rat) / ref.length) := by
  refine ⟨hitCount (withinWindow w) ref est, maxMatchSize_isMax _, ?_⟩
  rw [fMeasure_of_valid w hv]
  simp [hitPRF, prf, hr, he]

/-- when either side is empty all three scores are 0 -/
theorem f_measure_empty (ref est : List Rat) (w : Rat) (hv : Onset.validate ref est = .ok ())
    (h : ref = [] ∨ est = []) : Onset.fMeasure ref est w = .ok (0, 0, 0) := by
  rw [fMeasure_of_valid w hv]
  rcases h with rfl | rfl <;> simp [hitPRF]

/-- the F returned is the documented `2·P·R / (P + R)` (0 when P = R = 0) -/
theorem f_is_harmonic_mean (p r : Rat) :
    Mir.fMeasure p r 1 = if p = 0 ∧ r = 0 then 0 else 2 * p * r / (p + r) := by
  unfold Mir.fMeasure
  split
  · rfl
  · congr 1 <;> ring

/-- `evaluate` is exactly `f_measure` with the `window` keyword (default 0.05), keys in the documented order -/
theorem evaluate_eq (ref est : List Rat) (w : Option Rat) :
    Onset.evaluate ref est w =
      (Onset.fMeasure ref est (w.getD (1 / 20))).map
        fun s => [("F-measure", s.1), ("Precision", s.2.1), ("Recall", s.2.2)] := by
  unfold Onset.evaluate
  cases Onset.fMeasure ref est (w.getD (1 / 20)) <;> rfl

/-! non-vacuity: greedy left-to-right pairing would find 1 hit here, the maximum matching has 2 -/
example : Onset.fMeasure [1, 2] [0, 1] 1 = .ok (1, 1, 1) := by
  rw [fMeasure_of_valid _ (by decide +kernel), hitPRF_eq_brute]; decide +kernel

end Mir.C04.Onset
