import MirProofs.Lemmas.PatternSpec
import Mathlib.Data.Finset.Card
import Mathlib.Data.List.Nodup
/-!
  C04 (pattern part) — `mir_eval.pattern` equals its documented definitions (Collins, MIREX 2013).

  Each theorem states, for ALL inputs, what the modelled function returns: the exception it raises and when,
  the early `(0, 0, 0)`, and otherwise the value of the Layer-S definition in `Mir.Pattern.Spec`
  (`rowMM` / `colMM` = mean over rows / columns of the best entry).
-/
namespace Mir.C04.Pattern
open Mir.Pattern

/-- `_occurrence_intersection` computes the intersection of the two point *sets*. -/
theorem intersection_spec (P Q : Occ) :
    (inter P Q).Nodup ∧ (∀ a, a ∈ inter P Q ↔ a ∈ P ∧ a ∈ Q) ∧
      interCount P Q = (P.toFinset ∩ Q.toFinset).card := by
  refine ⟨nodup_inter P Q, mem_inter P Q, ?_⟩
  unfold interCount
  rw [← List.toFinset_card_of_nodup (nodup_inter P Q)]
  congr 1
  ext a
  simp [mem_inter]

/-- one entry of `_compute_score_matrix`: `|P ∩ Q| / max(|P|, |Q|)`, `ZeroDivisionError` iff both are empty. -/
theorem cardinality_score_spec (P Q : Occ) :
    cardScore P Q = if P.isEmpty && Q.isEmpty then .error .zeroDivision
      else .ok (((P.toFinset ∩ Q.toFinset).card : Rat) / ((max P.length Q.length : Nat) : Rat)) := by
  rw [cardScore_eq]
  unfold Spec.card
  rw [(intersection_spec P Q).2.2, natMax_eq]

/-- `_compute_score_matrix(P, Q)` is the table of cardinality scores. -/
theorem score_matrix_spec (P Q : Pat) :
    scoreMatrix P Q cardName =
      if hasEmpty P && hasEmpty Q then .error .zeroDivision
      else .ok (P.map fun p => Q.map fun q => Spec.card p q) := scoreMatrix_eq P Q

/-- `establishment_FPR`: P = mean over estimated patterns of the best establishment score, R = mean over
    reference patterns, where the establishment score of a pattern pair is the best cardinality score over
    pairs of occurrences. -/
theorem establishment_spec (ref est : Pats) :
    establishmentFPR ref est cardName =
      if (ref ++ est).any List.isEmpty then .error .valueError
      else if isZero ref est then .ok (0, 0, 0)
      else if anyEmptyOcc ref && anyEmptyOcc est then .error .zeroDivision
      else .ok (Spec.establishment ref est) := establishmentFPR_eq ref est

/-- `occurrence_FPR`: over the relevant pattern pairs (establishment score ≥ thres), in loop order and with
    multiplicity, the mean of column / row maxima of the pairs' occurrence precision / recall. -/
theorem occurrence_spec (ref est : Pats) (thres : Rat) :
    occurrenceFPR ref est thres cardName =
      if (ref ++ est).any List.isEmpty then .error .valueError
      else if isZero ref est then .ok (0, 0, 0)
      else if anyEmptyOcc ref && anyEmptyOcc est then .error .zeroDivision
      else .ok (Spec.occurrence thres ref est) := occurrenceFPR_eq ref est thres

/-- `three_layer_FPR`: layer 1 = F1 of two occurrences, layer 2 = F1 of the mean-of-maxima P/R of layer 1,
    layer 3 = mean-of-maxima P/R/F of layer 2. -/
theorem three_layer_spec (ref est : Pats) :
    threeLayerFPR ref est =
      if (ref ++ est).any List.isEmpty then .error .valueError
      else if isZero ref est then .ok (0, 0, 0)
      else if anyEmptyOcc ref || anyEmptyOcc est then .error .zeroDivision
      else .ok (Spec.threeLayer ref est) := threeLayerFPR_eq ref est

/-- `standard_FPR`: `k` = number of reference prototypes that are a translation (to `tol`) of some estimated
    prototype; P = k / |est|, R = k / |ref|. -/
theorem standard_spec (ref est : Pats) (tol : Rat) :
    standardFPR ref est tol =
      if (ref ++ est).any List.isEmpty then .error .valueError
      else if isZero ref est then .ok (0, 0, 0)
      else if anyEmptyProto ref && anyEmptyProto est then .error .valueError
      else .ok (Spec.standard tol ref est) := standardFPR_eq ref est tol

/-- the prototype test of `standard_FPR` is "same length and all first differences of `P - Q` below `tol`" -/
theorem proto_match_spec (tol : Rat) (P Q : Occ) :
    protoMatch tol P Q = if P.isEmpty && Q.isEmpty then .error .valueError
      else .ok (Spec.transEquiv tol P Q) := protoMatch_eq tol P Q

/-- `first_n_three_layer_P` = three-layer precision on the first `n` estimated patterns
    (the scalar 0 on empty input). -/
theorem first_n_three_layer_spec (ref est : Pats) (n : Int) :
    firstNThreeLayerP ref est n =
      if (ref ++ est).any List.isEmpty then .error .valueError
      else if isZero ref est then .ok 0
      else (threeLayerFPR ref (firstN est n)).map fun t => t.2.1 :=
  firstNThreeLayerP_eq ref est n

/-- `first_n_target_proportion_R` = establishment recall on the first `n` estimated patterns. -/
theorem first_n_target_proportion_spec (ref est : Pats) (n : Int) :
    firstNTargetProportionR ref est n =
      if (ref ++ est).any List.isEmpty then .error .valueError
      else if isZero ref est then .ok 0
      else (establishmentFPR ref (firstN est n) cardName).map fun t => t.2.2 :=
  firstNTargetProportionR_eq ref est n

/-- `estimated_patterns[:min(len, n)]` keeps the first `n` patterns for `0 ≤ n`. -/
theorem first_n_prefix (est : Pats) (n : Nat) : firstN est (n : Int) = est.take n := firstN_nat est n

/-- `evaluate` computes its two occurrence entries with the thresholds 0.5 and 0.75 it forces under the
    parameter's real name `thres`: the bundle is the seven documented calls in order, and a `thres` supplied by
    the caller reaches no metric. -/
theorem evaluate_spec (ref est : Pats) (tol thres : Option Rat) (n : Option Int) :
    evaluate ref est tol thres none n = (do
      let s ← standardFPR ref est (tol.getD defaultTol)
      let e ← establishmentFPR ref est cardName
      let o5 ← occurrenceFPR ref est (1 / 2) cardName
      let o75 ← occurrenceFPR ref est (3 / 4) cardName
      let t ← threeLayerFPR ref est
      let ffp ← firstNThreeLayerP ref est (n.getD defaultN)
      let fftp ← firstNTargetProportionR ref est (n.getD defaultN)
      return [("F", s.1), ("P", s.2.1), ("R", s.2.2), ("F_est", e.1), ("P_est", e.2.1), ("R_est", e.2.2),
              ("F_occ.5", o5.1), ("P_occ.5", o5.2.1), ("R_occ.5", o5.2.2),
              ("F_occ.75", o75.1), ("P_occ.75", o75.2.1), ("R_occ.75", o75.2.2),
              ("F_3", t.1), ("P_3", t.2.1), ("R_3", t.2.2), ("FFP", ffp), ("FFTP_est", fftp)]) := rfl

theorem evaluate_ignores_thres (ref est : Pats) (tol thres : Option Rat) (metric : Option String) (n : Option Int) :
    evaluate ref est tol thres metric n = evaluate ref est tol none metric n := rfl

/-! non-vacuity: concrete values of the definitions (the second reference pattern is only half found) -/
def exRef : Pats := [[[(0, 60), (1, 62)]], [[(1/2, 61), (3/2, 63)], [(2, 61)]]]
def exEst : Pats := [[[(0, 60), (1, 62)], [(5, 60)]], [[(1/2, 61), (4, 70)]]]

example : establishmentFPR exRef exEst = .ok (3/4, 3/4, 3/4) ∧ Spec.establishment exRef exEst = (3/4, 3/4, 3/4) := by
  decide +kernel
example : occurrenceFPR exRef exEst (1/2) = .ok (5/9, 1/2, 5/8) ∧
    Spec.occurrence (1/2) exRef exEst = (5/9, 1/2, 5/8) := by decide +kernel
example : threeLayerFPR exRef exEst = .ok (1/2, 1/2, 1/2) ∧ Spec.threeLayer exRef exEst = (1/2, 1/2, 1/2) := by
  decide +kernel
example : standardFPR exRef exEst = .ok (1, 1, 1) ∧ Spec.standard defaultTol exRef exEst = (1, 1, 1) := by
  decide +kernel
example : firstNThreeLayerP exRef exEst 1 = .ok (2/3) ∧ firstNTargetProportionR exRef exEst 1 = .ok (1/2) ∧
    firstNThreeLayerP [] exEst 5 = .ok 0 ∧ firstNTargetProportionR exRef [] 5 = .ok 0 := by decide +kernel
/-- the two occurrence entries of `evaluate` really use different thresholds -/
example : (evaluate exRef exEst none none none none).map (fun kv => (kv.lookup "R_occ.5", kv.lookup "R_occ.75")) =
    .ok (some (5/8), some 1) := by decide +kernel
example : cardScore [(0, 60), (1, 62), (2, 64)] [(1, 62), (2, 64)] = .ok (2/3) ∧
    cardScore [] [] = .error .zeroDivision := by decide +kernel

end Mir.C04.Pattern
