import MirProofs.Lemmas.Tempo
/-!
  C04 (tempo) — `tempo.detection` equals its documented definition: a positive reference tempo is hit iff
  some estimate satisfies `|est - ref| ≤ tol · ref`; P-score = w·hit₀ + (1 - w)·hit₁; one-correct / both-correct
  are the disjunction / conjunction of the two hits; a zero reference tempo is never hit.
-/
namespace Mir.C04.Tempo
open Mir.Tempo Mir.MiscStats

/-- relative-error test of the code ⇔ the docstring's formula -/
theorem tempo_hit_iff (r e0 e1 tol : Rat) (hr : 0 < r) :
    hit r e0 e1 tol = true ↔ |e0 - r| ≤ tol * r ∨ |e1 - r| ≤ tol * r := hit_iff hr e0 e1 tol

theorem zero_reference_never_hit (e0 e1 tol : Rat) : hit 0 e0 e1 tol = false := hit_zero_ref e0 e1 tol

/-- every successful call has two reference and two estimated tempi and returns the documented triple -/
theorem detection_def (ref : List Rat) (w : Rat) (est : List Rat) (tol : Rat) (s : Rat × Bool × Bool)
    (h : detection ref w est tol = .ok s) :
    ∃ r0 r1 e0 e1, ref = [r0, r1] ∧ est = [e0, e1] ∧
      s.1 = w * (if hit r0 e0 e1 tol then 1 else 0) + (1 - w) * (if hit r1 e0 e1 tol then 1 else 0) ∧
      s.2.1 = (hit r0 e0 e1 tol || hit r1 e0 e1 tol) ∧ s.2.2 = (hit r0 e0 e1 tol && hit r1 e0 e1 tol) := by
  obtain ⟨r0, r1, e0, e1, rfl, rfl, hv, ht0, ht1, -, -⟩ := detection_ok_inv h
  rw [detection_of_valid hv ht0 ht1] at h
  cases h
  exact ⟨r0, r1, e0, e1, rfl, rfl, rfl, rfl, rfl⟩

/-- what is accepted: exactly two tempi each, none negative, reference not all zero, weight and tol in [0,1] -/
theorem detection_defined_iff (ref : List Rat) (w : Rat) (est : List Rat) (tol : Rat) :
    (∃ s, detection ref w est tol = .ok s) ↔
      ∃ r0 r1 e0 e1, ref = [r0, r1] ∧ est = [e0, e1] ∧ 0 ≤ r0 ∧ 0 ≤ r1 ∧ ¬ (r0 = 0 ∧ r1 = 0) ∧ 0 ≤ e0 ∧ 0 ≤ e1 ∧
        0 ≤ w ∧ w ≤ 1 ∧ 0 ≤ tol ∧ tol ≤ 1 := by
  constructor
  · rintro ⟨s, h⟩
    obtain ⟨r0, r1, e0, e1, rfl, rfl, hv, ht0, ht1, hw0, hw1⟩ := detection_ok_inv h
    rw [validate_ok_iff, validateTempi_ok_iff, validateTempi_ok_iff] at hv
    obtain ⟨⟨a, b, hab, ha, hb, hz⟩, ⟨c, d, hcd, hc, hd, -⟩, -, -⟩ := hv
    simp only [List.cons.injEq, and_true] at hab hcd
    obtain ⟨rfl, rfl⟩ := hab
    obtain ⟨rfl, rfl⟩ := hcd
    exact ⟨r0, r1, e0, e1, rfl, rfl, ha, hb, hz rfl, hc, hd, hw0, hw1, ht0, ht1⟩
  · rintro ⟨r0, r1, e0, e1, rfl, rfl, ha, hb, hz, hc, hd, hw0, hw1, ht0, ht1⟩
    have hv : validate [r0, r1] w [e0, e1] = .ok () := by
      rw [validate_ok_iff, validateTempi_ok_iff, validateTempi_ok_iff]
      exact ⟨⟨r0, r1, rfl, ha, hb, fun _ => hz⟩, ⟨e0, e1, rfl, hc, hd, by simp⟩, hw0, hw1⟩
    exact ⟨_, detection_of_valid hv ht0 ht1⟩

/-- `evaluate` is `detection` with the `tol` keyword (default 0.08) -/
theorem evaluate_eq (ref : List Rat) (w : Rat) (est : List Rat) (tol : Option Rat) :
    evaluate ref w est tol = detection ref w est (tol.getD (2 / 25)) := rfl

/-! non-vacuity: an estimate exactly on the threshold is a hit, just beyond it is not -/
example : hit 100 108 0 (2 / 25) = true := by decide +kernel
example : hit 100 (433 / 4) 0 (2 / 25) = false := by decide +kernel

end Mir.C04.Tempo
