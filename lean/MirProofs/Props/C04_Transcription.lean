import MirProofs.Lemmas.Transcription
/-!
  C04 (transcription part) — the note-based scores equal their documented definition:
  precision / recall / F from the size of a **maximum** one-to-one matching of reference and estimated notes
  under the stated onset / pitch / offset criterion.

  `Mir.Transcription.precisionRecallF1Overlap` etc. mirror the Python functions (validation, empty-input
  convention, the matching routine of `util._bipartite_match`, 4-decimal rounding, `strict`,
  `offset_ratio=None`); `hitPRF (noteHit p)` is the definition.
-/
namespace Mir.C04.Transcription
open Mir.Transcription

/-- The hit matrix of `match_notes` is the documented criterion: onsets within `onset_tolerance` (distance
    rounded to 4 decimals), pitches within `pitch_tolerance` cents, and — unless `offset_ratio` is `None` —
    offsets within `max(offset_ratio · reference duration, offset_min_tolerance)`. -/
theorem note_criterion_definition (p : Params) (r e : Note) :
    noteHit p r e = true ↔
      within p.strict (round4 |r.1.1 - e.1.1|) p.onsetTol ∧
      within p.strict |100 * (r.2 - e.2)| p.pitchTol ∧
      ∀ ρ, p.offsetRatio = some ρ →
        within p.strict (round4 |r.1.2 - e.1.2|) (max (ρ * (r.1.2 - r.1.1)) p.offsetMinTol) := by
  unfold noteHit onsetHit pitchHit pitchDist offsetHit offsetTol
  simp only [Bool.and_eq_true, cmpTol_iff, absR_eq_abs, maxR_eq_max]
  cases hρ : p.offsetRatio with
  | none => simp
  | some ρ => simp [cmpTol_iff, and_assoc]

/-- In the log domain the pitch distance is the distance in cents between `440·2^((m−69)/12)` Hz values:
    `1200·|log2 f_r − log2 f_e| = 1200·|(m_r − 69)/12 − (m_e − 69)/12|`. -/
theorem pitch_distance_is_cents (r e : Rat) : pitchDist r e = |1200 * ((r - 69) / 12 - (e - 69) / 12)| := by
  unfold pitchDist
  rw [absR_eq_abs]
  congr 1
  ring

/-- `np.around(·, 4)`: a multiple of 1e-4 at distance at most 0.5e-4 from the argument. -/
theorem round4_definition (x : Rat) : (∃ n : Int, round4 x = (n : Rat) / 10000) ∧ |round4 x - x| ≤ 1 / 20000 :=
  ⟨⟨_, rfl⟩, round4_near x⟩

/-- `match_notes` (when it returns) returns a one-to-one pairing of feasible pairs of maximum size. -/
theorem match_notes_is_maximum_matching (refI estI : List Ival) (refP estP : List Rat) (p : Params) (M : List Edge)
    (h : matchNotes refI refP estI estP p = .ok M) :
    (∀ ij ∈ M, ∃ r e, (refI.zip refP)[ij.1]? = some r ∧ (estI.zip estP)[ij.2]? = some e ∧ noteHit p r e = true) ∧
    (M.map Prod.fst).Nodup ∧ (M.map Prod.snd).Nodup ∧
    ∀ M', ValidMatching (hitGraph (noteHit p) (refI.zip refP) (estI.zip estP)) M' → M'.length ≤ M.length := by
  obtain ⟨hv, hl⟩ := matchNotes_spec h
  refine ⟨fun ij hij => (mem_hitGraph ..).1 (hv.1 ij hij), hv.2.1, hv.2.2, ?_⟩
  intro M' hM'
  rw [hl]
  exact le_maxMatchSize hM'

theorem match_note_onsets_is_maximum_matching (refI estI : List Ival) (tol : Rat) (s : Bool) (M : List Edge)
    (h : matchNoteOnsets refI estI tol s = .ok M) :
    (∀ ij ∈ M, ∃ r e, refI[ij.1]? = some r ∧ estI[ij.2]? = some e ∧ onsetHit tol s r e = true) ∧
    (M.map Prod.fst).Nodup ∧ (M.map Prod.snd).Nodup ∧
    ∀ M', ValidMatching (hitGraph (onsetHit tol s) refI estI) M' → M'.length ≤ M.length := by
  obtain ⟨hv, hl⟩ := matchNoteOnsets_spec h
  refine ⟨fun ij hij => (mem_hitGraph ..).1 (hv.1 ij hij), hv.2.1, hv.2.2, ?_⟩
  intro M' hM'
  rw [hl]
  exact le_maxMatchSize hM'

theorem match_note_offsets_is_maximum_matching (refI estI : List Ival) (ratio minTol : Rat) (s : Bool)
    (M : List Edge) (h : matchNoteOffsets refI estI ratio minTol s = .ok M) :
    (∀ ij ∈ M, ∃ r e, refI[ij.1]? = some r ∧ estI[ij.2]? = some e ∧ offsetHit ratio minTol s r e = true) ∧
    (M.map Prod.fst).Nodup ∧ (M.map Prod.snd).Nodup ∧
    ∀ M', ValidMatching (hitGraph (offsetHit ratio minTol s) refI estI) M' → M'.length ≤ M.length := by
  obtain ⟨hv, hl⟩ := matchNoteOffsets_spec h
  refine ⟨fun ij hij => (mem_hitGraph ..).1 (hv.1 ij hij), hv.2.1, hv.2.2, ?_⟩
  intro M' hM'
  rw [hl]
  exact le_maxMatchSize hM'

/-- `precision_recall_f1_overlap`: precision, recall and F are those of a maximum matching under the note
    criterion (`hitPRF`), with the all-zero convention for an empty side. -/
theorem prf_overlap_eq_definition (refI estI : List Ival) (refP estP : List Rat) (p : Params) (beta : Rat)
    (s : Rat × Rat × Rat × Rat) (h : precisionRecallF1Overlap refI refP estI estP p beta = .ok s) :
    (s.1, s.2.1, s.2.2.1) = hitPRF (noteHit p) (refI.zip refP) (estI.zip estP) beta :=
  prfOverlap_eq_hitPRF h

/-- `onset_precision_recall_f1`: the hit-metric triple of the onset criterion alone. -/
theorem onset_prf_eq_definition (refI estI : List Ival) (tol beta : Rat) (strict : Bool) (s : Rat × Rat × Rat)
    (h : onsetPRF refI estI tol strict beta = .ok s) : s = hitPRF (onsetHit tol strict) refI estI beta :=
  onsetPRF_eq_hitPRF h

/-- `offset_precision_recall_f1`: the hit-metric triple of the offset criterion alone. -/
theorem offset_prf_eq_definition (refI estI : List Ival) (ratio minTol beta : Rat) (strict : Bool)
    (s : Rat × Rat × Rat) (h : offsetPRF refI estI ratio minTol strict beta = .ok s) :
    s = hitPRF (offsetHit ratio minTol strict) refI estI beta :=
  offsetPRF_eq_hitPRF h

/-- The Average Overlap Ratio is the mean, over the returned pairing, of
    `(min offsets − max onsets) / (max offsets − min onsets)`. -/
theorem aor_definition (refI estI : List Ival) (m : List Edge) (a : Rat) (hne : m ≠ [])
    (h : averageOverlapRatio refI estI m = .ok a) :
    ∃ rs : List Rat, rs.length = m.length ∧ a = rs.sum / (rs.length : Rat) ∧
      ∀ x ∈ rs, ∃ ij ∈ m, ∃ r e, refI[ij.1]? = some r ∧ estI[ij.2]? = some e ∧
        x = (min r.2 e.2 - max r.1 e.1) / (max r.2 e.2 - min r.1 e.1) := by
  unfold averageOverlapRatio at h
  cases hrs : ratiosOf refI estI m with
  | error err => rw [hrs] at h; cases h
  | ok rs =>
    rw [hrs] at h
    obtain ⟨hl, hm⟩ := ratiosOf_mem hrs
    have hemp : rs.isEmpty = false := by
      cases rs with
      | nil => exact absurd (List.length_eq_zero_iff.1 hl.symm) hne
      | cons _ _ => rfl
    simp only [Except.ok.injEq, hemp] at h
    refine ⟨rs, hl, by rw [← h]; rfl, ?_⟩
    intro x hx
    obtain ⟨ij, hij, r, e, h1, h2, rfl⟩ := hm x hx
    refine ⟨ij, hij, r, e, h1, h2, ?_⟩
    unfold overlapRatio
    rw [maxR_eq_max, maxR_eq_max, minR_eq_min, minR_eq_min]

/-- `average_overlap_ratio` of no pairs is 0 (the documented convention). -/
theorem aor_empty (refI estI : List Ival) : averageOverlapRatio refI estI [] = .ok 0 := rfl

/-- The closed-form slope and intercept satisfy the normal equations of the least-squares problem
    `min Σ (slope·x + intercept − y)²` (full-rank case), expressed in the sums the code's design matrix yields. -/
theorem lstsq_normal_equations (xs ys : List Rat)
    (hdet : (xs.length : Rat) * sumR (xs.map fun x => x * x) - sumR xs * sumR xs ≠ 0) :
    let se := lstsqLine xs ys
    se.1 * sumR (xs.map fun x => x * x) + se.2 * sumR xs = sumR (List.zipWith (fun x y => x * y) xs ys) ∧
    se.1 * sumR xs + (xs.length : Rat) * se.2 = sumR ys := by
  simp only [lstsqLine, hdet, if_false]
  generalize (xs.length : Rat) = n at *
  generalize sumR (xs.map fun x => x * x) = sxx at *
  generalize sumR (List.zipWith (fun x y => x * y) xs ys) = sxy at *
  generalize sumR xs = sx at *
  generalize sumR ys = sy at *
  generalize hd : n * sxx - sx * sx = d at *
  constructor
  · field_simp; rw [← hd]; ring
  · field_simp; rw [← hd]; ring

/-- …and therefore minimise the squared error over **all** lines: the velocity regression is the least-squares
    fit the documentation describes. -/
theorem lstsq_minimises (xs ys : List Rat) (hlen : xs.length = ys.length)
    (hdet : (xs.length : Rat) * sumR (xs.map fun x => x * x) - sumR xs * sumR xs ≠ 0) (a b : Rat) :
    sse (lstsqLine xs ys).1 (lstsqLine xs ys).2 xs ys ≤ sse a b xs ys :=
  lstsqLine_minimises xs ys hlen hdet a b

/-- In the rank-deficient case (all abscissae equal to `c`) the returned line is the minimum-norm solution:
    it passes through the mean and `(slope, intercept)` is proportional to `(c, 1)`. -/
theorem lstsq_rank_deficient (xs ys : List Rat)
    (hdet : (xs.length : Rat) * sumR (xs.map fun x => x * x) - sumR xs * sumR xs = 0) (hn : xs ≠ []) :
    let se := lstsqLine xs ys
    let c := sumR xs / xs.length
    se.1 * c + se.2 = sumR ys / xs.length ∧ se.1 = c * se.2 := by
  simp only [lstsqLine, hdet, if_true]
  have hl : (xs.length : Rat) ≠ 0 := by
    have : 0 < xs.length := List.length_pos_iff.2 hn
    exact_mod_cast this.ne'
  generalize (xs.length : Rat) = n at *
  generalize sumR xs = sx at *
  generalize sumR ys = sy at *
  have hpos : (0 : Rat) < sx / n * (sx / n) + 1 := by
    have := mul_self_nonneg (sx / n); linarith
  constructor
  · field_simp
  · field_simp

/-- `evaluate` returns the documented entries in the documented order: the with-offset and offset-only scores are
    present exactly when `offset_ratio` is not `None`. -/
theorem evaluate_keys (refI estI : List Ival) (refP estP : List Rat) (p : Params) (beta : Rat)
    (d : List (String × Rat)) (h : evaluate refI refP estI estP p beta = .ok d) :
    d.map Prod.fst =
      (if p.offsetRatio.isSome then ["Precision", "Recall", "F-measure", "Average_Overlap_Ratio"] else []) ++
      ["Precision_no_offset", "Recall_no_offset", "F-measure_no_offset", "Average_Overlap_Ratio_no_offset",
       "Onset_Precision", "Onset_Recall", "Onset_F-measure"] ++
      (if p.offsetRatio.isSome then ["Offset_Precision", "Offset_Recall", "Offset_F-measure"] else []) := by
  unfold evaluate at h
  cases hρ : p.offsetRatio with
  | none =>
    simp only [hρ, bind, Except.bind, pure, Except.pure] at h
    split at h
    · cases h
    · split at h
      · cases h
      · cases h; simp
  | some ρ =>
    simp only [hρ, bind, Except.bind, pure, Except.pure] at h
    split at h
    · cases h
    · split at h
      · cases h
      · split at h
        · cases h
        · split at h
          · cases h
          · cases h; simp
/-! non-vacuity -/
example : round4 (1 / 32) = 312 / 10000 ∧ round4 (3 / 32) = 938 / 10000 := by
  constructor <;> decide +kernel
example : noteHit {} ((0, 1), 60) ((1 / 32, 1), 603 / 10) = true := by decide +kernel
example : noteHit { strict := true, onsetTol := 312 / 10000 } ((0, 1), 60) ((1 / 32, 1), 60) = false := by
  decide +kernel
example : lstsqLine [0, 2] [0, 1] = (1 / 2, 0) := by decide +kernel
example : lstsqLine [3, 3] [1, 0] = (3 / 20, 1 / 20) := by decide +kernel

end Mir.C04.Transcription
