import MirProofs.Lemmas.Matching
import MirProofs.Lemmas.FastHit
/-!
  C05 — hit counts come from a valid, maximum one-to-one matching.

  Statements are about `Mir.maxMatchSize` (the certifying model of the size of the pairing the metrics
  use) and about the proved checker `validB` that the driver applies to every pairing *returned by the real
  code* (`matching.check`, `matching.check_events`).
-/
namespace Mir.C05

/-- For **every** feasibility graph the model's hit count is the size of a valid one-to-one pairing that
    uses only feasible pairs, and no valid pairing is larger. -/
theorem hit_count_is_maximum (E : List Edge) :
    (∃ M, ValidMatching E M ∧ M.length = maxMatchSize E) ∧ ∀ M, ValidMatching E M → M.length ≤ maxMatchSize E :=
  maxMatchSize_isMax E

/-- The exponential "obviously correct" recursion and the certifying algorithm agree on every graph. -/
theorem hit_count_eq_brute (E : List Edge) : maxMatchSize E = bruteMax E :=
  maxMatchSize_eq_bruteMax E

/-- Soundness of the checker run on the real code's output: a pairing accepted by `validB` whose length
    equals the model's hit count uses each item at most once, only feasible pairs, and is maximum. -/
theorem accepted_pairing_is_valid_and_maximum (E M : List Edge)
    (hv : validB E M = true) (hs : M.length = maxMatchSize E) :
    ((∀ e ∈ M, e ∈ E) ∧ (M.map Prod.fst).Nodup ∧ (M.map Prod.snd).Nodup) ∧
      ∀ M', ValidMatching E M' → M'.length ≤ M.length :=
  certify hv hs

/-- The checker is complete as well: it accepts exactly the valid pairings. -/
theorem checker_decides_validity (E M : List Edge) : validB E M = true ↔ ValidMatching E M :=
  validB_iff E M

/-- Order independence I: the hit count depends only on the *set* of feasible pairs (not on the order in
    which they are enumerated, nor on repetitions). -/
theorem size_independent_of_enumeration (E E' : List Edge) (h : ∀ e, e ∈ E ↔ e ∈ E') :
    maxMatchSize E = maxMatchSize E' :=
  max_congr h

/-- Order independence II: renumbering the reference items and the estimated items by any injective maps
    (in particular by the permutations induced by supplying the items in another order) leaves the hit
    count unchanged. -/
theorem size_independent_of_item_order (f g : Nat → Nat) (hf : Function.Injective f)
    (hg : Function.Injective g) (E : List Edge) :
    maxMatchSize (E.map (Prod.map f g)) = maxMatchSize E :=
  max_relabel f g hf hg E

/-- No hit count exceeds the number of items on either side. -/
theorem size_le_sides (E : List Edge) (nL nR : Nat) (hL : ∀ e ∈ E, e.1 < nL) (hR : ∀ e ∈ E, e.2 < nR) :
    maxMatchSize E ≤ nL ∧ maxMatchSize E ≤ nR :=
  ⟨max_le_left hL, max_le_right hR⟩

/-- weak duality, the fact the certificate rests on -/
theorem matching_le_cover (E M : List Edge) (cl cr : List Nat)
    (hM : ValidMatching E M) (hC : ∀ e ∈ E, e.1 ∈ cl ∨ e.2 ∈ cr) : M.length ≤ cl.length + cr.length :=
  weak_duality hM hC

/-- The feasible-pair enumeration of `util._fast_hit_windows` (argsort, two `searchsorted`, slice) produces
    pair `(i, j)` iff `|ref_i - est_j| ≤ window` — for every unsorted / duplicated input and every window. -/
theorem fast_hit_windows_is_the_tolerance_predicate (ref est : List Rat) (w : Rat) (i j : Nat) :
    (i, j) ∈ fastHitWindows ref est w ↔
      ∃ r e, ref[i]? = some r ∧ est[j]? = some e ∧ |r - e| ≤ w := by
  rw [fastHitWindows_spec]
  constructor
  · rintro ⟨r, e, hr, he, h1, h2⟩
    exact ⟨r, e, hr, he, abs_le.2 ⟨by linarith, by linarith⟩⟩
  · rintro ⟨r, e, hr, he, h⟩
    have := abs_le.1 h
    exact ⟨r, e, hr, he, by linarith, by linarith⟩

/-- Hence the number of pairs `util.match_events` returns (in the model) is the maximum number of
    one-to-one pairs within the window. -/
theorem match_events_size_is_maximum (ref est : List Rat) (w : Rat) :
    matchEventsSize ref est w = hitCount (withinWindow w) ref est ∧
      IsMaxSize (hitGraph (withinWindow w) ref est) (matchEventsSize ref est w) := by
  refine ⟨matchEventsSize_eq_hitCount ref est w, ?_⟩
  rw [matchEventsSize_eq_hitCount]
  exact maxMatchSize_isMax _

/-! non-vacuity: a graph on which greedy pairing is not maximum -/
example : ValidMatching [(0, 0), (0, 1), (1, 0)] [(0, 1), (1, 0)] := by decide
example : maxMatchSize [(0, 0), (0, 1), (1, 0)] = 2 := by
  rw [maxMatchSize_eq_bruteMax]; decide

end Mir.C05
