import MirProofs.Props.C04_GenGlue
/-!
  C05 on the code as translated: `util._fast_hit_windows` and `util.match_events` (regenerated from the source on every run,
  `lean/MirGen/EvGlue.lean`, tied to the hand model in `Props/C04_GenGlue.lean`).
-/
namespace Mir.C05.GenGlue
open Mir Mir.Transcription Mir.C04.GenGlue

/-- **C05 (`fast_hit_windows_is_the_tolerance_predicate`) on the code as translated**: the translated
    `_fast_hit_windows` returns exactly the index pairs with `est_j - w ≤ ref_i ≤ est_j + w`, for every (unsorted,
    duplicated, empty) reference list, every estimate list and every window (a negative window produces nothing) -/
theorem gen_fast_hit_windows_spec (ref est : List Rat) (w : Rat) :
    ∃ hr he, Mir.Gen.util._fast_hit_windows ref est w = .ok (hr, he) ∧ hr.length = he.length ∧
      ∀ i j, (i, j) ∈ List.zip hr he ↔ ∃ r e, ref[i]? = some r ∧ est[j]? = some e ∧ e - w ≤ r ∧ r ≤ e + w := by
  refine ⟨_, _, _fast_hit_windows_eq_model ref est w, by simp, fun i j => ?_⟩
  rw [zip_fst_snd]
  exact fastHitWindows_spec ref est w i j

/-- **C05 on the translated `match_events`**: it returns a valid one-to-one pairing inside the hit relation, of
    MAXIMUM size (no valid pairing is larger), and its size is the hit count every event metric divides -/
theorem gen_match_events_valid_maximum (ref est : List Rat) (w : Rat) :
    ∃ M, Mir.Gen.util.match_events ref est w = .ok M ∧ ValidMatching (fastHitWindows ref est w) M ∧
      (∀ M', ValidMatching (fastHitWindows ref est w) M' → M'.length ≤ M.length) ∧
      M.length = hitCount (withinWindow w) ref est := by
  refine ⟨_, match_events_eq_model ref est w, ?_, ?_, matchingOf_length ref est w⟩
  · exact HK.validMatching_perm (HK.hkMatch_buildGraph_valid _) (HK.sortPairs_perm _)
  · intro M' hM'
    unfold matchingOf
    rw [(HK.sortPairs_perm _).length_eq]
    exact (Mir.C05.HK.hk_on_hit_list _).2.2 M' hM'

/-- non-vacuity: unsorted reference with a duplicated value: both copies of `1` hit the estimate `1`, `3` does not -/
example : ∃ hr he, Mir.Gen.util._fast_hit_windows [3, 1, 1, 2] [1, 5 / 2] (1 / 2) = .ok (hr, he) ∧
    (1, 0) ∈ List.zip hr he ∧ (2, 0) ∈ List.zip hr he := by
  obtain ⟨hr, he, h, _, hs⟩ := gen_fast_hit_windows_spec [3, 1, 1, 2] [1, 5 / 2] (1 / 2)
  exact ⟨hr, he, h, (hs 1 0).2 ⟨1, 1, rfl, rfl, by norm_num, by norm_num⟩,
    (hs 2 0).2 ⟨1, 1, rfl, rfl, by norm_num, by norm_num⟩⟩

end Mir.C05.GenGlue
