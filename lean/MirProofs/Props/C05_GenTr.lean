import MirGen.TrMatch
import MirProofs.Lemmas.PyTrMatch
import MirProofs.Props.C04_GenGlue
import MirProofs.Props.C05_Transcription
/-!
  C05 (regenerated) — the note-matching functions of `mir_eval/transcription.py` AS TRANSLATED from the source on every run
  (`lean/MirGen/TrMatch.lean`, harness/translate/trmatch.py) equal the hand-written model `MirModel/Transcription.lean`, and
  the C05 statements (every returned pair satisfies all enabled criteria, no pair shares a note, the size is maximum) are
  re-stated on the translated definitions.
-/
set_option linter.unusedSimpArgs false
namespace Mir.C05.GenTr
open Mir Mir.Transcription
open Mir.PyTR (ok_bind error_bind)

/-- the dict loops of the three matching functions = the fold of the hand model's `buildGraph` -/
def graphStep (g : PyEG.Dict) (e : Edge) : PyEG.Dict :=
  match alGet e.2 g with
  | none => alSet e.2 [e.1] g
  | some l => alSet e.2 (l ++ [e.1]) g

theorem onsets_loop_eq : ∀ (es : List Edge) (g : PyEG.Dict),
    Mir.Gen.transcription.match_note_onsets_loop1 es g = .ok (es.foldl graphStep g)
  | [], g => rfl
  | (r, e) :: es, g => by
      simp only [Mir.Gen.transcription.match_note_onsets_loop1, PyEG.dict_step, ok_bind, List.foldl_cons]
      exact onsets_loop_eq es _

theorem offsets_loop_eq : ∀ (es : List Edge) (g : PyEG.Dict),
    Mir.Gen.transcription.match_note_offsets_loop1 es g = .ok (es.foldl graphStep g)
  | [], g => rfl
  | (r, e) :: es, g => by
      simp only [Mir.Gen.transcription.match_note_offsets_loop1, PyEG.dict_step, ok_bind, List.foldl_cons]
      exact offsets_loop_eq es _

theorem notes_loop_eq : ∀ (es : List Edge) (g : PyEG.Dict),
    Mir.Gen.transcription.match_notes_loop1 es g = .ok (es.foldl graphStep g)
  | [], g => rfl
  | (r, e) :: es, g => by
      simp only [Mir.Gen.transcription.match_notes_loop1, PyEG.dict_step, ok_bind, List.foldl_cons]
      exact notes_loop_eq es _

theorem foldl_graphStep (es : List Edge) : es.foldl graphStep PyEG.dictEmpty = buildGraph es := rfl

/-- the tail shared by the three matching functions: hits → dict → Hopcroft–Karp → sorted items -/
theorem pyMatching_ok (es : List Edge) : pyMatching es = .ok (sortPairs (hkMatch (buildGraph es))) := HK.pyMatching_eq es

/-! ### `match_note_onsets` -/

theorem onset_matrix (ri ei : List Ival) (tol : Rat) (strict : Bool) :
    PyTR.cmpScalar (if strict = true then PyTR.Cmp.less else PyTR.Cmp.lessEqual)
        (PyTR.around (PyTR.absM (PyTR.subtractOuter (PyTR.col0 ri) (PyTR.col0 ei))) 4) tol =
      ⟨ri.length, ei.length, ri.map fun r => ei.map (onsetHit tol strict r)⟩ := by
  simp only [PyTR.cmpScalar, PyTR.around, PyTR.absM, PyTR.subtractOuter, PyTR.col0, PyM.Mat.map, List.map_map,
    Function.comp_def, List.length_map, PyTR.cmp_apply, PyTR.roundDec_four, onsetHit]
  rfl

/-- **`match_note_onsets` as translated = the hand model** (`matchNoteOnsets`), for ALL interval lists, tolerances and both
    comparison modes: rounded onset distances, `np.where` in row-major order, the dict in insertion order, Hopcroft–Karp -/
theorem match_note_onsets_eq_model (ri ei : List Ival) (tol : Rat) (strict : Bool) :
    Mir.Gen.transcription.match_note_onsets ri ei tol strict = matchNoteOnsets ri ei tol strict := by
  unfold Mir.Gen.transcription.match_note_onsets matchNoteOnsets
  simp only [onset_matrix, PyTR.whereM_zip, PyTR.truePairs_outer, onsets_loop_eq, ok_bind, foldl_graphStep, pyMatching_ok]
  rfl

/-! ### `onset_precision_recall_f1` -/

theorem lenq_ne_zero {α : Type} {l : List α} (h : l ≠ []) : ((l.length : Nat) : Rat) ≠ 0 := by
  exact_mod_cast (List.length_pos_iff.2 h).ne'

theorem length_ne_zero {α : Type} {l : List α} (h : l ≠ []) : l.length ≠ 0 := (List.length_pos_iff.2 h).ne'

theorem isEmpty_or_false {α β : Type} {a : List α} {b : List β} (ha : a ≠ []) (hb : b ≠ []) :
    (a.isEmpty || b.isEmpty) = false := by
  cases a <;> cases b <;> simp_all

theorem isEmpty_or_true {α β : Type} {a : List α} {b : List β} (h : a = [] ∨ b = []) :
    (a.isEmpty || b.isEmpty) = true := by
  rcases h with h | h <;> subst h <;> simp

/-- **`onset_precision_recall_f1` as translated = the hand model** (`onsetPRF`), for ALL inputs -/
theorem onset_precision_recall_f1_eq_model (ri ei : List Ival) (tol : Rat) (strict : Bool) (beta : Rat) :
    Mir.Gen.transcription.onset_precision_recall_f1 ri ei tol strict beta = onsetPRF ri ei tol strict beta := by
  unfold Mir.Gen.transcription.onset_precision_recall_f1 onsetPRF PyTR.validate_intervals
  cases hv : validateIntervals ri ei with
  | error x => rfl
  | ok u =>
    simp only [ok_bind, PyM.len, decide_eq_true_eq, Bool.or_eq_true, List.length_eq_zero_iff, List.isEmpty_iff]
    by_cases hE : ri = [] ∨ ei = []
    · rw [if_pos hE, if_pos hE]
    · rw [if_neg hE, if_neg hE]
      have hr : ri ≠ [] := fun h => hE (Or.inl h)
      have he : ei ≠ [] := fun h => hE (Or.inr h)
      simp only [match_note_onsets_eq_model, matchNoteOnsets, pyMatching_ok, ok_bind,
        Mir.C04.GenGlue.divF_ok (lenq_ne_zero hr), Mir.C04.GenGlue.divF_ok (lenq_ne_zero he),
        Mir.C04.GenGlue.f_measure_hits _ _ _ (length_ne_zero hr) (length_ne_zero he)]
      rfl

/-! ### `match_note_offsets`, `offset_precision_recall_f1` -/

/-- the offset hit matrix on validated reference intervals -/
theorem offset_matrix (ri ei : List Ival) (ratio minTol : Rat) (strict : Bool) (u : Unit)
    (hv : validateIntervals1 ri = .ok u) :
    PyTR.cmpCol (if strict = true then PyTR.Cmp.less else PyTR.Cmp.lessEqual)
        (PyTR.around (PyTR.absM (PyTR.subtractOuter (PyTR.col1 ri) (PyTR.col1 ei))) 4)
        (PyTR.maximumV (PyTR.scaleV ratio (ri.map fun r => absR (r.2 - r.1))) minTol) =
      .ok ⟨ri.length, ei.length, ri.map fun r => ei.map (offsetHit ratio minTol strict r)⟩ := by
  unfold PyTR.cmpCol
  simp only [PyTR.around, PyTR.absM, PyTR.subtractOuter, PyTR.col1, PyM.Mat.map, List.map_map, Function.comp_def,
    List.length_map, PyTR.maximumV, PyTR.scaleV, and_self, if_true, PyTR.zipWith_map_map]
  congr 2
  rw [PyTR.zip_self, List.map_map]
  apply List.map_congr_left
  intro r hr
  have hp := PyTR.validateIntervals1_pos hv r hr
  simp only [Function.comp_def, PyTR.cmp_apply, PyTR.roundDec_four, offsetHit, offsetTol, hp]
  try rfl

/-- **`match_note_offsets` as translated = the hand model** (`matchNoteOffsets`), for ALL inputs: the `ValueError` of
    `util.intervals_to_durations` on invalid reference intervals, rounded offset distances against
    `max(offset_ratio · duration, offset_min_tolerance)` per reference note, then the shared matching tail -/
theorem match_note_offsets_eq_model (ri ei : List Ival) (ratio minTol : Rat) (strict : Bool) :
    Mir.Gen.transcription.match_note_offsets ri ei ratio minTol strict = matchNoteOffsets ri ei ratio minTol strict := by
  unfold Mir.Gen.transcription.match_note_offsets matchNoteOffsets PyTR.intervals_to_durations
  cases hv : validateIntervals1 ri with
  | error x => rfl
  | ok u =>
    simp only [ok_bind, pure_bind, offset_matrix ri ei ratio minTol strict u hv, PyTR.whereM_zip, PyTR.truePairs_outer,
      offsets_loop_eq, foldl_graphStep, pyMatching_ok]
    rfl

/-- **`offset_precision_recall_f1` as translated = the hand model** (`offsetPRF`), for ALL inputs -/
theorem offset_precision_recall_f1_eq_model (ri ei : List Ival) (ratio minTol : Rat) (strict : Bool) (beta : Rat) :
    Mir.Gen.transcription.offset_precision_recall_f1 ri ei ratio minTol strict beta =
      offsetPRF ri ei ratio minTol strict beta := by
  unfold Mir.Gen.transcription.offset_precision_recall_f1 offsetPRF PyTR.validate_intervals
  cases hv : validateIntervals ri ei with
  | error x => rfl
  | ok u =>
    simp only [ok_bind, PyM.len, decide_eq_true_eq, Bool.or_eq_true, List.length_eq_zero_iff, List.isEmpty_iff]
    by_cases hE : ri = [] ∨ ei = []
    · rw [if_pos hE, if_pos hE]
    · rw [if_neg hE, if_neg hE]
      have hr : ri ≠ [] := fun h => hE (Or.inl h)
      have he : ei ≠ [] := fun h => hE (Or.inr h)
      rw [match_note_offsets_eq_model]
      cases hm : matchNoteOffsets ri ei ratio minTol strict with
      | error x => rfl
      | ok m =>
        simp only [ok_bind, Mir.C04.GenGlue.divF_ok (lenq_ne_zero hr), Mir.C04.GenGlue.divF_ok (lenq_ne_zero he),
          Mir.C04.GenGlue.f_measure_hits _ _ _ (length_ne_zero hr) (length_ne_zero he)]
        rfl

/-! ### `match_notes` -/

theorem pitch_matrix (rp ep : List Rat) (tol : Rat) (strict : Bool) :
    PyTR.cmpScalar (if strict = true then PyTR.Cmp.less else PyTR.Cmp.lessEqual)
        (PyTR.absM (PyTR.scaleM 1200 (PyTR.log2DiffOuter rp ep))) tol =
      ⟨rp.length, ep.length, rp.map fun a => ep.map (pitchHit tol strict a)⟩ := by
  simp only [PyTR.cmpScalar, PyTR.absM, PyTR.scaleM, PyTR.log2DiffOuter, PyM.Mat.map, List.map_map, Function.comp_def,
    PyTR.cmp_apply, pitchHit, pitchDist]
  congr 1
  apply List.map_congr_left
  intro a _
  apply List.map_congr_left
  intro b _
  have : (1200 : Rat) * ((a - b) / 12) = 100 * (a - b) := by ring
  rw [this]
  rfl

/-- the product of the onset and the pitch hit matrices over notes -/
theorem onset_pitch_rows (ri ei : List Ival) (rp ep : List Rat) (ot pt : Rat) (strict : Bool) :
    List.zipWith (List.zipWith (· && ·)) (ri.map fun r => ei.map (onsetHit ot strict r))
        (rp.map fun a => ep.map (pitchHit pt strict a)) =
      (ri.zip rp).map fun p => (ei.zip ep).map fun q => onsetHit ot strict p.1 q.1 && pitchHit pt strict p.2 q.2 := by
  rw [PyTR.zipWith_map_map]
  apply List.map_congr_left
  intro p _
  rw [PyTR.zipWith_map_map]

theorem noteHit_none (ot pt mt : Rat) (strict : Bool) (p q : Note) :
    noteHit ⟨ot, pt, none, mt, strict⟩ p q = (onsetHit ot strict p.1 q.1 && pitchHit pt strict p.2 q.2) := by
  simp [noteHit]

theorem noteHit_some (ot pt ρ mt : Rat) (strict : Bool) (p q : Note) :
    noteHit ⟨ot, pt, some ρ, mt, strict⟩ p q =
      (onsetHit ot strict p.1 q.1 && pitchHit pt strict p.2 q.2 && offsetHit ρ mt strict p.1 q.1) := rfl

/-- multiplying in the offset hit matrix (rows indexed by the reference intervals alone) -/
theorem with_offset_rows (ri ei : List Ival) (rp ep : List Rat) (ot pt ρ mt : Rat) (strict : Bool)
    (hr : ri.length = rp.length) (he : ei.length = ep.length) :
    List.zipWith (List.zipWith (· && ·))
        ((ri.zip rp).map fun p => (ei.zip ep).map fun q => onsetHit ot strict p.1 q.1 && pitchHit pt strict p.2 q.2)
        (ri.map fun r => ei.map (offsetHit ρ mt strict r)) =
      (ri.zip rp).map fun p => (ei.zip ep).map (noteHit ⟨ot, pt, some ρ, mt, strict⟩ p) := by
  rw [PyTR.zipWith_zip_fst _ _ _ ri rp hr]
  apply List.map_congr_left
  intro p _
  rw [PyTR.zipWith_zip_fst _ _ _ ei ep he]
  rfl

/-- **`match_notes` as translated = the hand model** (`matchNotes`) for ALL notes with one pitch per interval on both
    sides, every tolerance, `offset_ratio` a number or None, both comparison modes: onset, pitch (cents in the log domain)
    and — unless `offset_ratio is None` — offset hit matrices multiplied, `np.where`, the dict, Hopcroft–Karp -/
theorem match_notes_eq_model (ri : List Ival) (rp : List Rat) (ei : List Ival) (ep : List Rat) (ot pt : Rat)
    (ratio : Option Rat) (mt : Rat) (strict : Bool) (hr : ri.length = rp.length) (he : ei.length = ep.length) :
    Mir.Gen.transcription.match_notes ri rp ei ep ot pt ratio mt strict =
      matchNotes ri rp ei ep ⟨ot, pt, ratio, mt, strict⟩ := by
  unfold Mir.Gen.transcription.match_notes matchNotes durationsCheck
  simp only [onset_matrix, pitch_matrix]
  have hshape : ri.length = rp.length ∧ ei.length = ep.length := ⟨hr, he⟩
  cases ratio with
  | none =>
    simp only [ok_bind, pure_bind, PyTR.mulB, hshape, and_self, if_true, PyTR.mulOpt, onset_pitch_rows, PyTR.whereM_zip,
      Option.isSome_none, Bool.false_eq_true, if_false]
    have hf : ∀ (p q : Note), (onsetHit ot strict p.1 q.1 && pitchHit pt strict p.2 q.2) =
        noteHit ⟨ot, pt, none, mt, strict⟩ p q := fun p q => (noteHit_none ot pt mt strict p q).symm
    simp only [PyTR.truePairs_outer, notes_loop_eq, ok_bind, foldl_graphStep, pyMatching_ok, hf]
    rfl
  | some ρ =>
    simp only [Option.isSome_some, if_true, PyTR.intervals_to_durations]
    cases hv : validateIntervals1 ri with
    | error x => rfl
    | ok u =>
      simp only [ok_bind, pure_bind, offset_matrix ri ei ρ mt strict u hv, PyTR.mulB, hshape, and_self, if_true,
        PyTR.mulOpt, onset_pitch_rows, with_offset_rows ri ei rp ep ot pt ρ mt strict hr he, PyTR.whereM_zip,
        PyTR.truePairs_outer, notes_loop_eq, foldl_graphStep, pyMatching_ok]
      rfl

/-! ### `precision_recall_f1_overlap` -/

theorem validate_lengths {ri ei : List Ival} {rp ep : List Rat} {u : Unit}
    (h : Transcription.validate ri (rp.map some) ei (ep.map some) = .ok u) :
    ri.length = rp.length ∧ ei.length = ep.length := by
  unfold Transcription.validate at h
  cases h0 : validateIntervals ri ei with
  | error x => rw [h0] at h; cases h
  | ok _ =>
    rw [h0] at h
    by_cases h1 : ri.length = rp.length
    · by_cases h2 : ei.length = ep.length
      · exact ⟨h1, h2⟩
      · exfalso
        simp [raiseIf, h1, h2, bind, Except.bind] at h
    · exfalso
      simp [raiseIf, h1, bind, Except.bind] at h

/-- **`precision_recall_f1_overlap` as translated = the hand model** (`precisionRecallF1Overlap`), for ALL inputs:
    validation, the empty-input `(0, 0, 0, 0)`, `match_notes`, P / R / F and the average overlap ratio of the matching -/
theorem precision_recall_f1_overlap_eq_model (ri : List Ival) (rp : List Rat) (ei : List Ival) (ep : List Rat)
    (ot pt : Rat) (ratio : Option Rat) (mt : Rat) (strict : Bool) (beta : Rat) :
    Mir.Gen.transcription.precision_recall_f1_overlap ri rp ei ep ot pt ratio mt strict beta =
      precisionRecallF1Overlap ri rp ei ep ⟨ot, pt, ratio, mt, strict⟩ beta := by
  unfold Mir.Gen.transcription.precision_recall_f1_overlap precisionRecallF1Overlap PyTR.validate
  cases hv : Transcription.validate ri (rp.map some) ei (ep.map some) with
  | error x => rfl
  | ok u =>
    obtain ⟨hr, he⟩ := validate_lengths hv
    simp only [ok_bind, PyM.len, decide_eq_true_eq, Bool.or_eq_true, List.length_eq_zero_iff, List.isEmpty_iff]
    by_cases hE : rp = [] ∨ ep = []
    · rw [if_pos hE, if_pos hE]
    · rw [if_neg hE, if_neg hE]
      have hr0 : rp ≠ [] := fun h => hE (Or.inl h)
      have he0 : ep ≠ [] := fun h => hE (Or.inr h)
      rw [match_notes_eq_model ri rp ei ep ot pt ratio mt strict hr he]
      cases hm : matchNotes ri rp ei ep ⟨ot, pt, ratio, mt, strict⟩ with
      | error x => rfl
      | ok m =>
        simp only [ok_bind, Mir.C04.GenGlue.divF_ok (lenq_ne_zero hr0), Mir.C04.GenGlue.divF_ok (lenq_ne_zero he0),
          Mir.C04.GenGlue.f_measure_hits _ _ _ (length_ne_zero hr0) (length_ne_zero he0), PyTR.average_overlap_ratio]
        cases averageOverlapRatio ri ei m <;> rfl

/-! ### the C05 statements on the translated definitions -/

/-- **every pair returned by the translated `match_notes` satisfies all enabled criteria** (onset, pitch and — unless
    `offset_ratio is None` — offset), no note is used twice, and no valid pairing is larger -/
theorem gen_match_notes_sound (ri : List Ival) (rp : List Rat) (ei : List Ival) (ep : List Rat) (ot pt : Rat)
    (ratio : Option Rat) (mt : Rat) (strict : Bool) (hr : ri.length = rp.length) (he : ei.length = ep.length)
    (M : List Edge) (h : Mir.Gen.transcription.match_notes ri rp ei ep ot pt ratio mt strict = .ok M) :
    (∀ ij ∈ M, ∃ r e, (ri.zip rp)[ij.1]? = some r ∧ (ei.zip ep)[ij.2]? = some e ∧
        onsetHit ot strict r.1 e.1 = true ∧ pitchHit pt strict r.2 e.2 = true ∧
        ∀ ρ, ratio = some ρ → offsetHit ρ mt strict r.1 e.1 = true) ∧
    (M.map Prod.fst).Nodup ∧ (M.map Prod.snd).Nodup ∧
    ∀ M', ValidMatching (hitGraph (noteHit ⟨ot, pt, ratio, mt, strict⟩) (ri.zip rp) (ei.zip ep)) M' →
      M'.length ≤ M.length := by
  rw [match_notes_eq_model ri rp ei ep ot pt ratio mt strict hr he] at h
  obtain ⟨hv, hs⟩ := Mir.C05.Transcription.model_match_notes_accepted ri ei rp ep _ M h
  exact Mir.C05.Transcription.accepted_note_pairing_sound ⟨ot, pt, ratio, mt, strict⟩ _ _ M hv hs

/-- the same for the translated `match_note_onsets`: every pair is within the (rounded) onset tolerance, one-to-one, maximum -/
theorem gen_match_note_onsets_sound (ri ei : List Ival) (tol : Rat) (strict : Bool) (M : List Edge)
    (h : Mir.Gen.transcription.match_note_onsets ri ei tol strict = .ok M) :
    (∀ ij ∈ M, ∃ r e, ri[ij.1]? = some r ∧ ei[ij.2]? = some e ∧ onsetHit tol strict r e = true) ∧
    (M.map Prod.fst).Nodup ∧ (M.map Prod.snd).Nodup ∧
    ∀ M', ValidMatching (hitGraph (onsetHit tol strict) ri ei) M' → M'.length ≤ M.length := by
  rw [match_note_onsets_eq_model, matchNoteOnsets, pyMatching_ok] at h
  injection h with h
  subst h
  have hval : ValidMatching (hitGraph (onsetHit tol strict) ri ei)
      (sortPairs (hkMatch (buildGraph (hitGraph (onsetHit tol strict) ri ei)))) :=
    HK.validMatching_perm (HK.hkMatch_buildGraph_valid _) (HK.sortPairs_perm _)
  have hlen : (sortPairs (hkMatch (buildGraph (hitGraph (onsetHit tol strict) ri ei)))).length =
      maxMatchSize (hitGraph (onsetHit tol strict) ri ei) := by
    rw [(HK.sortPairs_perm _).length_eq, HK.hkMatch_buildGraph_length]
  exact Mir.C05.Transcription.accepted_pairing_sound _ ri ei _ ((validB_iff _ _).2 hval) hlen

/-- … and for the translated `match_note_offsets` -/
theorem gen_match_note_offsets_sound (ri ei : List Ival) (ratio minTol : Rat) (strict : Bool) (M : List Edge)
    (h : Mir.Gen.transcription.match_note_offsets ri ei ratio minTol strict = .ok M) :
    (∀ ij ∈ M, ∃ r e, ri[ij.1]? = some r ∧ ei[ij.2]? = some e ∧ offsetHit ratio minTol strict r e = true) ∧
    (M.map Prod.fst).Nodup ∧ (M.map Prod.snd).Nodup ∧
    ∀ M', ValidMatching (hitGraph (offsetHit ratio minTol strict) ri ei) M' → M'.length ≤ M.length := by
  rw [match_note_offsets_eq_model, matchNoteOffsets] at h
  cases hv : validateIntervals1 ri with
  | error x => rw [hv] at h; cases h
  | ok u =>
    rw [hv, pyMatching_ok] at h
    injection h with h
    subst h
    have hval : ValidMatching (hitGraph (offsetHit ratio minTol strict) ri ei)
        (sortPairs (hkMatch (buildGraph (hitGraph (offsetHit ratio minTol strict) ri ei)))) :=
      HK.validMatching_perm (HK.hkMatch_buildGraph_valid _) (HK.sortPairs_perm _)
    have hlen : (sortPairs (hkMatch (buildGraph (hitGraph (offsetHit ratio minTol strict) ri ei)))).length =
        maxMatchSize (hitGraph (offsetHit ratio minTol strict) ri ei) := by
      rw [(HK.sortPairs_perm _).length_eq, HK.hkMatch_buildGraph_length]
    exact Mir.C05.Transcription.accepted_pairing_sound _ ri ei _ ((validB_iff _ _).2 hval) hlen

/-! ### non-vacuity -/

/-- two estimated notes compete for one reference note: the translated `match_notes` returns (never raises without an
    offset criterion), and whatever it returns uses the reference note at most once -/
example : ∃ M, Mir.Gen.transcription.match_notes [(0, 1)] [60] [(1 / 32, 1), (1 / 16, 1)] [60, 60]
    (1 / 20) 50 none (1 / 20) false = .ok M ∧ (M.map Prod.fst).Nodup := by
  have h : ∃ M, Mir.Gen.transcription.match_notes [(0, 1)] [60] [(1 / 32, 1), (1 / 16, 1)] [60, 60] (1 / 20) 50 none
      (1 / 20) false = .ok M := by
    rw [match_notes_eq_model _ _ _ _ _ _ _ _ _ rfl rfl]
    unfold matchNotes durationsCheck
    simp only [Option.isSome_none, Bool.false_eq_true, if_false, ok_bind, pyMatching_ok]
    exact ⟨_, rfl⟩
  obtain ⟨M, hM⟩ := h
  exact ⟨M, hM, (gen_match_notes_sound _ _ _ _ _ _ _ _ _ rfl rfl M hM).2.1⟩

end Mir.C05.GenTr
