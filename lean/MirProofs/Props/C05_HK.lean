import MirProofs.Lemmas.HopcroftKarpGraph
/-!
  C05 — hit counts come from a valid, maximum one-to-one matching: **the Python algorithm itself**.

  `Mir.Transcription.hkMatch` is the dict-order-faithful transliteration of `mir_eval.util._bipartite_match`
  (Hopcroft–Karp after Eppstein: greedy initialisation, layering of the residual graph, recursive
  depth-first search that deletes `preds[v]` / `pred[u]` entries, outer `while True`).  The harness compares
  it pair for pair with the real routine (suites `hk.exhaustive_dicts`, `hk.shuffled_dicts`,
  `transcription.bipartite_match`).  The theorems below hold for **every** graph dict `g` (`u ↦ [v, …]`, keys
  distinct as in any Python dict, adjacency lists arbitrary — duplicates and empty lists allowed) and have
  no size bound: the result is a valid matching, no valid matching is larger, and none of the three fuel
  parameters of the model is ever the reason a loop stops.
-/
namespace Mir.C05.HK
open Mir Mir.Transcription Mir.HK

/-- **Stage 1 (validity).** The returned dict `v ↦ u` has distinct keys (every right vertex used at most
    once), distinct values (every left vertex used at most once) and contains only pairs with `v in graph[u]`. -/
theorem hk_result_is_one_to_one_and_feasible (g : AL (List Nat)) (hg : (g.map Prod.fst).Nodup) :
    ((hkMatch g).map Prod.fst).Nodup ∧ ((hkMatch g).map Prod.snd).Nodup ∧
      ∀ v u, (v, u) ∈ hkMatch g → ∃ vs, (u, vs) ∈ g ∧ v ∈ vs := by
  have hM := hkMatch_ok g hg
  refine ⟨hM.nodupK, ?_, ?_⟩
  · have := hM.valid.2.1
    unfold asEdges at this
    rw [List.map_map] at this
    exact this
  · intro v u h
    obtain ⟨vs, hvs, hv⟩ := hM.edge v u (alGet_of_mem hM.nodupK h)
    exact ⟨vs, mem_of_alGet hvs, hv⟩

/-- Stage 1 in the vocabulary of the shared matching theory: the result, read as edges `(u, v)`, is a
    `ValidMatching` of the graph's edge list. -/
theorem hk_result_is_valid_matching (g : AL (List Nat)) (hg : (g.map Prod.fst).Nodup) :
    ValidMatching (edgesOf g) (asEdges (hkMatch g)) :=
  (hkMatch_ok g hg).valid

/-- **Stage 2 (maximality).** No valid matching of the graph is larger than the one returned. -/
theorem hk_result_is_maximum (g : AL (List Nat)) (hg : (g.map Prod.fst).Nodup) :
    ∀ M', ValidMatching (edgesOf g) M' → M'.length ≤ (hkMatch g).length :=
  hkMatch_max g hg

/-- The size of the returned matching is the certified maximum matching size of the edge list — the
    quantity every hit-count theorem of C01/C02/C04/C06/C07/C08 is stated about. -/
theorem hk_size_eq_maxMatchSize (g : AL (List Nat)) (hg : (g.map Prod.fst).Nodup) :
    (hkMatch g).length = maxMatchSize (edgesOf g) :=
  hkMatch_length g hg

/-- Order independence for the algorithm itself: two dicts with the same set of edges (any insertion order
    of the keys, any order or repetition inside the adjacency lists) give matchings of the same size. -/
theorem hk_size_independent_of_dict_order (g g' : AL (List Nat)) (hg : (g.map Prod.fst).Nodup)
    (hg' : (g'.map Prod.fst).Nodup) (h : ∀ e, e ∈ edgesOf g ↔ e ∈ edgesOf g') :
    (hkMatch g).length = (hkMatch g').length := by
  rw [hkMatch_length g hg, hkMatch_length g' hg', max_congr h]

/-- The graph `G[est_i].append(ref_i)` that `match_notes` / `match_note_onsets` / `match_note_offsets` build
    from the hit list `es`: the returned items `(ref_i, est_i)` form a valid matching of `es` of maximum size. -/
theorem hk_on_hit_list (es : List Edge) :
    ValidMatching es (hkMatch (buildGraph es)) ∧ (hkMatch (buildGraph es)).length = maxMatchSize es ∧
      ∀ M', ValidMatching es M' → M'.length ≤ (hkMatch (buildGraph es)).length := by
  refine ⟨hkMatch_buildGraph_valid es, hkMatch_buildGraph_length es, fun M' hM' => ?_⟩
  rw [hkMatch_buildGraph_length]
  exact le_maxMatchSize hM'

/-- The model's `pyMatching` (= `sorted(util._bipartite_match(G).items())`, guarded by the proved checker)
    never takes the error branch: the guard is a theorem, not an assumption. -/
theorem py_matching_guard_never_fires (es : List Edge) :
    pyMatching es = .ok (sortPairs (hkMatch (buildGraph es))) :=
  pyMatching_eq es

/-! #### the chain behind Stage 2, as separate statements -/

/-- König: a layering that ended with `layer = []` and `unmatched = []` and satisfies the closure invariant
    `LayMax` (maintained by every iteration, `layStep_max`) bounds every valid matching by `|matching|`. -/
theorem closed_final_layering_certifies_maximum (g : AL (List Nat)) (M : AL Nat) (s : Layers)
    (hg : (g.map Prod.fst).Nodup) (h : LayMax g M s) (hl : s.layer = []) (hu : s.unmatched = []) :
    ∀ M', ValidMatching (edgesOf g) M' → M'.length ≤ M.length :=
  koenig hg h hl hu

/-- The layering loop never stops for lack of fuel: with `fuel ≥ #edges + 2` it ends with
    `not layer or unmatched`. -/
theorem layering_stops_by_its_own_condition (g : AL (List Nat)) (M : AL Nat) (hM : (M.map Prod.fst).Nodup)
    (bound : Nat) (hb : edgeCount g + 2 ≤ bound) :
    (phaseLayers g M bound).layer = [] ∨ (phaseLayers g M bound).unmatched ≠ [] := by
  have h : Stop (phaseLayers g M bound) :=
    layerLoop_stops bound _ (initLayers_max g M hM) (by simp [initLayers]; omega)
  unfold Stop at h
  by_cases hu : (phaseLayers g M bound).unmatched = []
  · left
    rw [hu] at h
    simpa using h
  · exact Or.inr hu

/-- Every phase that finds an unmatched right vertex strictly enlarges the matching (the first depth-first
    search succeeds without backtracking, the recursion fuel `bound ≥ #edges` is never exhausted). -/
theorem phase_strictly_enlarges (g : AL (List Nat)) (M : AL Nat) (hM : MOK g M) (bound : Nat)
    (hb : edgeCount g ≤ bound) (hne : (phaseLayers g M bound).unmatched ≠ []) :
    M.length < (dfsFold bound (phaseLayers g M bound).unmatched (phaseState (phaseLayers g M bound) M)).matching.length :=
  phase_progress hM (phaseLayers_inv hM bound) bound hb hne

/-- … and keeps it a valid matching. -/
theorem phase_keeps_validity (g : AL (List Nat)) (M : AL Nat) (hM : MOK g M) (bound : Nat) :
    MOK g (dfsFold bound (phaseLayers g M bound).unmatched (phaseState (phaseLayers g M bound) M)).matching :=
  phase_ok bound hM

/-! #### non-vacuity -/

/-- a dict on which the greedy initialisation is not maximum (one augmentation is needed) -/
example : greedyInit [(0, [0, 1]), (1, [0])] = [(0, 0)] := by decide
example : hkMatch [(0, [0, 1]), (1, [0])] = [(0, 1), (1, 0)] := by decide
example : (([(0, [0, 1]), (1, [0])] : AL (List Nat)).map Prod.fst).Nodup := by decide
example : edgesOf [(0, [0, 1]), (1, [0])] = [(0, 0), (0, 1), (1, 0)] := by decide
/-- a longer alternating path, an empty adjacency list and a repeated neighbour -/
example : hkMatch [(0, [0]), (1, [0, 1]), (2, [1, 2, 2]), (3, [])] = [(0, 0), (1, 1), (2, 2)] := by decide
example : (hkMatch [(3, [2, 1]), (1, [1]), (2, [1, 2])]).length = 2 := by decide
/-- two insertion orders of the same graph: different dicts, same size -/
example : hkMatch [(1, [0]), (0, [1, 0])] = [(0, 1), (1, 0)] := by decide
/-- the hypotheses of the chain theorems are satisfiable: a phase that does enlarge the matching -/
example : (phaseLayers [(0, [0, 1]), (1, [0])] [(0, 0)] 7).unmatched = [1] := by decide
example : MOK [(0, [0, 1]), (1, [0])] (greedyInit [(0, [0, 1]), (1, [0])]) := greedyInit_ok _ (by decide)
example : buildGraph [(0, 0), (0, 1), (1, 0)] = [(0, [0, 1]), (1, [0])] := by decide

end Mir.C05.HK
