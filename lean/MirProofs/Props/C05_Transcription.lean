import MirProofs.Lemmas.Transcription
/-!
  C05 (transcription part) — the pairings returned by `match_notes`, `match_note_onsets`, `match_note_offsets`
  are valid (each note used once), feasible (every pair satisfies the onset / pitch / offset criterion in force,
  including `strict` and `offset_ratio=None`) and maximum.

  The driver ops `transcription.check_match_notes / _onsets / _offsets` evaluate `validB` and `maxMatchSize` on the
  pairs returned by the **real** functions against the model's feasibility graph; the theorems below say what an
  accepted answer means.
-/
namespace Mir.C05.Transcription
open Mir.Transcription

/-- Soundness of the check, for any criterion: an accepted pairing of the size the model computes uses every item
    at most once, contains only pairs that satisfy the criterion, and no larger such pairing exists. -/
theorem accepted_pairing_sound {α β : Type} (feas : α → β → Bool) (ref : List α) (est : List β) (M : List Edge)
    (hv : validB (hitGraph feas ref est) M = true) (hs : M.length = maxMatchSize (hitGraph feas ref est)) :
    (∀ ij ∈ M, ∃ r e, ref[ij.1]? = some r ∧ est[ij.2]? = some e ∧ feas r e = true) ∧
    (M.map Prod.fst).Nodup ∧ (M.map Prod.snd).Nodup ∧
    ∀ M', ValidMatching (hitGraph feas ref est) M' → M'.length ≤ M.length := by
  obtain ⟨⟨h1, h2, h3⟩, h4⟩ := certify hv hs
  exact ⟨fun ij hij => (mem_hitGraph ..).1 (h1 ij hij), h2, h3, h4⟩

/-- the note criterion, spelled out for an accepted `match_notes` pairing -/
theorem accepted_note_pairing_sound (p : Params) (ref est : List Note) (M : List Edge)
    (hv : validB (hitGraph (noteHit p) ref est) M = true)
    (hs : M.length = maxMatchSize (hitGraph (noteHit p) ref est)) :
    (∀ ij ∈ M, ∃ r e, ref[ij.1]? = some r ∧ est[ij.2]? = some e ∧
        onsetHit p.onsetTol p.strict r.1 e.1 = true ∧ pitchHit p.pitchTol p.strict r.2 e.2 = true ∧
        ∀ ρ, p.offsetRatio = some ρ → offsetHit ρ p.offsetMinTol p.strict r.1 e.1 = true) ∧
    (M.map Prod.fst).Nodup ∧ (M.map Prod.snd).Nodup ∧
    ∀ M', ValidMatching (hitGraph (noteHit p) ref est) M' → M'.length ≤ M.length := by
  obtain ⟨h1, h2, h3, h4⟩ := accepted_pairing_sound (noteHit p) ref est M hv hs
  refine ⟨?_, h2, h3, h4⟩
  intro ij hij
  obtain ⟨r, e, hr, he, hf⟩ := h1 ij hij
  refine ⟨r, e, hr, he, noteHit_onset p r e hf, ?_, fun ρ hρ => noteHit_offset p ρ hρ r e hf⟩
  unfold noteHit at hf
  simp only [Bool.and_eq_true] at hf
  exact hf.1.2

/-- the model's own `match_notes` always passes that check -/
theorem model_match_notes_accepted (refI estI : List Ival) (refP estP : List Rat) (p : Params) (M : List Edge)
    (h : matchNotes refI refP estI estP p = .ok M) :
    validB (hitGraph (noteHit p) (refI.zip refP) (estI.zip estP)) M = true ∧
      M.length = maxMatchSize (hitGraph (noteHit p) (refI.zip refP) (estI.zip estP)) := by
  obtain ⟨hv, hl⟩ := matchNotes_spec h
  exact ⟨(validB_iff _ _).2 hv, hl⟩

/-- The number of matched notes does not depend on the order in which the notes are supplied. -/
theorem note_hit_count_order_independent (p : Params) {ref ref' est est' : List Note}
    (hr : ref.Perm ref') (he : est.Perm est') :
    hitCount (noteHit p) ref' est' = hitCount (noteHit p) ref est := by
  rw [hitCount_perm_est _ ref' he, hitCount_perm_ref _ hr est]

/-- The velocity-filtered pairing is still one-to-one and feasible (a sub-list of a valid matching);
    maximality is **not** claimed for it. -/
theorem velocity_pairing_valid (refI estI : List Ival) (refP refV estP estV : List Rat) (p : Params) (velTol : Rat)
    (M' : List Edge) (h : velMatchNotes refI refP refV estI estP estV p velTol = .ok M') :
    ValidMatching (hitGraph (noteHit p) (refI.zip refP) (estI.zip estP)) M' := by
  obtain ⟨M, hM, hsub⟩ := velMatchNotes_sublist h
  exact (matchNotes_spec hM).1.sublist hsub

/-! non-vacuity: two estimated notes compete for one reference note; a maximum pairing has size 2 -/
example : hitGraph (noteHit { offsetRatio := none })
    [((0, 1), 60), ((1 / 16, 1), 60)] [((1 / 32, 1), 60), ((1 / 8, 1), 60)] = [(0, 0), (1, 0)] := by decide +kernel
example : validB [(0, 0), (1, 0)] [(1, 0)] = true := by decide

end Mir.C05.Transcription
