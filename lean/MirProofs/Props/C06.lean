import MirProofs.Lemmas.EventWindow
/-! C06 — swapping reference and estimate exchanges precision and recall: shared part. -/
namespace Mir.C06

/-- For any criterion, exchanging the roles (and the argument order of the criterion) exchanges precision
    with recall and keeps F at beta = 1. -/
theorem hit_prf_swap {α β : Type} (feas : α → β → Bool) (ref : List α) (est : List β) :
    let a := hitPRF feas ref est 1
    let b := hitPRF (fun e r => feas r e) est ref 1
    b.1 = a.2.1 ∧ b.2.1 = a.1 ∧ b.2.2 = a.2.2 :=
  hitPRF_swap feas ref est

/-- Windowed event metrics treat both annotations symmetrically, so the swap needs no change of criterion. -/
theorem event_prf_swap (w : Rat) (ref est : List Rat) :
    let a := hitPRF (withinWindow w) ref est 1
    let b := hitPRF (withinWindow w) est ref 1
    b.1 = a.2.1 ∧ b.2.1 = a.1 ∧ b.2.2 = a.2.2 := by
  have h := hitPRF_swap (withinWindow w) ref est
  have e : (fun e r => withinWindow w r e) = withinWindow w := by
    funext e r; exact withinWindow_symm w e r
  rw [e] at h
  exact h

theorem f_measure_symm (p r : Rat) : fMeasure p r 1 = fMeasure r p 1 := fMeasure_symm p r

example : (hitPRF (withinWindow (1/2)) [0, 1, 2] [(1/2 : Rat), 5] 1).1 = 1/2 ∧
    (hitPRF (withinWindow (1/2)) [(1/2 : Rat), 5] [0, 1, 2] 1).2.1 = 1/2 := by
  unfold hitPRF hitCount
  rw [maxMatchSize_eq_bruteMax, maxMatchSize_eq_bruteMax]
  decide +kernel

end Mir.C06
