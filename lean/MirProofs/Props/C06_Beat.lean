import MirProofs.Lemmas.Beat
/-!
  C06 (beat) — exchanging reference and estimate leaves the beat F-measure (beta = 1) unchanged.
-/
namespace Mir.C06.Beat
open Mir.Beat

theorem validate_swap (ref est : List Rat) (h : validate ref est = .ok ()) : validate est ref = .ok () := by
  unfold validate at *
  rw [bind_ok_iff] at h
  obtain ⟨_, h1, h2⟩ := h
  rw [bind_ok_iff]
  exact ⟨(), h2, h1⟩

/-- `f_measure(est, ref) = f_measure(ref, est)` for every input and window, including which inputs are rejected. -/
theorem f_measure_swap (ref est : List Rat) (thr v : Rat) (h : Beat.fMeasure ref est thr = .ok v) :
    Beat.fMeasure est ref thr = .ok v := by
  rw [fMeasure_ok_iff] at *
  exact ⟨validate_swap _ _ h.1, by rw [fMeasureCore_swap]; exact h.2⟩

/-- the hit count itself is symmetric -/
theorem hits_swap (ref est : List Rat) (thr : Rat) :
    hitCount (withinWindow thr) est ref = hitCount (withinWindow thr) ref est := by
  have h := hitCount_swap (withinWindow thr) ref est
  have hf : (fun e r => withinWindow thr r e) = withinWindow thr := by
    funext e r; exact withinWindow_symm thr e r
  rw [hf] at h; exact h

/-! non-vacuity -/
example : fMeasureCore [5, 6] [5] (1 / 4) = 2 / 3 := by
  rw [fMeasureCore_eq _ _ _ (by simp) (by simp)]
  unfold hitCount
  rw [maxMatchSize_eq_bruteMax]
  decide +kernel

end Mir.C06.Beat
