import MirProofs.Lemmas.Boundary
/-!
  C06 (segment boundaries) — exchanging reference and estimate exchanges precision with recall (F at beta = 1
  unchanged) in `detection`, and reference-to-estimated with estimated-to-reference in `deviation`.

  Scope note (known finding `window_tie_within_rounding`): exact arithmetic; the code's binary64 window test
  `est - w ≤ ref ≤ est + w` is not symmetric within one rounding of the window edge
  (`segment.detection([[0,0.4]],[[0,0.1]],0.3)` = (1,1,1), roles exchanged: (0.5,0.5,0.5)).
-/
namespace Mir.C06.Boundary
open Mir.Boundary Mir.MiscStats

theorem detection_swap (ref est : List (Rat × Rat)) (w : Rat) (trim : Bool) :
    detection est ref w 1 trim = (detection ref est w 1 trim).map fun s => (s.2.1, s.1, s.2.2) := by
  rcases validateBoundary_cases ref est trim with hv | hv
  · have hv' : validateBoundary est ref trim = .ok () := by rw [validateBoundary_swap]; exact hv
    rw [detection_of_valid w 1 hv, detection_of_valid w 1 hv']
    have hs := hitPRF_swap (withinWindow w) (boundaries ref trim) (boundaries est trim)
    have hf : (fun e r => withinWindow w r e) = withinWindow w := by
      funext e r; exact ww_symm w e r
    rw [hf] at hs
    simp only [Except.map]
    rw [← hs.1, ← hs.2.1, ← hs.2.2]
  · have hv' : validateBoundary est ref trim = .error .valueError := by rw [validateBoundary_swap]; exact hv
    rw [detection_of_invalid w 1 hv, detection_of_invalid w 1 hv']; rfl

theorem deviation_swap (ref est : List (Rat × Rat)) (trim : Bool) :
    deviation est ref trim = (deviation ref est trim).map fun s => (s.2, s.1) := by
  rcases validateBoundary_cases ref est trim with hv | hv
  · have hv' : validateBoundary est ref trim = .ok () := by rw [validateBoundary_swap]; exact hv
    rcases hr : boundaries ref trim with _ | ⟨r0, rs⟩
    · rw [deviation_of_valid_empty hv (Or.inl hr), deviation_of_valid_empty hv' (Or.inr hr)]; rfl
    · rcases he : boundaries est trim with _ | ⟨e0, es⟩
      · rw [deviation_of_valid_empty hv (Or.inr he), deviation_of_valid_empty hv' (Or.inl he)]; rfl
      · rw [deviation_of_valid_cons hv hr he, deviation_of_valid_cons hv' he hr]
        simp only [Except.map]
        have h1 : ∀ e, minOver (fun r => absQ (e - r)) r0 rs = minOver (fun r => absQ (r - e)) r0 rs :=
          fun e => minOver_congr (fun r => absQ_sub_comm e r) r0 rs
        have h2 : ∀ r, minOver (fun e => absQ (e - r)) e0 es = minOver (fun e => absQ (r - e)) e0 es :=
          fun r => minOver_congr (fun e => absQ_sub_comm e r) e0 es
        simp only [h1, h2]
  · have hv' : validateBoundary est ref trim = .error .valueError := by rw [validateBoundary_swap]; exact hv
    rw [deviation_of_invalid hv, deviation_of_invalid hv']; rfl

/-! non-vacuity: asymmetric instances -/
example : deviation [(0, 4)] [(0, 1), (1, 4)] false = .ok (some 0, some 0) := by decide +kernel
example : deviation [(0, 4)] [(0, 1), (1, 5)] false = .ok (some (1 / 2), some 1) := by decide +kernel
example : deviation [(0, 1), (1, 5)] [(0, 4)] false = .ok (some 1, some (1 / 2)) := by decide +kernel

end Mir.C06.Boundary
