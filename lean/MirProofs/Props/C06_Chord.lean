import MirProofs.Lemmas.ChordRange
/-!
  C06 — chord segmentation scores: exchanging reference and estimate exchanges under- and over-segmentation and
  leaves `seg` unchanged.

  `underseg(ref, est) = 1 − dhd(est, ref)` and `overseg(ref, est) = 1 − dhd(ref, est)`, so the exchange is
  definitional.  `seg = min(underseg, overseg)` is Python's `min` (not symmetric when an argument is `nan`), but
  `directional_hamming_distance` is proved never to return `nan`, so `seg` is symmetric whenever it returns.
  Only the exception CLASS can depend on the order (the first failing of the two calls decides; last example).
-/
namespace Mir.C06.Chord
open Mir Mir.Iv

/-- under-segmentation of (ref, est) is over-segmentation of (est, ref): all inputs, values and exceptions -/
theorem underseg_swap (ref est : Ivals) : underseg ref est = overseg est ref := rfl

theorem overseg_swap (ref est : Ivals) : overseg ref est = underseg est ref := rfl

/-- Python's `min` on two numbers is symmetric -/
theorem pymin_comm (a b : Rat) : Num.pymin (.val a) (.val b) = Num.pymin (.val b) (.val a) := by
  unfold Num.pymin
  simp only
  by_cases h1 : b < a <;> by_cases h2 : a < b
  · exact absurd h1 (not_lt.2 (le_of_lt h2))
  · simp [h1, h2]
  · simp [h1, h2]
  · have : a = b := le_antisymm (not_lt.1 h1) (not_lt.1 h2)
    simp [this]

/-- **`seg` is symmetric**: whenever `seg(ref, est)` returns, `seg(est, ref)` returns the same number -/
theorem seg_swap {ref est : Ivals} {x : Num} (h : seg ref est = .ok x) : seg est ref = .ok x := by
  unfold seg at h ⊢
  obtain ⟨u, hu, h⟩ := bind_ok.1 h
  obtain ⟨o, ho, h⟩ := bind_ok.1 h
  cases h
  obtain ⟨a, rfl, _, _⟩ := underseg_ok_range hu
  obtain ⟨b, rfl, _, _⟩ := overseg_ok_range ho
  rw [underseg_swap est ref, ho, overseg_swap est ref, hu]
  show Except.ok (Num.pymin (.val b) (.val a)) = Except.ok (Num.pymin (.val a) (.val b))
  rw [pymin_comm]

/-- both directions return or fail together -/
theorem seg_swap_iff (ref est : Ivals) (x : Num) : seg ref est = .ok x ↔ seg est ref = .ok x :=
  ⟨seg_swap, seg_swap⟩

/-- the last entry of `chord.evaluate` (`min(overseg, underseg)`) equals `seg` of the merged interval arrays -/
theorem pymin_scores_comm {ref est : Ivals} {u o : Num} (hu : underseg ref est = .ok u)
    (ho : overseg ref est = .ok o) : Num.pymin o u = Num.pymin u o := by
  obtain ⟨a, rfl, _, _⟩ := underseg_ok_range hu
  obtain ⟨b, rfl, _, _⟩ := overseg_ok_range ho
  exact pymin_comm b a

/-- non-vacuity; and the exception class may depend on the order (empty reference: IndexError after the estimate
    has been accepted, ValueError when the other call sees the overlap first) -/
example :
    underseg [(0, 2), (2, 4)] [(0, 1), (1, 3), (3, 4)] = .ok (.val (3/4))
    ∧ overseg [(0, 1), (1, 3), (3, 4)] [(0, 2), (2, 4)] = .ok (.val (3/4))
    ∧ seg [(0, 2), (2, 4)] [(0, 1), (1, 3), (3, 4)] = .ok (.val (1/2))
    ∧ seg [(0, 1), (1, 3), (3, 4)] [(0, 2), (2, 4)] = .ok (.val (1/2))
    ∧ seg [] [(0, 2), (1, 3)] = .error .valueError ∧ seg [(0, 2), (1, 3)] [] = .error .indexError := by
  refine ⟨by decide +kernel, by decide +kernel, by decide +kernel, by decide +kernel, by decide +kernel,
    by decide +kernel⟩

end Mir.C06.Chord
