import MirGen.Scalars
import MirProofs.Lemmas.Scores
import MirProofs.Lemmas.PyScalar
/-
  C06 (host) — the generated definition of `util.f_measure` (MirGen/Scalars.lean, regenerated from the source on
  every run) equals the hand-written model `Mir.fMeasure` together with the driver's ZeroDivisionError guard,
  for ALL arguments.  Consequence: every theorem about `fMeasure` (C01 range, C02 perfect score, C06 symmetry,
  C07 monotonicity) speaks about the code as translated.
-/
namespace Mir.C06.Gen
open Mir

/-- the hand-written reading of `util.f_measure` as a partial function: `Scores.handler`'s guard + `fMeasure` -/
def fMeasurePy (p r b : Rat) : Py Rat :=
  if ¬ (p = 0 ∧ r = 0) ∧ b * b * p + r = 0 then .error .zeroDivision else .ok (fMeasure p r b)

set_option linter.unusedSimpArgs false in
/-- `Mir.Gen.util.f_measure` (translated from the source) = the hand-written model, for all arguments -/
theorem f_measure_eq_model (p r b : Rat) : Mir.Gen.util.f_measure p r b = fMeasurePy p r b := by
  unfold Mir.Gen.util.f_measure fMeasurePy fMeasure
  -- robust to harmless rewrites of the source: the guard's conjuncts in either order / `0 == x`, and any
  -- ring-equivalent spelling of numerator and denominator (`beta*beta`, reordered operands)
  by_cases hp : p = 0 <;> by_cases hr : r = 0
  · subst hp hr; simp; rfl
  all_goals
    simp only [hp, hr, @eq_comm _ (0 : Rat), decide_true, decide_false, Bool.and_false, Bool.false_and, Bool.and_true,
      Bool.true_and, Bool.false_eq_true, if_false, and_false, false_and, and_true, true_and, not_false_eq_true]
    refine Mir.PyS.divF_return ?_ ?_ <;> ring

/-- what the code does on the documented domain (precision, recall >= 0, beta != 0): it returns `fMeasure` -/
theorem f_measure_ok {p r b : Rat} (hp : 0 ≤ p) (hr : 0 ≤ r) (hb : b ≠ 0) :
    Mir.Gen.util.f_measure p r b = .ok (fMeasure p r b) := by
  rw [f_measure_eq_model]; unfold fMeasurePy
  have hbb : 0 < b * b := mul_self_pos.2 hb
  by_cases h : p = 0 ∧ r = 0
  · simp [h]
  · have : b * b * p + r ≠ 0 := by
      intro h0
      have h1 : 0 ≤ b * b * p := by positivity
      have hr0 : r = 0 := by linarith
      have hp0 : b * b * p = 0 := by linarith
      rcases mul_eq_zero.1 hp0 with hz | hz
      · exact (ne_of_gt hbb) hz
      · exact h ⟨hz, hr0⟩
    simp [this]

/-- the only way `util.f_measure` raises: beta = 0 with a zero recall and a non-zero precision (or negative
    inputs cancelling) — exactly the ZeroDivisionError guard of the hand-written driver glue -/
theorem f_measure_raises_iff (p r b : Rat) :
    Mir.Gen.util.f_measure p r b = .error .zeroDivision ↔ (¬ (p = 0 ∧ r = 0) ∧ b * b * p + r = 0) := by
  rw [f_measure_eq_model]; unfold fMeasurePy
  split <;> simp_all

/-- C06 obligation of `util.f_measure`, on the code as translated: at beta = 1 swapping precision and recall does not
    change the result (value or exception) -/
theorem f_measure_swap (p r : Rat) : Mir.Gen.util.f_measure p r 1 = Mir.Gen.util.f_measure r p 1 := by
  rw [f_measure_eq_model, f_measure_eq_model]; unfold fMeasurePy
  rw [fMeasure_symm p r]
  have h1 : (p = 0 ∧ r = 0) ↔ (r = 0 ∧ p = 0) := And.comm
  have h2 : (1 * 1 * p + r = 0) ↔ (1 * 1 * r + p = 0) := by constructor <;> intro h <;> linarith
  simp only [h1, h2]

/-- the default argument of the translated definition is the source's `beta=1.0` -/
theorem f_measure_default (p r : Rat) : Mir.Gen.util.f_measure p r = Mir.Gen.util.f_measure p r 1 := rfl

/-- non-vacuity: values, the zero corner, beta variations and the raising corner -/
example : Mir.Gen.util.f_measure (1/2) (1/4) 1 = .ok (1/3) ∧ Mir.Gen.util.f_measure (1/4) (1/2) 1 = .ok (1/3) ∧
    Mir.Gen.util.f_measure 0 0 0 = .ok 0 ∧ Mir.Gen.util.f_measure (1/2) (1/4) 2 = .ok (5/18) ∧
    Mir.Gen.util.f_measure (1/2) 0 0 = .error .zeroDivision := by
  decide +kernel

end Mir.C06.Gen
