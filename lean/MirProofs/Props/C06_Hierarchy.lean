import MirProofs.Props.C17
/-! C06 — T- and L-measure: exchanging the roles exchanges precision and recall. -/
namespace Mir.C06.Hierarchy
open Mir

theorem tmeasure_swap (ref est : Hierarchy.Hier) (transitive : Bool) (window : Option Rat) (fs beta p r f : Rat)
    (h : Hierarchy.tmeasure ref est transitive window fs beta = .ok (p, r, f)) :
    Hierarchy.tmeasure est ref transitive window fs beta = .ok (r, p, fMeasure r p beta) :=
  Mir.C17.tmeasure_swap ref est transitive window fs beta p r f h

theorem lmeasure_swap (ref est : Hierarchy.Hier) (rls els : List (List String)) (fs beta p r f : Rat)
    (h : Hierarchy.lmeasure ref rls est els fs beta = .ok (p, r, f)) :
    Hierarchy.lmeasure est els ref rls fs beta = .ok (r, p, fMeasure r p beta) :=
  Mir.C17.lmeasure_swap ref est rls els fs beta p r f h

end Mir.C06.Hierarchy
