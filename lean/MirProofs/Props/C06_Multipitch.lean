import MirProofs.Lemmas.MultipitchInvariance
/-! C06 (multipitch part) — swapping reference and estimate exchanges precision and recall. -/
open Mir Mir.Multipitch

namespace Mir.C06.Multipitch

/-- On a common time base (the symmetric situation: resampling always maps the ESTIMATE onto the
    reference's time base), exchanging the two annotations exchanges precision and recall and leaves
    accuracy unchanged, for the raw and for the chroma scores and every window. -/
theorem swap_exchanges_precision_recall (t : List Rat) (a b : Frames) (w : Rat)
    (ha : a.length = t.length) (hb : b.length = t.length) :
    let m := metricsCore t a t b w
    let m' := metricsCore t b t a w
    (m'.1.precision = m.1.recall ∧ m'.1.recall = m.1.precision ∧ m'.1.accuracy = m.1.accuracy) ∧
    (m'.2.precision = m.2.recall ∧ m'.2.recall = m.2.precision ∧ m'.2.accuracy = m.2.accuracy) := by
  intro m m'
  have e1 : m = metricsCore t a t b w := rfl
  have e2 : m' = metricsCore t b t a w := rfl
  rw [metricsCore_eq w ha hb, alignedEst_self] at e1
  rw [metricsCore_eq w hb ha, alignedEst_self] at e2
  have hraw : (fun e r => rawFeas w r e) = rawFeas w := by funext e r; exact rawFeas_swap w e r
  have hchr : (fun e r => chromaFeas w r e) = chromaFeas w := by funext e r; exact chromaFeas_swap w e r
  have s1 := seven_swap (rawFeas w) (a.zip b)
  have s2 := seven_swap (chromaFeas w) (a.zip b)
  rw [hraw, zip_swap] at s1
  rw [hchr, zip_swap] at s2
  rw [e1, e2]
  exact ⟨s1, s2⟩

/-- the same through `metrics`: if both orders are valid inputs -/
theorem swap_exchanges_precision_recall_metrics (t : List Rat) (a b : Frames) (w : Rat) (m m' : Seven × Seven)
    (h : metrics t a t b w = .ok m) (h' : metrics t b t a w = .ok m') :
    (m'.1.precision = m.1.recall ∧ m'.1.recall = m.1.precision ∧ m'.1.accuracy = m.1.accuracy) ∧
    (m'.2.precision = m.2.recall ∧ m'.2.recall = m.2.precision ∧ m'.2.accuracy = m.2.accuracy) := by
  obtain ⟨rfl, ha, hb⟩ := metrics_ok h
  obtain ⟨rfl, _, _⟩ := metrics_ok h'
  exact swap_exchanges_precision_recall t a b w ha hb

/-- both matching criteria are symmetric in their two arguments -/
theorem criteria_symmetric (w r e : Rat) :
    rawFeas w e r = rawFeas w r e ∧ chromaFeas w e r = chromaFeas w r e :=
  ⟨rawFeas_swap w r e, chromaFeas_swap w r e⟩

/-- non-vacuity -/
example : valid [0, 1] [[60, 64], [67]] [0, 1] [[60], [67, 79, 80]] = true ∧
    valid [0, 1] [[60], [67, 79, 80]] [0, 1] [[60, 64], [67]] = true := by
  constructor <;> decide +kernel

end Mir.C06.Multipitch
