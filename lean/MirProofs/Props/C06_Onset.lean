import MirProofs.Lemmas.Onset
/-!
  C06 (onset) — exchanging reference and estimate exchanges precision and recall and keeps F,
  for every input (errors are exchanged with errors).

  Scope note (known finding `window_tie_within_rounding`): the theorem is about exact arithmetic. The code
  decides a pair by `est - w ≤ ref ≤ est + w` in binary64, which is not symmetric within one rounding of the
  window edge: `onset.f_measure([0.4],[0.1],0.3) = (1,1,1)` but `(0,0,0)` with the roles exchanged. On inputs
  where no pair is within rounding distance of the edge without being exactly on it (all explored streams)
  code and model agree and the theorem transfers.
-/
namespace Mir.C06.Onset
open Mir.Onset Mir.MiscStats

theorem f_measure_swap (ref est : List Rat) (w : Rat) :
    Onset.fMeasure est ref w = (Onset.fMeasure ref est w).map fun s => (s.1, s.2.2, s.2.1) := by
  rcases validate_cases ref est with hv | hv
  · have hv' : Onset.validate est ref = .ok () := by rw [validate_swap]; exact hv
    rw [fMeasure_of_valid w hv, fMeasure_of_valid w hv']
    have hs := hitPRF_swap (withinWindow w) ref est
    have hf : (fun e r => withinWindow w r e) = withinWindow w := by
      funext e r; exact ww_symm w e r
    rw [hf] at hs
    simp only [Except.map]
    rw [hs.1, hs.2.1, hs.2.2]
  · have hv' : Onset.validate est ref = .error .valueError := by rw [validate_swap]; exact hv
    rw [fMeasure_of_invalid w hv, fMeasure_of_invalid w hv']; rfl

/-! ### the float gap (known finding `window_tie_within_rounding`)

  `windowTest64 w r e` is the test the code executes on doubles, `fl(e - w) ≤ r ≤ fl(e + w)`. The
  full-strength symmetry statement at that level is false; it holds wherever the two roundings are exact
  (in particular on the dyadic lattice of stream E), where it coincides with the exact test of the model. -/

/-- FALSE for the unchanged code: the executed window test is symmetric in (ref, est) -/
def f_measure_swap_binary64_full_statement : Prop :=
  ∀ w r e : Rat, windowTest64 w r e = windowTest64 w e r

/-- witness: the doubles nearest to 0.3, 0.4, 0.1 -/
theorem f_measure_swap_binary64_full_statement_false : ¬ f_measure_swap_binary64_full_statement := by
  intro h
  have := h (rnd64 (3 / 10)) (rnd64 (4 / 10)) (rnd64 (1 / 10))
  revert this
  decide +kernel

/-- where `est ± w` and `ref ± w` are computed exactly, the executed test is the model's (symmetric) test -/
theorem window_test_binary64_partial (w r e : Rat)
    (h1 : rnd64 (e - w) = e - w) (h2 : rnd64 (e + w) = e + w)
    (h3 : rnd64 (r - w) = r - w) (h4 : rnd64 (r + w) = r + w) :
    windowTest64 w r e = withinWindow w r e ∧ windowTest64 w r e = windowTest64 w e r := by
  have a : windowTest64 w r e = withinWindow w r e := by unfold windowTest64 withinWindow; rw [h1, h2]
  have b : windowTest64 w e r = withinWindow w e r := by unfold windowTest64 withinWindow; rw [h3, h4]
  exact ⟨a, by rw [a, b, ww_symm]⟩

/-! non-vacuity of the partial statement: dyadic values are rounded exactly -/
example : rnd64 (3 / 4 - 1 / 2) = 3 / 4 - 1 / 2 ∧ rnd64 (3 / 4 + 1 / 2) = 3 / 4 + 1 / 2 := by decide +kernel

/-! non-vacuity: an asymmetric instance -/
example : Onset.fMeasure [0, 1, 2] [0] (1 / 2) = .ok (1 / 2, 1, 1 / 3) := by
  rw [fMeasure_of_valid _ (by decide +kernel), hitPRF_eq_brute]; decide +kernel
example : Onset.fMeasure [0] [0, 1, 2] (1 / 2) = .ok (1 / 2, 1 / 3, 1) := by
  rw [fMeasure_of_valid _ (by decide +kernel), hitPRF_eq_brute]; decide +kernel

end Mir.C06.Onset
