import MirProofs.Lemmas.PatternSpec
/-!
  C06 (pattern part) — swapping reference and estimate exchanges precision and recall (F unchanged), for the
  establishment, occurrence and three-layer scores.  The equalities are between complete results of the model
  (exceptions included), for every input and threshold.  (`standard_FPR` counts matched references only and is
  not symmetric; it is not claimed.)
-/
namespace Mir.C06.Pattern
open Mir.Pattern

/-- the cardinality score treats its two arguments symmetrically -/
theorem cardScore_symm (P Q : Occ) : cardScore P Q = cardScore Q P := by
  rw [cardScore_eq, cardScore_eq, card_comm, Bool.and_comm]

theorem establishment_swap (ref est : Pats) :
    establishmentFPR est ref cardName = (establishmentFPR ref est cardName).map swapPR := by
  rw [establishmentFPR_eq, establishmentFPR_eq, anyEmptyPat_comm, isZero_comm, Bool.and_comm,
    Mir.Pattern.establishment_swap]
  repeat' split
  all_goals rfl

theorem occurrence_swap (ref est : Pats) (thres : Rat) :
    occurrenceFPR est ref thres cardName = (occurrenceFPR ref est thres cardName).map swapPR := by
  rw [occurrenceFPR_eq, occurrenceFPR_eq, anyEmptyPat_comm, isZero_comm, Bool.and_comm,
    Mir.Pattern.occurrence_swap]
  repeat' split
  all_goals rfl

theorem three_layer_swap (ref est : Pats) :
    threeLayerFPR est ref = (threeLayerFPR ref est).map swapPR := by
  rw [threeLayerFPR_eq, threeLayerFPR_eq, anyEmptyPat_comm, isZero_comm, Bool.or_comm,
    Mir.Pattern.threeLayer_swap]
  repeat' split
  all_goals rfl

/-- in the returned triples: F unchanged, P and R exchanged -/
theorem swap_components (t : Rat × Rat × Rat) :
    (swapPR t).1 = t.1 ∧ (swapPR t).2.1 = t.2.2 ∧ (swapPR t).2.2 = t.2.1 := ⟨rfl, rfl, rfl⟩

/-! non-vacuity -/
def exRef : Pats := [[[(0, 60), (1, 62)]], [[(1/2, 61), (3/2, 63)], [(2, 61)]]]
def exEst : Pats := [[[(0, 60), (1, 62)], [(5, 60)]]]

example : establishmentFPR exRef exEst = .ok (2/3, 1, 1/2) ∧ establishmentFPR exEst exRef = .ok (2/3, 1/2, 1) := by
  decide +kernel
example : occurrenceFPR exRef exEst (1/2) = .ok (2/3, 1/2, 1) ∧ occurrenceFPR exEst exRef (1/2) = .ok (2/3, 1, 1/2) := by
  decide +kernel
example : threeLayerFPR exRef exEst = .ok (4/9, 2/3, 1/3) ∧ threeLayerFPR exEst exRef = .ok (4/9, 1/3, 2/3) := by
  decide +kernel

end Mir.C06.Pattern
