import MirProofs.Lemmas.Segment
import MirProofs.Lemmas.SegmentRel
import MirProofs.Props.C16
/-! C06 — exchanging reference and estimate: pairwise P <-> R (F kept at beta = 1), Rand / ARI / MI symmetric;
    over the real-number reading of the entropy-based scores: NMI and AMI symmetric (the expected-MI triple loop is
    symmetric under exchanging the margin vectors), NCE over <-> under and V precision <-> V recall, their
    F-measures unchanged at beta = 1.  All for label-index sequences of any (equal) length. -/
namespace Mir.C06.Segment
open Mir

theorem pairwise_swap {yr ye : List Nat} (hl : yr.length = ye.length)
    (he : 0 < (Segment.combSums yr ye).2.1) (hr : 0 < (Segment.combSums yr ye).2.2) :
    ∃ p r f, Segment.pairwiseIdx yr ye 1 = .ok (Segment.Num.val p, Segment.Num.val r, Segment.Num.val f) ∧
      Segment.pairwiseIdx ye yr 1 = .ok (Segment.Num.val r, Segment.Num.val p, Segment.Num.val f) :=
  Segment.pairwiseIdx_swap hl he hr

theorem rand_symm {yr ye : List Nat} (hl : yr.length = ye.length) :
    Segment.randIdx ye yr = Segment.randIdx yr ye := Segment.randIdx_swap hl

theorem ari_symm {yr ye : List Nat} (hl : yr.length = ye.length) :
    Segment.adjustedRandIdx ye yr = Segment.adjustedRandIdx yr ye := Segment.adjustedRandIdx_swap hl

/-- mutual information (over the reals) is symmetric -/
theorem mi_symm (yr ye : List Nat) (hl : yr.length = ye.length) :
    Segment.mutualInfoIdx (α := ℝ) ye yr = Segment.mutualInfoIdx (α := ℝ) yr ye := Mir.C16.mi_symm yr ye hl

/-! ### entropy-based scores (model at the real-number instance) -/

/-- NMI — value, numerator and denominator — is symmetric -/
theorem nmi_symm {yr ye : List Nat} (hl : yr.length = ye.length) :
    Segment.nmiIdx (α := ℝ) ye yr = Segment.nmiIdx (α := ℝ) yr ye := Segment.nmiIdx_real_symm hl

/-- the expected-MI triple loop of `_adjusted_mutual_info_score` is symmetric under exchanging the two margin
    vectors — ANY margin vectors and total, not only those of a contingency table -/
theorem emi_symm (a b : List Nat) (n : Nat) :
    Segment.expectedMI (α := ℝ) b a n = Segment.expectedMI (α := ℝ) a b n := Segment.expectedMI_real_symm a b n

/-- AMI — value, numerator and denominator — is symmetric -/
theorem ami_symm {yr ye : List Nat} (hl : yr.length = ye.length) :
    Segment.amiIdx (α := ℝ) ye yr = Segment.amiIdx (α := ℝ) yr ye := Segment.amiIdx_real_symm hl

/-- NCE: exchanging the roles exchanges the over- and the under-segmentation score (`marginal` = False or True),
    for every beta -/
theorem nce_swap {yr ye : List Nat} (hl : yr.length = ye.length) (beta : ℝ) (marginal : Bool) :
    (Segment.nceIdx (α := ℝ) ye yr beta marginal).1 = (Segment.nceIdx (α := ℝ) yr ye beta marginal).2.1 ∧
    (Segment.nceIdx (α := ℝ) ye yr beta marginal).2.1 = (Segment.nceIdx (α := ℝ) yr ye beta marginal).1 := by
  rw [Segment.nceIdx_real_swap hl]
  exact ⟨rfl, rfl⟩

/-- … and the NCE F-measure is unchanged at `beta = 1` -/
theorem nce_F_swap {yr ye : List Nat} (hl : yr.length = ye.length) (marginal : Bool) :
    (Segment.nceIdx (α := ℝ) ye yr 1 marginal).2.2 = (Segment.nceIdx (α := ℝ) yr ye 1 marginal).2.2 :=
  Segment.nceIdx_real_swap_F hl marginal

/-- V-measure: V precision <-> V recall, V-measure unchanged at `beta = 1` -/
theorem v_swap {yr ye : List Nat} (hl : yr.length = ye.length) :
    (Segment.vmeasureIdx (α := ℝ) ye yr 1).1 = (Segment.vmeasureIdx (α := ℝ) yr ye 1).2.1 ∧
    (Segment.vmeasureIdx (α := ℝ) ye yr 1).2.1 = (Segment.vmeasureIdx (α := ℝ) yr ye 1).1 ∧
    (Segment.vmeasureIdx (α := ℝ) ye yr 1).2.2 = (Segment.vmeasureIdx (α := ℝ) yr ye 1).2.2 := by
  unfold Segment.vmeasureIdx
  exact ⟨(nce_swap hl 1 true).1, (nce_swap hl 1 true).2, nce_F_swap hl true⟩

-- non-vacuity: two sequences of equal length that are not one-cluster, with an asymmetric table
example : [0, 0, 1, 1].length = [0, 1, 1, 1].length ∧ ¬ Segment.miSpecial [0, 0, 1, 1] [0, 1, 1, 1] ∧
    Segment.rowSums (Segment.contingency [0, 0, 1, 1] [0, 1, 1, 1]) = [2, 2] ∧
    Segment.rowSums (Segment.contingency [0, 1, 1, 1] [0, 0, 1, 1]) = [1, 3] := by decide +kernel

example : Segment.nmiIdx (α := ℝ) [0, 1, 1, 1] [0, 0, 1, 1] = Segment.nmiIdx (α := ℝ) [0, 0, 1, 1] [0, 1, 1, 1] ∧
    Segment.amiIdx (α := ℝ) [0, 1, 1, 1] [0, 0, 1, 1] = Segment.amiIdx (α := ℝ) [0, 0, 1, 1] [0, 1, 1, 1] :=
  ⟨nmi_symm rfl, ami_symm rfl⟩

end Mir.C06.Segment
