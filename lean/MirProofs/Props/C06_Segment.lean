import MirProofs.Lemmas.Segment
import MirProofs.Props.C16
/-! C06 — exchanging reference and estimate: pairwise P <-> R (F kept at beta = 1), Rand / ARI / MI symmetric. -/
namespace Mir.C06.Segment
open Mir

theorem pairwise_swap {yr ye : List Nat} (hl : yr.length = ye.length)
    (he : 0 < (Segment.combSums yr ye).2.1) (hr : 0 < (Segment.combSums yr ye).2.2) :
    ∃ p r f, Segment.pairwiseIdx yr ye 1 = .ok (Segment.Num.val p, Segment.Num.val r, Segment.Num.val f) ∧
      Segment.pairwiseIdx ye yr 1 = .ok (Segment.Num.val r, Segment.Num.val p, Segment.Num.val f) :=
  Segment.pairwiseIdx_swap hl he hr

theorem rand_symm {yr ye : List Nat} (hl : yr.length = ye.length) :
    Segment.randIdx ye yr = Segment.randIdx yr ye := Segment.randIdx_swap hl

theorem ari_symm {yr ye : List Nat} (hl : yr.length = ye.length) :
    Segment.adjustedRandIdx ye yr = Segment.adjustedRandIdx yr ye := Segment.adjustedRandIdx_swap hl

/-- mutual information (over the reals) is symmetric -/
theorem mi_symm (yr ye : List Nat) (hl : yr.length = ye.length) :
    Segment.mutualInfoIdx (α := ℝ) ye yr = Segment.mutualInfoIdx (α := ℝ) yr ye := Mir.C16.mi_symm yr ye hl

end Mir.C06.Segment
