import MirProofs.Lemmas.Transcription
/-!
  C06 (transcription part) — exchanging reference and estimate exchanges precision and recall and keeps F (β = 1)
  for onset-only matching and for note matching **without** offsets.  With offsets the tolerance scales with the
  *reference* duration, so the criterion is not symmetric and nothing is claimed (see the example at the end).
-/
namespace Mir.C06.Transcription
open Mir.Transcription

/-- `precision_recall_f1_overlap(offset_ratio=None)`: P ↔ R, F unchanged -/
theorem prf_no_offset_swap (refI estI : List Ival) (refP estP : List Rat) (p : Params) (hoff : p.offsetRatio = none)
    (a b : Rat × Rat × Rat × Rat)
    (ha : precisionRecallF1Overlap refI refP estI estP p 1 = .ok a)
    (hb : precisionRecallF1Overlap estI estP refI refP p 1 = .ok b) :
    b.1 = a.2.1 ∧ b.2.1 = a.1 ∧ b.2.2.1 = a.2.2.1 := by
  have h := hitPRF_swap (noteHit p) (refI.zip refP) (estI.zip estP)
  rw [noteHit_flip p hoff, ← prfOverlap_eq_hitPRF ha, ← prfOverlap_eq_hitPRF hb] at h
  exact h

/-- `onset_precision_recall_f1`: P ↔ R, F unchanged -/
theorem onset_prf_swap (refI estI : List Ival) (tol : Rat) (strict : Bool) (a b : Rat × Rat × Rat)
    (ha : onsetPRF refI estI tol strict 1 = .ok a) (hb : onsetPRF estI refI tol strict 1 = .ok b) :
    b.1 = a.2.1 ∧ b.2.1 = a.1 ∧ b.2.2 = a.2.2 := by
  have h := hitPRF_swap (onsetHit tol strict) refI estI
  rw [onsetHit_flip, ← onsetPRF_eq_hitPRF ha, ← onsetPRF_eq_hitPRF hb] at h
  exact h

/-- the number of matched notes itself is symmetric (no offsets) -/
theorem note_hit_count_swap (p : Params) (hoff : p.offsetRatio = none) (ref est : List Note) :
    hitCount (noteHit p) est ref = hitCount (noteHit p) ref est := by
  have := hitCount_swap (noteHit p) ref est
  rwa [noteHit_flip p hoff] at this

/-! non-vacuity; and why offsets are excluded: a long reference note tolerates an offset error that the short
    note does not tolerate when the roles are exchanged -/
example : offsetHit (1 / 5) (1 / 20) false (0, 4) (0, 17 / 4) = true ∧
          offsetHit (1 / 5) (1 / 20) false (0, 17 / 4) (0, 4) = true ∧
          offsetHit (1 / 5) (1 / 20) false (0, 4) (3, 13 / 4) = true ∧
          offsetHit (1 / 5) (1 / 20) false (3, 13 / 4) (0, 4) = false := by decide +kernel

end Mir.C06.Transcription
