import MirProofs.Lemmas.EventWindow
/-! C07 — looser criteria never lower a score: shared part. -/
namespace Mir.C07

/-- If criterion `feas'` accepts every pair that `feas` accepts, then hits, precision, recall and F (any beta)
    under `feas'` are at least those under `feas`, on every input. -/
theorem hit_prf_widen {α β : Type} {feas feas' : α → β → Bool} (h : ∀ r e, feas r e = true → feas' r e = true)
    (ref : List α) (est : List β) (beta : Rat) :
    hitCount feas ref est ≤ hitCount feas' ref est ∧
    (hitPRF feas ref est beta).1 ≤ (hitPRF feas' ref est beta).1 ∧
    (hitPRF feas ref est beta).2.1 ≤ (hitPRF feas' ref est beta).2.1 ∧
    (hitPRF feas ref est beta).2.2 ≤ (hitPRF feas' ref est beta).2.2 :=
  ⟨hitCount_mono h ref est, hitPRF_mono h ref est beta⟩

/-- Widening the window of an event metric (beat F-measure, onset, boundary detection). -/
theorem event_prf_widen {w w' : Rat} (h : w ≤ w') (ref est : List Rat) (beta : Rat) :
    hitCount (withinWindow w) ref est ≤ hitCount (withinWindow w') ref est ∧
    (hitPRF (withinWindow w) ref est beta).1 ≤ (hitPRF (withinWindow w') ref est beta).1 ∧
    (hitPRF (withinWindow w) ref est beta).2.1 ≤ (hitPRF (withinWindow w') ref est beta).2.1 ∧
    (hitPRF (withinWindow w) ref est beta).2.2 ≤ (hitPRF (withinWindow w') ref est beta).2.2 :=
  hit_prf_widen (withinWindow_mono h) ref est beta

/-- F is monotone in precision and recall. -/
theorem f_measure_mono (p r p' r' b : Rat) (hp0 : 0 ≤ p) (hr0 : 0 ≤ r) (hp : p ≤ p') (hr : r ≤ r') :
    fMeasure p r b ≤ fMeasure p' r' b := fMeasure_mono hp0 hr0 hp hr

example : withinWindow (1/4) 1 (5/4) = true ∧ withinWindow (1/8) 1 (5/4) = false := by
  constructor <;> decide +kernel

end Mir.C07
