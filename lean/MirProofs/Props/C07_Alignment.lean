import MirProofs.Lemmas.Alignment
/-!
  C07 (alignment) — a wider window never lowers `percentage_correct`.
-/
namespace Mir.C07.Alignment
open Mir.Alignment Mir.MiscStats

theorem pc_window_mono (ref est : List Rat) (w w' : Rat) (hw : w ≤ w') (p p' : Rat)
    (h : percentageCorrect ref est w = .ok (some p)) (h' : percentageCorrect ref est w' = .ok (some p')) :
    p ≤ p' := by
  have hv := validate_of_ok (fun hv => percentageCorrect_of_invalid w hv) h
  rw [percentageCorrect_of_valid w hv] at h
  rw [percentageCorrect_of_valid w' hv] at h'
  have hv' := (validate_ok_iff ref est).1 hv
  have hne := deviations_ne_nil hv'.1 hv'.2.1
  have hl : (0 : Rat) < (deviations ref est).length := by exact_mod_cast List.length_pos_iff.2 hne
  simp only [mean?, List.isEmpty_map, List.isEmpty_iff, hne, if_false, Except.ok.injEq,
    Option.some.injEq, List.length_map] at h h'
  rw [← h, ← h']
  apply div_le_div_of_nonneg_right _ hl.le
  apply sum_map_le
  intro x _
  by_cases hx : x ≤ w
  · simp [hx, le_trans hx hw]
  · simp only [hx, if_false]; split <;> norm_num

/-- whether the call succeeds does not depend on the window -/
theorem pc_defined_any_window (ref est : List Rat) (w w' : Rat) :
    (∃ s, percentageCorrect ref est w = .ok s) ↔ ∃ s', percentageCorrect ref est w' = .ok s' := by
  constructor
  · rintro ⟨s, h⟩
    exact ⟨_, percentageCorrect_of_valid w' (validate_of_ok (fun hv => percentageCorrect_of_invalid w hv) h)⟩
  · rintro ⟨s, h⟩
    exact ⟨_, percentageCorrect_of_valid w (validate_of_ok (fun hv => percentageCorrect_of_invalid w' hv) h)⟩

/-! non-vacuity -/
example : percentageCorrect [1, 2, 4] [1, 5 / 2, 3] (1 / 4) = .ok (some (1 / 3)) := by decide +kernel
example : percentageCorrect [1, 2, 4] [1, 5 / 2, 3] 1 = .ok (some 1) := by decide +kernel

end Mir.C07.Alignment
