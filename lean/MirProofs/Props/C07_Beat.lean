import MirProofs.Lemmas.BeatReal
/-!
  C07 (beat) — a wider window never lowers hits / F; nested beat scores are ordered.
-/
namespace Mir.C07.Beat
open Mir.Beat

/-- widening the F-measure window never decreases the number of hits -/
theorem hits_window_mono (ref est : List Rat) (thr thr' : Rat) (h : thr ≤ thr') :
    hitCount (withinWindow thr) ref est ≤ hitCount (withinWindow thr') ref est :=
  hitCount_mono (withinWindow_mono h) ref est

/-- widening the F-measure window never decreases the F-measure (validation does not look at the window) -/
theorem f_measure_window_mono (ref est : List Rat) (thr thr' v : Rat) (h : thr ≤ thr')
    (hv : Beat.fMeasure ref est thr = .ok v) :
    ∃ v', Beat.fMeasure ref est thr' = .ok v' ∧ v ≤ v' := by
  rw [fMeasure_ok_iff] at hv
  refine ⟨fMeasureCore ref est thr', (fMeasure_ok_iff _ _ _ _).2 ⟨hv.1, rfl⟩, ?_⟩
  rw [hv.2]
  exact fMeasureCore_mono ref est h

/-- CMLc ≤ AMLc, CMLt ≤ AMLt (correct metric level ≤ any metric level) and
    CMLc ≤ CMLt, AMLc ≤ AMLt (continuous ≤ total), on every input. -/
theorem continuity_nested (ref est : List Rat) (p q c t ac at' : Rat)
    (h : Beat.continuity ref est p q = .ok (c, t, ac, at')) :
    c ≤ ac ∧ t ≤ at' ∧ c ≤ t ∧ ac ≤ at' := by
  obtain ⟨_, h1, _, h3, h4, h5, _⟩ := continuityCore_ok ((continuity_ok_iff _ _ _ _ _).1 h).2
  exact ⟨h3, h4, h1, h5⟩

/-- Cemgil ≤ best-metric-level Cemgil (real-number reading). -/
theorem cemgil_le_best (ref est : List Rat) (sigma : Rat) :
    (cemgilCore realOps ref est sigma).1 ≤ (cemgilCore realOps ref est sigma).2 := by
  rcases ref with _ | ⟨r, rs⟩
  · simp [cemgilCore]
  rcases est with _ | ⟨e, es⟩
  · simp [cemgilCore]
  simp only [cemgilCore]
  exact maxT_real_ge _ _

/-! non-vacuity: a strict increase, and strictly nested continuity scores -/
example : fMeasureCore [5, 6] [21 / 4] (1 / 8) = 0 ∧ fMeasureCore [5, 6] [21 / 4] (1 / 4) = 2 / 3 := by
  constructor
  all_goals
    rw [fMeasureCore_eq _ _ _ (by simp) (by simp)]
    unfold hitCount
    rw [maxMatchSize_eq_bruteMax]
    decide +kernel
example : Beat.continuity [5, 6, 7, 8, 9] [5, 6, 15 / 2, 8, 9] = .ok (2 / 5, 3 / 5, 2 / 5, 3 / 5) := by
  decide +kernel

end Mir.C07.Beat
