import MirProofs.Lemmas.Boundary
/-!
  C07 (segment boundaries) — widening the detection window never lowers P, R or F (any beta, trim on or off).
-/
namespace Mir.C07.Boundary
open Mir.Boundary Mir.MiscStats

theorem detection_window_mono (ref est : List (Rat × Rat)) (w w' beta : Rat) (trim : Bool) (hw : w ≤ w')
    (s s' : Rat × Rat × Rat) (h : detection ref est w beta trim = .ok s)
    (h' : detection ref est w' beta trim = .ok s') :
    s.1 ≤ s'.1 ∧ s.2.1 ≤ s'.2.1 ∧ s.2.2 ≤ s'.2.2 := by
  have hv := validate_of_detection_ok h
  rw [detection_of_valid w beta hv] at h
  rw [detection_of_valid w' beta hv] at h'
  cases h; cases h'
  exact hitPRF_feas_mono (ww_mono hw) _ _ beta

theorem detection_defined_any_window (ref est : List (Rat × Rat)) (w w' beta : Rat) (trim : Bool) :
    (∃ s, detection ref est w beta trim = .ok s) ↔ ∃ s', detection ref est w' beta trim = .ok s' := by
  constructor
  · rintro ⟨s, h⟩; exact ⟨_, detection_of_valid w' beta (validate_of_detection_ok h)⟩
  · rintro ⟨s, h⟩; exact ⟨_, detection_of_valid w beta (validate_of_detection_ok h)⟩

/-! non-vacuity -/
example : detection [(0, 1), (1, 3)] [(0, 2), (2, 3)] (1 / 2) 1 false = .ok (2 / 3, 2 / 3, 2 / 3) := by
  rw [detection_of_valid _ _ (by decide +kernel), hitPRF_eq_brute]; decide +kernel
example : detection [(0, 1), (1, 3)] [(0, 2), (2, 3)] 1 1 false = .ok (1, 1, 1) := by
  rw [detection_of_valid _ _ (by decide +kernel), hitPRF_eq_brute]; decide +kernel

end Mir.C07.Boundary
