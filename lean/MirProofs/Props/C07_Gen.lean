import MirProofs.Props.C06_Gen
/-! C07 — F is monotone in precision and recall, stated on the definition REGENERATED from the source. -/
namespace Mir.C07.Gen
open Mir

/-- if the translated `util.f_measure` returns on both argument pairs, a larger precision / recall never lowers F -/
theorem f_measure_mono (p r p' r' b v v' : Rat) (hp0 : 0 ≤ p) (hr0 : 0 ≤ r) (hp : p ≤ p') (hr : r ≤ r')
    (h : Mir.Gen.util.f_measure p r b = .ok v) (h' : Mir.Gen.util.f_measure p' r' b = .ok v') : v ≤ v' := by
  rw [Mir.C06.Gen.f_measure_eq_model] at h h'
  unfold Mir.C06.Gen.fMeasurePy at h h'
  split at h
  · cases h
  · split at h'
    · cases h'
    · cases h; cases h'
      exact fMeasure_mono hp0 hr0 hp hr

example : Mir.Gen.util.f_measure (1/4) (1/2) 1 = .ok (1/3) ∧ Mir.Gen.util.f_measure (1/2) (1/2) 1 = .ok (1/2) := by
  decide +kernel

end Mir.C07.Gen
