import MirProofs.Props.C04_GenGlue
import MirProofs.Props.C07_Onset
import MirProofs.Props.C07_Beat
import MirProofs.Props.C07_Boundary
import MirProofs.Props.C07_Tempo
/-!
  C07 on the code as translated: widening a tolerance never lowers a score, for the regenerated `onset.f_measure`,
  `beat.f_measure`, `segment.detection`, `tempo.detection` (`lean/MirGen/EvGlue.lean`, tied to the hand models in
  `Props/C04_GenGlue.lean`).
-/
namespace Mir.C07.GenGlue
open Mir Mir.C04.GenGlue

/-- **C07 on the translated `onset.f_measure`**: widening the window never lowers F, P or R -/
theorem gen_onset_f_measure_window_mono (ref est : List Rat) (w w' : Rat) (hw : w ≤ w') (s s' : Rat × Rat × Rat)
    (h : Mir.Gen.onset.f_measure ref est w = .ok s) (h' : Mir.Gen.onset.f_measure ref est w' = .ok s') :
    s.1 ≤ s'.1 ∧ s.2.1 ≤ s'.2.1 ∧ s.2.2 ≤ s'.2.2 := by
  rw [onset_f_measure_eq_model] at h h'
  exact Mir.C07.Onset.f_measure_window_mono ref est w w' hw s s' h h'

/-- **C07 on the translated `beat.f_measure`**: widening the threshold never lowers the F-measure -/
theorem gen_beat_f_measure_window_mono (ref est : List Rat) (thr thr' v : Rat) (h : thr ≤ thr')
    (hv : Mir.Gen.beat.f_measure ref est thr = .ok v) :
    ∃ v', Mir.Gen.beat.f_measure ref est thr' = .ok v' ∧ v ≤ v' := by
  rw [beat_f_measure_eq_model] at hv
  rw [beat_f_measure_eq_model]
  exact Mir.C07.Beat.f_measure_window_mono ref est thr thr' v h hv

/-- **C07 on the translated `segment.detection`**: widening the window never lowers P, R or F -/
theorem gen_detection_window_mono (ref est : List (Rat × Rat)) (w w' beta : Rat) (trim : Bool) (hw : w ≤ w')
    (s s' : Rat × Rat × Rat) (h : Mir.Gen.segment.detection ref est w beta trim = .ok s)
    (h' : Mir.Gen.segment.detection ref est w' beta trim = .ok s') :
    s.1 ≤ s'.1 ∧ s.2.1 ≤ s'.2.1 ∧ s.2.2 ≤ s'.2.2 := by
  rw [detection_eq_model] at h h'
  exact Mir.C07.Boundary.detection_window_mono ref est w w' beta trim hw s s' h h'

/-- **C07 on the translated `tempo.detection`**: a larger tolerance never lowers the P-score nor clears a flag -/
theorem gen_tempo_detection_tol_mono (ref : List Rat) (w : Rat) (est : List Rat) (tol tol' : Rat) (ht : tol ≤ tol')
    (s s' : Rat × Bool × Bool) (h : Mir.Gen.tempo.detection ref w est tol = .ok s)
    (h' : Mir.Gen.tempo.detection ref w est tol' = .ok s') :
    s.1 ≤ s'.1 ∧ (s.2.1 = true → s'.2.1 = true) ∧ (s.2.2 = true → s'.2.2 = true) := by
  rw [tempo_detection_eq_model] at h h'
  exact Mir.C07.Tempo.tol_mono ref w est tol tol' ht s s' h h'

end Mir.C07.GenGlue
