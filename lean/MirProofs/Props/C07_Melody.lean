import MirProofs.Lemmas.Melody
/-! C07 (melody): widening `cent_tolerance` never lowers raw pitch accuracy, raw chroma accuracy or overall
    accuracy, and raw pitch accuracy ≤ raw chroma accuracy at every tolerance (the chroma distance of a pitch
    difference never exceeds its absolute value). -/
namespace Mir.C07.Melody
open Mir Mir.Melody

/-- the folded (chroma) distance never exceeds the plain distance -/
theorem chroma_dist_le_abs (d : Rat) : chromaDist d ≤ d.abs := chromaDist_le_abs d

theorem raw_pitch_accuracy_tol_mono {rv rc ev ec : List Rat} {t1 t2 a b : Rat} (ht : t1 ≤ t2)
    (h1 : rawPitchAccuracy rv rc ev ec t1 = .ok a) (h2 : rawPitchAccuracy rv rc ev ec t2 = .ok b) :
    a ≤ b := by
  obtain ⟨hv, _, rfl⟩ := pitchAcc_ok h1
  obtain ⟨_, _, rfl⟩ := pitchAcc_ok h2
  obtain ⟨_, hrv, _⟩ := validVoicingB_iff.1 hv
  refine pitchAccCore_mono ?_ (fun y hy => ((inUnit_iff.1 hrv) y hy).1) rc ec
  intro d _ hd
  simp only [withinTol, decide_eq_true_eq] at hd ⊢
  exact lt_of_lt_of_le hd ht

theorem raw_chroma_accuracy_tol_mono {rv rc ev ec : List Rat} {t1 t2 a b : Rat} (ht : t1 ≤ t2)
    (h1 : rawChromaAccuracy rv rc ev ec t1 = .ok a) (h2 : rawChromaAccuracy rv rc ev ec t2 = .ok b) :
    a ≤ b := by
  obtain ⟨hv, _, rfl⟩ := pitchAcc_ok h1
  obtain ⟨_, _, rfl⟩ := pitchAcc_ok h2
  obtain ⟨_, hrv, _⟩ := validVoicingB_iff.1 hv
  refine pitchAccCore_mono ?_ (fun y hy => ((inUnit_iff.1 hrv) y hy).1) rc ec
  intro d _ hd
  simp only [chromaWithinTol, decide_eq_true_eq] at hd ⊢
  exact lt_of_lt_of_le hd ht

/-- nested criteria: raw pitch accuracy ≤ raw chroma accuracy, for every tolerance -/
theorem raw_pitch_le_raw_chroma {rv rc ev ec : List Rat} {tol a b : Rat}
    (h1 : rawPitchAccuracy rv rc ev ec tol = .ok a) (h2 : rawChromaAccuracy rv rc ev ec tol = .ok b) :
    a ≤ b := by
  obtain ⟨hv, _, rfl⟩ := pitchAcc_ok h1
  obtain ⟨_, _, rfl⟩ := pitchAcc_ok h2
  obtain ⟨_, hrv, _⟩ := validVoicingB_iff.1 hv
  refine pitchAccCore_mono ?_ (fun y hy => ((inUnit_iff.1 hrv) y hy).1) rc ec
  intro d hd0 hd
  simp only [withinTol, chromaWithinTol, decide_eq_true_eq] at hd ⊢
  have := chromaDist_le_abs d
  rw [rabs_of_nonneg hd0] at this
  exact lt_of_le_of_lt this hd

theorem overall_accuracy_tol_mono {rv rc ev ec : List Rat} {t1 t2 a b : Rat} (ht : t1 ≤ t2)
    (h1 : overallAccuracy rv rc ev ec t1 = .ok a) (h2 : overallAccuracy rv rc ev ec t2 = .ok b) :
    a ≤ b := by
  obtain ⟨hv, _, rfl⟩ := overallAccuracy_ok h1
  obtain ⟨_, _, rfl⟩ := overallAccuracy_ok h2
  obtain ⟨_, hrv, hev⟩ := validVoicingB_iff.1 hv
  have hrv0 : ∀ x ∈ rv, 0 ≤ x := fun y hy => ((inUnit_iff.1 hrv) y hy).1
  have hev0 : ∀ x ∈ ev, 0 ≤ x := fun y hy => ((inUnit_iff.1 hev) y hy).1
  unfold oaCore
  split
  · exact le_refl _
  · simp only
    have hmono := oaSum_mono ht hrv0 hev0 rc ec
    have hs := rsum_nonneg hrv0
    have hratio : 0 ≤ (if rsum rv = 0 then 0 else voicedCount rv / rsum rv) := by
      split
      · exact le_refl _
      · exact div_nonneg (voicedCount_nonneg rv) hs
    apply div_le_div_of_nonneg_right _ (by positivity)
    nlinarith

/-- inside one `evaluate()` result raw pitch accuracy ≤ raw chroma accuracy -/
theorem evaluate_rpa_le_rca {rt et : List Rat} {rf ef : List Freq} {ev rr : Option (List Rat)}
    {hop : Option Rat} {kind : Kind} {tol : Rat} {scores : List (String × Rat)}
    (h : evaluate rt rf et ef ev rr hop kind tol = .ok scores) :
    ∃ vr vfa rpa rca oa, scores = [("Voicing Recall", vr), ("Voicing False Alarm", vfa),
      ("Raw Pitch Accuracy", rpa), ("Raw Chroma Accuracy", rca), ("Overall Accuracy", oa)] ∧ rpa ≤ rca := by
  unfold evaluate at h
  split at h
  · cases h
  · unfold scoreAll at h
    split at h; · cases h
    rename_i vr _
    split at h; · cases h
    rename_i vfa _
    split at h; · cases h
    rename_i rpa hrpa
    split at h; · cases h
    rename_i rca hrca
    split at h; · cases h
    rename_i oa _
    simp only [Except.ok.injEq] at h
    exact ⟨vr, vfa, rpa, rca, oa, h.symm, raw_pitch_le_raw_chroma hrpa hrca⟩

/-- widening the tolerance of `evaluate()` leaves the voicing scores alone and never lowers the other three -/
theorem evaluate_tol_mono {rt et : List Rat} {rf ef : List Freq} {ev rr : Option (List Rat)}
    {hop : Option Rat} {kind : Kind} {t1 t2 : Rat} {s1 s2 : List (String × Rat)} (ht : t1 ≤ t2)
    (h1 : evaluate rt rf et ef ev rr hop kind t1 = .ok s1)
    (h2 : evaluate rt rf et ef ev rr hop kind t2 = .ok s2) :
    List.Forall₂ (fun p q => p.1 = q.1 ∧ p.2 ≤ q.2) s1 s2 := by
  unfold evaluate at h1 h2
  split at h1
  · cases h1
  · rename_i cv hcv
    rw [hcv] at h2
    simp only at h2
    unfold scoreAll at h1 h2
    split at h1; · cases h1
    rename_i vr hvr
    rw [hvr] at h2
    split at h1; · cases h1
    rename_i vfa hvfa
    rw [hvfa] at h2
    simp only at h2
    split at h1; · cases h1
    rename_i rpa hrpa
    split at h1; · cases h1
    rename_i rca hrca
    split at h1; · cases h1
    rename_i oa hoa
    split at h2; · cases h2
    rename_i rpa' hrpa'
    split at h2; · cases h2
    rename_i rca' hrca'
    split at h2; · cases h2
    rename_i oa' hoa'
    simp only [Except.ok.injEq] at h1 h2
    subst h1 h2
    refine .cons ⟨rfl, le_refl _⟩ (.cons ⟨rfl, le_refl _⟩ (.cons ⟨rfl, ?_⟩ (.cons ⟨rfl, ?_⟩
      (.cons ⟨rfl, ?_⟩ .nil))))
    · exact raw_pitch_accuracy_tol_mono ht hrpa hrpa'
    · exact raw_chroma_accuracy_tol_mono ht hrca hrca'
    · exact overall_accuracy_tol_mono ht hoa hoa'

/-! non-vacuity: a frame exactly on the (strict) threshold is the one the wider tolerance gains;
    an octave error is the one chroma accuracy forgives -/
example : rawPitchAccuracy [1, 1] [1000, 2000] [1, 1] [1050, 3200] 50 = .ok 0 ∧
    rawPitchAccuracy [1, 1] [1000, 2000] [1, 1] [1050, 3200] 51 = .ok (1/2) ∧
    rawChromaAccuracy [1, 1] [1000, 2000] [1, 1] [1050, 3200] 51 = .ok 1 := by
  refine ⟨by decide +kernel, by decide +kernel, by decide +kernel⟩
example : overallAccuracy [1, 0] [1000, 0] [1, 0] [1050, 0] 50 = .ok (1/2) ∧
    overallAccuracy [1, 0] [1000, 0] [1, 0] [1050, 0] 51 = .ok 1 := by
  refine ⟨by decide +kernel, by decide +kernel⟩

end Mir.C07.Melody
