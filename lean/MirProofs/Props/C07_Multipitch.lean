import MirProofs.Lemmas.MultipitchInvariance
/-! C07 (multipitch part) — a wider window never lowers a score; raw ≤ chroma. -/
open Mir Mir.Multipitch

namespace Mir.C07.Multipitch

/-- per frame: widening the window never loses a true positive (both criteria) -/
theorem frame_count_mono_window (w w' : Rat) (hw : w ≤ w') (chroma : Bool) (r e : List Rat) :
    frameCount w chroma r e ≤ frameCount w' chroma r e := by
  cases chroma
  · exact hitCount_mono (fun a b => rawFeas_mono hw a b) r e
  · exact hitCount_mono (fun a b => chromaFeas_mono hw a b) r e

/-- widening the window never lowers precision, recall or accuracy (raw and chroma); the alignment of the
    estimate does not depend on the window -/
theorem widening_window_never_lowers (rt et : List Rat) (rf ef : Frames) (w w' : Rat) (hw : w ≤ w')
    (hr : rf.length = rt.length) (he : ef.length = et.length) :
    let m := metricsCore rt rf et ef w
    let m' := metricsCore rt rf et ef w'
    (m.1.precision ≤ m'.1.precision ∧ m.1.recall ≤ m'.1.recall ∧ m.1.accuracy ≤ m'.1.accuracy) ∧
    (m.2.precision ≤ m'.2.precision ∧ m.2.recall ≤ m'.2.recall ∧ m.2.accuracy ≤ m'.2.accuracy) := by
  intro m m'
  have e1 : m = metricsCore rt rf et ef w := rfl
  have e2 : m' = metricsCore rt rf et ef w' := rfl
  rw [metricsCore_eq w hr he] at e1
  rw [metricsCore_eq w' hr he] at e2
  rw [e1, e2]
  exact ⟨seven_mono (fun a b => rawFeas_mono hw a b) _, seven_mono (fun a b => chromaFeas_mono hw a b) _⟩

/-- nested criteria: every raw score of agreement is ≤ its chroma counterpart -/
theorem raw_le_chroma (rt et : List Rat) (rf ef : Frames) (w : Rat)
    (hr : rf.length = rt.length) (he : ef.length = et.length) :
    let m := metricsCore rt rf et ef w
    m.1.precision ≤ m.2.precision ∧ m.1.recall ≤ m.2.recall ∧ m.1.accuracy ≤ m.2.accuracy := by
  intro m
  have e1 : m = metricsCore rt rf et ef w := rfl
  rw [metricsCore_eq w hr he] at e1
  rw [e1]
  exact seven_mono (fun a b => raw_imp_chroma w a b) _

/-- the same two facts through `metrics` -/
theorem widening_window_never_lowers_metrics (rt et : List Rat) (rf ef : Frames) (w w' : Rat) (hw : w ≤ w')
    (m m' : Seven × Seven) (h : metrics rt rf et ef w = .ok m) (h' : metrics rt rf et ef w' = .ok m') :
    (m.1.precision ≤ m'.1.precision ∧ m.1.recall ≤ m'.1.recall ∧ m.1.accuracy ≤ m'.1.accuracy) ∧
    (m.2.precision ≤ m'.2.precision ∧ m.2.recall ≤ m'.2.recall ∧ m.2.accuracy ≤ m'.2.accuracy) ∧
    (m.1.precision ≤ m.2.precision ∧ m.1.recall ≤ m.2.recall ∧ m.1.accuracy ≤ m.2.accuracy) := by
  obtain ⟨rfl, hr, he⟩ := metrics_ok h
  obtain ⟨rfl, _, _⟩ := metrics_ok h'
  have := widening_window_never_lowers rt et rf ef w w' hw hr he
  exact ⟨this.1, this.2, raw_le_chroma rt et rf ef w hr he⟩

/-- non-vacuity: the hypotheses are satisfiable with windows 1/4 ≤ 1/2 -/
example : valid [0, 1] [[60, 64], [67]] [0, 1 / 2, 1] [[60], [], [79]] = true ∧ (1 / 4 : Rat) ≤ 1 / 2 := by
  constructor <;> decide +kernel

end Mir.C07.Multipitch
