import MirProofs.Lemmas.Onset
/-!
  C07 (onset) — widening the window never lowers F, precision or recall (and never turns a result into
  an error or vice versa).
-/
namespace Mir.C07.Onset
open Mir.Onset Mir.MiscStats

theorem f_measure_window_mono (ref est : List Rat) (w w' : Rat) (hw : w ≤ w') (s s' : Rat × Rat × Rat)
    (h : Onset.fMeasure ref est w = .ok s) (h' : Onset.fMeasure ref est w' = .ok s') :
    s.1 ≤ s'.1 ∧ s.2.1 ≤ s'.2.1 ∧ s.2.2 ≤ s'.2.2 := by
  have hv := validate_of_fMeasure_ok h
  rw [fMeasure_of_valid w hv] at h
  rw [fMeasure_of_valid w' hv] at h'
  cases h; cases h'
  have := hitPRF_feas_mono (ww_mono hw) ref est 1
  exact ⟨this.2.2, this.1, this.2.1⟩

/-- whether the call succeeds does not depend on the window -/
theorem f_measure_defined_any_window (ref est : List Rat) (w w' : Rat) :
    (∃ s, Onset.fMeasure ref est w = .ok s) ↔ ∃ s', Onset.fMeasure ref est w' = .ok s' := by
  constructor
  · rintro ⟨s, h⟩; exact ⟨_, fMeasure_of_valid w' (validate_of_fMeasure_ok h)⟩
  · rintro ⟨s, h⟩; exact ⟨_, fMeasure_of_valid w (validate_of_fMeasure_ok h)⟩

/-! non-vacuity: strict improvement when the window grows from 1/4 to 1/2 -/
example : Onset.fMeasure [0, 1] [1 / 2] (1 / 4) = .ok (0, 0, 0) := by
  rw [fMeasure_of_valid _ (by decide +kernel), hitPRF_eq_brute]; decide +kernel
example : Onset.fMeasure [0, 1] [1 / 2] (1 / 2) = .ok (2 / 3, 1, 1 / 2) := by
  rw [fMeasure_of_valid _ (by decide +kernel), hitPRF_eq_brute]; decide +kernel

end Mir.C07.Onset
