import MirProofs.Lemmas.Tempo
/-!
  C07 (tempo) — a larger tolerance never lowers the P-score and never clears a flag; both-correct implies
  one-correct.
-/
namespace Mir.C07.Tempo
open Mir.Tempo Mir.MiscStats

theorem tol_mono (ref : List Rat) (w : Rat) (est : List Rat) (tol tol' : Rat) (ht : tol ≤ tol')
    (s s' : Rat × Bool × Bool) (h : detection ref w est tol = .ok s) (h' : detection ref w est tol' = .ok s') :
    s.1 ≤ s'.1 ∧ (s.2.1 = true → s'.2.1 = true) ∧ (s.2.2 = true → s'.2.2 = true) := by
  obtain ⟨r0, r1, e0, e1, rfl, rfl, hv, ht0, ht1, hw0, hw1⟩ := detection_ok_inv h
  obtain ⟨_, _, _, _, _, _, -, ht0', ht1', -, -⟩ := detection_ok_inv h'
  rw [detection_of_valid hv ht0 ht1] at h
  rw [detection_of_valid hv ht0' ht1'] at h'
  cases h; cases h'
  have m0 := hit_mono (r := r0) (e0 := e0) (e1 := e1) ht
  have m1 := hit_mono (r := r1) (e0 := e0) (e1 := e1) ht
  have hw1' : 0 ≤ 1 - w := by linarith
  refine ⟨?_, ?_, ?_⟩
  · simp only
    have a := mul_le_mul_of_nonneg_left (b2r_mono m0) hw0
    have b := mul_le_mul_of_nonneg_left (b2r_mono m1) hw1'
    linarith
  · simp only [Bool.or_eq_true]
    rintro (h | h)
    · exact Or.inl (m0 h)
    · exact Or.inr (m1 h)
  · simp only [Bool.and_eq_true]
    rintro ⟨h, h'⟩
    exact ⟨m0 h, m1 h'⟩

theorem both_imp_one (ref : List Rat) (w : Rat) (est : List Rat) (tol : Rat) (s : Rat × Bool × Bool)
    (h : detection ref w est tol = .ok s) : s.2.2 = true → s.2.1 = true := by
  obtain ⟨r0, r1, e0, e1, rfl, rfl, hv, ht0, ht1, -, -⟩ := detection_ok_inv h
  rw [detection_of_valid hv ht0 ht1] at h
  cases h
  simp only [Bool.and_eq_true, Bool.or_eq_true]
  exact fun h => Or.inl h.1

/-! non-vacuity: the same input at tol 1/25 and 2/25 -/
example : detection [100, 50] (1 / 2) [108, 0] (1 / 25) = .ok (0, false, false) := by decide +kernel
example : detection [100, 50] (1 / 2) [108, 0] (2 / 25) = .ok (1 / 2, true, false) := by decide +kernel

end Mir.C07.Tempo
