import MirProofs.Lemmas.Transcription
/-!
  C07 (transcription part) — widening the onset, pitch or offset tolerance (`offset_ratio`,
  `offset_min_tolerance`), dropping the offset criterion, relaxing `strict`, or widening the velocity tolerance never
  lowers precision, recall or F; and the nested criteria are ordered:
  with offsets ≤ without offsets ≤ onset only, with velocity ≤ without.
-/
namespace Mir.C07.Transcription
open Mir.Transcription

/-- Every way of loosening the note criterion (`Looser`: larger onset / pitch / offset-ratio / offset-minimum
    tolerance, offsets dropped, `strict=True → False`, in any combination) keeps or raises P, R and F. -/
theorem prf_overlap_widen (refI estI : List Ival) (refP estP : List Rat) (p q : Params) (hl : Looser p q)
    (beta : Rat) (a b : Rat × Rat × Rat × Rat)
    (ha : precisionRecallF1Overlap refI refP estI estP p beta = .ok a)
    (hb : precisionRecallF1Overlap refI refP estI estP q beta = .ok b) : PRFLe a b := by
  have hv := (validate_ok (precisionRecallF1Overlap_ok ha).1).1
  have h := hitPRF_mono_mem (feas := noteHit p) (feas' := noteHit q) (refI.zip refP) (estI.zip estP) beta
    (fun r hr e _ hf => noteHit_loosen hl r e (ref_notes_valid hv r hr) hf)
  rw [← prfOverlap_eq_hitPRF ha, ← prfOverlap_eq_hitPRF hb] at h
  exact h

/-- nested criteria I: matching with offsets never scores higher than matching without offsets -/
theorem with_offsets_le_without (refI estI : List Ival) (refP estP : List Rat) (p : Params) (beta : Rat)
    (a b : Rat × Rat × Rat × Rat)
    (ha : precisionRecallF1Overlap refI refP estI estP p beta = .ok a)
    (hb : precisionRecallF1Overlap refI refP estI estP { p with offsetRatio := none } beta = .ok b) : PRFLe a b := by
  have h := hitPRF_mono_mem (feas := noteHit p) (feas' := noteHit { p with offsetRatio := none })
    (refI.zip refP) (estI.zip estP) beta (fun r _ e _ hf => noteHit_drop_offset p r e hf)
  rw [← prfOverlap_eq_hitPRF ha, ← prfOverlap_eq_hitPRF hb] at h
  exact h

/-- nested criteria II: note matching (with or without offsets) never scores higher than onset-only matching -/
theorem notes_le_onset_only (refI estI : List Ival) (refP estP : List Rat) (p : Params) (beta : Rat)
    (a : Rat × Rat × Rat × Rat) (c : Rat × Rat × Rat)
    (ha : precisionRecallF1Overlap refI refP estI estP p beta = .ok a)
    (hc : onsetPRF refI estI p.onsetTol p.strict beta = .ok c) :
    a.1 ≤ c.1 ∧ a.2.1 ≤ c.2.1 ∧ a.2.2.1 ≤ c.2.2 := by
  obtain ⟨_, _, hlr, hle⟩ := validate_ok (precisionRecallF1Overlap_ok ha).1
  have h := hitPRF_mono_mem (feas := noteHit p)
    (feas' := fun (r e : Note) => onsetHit p.onsetTol p.strict r.1 e.1)
    (refI.zip refP) (estI.zip estP) beta (fun r _ e _ hf => noteHit_onset p r e hf)
  have hm := hitPRF_map (feas := fun (r e : Note) => onsetHit p.onsetTol p.strict r.1 e.1)
    (feas' := onsetHit p.onsetTol p.strict) Prod.fst Prod.fst (fun _ _ => rfl) (refI.zip refP) (estI.zip estP) beta
  rw [List.map_fst_zip (le_of_eq hlr), List.map_fst_zip (le_of_eq hle)] at hm
  rw [← hm, ← prfOverlap_eq_hitPRF ha, ← onsetPRF_eq_hitPRF hc] at h
  exact h

/-- widening the onset tolerance / relaxing `strict` for `onset_precision_recall_f1` -/
theorem onset_prf_widen (refI estI : List Ival) (t t' beta : Rat) (s s' : Bool) (ht : t ≤ t')
    (hs : s' = true → s = true) (a b : Rat × Rat × Rat)
    (ha : onsetPRF refI estI t s beta = .ok a) (hb : onsetPRF refI estI t' s' beta = .ok b) : TripleLe a b := by
  rw [onsetPRF_eq_hitPRF ha, onsetPRF_eq_hitPRF hb]
  exact hitPRF_mono_mem _ _ beta (fun r _ e _ hf => onsetHit_loosen hs ht r e hf)

/-- widening `offset_ratio` / `offset_min_tolerance` / relaxing `strict` for `offset_precision_recall_f1` -/
theorem offset_prf_widen (refI estI : List Ival) (ρ ρ' m m' beta : Rat) (s s' : Bool) (hρ : ρ ≤ ρ') (hm : m ≤ m')
    (hs : s' = true → s = true) (a b : Rat × Rat × Rat)
    (ha : offsetPRF refI estI ρ m s beta = .ok a) (hb : offsetPRF refI estI ρ' m' s' beta = .ok b) :
    TripleLe a b := by
  have hv := (validateIntervals_ok (offsetPRF_ok ha).1).1
  rw [offsetPRF_eq_hitPRF ha, offsetPRF_eq_hitPRF hb]
  exact hitPRF_mono_mem _ _ beta (fun r hr e _ hf => offsetHit_loosen hs hρ hm r e (le_of_lt (hv r hr).2) hf)

/-- nested criteria III: requiring the velocity as well never raises P, R or F -/
theorem with_velocity_le_without (refI estI : List Ival) (refP refV estP estV : List Rat) (p : Params)
    (vt beta : Rat) (a b : Rat × Rat × Rat × Rat)
    (ha : velPRFOverlap refI refP refV estI estP estV p vt beta = .ok a)
    (hb : precisionRecallF1Overlap refI refP estI estP p beta = .ok b) : PRFLe a b := by
  refine prf_of_sublist (f := matchNotes refI refP estI estP p) ha ?_ ?_
  · rcases (precisionRecallF1Overlap_ok hb).2 with h | ⟨he, M, c, hm, _, hbe⟩
    · exact Or.inl h
    · exact Or.inr ⟨he, M, c, hm, hbe⟩
  · intro M' M hm' hm
    obtain ⟨N, hN, hsub⟩ := velMatchNotes_sublist hm'
    rw [hm] at hN; cases hN
    exact hsub.length_le

/-- widening the velocity tolerance never lowers P, R or F (the regression does not depend on the tolerance) -/
theorem velocity_tolerance_widen (refI estI : List Ival) (refP refV estP estV : List Rat) (p : Params)
    (vt vt' beta : Rat) (hvt : vt ≤ vt') (a b : Rat × Rat × Rat × Rat)
    (ha : velPRFOverlap refI refP refV estI estP estV p vt beta = .ok a)
    (hb : velPRFOverlap refI refP refV estI estP estV p vt' beta = .ok b) : PRFLe a b := by
  refine prf_of_sublist (f := velMatchNotes refI refP refV estI estP estV p vt') ha ?_ ?_
  · rcases (velPRFOverlap_ok hb).2 with h | ⟨he, M, c, hm, _, hbe⟩
    · exact Or.inl h
    · exact Or.inr ⟨he, M, c, hm, hbe⟩
  · intro M' M hm' hm
    exact (velMatchNotes_mono hvt hm' hm).length_le

/-! non-vacuity: the default criterion is strictly looser than a strict one with smaller tolerances -/
example : Looser { onsetTol := 1 / 32, pitchTol := 25, offsetRatio := some (1 / 8), strict := true } {} :=
  ⟨by decide +kernel, by decide +kernel, by decide +kernel, by decide, by decide +kernel⟩
example : Looser {} { offsetRatio := none } :=
  ⟨by decide +kernel, by decide +kernel, by decide +kernel, by decide, trivial⟩

end Mir.C07.Transcription
