import MirProofs.Lemmas.EventWindow
/-! C08 — scores ignore time origin and item order: shared part. -/
namespace Mir.C08

/-- Adding the same offset to every reference and estimated time leaves windowed hit counts — hence
    precision, recall and F — unchanged. -/
theorem event_hits_shift (w c : Rat) (ref est : List Rat) :
    hitCount (withinWindow w) (ref.map (· + c)) (est.map (· + c)) = hitCount (withinWindow w) ref est :=
  hitCount_map (· + c) (· + c) (fun r e => withinWindow_shift w c r e) ref est

theorem event_prf_shift (w c : Rat) (ref est : List Rat) (beta : Rat) :
    hitPRF (withinWindow w) (ref.map (· + c)) (est.map (· + c)) beta = hitPRF (withinWindow w) ref est beta := by
  unfold hitPRF
  simp only [List.isEmpty_map, List.length_map, event_hits_shift]

/-- Any transformation of the items that the criterion cannot see leaves the hit count unchanged. -/
theorem hits_invariant {α β α' β' : Type} {feas : α → β → Bool} {feas' : α' → β' → Bool} (f : α → α') (g : β → β')
    (h : ∀ r e, feas' (f r) (g e) = feas r e) (ref : List α) (est : List β) :
    hitCount feas' (ref.map f) (est.map g) = hitCount feas ref est :=
  hitCount_map f g h ref est

/-- Supplying the reference items or the estimated items in any other order leaves the hit count
    (and the list lengths, hence precision / recall / F) unchanged. -/
theorem hits_perm {α β : Type} (feas : α → β → Bool) {ref ref' : List α} {est est' : List β}
    (hr : ref.Perm ref') (he : est.Perm est') :
    hitCount feas ref' est' = hitCount feas ref est ∧ ref'.length = ref.length ∧ est'.length = est.length := by
  refine ⟨?_, hr.length_eq.symm, he.length_eq.symm⟩
  rw [hitCount_perm_ref feas hr est', hitCount_perm_est feas ref he]

example : ([1, 2, 3] : List Nat).Perm [3, 1, 2] := by decide

end Mir.C08
