import MirProofs.Lemmas.Alignment
/-!
  C08 (alignment) — adding the same offset to every reference and estimated timestamp (all timestamps
  staying ≥ 0, which the module requires) leaves the MIREX-style PCS (`duration=None`), the absolute errors
  and percentage_correct unchanged.
-/
namespace Mir.C08.Alignment
open Mir.Alignment Mir.MiscStats

theorem validate_shift (ref est : List Rat) (c : Rat) (h0 : ∀ t ∈ ref ++ est, 0 ≤ t ∧ 0 ≤ t + c) :
    validate (ref.map (· + c)) (est.map (· + c)) = validate ref est := by
  have key : validate (ref.map (· + c)) (est.map (· + c)) = .ok () ↔ validate ref est = .ok () := by
    rw [validate_ok_iff, validate_ok_iff, zip_tail_map, zip_tail_map]
    simp only [List.length_map, ne_eq, List.map_eq_nil_iff, List.mem_map, forall_exists_index, and_imp,
      forall_apply_eq_imp_iff₂, Prod.map_fst, Prod.map_snd, add_le_add_iff_right]
    constructor
    · rintro ⟨a, b, c1, c2, _, _⟩
      exact ⟨a, b, c1, c2, fun t ht => (h0 t (List.mem_append_left _ ht)).1,
        fun t ht => (h0 t (List.mem_append_right _ ht)).1⟩
    · rintro ⟨a, b, c1, c2, _, _⟩
      exact ⟨a, b, c1, c2, fun t ht => (h0 t (List.mem_append_left _ ht)).2,
        fun t ht => (h0 t (List.mem_append_right _ ht)).2⟩
  rcases validate_cases (ref.map (· + c)) (est.map (· + c)) with h1 | h1 <;>
    rcases validate_cases ref est with h2 | h2
  · rw [h1, h2]
  · rw [key.1 h1] at h2; cases h2
  · rw [key.2 h2] at h1; cases h1
  · rw [h1, h2]

theorem pcs_mirex_shift (ref est : List Rat) (c : Rat) (h0 : ∀ t ∈ ref ++ est, 0 ≤ t ∧ 0 ≤ t + c) :
    percentageCorrectSegments (ref.map (· + c)) (est.map (· + c)) none =
      percentageCorrectSegments ref est none := by
  unfold percentageCorrectSegments
  rw [validate_shift ref est c h0]
  simp only [List.getLast?_map, List.head?_map, segsMirex_map, overlapDur_shift]
  cases ref.getLast? <;> cases ref.head? <;> simp

theorem abs_err_shift (ref est : List Rat) (c : Rat) (h0 : ∀ t ∈ ref ++ est, 0 ≤ t ∧ 0 ≤ t + c) :
    absoluteError (ref.map (· + c)) (est.map (· + c)) = absoluteError ref est := by
  unfold absoluteError
  rw [validate_shift ref est c h0, deviations_shift]

theorem pc_shift (ref est : List Rat) (w c : Rat) (h0 : ∀ t ∈ ref ++ est, 0 ≤ t ∧ 0 ≤ t + c) :
    percentageCorrect (ref.map (· + c)) (est.map (· + c)) w = percentageCorrect ref est w := by
  unfold percentageCorrect
  rw [validate_shift ref est c h0, deviations_shift]

/-! non-vacuity -/
example : percentageCorrectSegments ([1, 2, 4].map (· + 10)) ([1, 5 / 2, 4].map (· + 10)) none = .ok (5 / 6) := by
  decide +kernel
example : absoluteError ([1, 2, 4].map (· + 10)) ([1, 5 / 2, 4].map (· + 10)) = .ok (some 0, some (1 / 6)) := by
  decide +kernel

end Mir.C08.Alignment
