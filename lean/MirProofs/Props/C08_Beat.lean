import MirProofs.Lemmas.Beat
/-!
  C08 (beat) — adding the same offset to all reference and estimated beat times leaves the beat scores
  unchanged.  (`validate` rejects times above 30000 s, so the statements are about the scores proper; the
  trimming of `evaluate` commutes with the shift when the trim time is shifted as well, `trim_shift`.)
  The Cemgil statement holds for *every* interpretation of exp / arithmetic, in particular for the `Float`
  instance the driver runs.
-/
namespace Mir.C08.Beat
open Mir.Beat

theorem trim_shift (c t : Rat) (l : List Rat) :
    trimBeats (l.map (· + c)) (t + c) = (trimBeats l t).map (· + c) := trimBeats_shift c t l

theorem f_measure_shift (c : Rat) (ref est : List Rat) (thr : Rat) :
    fMeasureCore (ref.map (· + c)) (est.map (· + c)) thr = fMeasureCore ref est thr :=
  fMeasureCore_shift c ref est thr

theorem variations_shift (c : Rat) (ref : List Rat) :
    variations (ref.map (· + c)) = (variations ref).map (List.map (· + c)) := Mir.Beat.variations_shift c ref

theorem cemgil_shift {α : Type} (T : TOps α) (c : Rat) (ref est : List Rat) (sigma : Rat) :
    cemgilCore T (ref.map (· + c)) (est.map (· + c)) sigma = cemgilCore T ref est sigma :=
  cemgilCore_shift T sigma c ref est

theorem goto_shift (c : Rat) (ref est : List Rat) (thr mu sigma : Rat) :
    gotoCore (ref.map (· + c)) (est.map (· + c)) thr mu sigma = gotoCore ref est thr mu sigma :=
  gotoCore_shift c ref est thr mu sigma

theorem p_score_shift (c : Rat) (ref est : List Rat) (thr : Rat) :
    pScoreCore (ref.map (· + c)) (est.map (· + c)) thr = pScoreCore ref est thr :=
  pScoreCore_shift c ref est thr

theorem continuity_shift (c : Rat) (ref est : List Rat) (p q : Rat) :
    continuityCore (ref.map (· + c)) (est.map (· + c)) p q = continuityCore ref est p q :=
  continuityCore_shift c ref est p q

/-- information gain: the histogrammed errors, hence the score, for every interpretation of log2 (incl. `Float`) -/
theorem information_gain_shift {α : Type} (T : TOps α) (c : Rat) (ref est : List Rat) (bins : Nat) :
    informationGainCore T (ref.map (· + c)) (est.map (· + c)) bins = informationGainCore T ref est bins :=
  informationGainCore_shift T c ref est bins

/-! non-vacuity -/
example : continuityCore ([5, 6, 7, 8].map (· + 2)) ([5, 6, 7, 17 / 2].map (· + 2)) (7 / 40) (7 / 40) =
    .ok (3 / 4, 3 / 4, 3 / 4, 3 / 4) := by decide +kernel
example : beatErrors [5, 6, 7] [21 / 4, 6] = .ok [1 / 4, 0] := by decide +kernel
example : pScoreCore ([5, 6, 7].map (· + 3)) ([5, 6, 15 / 2].map (· + 3)) (1 / 5) = 2 / 3 := by decide +kernel
example : gotoCore [5, 6, 7, 8, 9] [5, 6, 7, 8, 9] (7 / 20) (1 / 5) (1 / 5) = .ok (1, false) := by decide +kernel

end Mir.C08.Beat
