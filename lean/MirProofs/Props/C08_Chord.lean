import MirProofs.Lemmas.ChordShift
/-!
  C08 — chord: scores ignore the time origin.

  `shiftLI d` / `shiftP d` add `d` to every time of an annotation / interval array.  Every stage of `chord.evaluate`
  commutes with the shift (`adjust_intervals`, `merge_chord_intervals`, `merge_labeled_intervals`) or is invariant
  under it (durations, `weighted_accuracy`, `directional_hamming_distance`), the only time-origin dependent step
  being `validate_intervals`' rejection of negative times.  Hence: for every comparison function, every no-chord
  token, every reference whose times are non-negative before and after the shift, and EVERY estimate (valid or
  not — it is cropped and clipped to the reference span), the result of `chord.evaluate` — four scores or the
  exception — is unchanged.
-/
namespace Mir.C08.Chord
open Mir Mir.Iv

/-- `util.adjust_intervals` commutes with the shift (all inputs) -/
theorem adjust_intervals_shift {L : Type} (a b d : Rat) (sl el : L) (xs : LI L) :
    adjustIntervals (shiftLI d xs) (some (a + d)) (some (b + d)) sl el
      = (adjustIntervals xs (some a) (some b) sl el).map (shiftLI d) :=
  adjustIntervals_shift a b d sl el xs

/-- `chord.merge_chord_intervals` commutes with the shift -/
theorem merge_chord_shift {T : Type} [DecidableEq T] (d : Rat) (xs : LI T) :
    mergeChord (shiftLI d xs) = shiftP d (mergeChord xs) := mergeChord_shift d xs

/-- `util.merge_labeled_intervals` commutes with the shift (all inputs, exceptions included) -/
theorem merge_labeled_shift {L M : Type} (d : Rat) (x : LI L) (y : LI M) :
    mergeLabeled (shiftLI d x) (shiftLI d y) = (mergeLabeled x y).map (List.map (shiftRow d)) :=
  mergeLabeled_shift d x y

/-- a chord accuracy is unchanged (both annotations with times `≥ a`, `a` and `a + d` non-negative) -/
theorem chord_score_shift {L M : Type} (cmp : L → M → Rat) {a d : Rat} {x : LI L} {y : LI M} (h0 : 0 ≤ a)
    (h0d : 0 ≤ a + d) (hx : LB a x) (hy : LB a y) :
    chordScore cmp (shiftLI d x) (shiftLI d y) = chordScore cmp x y :=
  chordScore_shift cmp h0 h0d hx hy

/-- `directional_hamming_distance` (hence over-, under-segmentation, `seg`) is unchanged -/
theorem dhd_shift {a d : Rat} {ref est : Ivals} (h0 : 0 ≤ a) (h0d : 0 ≤ a + d) (hr : LBP a ref) (he : LBP a est) :
    dhd (shiftP d ref) (shiftP d est) = dhd ref est := Iv.dhd_shift h0 h0d hr he

theorem seg_scores_shift {a d : Rat} {ref est : Ivals} (h0 : 0 ≤ a) (h0d : 0 ≤ a + d) (hr : LBP a ref)
    (he : LBP a est) :
    overseg (shiftP d ref) (shiftP d est) = overseg ref est
    ∧ underseg (shiftP d ref) (shiftP d est) = underseg ref est
    ∧ seg (shiftP d ref) (shiftP d est) = seg ref est := by
  have h1 := Iv.dhd_shift h0 h0d hr he
  have h2 := Iv.dhd_shift h0 h0d he hr
  refine ⟨?_, ?_, ?_⟩
  · unfold overseg; rw [h1]
  · unfold underseg; rw [h2]
  · unfold seg underseg overseg; rw [h1, h2]

/-- **the whole `chord.evaluate` pipeline is invariant under a common time offset** -/
theorem evaluate_shift {T : Type} [DecidableEq T] (cmp : T → T → Rat) (noChord : T) (ref est : LI T) (d : Rat)
    (h0 : LB 0 ref) (h0d : LB 0 (shiftLI d ref)) :
    evaluateTokens cmp noChord (shiftLI d ref) (shiftLI d est) = evaluateTokens cmp noChord ref est :=
  evaluateTokens_shift cmp noChord ref est d h0 h0d

/-- in particular for every non-negative offset -/
theorem evaluate_shift_nonneg {T : Type} [DecidableEq T] (cmp : T → T → Rat) (noChord : T) (ref est : LI T)
    (d : Rat) (hd : 0 ≤ d) (h0 : LB 0 ref) :
    evaluateTokens cmp noChord (shiftLI d ref) (shiftLI d est) = evaluateTokens cmp noChord ref est := by
  apply evaluate_shift cmp noChord ref est d h0
  intro x hx
  obtain ⟨y, hy, rfl⟩ := List.mem_map.1 hx
  have := h0 y hy
  exact ⟨by simp only; linarith [this.1], by simp only; linarith [this.2]⟩

/-- non-vacuity: offset 5/2 (estimate starting before the reference and ending after it); and why the
    non-negativity hypothesis is there: moving the reference below 0 makes `validate_intervals` reject it -/
example :
    let c : Int → Int → Rat := fun a b => if a = b then 1 else 0
    evaluateTokens c (-1) [((1 : Rat), (3 : Rat), 7), (3, 5, 9)] [((0 : Rat), (4 : Rat), 7), (4, 6, 9)]
      = .ok [.val (3/4), .val (3/4), .val (3/4), .val (3/4)]
    ∧ shiftLI (5/2) [((1 : Rat), (3 : Rat), (7 : Int)), (3, 5, 9)] = [(7/2, 11/2, 7), (11/2, 15/2, 9)]
    ∧ evaluateTokens c (-1) [((7/2 : Rat), (11/2 : Rat), 7), (11/2, 15/2, 9)] [((5/2 : Rat), (13/2 : Rat), 7), (13/2, 17/2, 9)]
      = .ok [.val (3/4), .val (3/4), .val (3/4), .val (3/4)]
    ∧ evaluateTokens c (-1) [((-1 : Rat), (1 : Rat), 7), (1, 3, 9)] [((-2 : Rat), (2 : Rat), 7), (2, 4, 9)]
      = .error .valueError := by
  refine ⟨by decide +kernel, by decide +kernel, by decide +kernel, by decide +kernel⟩

end Mir.C08.Chord
