import MirProofs.Lemmas.HierarchyRel
/-!
  C08 — hierarchy: scores ignore segment label names.

  `lmeasure` reads labels only through `_meet`, which compares the case-folded labels of two segments OF THE SAME
  LEVEL OF THE SAME ANNOTATION for equality.  So any renaming `σ` that keeps, inside every level, the
  equal / different pattern of the case-folded labels (`(σ a).lower() = (σ b).lower() ↔ a.lower() = b.lower()`, e.g.
  an injective renaming of lower-case names) leaves the meet matrices — hence L-precision, L-recall, L-measure,
  and every exception — unchanged; reference and estimate may be renamed independently.
  `tmeasure` has no label argument at all (model and code): the T-measures cannot depend on labels.
-/
namespace Mir.C08.Hierarchy
open Mir Mir.Hierarchy

/-- the meet (label-agreement depth) matrix is unchanged by a renaming that preserves label equality inside every
    level; any hierarchy, any labels (also too short / too long ones: same exception) -/
theorem meet_relabel (h : Hier) (labels : List (List String)) (fs : Rat) (σ : String → String)
    (hσ : ∀ lv ∈ labels, ∀ a ∈ lv, ∀ b ∈ lv, ((σ a).toLower = (σ b).toLower ↔ a.toLower = b.toLower)) :
    meet h (labels.map fun lv => lv.map σ) fs = meet h labels fs :=
  Mir.Hierarchy.meet_relabel h labels fs σ hσ

/-- **L-measure is invariant under independent label renamings of the reference and of the estimate**
    (value or exception, all inputs, all `frame_size`, `beta`) -/
theorem lmeasure_relabel (ref est : Hier) (rls els : List (List String)) (fs beta : Rat)
    (σr σe : String → String)
    (hr : ∀ lv ∈ rls, ∀ a ∈ lv, ∀ b ∈ lv, ((σr a).toLower = (σr b).toLower ↔ a.toLower = b.toLower))
    (he : ∀ lv ∈ els, ∀ a ∈ lv, ∀ b ∈ lv, ((σe a).toLower = (σe b).toLower ↔ a.toLower = b.toLower)) :
    lmeasure ref (rls.map fun lv => lv.map σr) est (els.map fun lv => lv.map σe) fs beta
      = lmeasure ref rls est els fs beta :=
  Mir.Hierarchy.lmeasure_relabel ref est rls els fs beta σr σe hr he

/-- in particular for a renaming that is injective up to case on all strings -/
theorem lmeasure_relabel_injective (ref est : Hier) (rls els : List (List String)) (fs beta : Rat)
    (σr σe : String → String)
    (hr : ∀ a b, (σr a).toLower = (σr b).toLower ↔ a.toLower = b.toLower)
    (he : ∀ a b, (σe a).toLower = (σe b).toLower ↔ a.toLower = b.toLower) :
    lmeasure ref (rls.map fun lv => lv.map σr) est (els.map fun lv => lv.map σe) fs beta
      = lmeasure ref rls est els fs beta :=
  Mir.Hierarchy.lmeasure_relabel ref est rls els fs beta σr σe (fun _ _ a _ b _ => hr a b) (fun _ _ a _ b _ => he a b)

/-- the intervals returned by `util.adjust_intervals` (as `hierarchy.evaluate` calls it) are a function of the
    intervals alone: `adjustIvs` never mentions a label -/
theorem adjust_intervals_ignore_labels (iv : Ivals) (labs : List String) (tmin : Rat) (tmax : Option Rat) :
    (adjustIntervals iv labs tmin tmax).map (·.1) = adjustIvs iv tmin tmax :=
  adjustIntervals_fst iv labs tmin tmax

/-- **the T-measures do not read labels**: `tmeasure` has no label argument, and in `hierarchy.evaluate` the six
    T entries (`T-Precision/Recall/Measure reduced` and `full`) are the same for ANY two labellings with the same
    number of labelled levels — no hypothesis on the label contents at all -/
theorem evaluate_T_ignores_labels (ref est : Hier) (rl rl' el el' : List (List String)) (window : Option Rat)
    (fs beta : Rat) (hr : rl.length = rl'.length) (he : el.length = el'.length)
    {out out' : List (String × Rat)} (h : evaluate ref rl est el window fs beta = .ok out)
    (h' : evaluate ref rl' est el' window fs beta = .ok out') : out.take 6 = out'.take 6 :=
  evaluate_T_labels ref est rl rl' el el' window fs beta hr he h h'

/-- non-vacuity: renaming `a ↦ verse, b ↦ chorus` in the reference only; the hypothesis is needed: a renaming
    that merges two labels (up to case) changes the score -/
example :
    lmeasure [[(0, 4)], [(0, 2), (2, 4)]] [["x"], ["a", "b"]] [[(0, 4)], [(0, 1), (1, 4)]] [["y"], ["b", "c"]] 1 1
      = .ok (1/3, 1/4, 2/7)
    ∧ lmeasure [[(0, 4)], [(0, 2), (2, 4)]] [["x"], ["verse", "chorus"]] [[(0, 4)], [(0, 1), (1, 4)]]
        [["y"], ["b", "c"]] 1 1 = .ok (1/3, 1/4, 2/7)
    ∧ lmeasure [[(0, 4)], [(0, 2), (2, 4)]] [["x"], ["a", "A"]] [[(0, 4)], [(0, 1), (1, 4)]] [["y"], ["b", "c"]] 1 1
      = .ok (0, 0, 0) := by
  refine ⟨by decide +kernel, by decide +kernel, by decide +kernel⟩

/-- non-vacuity of `evaluate_T_ignores_labels`: two unrelated labellings, same T entries, different L entries -/
example :
    evaluate [[(0, 4)], [(0, 2), (2, 4)]] [["x"], ["a", "b"]] [[(0, 4)], [(0, 1), (1, 4)]] [["y"], ["b", "c"]] none 1 1
      = .ok [("T-Precision reduced", 1/3), ("T-Recall reduced", 1/4), ("T-Measure reduced", 2/7),
             ("T-Precision full", 1/3), ("T-Recall full", 1/4), ("T-Measure full", 2/7),
             ("L-Precision", 1/3), ("L-Recall", 1/4), ("L-Measure", 2/7)]
    ∧ evaluate [[(0, 4)], [(0, 2), (2, 4)]] [["x"], ["a", "a"]] [[(0, 4)], [(0, 1), (1, 4)]] [["y"], ["q", "q"]] none 1 1
      = .ok [("T-Precision reduced", 1/3), ("T-Recall reduced", 1/4), ("T-Measure reduced", 2/7),
             ("T-Precision full", 1/3), ("T-Recall full", 1/4), ("T-Measure full", 2/7),
             ("L-Precision", 0), ("L-Recall", 0), ("L-Measure", 0)] := by
  refine ⟨by decide +kernel, by decide +kernel⟩

end Mir.C08.Hierarchy
