import MirProofs.Lemmas.MultipitchInvariance
import Mathlib.Data.List.Perm.Basic
/-! C08 (multipitch part) — scores ignore the time origin and the order of the pitches inside a frame. -/
open Mir Mir.Multipitch

namespace Mir.C08.Multipitch

/-- nearest-frame resampling is translation invariant: same frames after adding `c` to every time stamp -/
theorem resample_shift_invariant (c : Rat) (ts : List Rat) (fs : Frames) (tg : List Rat) :
    resampleCore (ts.map (· + c)) fs (tg.map (· + c)) = resampleCore ts fs tg :=
  resampleCore_shift c ts fs tg

/-- Adding the same offset to all reference and estimate times leaves all 14 scores unchanged, provided the
    offset does not flip the code's "time bases differ" guard (`np.allclose` has a relative tolerance, which
    is not translation invariant; see the two corollaries for the cases where the guard cannot flip). -/
theorem time_shift_invariant (c : Rat) (rt et : List Rat) (rf ef : Frames) (w : Rat)
    (hg : timeBasesDiffer (rt.map (· + c)) (et.map (· + c)) = timeBasesDiffer rt et) :
    metricsCore (rt.map (· + c)) rf (et.map (· + c)) ef w = metricsCore rt rf et ef w := by
  unfold metricsCore alignedEst
  rw [hg, resampleCore_shift]

/-- identical time bases: never resampled, before or after the shift -/
theorem time_shift_invariant_common_time_base (c : Rat) (t : List Rat) (rf ef : Frames) (w : Rat) :
    metricsCore (t.map (· + c)) rf (t.map (· + c)) ef w = metricsCore t rf t ef w :=
  time_shift_invariant c t t rf ef w (by rw [timeBasesDiffer_self, timeBasesDiffer_self])

/-- time bases of different sizes: always resampled, before and after the shift -/
theorem time_shift_invariant_different_sizes (c : Rat) (rt et : List Rat) (rf ef : Frames) (w : Rat)
    (hne : et.length ≠ rt.length) :
    metricsCore (rt.map (· + c)) rf (et.map (· + c)) ef w = metricsCore rt rf et ef w :=
  time_shift_invariant c rt et rf ef w (by
    rw [timeBasesDiffer_of_length hne, timeBasesDiffer_of_length (by simpa using hne)])

/-- Permuting the pitches inside any frames of the reference and of the estimate leaves all 14 scores
    unchanged (also when the estimate is resampled). -/
theorem pitch_order_in_frame_irrelevant (rt et : List Rat) (rf rf' ef ef' : Frames) (w : Rat)
    (hr : rf.length = rt.length) (he : ef.length = et.length)
    (hpr : List.Forall₂ List.Perm rf rf') (hpe : List.Forall₂ List.Perm ef ef') :
    metricsCore rt rf' et ef' w = metricsCore rt rf et ef w := by
  have hr' : rf'.length = rt.length := by rw [← hpr.length_eq]; exact hr
  have he' : ef'.length = et.length := by rw [← hpe.length_eq]; exact he
  rw [metricsCore_eq w hr he, metricsCore_eq w hr' he']
  have hal := alignedEst_rel (R := List.Perm) (List.Perm.refl []) hpe rt et
  have hz := forall₂_zip hpr hal
  have key : ∀ feas : Rat → Rat → Bool,
      sevenOf (rowsP feas (rf'.zip (alignedEst rt et ef'))) = sevenOf (rowsP feas (rf.zip (alignedEst rt et ef))) := by
    intro feas
    symm
    apply sevenOf_congr
    refine hz.imp ?_
    rintro p p' ⟨h1, h2⟩
    refine ⟨?_, h1.length_eq, h2.length_eq⟩
    rw [hitCount_perm_ref feas h1 p'.2, hitCount_perm_est feas p.1 h2]
  rw [key, key]

/-- non-vacuity: a shifted, valid pair of annotations on different time bases, and a permuted frame -/
example : valid ([0, 1 / 4, 1 / 2].map (· + 3)) [[60, 64], [], [67]] ([1 / 8, 5 / 8].map (· + 3)) [[64, 60], [55]] = true ∧
    List.Forall₂ List.Perm ([[64, 60], [55]] : Frames) [[60, 64], [55]] := by
  refine ⟨by decide +kernel, ?_⟩
  exact List.Forall₂.cons (List.Perm.swap _ _ _) (List.Forall₂.cons (List.Perm.refl _) List.Forall₂.nil)

end Mir.C08.Multipitch
