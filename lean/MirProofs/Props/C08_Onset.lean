import MirProofs.Lemmas.Onset
/-!
  C08 (onset) — adding the same offset to every reference and estimated onset leaves F, P, R unchanged,
  provided no onset crosses `MAX_TIME` = 30000 s (the only origin-dependent thing in the module).
-/
namespace Mir.C08.Onset
open Mir.Onset Mir.MiscStats

theorem f_measure_shift (ref est : List Rat) (w c : Rat)
    (h : ∀ t ∈ ref ++ est, t ≤ Onset.maxTime ∧ t + c ≤ Onset.maxTime) :
    Onset.fMeasure (ref.map (· + c)) (est.map (· + c)) w = Onset.fMeasure ref est w := by
  have hr := validateEvents_shift ref Onset.maxTime c (fun t ht => h t (List.mem_append_left _ ht))
  have he := validateEvents_shift est Onset.maxTime c (fun t ht => h t (List.mem_append_right _ ht))
  unfold Onset.fMeasure Onset.validate
  rw [hr, he, hitPRF_window_shift]

/-! non-vacuity -/
example : Onset.fMeasure ([0, 1].map (· + 100)) ([1 / 2].map (· + 100)) (1 / 2) = .ok (2 / 3, 1, 1 / 2) := by
  rw [fMeasure_of_valid _ (by decide +kernel), hitPRF_eq_brute]; decide +kernel

end Mir.C08.Onset
