import MirProofs.Lemmas.PatternSpec
/-!
  C08 (pattern part) — pattern scores ignore the time origin and the order of the reference patterns.

  * Translation: adding `dt` to every onset (and, more generally, `dm` to every MIDI number) of BOTH annotations
    leaves every result of the model unchanged — every metric, the first-n scores and `evaluate`, for every
    tolerance / threshold / n, exceptions included.  The C08 statement is the case `dm = 0`.
  * Permutation: replacing the reference pattern list by any permutation of it leaves every result unchanged
    (the first-n scores truncate the *estimate*, which is untouched).
-/
namespace Mir.C08.Pattern
open Mir.Pattern

/-- add `dt` to every onset and `dm` to every MIDI number -/
abbrev shiftBy (dt dm : Rat) (x : Pats) : Pats := mapPats (translate dt dm) x

/-! ### translation -/

theorem establishment_shift (dt dm : Rat) (ref est : Pats) :
    establishmentFPR (shiftBy dt dm ref) (shiftBy dt dm est) cardName = establishmentFPR ref est cardName := by
  rw [establishmentFPR_eq, establishmentFPR_eq, anyEmptyPat_mapPats, isZero_mapPats, anyEmptyOcc_mapPats,
    anyEmptyOcc_mapPats, establishment_map (translate_injective dt dm)]

theorem occurrence_shift (dt dm : Rat) (ref est : Pats) (thres : Rat) :
    occurrenceFPR (shiftBy dt dm ref) (shiftBy dt dm est) thres cardName = occurrenceFPR ref est thres cardName := by
  rw [occurrenceFPR_eq, occurrenceFPR_eq, anyEmptyPat_mapPats, isZero_mapPats, anyEmptyOcc_mapPats,
    anyEmptyOcc_mapPats, occurrence_map (translate_injective dt dm)]

theorem three_layer_shift (dt dm : Rat) (ref est : Pats) :
    threeLayerFPR (shiftBy dt dm ref) (shiftBy dt dm est) = threeLayerFPR ref est := by
  rw [threeLayerFPR_eq, threeLayerFPR_eq, anyEmptyPat_mapPats, isZero_mapPats, anyEmptyOcc_mapPats,
    anyEmptyOcc_mapPats, threeLayer_map (translate_injective dt dm)]

theorem standard_shift (dt dm : Rat) (ref est : Pats) (tol : Rat) :
    standardFPR (shiftBy dt dm ref) (shiftBy dt dm est) tol = standardFPR ref est tol := by
  rw [standardFPR_eq, standardFPR_eq, anyEmptyPat_mapPats, isZero_mapPats, anyEmptyProto_mapPats,
    anyEmptyProto_mapPats, standard_translate]

theorem first_n_three_layer_shift (dt dm : Rat) (ref est : Pats) (n : Int) :
    firstNThreeLayerP (shiftBy dt dm ref) (shiftBy dt dm est) n = firstNThreeLayerP ref est n := by
  rw [firstNThreeLayerP_eq, firstNThreeLayerP_eq, anyEmptyPat_mapPats, isZero_mapPats, firstN_mapPats,
    three_layer_shift]

theorem first_n_target_proportion_shift (dt dm : Rat) (ref est : Pats) (n : Int) :
    firstNTargetProportionR (shiftBy dt dm ref) (shiftBy dt dm est) n = firstNTargetProportionR ref est n := by
  rw [firstNTargetProportionR_eq, firstNTargetProportionR_eq, anyEmptyPat_mapPats, isZero_mapPats, firstN_mapPats,
    establishment_shift]

theorem evaluate_shift (dt dm : Rat) (ref est : Pats) (tol thres : Option Rat) (n : Option Int) :
    evaluate (shiftBy dt dm ref) (shiftBy dt dm est) tol thres none n = evaluate ref est tol thres none n := by
  unfold evaluate
  simp only [Option.getD_none]
  rw [standard_shift, establishment_shift, occurrence_shift, occurrence_shift, three_layer_shift,
    first_n_three_layer_shift, first_n_target_proportion_shift]

/-- the C08 statement proper: a common time offset `c` -/
theorem time_shift (c : Rat) (ref est : Pats) (tol thres : Rat) (n : Int) :
    standardFPR (shiftBy c 0 ref) (shiftBy c 0 est) tol = standardFPR ref est tol ∧
    establishmentFPR (shiftBy c 0 ref) (shiftBy c 0 est) cardName = establishmentFPR ref est cardName ∧
    occurrenceFPR (shiftBy c 0 ref) (shiftBy c 0 est) thres cardName = occurrenceFPR ref est thres cardName ∧
    threeLayerFPR (shiftBy c 0 ref) (shiftBy c 0 est) = threeLayerFPR ref est ∧
    firstNThreeLayerP (shiftBy c 0 ref) (shiftBy c 0 est) n = firstNThreeLayerP ref est n ∧
    firstNTargetProportionR (shiftBy c 0 ref) (shiftBy c 0 est) n = firstNTargetProportionR ref est n :=
  ⟨standard_shift c 0 ref est tol, establishment_shift c 0 ref est, occurrence_shift c 0 ref est thres,
   three_layer_shift c 0 ref est, first_n_three_layer_shift c 0 ref est n,
   first_n_target_proportion_shift c 0 ref est n⟩

/-! ### permutation of the reference pattern list -/

theorem establishment_ref_perm {ref ref' : Pats} (h : ref.Perm ref') (est : Pats) :
    establishmentFPR ref' est cardName = establishmentFPR ref est cardName := by
  rw [establishmentFPR_eq, establishmentFPR_eq, anyEmptyPat_perm h, isZero_perm h, anyEmptyOcc_perm h,
    establishment_perm h]

theorem occurrence_ref_perm {ref ref' : Pats} (h : ref.Perm ref') (est : Pats) (thres : Rat) :
    occurrenceFPR ref' est thres cardName = occurrenceFPR ref est thres cardName := by
  rw [occurrenceFPR_eq, occurrenceFPR_eq, anyEmptyPat_perm h, isZero_perm h, anyEmptyOcc_perm h,
    occurrence_perm h]

theorem three_layer_ref_perm {ref ref' : Pats} (h : ref.Perm ref') (est : Pats) :
    threeLayerFPR ref' est = threeLayerFPR ref est := by
  rw [threeLayerFPR_eq, threeLayerFPR_eq, anyEmptyPat_perm h, isZero_perm h, anyEmptyOcc_perm h,
    threeLayer_perm h]

theorem standard_ref_perm {ref ref' : Pats} (h : ref.Perm ref') (est : Pats) (tol : Rat) :
    standardFPR ref' est tol = standardFPR ref est tol := by
  rw [standardFPR_eq, standardFPR_eq, anyEmptyPat_perm h, isZero_perm h, anyEmptyProto_perm h,
    standard_perm h]

theorem first_n_three_layer_ref_perm {ref ref' : Pats} (h : ref.Perm ref') (est : Pats) (n : Int) :
    firstNThreeLayerP ref' est n = firstNThreeLayerP ref est n := by
  rw [firstNThreeLayerP_eq, firstNThreeLayerP_eq, anyEmptyPat_perm h, isZero_perm h, three_layer_ref_perm h]

theorem first_n_target_proportion_ref_perm {ref ref' : Pats} (h : ref.Perm ref') (est : Pats) (n : Int) :
    firstNTargetProportionR ref' est n = firstNTargetProportionR ref est n := by
  rw [firstNTargetProportionR_eq, firstNTargetProportionR_eq, anyEmptyPat_perm h, isZero_perm h,
    establishment_ref_perm h]

theorem evaluate_ref_perm {ref ref' : Pats} (h : ref.Perm ref') (est : Pats) (tol thres : Option Rat)
    (n : Option Int) : evaluate ref' est tol thres none n = evaluate ref est tol thres none n := by
  unfold evaluate
  simp only [Option.getD_none]
  rw [standard_ref_perm h, establishment_ref_perm h, occurrence_ref_perm h est (1 / 2),
    occurrence_ref_perm h est (3 / 4), three_layer_ref_perm h, first_n_three_layer_ref_perm h,
    first_n_target_proportion_ref_perm h]

/-! non-vacuity -/
def exRef : Pats := [[[(0, 60), (1, 62)]], [[(1/2, 61), (3/2, 63)], [(2, 61)]]]
def exEst : Pats := [[[(0, 60), (1, 62)], [(5, 60)]], [[(1/2, 61), (4, 70)]]]

example : shiftBy (3/2) 0 exRef = [[[(3/2, 60), (5/2, 62)]], [[(2, 61), (3, 63)], [(7/2, 61)]]] := by decide +kernel
example : occurrenceFPR (shiftBy (3/2) 0 exRef) (shiftBy (3/2) 0 exEst) (1/2) = .ok (5/9, 1/2, 5/8) ∧
    occurrenceFPR exRef exEst (1/2) = .ok (5/9, 1/2, 5/8) := by decide +kernel
example : exRef.Perm exRef.reverse ∧ exRef.reverse ≠ exRef ∧
    threeLayerFPR exRef.reverse exEst = .ok (1/2, 1/2, 1/2) ∧ threeLayerFPR exRef exEst = .ok (1/2, 1/2, 1/2) :=
  ⟨(List.reverse_perm _).symm, by decide +kernel, by decide +kernel, by decide +kernel⟩
/-- shifting only one side does change the score (the theorem is about a COMMON offset) -/
example : establishmentFPR (shiftBy 1 0 exRef) exEst = .ok (0, 0, 0) ∧
    establishmentFPR exRef exEst = .ok (3/4, 3/4, 3/4) := by decide +kernel

end Mir.C08.Pattern
