import MirProofs.Lemmas.Segment
import MirProofs.Lemmas.SegmentRel
/-! C08 — renaming segment labels by any bijection (within each annotation independently): the frame label
    index sequences change by injective maps, which leaves pairwise, Rand and ARI unchanged, and — over the
    real-number reading of the entropy-based scores — MI, NMI, AMI, NCE over / under / F (both normalisations) and
    the V-measure: the contingency table is only permuted in its rows / columns. -/
namespace Mir.C08.Segment
open Mir

theorem pairwise_relabel {f g : Nat → Nat} (hf : Function.Injective f) (hg : Function.Injective g)
    (yr ye : List Nat) (beta : Rat) :
    Segment.pairwiseIdx (yr.map f) (ye.map g) beta = Segment.pairwiseIdx yr ye beta :=
  Segment.pairwiseIdx_map hf hg yr ye beta

theorem rand_relabel {f g : Nat → Nat} (hf : Function.Injective f) (hg : Function.Injective g) (yr ye : List Nat) :
    Segment.randIdx (yr.map f) (ye.map g) = Segment.randIdx yr ye :=
  Segment.randIdx_map hf hg yr ye

theorem ari_relabel {f g : Nat → Nat} (hf : Function.Injective f) (hg : Function.Injective g) {yr ye : List Nat}
    (hl : yr.length = ye.length) :
    Segment.adjustedRandIdx (yr.map f) (ye.map g) = Segment.adjustedRandIdx yr ye :=
  Segment.adjustedRandIdx_map hf hg hl

/-! ### entropy-based scores (model at the real-number instance) -/

theorem mi_relabel {f g : Nat → Nat} (hf : Function.Injective f) (hg : Function.Injective g) {yr ye : List Nat}
    (hl : yr.length = ye.length) :
    Segment.mutualInfoIdx (α := ℝ) (yr.map f) (ye.map g) = Segment.mutualInfoIdx (α := ℝ) yr ye :=
  Segment.mutualInfoIdx_real_map hf hg hl

theorem nmi_relabel {f g : Nat → Nat} (hf : Function.Injective f) (hg : Function.Injective g) {yr ye : List Nat}
    (hl : yr.length = ye.length) :
    Segment.nmiIdx (α := ℝ) (yr.map f) (ye.map g) = Segment.nmiIdx (α := ℝ) yr ye :=
  Segment.nmiIdx_real_map hf hg hl

theorem ami_relabel {f g : Nat → Nat} (hf : Function.Injective f) (hg : Function.Injective g) {yr ye : List Nat}
    (hl : yr.length = ye.length) :
    Segment.amiIdx (α := ℝ) (yr.map f) (ye.map g) = Segment.amiIdx (α := ℝ) yr ye :=
  Segment.amiIdx_real_map hf hg hl

/-- NCE over / under / F, `marginal` = False or True, any beta -/
theorem nce_relabel {f g : Nat → Nat} (hf : Function.Injective f) (hg : Function.Injective g) {yr ye : List Nat}
    (hl : yr.length = ye.length) (beta : ℝ) (marginal : Bool) :
    Segment.nceIdx (α := ℝ) (yr.map f) (ye.map g) beta marginal = Segment.nceIdx (α := ℝ) yr ye beta marginal :=
  Segment.nceIdx_real_map hf hg hl beta marginal

theorem v_relabel {f g : Nat → Nat} (hf : Function.Injective f) (hg : Function.Injective g) {yr ye : List Nat}
    (hl : yr.length = ye.length) (beta : ℝ) :
    Segment.vmeasureIdx (α := ℝ) (yr.map f) (ye.map g) beta = Segment.vmeasureIdx (α := ℝ) yr ye beta :=
  Segment.nceIdx_real_map hf hg hl beta true

/-- what happens to the table: the classes of a relabelled sequence are a permutation of the relabelled classes
    (rows / columns of the contingency table are permuted, the order being that of the new names) -/
theorem classes_relabel {f : Nat → Nat} (hf : Function.Injective f) (y : List Nat) :
    (Segment.classes (y.map f)).Perm ((Segment.classes y).map f) := Segment.classes_map_perm hf y

-- non-vacuity: an order-reversing renaming on one side, a shift on the other
example : Function.Injective (fun n : Nat => 7 - n % 8 + 8 * (n / 8)) ∧ Function.Injective (fun n : Nat => n + 3) ∧
    [0, 0, 1, 2].map (fun n : Nat => 7 - n % 8 + 8 * (n / 8)) = [7, 7, 6, 5] ∧
    Segment.classes [7, 7, 6, 5] = [5, 6, 7] ∧ (Segment.classes [0, 0, 1, 2]).map (fun n : Nat => 7 - n % 8 + 8 * (n / 8)) = [7, 6, 5] := by
  refine ⟨?_, ?_, by decide +kernel, by decide +kernel, by decide +kernel⟩
  · intro a b h
    simp only at h
    omega
  · intro a b h
    simp only at h
    omega

end Mir.C08.Segment
