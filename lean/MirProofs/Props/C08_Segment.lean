import MirProofs.Lemmas.Segment
/-! C08 — renaming segment labels by any bijection (within each annotation independently): the frame label
    index sequences change by injective maps, which leaves pairwise, Rand and ARI unchanged. -/
namespace Mir.C08.Segment
open Mir

theorem pairwise_relabel {f g : Nat → Nat} (hf : Function.Injective f) (hg : Function.Injective g)
    (yr ye : List Nat) (beta : Rat) :
    Segment.pairwiseIdx (yr.map f) (ye.map g) beta = Segment.pairwiseIdx yr ye beta :=
  Segment.pairwiseIdx_map hf hg yr ye beta

theorem rand_relabel {f g : Nat → Nat} (hf : Function.Injective f) (hg : Function.Injective g) (yr ye : List Nat) :
    Segment.randIdx (yr.map f) (ye.map g) = Segment.randIdx yr ye :=
  Segment.randIdx_map hf hg yr ye

theorem ari_relabel {f g : Nat → Nat} (hf : Function.Injective f) (hg : Function.Injective g) {yr ye : List Nat}
    (hl : yr.length = ye.length) :
    Segment.adjustedRandIdx (yr.map f) (ye.map g) = Segment.adjustedRandIdx yr ye :=
  Segment.adjustedRandIdx_map hf hg hl

end Mir.C08.Segment
