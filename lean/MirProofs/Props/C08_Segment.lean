import MirProofs.Lemmas.Segment
import MirProofs.Lemmas.SegmentRel
import MirProofs.Lemmas.SegmentLabels
/-! C08 — renaming segment labels by any bijection (within each annotation independently): the frame label
    index sequences change by injective maps, which leaves pairwise, Rand and ARI unchanged, and — over the
    real-number reading of the entropy-based scores — MI, NMI, AMI, NCE over / under / F (both normalisations) and
    the V-measure: the contingency table is only permuted in its rows / columns. -/
namespace Mir.C08.Segment
open Mir

theorem pairwise_relabel {f g : Nat → Nat} (hf : Function.Injective f) (hg : Function.Injective g)
    (yr ye : List Nat) (beta : Rat) :
    Segment.pairwiseIdx (yr.map f) (ye.map g) beta = Segment.pairwiseIdx yr ye beta :=
  Segment.pairwiseIdx_map hf hg yr ye beta

theorem rand_relabel {f g : Nat → Nat} (hf : Function.Injective f) (hg : Function.Injective g) (yr ye : List Nat) :
    Segment.randIdx (yr.map f) (ye.map g) = Segment.randIdx yr ye :=
  Segment.randIdx_map hf hg yr ye

theorem ari_relabel {f g : Nat → Nat} (hf : Function.Injective f) (hg : Function.Injective g) {yr ye : List Nat}
    (hl : yr.length = ye.length) :
    Segment.adjustedRandIdx (yr.map f) (ye.map g) = Segment.adjustedRandIdx yr ye :=
  Segment.adjustedRandIdx_map hf hg hl

/-! ### entropy-based scores (model at the real-number instance) -/

theorem mi_relabel {f g : Nat → Nat} (hf : Function.Injective f) (hg : Function.Injective g) {yr ye : List Nat}
    (hl : yr.length = ye.length) :
    Segment.mutualInfoIdx (α := ℝ) (yr.map f) (ye.map g) = Segment.mutualInfoIdx (α := ℝ) yr ye :=
  Segment.mutualInfoIdx_real_map hf hg hl

theorem nmi_relabel {f g : Nat → Nat} (hf : Function.Injective f) (hg : Function.Injective g) {yr ye : List Nat}
    (hl : yr.length = ye.length) :
    Segment.nmiIdx (α := ℝ) (yr.map f) (ye.map g) = Segment.nmiIdx (α := ℝ) yr ye :=
  Segment.nmiIdx_real_map hf hg hl

theorem ami_relabel {f g : Nat → Nat} (hf : Function.Injective f) (hg : Function.Injective g) {yr ye : List Nat}
    (hl : yr.length = ye.length) :
    Segment.amiIdx (α := ℝ) (yr.map f) (ye.map g) = Segment.amiIdx (α := ℝ) yr ye :=
  Segment.amiIdx_real_map hf hg hl

/-- NCE over / under / F, `marginal` = False or True, any beta -/
theorem nce_relabel {f g : Nat → Nat} (hf : Function.Injective f) (hg : Function.Injective g) {yr ye : List Nat}
    (hl : yr.length = ye.length) (beta : ℝ) (marginal : Bool) :
    Segment.nceIdx (α := ℝ) (yr.map f) (ye.map g) beta marginal = Segment.nceIdx (α := ℝ) yr ye beta marginal :=
  Segment.nceIdx_real_map hf hg hl beta marginal

theorem v_relabel {f g : Nat → Nat} (hf : Function.Injective f) (hg : Function.Injective g) {yr ye : List Nat}
    (hl : yr.length = ye.length) (beta : ℝ) :
    Segment.vmeasureIdx (α := ℝ) (yr.map f) (ye.map g) beta = Segment.vmeasureIdx (α := ℝ) yr ye beta :=
  Segment.nceIdx_real_map hf hg hl beta true

/-- what happens to the table: the classes of a relabelled sequence are a permutation of the relabelled classes
    (rows / columns of the contingency table are permuted, the order being that of the new names) -/
theorem classes_relabel {f : Nat → Nat} (hf : Function.Injective f) (y : List Nat) :
    (Segment.classes (y.map f)).Perm ((Segment.classes y).map f) := Segment.classes_map_perm hf y

-- non-vacuity: an order-reversing renaming on one side, a shift on the other
example : Function.Injective (fun n : Nat => 7 - n % 8 + 8 * (n / 8)) ∧ Function.Injective (fun n : Nat => n + 3) ∧
    [0, 0, 1, 2].map (fun n : Nat => 7 - n % 8 + 8 * (n / 8)) = [7, 7, 6, 5] ∧
    Segment.classes [7, 7, 6, 5] = [5, 6, 7] ∧ (Segment.classes [0, 0, 1, 2]).map (fun n : Nat => 7 - n % 8 + 8 * (n / 8)) = [7, 6, 5] := by
  refine ⟨?_, ?_, by decide +kernel, by decide +kernel, by decide +kernel⟩
  · intro a b h
    simp only at h
    omega
  · intro a b h
    simp only at h
    omega

/-! ### from label strings to index sequences

  The theorems above speak about frame *index* sequences.  The code gets those from label strings by
  `util.intervals_to_samples` (model `frameLabels`: the label of the last interval covering each frame time, `None`
  where there is none) followed by `util.index_labels` on `str(·).lower()` (model `indexLabels`: position in
  `sorted(set(...))`, the fill value reading `"none"`).  A renaming `ρ` of the labels of one annotation changes the
  index sequence by an injective map — hence no score — provided the code identifies two renamed frame labels exactly
  when it identifies the original ones (`Segment.RenamingFaithful`: case folding and the fill value are respected). -/

open Segment in
/-- the hypothesis, spelled out -/
theorem renamingFaithful_iff (ρ : Label → Label) (l : List (Option Label)) :
    RenamingFaithful ρ l ↔
      ∀ a ∈ l, ∀ b ∈ l, (normLabel (a.map ρ) = normLabel (b.map ρ) ↔ normLabel a = normLabel b) := Iff.rfl

/-- sampling commutes with any renaming (any lengths of `ivs`, `labs`) -/
theorem frameLabels_rename (ρ : Segment.Label → Segment.Label) (ivs : List (ℚ × ℚ)) (labs : List Segment.Label)
    (fs : ℚ) :
    Segment.frameLabels ivs (labs.map ρ) fs = (Segment.frameLabels ivs labs fs).map (Option.map ρ) :=
  Mir.Segment.frameLabels_rename ρ ivs labs fs

/-- `util.index_labels` after a faithful renaming = before, up to an injective map of the indices -/
theorem indexLabels_rename {ρ : Segment.Label → Segment.Label} {l : List (Option Segment.Label)}
    (h : Segment.RenamingFaithful ρ l) :
    ∃ f : Nat → Nat, Function.Injective f ∧
      Segment.indexLabels (l.map (Option.map ρ)) = (Segment.indexLabels l).map f :=
  Mir.Segment.indexLabels_rename h

theorem frameIndices_rename {ρ : Segment.Label → Segment.Label} {ivs : List (ℚ × ℚ)} {labs : List Segment.Label}
    {fs : ℚ} (h : Segment.RenamingFaithful ρ (Segment.frameLabels ivs labs fs)) :
    ∃ f : Nat → Nat, Function.Injective f ∧
      Segment.frameIndices ivs (labs.map ρ) fs = (Segment.frameIndices ivs labs fs).map f :=
  Mir.Segment.frameIndices_rename h

/-- sufficient condition on the label list itself: modulo case `ρ` is injective on the annotation's labels, and it
    neither creates nor removes a label that reads like the fill value `"none"` -/
theorem renamingFaithful_of_labels {ρ : Segment.Label → Segment.Label} {ivs : List (ℚ × ℚ)}
    {labs : List Segment.Label} {fs : ℚ}
    (hinj : ∀ a ∈ labs, ∀ b ∈ labs,
      ((ρ a).map Char.toLower = (ρ b).map Char.toLower ↔ a.map Char.toLower = b.map Char.toLower))
    (hnone : ∀ a ∈ labs,
      ((ρ a).map Char.toLower = ['n', 'o', 'n', 'e'] ↔ a.map Char.toLower = ['n', 'o', 'n', 'e'])) :
    Segment.RenamingFaithful ρ (Segment.frameLabels ivs labs fs) :=
  Mir.Segment.renamingFaithful_of_labels hinj hnone

section RenameLabels
open Segment
variable {ρr ρe : Label → Label} {rIvs eIvs : List (ℚ × ℚ)} {rLabs eLabs : List Label} {fs : ℚ}

theorem pairwise_rename_labels (hr : RenamingFaithful ρr (frameLabels rIvs rLabs fs))
    (he : RenamingFaithful ρe (frameLabels eIvs eLabs fs)) (beta : ℚ) :
    pairwiseIdx (frameIndices rIvs (rLabs.map ρr) fs) (frameIndices eIvs (eLabs.map ρe) fs) beta =
      pairwiseIdx (frameIndices rIvs rLabs fs) (frameIndices eIvs eLabs fs) beta := by
  obtain ⟨f, hf, hfe⟩ := Mir.Segment.frameIndices_rename hr
  obtain ⟨g, hg, hge⟩ := Mir.Segment.frameIndices_rename he
  rw [hfe, hge]; exact pairwiseIdx_map hf hg _ _ beta

theorem rand_rename_labels (hr : RenamingFaithful ρr (frameLabels rIvs rLabs fs))
    (he : RenamingFaithful ρe (frameLabels eIvs eLabs fs)) :
    randIdx (frameIndices rIvs (rLabs.map ρr) fs) (frameIndices eIvs (eLabs.map ρe) fs) =
      randIdx (frameIndices rIvs rLabs fs) (frameIndices eIvs eLabs fs) := by
  obtain ⟨f, hf, hfe⟩ := Mir.Segment.frameIndices_rename hr
  obtain ⟨g, hg, hge⟩ := Mir.Segment.frameIndices_rename he
  rw [hfe, hge]; exact randIdx_map hf hg _ _

/-- (no length hypothesis: for index sequences of different lengths both sides take the same early return or raise
    the same error) -/
theorem ari_rename_labels (hr : RenamingFaithful ρr (frameLabels rIvs rLabs fs))
    (he : RenamingFaithful ρe (frameLabels eIvs eLabs fs)) :
    adjustedRandIdx (frameIndices rIvs (rLabs.map ρr) fs) (frameIndices eIvs (eLabs.map ρe) fs) =
      adjustedRandIdx (frameIndices rIvs rLabs fs) (frameIndices eIvs eLabs fs) := by
  obtain ⟨f, hf, hfe⟩ := Mir.Segment.frameIndices_rename hr
  obtain ⟨g, hg, hge⟩ := Mir.Segment.frameIndices_rename he
  rw [hfe, hge]; exact adjustedRandIdx_map' hf hg _ _

theorem mi_rename_labels (hr : RenamingFaithful ρr (frameLabels rIvs rLabs fs))
    (he : RenamingFaithful ρe (frameLabels eIvs eLabs fs))
    (hl : (frameIndices rIvs rLabs fs).length = (frameIndices eIvs eLabs fs).length) :
    mutualInfoIdx (α := ℝ) (frameIndices rIvs (rLabs.map ρr) fs) (frameIndices eIvs (eLabs.map ρe) fs) =
      mutualInfoIdx (α := ℝ) (frameIndices rIvs rLabs fs) (frameIndices eIvs eLabs fs) := by
  obtain ⟨f, hf, hfe⟩ := Mir.Segment.frameIndices_rename hr
  obtain ⟨g, hg, hge⟩ := Mir.Segment.frameIndices_rename he
  rw [hfe, hge]; exact mutualInfoIdx_real_map hf hg hl

theorem nmi_rename_labels (hr : RenamingFaithful ρr (frameLabels rIvs rLabs fs))
    (he : RenamingFaithful ρe (frameLabels eIvs eLabs fs))
    (hl : (frameIndices rIvs rLabs fs).length = (frameIndices eIvs eLabs fs).length) :
    nmiIdx (α := ℝ) (frameIndices rIvs (rLabs.map ρr) fs) (frameIndices eIvs (eLabs.map ρe) fs) =
      nmiIdx (α := ℝ) (frameIndices rIvs rLabs fs) (frameIndices eIvs eLabs fs) := by
  obtain ⟨f, hf, hfe⟩ := Mir.Segment.frameIndices_rename hr
  obtain ⟨g, hg, hge⟩ := Mir.Segment.frameIndices_rename he
  rw [hfe, hge]; exact nmiIdx_real_map hf hg hl

theorem ami_rename_labels (hr : RenamingFaithful ρr (frameLabels rIvs rLabs fs))
    (he : RenamingFaithful ρe (frameLabels eIvs eLabs fs))
    (hl : (frameIndices rIvs rLabs fs).length = (frameIndices eIvs eLabs fs).length) :
    amiIdx (α := ℝ) (frameIndices rIvs (rLabs.map ρr) fs) (frameIndices eIvs (eLabs.map ρe) fs) =
      amiIdx (α := ℝ) (frameIndices rIvs rLabs fs) (frameIndices eIvs eLabs fs) := by
  obtain ⟨f, hf, hfe⟩ := Mir.Segment.frameIndices_rename hr
  obtain ⟨g, hg, hge⟩ := Mir.Segment.frameIndices_rename he
  rw [hfe, hge]; exact amiIdx_real_map hf hg hl

/-- NCE over / under / F, `marginal` = False or True, any beta -/
theorem nce_rename_labels (hr : RenamingFaithful ρr (frameLabels rIvs rLabs fs))
    (he : RenamingFaithful ρe (frameLabels eIvs eLabs fs))
    (hl : (frameIndices rIvs rLabs fs).length = (frameIndices eIvs eLabs fs).length) (beta : ℝ) (marginal : Bool) :
    nceIdx (α := ℝ) (frameIndices rIvs (rLabs.map ρr) fs) (frameIndices eIvs (eLabs.map ρe) fs) beta marginal =
      nceIdx (α := ℝ) (frameIndices rIvs rLabs fs) (frameIndices eIvs eLabs fs) beta marginal := by
  obtain ⟨f, hf, hfe⟩ := Mir.Segment.frameIndices_rename hr
  obtain ⟨g, hg, hge⟩ := Mir.Segment.frameIndices_rename he
  rw [hfe, hge]; exact nceIdx_real_map hf hg hl beta marginal

theorem v_rename_labels (hr : RenamingFaithful ρr (frameLabels rIvs rLabs fs))
    (he : RenamingFaithful ρe (frameLabels eIvs eLabs fs))
    (hl : (frameIndices rIvs rLabs fs).length = (frameIndices eIvs eLabs fs).length) (beta : ℝ) :
    vmeasureIdx (α := ℝ) (frameIndices rIvs (rLabs.map ρr) fs) (frameIndices eIvs (eLabs.map ρe) fs) beta =
      vmeasureIdx (α := ℝ) (frameIndices rIvs rLabs fs) (frameIndices eIvs eLabs fs) beta :=
  nce_rename_labels hr he hl beta true

/-! #### the public functions (validation, early returns and errors included)

  `segment.pairwise`, `rand_index`, `ari` are exact in the model, so the whole call is covered.  (`mutual_information`,
  `nce`, `vmeasure` run on `Float` in the executable model; for them the statement is the ℝ-instance one above plus
  `prologue_rename_labels`.) -/

/-- validation and sampling: same outcome, the index sequences mapped by injective `f`, `g` -/
theorem prologue_rename_labels (hr : RenamingFaithful ρr (frameLabels rIvs rLabs fs))
    (he : RenamingFaithful ρe (frameLabels eIvs eLabs fs)) :
    ∃ f g : Nat → Nat, Function.Injective f ∧ Function.Injective g ∧
      prologue ⟨rIvs, rLabs.map ρr, eIvs, eLabs.map ρe⟩ fs =
        (prologue ⟨rIvs, rLabs, eIvs, eLabs⟩ fs).map (Option.map fun p => (p.1.map f, p.2.map g)) :=
  Mir.Segment.prologue_rename hr he

theorem pairwise_rename_annot (hr : RenamingFaithful ρr (frameLabels rIvs rLabs fs))
    (he : RenamingFaithful ρe (frameLabels eIvs eLabs fs)) (beta : ℚ) :
    pairwise ⟨rIvs, rLabs.map ρr, eIvs, eLabs.map ρe⟩ fs beta = pairwise ⟨rIvs, rLabs, eIvs, eLabs⟩ fs beta := by
  obtain ⟨f, g, hf, hg, hp⟩ := Mir.Segment.prologue_rename hr he
  unfold pairwise
  rw [hp]
  cases prologue ⟨rIvs, rLabs, eIvs, eLabs⟩ fs with
  | error e => rfl
  | ok o =>
    cases o with
    | none => rfl
    | some p =>
      obtain ⟨yr, ye⟩ := p
      simp only [Except.map, Option.map, bind, Except.bind, pairwiseIdx_map hf hg]

theorem rand_rename_annot (hr : RenamingFaithful ρr (frameLabels rIvs rLabs fs))
    (he : RenamingFaithful ρe (frameLabels eIvs eLabs fs)) :
    randIndex ⟨rIvs, rLabs.map ρr, eIvs, eLabs.map ρe⟩ fs = randIndex ⟨rIvs, rLabs, eIvs, eLabs⟩ fs := by
  obtain ⟨f, g, hf, hg, hp⟩ := Mir.Segment.prologue_rename hr he
  unfold randIndex
  rw [hp]
  cases prologue ⟨rIvs, rLabs, eIvs, eLabs⟩ fs with
  | error e => rfl
  | ok o =>
    cases o with
    | none => rfl
    | some p =>
      obtain ⟨yr, ye⟩ := p
      simp only [Except.map, Option.map, bind, Except.bind, randIdx_map hf hg]

theorem ari_rename_annot (hr : RenamingFaithful ρr (frameLabels rIvs rLabs fs))
    (he : RenamingFaithful ρe (frameLabels eIvs eLabs fs)) :
    ari ⟨rIvs, rLabs.map ρr, eIvs, eLabs.map ρe⟩ fs = ari ⟨rIvs, rLabs, eIvs, eLabs⟩ fs := by
  obtain ⟨f, g, hf, hg, hp⟩ := Mir.Segment.prologue_rename hr he
  unfold ari
  rw [hp]
  cases prologue ⟨rIvs, rLabs, eIvs, eLabs⟩ fs with
  | error e => rfl
  | ok o =>
    cases o with
    | none => rfl
    | some p =>
      obtain ⟨yr, ye⟩ := p
      simp only [Except.map, Option.map, bind, Except.bind, adjustedRandIdx_map' hf hg]

end RenameLabels

/-! #### non-vacuity -/

/-- "a" ↦ "Z", "b" ↦ "y", identity elsewhere -/
private def ρ₁ : Segment.Label → Segment.Label := fun s =>
  if s = ['a'] then ['Z'] else if s = ['b'] then ['y'] else s

/-- "a" ↦ "X", "b" ↦ "x": a bijection on strings that case folding does not respect -/
private def ρ₂ : Segment.Label → Segment.Label := fun s =>
  if s = ['a'] then ['X'] else if s = ['b'] then ['x'] else s

/-- "a" ↦ "None": collides with the fill value of unlabelled frames -/
private def ρ₃ : Segment.Label → Segment.Label := fun s => if s = ['a'] then ['N', 'o', 'n', 'e'] else s

-- three intervals labelled a, a, b, one frame per second: the hypothesis holds (at frame level and via the
-- sufficient condition on the labels), and the index sequence really changes: [0,0,1] becomes [1,1,0]
example :
    Segment.RenamingFaithful ρ₁ (Segment.frameLabels [(0, 1), (1, 2), (2, 3)] [['a'], ['a'], ['b']] 1) ∧
    Segment.frameLabels [(0, 1), (1, 2), (2, 3)] [['a'], ['a'], ['b']] 1 = [some ['a'], some ['a'], some ['b']] ∧
    Segment.frameIndices [(0, 1), (1, 2), (2, 3)] [['a'], ['a'], ['b']] 1 = [0, 0, 1] ∧
    Segment.frameIndices [(0, 1), (1, 2), (2, 3)] ([['a'], ['a'], ['b']].map ρ₁) 1 = [1, 1, 0] := by
  refine ⟨?_, by decide +kernel, by decide +kernel, by decide +kernel⟩
  apply renamingFaithful_of_labels <;> decide +kernel

-- why case folding is in the hypothesis: "a" ↦ "X", "b" ↦ "x" merges the two classes
example :
    ¬ Segment.RenamingFaithful ρ₂ (Segment.frameLabels [(0, 1), (1, 2), (2, 3)] [['a'], ['a'], ['b']] 1) ∧
    Segment.frameIndices [(0, 1), (1, 2), (2, 3)] ([['a'], ['a'], ['b']].map ρ₂) 1 = [0, 0, 0] := by
  refine ⟨?_, by decide +kernel⟩
  unfold Segment.RenamingFaithful
  decide +kernel

-- why the fill value is in the hypothesis: an unlabelled frame reads "none", and so does the renamed "a"
example :
    Segment.frameLabels [(0, 1 / 2), (2, 3)] [['a'], ['b']] 1 = [some ['a'], none, some ['b']] ∧
    ¬ Segment.RenamingFaithful ρ₃ (Segment.frameLabels [(0, 1 / 2), (2, 3)] [['a'], ['b']] 1) ∧
    Segment.frameIndices [(0, 1 / 2), (2, 3)] [['a'], ['b']] 1 = [0, 2, 1] ∧
    Segment.frameIndices [(0, 1 / 2), (2, 3)] ([['a'], ['b']].map ρ₃) 1 = [1, 1, 0] := by
  refine ⟨by decide +kernel, ?_, by decide +kernel, by decide +kernel⟩
  unfold Segment.RenamingFaithful
  decide +kernel

end Mir.C08.Segment
