import MirProofs.Lemmas.Tempo
/-!
  C08 (tempo) — the order in which the two estimated tempi are supplied does not matter (results and errors).
-/
namespace Mir.C08.Tempo
open Mir.Tempo Mir.MiscStats

theorem est_swap (ref : List Rat) (w e0 e1 tol : Rat) :
    detection ref w [e1, e0] tol = detection ref w [e0, e1] tol := by
  have hvt : validateTempi [e1, e0] false = validateTempi [e0, e1] false := by
    simp only [validateTempi, List.any_cons, List.any_nil, Bool.or_false, Bool.false_and, List.length_cons,
      List.length_nil]
    rw [Bool.or_comm]
  have hv : validate ref w [e1, e0] = validate ref w [e0, e1] := by
    unfold validate; rw [hvt]
  unfold detection
  rw [hv]
  rcases validate_cases ref w [e0, e1] with h | h
  · simp only [h, bind, Except.bind]
    split
    · rfl
    · rcases ref with _ | ⟨r0, _ | ⟨r1, _ | ⟨r2, rt⟩⟩⟩ <;> simp [hit_est_swap]
  · simp [h, bind, Except.bind]

/-! non-vacuity -/
example : detection [60, 120] (1 / 4) [200, 61] (2 / 25) = .ok (1 / 4, true, false) := by decide +kernel

end Mir.C08.Tempo
