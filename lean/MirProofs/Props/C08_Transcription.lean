import MirProofs.Lemmas.Transcription
/-!
  C08 (transcription part) — adding the same offset to every reference and estimated time leaves every
  transcription score unchanged (P, R, F **and** the Average Overlap Ratio: the whole result of the modelled function
  is the same, because the feasibility graph itself is), and the order in which notes are listed does not change
  precision, recall or F.
-/
namespace Mir.C08.Transcription
open Mir.Transcription

/-- `precision_recall_f1_overlap` is invariant under a common time shift (that keeps the times non-negative) -/
theorem prf_overlap_shift (refI estI : List Ival) (refP estP : List Rat) (p : Params) (beta c : Rat) (hc : 0 ≤ c)
    (hv : validate refI (refP.map some) estI (estP.map some) = .ok ()) :
    precisionRecallF1Overlap (refI.map (shiftI c)) refP (estI.map (shiftI c)) estP p beta =
      precisionRecallF1Overlap refI refP estI estP p beta := by
  unfold precisionRecallF1Overlap
  rw [validate_shift hc hv, hv, matchNotes_shift p hc (validate_ok hv).1]
  simp only [averageOverlapRatio_shift]

/-- `onset_precision_recall_f1` is invariant under a common time shift -/
theorem onset_prf_shift (refI estI : List Ival) (tol beta c : Rat) (strict : Bool) (hc : 0 ≤ c)
    (hv : validateIntervals refI estI = .ok ()) :
    onsetPRF (refI.map (shiftI c)) (estI.map (shiftI c)) tol strict beta = onsetPRF refI estI tol strict beta := by
  unfold onsetPRF matchNoteOnsets
  rw [validateIntervals_shift hc hv, hv, hitGraph_map (shiftI c) (shiftI c) (onsetHit_shift c tol strict)]
  simp only [isEmpty_map', List.length_map]

/-- `offset_precision_recall_f1` is invariant under a common time shift -/
theorem offset_prf_shift (refI estI : List Ival) (ratio minTol beta c : Rat) (strict : Bool) (hc : 0 ≤ c)
    (hv : validateIntervals refI estI = .ok ()) :
    offsetPRF (refI.map (shiftI c)) (estI.map (shiftI c)) ratio minTol strict beta =
      offsetPRF refI estI ratio minTol strict beta := by
  have h1 := (validateIntervals_ok hv).1
  unfold offsetPRF matchNoteOffsets
  rw [validateIntervals_shift hc hv, hv, ValidI_of_ok (ValidI_shift hc h1), ValidI_of_ok h1,
    hitGraph_map (shiftI c) (shiftI c) (offsetHit_shift c ratio minTol strict)]
  simp only [isEmpty_map', List.length_map]

/-- hence the whole `evaluate` dictionary is invariant under a common time shift -/
theorem evaluate_shift (refI estI : List Ival) (refP estP : List Rat) (p : Params) (beta c : Rat) (hc : 0 ≤ c)
    (hv : validate refI (refP.map some) estI (estP.map some) = .ok ()) :
    evaluate (refI.map (shiftI c)) refP (estI.map (shiftI c)) estP p beta = evaluate refI refP estI estP p beta := by
  have hvi : validateIntervals refI estI = .ok () := by
    obtain ⟨h1, h2, _, _⟩ := validate_ok hv
    unfold validateIntervals
    rw [ValidI_of_ok h1, ValidI_of_ok h2]; rfl
  unfold evaluate
  simp only [prf_overlap_shift _ _ _ _ _ _ c hc hv, onset_prf_shift _ _ _ _ c _ hc hvi,
    offset_prf_shift _ _ _ _ _ c _ hc hvi]

/-- Listing the notes of either annotation in another order leaves precision, recall and F unchanged. -/
theorem prf_overlap_note_order (refI estI refI' estI' : List Ival) (refP estP refP' estP' : List Rat) (p : Params)
    (beta : Rat) (hr : (refI.zip refP).Perm (refI'.zip refP')) (he : (estI.zip estP).Perm (estI'.zip estP'))
    (a b : Rat × Rat × Rat × Rat)
    (ha : precisionRecallF1Overlap refI refP estI estP p beta = .ok a)
    (hb : precisionRecallF1Overlap refI' refP' estI' estP' p beta = .ok b) :
    b.1 = a.1 ∧ b.2.1 = a.2.1 ∧ b.2.2.1 = a.2.2.1 := by
  have h := hitPRF_perm (noteHit p) hr he beta
  rw [← prfOverlap_eq_hitPRF ha, ← prfOverlap_eq_hitPRF hb] at h
  simp only [Prod.mk.injEq] at h
  exact h

theorem onset_prf_note_order (refI estI refI' estI' : List Ival) (tol beta : Rat) (strict : Bool)
    (hr : refI.Perm refI') (he : estI.Perm estI') (a b : Rat × Rat × Rat)
    (ha : onsetPRF refI estI tol strict beta = .ok a) (hb : onsetPRF refI' estI' tol strict beta = .ok b) :
    b = a := by
  rw [onsetPRF_eq_hitPRF ha, onsetPRF_eq_hitPRF hb]
  exact hitPRF_perm _ hr he beta

theorem offset_prf_note_order (refI estI refI' estI' : List Ival) (ratio minTol beta : Rat) (strict : Bool)
    (hr : refI.Perm refI') (he : estI.Perm estI') (a b : Rat × Rat × Rat)
    (ha : offsetPRF refI estI ratio minTol strict beta = .ok a)
    (hb : offsetPRF refI' estI' ratio minTol strict beta = .ok b) : b = a := by
  rw [offsetPRF_eq_hitPRF ha, offsetPRF_eq_hitPRF hb]
  exact hitPRF_perm _ hr he beta

/-! non-vacuity -/
example : validate [(0, 1)] ([60].map some) [(1 / 16, 1)] ([60].map some) = .ok () := by decide +kernel
example : ([((0, 1), 60), ((2, 3), 62)] : List Note).Perm [((2, 3), 62), ((0, 1), 60)] := List.Perm.swap ..

end Mir.C08.Transcription
