import MirProofs.Lemmas.ChordCompare
import MirProofs.Lemmas.Key
/-!
  C09 — pitch spelling, joint transposition and octave are handled as documented.

  Sections (keep this order when appending):
    §1  chords: joint transposition of encoded labels; root spelling (`pitch_class_to_semitone`)
    §2  keys: `key.weighted_score` — value set, documented table, enharmonic respelling, joint transposition,
        case-insensitivity of the tonic, string level ↔ finite level
    §3  (to be appended by the pitch slices) frequency scaling / octave shifts for melody, multipitch, transcription
-/
namespace Mir.C09
open Mir.ChordCompare Mir.Key

/-! ## §1 chords -/

/-- Transposing reference and estimate together by ANY interval leaves each of the 12 comparison rules
    unchanged, for every pair of encodings `chord.encode` can return (N and X included). -/
theorem transpose_compare (rule : Rule) (a b : Enc) (ha : Reachable a) (hb : Reachable b) (k : Int) :
    ChordCompare.cmp rule (transposeEnc k a) (transposeEnc k b) = ChordCompare.cmp rule a b :=
  cmp_transpose rule ha hb k

/-- transposition stays inside the set of encodings (so the theorem above can be iterated) -/
theorem transpose_reachable (a : Enc) (ha : Reachable a) (k : Int) : Reachable (transposeEnc k a) := by
  rcases ha with h | h | h
  · subst h; rw [transposeEnc_noChord]; exact Or.inl rfl
  · subst h; rw [transposeEnc_xChord]; exact Or.inr (Or.inl rfl)
  · rw [transposeEnc_regular h]
    refine Or.inr (Or.inr ⟨?_, ?_, h.2.2.1, h.2.2.2.1, h.2.2.2.2.1, h.2.2.2.2.2.1, h.2.2.2.2.2.2⟩)
    · show 0 ≤ (a.root + k) % 12; omega
    · show (a.root + k) % 12 < 12; omega

/-- `pitch_class_to_semitone` of a letter followed by an accidental run of ANY length (sharps and flats may even
    be mixed) is `(letter + #sharps − #flats) mod 12` … -/
theorem pitchClass_value (L : Char) (s : Int) (hL : letterSemitone L = some s) (acc : List Char)
    (h : ∀ c ∈ acc, c = '#' ∨ c = 'b') :
    pitchClassToSemitone (L :: acc) = .ok ((s + ((acc.count '#' : Int) - (acc.count 'b' : Int))) % 12) :=
  pitchClass_spelled L s hL acc h

/-- … hence two spellings of the same pitch class (C# / Db, B# / C, Fbb / Eb, …) give the same root number. -/
theorem pitchClass_enharmonic (L₁ L₂ : Char) (s₁ s₂ : Int) (h₁ : letterSemitone L₁ = some s₁)
    (h₂ : letterSemitone L₂ = some s₂) (acc₁ acc₂ : List Char)
    (ha₁ : ∀ c ∈ acc₁, c = '#' ∨ c = 'b') (ha₂ : ∀ c ∈ acc₂, c = '#' ∨ c = 'b')
    (hsame : (s₁ + ((acc₁.count '#' : Int) - (acc₁.count 'b' : Int))) % 12 =
             (s₂ + ((acc₂.count '#' : Int) - (acc₂.count 'b' : Int))) % 12) :
    pitchClassToSemitone (L₁ :: acc₁) = pitchClassToSemitone (L₂ :: acc₂) := by
  rw [pitchClass_value L₁ s₁ h₁ acc₁ ha₁, pitchClass_value L₂ s₂ h₂ acc₂ ha₂, hsame]

/-- non-vacuity: F#:min7/b3 vs F#:min transposed by 7 and by −13; the score is a non-trivial one -/
example :
    let a : Enc := ⟨6, [1, 0, 0, 1, 0, 0, 0, 1, 0, 0, 1, 0], 3⟩
    let b : Enc := ⟨6, [1, 0, 0, 1, 0, 0, 0, 1, 0, 0, 0, 0], 0⟩
    Reachable a ∧ Reachable b ∧ (transposeEnc 7 a).root = 1 ∧ (transposeEnc (-13) a).root = 5 ∧
      triads a b = 1 ∧ tetrads a b = 0 ∧ mirex a b = 1 ∧
      mirex (transposeEnc 7 a) (transposeEnc 7 b) = 1 ∧ transposeEnc 7 xChord = xChord := by
  decide

/-- non-vacuity: C# = Db = B## = 1, B# = C = Dbb = 0 -/
example :
    pitchClassToSemitone ['C', '#'] = .ok 1 ∧ pitchClassToSemitone ['D', 'b'] = .ok 1 ∧
    pitchClassToSemitone ['B', '#', '#'] = .ok 1 ∧ pitchClassToSemitone ['B', '#'] = .ok 0 ∧
    pitchClassToSemitone ['C'] = .ok 0 ∧ pitchClassToSemitone ['D', 'b', 'b'] = .ok 0 ∧
    pitchClassToSemitone ['H'] = .error .typeError ∧ pitchClassToSemitone ['C', 'x'] = .error .invalidChord := by
  decide

/-! ## §2 keys -/

/-- the score is one of 0, 0.2, 0.3, 0.5, 1 -/
theorem key_score_values (r e : Key) : weightedScore r e ∈ [0, 1 / 5, 3 / 10, 1 / 2, 1] :=
  scoreCore_values _ _ _ _ _ _

/-- For major / minor / X keys the score is the documented relationship table, for ALL key pairs. -/
theorem key_table (r e : Key) (hr : r.mode ≠ some .other) (he : e.mode ≠ some .other) :
    weightedScore r e = (Spec.relation r e).score := by
  have h : ∀ r ∈ Key.all, ∀ e ∈ Key.all, r.mode ≠ some .other → e.mode ≠ some .other →
      weightedScore r e = (Spec.relation r e).score := by decide +kernel
  exact h r (mem_Key_all r) e (mem_Key_all e) hr he

/-- The same statement without the restriction on modes. FALSE of the code: mode `other` is handled as
    "a mode different from the reference's", so `C major` vs `A other` scores 0.3 (as if relative minor) and
    `C major` vs `C other` scores 0.2 (as if parallel minor). -/
def key_table_full_statement : Prop := ∀ r e : Key, weightedScore r e = (Spec.relation r e).score

theorem key_table_full_statement_false : ¬ key_table_full_statement := by
  intro h
  exact absurd (h (.mk .C .major) (.mk .A .other)) (by decide +kernel)

/-- Enharmonic respelling of either key (C# ↔ Db, …) leaves the score unchanged, for all key pairs. -/
theorem key_enharmonic (r r' e e' : Key) (hr : IsRespellingOf r r') (he : IsRespellingOf e e') :
    weightedScore r' e' = weightedScore r e := by
  unfold weightedScore
  rw [hr.1, hr.2, he.1, he.2]

/-- Transposing both keys by the same interval (any spelling of the results) leaves the score unchanged. -/
theorem key_transpose (t : Int) (r r' e e' : Key) (hr : IsTransposeOf t r r') (he : IsTransposeOf t e e') :
    weightedScore r' e' = weightedScore r e := by
  cases r with
  | x =>
    cases r' with
    | mk _ _ => exact absurd hr (by simp [IsTransposeOf])
    | x =>
      cases e with
      | x =>
        cases e' with
        | mk _ _ => exact absurd he (by simp [IsTransposeOf])
        | x => rfl
      | mk en em =>
        cases e' with
        | x => exact absurd he (by simp [IsTransposeOf])
        | mk en' em' => simp [weightedScore, scoreCore, Key.sem, Key.mode]
  | mk rn rm =>
    cases r' with
    | x => exact absurd hr (by simp [IsTransposeOf])
    | mk rn' rm' =>
      cases e with
      | x =>
        cases e' with
        | mk _ _ => exact absurd he (by simp [IsTransposeOf])
        | x => simp [weightedScore, scoreCore, Key.sem, Key.mode]
      | mk en em =>
        cases e' with
        | x => exact absurd he (by simp [IsTransposeOf])
        | mk en' em' =>
          simp only [IsTransposeOf] at hr he
          obtain ⟨hm1, hs1⟩ := hr
          obtain ⟨hm2, hs2⟩ := he
          subst hm1; subst hm2
          simp only [weightedScore, Key.sem, Key.mode, hs1, hs2]
          exact scoreCore_transpose _ _ _ _ _ (semitone_range rn).1 (semitone_range rn).2
            (semitone_range en).1 (semitone_range en).2 _ _

/-- String level: for every key pair and every case variant of the tonic (`c# major`, `C# major`, `DB minor`,
    `x`), the transliterated `weighted_score` (validate_key → split_key_string → scoring) succeeds and
    returns the finite-level score; so the theorems above are statements about the strings users write. -/
theorem key_string_level (r e : Key) (v w : Nat) (hv : v < 4) (hw : w < 4) :
    weightedScoreStr (r.render v) (e.render w) = .ok (weightedScore r e) :=
  weightedScoreStr_render r e v w hv hw

/-- enharmonic respelling, transposition and letter case together, on strings -/
theorem key_string_invariance (t : Int) (r r' r'' e e' e'' : Key) (v w v'' w'' : Nat)
    (hv : v < 4) (hw : w < 4) (hv'' : v'' < 4) (hw'' : w'' < 4)
    (hr : IsTransposeOf t r r') (he : IsTransposeOf t e e')
    (hr' : IsRespellingOf r' r'') (he' : IsRespellingOf e' e'') :
    weightedScoreStr (r''.render v'') (e''.render w'') = weightedScoreStr (r.render v) (e.render w) := by
  rw [key_string_level _ _ _ _ hv'' hw'', key_string_level _ _ _ _ hv hw,
    key_enharmonic r' r'' e' e'' hr' he', key_transpose t r r' e e' hr he]

/-- non-vacuity: every table row is inhabited; a transposition with respelling; a lower-case string -/
example :
    weightedScore (.mk .C .major) (.mk .C .major) = 1 ∧ weightedScore (.mk .C .major) (.mk .G .major) = 1 / 2 ∧
    weightedScore (.mk .C .major) (.mk .A .minor) = 3 / 10 ∧ weightedScore (.mk .A .minor) (.mk .C .major) = 3 / 10 ∧
    weightedScore (.mk .C .major) (.mk .C .minor) = 1 / 5 ∧ weightedScore (.mk .C .major) (.mk .F .major) = 0 ∧
    weightedScore .x .x = 1 ∧ weightedScore .x (.mk .C .major) = 0 ∧
    IsTransposeOf 1 (.mk .C .major) (.mk .Db .major) ∧ IsRespellingOf (.mk .Db .major) (.mk .Cs .major) ∧
    (Key.mk .Cs .minor).render 1 = ['c', '#', ' ', 'm', 'i', 'n', 'o', 'r'] ∧
    (Key.mk .Bb .minor).render 2 = ['B', 'B', ' ', 'm', 'i', 'n', 'o', 'r'] ∧
    weightedScoreStr ['c', '#', ' ', 'm', 'a', 'j', 'o', 'r'] ['A', 'b', ' ', 'm', 'a', 'j', 'o', 'r'] = .ok (1 / 2) ∧
    weightedScoreStr ['C', ' ', 'm', 'a', 'j', 'o', 'r'] ['C', ' ', 'M', 'a', 'j', 'o', 'r'] = .error .valueError := by
  decide +kernel

end Mir.C09
