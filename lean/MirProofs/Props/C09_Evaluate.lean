import MirProofs.Lemmas.ChordEvaluate
import MirProofs.Props.C09_Labels
/-!
  C09 §1, `transpose_evaluate` — ALL 15 scores of `chord.evaluate` (12 weighted accuracies, underseg, overseg, seg),
  or the exception it raises, are unchanged when the reference and estimate LABELS are transposed together by any
  interval and / or respelled enharmonically (each label in any spelling).

  Layers:
  * tokens: `evaluateTokens cmp noChord` (the pipeline of C12 / C02 / C08 on abstract tokens, one comparison
    function) is invariant under any renaming of the tokens that is injective (`merge_chord_intervals` compares
    tokens for equality), preserves the comparison function and maps no-chord to no-chord; instance: `transposeEnc k`
    on the encodings `chord.encode` can return, each of the 12 rules;
  * labels: `ChordEval.evaluateStr` is `chord.evaluate` on label strings as the code is (MirModel/ChordEvaluate.lean;
    correspondence suite `chord_evaluate` of harness/props/c09.py).  The code fuses neighbours by the REDUCED
    encoding (`encode_many(labels, True)`) but compares the NON-reduced one, so the pipeline has two encoders
    (`evaluateWith`); both move by `transposeEnc k` under `IsTransposeOf k`, and the general relational theorem
    `evaluate_with_rel` gives the label-level statement.
-/
namespace Mir.C09.Evaluate
open Mir Mir.Iv Mir.Chord Mir.ChordCompare Mir.ChordEval MirGen

/-! ## tokens -/

/-- `chord.evaluate` on tokens under an injective renaming `f` of the tokens that preserves the comparison
    function: accuracy, underseg, overseg, seg — or the exception — are the same -/
theorem evaluate_tokens_relabel {T U : Type} [DecidableEq T] [DecidableEq U] (f : T → U)
    (hinj : Function.Injective f) (cmp : T → T → Rat) (cmp' : U → U → Rat)
    (hc : ∀ a b, cmp' (f a) (f b) = cmp a b) (noChord : T) (ref est : LI T) :
    evaluateTokens cmp' (f noChord) (relabel f ref) (relabel f est) = evaluateTokens cmp noChord ref est :=
  evaluateTokens_relabel f hinj cmp cmp' hc noChord ref est

/-- the same when injectivity and preservation hold on a set `P` of tokens containing the no-chord token and
    every token of the two annotations -/
theorem evaluate_tokens_relabel_on {T U : Type} [DecidableEq T] [DecidableEq U] (P : T → Prop) (f : T → U)
    (hinj : ∀ a b, P a → P b → f a = f b → a = b) (cmp : T → T → Rat) (cmp' : U → U → Rat)
    (hc : ∀ a b, P a → P b → cmp' (f a) (f b) = cmp a b) (noChord : T) (hn : P noChord) (ref est : LI T)
    (href : ∀ x ∈ ref, P x.2.2) (hest : ∀ x ∈ est, P x.2.2) :
    evaluateTokens cmp' (f noChord) (relabel f ref) (relabel f est) = evaluateTokens cmp noChord ref est :=
  evaluateTokens_relabel_on P f hinj cmp cmp' hc noChord hn ref est href hest

/-- transposition is injective on what `chord.encode` returns (so fused runs stay exactly the same runs) -/
theorem transpose_injective (k : Int) {a b : Enc} (ha : Reachable a) (hb : Reachable b)
    (h : transposeEnc k a = transposeEnc k b) : a = b :=
  transposeEnc_inj_of_reachable ha hb k h

/-- **each of the 12 rules, on encoded annotations**: transposing every row of reference and estimate by the same
    interval `k` leaves `[accuracy, underseg, overseg, seg]` (or the exception) unchanged -/
theorem transpose_evaluate_tokens (rule : Rule) (k : Int) (ref est : LI Enc)
    (href : ∀ x ∈ ref, Reachable x.2.2) (hest : ∀ x ∈ est, Reachable x.2.2) :
    evaluateTokens (ruleCmp rule) ChordCompare.noChord (relabel (transposeEnc k) ref) (relabel (transposeEnc k) est) =
      evaluateTokens (ruleCmp rule) ChordCompare.noChord ref est := by
  have h := evaluateTokens_relabel_on Reachable (transposeEnc k)
    (fun a b ha hb h => transposeEnc_inj_of_reachable ha hb k h) (ruleCmp rule) (ruleCmp rule)
    (fun a b ha hb => by unfold ruleCmp; rw [cmp_transpose rule ha hb k])
    ChordCompare.noChord (Or.inl rfl) ref est href hest
  rw [transposeEnc_noChord] at h
  exact h

/-! ## the pipeline with two encoders -/

/-- `evaluateWith` only moves labels around and encodes them: it is natural in the label type -/
theorem evaluate_with_relabel {S S' K T ρ : Type} [DecidableEq K] (τ : S → S') (encK : S' → Py K)
    (encT : S' → Py T) (rules : List ρ) (cmp : ρ → T → T → Rat) (noChord : S) (ref est : LI S) :
    evaluateWith encK encT rules cmp (τ noChord) (relabel τ ref) (relabel τ est) =
      evaluateWith (encK ∘ τ) (encT ∘ τ) rules cmp noChord ref est :=
  evaluateWith_relabel τ encK encT rules cmp noChord ref est

/-- relational invariance of the whole pipeline (see `ChordEval.evaluateWith_rel`) -/
theorem evaluate_with_rel {S S' K K' T T' ρ : Type} [DecidableEq K] [DecidableEq K'] (R : S → S' → Prop)
    (encK : S → Py K) (encK' : S' → Py K') (g : K → K') (PK : K → Prop)
    (hK : ∀ s s', R s s' → encK' s' = (encK s).map g)
    (hPK : ∀ s a, encK s = .ok a → PK a) (hg : ∀ a b, PK a → PK b → g a = g b → a = b)
    (encT : S → Py T) (encT' : S' → Py T') (f : T → T') (PT : T → Prop)
    (hT : ∀ s s', R s s' → encT' s' = (encT s).map f)
    (hPT : ∀ s a, encT s = .ok a → PT a)
    (rules : List ρ) (cmp : ρ → T → T → Rat) (cmp' : ρ → T' → T' → Rat)
    (hc : ∀ r a b, PT a → PT b → cmp' r (f a) (f b) = cmp r a b)
    (noChord : S) (noChord' : S') (hn : R noChord noChord')
    {ref est : LI S} {ref' est' : LI S'} (hr : RelLI R ref ref') (he : RelLI R est est') :
    evaluateWith encK' encT' rules cmp' noChord' ref' est' = evaluateWith encK encT rules cmp noChord ref est :=
  evaluateWith_rel R encK encK' g PK hK hPK hg encT encT' f PT hT hPT rules cmp cmp' hc noChord noChord' hn hr he

/-- with identity encoders and one comparison function the two-encoder pipeline IS the token pipeline of
    C12 / C02 / C08 (so their theorems speak about the same computation) -/
theorem evaluate_with_tokens {T ρ : Type} [DecidableEq T] (r : ρ) (cmp : ρ → T → T → Rat) (noChord : T)
    (ref est : LI T) :
    evaluateWith (K := T) Except.ok Except.ok [r] cmp noChord ref est = evaluateTokens (cmp r) noChord ref est :=
  evaluateWith_pure r cmp noChord ref est

/-! ## labels -/

/-- a successful `chord.evaluate` returns 15 scores: the 12 rules in dictionary order, underseg, overseg, seg -/
theorem evaluate_str_length (ref est : LI Str) (out : List Num) (h : evaluateStr ref est = .ok out) :
    out.length = 15 :=
  evaluateWith_length _ _ Rule.all ruleCmp _ ref est out h

/-- both encoders of `chord.evaluate` follow a transposition of the label, in any spelling, and fail together -/
theorem encode_str_transpose {k : Int} {l l' : Label} (h : IsTransposeOf k l l') (reduce : Bool) :
    encodeStr reduce l'.render = (encodeStr reduce l.render).map (transposeEnc k) :=
  encodeStr_transpose h reduce

/-- **transpose_evaluate**: reference and estimate with the same intervals, every label transposed by the same
    interval `k` — each transposed label in ANY spelling — give the same 15 scores of `chord.evaluate`, or the same
    exception (`InvalidChord` for labels outside the vocabulary, `ValueError` …) -/
theorem transpose_evaluate (k : Int) {ref ref' est est' : LI Label}
    (hr : RelLI (IsTransposeOf k) ref ref') (he : RelLI (IsTransposeOf k) est est') :
    evaluateStr (relabel Label.render ref') (relabel Label.render est') =
      evaluateStr (relabel Label.render ref) (relabel Label.render est) :=
  evaluateStr_transpose k hr he

/-- enharmonic respelling alone (C# ↔ Db, B# ↔ C, …), independently for every label of both annotations -/
theorem respell_evaluate {ref ref' est est' : LI Label}
    (hr : RelLI IsRespellingOf ref ref') (he : RelLI IsRespellingOf est est') :
    evaluateStr (relabel Label.render ref') (relabel Label.render est') =
      evaluateStr (relabel Label.render ref) (relabel Label.render est) :=
  evaluateStr_transpose 0 hr he

/-! ## non-vacuity -/

private def cmaj : Label := .chord .C .natural (some (.short .maj none)) none
private def cmin : Label := .chord .C .natural (some (.short .min none)) none
private def g7 : Label := .chord .G .natural (some (.short .seven none)) none
private def g9 : Label := .chord .G .natural (some (.short .nine none)) none
private def ebmaj : Label := .chord .E (.flats 0) (some (.short .maj none)) none
private def dsmaj : Label := .chord .D (.sharps 0) (some (.short .maj none)) none
private def ebmin : Label := .chord .E (.flats 0) (some (.short .min none)) none
private def bb7 : Label := .chord .B (.flats 0) (some (.short .seven none)) none
private def as9 : Label := .chord .A (.sharps 0) (some (.short .nine none)) none

/-- reference C:maj | G:7 on [0,2) [2,4); estimate C:maj | C:min | G:9 on [0,1) [1,3) [3,5): the estimate is cropped
    to the span, G:9 compares equal to G:7 (no reduction), the scores are non-trivial; transposed by a minor third
    with mixed spellings (Eb:maj | Bb:7 against D#:maj | Eb:min | A#:9) every score is the same -/
example :
    let ref : LI Label := [(0, 2, cmaj), (2, 4, g7)]
    let est : LI Label := [(0, 1, cmaj), (1, 3, cmin), (3, 5, g9)]
    let ref' : LI Label := [(0, 2, ebmaj), (2, 4, bb7)]
    let est' : LI Label := [(0, 1, dsmaj), (1, 3, ebmin), (3, 5, as9)]
    RelLI (IsTransposeOf 3) ref ref' ∧ RelLI (IsTransposeOf 3) est est' ∧
    relabel Label.render ref' = [(0, 2, ['E', 'b', ':', 'm', 'a', 'j']), (2, 4, ['B', 'b', ':', '7'])] ∧
    evaluateStr (relabel Label.render ref) (relabel Label.render est) =
      .ok [.val (1/2), .val (1/2), .val (1/2), .val (1/2), .val (1/2), .val (1/2), .val (3/4), .val (1/2),
           .val (1/2), .val (1/2), .val (1/2), .val (1/2), .val (3/4), .val (1/2), .val (1/2)] ∧
    evaluateStr (relabel Label.render ref') (relabel Label.render est') =
      evaluateStr (relabel Label.render ref) (relabel Label.render est) := by
  refine ⟨?_, ?_, by decide +kernel, by decide +kernel, ?_⟩
  · exact .cons ⟨rfl, rfl, by decide⟩ (.cons ⟨rfl, rfl, by decide⟩ .nil)
  · exact .cons ⟨rfl, rfl, by decide⟩ (.cons ⟨rfl, rfl, by decide⟩ (.cons ⟨rfl, rfl, by decide⟩ .nil))
  · exact transpose_evaluate 3
      (.cons ⟨rfl, rfl, by decide⟩ (.cons ⟨rfl, rfl, by decide⟩ .nil))
      (.cons ⟨rfl, rfl, by decide⟩ (.cons ⟨rfl, rfl, by decide⟩ (.cons ⟨rfl, rfl, by decide⟩ .nil)))

/-- the quirk the two encoders model: G:9 and G:7 are different chords for the fusing step (reduced encodings
    differ) but equal for every comparison: against the single reference G:7 on [0,2) the estimate G:9 | G:7 scores
    1 on all twelve rules and underseg, but overseg = seg = 1/2 -/
example :
    evaluateStr (relabel Label.render [(0, 2, g7)]) (relabel Label.render [(0, 1, g9), (1, 2, g7)]) =
      .ok [.val 1, .val 1, .val 1, .val 1, .val 1, .val 1, .val 1, .val 1, .val 1, .val 1, .val 1, .val 1,
           .val 1, .val (1/2), .val (1/2)] ∧
    encodeStr true g9.render ≠ encodeStr true g7.render ∧ encodeStr false g9.render = encodeStr false g7.render := by
  refine ⟨by decide +kernel, by decide +kernel, by decide +kernel⟩

/-- token level: root comparison on three rows, transposed by 7 semitones -/
example :
    let a : Enc := ⟨0, [1, 0, 0, 0, 1, 0, 0, 1, 0, 0, 0, 0], 0⟩
    let b : Enc := ⟨7, [1, 0, 0, 0, 1, 0, 0, 1, 0, 0, 1, 0], 0⟩
    Reachable a ∧ Reachable b ∧ transposeEnc 7 b = ⟨2, [1, 0, 0, 0, 1, 0, 0, 1, 0, 0, 1, 0], 0⟩ ∧
    evaluateTokens (ruleCmp .root) ChordCompare.noChord [(0, 2, a), (2, 4, b)] [(0, 3, a), (3, 4, b)]
      = .ok [.val (3/4), .val (3/4), .val (3/4), .val (3/4)] := by
  refine ⟨by decide, by decide, by decide, by decide +kernel⟩

end Mir.C09.Evaluate
