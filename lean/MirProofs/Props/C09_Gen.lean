import MirProofs.Props.C09_Labels
import MirProofs.Props.C10_Gen
/-! C09 §1 — root spelling, stated on `chord.pitch_class_to_semitone` as REGENERATED from the source
    (`Mir.Gen.chord.pitch_class_to_semitone`), through `C10.Gen.pitch_class_to_semitone_eq`. -/
namespace Mir.C09.Gen
open Mir Mir.ChordCompare

/-- the translated `pitch_class_to_semitone` of a letter followed by an accidental run of any length is
    `(letter + #sharps − #flats) mod 12` -/
theorem pitch_class_value (L : Char) (s : Int) (hL : letterSemitone L = some s) (acc : List Char)
    (h : ∀ c ∈ acc, c = '#' ∨ c = 'b') :
    Mir.Gen.chord.pitch_class_to_semitone (L :: acc) =
      .ok ((s + ((acc.count '#' : Int) - (acc.count 'b' : Int))) % 12) := by
  rw [Mir.C10.Gen.pitch_class_to_semitone_eq, ← Mir.C09.Labels.pitch_class_models_agree]
  exact Mir.C09.pitchClass_value L s hL acc h

/-- hence enharmonic spellings get the same root number from the code as translated -/
theorem pitch_class_enharmonic (L₁ L₂ : Char) (s₁ s₂ : Int) (h₁ : letterSemitone L₁ = some s₁)
    (h₂ : letterSemitone L₂ = some s₂) (acc₁ acc₂ : List Char)
    (ha₁ : ∀ c ∈ acc₁, c = '#' ∨ c = 'b') (ha₂ : ∀ c ∈ acc₂, c = '#' ∨ c = 'b')
    (hsame : (s₁ + ((acc₁.count '#' : Int) - (acc₁.count 'b' : Int))) % 12 =
             (s₂ + ((acc₂.count '#' : Int) - (acc₂.count 'b' : Int))) % 12) :
    Mir.Gen.chord.pitch_class_to_semitone (L₁ :: acc₁) = Mir.Gen.chord.pitch_class_to_semitone (L₂ :: acc₂) := by
  rw [pitch_class_value L₁ s₁ h₁ acc₁ ha₁, pitch_class_value L₂ s₂ h₂ acc₂ ha₂, hsame]

example : Mir.Gen.chord.pitch_class_to_semitone ['C', '#'] = .ok 1 ∧
    Mir.Gen.chord.pitch_class_to_semitone ['D', 'b'] = .ok 1 ∧
    Mir.Gen.chord.pitch_class_to_semitone ['B', '#', '#'] = .ok 1 := by decide +kernel

end Mir.C09.Gen
