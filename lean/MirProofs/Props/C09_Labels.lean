import MirProofs.Lemmas.Chord.Bridge
import MirProofs.Props.C09
/-!
  C09 §1 at LABEL level — root spelling and joint transposition of chord LABELS (the strings users write),
  through the C10 label/encode model; `MirProofs.Props.C09` has the same statements for encodings.

  `IsTransposeOf k l l'`: `l'` is `l` with the root `k` semitones higher in ANY spelling (letter + sharps − flats
  ≡ old pitch class + k mod 12), same shorthand / degree list / bass; N ↦ N, X ↦ X.
  `IsRespellingOf = IsTransposeOf 0`.
-/
namespace Mir.C09.Labels
open Mir.Chord Mir.ChordCompare MirGen

/-- two labels that differ only in the spelling of the root (C#:min7/b3 vs Db:min7/b3, B# vs C, Fbb vs Eb …)
    have the same encoding — same triple or the same InvalidChord — for both flags -/
theorem encode_respell (l l' : Label) (h : IsRespellingOf l l') (r sb : Bool) :
    pyEncode l'.render r sb = pyEncode l.render r sb :=
  pyEncode_respell h r sb

/-- transposing the root of a label by `k` semitones, in any spelling of the new root, changes the encoding
    exactly by `transposeEnc k` (root + k mod 12, bitmap and bass untouched, sentinels fixed) -/
theorem encode_transpose (k : Int) (l l' : Label) (h : IsTransposeOf k l l') (r sb : Bool) :
    pyEncode l'.render r sb = (pyEncode l.render r sb).map (transposeEncoded k) :=
  pyEncode_transpose h r sb

/-- the same on the rows the comparison functions see -/
theorem encodeLabel_transpose (k : Int) (l l' : Label) (h : IsTransposeOf k l l') :
    encodeLabel l' = (encodeLabel l).map (transposeEnc k) :=
  Chord.encodeLabel_transpose h

/-- every one of the 12 comparison rules is invariant under joint transposition of the two LABELS, each
    transposed label spelled in any way (so also under respelling alone, `k = 0`) -/
theorem label_cmp_transpose (rule : Rule) (k : Int) (a a' b b' : Label)
    (ha : IsTransposeOf k a a') (hb : IsTransposeOf k b b') :
    labelCmp rule a' b' = labelCmp rule a b :=
  labelCmp_transpose rule ha hb

theorem label_cmp_respell (rule : Rule) (a a' b b' : Label)
    (ha : IsRespellingOf a a') (hb : IsRespellingOf b b') :
    labelCmp rule a' b' = labelCmp rule a b :=
  labelCmp_transpose rule ha hb

/-- the root number `encode` assigns is the spelled pitch class: letter + #sharps − #flats mod 12 -/
theorem encode_root (L : Letter) (a : Acc) (body : Option Body) (bass : Option Degree) (r sb : Bool) (e : Encoded)
    (h : pyEncode (Label.render (.chord L a body bass)) r sb = .ok e) : e.1 = rootPc L a := by
  rw [pyEncode_render] at h
  simp only [specEncode] at h
  split at h
  · simp at h
  · split at h
    · simp at h
    · simp at h; rw [← h]; rfl

/-- the string-level `pitch_class_to_semitone` of the comparison slice and of the label slice are the same
    function (so `C09.pitchClass_value` / `pitchClass_enharmonic` speak about the root `encode` computes) -/
theorem pitch_class_models_agree (s : Str) :
    ChordCompare.pitchClassToSemitone s = Chord.pitchClassToSemitone s :=
  Chord.pitchClass_models_agree s

/-- non-vacuity: C#:min7/b3 ~ Db:min7/b3 (respelling); F:maj ↦ G#:maj = Ab:maj (k = 3); the scores move along -/
example :
    let cs : Label := .chord .C (.sharps 0) (some (.short .min7 none)) (some ⟨.flats 0, .d3⟩)
    let db : Label := .chord .D (.flats 0) (some (.short .min7 none)) (some ⟨.flats 0, .d3⟩)
    let f : Label := .chord .F .natural (some (.short .maj none)) none
    let gs : Label := .chord .G (.sharps 0) (some (.short .maj none)) none
    let ab : Label := .chord .A (.flats 0) (some (.short .maj none)) none
    IsRespellingOf cs db ∧ IsTransposeOf 3 f gs ∧ IsTransposeOf 3 f ab ∧ IsTransposeOf 3 .X .X ∧
    pyEncode cs.render false false = .ok (1, [1, 0, 0, 1, 0, 0, 0, 1, 0, 0, 1, 0], 3) ∧
    pyEncode db.render false false = .ok (1, [1, 0, 0, 1, 0, 0, 0, 1, 0, 0, 1, 0], 3) ∧
    pyEncode f.render false false = .ok (5, [1, 0, 0, 0, 1, 0, 0, 1, 0, 0, 0, 0], 0) ∧
    pyEncode ab.render false false = .ok (8, [1, 0, 0, 0, 1, 0, 0, 1, 0, 0, 0, 0], 0) ∧
    labelCmp .triads cs db = .ok 1 ∧ labelCmp .root f gs = .ok 0 ∧ labelCmp .root gs ab = .ok 1 := by
  refine ⟨by decide, by decide, by decide, by decide, by decide, by decide, by decide, by decide, by decide,
    by decide, by decide⟩

end Mir.C09.Labels
