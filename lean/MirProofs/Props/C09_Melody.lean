import MirProofs.Lemmas.Melody
/-! C09 (melody), in the log domain (cents relative to the base frequency; 0 = "no pitch"):
    * the chroma distance is even and 1200-periodic, so moving the estimate by whole octaves leaves raw chroma
      accuracy unchanged;
    * multiplying all reference and estimated frequencies by one factor adds one constant to all non-zero cents
      and leaves raw pitch / chroma / overall accuracy unchanged;
    * raw pitch and raw chroma accuracy do not read the estimated voicing, and negating estimated frequencies
      changes nothing but the estimated voicing that `to_cent_voicing` delivers.
    Each invariance needs "no shifted pitch lands on 0 cents" (i.e. on the base frequency, which the code reads
    as "no pitch") — `octave_full_statement_false` shows the condition cannot be dropped. -/
namespace Mir.C09.Melody
open Mir Mir.Melody

/-- chroma distance is 1200-periodic … -/
theorem chroma_dist_periodic (d : Rat) (k : Int) : chromaDist (d + 1200 * (k : Rat)) = chromaDist d :=
  chromaDist_add_int d k

/-- … and even -/
theorem chroma_dist_even (d : Rat) : chromaDist (-d) = chromaDist d := chromaDist_neg d

/-- Per-frame octave shifts of the estimate (any number of octaves per frame, unpitched frames untouched,
    no shifted pitch on 0 cents) leave raw chroma accuracy unchanged, at every tolerance. -/
theorem raw_chroma_accuracy_octave_est (sh : Rat → Rat) (rv rc ev ec : List Rat) (tol : Rat)
    (hsh : ∀ e ∈ ec, (sh e = 0 ↔ e = 0) ∧ ∃ k : Int, sh e = e + 1200 * (k : Rat)) :
    rawChromaAccuracy rv rc ev (ec.map sh) tol = rawChromaAccuracy rv rc ev ec tol := by
  have := pitchAcc_map (ok := chromaWithinTol tol) id sh rv rc ev ec ?_ ?_
  · simpa [rawChromaAccuracy] using this
  · intro r _ e he
    obtain ⟨hz, k, hk⟩ := hsh e he
    have hz' : sh e ≠ 0 ↔ e ≠ 0 := not_congr hz
    have hc : chromaDist (r - sh e).abs = chromaDist (r - e).abs := by rw [hk, chromaDist_shift_est]
    simp only [id, chromaWithinTol, decide_eq_true_eq, hc, hz']
  · intro r _ e he
    have hz' : sh e ≠ 0 ↔ e ≠ 0 := not_congr (hsh e he).1
    simp only [id, hz']

/-- the same for one common number of octaves `k` -/
theorem raw_chroma_accuracy_octave_est_uniform (k : Int) (rv rc ev ec : List Rat) (tol : Rat)
    (hnz : ∀ e ∈ ec, e ≠ 0 → e + 1200 * (k : Rat) ≠ 0) :
    rawChromaAccuracy rv rc ev (ec.map (shiftCents (1200 * (k : Rat)))) tol =
      rawChromaAccuracy rv rc ev ec tol := by
  apply raw_chroma_accuracy_octave_est
  intro e he
  by_cases h0 : e = 0
  · subst h0; exact ⟨by simp [shiftCents], 0, by simp [shiftCents]⟩
  · exact ⟨by simp [shiftCents, h0, hnz e he h0], k, by simp [shiftCents, h0]⟩

/-- joint transposition: adding one constant to every non-zero reference and estimated cent value
    (= multiplying all frequencies by one factor) leaves raw pitch accuracy unchanged … -/
theorem raw_pitch_accuracy_joint_shift (δ : Rat) (rv rc ev ec : List Rat) (tol : Rat)
    (hnz : ∀ x ∈ rc ++ ec, x ≠ 0 → x + δ ≠ 0) :
    rawPitchAccuracy rv (rc.map (shiftCents δ)) ev (ec.map (shiftCents δ)) tol =
      rawPitchAccuracy rv rc ev ec tol := by
  unfold rawPitchAccuracy
  apply pitchAcc_map
  · intro r hr e he
    exact shift_iff hnz hr he (fun d => withinTol tol d = true)
  · intro r hr e he
    simpa using shift_iff hnz hr he (fun _ => True)

/-- … raw chroma accuracy unchanged … -/
theorem raw_chroma_accuracy_joint_shift (δ : Rat) (rv rc ev ec : List Rat) (tol : Rat)
    (hnz : ∀ x ∈ rc ++ ec, x ≠ 0 → x + δ ≠ 0) :
    rawChromaAccuracy rv (rc.map (shiftCents δ)) ev (ec.map (shiftCents δ)) tol =
      rawChromaAccuracy rv rc ev ec tol := by
  unfold rawChromaAccuracy
  apply pitchAcc_map
  · intro r hr e he
    exact shift_iff hnz hr he (fun d => chromaWithinTol tol d = true)
  · intro r hr e he
    simpa using shift_iff hnz hr he (fun _ => True)

/-- … and overall accuracy unchanged (voicing recall / false alarm do not take cents at all). -/
theorem overall_accuracy_joint_shift (δ : Rat) (rv rc ev ec : List Rat) (tol : Rat)
    (hnz : ∀ x ∈ rc ++ ec, x ≠ 0 → x + δ ≠ 0) :
    overallAccuracy rv (rc.map (shiftCents δ)) ev (ec.map (shiftCents δ)) tol =
      overallAccuracy rv rc ev ec tol := by
  apply overallAccuracy_map
  intro r hr e he
  exact shift_iff hnz hr he (fun d => d < tol)

/-- raw pitch and raw chroma accuracy use the estimated voicing for validation only -/
theorem raw_pitch_accuracy_ignores_est_voicing {rv rc ev ev' ec : List Rat} (tol : Rat)
    (h : validVoicingB rv ev = true) (h' : validVoicingB rv ev' = true) :
    rawPitchAccuracy rv rc ev ec tol = rawPitchAccuracy rv rc ev' ec tol := by
  have l := (validVoicingB_iff.1 h).1
  have l' := (validVoicingB_iff.1 h').1
  simp only [rawPitchAccuracy, pitchAcc, h, h', validLenB, ← l, ← l']

theorem raw_chroma_accuracy_ignores_est_voicing {rv rc ev ev' ec : List Rat} (tol : Rat)
    (h : validVoicingB rv ev = true) (h' : validVoicingB rv ev' = true) :
    rawChromaAccuracy rv rc ev ec tol = rawChromaAccuracy rv rc ev' ec tol := by
  have l := (validVoicingB_iff.1 h).1
  have l' := (validVoicingB_iff.1 h').1
  simp only [rawChromaAccuracy, pitchAcc, h, h', validLenB, ← l, ← l']

/-- `freq_to_voicing` returns `|f|`: negating frequencies changes the voicing it derives, never the cents -/
theorem freq_to_voicing_neg (fs : List Freq) :
    (freqToVoicing (fs.map Freq.neg) none).map (fun p => hz2cents p.1) =
      (freqToVoicing fs none).map (fun p => hz2cents p.1) := by
  simp only [freqToVoicing, Except.map, Except.ok.injEq, hz2cents, List.map_map]
  apply List.map_congr_left
  intro f _
  simp [Freq.abs, Freq.neg]

/-- Negating any of the estimated frequencies (marking those frames unvoiced) changes nothing in what
    `to_cent_voicing` delivers except the estimated voicing: same reference voicing, same reference cents,
    same estimated cents, same exceptions — for every hop and interpolation kind. -/
theorem to_cent_voicing_neg_est (rt et : List Rat) (rf ef : List Freq) (rr : Option (List Rat))
    (hop : Option Rat) (kind : Kind) :
    (toCentVoicing rt rf et (ef.map Freq.neg) none rr hop kind).map CentVoicing.pitchPart =
      (toCentVoicing rt rf et ef none rr hop kind).map CentVoicing.pitchPart := by
  unfold toCentVoicing
  cases padStart rt rf rr with
  | error e => rfl
  | ok r1 =>
    obtain ⟨rt', rf', rr'⟩ := r1
    simp only
    rw [padStart_none_map]
    cases padStart et ef none with
    | error e => rfl
    | ok r2 =>
      obtain ⟨et', ef', a⟩ := r2
      simp only [Except.map]
      cases freqToVoicing rf' rr' with
      | error e => rfl
      | ok r3 =>
        obtain ⟨F, V⟩ := r3
        simp only
        cases a with
        | some a => 
          -- `padStart … none` never produces an auxiliary array; both sides take the same branch anyway
          cases hfa : freqToVoicing ef' (some a) with
          | error e =>
            have : freqToVoicing (List.map Freq.neg ef') (some a) = .error e := by
              simp only [freqToVoicing, List.isEmpty_iff, List.map_eq_nil_iff, List.length_map] at hfa ⊢
              split at hfa
              · cases hfa
              · split at hfa
                · cases hfa
                · rename_i h1 h2; simp [h1, h2]; simpa using hfa
            rw [this]
          | ok r4 =>
            obtain ⟨F2, V2⟩ := r4
            simp only [freqToVoicing, List.isEmpty_iff, List.map_eq_nil_iff, List.length_map] at hfa ⊢
            split at hfa
            · rename_i h1
              simp only [Except.ok.injEq, Prod.mk.injEq] at hfa
              obtain ⟨rfl, rfl⟩ := hfa
              simp [h1]
            · split at hfa
              · rename_i h1 h2
                simp only [Except.ok.injEq, Prod.mk.injEq] at hfa
                obtain ⟨rfl, rfl⟩ := hfa
                simp only [h1, h2, if_false, if_true]
                have e1 : hz2cents (List.map Freq.abs (List.map Freq.neg ef')) = hz2cents (List.map Freq.abs ef') := by
                  simp only [hz2cents, List.map_map]
                  apply List.map_congr_left; intro f _; simp [Freq.abs, Freq.neg]
                rw [e1]
                apply alignSeries_estVoicing_indep
                simp
              · cases hfa
        | none =>
          simp only [freqToVoicing]
          have e1 : hz2cents (List.map Freq.abs (List.map Freq.neg ef')) = hz2cents (List.map Freq.abs ef') := by
            simp only [hz2cents, List.map_map]
            apply List.map_congr_left; intro f _; simp [Freq.abs, Freq.neg]
          rw [e1]
          apply alignSeries_estVoicing_indep
          simp

/-- "whole-octave shifts of the estimate leave raw chroma accuracy unchanged", with no side condition … -/
def octave_full_statement : Prop :=
  ∀ (k : Int) (rv rc ev ec : List Rat) (tol : Rat),
    rawChromaAccuracy rv rc ev (ec.map (shiftCents (1200 * (k : Rat)))) tol = rawChromaAccuracy rv rc ev ec tol

/-- … is false of the code as it is: an estimate one octave above the base frequency, moved down one octave,
    sits on 0 cents and is read as "no pitch" (20 Hz → 10 Hz with the default base frequency). -/
theorem octave_full_statement_false : ¬ octave_full_statement := by
  intro h
  have := h (-1) [1] [1200] [1] [1200] 50
  revert this
  decide +kernel

/-- the strongest true version: `raw_chroma_accuracy_octave_est_uniform` (no shifted pitch on 0 cents) -/
theorem octave_partial (k : Int) (rv rc ev ec : List Rat) (tol : Rat)
    (hnz : ∀ e ∈ ec, e ≠ 0 → e + 1200 * (k : Rat) ≠ 0) :
    rawChromaAccuracy rv rc ev (ec.map (shiftCents (1200 * (k : Rat)))) tol =
      rawChromaAccuracy rv rc ev ec tol :=
  raw_chroma_accuracy_octave_est_uniform k rv rc ev ec tol hnz

/-! non-vacuity -/
example : rawChromaAccuracy [1, 1] [3000, 4000] [1, 1] ([3010, 4100].map (shiftCents (1200 * ((-2 : Int) : Rat)))) 50
    = .ok (1/2) ∧ rawChromaAccuracy [1, 1] [3000, 4000] [1, 1] [3010, 4100] 50 = .ok (1/2) ∧
    (∀ e ∈ ([3010, 4100] : List Rat), e ≠ 0 → e + 1200 * ((-2 : Int) : Rat) ≠ 0) := by
  refine ⟨by decide +kernel, by decide +kernel, by decide +kernel⟩
example : chromaDist 1150 = 50 ∧ chromaDist (-1150) = 50 ∧ chromaDist 600 = 600 ∧ chromaDist 1800 = 600 := by
  refine ⟨by decide +kernel, by decide +kernel, by decide +kernel, by decide +kernel⟩
example : (toCentVoicing [0, 1] [⟨1, 4800⟩, ⟨1, 5000⟩] [0, 1] [⟨1, 4800⟩, ⟨-1, 5000⟩] none none none .linear).map
    CentVoicing.pitchPart = .ok ([1, 1], [4800, 5000], [4800, 5000]) := by decide +kernel

end Mir.C09.Melody
