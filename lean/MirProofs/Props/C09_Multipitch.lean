import MirProofs.Lemmas.MultipitchInvariance
/-! C09 (multipitch part) — joint transposition and octave shifts.
    Pitches are MIDI numbers (log domain): multiplying every frequency by a factor `q` is adding
    `c = 12·log2 q` to every MIDI number; an octave is `12`. -/
open Mir Mir.Multipitch

namespace Mir.C09.Multipitch

/-- Multiplying all reference and estimate frequencies by the same factor (adding `c` semitones to every
    pitch) leaves all 14 scores unchanged — exactly, in the model's exact arithmetic. -/
theorem joint_transposition_invariant (c : Rat) (rt et : List Rat) (rf ef : Frames) (w : Rat)
    (hr : rf.length = rt.length) (he : ef.length = et.length) :
    metricsCore rt (rf.map fun f => f.map (· + c)) et (ef.map fun f => f.map (· + c)) w
      = metricsCore rt rf et ef w := by
  have hr' : (rf.map fun f => f.map (· + c)).length = rt.length := by simpa using hr
  have he' : (ef.map fun f => f.map (· + c)).length = et.length := by simpa using he
  rw [metricsCore_eq w hr he, metricsCore_eq w hr' he',
    alignedEst_map (fun f => f.map (· + c)) (by simp)]
  set al := alignedEst rt et ef
  have hz := forall₂_zip
    (forall₂_map_right (R := fun f f' => f' = f.map (· + c)) (fun f => f.map (· + c)) (fun _ => rfl) rf)
    (forall₂_map_right (R := fun f f' => f' = f.map (· + c)) (fun f => f.map (· + c)) (fun _ => rfl) al)
  have key : ∀ feas : Rat → Rat → Bool, (∀ r e, feas (r + c) (e + c) = feas r e) →
      sevenOf (rowsP feas ((rf.map fun f => f.map (· + c)).zip (al.map fun f => f.map (· + c))))
        = sevenOf (rowsP feas (rf.zip al)) := by
    intro feas hf
    symm
    apply sevenOf_congr
    refine hz.imp ?_
    rintro p p' ⟨h1, h2⟩
    rw [h1, h2]
    exact ⟨(hitCount_map (· + c) (· + c) hf p.1 p.2).symm, by simp, by simp⟩
  rw [key _ (rawFeas_shift w c), key _ (chromaFeas_shift w c)]

/-- Shifting estimated pitches by whole octaves (each pitch by its own number `sh m` of octaves) leaves the
    seven chroma scores unchanged. -/
theorem estimate_octave_shift_keeps_chroma (sh : Rat → Int) (rt et : List Rat) (rf ef : Frames) (w : Rat)
    (hr : rf.length = rt.length) (he : ef.length = et.length) :
    (metricsCore rt rf et (ef.map fun f => f.map fun m => m + 12 * (sh m : Rat)) w).2
      = (metricsCore rt rf et ef w).2 := by
  have he' : (ef.map fun f => f.map fun m => m + 12 * (sh m : Rat)).length = et.length := by simpa using he
  rw [metricsCore_eq w hr he, metricsCore_eq w hr he',
    alignedEst_map (fun f => f.map fun m => m + 12 * (sh m : Rat)) (by simp)]
  set al := alignedEst rt et ef
  have hz := forall₂_zip
    (forall₂_map_right (R := fun f f' => f' = f) id (fun _ => rfl) rf)
    (forall₂_map_right (R := fun f f' => f' = f.map fun m => m + 12 * (sh m : Rat))
      (fun f => f.map fun m => m + 12 * (sh m : Rat)) (fun _ => rfl) al)
  rw [List.map_id] at hz
  show sevenOf _ = sevenOf _
  symm
  apply sevenOf_congr
  refine hz.imp ?_
  rintro p p' ⟨h1, h2⟩
  rw [h1, h2]
  refine ⟨?_, rfl, by simp⟩
  have := hitCount_map (feas := chromaFeas w) (feas' := chromaFeas w) id (fun m => m + 12 * (sh m : Rat))
    (fun r e => chromaFeas_octave w r e (sh e)) p.1 p.2
  rw [List.map_id] at this
  exact this.symm

/-- the criterion-level facts: the chroma criterion cannot see octaves, neither criterion can see a common
    transposition -/
theorem criteria_invariances (w r e c : Rat) (k : Int) :
    chromaFeas w r (e + 12 * (k : Rat)) = chromaFeas w r e ∧
    chromaFeas w (r + c) (e + c) = chromaFeas w r e ∧ rawFeas w (r + c) (e + c) = rawFeas w r e :=
  ⟨chromaFeas_octave w r e k, chromaFeas_shift w c r e, rawFeas_shift w c r e⟩

/-- non-vacuity: an estimate one and two octaves off is still a valid input -/
example : valid [0, 1] [[60, 64], [67]] [0, 1] ([[60, 64], [67]].map fun f => f.map fun m => m + 12 * ((if m < 62 then 1 else -2 : Int) : Rat)) = true := by
  decide +kernel

end Mir.C09.Multipitch
