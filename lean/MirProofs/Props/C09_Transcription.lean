import MirProofs.Lemmas.Transcription
/-!
  C09 (transcription part) — multiplying all reference and estimated frequencies by the same factor leaves the
  transcription scores unchanged.  Pitch is modelled in the log domain (MIDI numbers), where a common factor `k`
  is the translation `m ↦ m + 12·log2 k`; the criterion reads pitch differences only.
-/
namespace Mir.C09.Transcription
open Mir.Transcription

/-- the note criterion cannot see a common transposition -/
theorem note_criterion_transpose (t : Rat) (p : Params) (r e : Note) :
    noteHit p (transposeN t r) (transposeN t e) = noteHit p r e := noteHit_transpose t p r e

/-- the matching itself (hence every score derived from it) is unchanged -/
theorem match_notes_transpose (refI estI : List Ival) (refP estP : List Rat) (p : Params) (t : Rat) :
    matchNotes refI (refP.map (· + t)) estI (estP.map (· + t)) p = matchNotes refI refP estI estP p :=
  matchNotes_transpose refI estI refP estP p t

/-- `precision_recall_f1_overlap`: P, R, F and the Average Overlap Ratio are unchanged -/
theorem prf_overlap_transpose (refI estI : List Ival) (refP estP : List Rat) (p : Params) (beta t : Rat) :
    precisionRecallF1Overlap refI (refP.map (· + t)) estI (estP.map (· + t)) p beta =
      precisionRecallF1Overlap refI refP estI estP p beta := by
  unfold precisionRecallF1Overlap
  rw [validate_transpose, matchNotes_transpose]
  have e : ∀ l : List Rat, (l.map (· + t)).isEmpty = l.isEmpty := fun l => by cases l <;> rfl
  simp only [e, List.length_map]

/-- the whole `evaluate` dictionary is unchanged -/
theorem evaluate_transpose (refI estI : List Ival) (refP estP : List Rat) (p : Params) (beta t : Rat) :
    evaluate refI (refP.map (· + t)) estI (estP.map (· + t)) p beta = evaluate refI refP estI estP p beta := by
  unfold evaluate
  simp only [prf_overlap_transpose]

/-- the velocity-aware matching is unchanged as well -/
theorem velocity_match_notes_transpose (refI estI : List Ival) (refP refV estP estV : List Rat) (p : Params)
    (vt t : Rat) :
    velMatchNotes refI (refP.map (· + t)) refV estI (estP.map (· + t)) estV p vt =
      velMatchNotes refI refP refV estI estP estV p vt := by
  unfold velMatchNotes
  rw [matchNotes_transpose]

/-! non-vacuity: one octave up (t = 12) -/
example : noteHit {} (transposeN 12 ((0, 1), 60)) (transposeN 12 ((0, 1), 603 / 10)) = true := by decide +kernel

end Mir.C09.Transcription
