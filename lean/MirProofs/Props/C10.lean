import MirProofs.Lemmas.Chord.Many
/-!
  C10 — chord labels: total parsing, sound encoding, split/join round trip.

  Property theorems only (lemmas live in MirProofs/Lemmas/Chord/*).  All statements are about the executable
  model `MirModel.Chord.*` (tied to mir_eval/chord.py by the correspondence suites of harness/props/c10.py)
  and the regenerated tables `MirGen.Tables`.  They hold for ALL strings / ALL labels: accidental runs and
  degree lists are unbounded; nothing is proved by enumeration except facts about the finite tables.

  Strings are lists of code points (`Str = List Char`).
-/
namespace Mir.C10
open Mir.Chord MirGen

/-! ## 1. The grammar is unambiguous and `recognize` decides it -/

/-- every rendered label is recognised, and as the label it was rendered from -/
theorem recognize_render (l : Label) : recognize l.render = some l := Chord.recognize_render l

/-- whatever is recognised renders back to the input -/
theorem recognize_sound (s : Str) (l : Label) (h : recognize s = some l) : l.render = s :=
  Chord.recognize_sound h

/-- hence `recognize` accepts exactly the strings derivable from the documented syntax -/
theorem recognize_iff_derivable (s : Str) : (recognize s).isSome = true ↔ ∃ l : Label, l.render = s := by
  constructor
  · intro h
    obtain ⟨l, hl⟩ := Option.isSome_iff_exists.1 h
    exact ⟨l, Chord.recognize_sound hl⟩
  · rintro ⟨l, rfl⟩; simp [Chord.recognize_render]

example : recognize "G#:min(*b3,*5)/5".toList =
    some (.chord .G (.sharps 0) (some (.short .min (some (⟨true, ⟨.flats 0, .d3⟩⟩, [⟨true, ⟨.natural, .d5⟩⟩]))))
      (some ⟨.natural, .d5⟩)) := by decide
example : recognize "C:maj(3,)".toList = none := by decide
example : recognize "C:(*3)".toList ≠ none := by decide

/-! ## 2. Validation: total, and equal to the documented grammar
   (full strength since the repair `fix: chord label validation no longer accepts a trailing newline`:
    CHORD_RE is anchored with `\Z`; the former `_partial` / `_full_statement_false` pair is gone) -/

/-- `validate_chord_label` returns or raises InvalidChordException, nothing else -/
theorem validate_total (s : Str) : pyValidate s = .ok () ∨ pyValidate s = .error .invalidChord :=
  pyValidate_total s

/-- acceptance by `validate_chord_label` coincides with the documented syntax, for EVERY string -/
theorem validate_iff_grammar (s : Str) : pyValidate s = .ok () ↔ ∃ l : Label, l.render = s := by
  rw [pyValidate_ok_iff, reMatch_iff]

/-- in particular a label followed by a newline is rejected (regression guard for the repaired defect) -/
theorem validate_rejects_trailing_newline (l : Label) : pyValidate (l.render ++ ['\n']) = .error .invalidChord := by
  rcases pyValidate_total (l.render ++ ['\n']) with h | h
  · obtain ⟨l', hl'⟩ := (validate_iff_grammar _).1 h
    -- a rendered label contains no newline
    have hmem : '\n' ∈ l'.render := by rw [hl']; simp
    have hno : '\n' ∉ l'.render := by
      match l' with
      | .N => decide
      | .X => decide
      | .chord L a body bass =>
        rw [render_chord_eq]
        have h1 := not_mem_of_alpha (rootStr_chars L a) (x := '\n') (by decide)
        have h2 := not_mem_of_alpha (bodyHead_chars body) (x := '\n') (by decide)
        have h3 := not_mem_of_alpha (bodyParen_chars body) (x := '\n') (by decide)
        have h4 := not_mem_of_alpha (renderBass_chars bass) (x := '\n') (by decide)
        simp [h1, h2, h3, h4]
    exact absurd hmem hno
  · exact h

example : pyValidate "C\n".toList = .error .invalidChord := by decide
example : pyValidate "Db:maj7/3".toList = .ok () := by decide

/-! ## 3. Splitting: total on every string; on a rendered label it returns the grammar's components -/

/-- `split` returns or raises InvalidChordException on EVERY string: the 2-target unpackings never trip -/
theorem split_total (s : Str) (r : Bool) :
    (∃ p, pySplit s r = .ok p) ∨ pySplit s r = .error .invalidChord := by
  rcases pySplit_total s r with ⟨p, hp, _⟩ | h
  · exact Or.inl ⟨p, hp⟩
  · exact Or.inr h

/-- on a derivable label `split` succeeds and returns root, quality, degree set and bass of the grammar tree
    (`components`: "maj" for a bare root, "" for `:(degrees)`, bass "1" when absent, duplicates merged,
    extended shorthands reduced when asked) -/
theorem split_render (l : Label) (r : Bool) : pySplit l.render r = .ok (components l r) :=
  pySplit_render l r

example : pySplit "A:13(3,3)/b7".toList true =
    .ok ("A".toList, "7".toList, ["3".toList, "9".toList, "11".toList, "13".toList], "b7".toList) := by decide
example : pySplit "A:(3)".toList false = .ok ("A".toList, [], ["3".toList], "1".toList) := by decide

/-! ## 4. Encoding: total, in range, sentinels -/

/-- `encode` returns or raises InvalidChordException on EVERY string and both flags
    (no TypeError from `None % 12`, no IndexError, no ValueError) -/
theorem encode_total (s : Str) (r sb : Bool) :
    (∃ e, pyEncode s r sb = .ok e) ∨ pyEncode s r sb = .error .invalidChord :=
  pyEncode_total s r sb

/-- every successful encoding other than the N / X sentinels has root and bass in 0..11 and a 12-element
    0/1 bitmap that contains the bass interval -/
theorem encode_range (s : Str) (r sb : Bool) (root bass : Int) (bm : List Int)
    (hN : s ≠ ['N']) (hX : s ≠ ['X']) (h : pyEncode s r sb = .ok (root, bm, bass)) :
    0 ≤ root ∧ root < 12 ∧ bm.length = 12 ∧ (∀ b ∈ bm, b = 0 ∨ b = 1) ∧
      bm[bass.toNat]? = some 1 ∧ 0 ≤ bass ∧ bass < 12 :=
  pyEncode_range hN hX h

/-- N and X encode to their reserved sentinels, whatever the flags -/
theorem sentinels (r sb : Bool) :
    pyEncode ['N'] r sb = .ok (-1, List.replicate 12 0, -1) ∧
    pyEncode ['X'] r sb = .ok (-1, List.replicate 12 (-1), -1) := ⟨rfl, rfl⟩

example : pyEncode "C:min7(*5,9)/b3".toList false false = .ok (0, [1, 0, 0, 1, 0, 0, 0, 0, 0, 0, 1, 0], 3) := by
  decide
example : pyEncode "C:maj/2".toList false true = .error .invalidChord := by decide
example : pyEncode "C:aug7".toList false false = .error .invalidChord := by decide

/-- `encode_many` is `encode` element by element (same flags, strict off), in order -/
theorem encode_many_eq_map (ls : List Str) (r : Bool) (es : List Encoded) :
    encodeAll r ls = .ok es ↔
      es.length = ls.length ∧ ∀ p ∈ ls.zip es, pyEncode p.1 r false = .ok p.2 :=
  encodeAll_ok_iff r ls es

theorem encode_many_total (ls : List Str) (r : Bool) :
    (∃ v, pyEncodeMany ls r = .ok v) ∨ pyEncodeMany ls r = .error .invalidChord := by
  unfold pyEncodeMany
  rcases encodeAll_total r ls with ⟨es, h⟩ | h
  · simp only [h]; exact Or.inl ⟨_, rfl⟩
  · simp only [h]; exact Or.inr trivial

example : pyEncodeMany ["C".toList, "N".toList] false =
    .ok ([0, -1], [[1, 0, 0, 0, 1, 0, 0, 1, 0, 0, 0, 0], List.replicate 12 0], [0, -1]) := by decide

/-! ## 5. The documented encoding -/

/-- for every derivable label, `encode` returns exactly the documented encoding `specEncode`:
    root = letter pitch class ± accidentals (mod 12); bass = major-scale degree ± accidentals (mod 12, 0 if
    absent); bitmap = threshold(>0) of [shorthand bits (hand-transcribed table, root forced) + 1 per added
    degree − 1 per omitted degree], second-octave degrees counted only when reducing, extended shorthands
    replaced by their seventh chord + upper voices when reducing; the bass bit forced (or InvalidChord when
    strict and absent); InvalidChord for the two shorthands without an encoding (aug7, maj11) -/
theorem encode_semantics (l : Label) (r sb : Bool) : pyEncode l.render r sb = specEncode l r sb :=
  pyEncode_render l r sb

example : specEncode (.chord .C .natural (some (.short .maj (some (⟨true, ⟨.natural, .d3⟩⟩, [⟨false, ⟨.natural, .d3⟩⟩]))))
    none) false false = .ok (0, [1, 0, 0, 0, 1, 0, 0, 1, 0, 0, 0, 0], 0) := by decide   -- "(*3,3)" keeps the third
example : specEncode (.chord .B (.sharps 0) (some (.short .thirteen none)) none) true false =
    .ok (0, [1, 0, 1, 0, 1, 1, 0, 1, 0, 1, 1, 0], 0) := by decide

/-! ## 6. join ∘ split preserves the encoding -/

/-- for every derivable label other than N and X, both flags, and EVERY order in which the degree set that
    `split` returned is iterated: `join` of the parts succeeds and its encoding is the label's encoding -/
theorem join_split_encode (l : Label) (hN : l ≠ .N) (hX : l ≠ .X) (r sb : Bool)
    (root q : Str) (degs : List Str) (bass : Str) (hs : pySplit l.render r = .ok (root, q, degs, bass))
    (degs' : List Str) (hp : degs'.Perm degs) :
    ∃ j, pyJoin root q (some degs') bass = .ok j ∧ pyEncode j r sb = pyEncode l.render r sb := by
  match l, hN, hX with
  | .chord L a body bass', _, _ => exact join_split_encode_chord L a body bass' r sb root q degs bass hs degs' hp

/-- N round-trips too; X does not (its parts are not joinable), which is why the statement excludes it -/
theorem join_split_N_X (r : Bool) :
    (pySplit ['N'] r = .ok (['N'], [], [], []) ∧ pyJoin ['N'] [] (some []) [] = .ok ['N']) ∧
    (pySplit ['X'] r = .ok (['X'], ['m', 'a', 'j'], [], ['1']) ∧
      pyJoin ['X'] ['m', 'a', 'j'] (some []) ['1'] = .error .invalidChord) := by
  cases r <;> exact ⟨⟨rfl, rfl⟩, ⟨rfl, rfl⟩⟩

example : ∃ j, pyJoin "A".toList "7".toList (some ["13".toList, "9".toList, "3".toList, "11".toList]) "b7".toList = .ok j ∧
    pyEncode j true false = pyEncode "A:13(3,3)/b7".toList true false :=
  ⟨"A:7(13,9,3,11)/b7".toList, by decide, by decide⟩

/-! ## 7. G-obligations: the regenerated tables against the hand-transcribed documentation -/

/-- shapes: `BITMAP_LENGTH = 12`, every `QUALITIES` bitmap has 12 entries in {0,1} -/
theorem tables_bitmap_shape :
    Tables.bitmapLength = 12 ∧
    ∀ p ∈ Tables.qualities, p.2.length = Tables.bitmapLength ∧ ∀ b ∈ p.2, b = 0 ∨ b = 1 := by decide

/-- sentinels: `NO_CHORD`, `X_CHORD` and their encodings -/
theorem tables_sentinels :
    Tables.noChord = ['N'] ∧ Tables.xChord = ['X'] ∧
    Tables.noChordEncoded = (-1, List.replicate 12 0, -1) ∧
    Tables.xChordEncoded = (-1, List.replicate 12 (-1), -1) := by decide

/-- `QUALITIES` is the documented shorthand table on every quality `split` can return
    (and has no entry for aug7 / maj11) -/
theorem tables_qualities_spec (q : Option Shorthand) :
    qualityToBitmap (qualityStr q) =
      match Spec.qualityBitmap q with
      | some bm => .ok bm
      | none => .error .invalidChord :=
  qualityToBitmap_spec q

/-- every `QUALITIES` key is "", a shorthand of the syntax, or one of four entries the syntax cannot reach -/
theorem tables_qualities_keys :
    ∀ p ∈ Tables.qualities, p.1 = [] ∨ (Shorthand.ofName? p.1).isSome = true ∨
      p.1 ∈ [['b', '9'], ['#', '9'], ['#', '1', '1'], ['b', '1', '3']] := by decide

/-- `EXTENDED_QUALITY_REDUX` is the documented reduction on every quality `split` can return -/
theorem tables_redux_spec (q : Option Shorthand) :
    reduceExtendedQuality (qualityStr q) = (qualityStr (reduxQ q), (reduxAdds q).map DegItem.render) :=
  reduce_spec q

/-- `PITCH_CLASSES` = the seven natural notes with C = 0 -/
theorem tables_pitch_classes :
    Tables.pitchClasses.length = 7 ∧ ∀ L : Letter, Tables.pitchClasses.lookup [L.char] = some L.pc :=
  ⟨by decide, pitchClasses_lookup⟩

/-- `SCALE_DEGREES` = the major scale over degrees 1..13 -/
theorem tables_scale_degrees :
    Tables.scaleDegrees.length = 13 ∧ ∀ n : DegNum, Tables.scaleDegrees.lookup n.render = some n.semitone :=
  ⟨by decide, scaleDegrees_lookup⟩

end Mir.C10
