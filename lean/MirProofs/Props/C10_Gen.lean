import MirGen.Scalars
import MirProofs.Lemmas.PyScalar
import MirProofs.Lemmas.Chord.Encode
/-
  C10 (chord scalar helpers) — the generated definitions of `chord.pitch_class_to_semitone` and
  `chord.scale_degree_to_semitone` (MirGen/Scalars.lean, regenerated from the source on every run) equal the
  hand-written models `Mir.Chord.pitchClassToSemitone` / `scaleDegreeToSemitone` for ALL strings.
-/
namespace Mir.C10.Gen
open Mir Mir.Chord

/-- from index 1 on, the translated loop is the hand-written `accLoop` -/
theorem loop_eq_accLoop (cs : List Char) (idx : Int) (h : 0 < idx) (sem : Option Int) :
    Mir.Gen.chord.pitch_class_to_semitone_loop1 idx sem cs = accLoop sem cs := by
  induction cs generalizing idx sem with
  | nil => rfl
  | cons c cs ih =>
    unfold Mir.Gen.chord.pitch_class_to_semitone_loop1 accLoop
    have h1 : 0 < idx + 1 := by omega
    have h0 : idx ≠ 0 := by omega
    by_cases hs : c = '#'
    · subst hs
      cases sem <;> simp [h, ih _ h1, bind, Except.bind]
    · by_cases hb : c = 'b'
      · subst hb
        cases sem <;> simp [h, ih _ h1, bind, Except.bind]
      · simp [hs, hb, h0]

/-- `chord.pitch_class_to_semitone` as translated = `Chord.pitchClassToSemitone` -/
theorem pitch_class_to_semitone_eq (s : List Char) :
    Mir.Gen.chord.pitch_class_to_semitone s = pitchClassToSemitone s := by
  unfold Mir.Gen.chord.pitch_class_to_semitone
  cases s with
  | nil => rfl
  | cons c cs =>
    unfold Mir.Gen.chord.pitch_class_to_semitone_loop1 pitchClassToSemitone
    simp only [lt_self_iff_false, decide_false, Bool.and_false, Bool.false_eq_true, if_false, decide_true,
      if_true, zero_add, Mir.PyS.dictGet]
    rw [loop_eq_accLoop cs 1 (by omega)]
    cases accLoop (List.lookup [c] MirGen.Tables.pitchClasses) cs with
    | error e => rfl
    | ok o => cases o <;> rfl

/-- the translated `if semitone is None: raise ...; return semitone + offset` against the hand-written `match` -/
theorem none_check_return (o : Option Int) (off off' : Int) (h : off = off') :
    (if o.isNone = true then Except.error PyErr.invalidChord
     else do let t ← Mir.PyS.unwrap o; pure (t + off) : Py Int) =
    (match o with | some v => .ok (v + off') | none => .error .invalidChord) := by
  subst h; cases o <;> rfl

/-- `chord.scale_degree_to_semitone` as translated = `Chord.scaleDegreeToSemitone` -/
theorem scale_degree_to_semitone_eq (s : List Char) :
    Mir.Gen.chord.scale_degree_to_semitone s = scaleDegreeToSemitone s := by
  unfold Mir.Gen.chord.scale_degree_to_semitone scaleDegreeToSemitone degreeOffset
  simp only [Mir.PyS.startsWith_single, Mir.PyS.dictGet, Mir.PyS.countChar, Mir.PyS.stripChar, decide_eq_true_eq]
  by_cases h1 : s.head? = some '#'
  · simp only [h1, if_true]; exact none_check_return _ _ _ rfl
  · by_cases h2 : s.head? = some 'b'
    · have hne : ¬ ((some 'b' : Option Char) = some '#') := by decide
      simp only [h2, hne, if_true, if_false]; exact none_check_return _ _ _ (by ring)
    · simp only [h1, h2, if_false]; exact none_check_return _ _ _ rfl

/-- C10 range of the root number, on the code as translated -/
theorem pitch_class_to_semitone_range (s : List Char) (n : Int)
    (h : Mir.Gen.chord.pitch_class_to_semitone s = .ok n) : 0 ≤ n ∧ n < 12 := by
  rw [pitch_class_to_semitone_eq] at h; exact pitchClass_range h

/-- `scale_degree_to_semitone` as translated either returns or raises InvalidChordException — never TypeError,
    although the source adds `offset` to the result of a `dict.get` -/
theorem scale_degree_to_semitone_total (s : List Char) :
    (∃ n, Mir.Gen.chord.scale_degree_to_semitone s = .ok n) ∨
      Mir.Gen.chord.scale_degree_to_semitone s = .error .invalidChord := by
  rw [scale_degree_to_semitone_eq]; exact scaleDegreeToSemitone_total s

/-- non-vacuity -/
example :
    Mir.Gen.chord.pitch_class_to_semitone "Gbb".toList = .ok 5 ∧
    Mir.Gen.chord.pitch_class_to_semitone "B#".toList = .ok 0 ∧
    Mir.Gen.chord.pitch_class_to_semitone "".toList = .ok 0 ∧
    Mir.Gen.chord.pitch_class_to_semitone "H#".toList = .error .typeError ∧
    Mir.Gen.chord.pitch_class_to_semitone "Cx".toList = .error .invalidChord ∧
    Mir.Gen.chord.scale_degree_to_semitone "b13".toList = .ok 20 ∧
    Mir.Gen.chord.scale_degree_to_semitone "##5".toList = .ok 9 ∧
    Mir.Gen.chord.scale_degree_to_semitone "#b3".toList = .error .invalidChord := by
  decide +kernel

end Mir.C10.Gen
