import MirGen.ChordFns
import MirProofs.Lemmas.PyScalar
import MirProofs.Lemmas.PyChord
import MirProofs.Lemmas.Chord.Encode
import MirProofs.Props.C10_Regex
import MirProofs.Props.C10_Gen
import MirProofs.Props.C10
/-!
  C10 (label functions) — the definitions of `chord.validate_chord_label`, `split`, `join`, `reduce_extended_quality`,
  `scale_degree_to_bitmap`, `quality_to_bitmap` and `encode` that
  harness/translate/scalars_chordfn.py REGENERATES from mir_eval/chord.py on every run (MirGen/ChordFns.lean) equal the
  hand-written models of `MirModel/Chord/{Split,Encode}.lean` for ALL arguments — every string,
  not only grammatical labels, exceptions included — and the headline statements of C10 hold of the translated functions.

  What the tie rests on: the translator and its run-time library `MirModel/PyChord.lean` (the reading of `str.split(c)`,
  `c.join`, `set`, `np.array`, `+=`, `v[i] = c` ...); `CHORD_RE.match` is NOT a new assumption: the generated
  `validate_chord_label` runs the regenerated pattern `Mir.Gen.chordRe` on the verified matcher, and `accepts_eq_reMatch`
  (from `C10_Regex.regex_iff_grammar`) identifies that with the grammar recogniser the hand models use.

  The proofs are written against the SHAPE classes the translator produces, not against one text: renamed locals,
  reordered independent statements, `dict.get` vs `in` + index, `match` vs `fullmatch`, a duplicated or merged `if`
  leave them intact (`py_cases` splits on whatever both sides branch on until they coincide).
-/
set_option linter.unusedSimpArgs false
namespace Mir.C10.GenFns
open Mir Mir.Chord Mir.PyChord

theorem reduce_extended_quality_eq_model (q : List Char) :
    Mir.Gen.chord.reduce_extended_quality q = .ok (reduceExtendedQuality q) := by
  unfold Mir.Gen.chord.reduce_extended_quality reduceExtendedQuality
  simp only [Mir.PyChord.dictGetD, Mir.PyS.dictHas, Mir.PyS.dictIndex, Mir.PyS.dictGet]
  rcases Option.eq_none_or_eq_some (List.lookup q MirGen.Tables.extendedQualityRedux) with h | ⟨⟨a, b⟩, h⟩ <;>
    simp [h, pure, Except.pure, bind, Except.bind]

theorem accepts_eq_reMatch (m : Mir.Rx.Method) (s : List Char) :
    Mir.Rx.accepts m Mir.Gen.chordRe s = reMatch s := by
  cases m
  · exact Mir.C10.Regex.regex_iff_grammar s
  · exact Mir.C10.Regex.fullmatch_iff_grammar s

theorem validate_chord_label_eq_model (s : List Char) :
    Mir.Gen.chord.validate_chord_label s = pyValidate s := by
  unfold Mir.Gen.chord.validate_chord_label pyValidate
  simp only [accepts_eq_reMatch]
  cases reMatch s <;> rfl

theorem quality_to_bitmap_eq_model (q : List Char) :
    Mir.Gen.chord.quality_to_bitmap q = qualityToBitmap q := by
  unfold Mir.Gen.chord.quality_to_bitmap qualityToBitmap
  simp only [Mir.PyChord.npArray, Mir.PyS.dictHas, Mir.PyS.dictIndex, Mir.PyS.dictGet]
  rcases Option.eq_none_or_eq_some (List.lookup q MirGen.Tables.qualities) with h | ⟨v, h⟩ <;>
    simp [h, pure, Except.pure, bind, Except.bind]

/-- the part of `scale_degree_to_bitmap` after the `*` prefix has been read -/
theorem bitmap_tail (t : List Char) (m : Bool) (n : Nat) (sign : Int) (k : Int → Py Vec)
    (hk : ∀ idx, k idx =
      if idx < (n : Int) ∨ m = true then .ok ((List.replicate n (0 : Int)).set (idx % (n : Int)).toNat sign)
      else .ok (List.replicate n 0)) :
    (do let i ← scaleDegreeToSemitone t; k i) =
      match scaleDegreeToSemitone t with
      | .error e => .error e
      | .ok idx =>
        if idx < (n : Int) ∨ m = true then .ok ((List.replicate n (0 : Int)).set (idx % (n : Int)).toNat sign)
        else .ok (List.replicate n 0) := by
  cases scaleDegreeToSemitone t with
  | error e => rfl
  | ok idx => exact hk idx

theorem scale_degree_to_bitmap_eq_model (s : List Char) (m : Bool) (n : Nat) (hn : 0 < n) :
    Mir.Gen.chord.scale_degree_to_bitmap s m (n : Int) = scaleDegreeToBitmap s m n := by
  have hpos : (0 : Int) < (n : Int) := by omega
  have key : ∀ (sign idx : Int),
      (if (decide (idx < (n : Int)) || m) = true then do
          let i ← pyMod idx (n : Int)
          let em ← listSet (listRepeat (0 : Int) (n : Int)) i sign
          pure (npArray em)
        else pure (npArray (listRepeat (0 : Int) (n : Int))) : Py Vec) =
      if idx < (n : Int) ∨ m = true then .ok ((List.replicate n (0 : Int)).set (idx % (n : Int)).toNat sign)
      else .ok (List.replicate n 0) := by
    intro sign idx
    have h0 := Int.emod_nonneg idx (by omega : (n : Int) ≠ 0)
    have h1 := Int.emod_lt_of_pos idx hpos
    have hset : listSet (List.replicate n (0 : Int)) (idx % (n : Int)) sign =
        .ok ((List.replicate n (0 : Int)).set (idx % (n : Int)).toNat sign) :=
      listSet_of_range sign h0 (by simpa using h1)
    simp only [pyMod_of_pos idx hpos, listRepeat_nat, npArray, Bool.or_eq_true, decide_eq_true_eq]
    split
    · simp only [bind, Except.bind, hset]; rfl
    · rfl
  unfold Mir.Gen.chord.scale_degree_to_bitmap scaleDegreeToBitmap degreeSign
  simp only [Mir.PyS.startsWith_single, Mir.PyS.stripChar, Mir.C10.Gen.scale_degree_to_semitone_eq, decide_eq_true_eq]
  by_cases h : s.head? = some '*'
  · simp only [h, if_true]
    exact bitmap_tail _ m n (-1) _ (fun idx => key (-1) idx)
  · simp only [h, if_false]
    exact bitmap_tail _ m n 1 _ (fun idx => key 1 idx)

/-- `validate_chord_label(x); return x` against the hand-written `match`, up to how the string was assembled -/
theorem validate_then_return (x y : List Char) (h : x = y) :
    (do let _ ← pyValidate x; pure x : Py (List Char)) =
      match pyValidate y with
      | .error e => .error e
      | .ok _ => .ok y := by
  subst h; cases pyValidate x <;> rfl

theorem join_eq_model (root q : List Char) (ext : Option (List (List Char))) (bass : List Char) :
    Mir.Gen.chord.join root q ext bass = pyJoin root q ext bass := by
  unfold Mir.Gen.chord.join pyJoin joinRaw
  have hbne : (bass != ['1']) = !decide (bass = ['1']) := by
    by_cases h : bass = ['1'] <;> simp [h]
  simp only [validate_chord_label_eq_model, joinSep_eq, hbne]
  cases ext with
  | none =>
    cases q.isEmpty <;> cases bass.isEmpty <;> cases decide (bass = ['1']) <;>
      simp only [truthyOpt, List.isEmpty_nil, Bool.not_true, Bool.not_false,
        Bool.or_false, Bool.false_or, Bool.true_or, Bool.or_true, Bool.and_true, Bool.true_and, Bool.and_false,
        Bool.false_and, if_true, if_false, Option.getD_none, Bool.false_eq_true] <;>
      refine validate_then_return _ _ ?_ <;> simp
  | some l =>
    simp only [truthyOpt, Option.getD_some, Mir.PyS.unwrap_some]
    rcases Bool.eq_false_or_eq_true q.isEmpty with h1 | h1 <;>
    rcases Bool.eq_false_or_eq_true bass.isEmpty with h2 | h2 <;>
    rcases Bool.eq_false_or_eq_true (decide (bass = ['1'])) with h3 | h3 <;>
    rcases Bool.eq_false_or_eq_true l.isEmpty with h4 | h4 <;>
      simp only [h1, h2, h3, h4, Bool.not_true, Bool.not_false,
        Bool.or_false, Bool.false_or, Bool.true_or, Bool.or_true, Bool.and_true, Bool.true_and, Bool.and_false,
        Bool.false_and, if_true, if_false, Bool.false_eq_true, Mir.PyS.unwrap_some, pure_bind, bind_pure] <;>
      refine validate_then_return _ _ ?_ <;> simp

theorem ok_bind {α β : Type} (a : α) (f : α → Py β) : (Except.ok a >>= f) = f a := rfl
theorem error_bind {α β : Type} (e : PyErr) (f : α → Py β) : ((Except.error e : Py α) >>= f) = Except.error e := rfl

theorem bind_eq_match {α β : Type} (x : Py α) (f : α → Py β) :
    (x >>= f) = match x with | .error e => .error e | .ok v => f v := by cases x <;> rfl

/-- case analysis of everything both sides branch on, until the two sides coincide -/
macro "py_cases" : tactic =>
  `(tactic| repeat' (first | rfl | (split <;> try simp_all only [ok_bind, error_bind, Bool.false_eq_true, if_true, if_false,
      Bool.not_true, Bool.not_false, Bool.and_true, Bool.true_and, Bool.and_false, Bool.false_and, List.isEmpty_nil,
      Bool.not_eq_true', Bool.not_eq_true, not_true_eq_false, not_false_eq_true, reduceCtorEq])))

theorem split_eq_model_flag (s : List Char) (r : Bool) (hr : r = false ∨ r = true) :
    Mir.Gen.chord.split s r = pySplit s r := by
  unfold Mir.Gen.chord.split pySplit
  simp only [validate_chord_label_eq_model, reduce_extended_quality_eq_model, hasChar_eq, splitOn_eq, stripWs_eq,
    unpack2_eq, setOfList_eq, setUpdate_eq, lower_eq, Mir.PyS.stripChar]
  rcases pyValidate_total s with hv | hv <;> simp only [hv, ok_bind, error_bind]
  by_cases hN : s = MirGen.Tables.noChord
  · simp only [hN, decide_true, if_true]; rfl
  simp only [hN, decide_false, if_false, Bool.false_eq_true]
  unfold splitCore splitBass splitDegrees splitQuality applyReduce
  rcases hr with hr | hr <;> subst hr <;> simp only [bind_eq_match, Bool.false_eq_true, if_true, if_false] <;> py_cases

theorem split_eq_model (s : List Char) (r : Bool) : Mir.Gen.chord.split s r = pySplit s r :=
  split_eq_model_flag s r (by cases r <;> simp)

theorem except_cases {α : Type} (x : Py α) : (∃ e, x = .error e) ∨ (∃ v, x = .ok v) := by
  cases x with
  | error e => exact Or.inl ⟨e, rfl⟩
  | ok v => exact Or.inr ⟨v, rfl⟩

/-- the translated `for scale_degree in scale_degrees: semitone_bitmap += scale_degree_to_bitmap(...)` is `addDegrees` -/
theorem encode_loop_eq (r : Bool) (ds : List (List Char)) (bm : List Int) (h : bm.length = 12) :
    Mir.Gen.chord.encode_loop1 r bm ds = addDegrees r bm ds := by
  induction ds generalizing bm with
  | nil => rfl
  | cons d ds ih =>
    unfold Mir.Gen.chord.encode_loop1 addDegrees
    have h12 : (MirGen.Tables.bitmapLength : Int) = ((12 : Nat) : Int) := rfl
    rw [h12, scale_degree_to_bitmap_eq_model d r 12 (by omega)]
    rcases scaleDegreeToBitmap_total d r with ⟨e, he, hl⟩ | he
    · have he' : scaleDegreeToBitmap d r 12 = .ok e := he
      simp only [he, he', ok_bind, vecIAdd_same (h.trans hl.symm)]
      exact ih _ (addBitmap_length h hl)
    · have he' : scaleDegreeToBitmap d r 12 = .error .invalidChord := he
      simp only [he, he', error_bind]

theorem encode_eq_model (s : List Char) (r sb : Bool) : Mir.Gen.chord.encode s r sb = pyEncode s r sb := by
  unfold Mir.Gen.chord.encode pyEncode
  simp only [split_eq_model, Mir.C10.Gen.pitch_class_to_semitone_eq, Mir.C10.Gen.scale_degree_to_semitone_eq,
    quality_to_bitmap_eq_model, astype_gt_zero, decide_eq_true_eq]
  by_cases hN : s = MirGen.Tables.noChord
  · simp only [hN, if_true]; rfl
  by_cases hX : s = MirGen.Tables.xChord
  · simp only [hN, hX, if_true, if_false]; rfl
  simp only [hN, hX, if_false]
  rcases except_cases (pySplit s r) with ⟨e, h0⟩ | ⟨⟨root, q, degs, bass⟩, h0⟩ <;> simp only [h0, ok_bind, error_bind]
  unfold encodeParts
  rcases except_cases (pitchClassToSemitone root) with ⟨e, h1⟩ | ⟨rn, h1⟩ <;> simp only [h1, ok_bind, error_bind]
  rcases except_cases (scaleDegreeToSemitone bass) with ⟨e, h2⟩ | ⟨b, h2⟩ <;> simp only [h2, ok_bind, error_bind]
  rcases qualityToBitmap_total q with ⟨bm, h3, hq⟩ | h3 <;> simp only [h3, ok_bind, error_bind]
  have hset : listSet bm 0 1 = .ok (bm.set 0 1) := listSet_of_range 1 (by omega) (by omega)
  simp only [hset, ok_bind, encode_loop_eq r degs (bm.set 0 1) (by simpa using hq)]
  rcases addDegrees_total r (bm.set 0 1) degs (by simpa using hq) with ⟨bm', h4, hl⟩ | h4 <;>
    simp only [h4, ok_bind, error_bind]
  have hr := emod12_range b
  have hlen : ((threshold bm').length : Int) = 12 := by rw [threshold_length, hl]; rfl
  have hget : listGet (threshold bm') (b % 12) = .ok ((threshold bm').getD (b % 12).toNat 0) :=
    listGet_of_range hr.1 (by omega)
  have hset2 : listSet (threshold bm') (b % 12) 1 = .ok ((threshold bm').set (b % 12).toNat 1) :=
    listSet_of_range 1 hr.1 (by omega)
  simp only [hget, hset2, ok_bind]
  by_cases hz : (threshold bm').getD (b % 12).toNat 0 = 0 <;> cases sb <;>
    simp [hz, hget, hset2, pure, Except.pure, bind, Except.bind]

/-- `scale_degree_to_bitmap` for the lengths no caller uses (`length <= 0`): `[0] * length` is empty, so an in-range
    degree raises ZeroDivisionError (`% 0`) or IndexError (store into an empty list), anything else returns `[]` -/
theorem scale_degree_to_bitmap_nonpos (s : List Char) (m : Bool) (n : Int) (hn : n ≤ 0) :
    Mir.Gen.chord.scale_degree_to_bitmap s m n =
      match scaleDegreeToSemitone (degreeSign s).2 with
      | .error e => .error e
      | .ok idx =>
        if idx < n ∨ m = true then (if n = 0 then .error .zeroDivision else .error .indexError) else .ok [] := by
  have key : ∀ (sign idx : Int),
      (if (decide (idx < n) || m) = true then do
          let i ← pyMod idx n
          let em ← listSet (listRepeat (0 : Int) n) i sign
          pure (npArray em)
        else pure (npArray (listRepeat (0 : Int) n)) : Py Vec) =
      if idx < n ∨ m = true then (if n = 0 then .error .zeroDivision else .error .indexError) else .ok [] := by
    intro sign idx
    simp only [listRepeat_nonpos (0 : Int) hn, npArray, Bool.or_eq_true, decide_eq_true_eq, listSet_nil]
    split
    · by_cases h0 : n = 0
      · subst h0; simp only [pyMod_zero, error_bind, if_true]
      · have : pyMod idx n = .ok (Int.fmod idx n) := by unfold pyMod; rw [if_neg h0]
        simp only [this, ok_bind, error_bind, h0, if_false]
    · rfl
  have tail : ∀ (t : List Char) (sign : Int) (k : Int → Py Vec)
      (_ : ∀ idx, k idx = if idx < n ∨ m = true then (if n = 0 then .error .zeroDivision else .error .indexError) else .ok []),
      (do let i ← scaleDegreeToSemitone t; k i) =
        match scaleDegreeToSemitone t with
        | .error e => .error e
        | .ok idx => if idx < n ∨ m = true then (if n = 0 then .error .zeroDivision else .error .indexError) else .ok [] := by
    intro t sign k hk
    cases scaleDegreeToSemitone t with
    | error e => rfl
    | ok idx => exact hk idx
  unfold Mir.Gen.chord.scale_degree_to_bitmap degreeSign
  simp only [Mir.PyS.startsWith_single, Mir.PyS.stripChar, Mir.C10.Gen.scale_degree_to_semitone_eq, decide_eq_true_eq]
  by_cases h : s.head? = some '*'
  · simp only [h, if_true]
    exact tail _ (-1) _ (fun idx => key (-1) idx)
  · simp only [h, if_false]
    exact tail _ 1 _ (fun idx => key 1 idx)

/-! ## The headline statements of C10, on the functions as translated -/

/-- `validate_chord_label` returns or raises InvalidChordException, nothing else, for EVERY string -/
theorem validate_chord_label_total (s : List Char) :
    Mir.Gen.chord.validate_chord_label s = .ok () ∨ Mir.Gen.chord.validate_chord_label s = .error .invalidChord := by
  rw [validate_chord_label_eq_model]; exact Mir.C10.validate_total s

/-- acceptance coincides with the documented Harte syntax -/
theorem validate_chord_label_iff_grammar (s : List Char) :
    Mir.Gen.chord.validate_chord_label s = .ok () ↔ ∃ l : Label, l.render = s := by
  rw [validate_chord_label_eq_model]; exact Mir.C10.validate_iff_grammar s

/-- `split` returns or raises InvalidChordException on EVERY string (the 2-target unpackings never trip) -/
theorem split_total (s : List Char) (r : Bool) :
    (∃ p, Mir.Gen.chord.split s r = .ok p) ∨ Mir.Gen.chord.split s r = .error .invalidChord := by
  rw [split_eq_model]; exact Mir.C10.split_total s r

/-- `encode` returns or raises InvalidChordException on EVERY string and both flags: no TypeError from
    `None % 12`, no IndexError from the vector stores, no ValueError from `+=`, no KeyError -/
theorem encode_total (s : List Char) (r sb : Bool) :
    (∃ e, Mir.Gen.chord.encode s r sb = .ok e) ∨ Mir.Gen.chord.encode s r sb = .error .invalidChord := by
  rw [encode_eq_model]; exact Mir.C10.encode_total s r sb

/-- every successful encoding other than N / X: root and bass in 0..11, a 12-element 0/1 bitmap containing the bass -/
theorem encode_range (s : List Char) (r sb : Bool) (root bass : Int) (bm : List Int)
    (hN : s ≠ ['N']) (hX : s ≠ ['X']) (h : Mir.Gen.chord.encode s r sb = .ok (root, bm, bass)) :
    0 ≤ root ∧ root < 12 ∧ bm.length = 12 ∧ (∀ b ∈ bm, b = 0 ∨ b = 1) ∧
      bm[bass.toNat]? = some 1 ∧ 0 ≤ bass ∧ bass < 12 := by
  rw [encode_eq_model] at h; exact Mir.C10.encode_range s r sb root bass bm hN hX h

/-- N and X encode to their reserved sentinels -/
theorem encode_sentinels (r sb : Bool) :
    Mir.Gen.chord.encode ['N'] r sb = .ok (-1, List.replicate 12 0, -1) ∧
    Mir.Gen.chord.encode ['X'] r sb = .ok (-1, List.replicate 12 (-1), -1) := by
  rw [encode_eq_model, encode_eq_model]; exact Mir.C10.sentinels r sb

/-- the documented encoding, for every derivable label -/
theorem encode_semantics (l : Label) (r sb : Bool) : Mir.Gen.chord.encode l.render r sb = specEncode l r sb := by
  rw [encode_eq_model]; exact Mir.C10.encode_semantics l r sb

/-- join ∘ split preserves the encoding, for EVERY order in which the degree set that `split` returned is handed on -/
theorem join_split_encode (l : Label) (hN : l ≠ .N) (hX : l ≠ .X) (r sb : Bool)
    (root q : List Char) (degs : List (List Char)) (bass : List Char)
    (hs : Mir.Gen.chord.split l.render r = .ok (root, q, degs, bass))
    (degs' : List (List Char)) (hp : degs'.Perm degs) :
    ∃ j, Mir.Gen.chord.join root q (some degs') bass = .ok j ∧
      Mir.Gen.chord.encode j r sb = Mir.Gen.chord.encode l.render r sb := by
  rw [split_eq_model] at hs
  obtain ⟨j, h1, h2⟩ := Mir.C10.join_split_encode l hN hX r sb root q degs bass hs degs' hp
  exact ⟨j, by rw [join_eq_model]; exact h1, by rw [encode_eq_model, encode_eq_model]; exact h2⟩

/-- the `for scale_degree in scale_degrees` loop of `encode` runs over a SET: as translated it visits the duplicate-free
    list in insertion order; neither its value nor the exception it raises depends on that order -/
theorem encode_loop_order_irrelevant (r : Bool) (bm : List Int) (h : bm.length = 12) (ds ds' : List (List Char))
    (hp : ds'.Perm ds) :
    Mir.Gen.chord.encode_loop1 r bm ds' = Mir.Gen.chord.encode_loop1 r bm ds := by
  rw [encode_loop_eq r ds' bm h, encode_loop_eq r ds bm h]; exact addDegrees_perm_total r bm h hp

/-! ## non-vacuity -/

example : Mir.Gen.chord.split "A:13(3,3)/b7".toList true =
    .ok ("A".toList, "7".toList, ["3".toList, "9".toList, "11".toList, "13".toList], "b7".toList) := by
  show (_ : Py Parts) = _; decide +kernel
example : Mir.Gen.chord.split "C".toList false = .ok ("C".toList, "maj".toList, [], "1".toList) := by
  show (_ : Py Parts) = _; decide +kernel
example : Mir.Gen.chord.split "A:(3)".toList false = .ok ("A".toList, [], ["3".toList], "1".toList) := by
  show (_ : Py Parts) = _; decide +kernel
example : Mir.Gen.chord.split "C(*3)".toList false = .error .invalidChord := by
  show (_ : Py Parts) = _; decide +kernel
example : Mir.Gen.chord.split "C\n".toList false = .error .invalidChord := by
  show (_ : Py Parts) = _; decide +kernel

example :
    Mir.Gen.chord.encode "C:min7(*5,9)/b3".toList false false = .ok (0, [1, 0, 0, 1, 0, 0, 0, 0, 0, 0, 1, 0], 3) ∧
    Mir.Gen.chord.encode "C:maj/2".toList false true = .error .invalidChord ∧
    Mir.Gen.chord.encode "C:aug7".toList false false = .error .invalidChord ∧
    Mir.Gen.chord.encode "B#:13".toList true false = .ok (0, [1, 0, 1, 0, 1, 1, 0, 1, 0, 1, 1, 0], 0) := by
  decide +kernel

example :
    Mir.Gen.chord.join "A".toList "7".toList (some ["13".toList, "9".toList]) "b7".toList = .ok "A:7(13,9)/b7".toList ∧
    Mir.Gen.chord.join "A".toList [] none "1".toList = .ok "A".toList ∧
    Mir.Gen.chord.join "X".toList "maj".toList (some []) "1".toList = .error .invalidChord := by decide +kernel

example :
    Mir.Gen.chord.scale_degree_to_bitmap "*b3".toList false 12 = .ok [0, 0, 0, -1, 0, 0, 0, 0, 0, 0, 0, 0] ∧
    Mir.Gen.chord.scale_degree_to_bitmap "9".toList false 12 = .ok (List.replicate 12 0) ∧
    Mir.Gen.chord.scale_degree_to_bitmap "9".toList true 12 = .ok [0, 0, 1, 0, 0, 0, 0, 0, 0, 0, 0, 0] ∧
    Mir.Gen.chord.scale_degree_to_bitmap "3".toList false 0 = .ok [] ∧
    Mir.Gen.chord.scale_degree_to_bitmap "3".toList true 0 = .error .zeroDivision ∧
    Mir.Gen.chord.scale_degree_to_bitmap "3".toList true (-2) = .error .indexError ∧
    Mir.Gen.chord.quality_to_bitmap "hdim7".toList = .ok [1, 0, 0, 1, 0, 0, 1, 0, 0, 0, 1, 0] ∧
    Mir.Gen.chord.quality_to_bitmap "aug7".toList = .error .invalidChord ∧
    Mir.Gen.chord.reduce_extended_quality "min11".toList = .ok ("min7".toList, ["9".toList, "11".toList]) := by
  decide +kernel

end Mir.C10.GenFns
