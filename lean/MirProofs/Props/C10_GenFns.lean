import MirGen.ChordFns
import MirProofs.Lemmas.PyScalar
import MirProofs.Lemmas.PyChord
import MirProofs.Lemmas.Chord.Encode
import MirProofs.Props.C10_Regex
import MirProofs.Props.C10_Gen
set_option linter.unusedSimpArgs false
namespace Mir.C10.GenFns
open Mir Mir.Chord Mir.PyChord

theorem reduce_extended_quality_eq_model (q : List Char) :
    Mir.Gen.chord.reduce_extended_quality q = .ok (reduceExtendedQuality q) := by
  unfold Mir.Gen.chord.reduce_extended_quality reduceExtendedQuality
  simp only [Mir.PyChord.dictGetD, Mir.PyS.dictHas, Mir.PyS.dictIndex]
  cases List.lookup q MirGen.Tables.extendedQualityRedux <;> rfl

theorem accepts_eq_reMatch (m : Mir.Rx.Method) (s : List Char) :
    Mir.Rx.accepts m Mir.Gen.chordRe s = reMatch s := by
  cases m
  · exact Mir.C10.Regex.regex_iff_grammar s
  · exact Mir.C10.Regex.fullmatch_iff_grammar s

theorem validate_chord_label_eq_model (s : List Char) :
    Mir.Gen.chord.validate_chord_label s = pyValidate s := by
  unfold Mir.Gen.chord.validate_chord_label pyValidate
  simp only [accepts_eq_reMatch]
  cases reMatch s <;> rfl

theorem quality_to_bitmap_eq_model (q : List Char) :
    Mir.Gen.chord.quality_to_bitmap q = qualityToBitmap q := by
  unfold Mir.Gen.chord.quality_to_bitmap qualityToBitmap
  simp only [Mir.PyChord.npArray, Mir.PyS.dictHas, Mir.PyS.dictIndex]
  rcases Option.eq_none_or_eq_some (List.lookup q MirGen.Tables.qualities) with h | ⟨v, h⟩ <;> simp only [h] <;> rfl

/-- the part of `scale_degree_to_bitmap` after the `*` prefix has been read -/
theorem bitmap_tail (t : List Char) (m : Bool) (n : Nat) (hn : 0 < n) (sign : Int) (k : Int → Py Vec)
    (hk : ∀ idx, k idx =
      if idx < (n : Int) ∨ m = true then .ok ((List.replicate n (0 : Int)).set (idx % (n : Int)).toNat sign)
      else .ok (List.replicate n 0)) :
    (do let i ← scaleDegreeToSemitone t; k i) =
      match scaleDegreeToSemitone t with
      | .error e => .error e
      | .ok idx =>
        if idx < (n : Int) ∨ m = true then .ok ((List.replicate n (0 : Int)).set (idx % (n : Int)).toNat sign)
        else .ok (List.replicate n 0) := by
  cases scaleDegreeToSemitone t with
  | error e => rfl
  | ok idx => exact hk idx

theorem scale_degree_to_bitmap_eq_model (s : List Char) (m : Bool) (n : Nat) (hn : 0 < n) :
    Mir.Gen.chord.scale_degree_to_bitmap s m (n : Int) = scaleDegreeToBitmap s m n := by
  have hpos : (0 : Int) < (n : Int) := by omega
  have key : ∀ (sign idx : Int),
      (if (decide (idx < (n : Int)) || m) = true then do
          let i ← pyMod idx (n : Int)
          let em ← listSet (listRepeat (0 : Int) (n : Int)) i sign
          pure (npArray em)
        else pure (npArray (listRepeat (0 : Int) (n : Int))) : Py Vec) =
      if idx < (n : Int) ∨ m = true then .ok ((List.replicate n (0 : Int)).set (idx % (n : Int)).toNat sign)
      else .ok (List.replicate n 0) := by
    intro sign idx
    have h0 := Int.emod_nonneg idx (by omega : (n : Int) ≠ 0)
    have h1 := Int.emod_lt_of_pos idx hpos
    have hset : listSet (List.replicate n (0 : Int)) (idx % (n : Int)) sign =
        .ok ((List.replicate n (0 : Int)).set (idx % (n : Int)).toNat sign) :=
      listSet_of_range sign h0 (by simpa using h1)
    simp only [pyMod_of_pos idx hpos, listRepeat_nat, npArray, Bool.or_eq_true, decide_eq_true_eq]
    split
    · simp only [bind, Except.bind, hset]; rfl
    · rfl
  unfold Mir.Gen.chord.scale_degree_to_bitmap scaleDegreeToBitmap degreeSign
  simp only [Mir.PyS.startsWith_single, Mir.PyS.stripChar, Mir.C10.Gen.scale_degree_to_semitone_eq, decide_eq_true_eq]
  by_cases h : s.head? = some '*'
  · simp only [h, if_true]
    exact bitmap_tail _ m n hn (-1) _ (fun idx => key (-1) idx)
  · simp only [h, if_false]
    exact bitmap_tail _ m n hn 1 _ (fun idx => key 1 idx)

/-- `validate_chord_label(x); return x` against the hand-written `match`, up to how the string was assembled -/
theorem validate_then_return (x y : List Char) (h : x = y) :
    (do let _ ← pyValidate x; pure x : Py (List Char)) =
      match pyValidate y with
      | .error e => .error e
      | .ok _ => .ok y := by
  subst h; cases pyValidate x <;> rfl

theorem join_eq_model (root q : List Char) (ext : Option (List (List Char))) (bass : List Char) :
    Mir.Gen.chord.join root q ext bass = pyJoin root q ext bass := by
  unfold Mir.Gen.chord.join pyJoin joinRaw
  have hbne : (bass != ['1']) = !decide (bass = ['1']) := by
    by_cases h : bass = ['1'] <;> simp [h]
  simp only [validate_chord_label_eq_model, joinSep_eq, hbne]
  cases ext with
  | none =>
    cases q.isEmpty <;> cases bass.isEmpty <;> cases decide (bass = ['1']) <;>
      simp only [truthyOpt, List.isEmpty_nil, Bool.not_true, Bool.not_false,
        Bool.or_false, Bool.false_or, Bool.true_or, Bool.or_true, Bool.and_true, Bool.true_and, Bool.and_false,
        Bool.false_and, if_true, if_false, Option.getD_none, Bool.false_eq_true] <;>
      refine validate_then_return _ _ ?_ <;> simp
  | some l =>
    simp only [truthyOpt, Option.getD_some, Mir.PyS.unwrap_some]
    rcases Bool.eq_false_or_eq_true q.isEmpty with h1 | h1 <;>
    rcases Bool.eq_false_or_eq_true bass.isEmpty with h2 | h2 <;>
    rcases Bool.eq_false_or_eq_true (decide (bass = ['1'])) with h3 | h3 <;>
    rcases Bool.eq_false_or_eq_true l.isEmpty with h4 | h4 <;>
      simp only [h1, h2, h3, h4, Bool.not_true, Bool.not_false,
        Bool.or_false, Bool.false_or, Bool.true_or, Bool.or_true, Bool.and_true, Bool.true_and, Bool.and_false,
        Bool.false_and, if_true, if_false, Bool.false_eq_true, Mir.PyS.unwrap_some, pure_bind, bind_pure] <;>
      refine validate_then_return _ _ ?_ <;> simp

theorem ok_bind {α β : Type} (a : α) (f : α → Py β) : (Except.ok a >>= f) = f a := rfl
theorem error_bind {α β : Type} (e : PyErr) (f : α → Py β) : ((Except.error e : Py α) >>= f) = Except.error e := rfl

theorem bind_eq_match {α β : Type} (x : Py α) (f : α → Py β) :
    (x >>= f) = match x with | .error e => .error e | .ok v => f v := by cases x <;> rfl

/-- case analysis of everything both sides branch on, until the two sides coincide -/
macro "py_cases" : tactic =>
  `(tactic| repeat' (first | rfl | (split <;> try simp_all only [ok_bind, error_bind, Bool.false_eq_true, if_true, if_false,
      Bool.not_true, Bool.not_false, Bool.and_true, Bool.true_and, Bool.and_false, Bool.false_and, List.isEmpty_nil,
      Bool.not_eq_true', Bool.not_eq_true, not_true_eq_false, not_false_eq_true, reduceCtorEq])))

theorem split_eq_model_flag (s : List Char) (r : Bool) (hr : r = false ∨ r = true) :
    Mir.Gen.chord.split s r = pySplit s r := by
  unfold Mir.Gen.chord.split pySplit
  simp only [validate_chord_label_eq_model, reduce_extended_quality_eq_model, hasChar_eq, splitOn_eq, stripWs_eq,
    unpack2_eq, setOfList_eq, setUpdate_eq, lower_eq, Mir.PyS.stripChar]
  rcases pyValidate_total s with hv | hv <;> simp only [hv, ok_bind, error_bind]
  by_cases hN : s = MirGen.Tables.noChord
  · simp only [hN, decide_true, if_true]; rfl
  simp only [hN, decide_false, if_false, Bool.false_eq_true]
  unfold splitCore splitBass splitDegrees splitQuality applyReduce
  rcases hr with hr | hr <;> subst hr <;> simp only [bind_eq_match, Bool.false_eq_true, if_true, if_false] <;> py_cases

theorem split_eq_model (s : List Char) (r : Bool) : Mir.Gen.chord.split s r = pySplit s r :=
  split_eq_model_flag s r (by cases r <;> simp)

theorem except_cases {α : Type} (x : Py α) : (∃ e, x = .error e) ∨ (∃ v, x = .ok v) := by
  cases x with
  | error e => exact Or.inl ⟨e, rfl⟩
  | ok v => exact Or.inr ⟨v, rfl⟩

/-- the translated `for scale_degree in scale_degrees: semitone_bitmap += scale_degree_to_bitmap(...)` is `addDegrees` -/
theorem encode_loop_eq (r : Bool) (ds : List (List Char)) (bm : List Int) (h : bm.length = 12) :
    Mir.Gen.chord.encode_loop1 r bm ds = addDegrees r bm ds := by
  induction ds generalizing bm with
  | nil => rfl
  | cons d ds ih =>
    unfold Mir.Gen.chord.encode_loop1 addDegrees
    have h12 : (MirGen.Tables.bitmapLength : Int) = ((12 : Nat) : Int) := rfl
    rw [h12, scale_degree_to_bitmap_eq_model d r 12 (by omega)]
    rcases scaleDegreeToBitmap_total d r with ⟨e, he, hl⟩ | he
    · have he' : scaleDegreeToBitmap d r 12 = .ok e := he
      simp only [he, he', ok_bind, vecIAdd_same (h.trans hl.symm)]
      exact ih _ (addBitmap_length h hl)
    · have he' : scaleDegreeToBitmap d r 12 = .error .invalidChord := he
      simp only [he, he', error_bind]

theorem encode_eq_model (s : List Char) (r sb : Bool) : Mir.Gen.chord.encode s r sb = pyEncode s r sb := by
  unfold Mir.Gen.chord.encode pyEncode
  simp only [split_eq_model, Mir.C10.Gen.pitch_class_to_semitone_eq, Mir.C10.Gen.scale_degree_to_semitone_eq,
    quality_to_bitmap_eq_model, astype_gt_zero, decide_eq_true_eq]
  by_cases hN : s = MirGen.Tables.noChord
  · simp only [hN, if_true]; rfl
  by_cases hX : s = MirGen.Tables.xChord
  · simp only [hN, hX, if_true, if_false]; rfl
  simp only [hN, hX, if_false]
  rcases except_cases (pySplit s r) with ⟨e, h0⟩ | ⟨⟨root, q, degs, bass⟩, h0⟩ <;> simp only [h0, ok_bind, error_bind]
  unfold encodeParts
  rcases except_cases (pitchClassToSemitone root) with ⟨e, h1⟩ | ⟨rn, h1⟩ <;> simp only [h1, ok_bind, error_bind]
  rcases except_cases (scaleDegreeToSemitone bass) with ⟨e, h2⟩ | ⟨b, h2⟩ <;> simp only [h2, ok_bind, error_bind]
  rcases qualityToBitmap_total q with ⟨bm, h3, hq⟩ | h3 <;> simp only [h3, ok_bind, error_bind]
  have hset : listSet bm 0 1 = .ok (bm.set 0 1) := listSet_of_range 1 (by omega) (by omega)
  simp only [hset, ok_bind, encode_loop_eq r degs (bm.set 0 1) (by simpa using hq)]
  rcases addDegrees_total r (bm.set 0 1) degs (by simpa using hq) with ⟨bm', h4, hl⟩ | h4 <;>
    simp only [h4, ok_bind, error_bind]
  have hr := emod12_range b
  have hlen : ((threshold bm').length : Int) = 12 := by rw [threshold_length, hl]; rfl
  have hget : listGet (threshold bm') (b % 12) = .ok ((threshold bm').getD (b % 12).toNat 0) :=
    listGet_of_range hr.1 (by omega)
  have hset2 : listSet (threshold bm') (b % 12) 1 = .ok ((threshold bm').set (b % 12).toNat 1) :=
    listSet_of_range 1 hr.1 (by omega)
  simp only [hget, hset2, ok_bind]
  by_cases hz : (threshold bm').getD (b % 12).toNat 0 = 0 <;> cases sb <;> simp [hz, pure, Except.pure]

end Mir.C10.GenFns
