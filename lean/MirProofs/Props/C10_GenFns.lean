import MirGen.ChordFns
import MirProofs.Lemmas.PyScalar
import MirProofs.Lemmas.Chord.Encode
namespace Mir.C10.GenFns
open Mir Mir.Chord

theorem reduce_extended_quality_eq_model (q : List Char) :
    Mir.Gen.chord.reduce_extended_quality q = .ok (reduceExtendedQuality q) := by
  unfold Mir.Gen.chord.reduce_extended_quality reduceExtendedQuality Mir.PyChord.dictGetD
  cases h : List.lookup q MirGen.Tables.extendedQualityRedux with
  | none => rfl
  | some v => rfl

end Mir.C10.GenFns
