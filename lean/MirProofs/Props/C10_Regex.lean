import MirProofs.Lemmas.ChordRe
import MirProofs.Lemmas.Chord.Split
/-!
  C10 (regex part) — `CHORD_RE`, REGENERATED from mir_eval/chord.py on every run (`MirGen/ChordRe.lean`,
  written by `harness/translate/regex.py` from Python's own parse of the pattern), accepts exactly the documented
  Harte grammar.

  Property theorems only.  Lemmas: `MirProofs/Lemmas/Regex.lean` (semantics of regexes, correctness of the
  executable matcher), `MirProofs/Lemmas/ChordRe.lean` (the language of the pattern, piece by piece).

  What remains trusted on this path: that Python's `re` implements the regular-expression semantics `Rx.Matches`
  (validated on every run by suite `re_match` of harness/props/c10.py), and the translator.
-/
namespace Mir.C10.Regex
open Mir.Chord Mir.Rx

/-! ## (a) the executable matcher decides the denotational semantics — for ALL regexes and ALL strings -/

/-- `q ∈ ends r p` iff `q` is `p` advanced over a word that `r` matches in that context
    (`l` = everything to the left of `p`; only its emptiness is visible to `^`) -/
theorem ends_correct (r : Regex) (l : List Char) (p q : Pos) (hp : p.atStart = l.isEmpty) :
    q ∈ ends r p ↔ ∃ w, p.rest = w ++ q.rest ∧ Matches r l w q.rest ∧ q.atStart = (p.atStart && w.isEmpty) ∧
      q.len = p.len - w.length :=
  ends_sound r l p q hp

/-- `pattern.match(s)`: some prefix of `s` is in the language, anchors interpreted against the whole of `s` -/
theorem matchPrefix_correct (r : Regex) (s : List Char) :
    matchPrefix r s = true ↔ ∃ w rest, s = w ++ rest ∧ Matches r [] w rest :=
  matchPrefix_iff r s

/-- `pattern.fullmatch(s)`: the whole of `s` is in the language -/
theorem fullMatch_correct (r : Regex) (s : List Char) : fullMatch r s = true ↔ Matches r [] s [] :=
  fullMatch_iff r s

example : (⟨false, ['\n'], 1⟩ : Pos) ∈ ends (.seq (.lit 'a') .eosNl) ⟨true, ['a', '\n'], 2⟩ :=
  (ends_correct _ [] _ _ rfl).2 ⟨['a'], rfl, ⟨['a'], [], rfl, rfl, rfl, Or.inr rfl⟩, rfl, rfl⟩
example : matchPrefix (.seq (.star (.lit 'a')) .eosNl) "aa\n".toList = true := by decide
example : matchPrefix (.seq (.star (.lit 'a')) .eos) "aa\n".toList = false := by decide
example : matchPrefix (.seq (.lit 'a') .bos) "a".toList = false := by decide
example : Matches (.star (.alt (.lit 'a') .eps)) [] ['a', 'a'] [] :=
  ⟨2, ['a'], ['a'], rfl, Or.inl rfl, ['a'], [], rfl, Or.inl rfl, rfl⟩

/-! ## (b) the regenerated pattern -/

/-- the regeneration tie: the term the translator produced from the CURRENT source is the regex whose language is
    analysed below, compiled without flags.  A changed pattern breaks this. -/
theorem generated_pattern : Mir.Gen.chordRe = expectedRe ∧ Mir.Gen.chordReFlags = 0 :=
  ⟨chordRe_eq_expected, rfl⟩

/-- the pieces of the pattern denote the pieces of the grammar, in every context:
    `(b*|#*)` accidentals, `([1-9]|1[0-3]?)` degree numbers, degrees, the comma-separated item list, the shorthand
    alternation, `:shorthand(list)? | :(list)`, `((/degree)?)?`, and the whole label -/
theorem pieces (l w rest : List Char) :
    (Matches accRe l w rest ↔ ∃ a : Acc, w = a.render) ∧
    (Matches numRe l w rest ↔ ∃ n : DegNum, w = n.render) ∧
    (Matches degRe l w rest ↔ ∃ d : Degree, w = d.render) ∧
    (Matches listRe l w rest ↔ ∃ p : DegItem × List DegItem, w = joinSep ',' ((p.1 :: p.2).map DegItem.render)) ∧
    (Matches shortRe l w rest ↔ ∃ q : Shorthand, w = q.name) ∧
    (Matches bodyRe l w rest ↔ ∃ b : Body, w = b.render) ∧
    (Matches bassRe l w rest ↔ ∃ b : Option Degree, w = renderBass b) ∧
    (Matches labelRe l w rest ↔ ∃ lab : Label, w = lab.render) :=
  ⟨img_acc l w rest, img_num l w rest, img_deg l w rest, img_list l w rest, img_short l w rest, img_body l w rest,
   img_bass l w rest, img_label l w rest⟩

example : Matches degRe ['C', ':', '('] "bb13".toList [')'] :=
  (pieces _ _ _).2.2.1.2 ⟨⟨.flats 1, .d13⟩, by decide⟩
example : ¬ Matches numRe [] "14".toList [] := by
  rw [(pieces _ _ _).2.1]; rintro ⟨n, h⟩; cases n <;> simp [DegNum.render] at h

/-- the language of the regenerated pattern: exactly the rendered labels, with nothing after them -/
theorem regex_language (w rest : List Char) :
    Matches Mir.Gen.chordRe [] w rest ↔ rest = [] ∧ ∃ lab : Label, w = lab.render := by
  rw [chordRe_eq_expected]; exact matches_expected

/-- THE tie: for every string, the regenerated `CHORD_RE` (run by the matcher, as `.match`) accepts it iff the
    grammar recogniser does -/
theorem regex_iff_grammar (s : List Char) : matchPrefix Mir.Gen.chordRe s = (recognize s).isSome := by
  rw [chordRe_eq_expected]; exact matchPrefix_expected s

/-- `.fullmatch` accepts the same strings (the pattern is anchored by `\Z`) -/
theorem fullmatch_iff_grammar (s : List Char) : fullMatch Mir.Gen.chordRe s = (recognize s).isSome := by
  rw [chordRe_eq_expected]; exact fullMatch_expected s

/-- the same through the method recorded from `validate_chord_label`, whichever of `match` / `fullmatch` it is -/
theorem accepts_iff_grammar (s : List Char) :
    accepts Mir.Gen.chordReMethod Mir.Gen.chordRe s = (recognize s).isSome := by
  generalize Mir.Gen.chordReMethod = m
  cases m with
  | matchStart => exact regex_iff_grammar s
  | fullMatch => exact fullmatch_iff_grammar s

/-- hence the model's `CHORD_RE.match` (`reMatch`, which every C10 theorem about validate/split/encode uses) IS the
    regenerated regex -/
theorem reMatch_eq_regex (s : Str) : reMatch s = accepts Mir.Gen.chordReMethod Mir.Gen.chordRe s :=
  (accepts_iff_grammar s).symm

/-- `validate_chord_label` returns normally iff the regenerated regex matches -/
theorem validate_iff_regex (s : Str) :
    pyValidate s = .ok () ↔ accepts Mir.Gen.chordReMethod Mir.Gen.chordRe s = true := by
  rw [pyValidate_ok_iff, reMatch_eq_regex]

example : accepts Mir.Gen.chordReMethod Mir.Gen.chordRe "Db:maj7/3".toList = true := by decide
example : pyValidate "Db:maj7/3".toList = .ok () := (validate_iff_regex _).2 (by decide)
example : matchPrefix Mir.Gen.chordRe "G#:min(*b3,*5)/5".toList = true := by decide
example : matchPrefix Mir.Gen.chordRe "C:maj(3,)".toList = false := by decide
example : matchPrefix Mir.Gen.chordRe "C/".toList = false := by decide
example : ∃ s, matchPrefix Mir.Gen.chordRe s = true ∧ (recognize s).isSome = true := ⟨"N".toList, by decide, by decide⟩

/-! ## regression: the repaired trailing-newline defect is expressible and distinguished -/

/-- with `$` in place of the final `\Z` the pattern accepts every label followed by one newline … -/
theorem dollar_accepts_trailing_newline (lab : Label) :
    matchPrefix Mir.Gen.chordRe.dollarize (lab.render ++ ['\n']) = true := by
  rw [chordRe_dollarize, matchPrefix_dollar]
  simp [Chord.recognize_render]

/-- … and precisely: the labels, and the labels followed by one newline -/
theorem dollar_language (s : List Char) :
    matchPrefix Mir.Gen.chordRe.dollarize s =
      ((recognize s).isSome || (s.getLast? == some '\n' && (recognize s.dropLast).isSome)) := by
  rw [chordRe_dollarize]; exact matchPrefix_dollar s

/-- the pattern as it is now rejects them -/
theorem repaired_rejects_trailing_newline (lab : Label) :
    matchPrefix Mir.Gen.chordRe (lab.render ++ ['\n']) = false := by
  rw [regex_iff_grammar, recognize_render_newline]; rfl

example : matchPrefix Mir.Gen.chordRe.dollarize "C:maj\n".toList = true := by decide
example : matchPrefix Mir.Gen.chordRe "C:maj\n".toList = false := by decide
example : matchPrefix Mir.Gen.chordRe.dollarize "C:maj\n\n".toList = false := by decide

end Mir.C10.Regex
