import MirProofs.Lemmas.ChordCompare
/-!
  C11 — chord comparison rules form the documented lattice.

  All statements are about the row model `Mir.ChordCompare.cmp` (MirModel/ChordCompare.lean), for EVERY pair of
  encodings that `chord.encode` can return (`Reachable`: N, X, or root < 12, 12-long 0/1 bitmap, bass < 12 with the
  bass bit set) — or, where reachability is not needed, for every pair of encodings whatsoever.
  (`ChordCompare.cmp` is written with its namespace because Mathlib also has a root-level `cmp`.)
  "Stricter implies looser" is proved in the strong pointwise form `f a b ≤ g a b` (scores are −1/0/1) and, as
  corollaries, in the form "a match is a match".
-/
namespace Mir.C11
open Mir.ChordCompare

/-! ### values, the −1 mask, self comparison -/

/-- every rule returns exactly one of −1, 0, 1 (no reachability needed) -/
theorem cmp_values (rule : Rule) (a b : Enc) :
    ChordCompare.cmp rule a b = -1 ∨ ChordCompare.cmp rule a b = 0 ∨ ChordCompare.cmp rule a b = 1 :=
  cmp_values_all rule a b

/-- whether a rule answers −1 depends on the reference alone -/
theorem ignore_depends_on_ref (rule : Rule) (a b b' : Enc) :
    ChordCompare.cmp rule a b = -1 ↔ ChordCompare.cmp rule a b' = -1 := by
  rw [cmp_eq_neg_one_iff, cmp_eq_neg_one_iff]

/-- comparing a label with itself never gives 0 -/
theorem cmp_self_ne_zero (rule : Rule) (a : Enc) (h : Reachable a) : ChordCompare.cmp rule a a ≠ 0 :=
  cmp_self_ne_zero_of_reachable rule h

/-- the reference X is ignored by all 12 rules -/
theorem x_ignored (rule : Rule) (b : Enc) : ChordCompare.cmp rule xChord b = -1 := by
  rw [cmp_eq_neg_one_iff]; cases rule <;> decide

/-! ### the lattice: stricter ≤ looser, pointwise -/

/-- `tetrads_inv ≤ tetrads ≤ triads ≤ thirds ≤ root` on every pair -/
theorem chain_le (a b : Enc) :
    tetradsInv a b ≤ tetrads a b ∧ tetrads a b ≤ triads a b ∧ triads a b ≤ thirds a b ∧
      thirds a b ≤ root a b :=
  ⟨tetradsInv_le_tetrads a b, tetrads_le_triads a b, triads_le_thirds a b, thirds_le_root a b⟩

/-- each `_inv` rule is below its plain rule, and the `_inv` rules are nested among themselves -/
theorem inv_le_plain (a b : Enc) :
    thirdsInv a b ≤ thirds a b ∧ triadsInv a b ≤ triads a b ∧ tetradsInv a b ≤ tetrads a b ∧
      majminInv a b ≤ majmin a b ∧ seventhsInv a b ≤ sevenths a b ∧
      tetradsInv a b ≤ triadsInv a b ∧ triadsInv a b ≤ thirdsInv a b :=
  ⟨thirdsInv_le_thirds a b, triadsInv_le_triads a b, tetradsInv_le_tetrads a b, majminInv_le_majmin a b,
   seventhsInv_le_sevenths a b, tetradsInv_le_triadsInv a b, triadsInv_le_thirdsInv a b⟩

/-- `majmin ≤ triads` for every reachable reference (an unreachable bitmap with a maj prefix and a negative tail
    would be "maj" for majmin and "X" for triads — hence the hypothesis) -/
theorem majmin_le_triads (a b : Enc) (h : Reachable a) : majmin a b ≤ triads a b :=
  ChordCompare.majmin_le_triads h b

/-- `sevenths ≤ tetrads` on every pair -/
theorem sevenths_le_tetrads (a b : Enc) : sevenths a b ≤ tetrads a b :=
  ChordCompare.sevenths_le_tetrads a b

/-- "a match under the stricter rule is a match under the looser rule", all documented arrows at once -/
theorem match_implications (a b : Enc) (h : Reachable a) :
    (tetradsInv a b = 1 → tetrads a b = 1) ∧ (tetrads a b = 1 → triads a b = 1) ∧
    (triads a b = 1 → thirds a b = 1) ∧ (thirds a b = 1 → root a b = 1) ∧
    (thirdsInv a b = 1 → thirds a b = 1) ∧ (triadsInv a b = 1 → triads a b = 1) ∧
    (majminInv a b = 1 → majmin a b = 1) ∧ (seventhsInv a b = 1 → sevenths a b = 1) ∧
    (majmin a b = 1 → triads a b = 1) ∧ (sevenths a b = 1 → tetrads a b = 1) := by
  have v := fun r => cmp_values_all r a b
  have c := chain_le a b
  have i := inv_le_plain a b
  have m := ChordCompare.majmin_le_triads h b
  have s := ChordCompare.sevenths_le_tetrads a b
  have v1 := v .tetrads; have v2 := v .triads; have v3 := v .thirds; have v4 := v .root
  have v5 := v .majmin; have v6 := v .sevenths
  simp only [ChordCompare.cmp] at v1 v2 v3 v4 v5 v6
  refine ⟨?_, ?_, ?_, ?_, ?_, ?_, ?_, ?_, ?_, ?_⟩ <;> intro h1 <;> omega

/-- a tetrads match is never a mirex mismatch -/
theorem tetrads_match_not_mirex_mismatch (a b : Enc) (h : Reachable a) (ht : tetrads a b = 1) :
    mirex a b ≠ 0 :=
  tetrads_one_mirex_ne_zero h ht

/-! ### vocabularies -/

/-- thirds, triads, tetrads, root and their `_inv` variants ignore exactly the reference X -/
theorem basic_rules_vocab (a b : Enc) (h : Reachable a) :
    (thirds a b = -1 ↔ a = xChord) ∧ (thirdsInv a b = -1 ↔ a = xChord) ∧ (triads a b = -1 ↔ a = xChord) ∧
    (triadsInv a b = -1 ↔ a = xChord) ∧ (tetrads a b = -1 ↔ a = xChord) ∧
    (tetradsInv a b = -1 ↔ a = xChord) ∧ (root a b = -1 ↔ a = xChord) := by
  have hx := reachable_anyNeg_iff h
  have f := fun r => cmp_eq_neg_one_iff r a b
  have f1 := f .thirds; have f2 := f .thirdsInv; have f3 := f .triads; have f4 := f .triadsInv
  have f5 := f .tetrads; have f6 := f .tetradsInv; have f7 := f .root
  simp only [ChordCompare.cmp, ignored, hx] at f1 f2 f3 f4 f5 f6 f7
  exact ⟨f1, f2, f3, f4, f5, f6, f7⟩

/-- mirex ignores X and references with one or two pitch classes -/
theorem mirex_vocab (a b : Enc) (h : Reachable a) :
    mirex a b = -1 ↔ ((0 < countPos a.bm ∧ countPos a.bm < 3) ∨ a = xChord) := by
  have f := cmp_eq_neg_one_iff .mirex a b
  simp only [ChordCompare.cmp, ignored] at f
  rw [f, ← reachable_anyNeg_iff h]
  simp

/-- majmin compares exactly N and the references whose first 8 bitmap entries are those of maj or min
    (so `C:7`, `C:maj6`, `C:maj/7` count as "maj": the rule reads the triad prefix — proved as is) -/
theorem majmin_vocab (a b : Enc) (h : Reachable a) :
    majmin a b ≠ -1 ↔
      (a = noChord ∨ a.bm.take 8 = [1, 0, 0, 0, 1, 0, 0, 1] ∨ a.bm.take 8 = [1, 0, 0, 1, 0, 0, 0, 1]) :=
  majmin_ne_neg_one_iff h b

/-- sevenths compares exactly N and the bitmaps of maj, min, maj7, 7, min7 -/
theorem sevenths_vocab (a b : Enc) (h : Reachable a) :
    sevenths a b ≠ -1 ↔
      (a = noChord ∨ a.bm = QUAL_maj ∨ a.bm = QUAL_min ∨ a.bm = QUAL_maj7 ∨ a.bm = QUAL_7 ∨
        a.bm = QUAL_min7) :=
  sevenths_ne_neg_one_iff h b

/-- a real chord never encodes to the zero bitmap, so the `""` row of the sevenths table means exactly N -/
theorem zero_bitmap_iff_N (a : Enc) (h : Reachable a) : a.bm = QUAL_none ↔ a = noChord :=
  zero_bitmap_iff_noChord h

/-- `majmin_inv` / `sevenths_inv` additionally require `bitmap[bass] ≠ 0`; `encode` forces that bit, so for
    every reachable reference the `_inv` vocabulary is the plain vocabulary (the inversion test is vacuous) -/
theorem inv_vocab (a b : Enc) (h : Reachable a) :
    validInversion a = true ∧ (majminInv a b = -1 ↔ majmin a b = -1) ∧
      (seventhsInv a b = -1 ↔ sevenths a b = -1) :=
  ⟨validInversion_of_reachable h, majminInv_neg_one_iff h b, seventhsInv_neg_one_iff h b⟩

/-! ### finding: `majmin_inv` does not require the bass to be in the triad

  Documented (docstring of `majmin_inv`): "the bass note must exist in the triad (bass in [1, 3, 5])".
  The code only inspects `bitmap[:8]`, and `encode` forces the bass bit, so a bass 8..11 semitones above the root
  (`C:maj/7`, `C:maj/b7`, `C:maj/6`, `C:min/b6` …) is accepted.  `MajminInvDocumented` is the documented set. -/

/-- full-strength statement: `majmin_inv` compares exactly the documented vocabulary. FALSE of the code. -/
def majmin_inv_vocab_full_statement : Prop :=
  ∀ a b : Enc, Reachable a → (majminInv a b ≠ -1 ↔ MajminInvDocumented a)

/-- witness: `encode('C:maj/7') = (0, [1,0,0,0,1,0,0,1,0,0,0,1], 11)` is compared (score 1 with itself) -/
theorem majmin_inv_vocab_full_statement_false : ¬ majmin_inv_vocab_full_statement := by
  intro h
  have hw := h ⟨0, [1, 0, 0, 0, 1, 0, 0, 1, 0, 0, 0, 1], 11⟩ ⟨0, [1, 0, 0, 0, 1, 0, 0, 1, 0, 0, 0, 1], 11⟩
    (by decide)
  exact absurd (hw.1 (by decide)) (by decide)

/-- strongest true version: the documented vocabulary is exact whenever the reference bass is below 8 semitones -/
theorem majmin_inv_vocab_partial (a b : Enc) (h : Reachable a) (h8 : a.bass < 8) :
    majminInv a b ≠ -1 ↔ MajminInvDocumented a :=
  majminInv_documented_of_bass_lt h h8 b

/-! ### non-vacuity -/

/-- `C:maj/3` vs `C:maj7/3`, `C:min` — reachable, and the chain takes different values along it -/
example :
    let a : Enc := ⟨0, [1, 0, 0, 0, 1, 0, 0, 1, 0, 0, 0, 0], 4⟩
    let b : Enc := ⟨0, [1, 0, 0, 0, 1, 0, 0, 1, 0, 0, 0, 1], 4⟩
    let c : Enc := ⟨0, [1, 0, 0, 1, 0, 0, 0, 1, 0, 0, 0, 0], 0⟩
    Reachable a ∧ Reachable b ∧ Reachable c ∧
      tetrads a b = 0 ∧ triads a b = 1 ∧ triadsInv a b = 1 ∧ majminInv a b = 1 ∧ sevenths a b = 0 ∧
      mirex a b = 1 ∧ thirds a c = 0 ∧ root a c = 1 ∧ mirex a c = 0 ∧ tetrads a a = 1 ∧
      ChordCompare.cmp .mirex xChord xChord = -1 ∧ ChordCompare.cmp .mirex noChord noChord = 1 ∧
      ChordCompare.cmp .root noChord xChord = 1 := by
  decide

/-- vocabularies are inhabited on both sides: `C:dim` is outside majmin and sevenths, `C:7` inside both,
    a one-note chord `C:1` is skipped by mirex, and the `majmin_inv` partial theorem is not vacuous -/
example :
    let dim : Enc := ⟨0, [1, 0, 0, 1, 0, 0, 1, 0, 0, 0, 0, 0], 0⟩
    let sev : Enc := ⟨0, [1, 0, 0, 0, 1, 0, 0, 1, 0, 0, 1, 0], 0⟩
    let one : Enc := ⟨0, [1, 0, 0, 0, 0, 0, 0, 0, 0, 0, 0, 0], 0⟩
    let inv : Enc := ⟨0, [1, 0, 0, 0, 1, 0, 0, 1, 0, 0, 0, 0], 7⟩
    Reachable dim ∧ Reachable sev ∧ Reachable one ∧ Reachable inv ∧
      majmin dim dim = -1 ∧ sevenths dim dim = -1 ∧ majmin sev sev = 1 ∧ sevenths sev sev = 1 ∧
      mirex one one = -1 ∧ inv.bass < 8 ∧ MajminInvDocumented inv ∧ majminInv inv inv = 1 ∧
      ¬ MajminInvDocumented dim := by
  decide

end Mir.C11
