import MirGen.ChordCmp
import MirProofs.Lemmas.PyCmp
import MirProofs.Props.C11_GenFns
set_option linter.unusedSimpArgs false
namespace Mir.C11.GenCmp
open Mir Mir.ChordCompare Mir.PyCmp
open Mir.Chord (pyValidate toEnc Encoded)

theorem forM_validate (ls : List PyCmp.Str) :
    ls.forM (fun (s : PyCmp.Str) => PyCmp.validate_chord_label s) = validateAll ls := by
  induction ls with
  | nil => rfl
  | cons s r ih =>
    have hc : (s :: r).forM (fun (s : PyCmp.Str) => PyCmp.validate_chord_label s) =
        (do PyCmp.validate_chord_label s; r.forM fun (s : PyCmp.Str) => PyCmp.validate_chord_label s) := rfl
    rw [hc, ih]
    simp only [validateAll, PyCmp.validate_chord_label]
    cases pyValidate s <;> rfl

theorem forM_pair {α : Type} (a b : α) (f : α → Py Unit) : [a, b].forM f = (do f a; f b) := by
  show (do f a; (do f b; (pure PUnit.unit : Py PUnit))) = _
  cases f a <;> simp [bind, Except.bind]
  cases f b <;> rfl

theorem validate_eq_model (ref est : List PyCmp.Str) : Mir.Gen.chord.validate ref est = validateLists ref est := by
  unfold Mir.Gen.chord.validate validateLists
  simp only [forM_pair, forM_validate]
  by_cases h : ref.length = est.length
  · simp [h]
    cases validateAll ref <;> simp [bind, Except.bind]
  · have : ((ref.length : Int) != (est.length : Int)) = true := by simp; omega
    simp [h, this, bind, Except.bind]

/-! the constant tables the rules read: the REGENERATED `QUALITIES` rows are the rows of the row model -/
theorem qual_maj : Mir.PyS.dictIndex MirGen.Tables.qualities ['m', 'a', 'j'] = .ok QUAL_maj := by decide
theorem qual_min : Mir.PyS.dictIndex MirGen.Tables.qualities ['m', 'i', 'n'] = .ok QUAL_min := by decide

theorem seventh_table :
    ([['m', 'a', 'j'], ['m', 'i', 'n'], ['m', 'a', 'j', '7'], ['7'], ['m', 'i', 'n', '7'], ([] : Mir.PyS.Str)].mapM
      (fun (name : PyCmp.Str) => do
        let t : List Int ← Mir.PyS.dictIndex MirGen.Tables.qualities name
        pure t)) = .ok seventhBitmaps := by rfl
theorem stack_seventh : PyCmp.stackRows seventhBitmaps = .ok seventhBitmaps := by rfl

/-- the vector-level primitives, unfolded to `map` / `zipWith` on tabulations -/
macro "cmp_vec" : tactic => `(tactic| simp [bind, Except.bind, pure, Except.pure, *, vecEq, bvecAnd, bvecOr, zipSame, zipWith_tab, map_tab,
  astypeFloat, maskSet, anyAxis1, allAxis1, matCmpS, vecCmpS, bvecEq0, col, sliceCols, matEq, matEqRow, sameShape, all_tab,
  sumAxis1, countAxis1, onesBoolLike, npArray, listTake, all_zipWith_beq, QUAL_maj, QUAL_min, seventhBitmaps, QUAL_7, QUAL_maj7, QUAL_min7, QUAL_none, stackRows, countAxis0, maskSelect_tab, pairIndex_map, maskStoreB_tab, Cmp.test])

/-- the row level: both sides are functions of row `i` of the two encodings -/
macro "cmp_row" : tactic => `(tactic| (apply tab_congr; intro i _; simp [ChordCompare.cmp, ChordCompare.root, ChordCompare.thirds, ChordCompare.thirdsInv, ChordCompare.triads, ChordCompare.triadsInv, ChordCompare.tetrads, ChordCompare.tetradsInv, maskX, anyNeg, b2i, eqRoot, eqBass, ChordCompare.majmin, majminVocab, isMaj, isMin, isNone, QUAL_maj, QUAL_min, ChordCompare.sevenths, seventhsVocab, ChordCompare.majminInv, ChordCompare.seventhsInv, validInversion, seventhBitmaps, QUAL_7, QUAL_maj7, QUAL_min7, QUAL_none, eqThird, eqPrefix8, eqAll, Cmp.test, *] <;> first | grind | grind (splits := 40)))

macro "cmp_frame" f:ident : tactic => `(tactic| (
  unfold $f cmpLabels
  rw [validate_eq_model]
  rcases hv : validateLists _ _ with e | u
  · rfl
  simp only [PyCmp.encode_many, Chord.pyEncodeMany]))

/-- the common frame: validation, the two `encode_many` calls (reference first), then the pure array part on tabulated
    rows, then the row level -/
macro "cmp_proof" f:ident r:ident e:ident : tactic => `(tactic| (
  unfold $f cmpLabels
  rw [validate_eq_model]
  cases hv : validateLists $r $e with
  | error e => rfl
  | ok u =>
    simp only [PyCmp.encode_many, Chord.pyEncodeMany, qual_maj, qual_min, seventh_table, stack_seventh, bind, Except.bind]
    cases hr : Chord.encodeAll false $r with
    | error e => rfl
    | ok rs =>
      cases he : Chord.encodeAll false $e with
      | error e => rfl
      | ok es =>
        obtain ⟨n, R, E, hn, hR, hE, h1, h2, h3, h4, h5, h6, hz⟩ := rows_tab (validateLists_ok_length hv) hr he
        have hbR := fun i => Reachable.bm_length (hR i)
        have hbE := fun i => Reachable.bm_length (hE i)
        have hsR := fun i => Reachable.bass_lt (hR i)
        cmp_vec
        cmp_row))

/-! ## the tie: each regenerated comparison function is the hand model, for ALL label lists -/

theorem root_eq_model (ref est : List PyCmp.Str) : Mir.Gen.chord.root ref est = cmpLabels .root ref est := by
  cmp_proof Mir.Gen.chord.root ref est

theorem thirds_eq_model (ref est : List PyCmp.Str) : Mir.Gen.chord.thirds ref est = cmpLabels .thirds ref est := by
  cmp_proof Mir.Gen.chord.thirds ref est

theorem thirds_inv_eq_model (ref est : List PyCmp.Str) :
    Mir.Gen.chord.thirds_inv ref est = cmpLabels .thirdsInv ref est := by
  cmp_proof Mir.Gen.chord.thirds_inv ref est

theorem triads_eq_model (ref est : List PyCmp.Str) : Mir.Gen.chord.triads ref est = cmpLabels .triads ref est := by
  cmp_proof Mir.Gen.chord.triads ref est

theorem triads_inv_eq_model (ref est : List PyCmp.Str) :
    Mir.Gen.chord.triads_inv ref est = cmpLabels .triadsInv ref est := by
  cmp_proof Mir.Gen.chord.triads_inv ref est

theorem tetrads_eq_model (ref est : List PyCmp.Str) : Mir.Gen.chord.tetrads ref est = cmpLabels .tetrads ref est := by
  cmp_proof Mir.Gen.chord.tetrads ref est

theorem tetrads_inv_eq_model (ref est : List PyCmp.Str) :
    Mir.Gen.chord.tetrads_inv ref est = cmpLabels .tetradsInv ref est := by
  cmp_proof Mir.Gen.chord.tetrads_inv ref est

theorem majmin_eq_model (ref est : List PyCmp.Str) : Mir.Gen.chord.majmin ref est = cmpLabels .majmin ref est := by
  cmp_proof Mir.Gen.chord.majmin ref est

theorem sevenths_eq_model (ref est : List PyCmp.Str) : Mir.Gen.chord.sevenths ref est = cmpLabels .sevenths ref est := by
  cmp_proof Mir.Gen.chord.sevenths ref est

theorem majmin_inv_eq_model (ref est : List PyCmp.Str) :
    Mir.Gen.chord.majmin_inv ref est = cmpLabels .majminInv ref est := by
  cmp_proof Mir.Gen.chord.majmin_inv ref est

theorem sevenths_inv_eq_model (ref est : List PyCmp.Str) :
    Mir.Gen.chord.sevenths_inv ref est = cmpLabels .seventhsInv ref est := by
  cmp_proof Mir.Gen.chord.sevenths_inv ref est

/-! ### mirex -/

/-- `rotate_bitmaps_to_roots` on rows of length 12 is the row-wise `ChordCompare.rotate` (through the regenerated
    `rotate_bitmap_to_root`, `C11.GenFns.rotate_bitmap_to_root_eq_model`) -/
theorem rotate_bitmaps_to_roots_tab (n : Nat) (bm : Nat → List Int) (root : Nat → Int) (h : ∀ i, (bm i).length = 12) :
    Mir.Gen.chord.rotate_bitmaps_to_roots (tab n bm) (tab n root) =
      .ok (tab n fun i => ChordCompare.rotate (bm i) (root i)) := by
  unfold Mir.Gen.chord.rotate_bitmaps_to_roots
  rw [zip_tab]
  rw [mapM_tab_ok n (fun i => (bm i, root i)) _ (fun i => ChordCompare.rotate (bm i) (root i))
    (fun i _ => by
      simp only [Mir.C11.GenFns.rotate_bitmap_to_root_eq_model (bm i) (root i) (by rw [h i]), bind, Except.bind,
        pure, Except.pure])]
  simp only [bind, Except.bind, asarrayRows]
  rw [stackRows_ok _ 12 (by
    intro r hr
    obtain ⟨i, _, rfl⟩ := mem_tab.1 hr
    rw [length_rotate, h i])]

theorem mirex_eq_model (ref est : List PyCmp.Str) (hne : ref ≠ []) :
    Mir.Gen.chord.mirex ref est = cmpLabels .mirex ref est := by
  unfold Mir.Gen.chord.mirex cmpLabels
  rw [validate_eq_model]
  cases hv : validateLists ref est with
  | error e => rfl
  | ok u =>
    simp only [PyCmp.encode_many, Chord.pyEncodeMany, bind, Except.bind]
    cases hr : Chord.encodeAll false ref with
    | error e => rfl
    | ok rs =>
      have hbR := fun i => Reachable.bm_length (rowAt_reachable hr i)
      simp only [map_root_tab, map_bm_tab, map_bass_tab, rotate_bitmaps_to_roots_tab _ _ _ hbR]
      cases he : Chord.encodeAll false est with
      | error e => rfl
      | ok es =>
        have hbE := fun i => Reachable.bm_length (rowAt_reachable he i)
        have hrl := ((Chord.encodeAll_ok_iff false ref rs).1 hr).1
        have hel := ((Chord.encodeAll_ok_iff false est es).1 he).1
        have hlen : es.length = rs.length := by have := validateLists_ok_length hv; omega
        have hn0 : rs.length ≠ 0 := by
          intro h0; apply hne; apply List.eq_nil_of_length_eq_zero; omega
        simp only [map_root_tab, map_bm_tab, map_bass_tab, hlen, rotate_bitmaps_to_roots_tab _ _ _ hbE,
          zipWith_cmp_tab _ rs es hlen]
        simp [bind, Except.bind, pure, Except.pure, vecEq, bvecAnd, bvecOr, zipSame, zipWith_tab, map_tab,
          astypeFloat, maskSet, maskSet0d, isEmpty_tab, hn0, anyAxis1, allAxis1, matCmpS, vecCmpS, matMul, sameShape, all_tab,
          sumAxis1, countAxis1, length_rotate, hbR, hbE, countPos_map]
        apply tab_congr; intro i _
        have hc : (List.filter id (List.map (fun x => decide (0 < x)) (rowAt rs i).bm)).length =
            ((rowAt rs i).bm.filter (fun v => decide (v > 0))).length := by
          rw [List.filter_map, List.length_map]; rfl
        simp [ChordCompare.cmp, ChordCompare.mirex, ChordCompare.dot, countPos, maskX, anyNeg, b2i, Cmp.test, hc]

/-- on two EMPTY lists mirex does not return an empty array as the other eleven rules do: `np.asarray([])` is 1-D, the
    score is a 0-d `numpy.float64`, and the first masked store raises TypeError (observed on the real function; C11
    quantifies over label PAIRS, so this is outside its statement) -/
theorem mirex_empty : Mir.Gen.chord.mirex [] [] = .error .typeError := by rfl

end Mir.C11.GenCmp
