import MirGen.ChordCmp
namespace Mir.C11.GenCmp
theorem placeholder : True := trivial
end Mir.C11.GenCmp
