import MirGen.ChordCmp
import MirProofs.Lemmas.PyCmp
import MirProofs.Props.C11_GenFns
import MirProofs.Props.C11_Labels
set_option linter.unusedSimpArgs false
set_option linter.unusedTactic false
set_option linter.unreachableTactic false
namespace Mir.C11.GenCmp
open Mir Mir.ChordCompare Mir.PyCmp
open Mir.Chord (pyValidate toEnc Encoded)

theorem forM_validate (ls : List PyCmp.Str) :
    ls.forM (fun (s : PyCmp.Str) => PyCmp.validate_chord_label s) = validateAll ls := by
  induction ls with
  | nil => rfl
  | cons s r ih =>
    have hc : (s :: r).forM (fun (s : PyCmp.Str) => PyCmp.validate_chord_label s) =
        (do PyCmp.validate_chord_label s; r.forM fun (s : PyCmp.Str) => PyCmp.validate_chord_label s) := rfl
    rw [hc, ih]
    simp only [validateAll, PyCmp.validate_chord_label]
    cases pyValidate s <;> rfl

theorem forM_pair {α : Type} (a b : α) (f : α → Py Unit) : [a, b].forM f = (do f a; f b) := by
  show (do f a; (do f b; (pure PUnit.unit : Py PUnit))) = _
  cases f a <;> simp [bind, Except.bind]
  cases f b <;> rfl

theorem validate_eq_model (ref est : List PyCmp.Str) : Mir.Gen.chord.validate ref est = validateLists ref est := by
  unfold Mir.Gen.chord.validate validateLists
  simp only [forM_pair, forM_validate]
  by_cases h : ref.length = est.length
  · simp [h]
    cases validateAll ref <;> simp [bind, Except.bind]
  · have : ((ref.length : Int) != (est.length : Int)) = true := by simp; omega
    simp [h, this, bind, Except.bind]

/-! the constant tables the rules read: the REGENERATED `QUALITIES` rows are the rows of the row model -/
theorem qual_maj : Mir.PyS.dictIndex MirGen.Tables.qualities ['m', 'a', 'j'] = .ok QUAL_maj := by decide
theorem qual_min : Mir.PyS.dictIndex MirGen.Tables.qualities ['m', 'i', 'n'] = .ok QUAL_min := by decide

theorem seventh_table :
    ([['m', 'a', 'j'], ['m', 'i', 'n'], ['m', 'a', 'j', '7'], ['7'], ['m', 'i', 'n', '7'], ([] : Mir.PyS.Str)].mapM
      (fun (name : PyCmp.Str) => do
        let t : List Int ← Mir.PyS.dictIndex MirGen.Tables.qualities name
        pure t)) = .ok seventhBitmaps := by rfl
theorem stack_seventh : PyCmp.stackRows seventhBitmaps = .ok seventhBitmaps := by rfl

/-- the vector-level primitives, unfolded to `map` / `zipWith` on tabulations -/
macro "cmp_vec" : tactic => `(tactic| simp [bind, Except.bind, pure, Except.pure, *, vecEq, bvecAnd, bvecOr, zipSame, zipWith_tab, map_tab,
  astypeFloat, maskSet, anyAxis1, allAxis1, matCmpS, vecCmpS, bvecEq0, col, sliceCols, matEq, matEqRow, sameShape, all_tab,
  sumAxis1, countAxis1, onesBoolLike, npArray, listTake, all_zipWith_beq, QUAL_maj, QUAL_min, seventhBitmaps, QUAL_7, QUAL_maj7, QUAL_min7, QUAL_none, stackRows, countAxis0, maskSelect_tab, pairIndex_map, maskStoreB_tab, Cmp.test])

/-- the row level: both sides are functions of row `i` of the two encodings -/
macro "cmp_row" : tactic => `(tactic| (apply tab_congr; intro i _; simp [ChordCompare.cmp, ChordCompare.root, ChordCompare.thirds, ChordCompare.thirdsInv, ChordCompare.triads, ChordCompare.triadsInv, ChordCompare.tetrads, ChordCompare.tetradsInv, maskX, anyNeg, b2i, eqRoot, eqBass, ChordCompare.majmin, majminVocab, isMaj, isMin, isNone, QUAL_maj, QUAL_min, ChordCompare.sevenths, seventhsVocab, ChordCompare.majminInv, ChordCompare.seventhsInv, validInversion, seventhBitmaps, QUAL_7, QUAL_maj7, QUAL_min7, QUAL_none, eqThird, eqPrefix8, eqAll, Cmp.test, *] <;> first | grind | grind (splits := 40) | (split_ifs <;> tauto)))

macro "cmp_frame" f:ident : tactic => `(tactic| (
  unfold $f cmpLabels
  rw [validate_eq_model]
  rcases hv : validateLists _ _ with e | u
  · rfl
  simp only [PyCmp.encode_many, Chord.pyEncodeMany]))

/-- the common frame: validation, the two `encode_many` calls (reference first), then the pure array part on tabulated
    rows, then the row level -/
macro "cmp_proof" f:ident r:ident e:ident : tactic => `(tactic| (
  unfold $f cmpLabels
  rw [validate_eq_model]
  cases hv : validateLists $r $e with
  | error e => rfl
  | ok u =>
    simp only [PyCmp.encode_many, Chord.pyEncodeMany, qual_maj, qual_min, seventh_table, stack_seventh, bind, Except.bind]
    cases hr : Chord.encodeAll false $r with
    | error e => rfl
    | ok rs =>
      cases he : Chord.encodeAll false $e with
      | error e => rfl
      | ok es =>
        obtain ⟨n, R, E, hn, hR, hE, h1, h2, h3, h4, h5, h6, hz⟩ := rows_tab (validateLists_ok_length hv) hr he
        have hbR := fun i => Reachable.bm_length (hR i)
        have hbE := fun i => Reachable.bm_length (hE i)
        have hsR := fun i => Reachable.bass_lt (hR i)
        cmp_vec
        cmp_row))

/-! ## the tie: each regenerated comparison function is the hand model, for ALL label lists -/

theorem root_eq_model (ref est : List PyCmp.Str) : Mir.Gen.chord.root ref est = cmpLabels .root ref est := by
  cmp_proof Mir.Gen.chord.root ref est

theorem thirds_eq_model (ref est : List PyCmp.Str) : Mir.Gen.chord.thirds ref est = cmpLabels .thirds ref est := by
  cmp_proof Mir.Gen.chord.thirds ref est

theorem thirds_inv_eq_model (ref est : List PyCmp.Str) :
    Mir.Gen.chord.thirds_inv ref est = cmpLabels .thirdsInv ref est := by
  cmp_proof Mir.Gen.chord.thirds_inv ref est

theorem triads_eq_model (ref est : List PyCmp.Str) : Mir.Gen.chord.triads ref est = cmpLabels .triads ref est := by
  cmp_proof Mir.Gen.chord.triads ref est

theorem triads_inv_eq_model (ref est : List PyCmp.Str) :
    Mir.Gen.chord.triads_inv ref est = cmpLabels .triadsInv ref est := by
  cmp_proof Mir.Gen.chord.triads_inv ref est

theorem tetrads_eq_model (ref est : List PyCmp.Str) : Mir.Gen.chord.tetrads ref est = cmpLabels .tetrads ref est := by
  cmp_proof Mir.Gen.chord.tetrads ref est

theorem tetrads_inv_eq_model (ref est : List PyCmp.Str) :
    Mir.Gen.chord.tetrads_inv ref est = cmpLabels .tetradsInv ref est := by
  cmp_proof Mir.Gen.chord.tetrads_inv ref est

theorem majmin_eq_model (ref est : List PyCmp.Str) : Mir.Gen.chord.majmin ref est = cmpLabels .majmin ref est := by
  cmp_proof Mir.Gen.chord.majmin ref est

theorem sevenths_eq_model (ref est : List PyCmp.Str) : Mir.Gen.chord.sevenths ref est = cmpLabels .sevenths ref est := by
  cmp_proof Mir.Gen.chord.sevenths ref est

theorem majmin_inv_eq_model (ref est : List PyCmp.Str) :
    Mir.Gen.chord.majmin_inv ref est = cmpLabels .majminInv ref est := by
  cmp_proof Mir.Gen.chord.majmin_inv ref est

theorem sevenths_inv_eq_model (ref est : List PyCmp.Str) :
    Mir.Gen.chord.sevenths_inv ref est = cmpLabels .seventhsInv ref est := by
  cmp_proof Mir.Gen.chord.sevenths_inv ref est

/-! ### mirex -/

/-- `rotate_bitmaps_to_roots` on rows of length 12 is the row-wise `ChordCompare.rotate` (through the regenerated
    `rotate_bitmap_to_root`, `C11.GenFns.rotate_bitmap_to_root_eq_model`) -/
theorem rotate_bitmaps_to_roots_tab (n : Nat) (bm : Nat → List Int) (root : Nat → Int) (h : ∀ i, (bm i).length = 12) :
    Mir.Gen.chord.rotate_bitmaps_to_roots (tab n bm) (tab n root) =
      .ok (tab n fun i => ChordCompare.rotate (bm i) (root i)) := by
  unfold Mir.Gen.chord.rotate_bitmaps_to_roots
  rw [zip_tab]
  rw [mapM_tab_ok n (fun i => (bm i, root i)) _ (fun i => ChordCompare.rotate (bm i) (root i))
    (fun i _ => by
      simp only [Mir.C11.GenFns.rotate_bitmap_to_root_eq_model (bm i) (root i) (by rw [h i]), bind, Except.bind,
        pure, Except.pure])]
  simp only [bind, Except.bind, asarrayRows]
  rw [stackRows_ok _ 12 (by
    intro r hr
    obtain ⟨i, _, rfl⟩ := mem_tab.1 hr
    rw [length_rotate, h i])]

theorem mirex_eq_model (ref est : List PyCmp.Str) (hne : ref ≠ [] ∨ est ≠ []) :
    Mir.Gen.chord.mirex ref est = cmpLabels .mirex ref est := by
  unfold Mir.Gen.chord.mirex cmpLabels
  rw [validate_eq_model]
  cases hv : validateLists ref est with
  | error e => rfl
  | ok u =>
    simp only [PyCmp.encode_many, Chord.pyEncodeMany, bind, Except.bind]
    cases hr : Chord.encodeAll false ref with
    | error e => rfl
    | ok rs =>
      have hbR := fun i => Reachable.bm_length (rowAt_reachable hr i)
      simp only [map_root_tab, map_bm_tab, map_bass_tab, rotate_bitmaps_to_roots_tab _ _ _ hbR]
      cases he : Chord.encodeAll false est with
      | error e => rfl
      | ok es =>
        have hbE := fun i => Reachable.bm_length (rowAt_reachable he i)
        have hrl := ((Chord.encodeAll_ok_iff false ref rs).1 hr).1
        have hel := ((Chord.encodeAll_ok_iff false est es).1 he).1
        have hlen : es.length = rs.length := by have := validateLists_ok_length hv; omega
        have hn0 : rs.length ≠ 0 := by
          intro h0
          have hvl := validateLists_ok_length hv
          rcases hne with h | h <;> apply h <;> apply List.eq_nil_of_length_eq_zero <;> omega
        simp only [map_root_tab, map_bm_tab, map_bass_tab, hlen, rotate_bitmaps_to_roots_tab _ _ _ hbE,
          zipWith_cmp_tab _ rs es hlen]
        simp [bind, Except.bind, pure, Except.pure, vecEq, bvecAnd, bvecOr, zipSame, zipWith_tab, map_tab,
          astypeFloat, maskSet, maskSet0d, isEmpty_tab, hn0, anyAxis1, allAxis1, matCmpS, vecCmpS, matMul, sameShape, all_tab,
          sumAxis1, countAxis1, length_rotate, hbR, hbE, countPos_map]
        apply tab_congr; intro i _
        have hc : (List.filter id (List.map (fun x => decide (0 < x)) (rowAt rs i).bm)).length =
            ((rowAt rs i).bm.filter (fun v => decide (v > 0))).length := by
          rw [List.filter_map, List.length_map]; rfl
        simp [ChordCompare.cmp, ChordCompare.mirex, ChordCompare.dot, countPos, maskX, anyNeg, b2i, Cmp.test, hc] <;>
          first | grind | (split_ifs <;> tauto)

/-- on two EMPTY lists mirex does not return an empty array as the other eleven rules do: `np.asarray([])` is 1-D, the
    score is a 0-d `numpy.float64`, and the first masked store raises TypeError (observed on the real function; C11
    quantifies over label PAIRS, so this is outside its statement) -/
theorem mirex_empty : Mir.Gen.chord.mirex [] [] = .error .typeError := by rfl

/-! ## the twelve regenerated functions as one family -/

/-- the regenerated definition of each rule -/
def genCmp : Rule → List PyCmp.Str → List PyCmp.Str → Py PyCmp.Vec
  | .thirds => Mir.Gen.chord.thirds | .thirdsInv => Mir.Gen.chord.thirds_inv | .triads => Mir.Gen.chord.triads
  | .triadsInv => Mir.Gen.chord.triads_inv | .tetrads => Mir.Gen.chord.tetrads
  | .tetradsInv => Mir.Gen.chord.tetrads_inv | .root => Mir.Gen.chord.root | .mirex => Mir.Gen.chord.mirex
  | .majmin => Mir.Gen.chord.majmin | .majminInv => Mir.Gen.chord.majmin_inv | .sevenths => Mir.Gen.chord.sevenths
  | .seventhsInv => Mir.Gen.chord.sevenths_inv

/-- ALL TWELVE: the function as translated from the source is the hand model, on every pair of label lists that are not
    both empty (any lengths; for mirex on two empty lists see `mirex_empty`, the other eleven also agree there) -/
theorem genCmp_eq_model (rule : Rule) (ref est : List PyCmp.Str) (hne : ref ≠ [] ∨ est ≠ []) :
    genCmp rule ref est = cmpLabels rule ref est := by
  cases rule
  · exact thirds_eq_model ref est
  · exact thirds_inv_eq_model ref est
  · exact triads_eq_model ref est
  · exact triads_inv_eq_model ref est
  · exact tetrads_eq_model ref est
  · exact tetrads_inv_eq_model ref est
  · exact root_eq_model ref est
  · exact mirex_eq_model ref est hne
  · exact majmin_eq_model ref est
  · exact majmin_inv_eq_model ref est
  · exact sevenths_eq_model ref est
  · exact sevenths_inv_eq_model ref est

theorem cmpLabels_ok_inv {rule : Rule} {ref est : List PyCmp.Str} {v : List Int} (h : cmpLabels rule ref est = .ok v) :
    ∃ rs es, ref.length = est.length ∧ Chord.encodeAll false ref = .ok rs ∧ Chord.encodeAll false est = .ok es ∧
      v = List.zipWith (fun r e => ChordCompare.cmp rule (toEnc r) (toEnc e)) rs es := by
  unfold cmpLabels at h
  split at h
  · simp at h
  · rename_i u hv
    split at h
    · simp at h
    · rename_i rs hr
      split at h
      · simp at h
      · rename_i es he
        exact ⟨rs, es, validateLists_ok_length hv, hr, he, (Except.ok.inj h).symm⟩

/-! ## exceptions: different lengths, labels that are not chord labels, labels that cannot be encoded -/

/-- lists of different lengths: every regenerated rule raises ValueError, before looking at any label -/
theorem gen_unequal_lengths (rule : Rule) (ref est : List PyCmp.Str) (h : ref.length ≠ est.length) :
    genCmp rule ref est = .error .valueError := by
  rw [genCmp_eq_model rule ref est (by
    by_contra hc
    simp only [not_or, not_not] at hc
    rw [hc.1, hc.2] at h; exact h rfl)]
  unfold cmpLabels validateLists
  simp [h]

/-- the only exceptions a regenerated rule can raise on lists that are not both empty are ValueError (lengths) and
    InvalidChordException (a label outside the grammar, or grammar-valid but not encodable) -/
theorem gen_total (rule : Rule) (ref est : List PyCmp.Str) (hne : ref ≠ [] ∨ est ≠ []) :
    (∃ v, genCmp rule ref est = .ok v) ∨ genCmp rule ref est = .error .valueError ∨
      genCmp rule ref est = .error .invalidChord := by
  rw [genCmp_eq_model rule ref est hne]
  have hva : ∀ ls : List PyCmp.Str, validateAll ls = .ok () ∨ validateAll ls = .error .invalidChord := by
    intro ls
    induction ls with
    | nil => left; rfl
    | cons s r ih =>
      unfold validateAll Chord.pyValidate
      by_cases hm : Chord.reMatch s = true
      · simpa [hm] using ih
      · right; simp [hm]
  unfold cmpLabels validateLists
  by_cases hl : ref.length = est.length
  · simp only [hl, if_true]
    rcases hva ref with h1 | h1
    · rcases hva est with h2 | h2
      · simp only [h1, h2]
        rcases Chord.encodeAll_total false ref with ⟨rs, hr⟩ | hr
        · rcases Chord.encodeAll_total false est with ⟨es, he⟩ | he
          · simp only [hr, he]; left; exact ⟨_, rfl⟩
          · simp only [hr, he]; right; right; trivial
        · simp only [hr]; right; right; trivial
      · simp only [h1, h2]; right; right; trivial
    · simp only [h1]; right; right; trivial
  · simp only [hl, if_false]; right; left; trivial

/-! ## the C11 headline statements on the TRANSLATED definitions -/

/-- every entry a regenerated rule returns is −1, 0 or 1 -/
theorem gen_values (rule : Rule) (ref est : List PyCmp.Str) (hne : ref ≠ [] ∨ est ≠ []) (v : List Int)
    (h : genCmp rule ref est = .ok v) : ∀ x ∈ v, x = -1 ∨ x = 0 ∨ x = 1 := by
  rw [genCmp_eq_model rule ref est hne] at h
  obtain ⟨rs, es, _, _, _, rfl⟩ := cmpLabels_ok_inv h
  intro x hx
  obtain ⟨i, hi, rfl⟩ := List.getElem_of_mem hx
  simp only [List.getElem_zipWith]
  exact C11.cmp_values rule _ _

/-- one result vector per rule, all from the same rows: if a regenerated rule succeeds on `(ref, est)` then every
    regenerated rule does, its vector has one entry per label, and entry `i` is the row model on the `i`-th rows of
    the two `encode_many` results, which are `Reachable` (the hypothesis of the C11 lattice theorems) -/
theorem gen_rows (rule : Rule) (ref est : List PyCmp.Str) (hne : ref ≠ [] ∨ est ≠ []) (v : List Int)
    (h : genCmp rule ref est = .ok v) :
    ∃ rs es : List Encoded, rs.length = ref.length ∧ es.length = ref.length ∧
      (∀ r ∈ rs, Reachable (toEnc r)) ∧ (∀ e ∈ es, Reachable (toEnc e)) ∧
      ∀ rule', genCmp rule' ref est =
        .ok (List.zipWith (fun r e => ChordCompare.cmp rule' (toEnc r) (toEnc e)) rs es) := by
  rw [genCmp_eq_model rule ref est hne] at h
  obtain ⟨rs, es, hl, hr, he, _⟩ := cmpLabels_ok_inv h
  refine ⟨rs, es, ((Chord.encodeAll_ok_iff false ref rs).1 hr).1,
    by rw [((Chord.encodeAll_ok_iff false est es).1 he).1, hl],
    C11.Labels.encode_many_reachable ref false rs hr, C11.Labels.encode_many_reachable est false es he, ?_⟩
  intro rule'
  rw [genCmp_eq_model rule' ref est hne]
  unfold cmpLabels at h ⊢
  split at h
  · simp at h
  · rename_i u hv
    simp only [hv, hr, he]

/-- the documented lattice on the translated functions, position by position: a match (1) under the stricter rule is a
    match under the looser rule — tetrads_inv ⇒ tetrads ⇒ triads ⇒ thirds ⇒ root, each `_inv` rule ⇒ its plain rule,
    majmin ⇒ triads, sevenths ⇒ tetrads; and a tetrads match is never a mirex mismatch -/
theorem gen_lattice (ref est : List PyCmp.Str) (hne : ref ≠ [] ∨ est ≠ []) (rule : Rule) (v : List Int)
    (h : genCmp rule ref est = .ok v) :
    ∃ f : Rule → List Int, (∀ r, genCmp r ref est = .ok (f r)) ∧ (∀ r, (f r).length = ref.length) ∧
      ∀ i (_ : i < ref.length), ∀ at' : ∀ r, i < (f r).length,
        ((f .tetradsInv)[i]'(at' _) = 1 → (f .tetrads)[i]'(at' _) = 1) ∧
        ((f .tetrads)[i]'(at' _) = 1 → (f .triads)[i]'(at' _) = 1) ∧
        ((f .triads)[i]'(at' _) = 1 → (f .thirds)[i]'(at' _) = 1) ∧
        ((f .thirds)[i]'(at' _) = 1 → (f .root)[i]'(at' _) = 1) ∧
        ((f .thirdsInv)[i]'(at' _) = 1 → (f .thirds)[i]'(at' _) = 1) ∧
        ((f .triadsInv)[i]'(at' _) = 1 → (f .triads)[i]'(at' _) = 1) ∧
        ((f .majminInv)[i]'(at' _) = 1 → (f .majmin)[i]'(at' _) = 1) ∧
        ((f .seventhsInv)[i]'(at' _) = 1 → (f .sevenths)[i]'(at' _) = 1) ∧
        ((f .majmin)[i]'(at' _) = 1 → (f .triads)[i]'(at' _) = 1) ∧
        ((f .sevenths)[i]'(at' _) = 1 → (f .tetrads)[i]'(at' _) = 1) ∧
        ((f .tetrads)[i]'(at' _) = 1 → (f .mirex)[i]'(at' _) ≠ 0) := by
  obtain ⟨rs, es, hrl, hel, hR, hE, hall⟩ := gen_rows rule ref est hne v h
  refine ⟨fun r => List.zipWith (fun a b => ChordCompare.cmp r (toEnc a) (toEnc b)) rs es, hall,
    fun r => by simp [hrl, hel], ?_⟩
  intro i _ at'
  have hi1 : i < rs.length := by omega
  have hi2 : i < es.length := by omega
  have hr := hR rs[i] (List.getElem_mem hi1)
  have m := C11.match_implications (toEnc rs[i]) (toEnc es[i]) hr
  simp only [List.getElem_zipWith, ChordCompare.cmp]
  exact ⟨m.1, m.2.1, m.2.2.1, m.2.2.2.1, m.2.2.2.2.1, m.2.2.2.2.2.1, m.2.2.2.2.2.2.1, m.2.2.2.2.2.2.2.1,
    m.2.2.2.2.2.2.2.2.1, m.2.2.2.2.2.2.2.2.2, fun ht => C11.tetrads_match_not_mirex_mismatch _ _ hr ht⟩

/-- whether position `i` is −1 depends on the reference label list alone (any two estimate lists) -/
theorem gen_ignore_depends_on_ref (rule : Rule) (ref est est' : List PyCmp.Str) (hne : ref ≠ []) (v w : List Int)
    (h : genCmp rule ref est = .ok v) (h' : genCmp rule ref est' = .ok w) (i : Nat) (hv : i < v.length)
    (hw : i < w.length) : v[i] = -1 ↔ w[i] = -1 := by
  rw [genCmp_eq_model rule ref est (Or.inl hne)] at h
  rw [genCmp_eq_model rule ref est' (Or.inl hne)] at h'
  obtain ⟨rs, es, _, hr, _, rfl⟩ := cmpLabels_ok_inv h
  obtain ⟨rs', es', _, hr', _, rfl⟩ := cmpLabels_ok_inv h'
  rw [hr] at hr'
  have := Except.ok.inj hr'; subst this
  simp only [List.getElem_zipWith]
  exact C11.ignore_depends_on_ref rule _ _ _

/-- a list compared with itself never gives 0 anywhere -/
theorem gen_self_ne_zero (rule : Rule) (ref : List PyCmp.Str) (hne : ref ≠ []) (v : List Int)
    (h : genCmp rule ref ref = .ok v) : ∀ x ∈ v, x ≠ 0 := by
  rw [genCmp_eq_model rule ref ref (Or.inl hne)] at h
  obtain ⟨rs, es, _, hr, he, rfl⟩ := cmpLabels_ok_inv h
  rw [hr] at he
  have := Except.ok.inj he; subst this
  intro x hx
  obtain ⟨i, hi, rfl⟩ := List.getElem_of_mem hx
  simp only [List.getElem_zipWith]
  have hi1 : i < rs.length := by simp at hi; exact hi
  exact C11.cmp_self_ne_zero rule _ (C11.Labels.encode_many_reachable ref false rs hr rs[i] (List.getElem_mem hi1))

/-! ## non-vacuity: the translated definitions computed on concrete lists (kernel evaluation of the regenerated code,
    including the regenerated regular expression and tables) -/

example : Mir.Gen.chord.triads ["C:maj7".toList, "X".toList, "N".toList] ["C:maj".toList, "C".toList, "N".toList] =
    .ok [1, -1, 1] := by decide +kernel
example : Mir.Gen.chord.tetrads ["C:maj7".toList, "G:min/b3".toList] ["C:maj".toList, "G:min".toList] = .ok [0, 1] := by
  decide +kernel
example : Mir.Gen.chord.majmin_inv ["C:maj/7".toList, "C:dim".toList] ["C:maj/7".toList, "C:dim".toList] = .ok [1, -1] := by
  decide +kernel
example : Mir.Gen.chord.mirex ["C:maj".toList, "C:1".toList] ["A:min7".toList, "C:1".toList] = .ok [1, -1] := by
  decide +kernel
example : Mir.Gen.chord.sevenths_inv ["C:7/b7".toList, "C:dim7".toList] ["C:7/b7".toList, "C:dim7".toList] = .ok [1, -1] := by
  decide +kernel
example : Mir.Gen.chord.root ["C".toList] ["C".toList, "D".toList] = .error .valueError := by decide +kernel
example : Mir.Gen.chord.thirds ["H:maj".toList] ["C".toList] = .error .invalidChord := by decide +kernel
example : Mir.Gen.chord.thirds ["C:aug7".toList] ["C".toList] = .error .invalidChord := by decide +kernel

end Mir.C11.GenCmp
