import MirGen.ChordFns
import MirProofs.Lemmas.PyChord
import MirProofs.Lemmas.ChordCompare
/-!
  C11 (mirex) — `chord.rotate_bitmap_to_root` as REGENERATED from mir_eval/chord.py on every run
  (harness/translate/scalars_chordfn.py, part `chordfns_rotate`, MirGen/ChordFns.lean: `np.nonzero`, `(idx + root) % 12`,
  `np.zeros_like`, fancy-index assignment over the run-time library `MirModel/PyChord.lean`) equals the hand-written
  `ChordCompare.rotate` that the mirex row model and its theorems (C11, C09 transposition) are stated over.
-/
set_option linter.unusedSimpArgs false
namespace Mir.C11.GenFns
open Mir Mir.Chord Mir.PyChord

/-- `chord.rotate_bitmap_to_root` as translated is the model used by the mirex comparison, for every bitmap with at
    least 12 entries (the documented shape is `(12,)`; `encode_many` only produces such rows) and EVERY integer root -/
theorem rotate_bitmap_to_root_eq_model (bm : List Int) (root : Int) (h : 12 ≤ bm.length) :
    Mir.Gen.chord.rotate_bitmap_to_root bm root = .ok (Mir.ChordCompare.rotate bm root) := by
  unfold Mir.Gen.chord.rotate_bitmap_to_root Mir.ChordCompare.rotate
  simp only [decide_true, if_true, vecPut, vecModLit, vecAddInt, nonzero1, List.map_map]
  have hfil : (List.range bm.length).filter (fun i => bm.getD i 0 != 0) =
      (List.range bm.length).filter (Mir.ChordCompare.nzAt bm) := by
    apply List.filter_congr; intro i _; rw [nzAt_eq]
  rw [hfil]
  have hrange : ∀ i ∈ ((List.range bm.length).filter (Mir.ChordCompare.nzAt bm)).map
      ((fun x => x % 12) ∘ (fun x => x + root) ∘ fun (i : Nat) => (i : Int)), 0 ≤ i ∧ i < ((zerosLike bm).length : Int) := by
    intro i hi
    obtain ⟨k, _, rfl⟩ := List.mem_map.1 hi
    have := emod12_range ((k : Int) + root)
    simp only [Function.comp, zerosLike, List.length_replicate]
    omega
  rw [mapM_normIndex _ _ hrange]
  simp only [zerosLike_getD, zerosLike, List.length_replicate]
  congr 1
  apply List.map_congr_left
  intro j _
  rw [contains_toNat _ (fun i hi => (hrange i hi).1)]
  have hz := zerosLike_getD bm j
  unfold zerosLike at hz
  rw [hz]
  rfl

/-- hence, on the rows `encode_many` produces, entry `j` of the translated rotation is the closed form the mirex
    theorems use (`chromaAt`) -/
theorem rotate_bitmap_to_root_closed_form (bm : List Int) (root : Int) (h : bm.length = 12) :
    Mir.Gen.chord.rotate_bitmap_to_root bm root = .ok ((List.range 12).map (Mir.ChordCompare.chromaAt bm root)) := by
  rw [rotate_bitmap_to_root_eq_model bm root (by omega), Mir.ChordCompare.rotate_eq h]

/-- a bitmap shorter than 12 entries can make the fancy-index store raise IndexError (NumPy's own bounds check): the
    hypothesis of `rotate_bitmap_to_root_eq_model` cannot be dropped -/
example : Mir.Gen.chord.rotate_bitmap_to_root [0, 0, 1] 5 = .error .indexError := by decide

example : Mir.Gen.chord.rotate_bitmap_to_root [1, 0, 0, 0, 1, 0, 0, 1, 0, 0, 0, 0] 7 =
    .ok [0, 0, 1, 0, 0, 0, 0, 1, 0, 0, 0, 1] := by decide +kernel
example : Mir.Gen.chord.rotate_bitmap_to_root [1, 0, 0, 0, 1, 0, 0, 1, 0, 0, 0, 0] (-1) =
    .ok [0, 0, 0, 1, 0, 0, 1, 0, 0, 0, 0, 1] := by decide +kernel

end Mir.C11.GenFns
