import MirProofs.Lemmas.Chord.Bridge
import MirProofs.Props.C11
/-!
  C11 at LABEL level — the bridge from the C10 label/encode model (`Mir.Chord`) to the encoding-level lattice
  of `MirProofs.Props.C11` (`Mir.ChordCompare`).

  `Mir.C11` proves the lattice for every pair of `Reachable` encodings.  Here: (1) everything `chord.encode`
  returns is `Reachable` (for EVERY string and both flags); (2) the quality bitmaps hard-coded in the comparison
  model are the regenerated `QUALITIES` rows; (3) hence the lattice for every pair of grammar-derivable labels,
  through `labelCmp rule a b` = `mir_eval.chord.<rule>([a], [b])[0]` (encode both, then compare).
-/
namespace Mir.C11.Labels
open Mir.Chord Mir.ChordCompare MirGen

/-! ## 1. `encode` lands in the set the lattice is proved over -/

/-- for every string and both flags, a successful `encode` is the N sentinel, the X sentinel, or a regular row
    (root, bass in 0..11, 12-long 0/1 bitmap containing the bass) -/
theorem encode_reachable (s : Str) (r sb : Bool) (e : Encoded) (h : pyEncode s r sb = .ok e) :
    Reachable (toEnc e) :=
  Chord.encode_reachable h

/-- the same for the rows of `encode_many`, which is what the comparison functions consume -/
theorem encode_many_reachable (ls : List Str) (r : Bool) (es : List Encoded) (h : encodeAll r ls = .ok es) :
    ∀ e ∈ es, Reachable (toEnc e) := by
  intro e he
  obtain ⟨hl, hall⟩ := (encodeAll_ok_iff r ls es).1 h
  obtain ⟨i, hi, rfl⟩ := List.getElem_of_mem he
  have hi' : i < ls.length := hl ▸ hi
  have hmem : (ls[i], es[i]) ∈ ls.zip es := by
    rw [List.mem_iff_getElem]
    exact ⟨i, by simp [hi, hi'], by simp⟩
  exact Chord.encode_reachable (hall _ hmem)

/-- a derivable label is encoded or rejected with InvalidChord (aug7 / maj11), and an encoded one is reachable -/
theorem label_reachable (l : Label) :
    (∃ e, encodeLabel l = .ok e ∧ Reachable e) ∨ encodeLabel l = .error .invalidChord := by
  rcases encodeLabel_total l with ⟨e, h⟩ | h
  · exact Or.inl ⟨e, h, encodeLabel_reachable h⟩
  · exact Or.inr h

/-- N and X are encoded as the two sentinels of the comparison model -/
theorem label_sentinels : encodeLabel .N = .ok noChord ∧ encodeLabel .X = .ok xChord :=
  ⟨encodeLabel_N, encodeLabel_X⟩

example : encodeLabel (.chord .C .natural (some (.short .maj none)) (some ⟨.natural, .d7⟩)) =
    .ok ⟨0, [1, 0, 0, 0, 1, 0, 0, 1, 0, 0, 0, 1], 11⟩ := by decide
example : encodeLabel (.chord .C .natural (some (.short .aug7 none)) none) = .error .invalidChord := by decide

/-! ## 2. G-obligation: the comparison model's quality rows are the regenerated `QUALITIES` rows -/

theorem tables_quality_rows :
    Tables.qualities.lookup Shorthand.maj.name = some QUAL_maj ∧
    Tables.qualities.lookup Shorthand.min.name = some QUAL_min ∧
    Tables.qualities.lookup Shorthand.seven.name = some QUAL_7 ∧
    Tables.qualities.lookup Shorthand.maj7.name = some QUAL_maj7 ∧
    Tables.qualities.lookup Shorthand.min7.name = some QUAL_min7 ∧
    Tables.qualities.lookup [] = some QUAL_none ∧
    seventhBitmaps = (["maj", "min", "maj7", "7", "min7", ""].map fun q =>
      (Tables.qualities.lookup q.toList).getD []) := by decide

/-- and the sentinels of the comparison model are the regenerated `NO_CHORD_ENCODED` / `X_CHORD_ENCODED` -/
theorem tables_sentinel_rows :
    toEnc Tables.noChordEncoded = noChord ∧ toEnc Tables.xChordEncoded = xChord := by decide

/-! ## 3. The lattice for labels -/

/-- `labelCmp` is total up to InvalidChord, and on encodable labels it is `cmp` of the two encodings -/
theorem label_cmp_total (rule : Rule) (a b : Label) :
    (∃ ea eb, encodeLabel a = .ok ea ∧ encodeLabel b = .ok eb ∧ Reachable ea ∧ Reachable eb ∧
        labelCmp rule a b = .ok (ChordCompare.cmp rule ea eb)) ∨
      labelCmp rule a b = .error .invalidChord := by
  rcases encodeLabel_total a with ⟨ea, ha⟩ | ha
  · rcases encodeLabel_total b with ⟨eb, hb⟩ | hb
    · exact Or.inl ⟨ea, eb, ha, hb, encodeLabel_reachable ha, encodeLabel_reachable hb, labelCmp_ok ha hb⟩
    · right; unfold labelCmp; rw [ha, hb]
  · right; unfold labelCmp; rw [ha]

/-- every rule applied to two labels returns −1, 0 or 1 -/
theorem label_cmp_values (rule : Rule) (a b : Label) (v : Int) (h : labelCmp rule a b = .ok v) :
    v = -1 ∨ v = 0 ∨ v = 1 := by
  obtain ⟨ea, eb, _, _, rfl⟩ := labelCmp_ok_inv h
  exact C11.cmp_values rule ea eb

/-- tetrads_inv ⇒ tetrads ⇒ triads ⇒ thirds ⇒ root, and the other documented arrows, on labels:
    a match (1) under the stricter rule is a match under the looser rule -/
theorem label_match_implications (a b : Label) (ea eb : Enc) (ha : encodeLabel a = .ok ea)
    (hb : encodeLabel b = .ok eb) :
    (labelCmp .tetradsInv a b = .ok 1 → labelCmp .tetrads a b = .ok 1) ∧
    (labelCmp .tetrads a b = .ok 1 → labelCmp .triads a b = .ok 1) ∧
    (labelCmp .triads a b = .ok 1 → labelCmp .thirds a b = .ok 1) ∧
    (labelCmp .thirds a b = .ok 1 → labelCmp .root a b = .ok 1) ∧
    (labelCmp .thirdsInv a b = .ok 1 → labelCmp .thirds a b = .ok 1) ∧
    (labelCmp .triadsInv a b = .ok 1 → labelCmp .triads a b = .ok 1) ∧
    (labelCmp .majminInv a b = .ok 1 → labelCmp .majmin a b = .ok 1) ∧
    (labelCmp .seventhsInv a b = .ok 1 → labelCmp .sevenths a b = .ok 1) ∧
    (labelCmp .majmin a b = .ok 1 → labelCmp .triads a b = .ok 1) ∧
    (labelCmp .sevenths a b = .ok 1 → labelCmp .tetrads a b = .ok 1) := by
  have m := C11.match_implications ea eb (encodeLabel_reachable ha)
  simp only [labelCmp_ok ha hb, ChordCompare.cmp, Except.ok.injEq]
  exact m

/-- the pointwise order of the chain on labels -/
theorem label_chain_le (a b : Label) (ea eb : Enc) (ha : encodeLabel a = .ok ea) (hb : encodeLabel b = .ok eb) :
    labelCmp .tetradsInv a b = .ok (tetradsInv ea eb) ∧ labelCmp .tetrads a b = .ok (tetrads ea eb) ∧
    labelCmp .triads a b = .ok (triads ea eb) ∧ labelCmp .thirds a b = .ok (thirds ea eb) ∧
    labelCmp .root a b = .ok (root ea eb) ∧
    tetradsInv ea eb ≤ tetrads ea eb ∧ tetrads ea eb ≤ triads ea eb ∧ triads ea eb ≤ thirds ea eb ∧
      thirds ea eb ≤ root ea eb :=
  ⟨labelCmp_ok ha hb, labelCmp_ok ha hb, labelCmp_ok ha hb, labelCmp_ok ha hb, labelCmp_ok ha hb,
    (C11.chain_le ea eb).1, (C11.chain_le ea eb).2.1, (C11.chain_le ea eb).2.2.1, (C11.chain_le ea eb).2.2.2⟩

/-- comparing a label with itself never gives 0 (it is a match, or the label is outside the rule's vocabulary) -/
theorem label_cmp_self_ne_zero (rule : Rule) (l : Label) (v : Int) (h : labelCmp rule l l = .ok v) : v ≠ 0 := by
  obtain ⟨ea, eb, ha, hb, rfl⟩ := labelCmp_ok_inv h
  rw [ha] at hb
  have := Except.ok.inj hb; subst this
  exact C11.cmp_self_ne_zero rule ea (encodeLabel_reachable ha)

/-- an X reference is ignored (−1) by all 12 rules whatever the (encodable) estimate -/
theorem label_x_reference (rule : Rule) (b : Label) (eb : Enc) (hb : encodeLabel b = .ok eb) :
    labelCmp rule .X b = .ok (-1) := by
  rw [labelCmp_ok encodeLabel_X hb, C11.x_ignored]

/-- and for the seven basic rules X is the ONLY ignored reference label -/
theorem label_basic_rules_ignore_iff_X (a b : Label) (ea eb : Enc) (ha : encodeLabel a = .ok ea)
    (hb : encodeLabel b = .ok eb) :
    (labelCmp .thirds a b = .ok (-1) ↔ a = .X) ∧ (labelCmp .thirdsInv a b = .ok (-1) ↔ a = .X) ∧
    (labelCmp .triads a b = .ok (-1) ↔ a = .X) ∧ (labelCmp .triadsInv a b = .ok (-1) ↔ a = .X) ∧
    (labelCmp .tetrads a b = .ok (-1) ↔ a = .X) ∧ (labelCmp .tetradsInv a b = .ok (-1) ↔ a = .X) ∧
    (labelCmp .root a b = .ok (-1) ↔ a = .X) := by
  have v := C11.basic_rules_vocab ea eb (encodeLabel_reachable ha)
  have hx := encodeLabel_eq_xChord_iff ha
  simp only [labelCmp_ok ha hb, ChordCompare.cmp, Except.ok.injEq]
  rw [← hx]
  exact v

/-- whether a rule ignores a pair depends on the reference label alone -/
theorem label_ignore_depends_on_ref (rule : Rule) (a b b' : Label) (ea eb eb' : Enc)
    (ha : encodeLabel a = .ok ea) (hb : encodeLabel b = .ok eb) (hb' : encodeLabel b' = .ok eb') :
    labelCmp rule a b = .ok (-1) ↔ labelCmp rule a b' = .ok (-1) := by
  simp only [labelCmp_ok ha hb, labelCmp_ok ha hb', Except.ok.injEq]
  exact C11.ignore_depends_on_ref rule ea eb eb'

/-- non-vacuity: C:maj7 vs C:maj — root/thirds/triads match, tetrads mismatch; X reference; self comparison -/
example :
    let cmaj7 : Label := .chord .C .natural (some (.short .maj7 none)) none
    let cmaj : Label := .chord .C .natural (some (.short .maj none)) none
    labelCmp .triads cmaj7 cmaj = .ok 1 ∧ labelCmp .tetrads cmaj7 cmaj = .ok 0 ∧
    labelCmp .root cmaj7 cmaj = .ok 1 ∧ labelCmp .majmin cmaj7 cmaj = .ok 1 ∧
    labelCmp .sevenths cmaj7 cmaj = .ok 0 ∧ labelCmp .mirex cmaj7 cmaj = .ok 1 ∧
    labelCmp .tetrads .X cmaj = .ok (-1) ∧ labelCmp .tetradsInv cmaj7 cmaj7 = .ok 1 ∧
    labelCmp .root .N .N = .ok 1 := by decide

end Mir.C11.Labels
