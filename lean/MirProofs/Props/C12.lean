import MirProofs.Lemmas.IntervalsScore
import MirProofs.Lemmas.IntervalsSplit
/-!
  C12 — interval scores are duration-weighted and blind to how time is cut up.

  `wacc` models `chord.weighted_accuracy`; `chordScore cmp` models one accuracy of `chord.evaluate`
  (merge the two aligned annotations, durations as weights, per-row comparison `cmp`, −1 = not comparable)
  for an arbitrary comparison function `cmp` on abstract label tokens; `mergeChord` models
  `chord.merge_chord_intervals` on encoded-chord tokens; `intervalsToSamples` is the frame sampling used by
  the `segment` metrics.  All statements are for annotations of arbitrary size.

  Last section: the whole `chord.evaluate` pipeline (`evaluateTokens`: span of the reference, `adjust_intervals`
  of the estimate with the no-chord token, `merge_chord_intervals` for under- and over-segmentation and `seg`,
  `merge_labeled_intervals` + durations + `weighted_accuracy` for the accuracy under ANY comparison function) is
  invariant under cutting a reference or an estimate interval in two — including when the cut estimate interval
  is cropped or padded by `adjust_intervals`, and exceptions included.
-/
namespace Mir.C12
open Mir.Iv

variable {L M : Type}

/-! ### `weighted_accuracy` -/

/-- rescaling all weights by a positive constant changes nothing (score, `nan`, or exception alike) -/
theorem wacc_scale (cs ws : List Rat) (c : Rat) (hc : 0 < c) :
    wacc cs (ws.map fun w => c * w) = wacc cs ws := wacc_scale_aux cs ws c hc

/-- the score is the weighted mean `Σ cᵢ·wᵢ / Σ wᵢ` over the comparable (`cᵢ ≥ 0`) entries -/
theorem wacc_is_weighted_mean {cs ws : List Rat} (hlen : cs.length = ws.length) (hw : ∀ w ∈ ws, 0 ≤ w)
    (htot : vTotal cs ws ≠ 0) : wacc cs ws = .ok (.val (vNum cs ws / vTotal cs ws)) :=
  wacc_weighted_mean hlen hw htot

/-- 1 when every comparable comparison is 1 -/
theorem wacc_all_one {cs ws : List Rat} (hlen : cs.length = ws.length) (hw : ∀ w ∈ ws, 0 ≤ w)
    (htot : vTotal cs ws ≠ 0) (hone : ∀ c ∈ cs, 0 ≤ c → c = 1) : wacc cs ws = .ok (.val 1) := by
  rw [wacc_weighted_mean hlen hw htot]
  have : vNum cs ws = vTotal cs ws := by
    unfold vNum vTotal
    congr 1
    apply List.map_congr_left
    intro p hp
    have hm := List.mem_filter.1 hp
    have h1 : p.1 = 1 := hone p.1 (List.of_mem_zip hm.1).1 (by simpa using hm.2)
    rw [h1, one_mul]
  rw [this, div_self htot]

/-- 0 when every comparable comparison is 0 -/
theorem wacc_all_zero {cs ws : List Rat} (hlen : cs.length = ws.length) (hw : ∀ w ∈ ws, 0 ≤ w)
    (htot : vTotal cs ws ≠ 0) (hzero : ∀ c ∈ cs, 0 ≤ c → c = 0) : wacc cs ws = .ok (.val 0) := by
  rw [wacc_weighted_mean hlen hw htot]
  have : vNum cs ws = 0 := by
    unfold vNum
    have : (validPairs cs ws).map (fun p => p.1 * p.2) = (validPairs cs ws).map (fun _ => (0 : Rat)) := by
      apply List.map_congr_left
      intro p hp
      have hm := List.mem_filter.1 hp
      have h1 : p.1 = 0 := hzero p.1 (List.of_mem_zip hm.1).1 (by simpa using hm.2)
      rw [h1, zero_mul]
    rw [this]
    generalize validPairs cs ws = l
    induction l with
    | nil => rfl
    | cons a r ih => simp only [List.map_cons, qsum, ih]; ring
  rw [this, zero_div]

/-- cutting one weighted entry into two consecutive pieces with the same comparison value changes nothing -/
theorem wacc_split_invariant (c₁ c₂ w₁ w₂ : List Rat) (c d1 d2 : Rat) (hl : c₁.length = w₁.length)
    (h1 : 0 ≤ d1) (h2 : 0 ≤ d2) :
    wacc (c₁ ++ c :: c :: c₂) (w₁ ++ d1 :: d2 :: w₂) = wacc (c₁ ++ c :: c₂) (w₁ ++ (d1 + d2) :: w₂) :=
  wacc_split_aux c₁ c₂ w₁ w₂ c d1 d2 hl h1 h2

example : wacc [1, 0, -1, 1] [1/2, 1/4, 8, 1/4] = .ok (.val (3/4)) ∧
    vTotal [1, 0, -1, 1] [1/2, 1/4, 8, 1/4] = 1 := by decide +kernel

/-! ### what an annotation says at an instant does not depend on how its intervals are cut -/

/-- splitting an interval at an interior point (pieces keep the label) changes no `labelAt` -/
theorem labelAt_split_invariant (x₁ x₂ : LI L) {s r e : Rat} (l : L) (h1 : s ≤ r) (h2 : r ≤ e) (t : Rat) :
    labelAt (x₁ ++ (s, r, l) :: (r, e, l) :: x₂) t = labelAt (x₁ ++ (s, e, l) :: x₂) t :=
  labelAt_split x₁ x₂ l h1 h2 t

/-- hence no frame label: `intervals_to_samples` (the sampling behind every frame-based `segment` score)
    returns the same times and labels -/
theorem samples_split_invariant (x₁ x₂ : LI L) {s r e : Rat} (l : L) (h1 : s ≤ r) (h2 : r ≤ e)
    (offset size : Rat) (fill : L) :
    intervalsToSamples (x₁ ++ (s, r, l) :: (r, e, l) :: x₂) offset size fill =
      intervalsToSamples (x₁ ++ (s, e, l) :: x₂) offset size fill :=
  intervalsToSamples_split x₁ x₂ l h1 h2 offset size fill

/-- `merge_chord_intervals` fuses equal neighbours, so a split is undone: over- and under-segmentation and
    `seg` are computed from identical interval arrays -/
theorem merge_chord_split_invariant [DecidableEq L] (x₁ x₂ : LI L) (s r e : Rat) (l : L) :
    mergeChord (x₁ ++ (s, r, l) :: (r, e, l) :: x₂) = mergeChord (x₁ ++ (s, e, l) :: x₂) :=
  mergeChord_split x₁ x₂ s r e l

theorem seg_scores_split_invariant [DecidableEq L] [DecidableEq M] (x₁ x₂ : LI L) (s r e : Rat) (l : L)
    (est : LI M) :
    seg (mergeChord (x₁ ++ (s, r, l) :: (r, e, l) :: x₂)) (mergeChord est) =
        seg (mergeChord (x₁ ++ (s, e, l) :: x₂)) (mergeChord est) ∧
    seg (mergeChord est) (mergeChord (x₁ ++ (s, r, l) :: (r, e, l) :: x₂)) =
        seg (mergeChord est) (mergeChord (x₁ ++ (s, e, l) :: x₂)) := by
  rw [mergeChord_split]; exact ⟨rfl, rfl⟩

/-! ### chord accuracies are blind to splitting -/

/-- cutting a reference interval at an interior point changes no chord accuracy, whatever the comparison
    function (both annotations contiguous over the same span `[lo, hi]`, `lo ≥ 0`, any sizes) -/
theorem chord_score_split_ref (cmp : L → M → Rat) {lo hi : Rat} {x₁ x₂ : LI L} {s r e : Rat} {l : L}
    {y : LI M} (hx : Contig lo (x₁ ++ (s, e, l) :: x₂)) (hy : Contig lo y)
    {zx : Rat × Rat × L} {zy : Rat × Rat × M}
    (hzx : (x₁ ++ (s, e, l) :: x₂).getLast? = some zx) (hzy : y.getLast? = some zy)
    (hxe : zx.2.1 = hi) (hye : zy.2.1 = hi) (h0 : 0 ≤ lo) (h1 : s < r) (h2 : r < e) :
    chordScore cmp (x₁ ++ (s, r, l) :: (r, e, l) :: x₂) y = chordScore cmp (x₁ ++ (s, e, l) :: x₂) y := by
  obtain ⟨zx', hzx', hxe'⟩ := getLast?_split x₁ x₂ s r e l hzx
  have hehi : e ≤ hi := (entries_bounds hx hzx hxe e (by simp [entries_append, entries])).2
  exact chordScore_insert cmp hx hy (contig_split hx h1 h2) hy hzx hzy hzx' hzy hxe hye
    (by rw [hxe', hxe]) hye h0
    (fun t => labelAt_split x₁ x₂ l (le_of_lt h1) (le_of_lt h2) t) (fun _ => rfl)
    (by intro v; simp only [List.mem_append, mem_entries_split]; tauto)
    (lt_of_le_of_lt (contig_mid hx) h1) (lt_of_lt_of_le h2 hehi)

/-- the same for an estimated interval -/
theorem chord_score_split_est (cmp : L → M → Rat) {lo hi : Rat} {x : LI L} {y₁ y₂ : LI M} {s r e : Rat}
    {l : M} (hx : Contig lo x) (hy : Contig lo (y₁ ++ (s, e, l) :: y₂))
    {zx : Rat × Rat × L} {zy : Rat × Rat × M}
    (hzx : x.getLast? = some zx) (hzy : (y₁ ++ (s, e, l) :: y₂).getLast? = some zy)
    (hxe : zx.2.1 = hi) (hye : zy.2.1 = hi) (h0 : 0 ≤ lo) (h1 : s < r) (h2 : r < e) :
    chordScore cmp x (y₁ ++ (s, r, l) :: (r, e, l) :: y₂) = chordScore cmp x (y₁ ++ (s, e, l) :: y₂) := by
  obtain ⟨zy', hzy', hye'⟩ := getLast?_split y₁ y₂ s r e l hzy
  have hehi : e ≤ hi := (entries_bounds hy hzy hye e (by simp [entries_append, entries])).2
  exact chordScore_insert cmp hx hy hx (contig_split hy h1 h2) hzx hzy hzx hzy' hxe hye hxe
    (by rw [hye', hye]) h0
    (fun _ => rfl) (fun t => labelAt_split y₁ y₂ l (le_of_lt h1) (le_of_lt h2) t)
    (by intro v; simp only [List.mem_append, mem_entries_split]; tauto)
    (lt_of_le_of_lt (contig_mid hy) h1) (lt_of_lt_of_le h2 hehi)

/-- non-vacuity: a split reference against a two-chord estimate, token equality as the comparison -/
example :
    chordScore (fun a b : Nat => if a = b then (1 : Rat) else 0)
      [((0 : Rat), (1 : Rat), 7), (1, 3, 7), (3, 4, 9)] [((0 : Rat), (2 : Rat), 7), (2, 4, 9)]
      = .ok (.val (3/4)) ∧
    chordScore (fun a b : Nat => if a = b then (1 : Rat) else 0)
      [((0 : Rat), (3 : Rat), 7), (3, 4, 9)] [((0 : Rat), (2 : Rat), 7), (2, 4, 9)]
      = .ok (.val (3/4)) := by decide +kernel

/-- non-vacuity: rescaling, all-one / all-zero over the comparable entries, splitting one entry -/
example :
    wacc [1, 0, -1] ([1/2, 1/4, 8].map fun w => 4 * w) = .ok (.val (2/3)) ∧
    wacc [1, 0, -1] [1/2, 1/4, 8] = .ok (.val (2/3)) ∧
    wacc [1, -1, 1] [1/2, 3, 1/4] = .ok (.val 1) ∧ vTotal [1, -1, 1] [1/2, 3, 1/4] = 3/4 ∧
    wacc [0, -1, 0] [1/2, 3, 1/4] = .ok (.val 0) ∧
    wacc [1, 0, 0, -1] [1/2, 1/8, 1/8, 8] = .ok (.val (2/3)) := by decide +kernel

/-- non-vacuity: fused neighbours, frame labels, `labelAt` before and after a cut -/
example :
    mergeChord [((0 : Rat), (1 : Rat), 7), (1, 3, 7), (3, 4, 9)] = [(0, 3), (3, 4)] ∧
    mergeChord [((0 : Rat), (3 : Rat), 7), (3, 4, 9)] = [(0, 3), (3, 4)] ∧
    intervalsToSamples [((0 : Rat), (1 : Rat), "a"), (1, 3, "a"), (3, 4, "b")] 0 1 "F"
      = .ok ([0, 1, 2, 3], ["a", "a", "a", "b"]) ∧
    labelAt [((0 : Rat), (1 : Rat), "a"), (1, 3, "a"), (3, 4, "b")] 1 = some "a" := by decide +kernel

/-! ### the same without any alignment, contiguity or ordering hypothesis -/

/-- cutting a reference interval `[s, e)` at any `r` with `s ≤ r ≤ e` changes no chord accuracy — result,
    `nan` or exception alike — for ARBITRARY annotations (gaps, overlaps, zero-length rows, misaligned
    spans, negative times: whatever `merge_labeled_intervals` does with them, it does the same after the cut) -/
theorem chord_score_split_ref_any (cmp : L → M → Rat) (x₁ x₂ : LI L) {s r e : Rat} (l : L) (y : LI M)
    (h1 : s ≤ r) (h2 : r ≤ e) :
    chordScore cmp (x₁ ++ (s, r, l) :: (r, e, l) :: x₂) y = chordScore cmp (x₁ ++ (s, e, l) :: x₂) y :=
  chordScore_split_left cmp x₁ x₂ l y h1 h2

/-- the same for an estimated interval -/
theorem chord_score_split_est_any (cmp : L → M → Rat) (x : LI L) (y₁ y₂ : LI M) {s r e : Rat} (l : M)
    (h1 : s ≤ r) (h2 : r ≤ e) :
    chordScore cmp x (y₁ ++ (s, r, l) :: (r, e, l) :: y₂) = chordScore cmp x (y₁ ++ (s, e, l) :: y₂) :=
  chordScore_split_right cmp x y₁ y₂ l h1 h2

/-! ### `adjust_intervals` commutes with cutting an interval -/

/-- `util.adjust_intervals` (any `t_min`, `t_max`, incl. absent) applied to an annotation with one interval cut
    in two gives the same exception, or the same rows, or the same rows with one row cut in two
    (`SplitOrEq`; the cut disappears when it falls outside the range).  Only hypothesis besides `s ≤ r ≤ e`:
    the rows after the cut one start no earlier than its end. -/
theorem adjust_intervals_split (y₁ y₂ : LI L) {s r e : Rat} (l : L) (h1 : s ≤ r) (h2 : r ≤ e)
    (hord : ∀ row ∈ y₂, e ≤ row.1) (tmin tmax : Option Rat) (sl el : L) :
    PyRel SplitOrEq (adjustIntervals (y₁ ++ (s, r, l) :: (r, e, l) :: y₂) tmin tmax sl el)
      (adjustIntervals (y₁ ++ (s, e, l) :: y₂) tmin tmax sl el) :=
  adjustIntervals_split tmin tmax sl el ⟨y₁, y₂, s, r, e, l, rfl, rfl, h1, h2, hord⟩

/-! ### the whole `chord.evaluate` pipeline -/

/-- **Reference cut.**  For every comparison function, every no-chord token and ALL reference and estimate
    annotations (no validity hypothesis at all): cutting a reference interval `[s, e)` at `r`, `s ≤ r ≤ e`,
    leaves the whole result of `chord.evaluate` — accuracy, underseg, overseg, seg, or the exception —
    unchanged. -/
theorem evaluate_split_ref {T : Type} [DecidableEq T] (cmp : T → T → Rat) (noChord : T) (x₁ x₂ : LI T)
    {s r e : Rat} (l : T) (est : LI T) (h1 : s ≤ r) (h2 : r ≤ e) :
    evaluateTokens cmp noChord (x₁ ++ (s, r, l) :: (r, e, l) :: x₂) est =
      evaluateTokens cmp noChord (x₁ ++ (s, e, l) :: x₂) est :=
  evaluateTokens_split_ref cmp noChord x₁ x₂ l est h1 h2

/-- **Estimate cut.**  The same for an estimated interval, through the crop / pad of `adjust_intervals` to the
    reference span (the cut may fall before, inside or after the span; the estimate may start late, end early,
    have gaps, or lie wholly outside the span).  The only hypothesis on the annotations: the estimate rows that
    follow the cut one start no earlier than its end `e` (implied by a time-ordered estimate). -/
theorem evaluate_split_est {T : Type} [DecidableEq T] (cmp : T → T → Rat) (noChord : T) (ref : LI T)
    (y₁ y₂ : LI T) {s r e : Rat} (l : T) (h1 : s ≤ r) (h2 : r ≤ e) (hord : ∀ row ∈ y₂, e ≤ row.1) :
    evaluateTokens cmp noChord ref (y₁ ++ (s, r, l) :: (r, e, l) :: y₂) =
      evaluateTokens cmp noChord ref (y₁ ++ (s, e, l) :: y₂) :=
  evaluateTokens_split_est cmp noChord ref ⟨y₁, y₂, s, r, e, l, rfl, rfl, h1, h2, hord⟩

/-- in particular for a time-ordered estimate with positive durations (`Chain`: what
    `validate_intervals` + sortedness give), cut at an interior point -/
theorem evaluate_split_est_ordered {T : Type} [DecidableEq T] (cmp : T → T → Rat) (noChord : T) (ref : LI T)
    {lo : Rat} {y₁ y₂ : LI T} {s r e : Rat} {l : T} (hy : Chain lo (y₁ ++ (s, e, l) :: y₂))
    (h1 : s < r) (h2 : r < e) :
    evaluateTokens cmp noChord ref (y₁ ++ (s, r, l) :: (r, e, l) :: y₂) =
      evaluateTokens cmp noChord ref (y₁ ++ (s, e, l) :: y₂) :=
  evaluate_split_est cmp noChord ref y₁ y₂ l (le_of_lt h1) (le_of_lt h2) (chain_after hy)

/-- non-vacuity: reference span `[1, 5]`; the estimate `[0, 4) [4, 6)` is cropped at both ends; cuts before
    `t_min`, inside, and after `t_max`, and a reference cut: all four scores stay `3/4` -/
example :
    let c : Int → Int → Rat := fun a b => if a = b then 1 else 0
    let ref : LI Int := [((1 : Rat), (3 : Rat), 7), (3, 5, 9)]
    let v : Py (List Num) := .ok [.val (3/4), .val (3/4), .val (3/4), .val (3/4)]
    evaluateTokens c (-1) ref [((0 : Rat), (4 : Rat), 7), (4, 6, 9)] = v ∧
    evaluateTokens c (-1) ref [((0 : Rat), (1/2 : Rat), 7), (1/2, 4, 7), (4, 6, 9)] = v ∧
    evaluateTokens c (-1) ref [((0 : Rat), (2 : Rat), 7), (2, 4, 7), (4, 6, 9)] = v ∧
    evaluateTokens c (-1) ref [((0 : Rat), (4 : Rat), 7), (4, 11/2, 9), (11/2, 6, 9)] = v ∧
    evaluateTokens c (-1) [((1 : Rat), (2 : Rat), 7), (2, 3, 7), (3, 5, 9)] [((0 : Rat), (4 : Rat), 7), (4, 6, 9)] = v ∧
    adjustIntervals [((0 : Rat), (1/2 : Rat), (7 : Int)), (1/2, 4, 7), (4, 11/2, 9), (11/2, 6, 9)] (some 1) (some 5)
      (-1) (-1) = .ok [(1, 4, 7), (4, 5, 9)] := by decide +kernel

/-- the ordering hypothesis of `evaluate_split_est` cannot be dropped: with a row that starts before the end of
    an earlier one, `adjust_intervals` stops cropping at different places -/
example :
    let c : Int → Int → Rat := fun a b => if a = b then 1 else 0
    evaluateTokens c (-1) [((0 : Rat), (4 : Rat), 7)] [((0 : Rat), (6 : Rat), 7), (1, 2, 9)] = .error .valueError ∧
    evaluateTokens c (-1) [((0 : Rat), (4 : Rat), 7)] [((0 : Rat), (5 : Rat), 7), (5, 6, 7), (1, 2, 9)]
      = .ok [.val 1, .val 1, .val 1, .val 1] := by decide +kernel

end Mir.C12
