import MirProofs.Lemmas.PyInt
import MirProofs.Props.C12
import MirProofs.Props.C13_Gen
import MirGen.ChordSeg
/-!
  C12 — the chord segmentation / weighting functions of `mir_eval/chord.py` as REGENERATED from the source
  (`MirGen/ChordSeg.lean`, translator part `chordseg`) equal the hand-written model (`MirModel/Intervals.lean`).
-/
namespace Mir.C12.Gen
open Mir Mir.Iv Mir.PyI

/-- the model's `Num` (finite or nan) inside NumPy's float64 (finite, nan, ±inf) -/
def conv : Mir.Num → Segment.Num
  | .val q => .val q
  | .nan => .nan

/-! ### directional_hamming_distance -/

theorem dhd_loop_eq (ts : List Rat) (ref : Ivals) (acc : Rat) :
    Mir.Gen.chord.directional_hamming_distance_loop1 ts ref acc
      = (ref.mapM (dhdRow ts)).map fun rows => acc + qsum rows := by
  induction ref generalizing acc with
  | nil => simp [Mir.Gen.chord.directional_hamming_distance_loop1, Except.map, pure, Except.pure, qsum]
  | cons x r ih =>
    have hm : (List.zipWith (fun a b => a && b) (List.map (fun v => decide (v ≥ x.1)) ts)
        (List.map (fun v => decide (v < x.2)) ts)) = ts.map fun t => decide (x.1 ≤ t) && decide (t < x.2) := by
      induction ts with
      | nil => rfl
      | cons t ts iht => simp [iht]
    simp only [Mir.Gen.chord.directional_hamming_distance_loop1, hm, maskSelect_map, ok_bind, List.mapM_cons, dhdRow,
      maxDiff, maxOf, diff1]
    rcases hd : maxL (List.map (fun p => p.2 - p.1)
        (pairs ([x.1] ++ List.filter (fun t => decide (x.1 ≤ t) && decide (t < x.2)) ts ++ [x.2]))) with _ | d
    · rfl
    · simp only [ok_bind, ih]
      cases List.mapM (dhdRow ts) r with
      | error e => rfl
      | ok rows => simp [Except.map, bind, Except.bind, pure, Except.pure, qsum, dhdRow, maxDiff]; ring

theorem getItem_col0_zero' (ref : Ivals) :
    getItem (col0 ref) 0 = match ref.head? with | some a => .ok a.1 | none => .error .indexError := by
  cases ref <;> simp [col0]

theorem getItem_col1_last' (ref : Ivals) :
    getItem (col1 ref) (-1) = match ref.getLast? with | some z => .ok z.2 | none => .error .indexError := by
  rw [getItem_neg_one]
  simp only [col1, List.getLast?_map]
  cases ref.getLast? <;> rfl

/-- `chord.directional_hamming_distance` for ALL pairs of interval lists (empty, invalid, overlapping included; value or
    exception class).  The translated function divides NumPy scalars (`nan` / `±inf` possible in general); after the two
    validations and the overlap test the divisor is positive, so the result is the model's finite value -/
theorem directional_hamming_distance_eq_model (ref est : Ivals) :
    Mir.Gen.chord.directional_hamming_distance ref est = (dhd ref est).map conv := by
  simp only [Mir.Gen.chord.directional_hamming_distance, dhd, Mir.C13.Gen.validate_intervals_eq_model, overlap_test,
    dhd_loop_eq, unique, ravel, getItem_col0_zero', getItem_col1_last']
  rcases hve : validateIntervals est with e | u
  · rfl
  rcases hvr : validateIntervals ref with e | u'
  · rfl
  cases u'
  by_cases ho : overlaps ref = true
  · simp [ho]; rfl
  · have ho' : overlaps ref = false := by simpa using ho
    simp only [ho', ok_bind, Bool.false_eq_true, if_false]
    rcases hrows : List.mapM (dhdRow (usort (entriesP est))) ref with e | rows
    · rfl
    · rcases hz : ref.getLast? with _ | z
      · have : ref = [] := List.getLast?_eq_none_iff.1 hz
        subst this; rfl
      · rcases ha : ref.head? with _ | a
        · have : ref = [] := by cases ref <;> simp_all
          subst this; simp at hz
        · have hpos := span_pos (validate_pos hvr) ho' ha hz
          have hne : z.2 - a.1 ≠ 0 := by linarith
          simp [Except.map, bind, Except.bind, pure, Except.pure, Segment.npDiv, hne, conv]

/-! ### overseg, underseg, seg -/

theorem numRSub_conv (x : Mir.Num) : numRSub 1 (conv x) = conv (Num.oneMinus x) := by
  cases x <;> rfl

theorem pyMinNum_conv (a b : Mir.Num) : pyMinNum (conv a) (conv b) = conv (Num.pymin a b) := by
  cases a <;> cases b <;> simp [pyMinNum, numLt, conv, Num.pymin]
  split <;> rfl

theorem overseg_eq_model (ref est : Ivals) :
    Mir.Gen.chord.overseg ref est = (Iv.overseg ref est).map conv := by
  simp only [Mir.Gen.chord.overseg, Iv.overseg, directional_hamming_distance_eq_model]
  cases dhd ref est with
  | error e => rfl
  | ok x => simp [Except.map, bind, Except.bind, pure, Except.pure, numRSub_conv]

theorem underseg_eq_model (ref est : Ivals) :
    Mir.Gen.chord.underseg ref est = (Iv.underseg ref est).map conv := by
  simp only [Mir.Gen.chord.underseg, Iv.underseg, directional_hamming_distance_eq_model]
  cases dhd est ref with
  | error e => rfl
  | ok x => simp [Except.map, bind, Except.bind, pure, Except.pure, numRSub_conv]

theorem seg_eq_model (ref est : Ivals) :
    Mir.Gen.chord.seg ref est = (Iv.seg ref est).map conv := by
  simp only [Mir.Gen.chord.seg, Iv.seg, underseg_eq_model, overseg_eq_model]
  cases Iv.underseg ref est with
  | error e => rfl
  | ok u =>
    cases Iv.overseg ref est with
    | error e => rfl
    | ok o => simp [Except.map, bind, Except.bind, pure, Except.pure, pyMinNum_conv]

/-! ### merge_chord_intervals -/

/-- the rows the hand model fuses: interval `i` with the encoding of label `i` as its token -/
def tokenRows (iv : Ivals) (rs : List Chord.Encoded) : LI Chord.Encoded := (iv.zip rs).map fun p => (p.1.1, p.1.2, p.2)

theorem zip5_eq (iv : Ivals) (rs : List Chord.Encoded) :
    List.zip (col0 iv) (List.zip (col1 iv) (List.zip (rs.map (·.1)) (List.zip (rs.map (·.2.1)) (rs.map (·.2.2)))))
      = tokenRows iv rs := by
  induction iv generalizing rs with
  | nil => simp [tokenRows, col0, col1]
  | cons a iv ih =>
    cases rs with
    | nil => simp [tokenRows, col0, col1]
    | cons r rs => simp only [tokenRows, col0, col1, List.map_cons, List.zip_cons_cons] at ih ⊢; rw [ih]

theorem anyB_rowNeMask_some (st p : List Int) : anyB (rowNeMask st (some p)) = decide (st ≠ p) := by
  unfold rowNeMask
  by_cases hl : st.length = p.length
  · simp only [hl, if_true]
    induction st generalizing p with
    | nil => cases p with
      | nil => rfl
      | cons b p => simp at hl
    | cons a st ih =>
      cases p with
      | nil => simp at hl
      | cons b p =>
        have := ih p (by simpa using hl)
        simp only [anyB, List.zipWith_cons_cons, List.any_cons] at this ⊢
        rw [this]
        by_cases hab : a = b <;> simp [hab]
  · have : st ≠ p := fun e => hl (by rw [e])
    simp [hl, this, anyB]

theorem setLastEnd_snoc (done : Ivals) (cs ce e : Rat) : setLastEnd (done ++ [(cs, ce)]) e = .ok (done ++ [(cs, e)]) := by
  simp [setLastEnd]

/-- the loop after at least one row: `merged_ivs` is the finished rows plus the open row, the `prev_*` hold its token -/
theorem merge_chord_loop_open (rows : LI Chord.Encoded) (p : Chord.Encoded) (done : Ivals) (cs ce : Rat) :
    ∃ a b c, Mir.Gen.chord.merge_chord_intervals_loop1 rows (some p.1) (some p.2.1) (some p.2.2)
        (done ++ [(cs, ce)]) = .ok (a, b, c, done ++ mergeChordAux p cs ce rows) := by
  induction rows generalizing p done cs ce with
  | nil => exact ⟨_, _, _, rfl⟩
  | cons x r ih =>
    obtain ⟨s, e, t⟩ := x
    by_cases ht : t = p
    · subst ht
      obtain ⟨a, b, c, h⟩ := ih t done cs e
      refine ⟨a, b, c, ?_⟩
      simp [Mir.Gen.chord.merge_chord_intervals_loop1, anyB_rowNeMask_some, setLastEnd_snoc, mergeChordAux, h]
    · obtain ⟨a, b, c, h⟩ := ih t (done ++ [(cs, ce)]) s e
      refine ⟨a, b, c, ?_⟩
      have hc : (decide (some t.1 ≠ some p.1) || anyB (rowNeMask t.2.1 (some p.2.1)) || decide (some t.2.2 ≠ some p.2.2))
          = true := by
        rw [anyB_rowNeMask_some]
        by_contra hcon
        simp only [Bool.or_eq_true, decide_eq_true_eq, not_or, ne_eq, not_not, Option.some.injEq] at hcon
        exact ht (Prod.ext hcon.1.1 (Prod.ext hcon.1.2 hcon.2))
      simp only [Mir.Gen.chord.merge_chord_intervals_loop1, hc, if_true, PyI.append, ok_bind, pure_bind]
      simp only [mergeChordAux, ht, if_false]
      simpa using h

theorem merge_chord_loop_eq (rows : LI Chord.Encoded) :
    ∃ a b c, Mir.Gen.chord.merge_chord_intervals_loop1 rows none none none [] = .ok (a, b, c, mergeChord rows) := by
  cases rows with
  | nil => exact ⟨_, _, _, rfl⟩
  | cons x r =>
    obtain ⟨s, e, t⟩ := x
    obtain ⟨a, b, c, h⟩ := merge_chord_loop_open r t [] s e
    refine ⟨a, b, c, ?_⟩
    simp only [List.nil_append] at h
    simp [Mir.Gen.chord.merge_chord_intervals_loop1, PyI.append, mergeChord, h]

/-- `chord.merge_chord_intervals` for ALL interval lists and label lists (of any lengths): the labels are encoded by the
    extern `encode_many(labels, True)` (the first invalid label raises) and neighbours with equal encodings are fused -/
theorem merge_chord_intervals_eq_model (iv : Ivals) (labels : List String) :
    Mir.Gen.chord.merge_chord_intervals iv labels
      = (Chord.encodeAll true (labels.map String.toList)).map fun rs => mergeChord (tokenRows iv rs) := by
  simp only [Mir.Gen.chord.merge_chord_intervals, Chord.pyEncodeMany]
  rcases Chord.encodeAll true (labels.map String.toList) with e | rs
  · rfl
  · obtain ⟨a, b, c, h⟩ := merge_chord_loop_eq (tokenRows iv rs)
    simp only [ok_bind, zip5_eq, h]
    rfl

end Mir.C12.Gen
