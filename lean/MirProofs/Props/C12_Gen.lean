import MirProofs.Lemmas.PyInt
import MirProofs.Props.C12
import MirProofs.Props.C13_Gen
import MirGen.ChordSeg
/-!
  C12 — the chord segmentation / weighting functions of `mir_eval/chord.py` as REGENERATED from the source
  (`MirGen/ChordSeg.lean`, translator part `chordseg`) equal the hand-written model (`MirModel/Intervals.lean`).
-/
namespace Mir.C12.Gen
open Mir Mir.Iv Mir.PyI

/-- the model's `Num` (finite or nan) inside NumPy's float64 (finite, nan, ±inf) -/
def conv : Mir.Num → Segment.Num
  | .val q => .val q
  | .nan => .nan

/-! ### directional_hamming_distance -/

theorem dhd_loop_eq (ts : List Rat) (ref : Ivals) (acc : Rat) :
    Mir.Gen.chord.directional_hamming_distance_loop1 ts ref acc
      = (ref.mapM (dhdRow ts)).map fun rows => acc + qsum rows := by
  induction ref generalizing acc with
  | nil => simp [Mir.Gen.chord.directional_hamming_distance_loop1, Except.map, pure, Except.pure, qsum]
  | cons x r ih =>
    have hm : (List.zipWith (fun a b => a && b) (List.map (fun v => decide (v ≥ x.1)) ts)
        (List.map (fun v => decide (v < x.2)) ts)) = ts.map fun t => decide (x.1 ≤ t) && decide (t < x.2) := by
      induction ts with
      | nil => rfl
      | cons t ts iht => simp [iht]
    simp only [Mir.Gen.chord.directional_hamming_distance_loop1, hm, maskSelect_map, ok_bind, List.mapM_cons, dhdRow,
      maxDiff, maxOf, diff1]
    rcases hd : maxL (List.map (fun p => p.2 - p.1)
        (pairs ([x.1] ++ List.filter (fun t => decide (x.1 ≤ t) && decide (t < x.2)) ts ++ [x.2]))) with _ | d
    · rfl
    · simp only [ok_bind, ih]
      cases List.mapM (dhdRow ts) r with
      | error e => rfl
      | ok rows => simp [Except.map, bind, Except.bind, pure, Except.pure, qsum, dhdRow, maxDiff]; ring

theorem getItem_col0_zero' (ref : Ivals) :
    getItem (col0 ref) 0 = match ref.head? with | some a => .ok a.1 | none => .error .indexError := by
  cases ref <;> simp [col0]

theorem getItem_col1_last' (ref : Ivals) :
    getItem (col1 ref) (-1) = match ref.getLast? with | some z => .ok z.2 | none => .error .indexError := by
  rw [getItem_neg_one]
  simp only [col1, List.getLast?_map]
  cases ref.getLast? <;> rfl

/-- `chord.directional_hamming_distance` for ALL pairs of interval lists (empty, invalid, overlapping included; value or
    exception class).  The translated function divides NumPy scalars (`nan` / `±inf` possible in general); after the two
    validations and the overlap test the divisor is positive, so the result is the model's finite value -/
theorem directional_hamming_distance_eq_model (ref est : Ivals) :
    Mir.Gen.chord.directional_hamming_distance ref est = (dhd ref est).map conv := by
  simp only [Mir.Gen.chord.directional_hamming_distance, dhd, Mir.C13.Gen.validate_intervals_eq_model, overlap_test,
    dhd_loop_eq, unique, ravel, getItem_col0_zero', getItem_col1_last']
  rcases hve : validateIntervals est with e | u
  · rfl
  rcases hvr : validateIntervals ref with e | u'
  · rfl
  cases u'
  by_cases ho : overlaps ref = true
  · simp [ho]; rfl
  · have ho' : overlaps ref = false := by simpa using ho
    simp only [ho', ok_bind, Bool.false_eq_true, if_false]
    rcases hrows : List.mapM (dhdRow (usort (entriesP est))) ref with e | rows
    · rfl
    · rcases hz : ref.getLast? with _ | z
      · have : ref = [] := List.getLast?_eq_none_iff.1 hz
        subst this; rfl
      · rcases ha : ref.head? with _ | a
        · have : ref = [] := by cases ref <;> simp_all
          subst this; simp at hz
        · have hpos := span_pos (validate_pos hvr) ho' ha hz
          have hne : z.2 - a.1 ≠ 0 := by linarith
          simp [Except.map, bind, Except.bind, pure, Except.pure, Segment.npDiv, hne, conv]

/-! ### overseg, underseg, seg -/

theorem numRSub_conv (x : Mir.Num) : numRSub 1 (conv x) = conv (Num.oneMinus x) := by
  cases x <;> rfl

theorem pyMinNum_conv (a b : Mir.Num) : pyMinNum (conv a) (conv b) = conv (Num.pymin a b) := by
  cases a <;> cases b <;> simp [pyMinNum, numLt, conv, Num.pymin]
  split <;> rfl

theorem overseg_eq_model (ref est : Ivals) :
    Mir.Gen.chord.overseg ref est = (Iv.overseg ref est).map conv := by
  simp only [Mir.Gen.chord.overseg, Iv.overseg, directional_hamming_distance_eq_model]
  cases dhd ref est with
  | error e => rfl
  | ok x => simp [Except.map, bind, Except.bind, pure, Except.pure, numRSub_conv]

theorem underseg_eq_model (ref est : Ivals) :
    Mir.Gen.chord.underseg ref est = (Iv.underseg ref est).map conv := by
  simp only [Mir.Gen.chord.underseg, Iv.underseg, directional_hamming_distance_eq_model]
  cases dhd est ref with
  | error e => rfl
  | ok x => simp [Except.map, bind, Except.bind, pure, Except.pure, numRSub_conv]

theorem seg_eq_model (ref est : Ivals) :
    Mir.Gen.chord.seg ref est = (Iv.seg ref est).map conv := by
  simp only [Mir.Gen.chord.seg, Iv.seg, underseg_eq_model, overseg_eq_model]
  cases Iv.underseg ref est with
  | error e => rfl
  | ok u =>
    cases Iv.overseg ref est with
    | error e => rfl
    | ok o => simp [Except.map, bind, Except.bind, pure, Except.pure, pyMinNum_conv]

/-! ### merge_chord_intervals -/

/-- the rows the hand model fuses: interval `i` with the encoding of label `i` as its token -/
def tokenRows (iv : Ivals) (rs : List Chord.Encoded) : LI Chord.Encoded := (iv.zip rs).map fun p => (p.1.1, p.1.2, p.2)

theorem zip5_eq (iv : Ivals) (rs : List Chord.Encoded) :
    List.zip (col0 iv) (List.zip (col1 iv) (List.zip (rs.map (·.1)) (List.zip (rs.map (·.2.1)) (rs.map (·.2.2)))))
      = tokenRows iv rs := by
  induction iv generalizing rs with
  | nil => simp [tokenRows, col0, col1]
  | cons a iv ih =>
    cases rs with
    | nil => simp [tokenRows, col0, col1]
    | cons r rs => simp only [tokenRows, col0, col1, List.map_cons, List.zip_cons_cons] at ih ⊢; rw [ih]

theorem anyB_rowNeMask_some (st p : List Int) : anyB (rowNeMask st (some p)) = decide (st ≠ p) := by
  unfold rowNeMask
  by_cases hl : st.length = p.length
  · simp only [hl, if_true]
    induction st generalizing p with
    | nil => cases p with
      | nil => rfl
      | cons b p => simp at hl
    | cons a st ih =>
      cases p with
      | nil => simp at hl
      | cons b p =>
        have := ih p (by simpa using hl)
        simp only [anyB, List.zipWith_cons_cons, List.any_cons] at this ⊢
        rw [this]
        by_cases hab : a = b <;> simp [hab]
  · have : st ≠ p := fun e => hl (by rw [e])
    simp [hl, this, anyB]

theorem setLastEnd_snoc (done : Ivals) (cs ce e : Rat) : setLastEnd (done ++ [(cs, ce)]) e = .ok (done ++ [(cs, e)]) := by
  simp [setLastEnd]

/-- the loop after at least one row: `merged_ivs` is the finished rows plus the open row, the `prev_*` hold its token -/
theorem merge_chord_loop_open (rows : LI Chord.Encoded) (p : Chord.Encoded) (done : Ivals) (cs ce : Rat) :
    ∃ a b c, Mir.Gen.chord.merge_chord_intervals_loop1 rows (some p.1) (some p.2.1) (some p.2.2)
        (done ++ [(cs, ce)]) = .ok (a, b, c, done ++ mergeChordAux p cs ce rows) := by
  induction rows generalizing p done cs ce with
  | nil => exact ⟨_, _, _, rfl⟩
  | cons x r ih =>
    obtain ⟨s, e, t⟩ := x
    by_cases ht : t = p
    · subst ht
      obtain ⟨a, b, c, h⟩ := ih t done cs e
      refine ⟨a, b, c, ?_⟩
      simp [Mir.Gen.chord.merge_chord_intervals_loop1, anyB_rowNeMask_some, setLastEnd_snoc, mergeChordAux, h]
    · obtain ⟨a, b, c, h⟩ := ih t (done ++ [(cs, ce)]) s e
      refine ⟨a, b, c, ?_⟩
      have hc : (decide (some t.1 ≠ some p.1) || anyB (rowNeMask t.2.1 (some p.2.1)) || decide (some t.2.2 ≠ some p.2.2))
          = true := by
        rw [anyB_rowNeMask_some]
        by_contra hcon
        simp only [Bool.or_eq_true, decide_eq_true_eq, not_or, ne_eq, not_not, Option.some.injEq] at hcon
        exact ht (Prod.ext hcon.1.1 (Prod.ext hcon.1.2 hcon.2))
      simp only [Mir.Gen.chord.merge_chord_intervals_loop1, hc, if_true, PyI.append, ok_bind, pure_bind]
      simp only [mergeChordAux, ht, if_false]
      simpa using h

theorem merge_chord_loop_eq (rows : LI Chord.Encoded) :
    ∃ a b c, Mir.Gen.chord.merge_chord_intervals_loop1 rows none none none [] = .ok (a, b, c, mergeChord rows) := by
  cases rows with
  | nil => exact ⟨_, _, _, rfl⟩
  | cons x r =>
    obtain ⟨s, e, t⟩ := x
    obtain ⟨a, b, c, h⟩ := merge_chord_loop_open r t [] s e
    refine ⟨a, b, c, ?_⟩
    simp only [List.nil_append] at h
    simp [Mir.Gen.chord.merge_chord_intervals_loop1, PyI.append, mergeChord, h]

/-- `chord.merge_chord_intervals` for ALL interval lists and label lists (of any lengths): the labels are encoded by the
    extern `encode_many(labels, True)` (the first invalid label raises) and neighbours with equal encodings are fused -/
theorem merge_chord_intervals_eq_model (iv : Ivals) (labels : List String) :
    Mir.Gen.chord.merge_chord_intervals iv labels
      = (Chord.encodeAll true (labels.map String.toList)).map fun rs => mergeChord (tokenRows iv rs) := by
  simp only [Mir.Gen.chord.merge_chord_intervals, Chord.pyEncodeMany]
  rcases Chord.encodeAll true (labels.map String.toList) with e | rs
  · rfl
  · obtain ⟨a, b, c, h⟩ := merge_chord_loop_eq (tokenRows iv rs)
    simp only [ok_bind, zip5_eq, h]
    rfl

/-! ### weighted_accuracy -/

theorem select_pairs (q : Rat → Bool) (cs ws : List Rat) (hl : cs.length = ws.length) :
    maskSelect cs (cs.map q) = .ok (((cs.zip ws).filter fun p => q p.1).map (·.1)) ∧
    maskSelect ws (cs.map q) = .ok (((cs.zip ws).filter fun p => q p.1).map (·.2)) := by
  have h : ∀ (cs ws : List Rat), cs.length = ws.length →
      ((cs.zip (cs.map q)).filter (·.2)).map (·.1) = ((cs.zip ws).filter fun p => q p.1).map (·.1) ∧
      ((ws.zip (cs.map q)).filter (·.2)).map (·.1) = ((cs.zip ws).filter fun p => q p.1).map (·.2) := by
    intro cs
    induction cs with
    | nil => intro ws h; cases ws <;> simp_all
    | cons c cs ih =>
      intro ws h
      cases ws with
      | nil => simp at h
      | cons w ws =>
        have := ih ws (by simpa using h)
        by_cases hq : q c = true <;> simp [List.filter_cons, hq, this.1, this.2]
  simp [maskSelect, hl, (h cs ws hl).1, (h cs ws hl).2]

theorem foldl_numAdd_vals (l : List Rat) (a : Rat) :
    List.foldl numAdd (.val a) (l.map Segment.Num.val) = .val (a + qsum l) := by
  induction l generalizing a with
  | nil => simp [qsum]
  | cons x l ih => simp only [List.map_cons, List.foldl_cons, numAdd, ih, qsum]; congr 1; ring

theorem foldl_numAdd_nan (l : List Segment.Num) : List.foldl numAdd .nan l = .nan := by
  induction l with
  | nil => rfl
  | cons x l ih => simpa [List.foldl_cons, numAdd] using ih

theorem qsum_nonneg_zero {l : List Rat} (hn : ∀ w ∈ l, 0 ≤ w) (h0 : qsum l = 0) : ∀ w ∈ l, w = 0 := by
  induction l with
  | nil => intro w hw; cases hw
  | cons x l ih =>
    have hx := hn x (List.mem_cons_self ..)
    have hl : ∀ w ∈ l, 0 ≤ w := fun w hw => hn w (List.mem_cons_of_mem _ hw)
    have hs : 0 ≤ qsum l := by
      clear ih h0 hn hx
      induction l with
      | nil => simp [qsum]
      | cons y l ih2 =>
        have := ih2 (fun w hw => hl w (List.mem_cons_of_mem _ hw))
        have hy := hl y (List.mem_cons_self ..)
        simp only [qsum]; linarith
    simp only [qsum] at h0
    intro w hw
    rcases List.mem_cons.1 hw with rfl | hw
    · linarith
    · exact ih hl (by linarith) w hw

/-- `chord.weighted_accuracy` for ALL comparison / weight vectors (value, `nan`, or exception class): the translated
    function normalises with NumPy's never-raising array division, and the result is `nan` exactly where the model says
    `nan` — some comparison is comparable (`≥ 0`) but every comparable entry has weight 0 while the total weight is not
    0 (the recorded finding `chord.weighted_accuracy:range`) -/
theorem weighted_accuracy_eq_model (cs ws : List Rat) :
    Mir.Gen.chord.weighted_accuracy cs ws = (wacc cs ws).map conv := by
  unfold Mir.Gen.chord.weighted_accuracy wacc
  by_cases hl : cs.length = ws.length
  · have hl' : ¬ len ws ≠ len cs := by simp [len, hl]
    have hl'' : ¬ cs.length ≠ ws.length := by simp [hl]
    simp only [hl', hl'', decide_false, Bool.false_eq_true, if_false]
    have hany : anyB (List.map (fun v => decide (v < (0 : Rat))) ws) = ws.any fun w => decide (w < 0) := by
      simp [anyB, List.any_map, Function.comp_def]
    rw [hany]
    by_cases hneg : (ws.any fun w => decide (w < 0)) = true
    · simp [hneg]; rfl
    · simp only [hneg, Bool.false_eq_true, if_false]
      by_cases h0 : qsum ws = 0
      · simp [h0, conv, Except.map]; rfl
      · simp only [h0, decide_false, Bool.false_eq_true, if_false]
        obtain ⟨s1, s2⟩ := select_pairs (fun c => decide (c ≥ (0 : Rat))) cs ws hl
        simp only [s1, s2, ok_bind]
        have hcount : countTrue (List.map (fun v => decide (v ≥ (0 : Rat))) cs)
            = ((cs.zip ws).filter fun p => decide ((0 : Rat) ≤ p.1)).length := by
          clear s1 s2 hneg h0 hany hl' hl''
          induction cs generalizing ws with
          | nil => simp [countTrue]
          | cons c cs ih =>
            cases ws with
            | nil => simp at hl
            | cons w ws =>
              have := ih ws (by simpa using hl)
              simp only [countTrue] at this ⊢
              by_cases hc : (0 : Rat) ≤ c <;> simp [List.filter_cons, hc, this]
        rw [hcount]
        generalize hv : ((cs.zip ws).filter fun p => decide ((0 : Rat) ≤ p.1)) = v
        by_cases hv0 : v.length = 0
        · simp [hv0, conv, Except.map]; rfl
        · simp only [hv0, decide_false, Bool.false_eq_true, if_false]
          have hlen : (v.map (·.1)).length = (divVecNp (v.map (·.2)) (qsum (v.map (·.2)))).length := by
            simp [divVecNp]
          simp only [mulVecNum, hlen, if_true, ok_bind]
          by_cases ht : qsum (v.map (·.2)) = 0
          · -- every comparable entry has weight 0: all products are nan
            have hnn : ∀ w ∈ v.map (·.2), (0 : Rat) ≤ w := by
              intro w hw
              obtain ⟨p, hp, rfl⟩ := List.mem_map.1 hw
              have hp' : p ∈ cs.zip ws := by rw [← hv] at hp; exact (List.mem_filter.1 hp).1
              have hw' : p.2 ∈ ws := (List.of_mem_zip hp').2
              by_contra hc
              exact hneg (List.any_eq_true.2 ⟨p.2, hw', by simpa using not_le.1 hc⟩)
            have hz := qsum_nonneg_zero hnn ht
            have hall : List.zipWith numMulRat (v.map (·.1)) (divVecNp (v.map (·.2)) (qsum (v.map (·.2))))
                = v.map fun _ => Segment.Num.nan := by
              rw [ht]
              simp only [divVecNp, List.map_map, List.zipWith_map]
              rw [List.zipWith_self]
              apply List.map_congr_left
              intro p hp
              have : p.2 = 0 := hz p.2 (List.mem_map.2 ⟨p, hp, rfl⟩)
              simp [Function.comp_def, this, Segment.npDiv, numMulRat]
            rw [hall]
            simp only [ht, if_true]
            have hne : v ≠ [] := fun e => hv0 (by simp [e])
            obtain ⟨p, v', rfl⟩ := List.exists_cons_of_ne_nil hne
            simp [numSum, numAdd, foldl_numAdd_nan, conv, Except.map, pure, Except.pure]
          · have hall : List.zipWith numMulRat (v.map (·.1)) (divVecNp (v.map (·.2)) (qsum (v.map (·.2))))
                = (v.map fun p => p.1 * (p.2 / qsum (v.map (·.2)))).map Segment.Num.val := by
              simp only [divVecNp, List.map_map, List.zipWith_map]
              rw [List.zipWith_self]
              apply List.map_congr_left
              intro p _
              simp [Function.comp_def, Segment.npDiv, ht, numMulRat]
            simp only [ht, if_false, hall, numSum, foldl_numAdd_vals]
            simp [conv, Except.map, pure, Except.pure]
  · have hl' : len ws ≠ len cs := fun e => hl (by simpa [len] using e.symm)
    simp [hl', hl]
    rfl

/-! ### the C12 headline statements, on the translated definitions -/

/-- rescaling all weights by a positive constant changes nothing (score, `nan`, or exception alike) -/
theorem gen_wacc_scale (cs ws : List Rat) (c : Rat) (hc : 0 < c) :
    Mir.Gen.chord.weighted_accuracy cs (ws.map fun w => c * w) = Mir.Gen.chord.weighted_accuracy cs ws := by
  rw [weighted_accuracy_eq_model, weighted_accuracy_eq_model, wacc_scale cs ws c hc]

/-- duration-weighted: the translated score is the weighted mean `Σ cᵢ·wᵢ / Σ wᵢ` over the comparable entries -/
theorem gen_wacc_is_weighted_mean {cs ws : List Rat} (hlen : cs.length = ws.length) (hw : ∀ w ∈ ws, 0 ≤ w)
    (htot : vTotal cs ws ≠ 0) :
    Mir.Gen.chord.weighted_accuracy cs ws = .ok (.val (vNum cs ws / vTotal cs ws)) := by
  rw [weighted_accuracy_eq_model, wacc_is_weighted_mean hlen hw htot]; rfl

/-- cutting one weighted entry into two consecutive pieces with the same comparison value changes nothing -/
theorem gen_wacc_split_invariant (c₁ c₂ w₁ w₂ : List Rat) (c d1 d2 : Rat) (hl : c₁.length = w₁.length)
    (h1 : 0 ≤ d1) (h2 : 0 ≤ d2) :
    Mir.Gen.chord.weighted_accuracy (c₁ ++ c :: c :: c₂) (w₁ ++ d1 :: d2 :: w₂)
      = Mir.Gen.chord.weighted_accuracy (c₁ ++ c :: c₂) (w₁ ++ (d1 + d2) :: w₂) := by
  rw [weighted_accuracy_eq_model, weighted_accuracy_eq_model, wacc_split_invariant c₁ c₂ w₁ w₂ c d1 d2 hl h1 h2]

/-- the recorded finding `chord.weighted_accuracy:range`, on the translated definition: comparable entries of weight 0
    next to a non-comparable entry of positive weight give `nan` -/
example : Mir.Gen.chord.weighted_accuracy [1, -1] [0, 1] = .ok .nan := by decide +kernel

example : Mir.Gen.chord.weighted_accuracy [1, 0, -1, 1] [1/2, 1/4, 8, 1/4] = .ok (.val (3/4)) := by decide +kernel

example : Mir.Gen.chord.directional_hamming_distance [((0 : Rat), (2 : Rat)), (2, 4)] [((0 : Rat), (1 : Rat)), (1, 4)]
    = .ok (.val (1/4)) := by decide +kernel

example : Mir.Gen.chord.seg [((0 : Rat), (2 : Rat)), (3, 2)] [((0 : Rat), (1 : Rat))] = .error .valueError := by
  decide +kernel

/-- the translated segmentation scores of two annotations do not change when an interval of either is cut in two, once
    equal neighbours are fused (what `chord.evaluate` feeds them) -/
theorem gen_seg_scores_split_invariant {L M : Type} [DecidableEq L] [DecidableEq M] (x₁ x₂ : LI L) (s r e : Rat) (l : L)
    (est : LI M) :
    Mir.Gen.chord.seg (mergeChord (x₁ ++ (s, r, l) :: (r, e, l) :: x₂)) (mergeChord est)
        = Mir.Gen.chord.seg (mergeChord (x₁ ++ (s, e, l) :: x₂)) (mergeChord est) ∧
    Mir.Gen.chord.seg (mergeChord est) (mergeChord (x₁ ++ (s, r, l) :: (r, e, l) :: x₂))
        = Mir.Gen.chord.seg (mergeChord est) (mergeChord (x₁ ++ (s, e, l) :: x₂)) := by
  simp only [seg_eq_model]
  obtain ⟨h1, h2⟩ := seg_scores_split_invariant x₁ x₂ s r e l est
  rw [h1, h2]; exact ⟨rfl, rfl⟩

theorem encodeAll_dup (red : Bool) (l : Chord.Str) (l₁ l₂ : List Chord.Str) :
    match Chord.encodeAll red (l₁ ++ l :: l₂) with
    | .error e => Chord.encodeAll red (l₁ ++ l :: l :: l₂) = .error e
    | .ok rs => ∃ r₁ t r₂, rs = r₁ ++ t :: r₂ ∧ r₁.length = l₁.length ∧
        Chord.encodeAll red (l₁ ++ l :: l :: l₂) = .ok (r₁ ++ t :: t :: r₂) := by
  induction l₁ with
  | nil =>
    simp only [List.nil_append, Chord.encodeAll]
    rcases Chord.pyEncode l red false with e | t
    · simp
    · rcases Chord.encodeAll red l₂ with e | r₂
      · simp
      · exact ⟨[], t, r₂, rfl, rfl, rfl⟩
  | cons a l₁ ih =>
    simp only [List.cons_append, Chord.encodeAll]
    rcases Chord.pyEncode a red false with e | ta
    · simp
    · rcases h : Chord.encodeAll red (l₁ ++ l :: l₂) with e | rs
      · rw [h] at ih; simp [ih]
      · rw [h] at ih
        obtain ⟨r₁, t, r₂, rfl, hlen, h2⟩ := ih
        exact ⟨ta :: r₁, t, r₂, rfl, by simp [hlen], by simp [h2]⟩

/-- the translated `merge_chord_intervals` undoes a cut: an interval split in two pieces carrying the same label merges to
    the same array as the uncut annotation (value or exception) -/
theorem gen_merge_chord_split_invariant (i₁ i₂ : Ivals) (l₁ l₂ : List String) (s r e : Rat) (l : String)
    (hlen : i₁.length = l₁.length) :
    Mir.Gen.chord.merge_chord_intervals (i₁ ++ (s, r) :: (r, e) :: i₂) (l₁ ++ l :: l :: l₂)
      = Mir.Gen.chord.merge_chord_intervals (i₁ ++ (s, e) :: i₂) (l₁ ++ l :: l₂) := by
  rw [merge_chord_intervals_eq_model, merge_chord_intervals_eq_model]
  have hd := encodeAll_dup true l.toList (l₁.map String.toList) (l₂.map String.toList)
  simp only [List.map_append, List.map_cons]
  rcases h : Chord.encodeAll true (l₁.map String.toList ++ l.toList :: l₂.map String.toList) with err | rs
  · simp only [h] at hd; rw [hd]; rfl
  · simp only [h] at hd
    obtain ⟨r₁, t, r₂, rfl, hl, h2⟩ := hd
    rw [h2]
    have hl' : i₁.length = r₁.length := by simp [hlen, hl]
    simp only [Except.map, tokenRows, List.zip_append hl', List.zip_cons_cons, List.map_append, List.map_cons]
    rw [mergeChord_split]

end Mir.C12.Gen
