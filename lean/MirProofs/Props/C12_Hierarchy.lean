import MirProofs.Lemmas.HierarchyRel
/-!
  C12 — hierarchy: the L-measure is blind to how time is cut up; the T-measure is not.

  `_meet` is computed from frame labels: cell `(i, j)` is the deepest level at which frames `i` and `j` lie in
  segments with the same label.  Cutting a segment `[s, e)` of any level at any `c` (on the frame grid or not),
  both pieces keeping the label, changes no frame label, so the meet matrix, `lmeasure` and every exception are
  unchanged.  `_lca` is segment based (cell `(i, j)` = deepest level at which the two frames share a SEGMENT), so
  the same cut does change the T-measure: witness at the end.

  Hypothesis `0 ≤ s`: negative times are outside the domain (`validate_hier_intervals` rejects them as soon as
  there are two levels); for a ONE-level hierarchy nothing is validated and a negative frame index is a Python
  negative slice index — the last example shows what happens there.
-/
namespace Mir.C12.Hierarchy
open Mir Mir.Hierarchy

/-- a frame lies in the slice of `[s, e)` iff it lies in the slice of `[s, c)` or of `[c, e)` -/
theorem frame_slice_split {fs : Rat} (n : Nat) {s c e : Rat} (h0 : 0 < fs) (hs : 0 ≤ s) (h1 : s ≤ c) (h2 : c ≤ e)
    (i : Nat) :
    (inSlice (frameSlice fs n (s, c)) i || inSlice (frameSlice fs n (c, e)) i) = inSlice (frameSlice fs n (s, e)) i :=
  inSlice_split n h0 hs h1 h2 i

/-- **the meet matrix is invariant under splitting a labelled segment** of any level (`hp`, `hs` = the levels
    before / after, `a`, `b` = the segments before / after in that level, `s ≤ c ≤ e`; any hierarchy, valid or not) -/
theorem meet_split {fs : Rat} {s c e : Rat} (h0 : 0 < fs) (hs0 : 0 ≤ s) (h1 : s ≤ c) (h2 : c ≤ e)
    (hp hs : Hier) (lp ls : List (List String)) (a b : Ivals) (la lb : List String) (l : String)
    (hlp : lp.length = hp.length) (hla : la.length = a.length) :
    meet (hp ++ (a ++ (s, c) :: (c, e) :: b) :: hs) (lp ++ (la ++ l :: l :: lb) :: ls) fs
      = meet (hp ++ (a ++ (s, e) :: b) :: hs) (lp ++ (la ++ l :: lb) :: ls) fs :=
  Mir.Hierarchy.meet_split h0 hs0 h1 h2 hp hs lp ls a b la lb l hlp hla

/-- `validate_hier_intervals` gives the same verdict before and after an interior cut -/
theorem validate_split (hp hs : Hier) (a b : Ivals) {s c e : Rat} (h1 : s < c) (h2 : c < e) :
    validateHier (hp ++ (a ++ (s, c) :: (c, e) :: b) :: hs) = validateHier (hp ++ (a ++ (s, e) :: b) :: hs) :=
  validateHier_split hp hs a b h1 h2

/-- **L-measure, reference cut**: value or exception unchanged, for every estimate, `frame_size`, `beta` -/
theorem lmeasure_split_ref {s c e : Rat} (hs0 : 0 ≤ s) (h1 : s < c) (h2 : c < e)
    (hp hs : Hier) (lp ls : List (List String)) (a b : Ivals) (la lb : List String) (l : String)
    (hlp : lp.length = hp.length) (hla : la.length = a.length)
    (est : Hier) (els : List (List String)) (fs beta : Rat) :
    lmeasure (hp ++ (a ++ (s, c) :: (c, e) :: b) :: hs) (lp ++ (la ++ l :: l :: lb) :: ls) est els fs beta
      = lmeasure (hp ++ (a ++ (s, e) :: b) :: hs) (lp ++ (la ++ l :: lb) :: ls) est els fs beta :=
  Mir.Hierarchy.lmeasure_split_ref hs0 h1 h2 hp hs lp ls a b la lb l hlp hla est els fs beta

/-- **L-measure, estimate cut** -/
theorem lmeasure_split_est {s c e : Rat} (hs0 : 0 ≤ s) (h1 : s < c) (h2 : c < e)
    (hp hs : Hier) (lp ls : List (List String)) (a b : Ivals) (la lb : List String) (l : String)
    (hlp : lp.length = hp.length) (hla : la.length = a.length)
    (ref : Hier) (rls : List (List String)) (fs beta : Rat) :
    lmeasure ref rls (hp ++ (a ++ (s, c) :: (c, e) :: b) :: hs) (lp ++ (la ++ l :: l :: lb) :: ls) fs beta
      = lmeasure ref rls (hp ++ (a ++ (s, e) :: b) :: hs) (lp ++ (la ++ l :: lb) :: ls) fs beta :=
  Mir.Hierarchy.lmeasure_split_est hs0 h1 h2 hp hs lp ls a b la lb l hlp hla ref rls fs beta

/-- non-vacuity: level 2 of the estimate `[0,3) b, [3,4) c` cut at 3/2 (off the 1 s frame grid) and at 2 (on it) -/
example :
    lmeasure [[(0, 4)], [(0, 2), (2, 4)]] [["a"], ["b", "c"]] [[(0, 4)], [(0, 3), (3, 4)]] [["a"], ["b", "c"]] 1 1
      = .ok (1/3, 1/4, 2/7)
    ∧ lmeasure [[(0, 4)], [(0, 2), (2, 4)]] [["a"], ["b", "c"]] [[(0, 4)], [(0, 3/2), (3/2, 3), (3, 4)]]
        [["a"], ["b", "b", "c"]] 1 1 = .ok (1/3, 1/4, 2/7)
    ∧ lmeasure [[(0, 4)], [(0, 2), (2, 4)]] [["a"], ["b", "c"]] [[(0, 4)], [(0, 2), (2, 3), (3, 4)]]
        [["a"], ["b", "b", "c"]] 1 1 = .ok (1/3, 1/4, 2/7) := by
  refine ⟨by decide +kernel, by decide +kernel, by decide +kernel⟩

/-- **the T-measure is NOT invariant**: the LCA matrix records shared segments, not shared labels.  Cutting the
    estimate's segment `[0, 3)` of level 2 at 2 moves the T-measure from `(1/3, 1/4, 2/7)` to `(1, 1/2, 2/3)` against
    the reference `[0,2) [2,4)`, while the L-measure (labels `b`, `b`) stays `(1/3, 1/4, 2/7)` (example above). -/
def tmeasure_split_full_statement : Prop :=
  ∀ (ref hp hs : Hier) (a b : Ivals) (s c e : Rat), 0 ≤ s → s < c → c < e →
    ∀ (transitive : Bool) (window : Option Rat) (fs beta : Rat),
      tmeasure ref (hp ++ (a ++ (s, c) :: (c, e) :: b) :: hs) transitive window fs beta
        = tmeasure ref (hp ++ (a ++ (s, e) :: b) :: hs) transitive window fs beta

theorem tmeasure_split_full_statement_false : ¬ tmeasure_split_full_statement := by
  intro h
  have := h [[(0, 4)], [(0, 2), (2, 4)]] [[(0, 4)]] [] [] [(3, 4)] 0 2 3 (by norm_num) (by norm_num) (by norm_num)
    true none 1 1
  revert this
  decide +kernel

example :
    tmeasure [[(0, 4)], [(0, 2), (2, 4)]] [[(0, 4)], [(0, 3), (3, 4)]] true none 1 1 = .ok (1/3, 1/4, 2/7)
    ∧ tmeasure [[(0, 4)], [(0, 2), (2, 4)]] [[(0, 4)], [(0, 2), (2, 3), (3, 4)]] true none 1 1
        = .ok (1, 1/2, 2/3) := by
  refine ⟨by decide +kernel, by decide +kernel⟩

/-- why `0 ≤ s`: a one-level hierarchy is not validated, and a segment starting at a negative time is sliced with
    a negative (wrap-around) start index: `[-1, 2)` covers no frame, its pieces `[-1, 0) [0, 2)` cover two -/
example :
    meet [[(-1, 2)]] [["a"]] 1 = .ok [[0, 0, 0], [0, 0, 0], [0, 0, 0]]
    ∧ meet [[(-1, 0), (0, 2)]] [["a", "a"]] 1 = .ok [[1, 1, 0], [1, 1, 0], [0, 0, 0]] := by
  refine ⟨by decide +kernel, by decide +kernel⟩

end Mir.C12.Hierarchy
