import MirProofs.Props.C12
import MirProofs.Lemmas.SegmentRel
/-!
  C12 (segment part) — the frame-based segment labelling scores are blind to how time is cut up.

  An annotation is a list of labelled rows `(start, end, label)`; the segment functions receive it as the arrays
  `Iv.ivals xs`, `Iv.labels xs`.  Cutting a row `(s, e, l)` at an interior point `s < r < e` into `(s, r, l)`,
  `(r, e, l)` changes neither the validation outcome nor any frame label, hence none of the six public functions
  `pairwise`, `rand_index`, `ari`, `mutual_information`, `nce`, `vmeasure` (values and exceptions alike, any frame
  size, any beta) — on either side, for annotations of any size.
-/
namespace Mir.C12.Segment
open Mir Mir.Segment

/-- the frame labels do not change — derived from C12's `samples_split_invariant` through the tie
    `frames_are_samples` between the segment model's sampler and the C13 model of `intervals_to_samples` -/
theorem frame_labels_split_invariant (x₁ x₂ : LI Label) {s r e : ℚ} (l : Label) (h1 : s ≤ r) (h2 : r ≤ e)
    {fs : ℚ} (hfs : 0 < fs) :
    frameLabels (Iv.ivals (x₁ ++ (s, r, l) :: (r, e, l) :: x₂)) (Iv.labels (x₁ ++ (s, r, l) :: (r, e, l) :: x₂)) fs =
      frameLabels (Iv.ivals (x₁ ++ (s, e, l) :: x₂)) (Iv.labels (x₁ ++ (s, e, l) :: x₂)) fs := by
  have hA := frameLabels_eq_intervalsToSamples (x₁ ++ (s, r, l) :: (r, e, l) :: x₂) fs hfs (by simp)
  have hB := frameLabels_eq_intervalsToSamples (x₁ ++ (s, e, l) :: x₂) fs hfs (by simp)
  have hsplit := Mir.C12.samples_split_invariant (someRows x₁) (someRows x₂) (some l) h1 h2 0 fs none
  have eA : someRows (x₁ ++ (s, r, l) :: (r, e, l) :: x₂) =
      someRows x₁ ++ (s, r, some l) :: (r, e, some l) :: someRows x₂ := by simp [someRows]
  have eB : someRows (x₁ ++ (s, e, l) :: x₂) = someRows x₁ ++ (s, e, some l) :: someRows x₂ := by simp [someRows]
  rw [eA, hsplit, ← eB, hB] at hA
  injection hA with hA
  exact (Prod.mk.inj hA).2.symm

/-- the frame-index sequence (what all six scores are functions of) does not change either -/
theorem frame_indices_split_invariant (x₁ x₂ : LI Label) {s r e : ℚ} (l : Label) (h1 : s ≤ r) (h2 : r ≤ e)
    (fs : ℚ) :
    frameIndices (Iv.ivals (x₁ ++ (s, r, l) :: (r, e, l) :: x₂)) (Iv.labels (x₁ ++ (s, r, l) :: (r, e, l) :: x₂)) fs =
      frameIndices (Iv.ivals (x₁ ++ (s, e, l) :: x₂)) (Iv.labels (x₁ ++ (s, e, l) :: x₂)) fs :=
  frameIndices_split x₁ x₂ l h1 h2 fs

/-- **every segment labelling score is unchanged when a reference interval is cut at an interior point** into two
    pieces carrying the same label (results and exceptions alike). -/
theorem scores_split_ref (x₁ x₂ : LI Label) {s r e : ℚ} (l : Label) (h1 : s < r) (h2 : r < e)
    (ei : List (ℚ × ℚ)) (el : List Label) (fs beta : ℚ) (marginal : Bool) :
    let A' : Annot := ⟨Iv.ivals (x₁ ++ (s, r, l) :: (r, e, l) :: x₂), Iv.labels (x₁ ++ (s, r, l) :: (r, e, l) :: x₂), ei, el⟩
    let A : Annot := ⟨Iv.ivals (x₁ ++ (s, e, l) :: x₂), Iv.labels (x₁ ++ (s, e, l) :: x₂), ei, el⟩
    pairwise A' fs beta = pairwise A fs beta ∧ randIndex A' fs = randIndex A fs ∧ ari A' fs = ari A fs ∧
    mutualInformation A' fs = mutualInformation A fs ∧ nce A' fs beta marginal = nce A fs beta marginal ∧
    vmeasure A' fs beta = vmeasure A fs beta := by
  intro A' A
  have hp : prologue A' fs = prologue A fs := prologue_split_ref x₁ x₂ l h1 h2 ei el fs
  unfold pairwise randIndex ari mutualInformation vmeasure nce
  rw [hp]
  exact ⟨rfl, rfl, rfl, rfl, rfl, rfl⟩

/-- **… and when an estimate interval is cut.** -/
theorem scores_split_est (y₁ y₂ : LI Label) {s r e : ℚ} (l : Label) (h1 : s < r) (h2 : r < e)
    (ri : List (ℚ × ℚ)) (rl : List Label) (fs beta : ℚ) (marginal : Bool) :
    let A' : Annot := ⟨ri, rl, Iv.ivals (y₁ ++ (s, r, l) :: (r, e, l) :: y₂), Iv.labels (y₁ ++ (s, r, l) :: (r, e, l) :: y₂)⟩
    let A : Annot := ⟨ri, rl, Iv.ivals (y₁ ++ (s, e, l) :: y₂), Iv.labels (y₁ ++ (s, e, l) :: y₂)⟩
    pairwise A' fs beta = pairwise A fs beta ∧ randIndex A' fs = randIndex A fs ∧ ari A' fs = ari A fs ∧
    mutualInformation A' fs = mutualInformation A fs ∧ nce A' fs beta marginal = nce A fs beta marginal ∧
    vmeasure A' fs beta = vmeasure A fs beta := by
  intro A' A
  have hp : prologue A' fs = prologue A fs := prologue_split_est y₁ y₂ l h1 h2 ri rl fs
  unfold pairwise randIndex ari mutualInformation vmeasure nce
  rw [hp]
  exact ⟨rfl, rfl, rfl, rfl, rfl, rfl⟩

/-- the validation outcome is the same as well (so a cut never turns an accepted annotation into a rejected one) -/
theorem prologue_split_invariant (x₁ x₂ y₁ y₂ : LI Label) {s r e s' r' e' : ℚ} (l l' : Label)
    (h1 : s < r) (h2 : r < e) (h1' : s' < r') (h2' : r' < e') (fs : ℚ) :
    prologue ⟨Iv.ivals (x₁ ++ (s, r, l) :: (r, e, l) :: x₂), Iv.labels (x₁ ++ (s, r, l) :: (r, e, l) :: x₂),
              Iv.ivals (y₁ ++ (s', r', l') :: (r', e', l') :: y₂), Iv.labels (y₁ ++ (s', r', l') :: (r', e', l') :: y₂)⟩ fs =
      prologue ⟨Iv.ivals (x₁ ++ (s, e, l) :: x₂), Iv.labels (x₁ ++ (s, e, l) :: x₂),
                Iv.ivals (y₁ ++ (s', e', l') :: y₂), Iv.labels (y₁ ++ (s', e', l') :: y₂)⟩ fs := by
  rw [prologue_split_ref x₁ x₂ l h1 h2, prologue_split_est y₁ y₂ l' h1' h2']

-- non-vacuity: a reference `a [0,2) b [2,4)` with the first row cut at 1/2 (off the frame grid) and at 1 (on it)
example :
    prologue ⟨Iv.ivals ([] ++ ((0 : ℚ), (1/2 : ℚ), ['a']) :: (1/2, 2, ['a']) :: [(2, 4, ['b'])]),
              Iv.labels ([] ++ ((0 : ℚ), (1/2 : ℚ), ['a']) :: (1/2, 2, ['a']) :: [(2, 4, ['b'])]),
              [(0, 1), (1, 4)], [['x'], ['y']]⟩ 1 = .ok (some ([0, 0, 1, 1], [0, 1, 1, 1])) ∧
    prologue ⟨Iv.ivals ([] ++ ((0 : ℚ), (2 : ℚ), ['a']) :: [(2, 4, ['b'])]),
              Iv.labels ([] ++ ((0 : ℚ), (2 : ℚ), ['a']) :: [(2, 4, ['b'])]),
              [(0, 1), (1, 4)], [['x'], ['y']]⟩ 1 = .ok (some ([0, 0, 1, 1], [0, 1, 1, 1])) ∧
    frameLabels (Iv.ivals ([] ++ ((0 : ℚ), (1 : ℚ), ['a']) :: (1, 2, ['a']) :: [(2, 4, ['b'])]))
      (Iv.labels ([] ++ ((0 : ℚ), (1 : ℚ), ['a']) :: (1, 2, ['a']) :: [(2, 4, ['b'])])) 1 =
      [some ['a'], some ['a'], some ['b'], some ['b']] := by
  refine ⟨by decide +kernel, by decide +kernel, by decide +kernel⟩

end Mir.C12.Segment
