import MirProofs.Lemmas.Intervals
import MirProofs.Lemmas.IntervalsMerge
import MirProofs.Lemmas.IntervalsEvents
import MirProofs.Lemmas.IntervalsRound
/-!
  C13 — interval pre-processing preserves the annotation it re-expresses.

  Input annotations are `Chain lo xs`: rows `(start, end, label)` of strictly positive duration,
  time-ordered and non-overlapping (gaps allowed), of any length; `t_min`, `t_max` are arbitrary
  rationals or `none`.  Theorems are about the executable model `Mir.Iv.*` (MirModel/Intervals.lean),
  which is tied to `mir_eval.util` by the correspondence check.
-/
namespace Mir.C13
open Mir.Iv

variable {L : Type}

/-- `adjust_intervals` begins at `t_min` and ends at `t_max` (whenever it returns). -/
theorem adjust_span {lo : Rat} {xs out : LI L} {tmin tmax : Option Rat} {sl el : L} (hc : Chain lo xs)
    (ho : adjustIntervals xs tmin tmax sl el = .ok out) :
    (∀ a, tmin = some a → ∃ hd tl, out = hd :: tl ∧ hd.1 = a) ∧
    (∀ b, tmax = some b → ∃ z, out.getLast? = some z ∧ z.2.1 = b) := by
  by_cases hne : xs = []
  · subst hne
    obtain ⟨a, b, rfl, rfl, rfl⟩ := adjustIntervals_nil_ok ho
    exact ⟨fun a' h => (by cases h; exact ⟨_, _, rfl, rfl⟩), fun b' h => (by cases h; exact ⟨_, rfl, rfl⟩)⟩
  · obtain ⟨x1, h1, h2⟩ := adjustIntervals_ok hne ho
    cases tmin with
    | none =>
      simp only at h1; subst h1
      refine ⟨fun a h => (by cases h), ?_⟩
      cases tmax with
      | none => intro b h; cases h
      | some b =>
        intro b' h; cases h
        exact (adjustMax_wchain hc.wchain h2).2.1
    | some a =>
      simp only at h1
      obtain ⟨hw, hd, tl, hx1, hda⟩ := adjustMin_wchain hc.wchain hne h1
      cases tmax with
      | none =>
        simp only at h2; subst h2
        exact ⟨fun a' h => (by cases h; exact ⟨hd, tl, hx1, hda⟩), fun b h => (by cases h)⟩
      | some b =>
        simp only at h2
        obtain ⟨_, hlast, hhead⟩ := adjustMax_wchain hw h2
        refine ⟨?_, fun b' h => (by cases h; exact hlast)⟩
        intro a' h; cases h
        obtain ⟨hb, tl', ht⟩ := hhead hd tl hx1
        refine ⟨_, tl', ht, ?_⟩
        simp only [hda]
        exact min_eq_right (le_of_lt (hda ▸ hb))

/-- The output is time-ordered and non-overlapping. -/
theorem adjust_ordered {lo : Rat} {xs out : LI L} {tmin tmax : Option Rat} {sl el : L} (hc : Chain lo xs)
    (hne : xs ≠ []) (ho : adjustIntervals xs tmin tmax sl el = .ok out) : ∃ lo', WChain lo' out := by
  obtain ⟨x1, h1, h2⟩ := adjustIntervals_ok hne ho
  have hw1 : ∃ l1, WChain l1 x1 := by
    cases tmin with
    | none => simp only at h1; subst h1; exact ⟨lo, hc.wchain⟩
    | some a => exact ⟨a, (adjustMin_wchain hc.wchain hne h1).1⟩
  obtain ⟨l1, hw1⟩ := hw1
  cases tmax with
  | none => simp only at h2; subst h2; exact ⟨l1, hw1⟩
  | some b => exact ⟨_, (adjustMax_wchain hw1 h2).1⟩

/-- Nothing of the output lies outside `[t_min, t_max]` (any non-empty input, ordered or not). -/
theorem adjust_within {xs out : LI L} {tmin tmax : Option Rat} {sl el : L} (hne : xs ≠ [])
    (ho : adjustIntervals xs tmin tmax sl el = .ok out) :
    ∀ x ∈ out, (∀ a, tmin = some a → a ≤ x.1 ∧ a ≤ x.2.1) ∧ (∀ b, tmax = some b → x.1 ≤ b ∧ x.2.1 ≤ b) := by
  obtain ⟨x1, h1, h2⟩ := adjustIntervals_ok hne ho
  intro x hx
  constructor
  · intro a ha; subst ha
    simp only at h1
    have hl := adjustMin_lb h1
    cases tmax with
    | none => simp only at h2; subst h2; exact hl x hx
    | some b => exact (adjustMax_lb h2 hl).2 x hx
  · intro b hb; subst hb
    exact adjustMax_ub h2 x hx

/-- No exception on a time-ordered annotation and a proper range (`t_min < t_max`; with `t_min` absent the
    first interval must start before `t_max`). -/
theorem adjust_total {lo : Rat} {x0 : Rat × Rat × L} {r : LI L} {tmin tmax : Option Rat} {sl el : L}
    (hc : Chain lo (x0 :: r)) (hab : ∀ a b, tmin = some a → tmax = some b → a < b)
    (hb : ∀ b, tmin = none → tmax = some b → x0.1 < b) :
    ∃ out, adjustIntervals (x0 :: r) tmin tmax sl el = .ok out := by
  simp only [adjustIntervals]
  cases tmin with
  | none =>
    cases tmax with
    | none => exact ⟨_, rfl⟩
    | some b => exact adjustMax_total (hb b rfl rfl)
  | some a =>
    obtain ⟨x1, h1⟩ := adjustMin_total (a := a) (sl := sl) (xs := x0 :: r) (by simp)
    cases tmax with
    | none => exact ⟨x1, by simp only [h1]; rfl⟩
    | some b =>
      obtain ⟨_, hd, tl, hx1, hda⟩ := adjustMin_wchain hc.wchain (by simp) h1
      subst hx1
      obtain ⟨out, h2⟩ := adjustMax_total (b := b) (el := el) (hd := hd) (tl := tl) (by rw [hda]; exact hab a b rfl rfl)
      exact ⟨out, by simp only [h1]; exact h2⟩

/-- non-vacuity for span / ordered / within / total: cropping on both sides, ends on a boundary -/
example : Chain 0 [((1 : Rat), (3 : Rat), "a"), (3, 6, "b")] ∧
    adjustIntervals [((1 : Rat), (3 : Rat), "a"), (3, 6, "b")] (some 2) (some 5) "S" "E"
      = .ok [(2, 3, "a"), (3, 5, "b")] := by
  refine ⟨⟨?_, ?_, ?_, ?_, trivial⟩, ?_⟩ <;> decide +kernel

/-! ### strictly positive durations: true unless every interval lies before `t_min` -/

/-- The full-strength claim: on a time-ordered annotation and a proper range, every returned interval has
    strictly positive duration.  Since the repair `b04f12e` (an interval ending exactly at `t_min` or starting
    exactly at `t_max` is now dropped) it fails only when NO interval ends after `t_min`: then nothing is
    cropped and `np.maximum` collapses every interval to `[t_min, t_min]`. -/
def adjust_posdur_full_statement : Prop :=
  ∀ (lo : Rat) (xs out : LI String) (tmin tmax : Option Rat) (sl el : String),
    Chain lo xs → xs ≠ [] → (∀ a b, tmin = some a → tmax = some b → a < b) →
    adjustIntervals xs tmin tmax sl el = .ok out → ∀ x ∈ out, x.1 < x.2.1

/-- witness (the remaining part of the defect): `[[0,1],[1,2]]`, `t_min = 3`, `t_max = 5` gives
    `[[3,3],[3,3],[3,5]]` -/
theorem adjust_posdur_full_statement_false : ¬ adjust_posdur_full_statement := by
  intro h
  have := h 0 [(0, 1, "a"), (1, 2, "b")] [(3, 3, "a"), (3, 3, "b"), (3, 5, "E")] (some 3) (some 5) "S" "E"
    (by refine ⟨?_, ?_, ?_, ?_, trivial⟩ <;> decide +kernel) (by simp)
    (by intro a b h1 h2; cases h1; cases h2; decide +kernel) (by decide +kernel) (3, 3, "a") (by simp)
  exact absurd this (by decide +kernel)

/-- The strongest true version: some input interval ends after `t_min` (nothing else is assumed: intervals
    ending exactly at `t_min` or starting exactly at `t_max` are allowed, any `t_max`). -/
theorem adjust_posdur_partial {lo : Rat} {xs out : LI L} {tmin tmax : Option Rat} {sl el : L}
    (hc : Chain lo xs) (hmin : ∀ a, tmin = some a → ∃ x ∈ xs, a < x.2.1)
    (ho : adjustIntervals xs tmin tmax sl el = .ok out) : ∀ x ∈ out, x.1 < x.2.1 := by
  by_cases hne : xs = []
  · subst hne
    obtain ⟨a, b, rfl, rfl, rfl⟩ := adjustIntervals_nil_ok ho
    obtain ⟨x, hx, _⟩ := hmin a rfl
    cases hx
  · obtain ⟨x1, h1, h2⟩ := adjustIntervals_ok hne ho
    have hp1 : ∀ x ∈ x1, x.1 < x.2.1 := by
      cases tmin with
      | none =>
        simp only at h1; subst h1
        exact fun x hx => (hc.lb x hx).2
      | some a =>
        simp only at h1
        exact adjustMin_posdur hc (hmin a rfl) h1
    cases tmax with
    | none => simp only at h2; subst h2; exact hp1
    | some b => exact adjustMax_posdur hp1 h2

/-- Corollary (what the repair achieved): with `t_min` absent, or `t_min` below the last end, there is never a
    zero-length interval — in particular when an interval ends exactly at `t_min` or starts exactly at
    `t_max`. -/
theorem adjust_posdur_of_last_end {lo : Rat} {xs out : LI L} {z : Rat × Rat × L} {tmin tmax : Option Rat}
    {sl el : L} (hc : Chain lo xs) (hz : xs.getLast? = some z) (hmin : ∀ a, tmin = some a → a < z.2.1)
    (ho : adjustIntervals xs tmin tmax sl el = .ok out) : ∀ x ∈ out, x.1 < x.2.1 :=
  adjust_posdur_partial hc (fun a ha => ⟨z, List.mem_of_getLast? hz, hmin a ha⟩) ho

/-- the formerly failing inputs now give strictly positive durations: an interval ending at `t_min` is
    dropped, an interval starting at `t_max` is dropped -/
example : adjustIntervals [((0 : Rat), (2 : Rat), "a"), (2, 4, "b")] (some 2) none "S" "E"
      = .ok [(2, 4, "b")] ∧
    adjustIntervals [((0 : Rat), (2 : Rat), "a"), (2, 4, "b")] (some 1) (some 2) "S" "E"
      = .ok [(1, 2, "a")] := by decide +kernel

/-- non-vacuity: a cropped, padded example with gaps satisfies every hypothesis and is computed -/
example : adjustIntervals [((1 : Rat), (3 : Rat), "a"), (4, 6, "b")] (some 2) (some 7) "S" "E"
    = .ok [(2, 3, "a"), (4, 6, "b"), (6, 7, "E")] := by decide +kernel

/-! ### the labelling inside the range: false as stated (gap straddling), true otherwise -/

/-- what the statement says an instant `t` of the range must carry: the start label before the first input
    interval, the end label from the last input end on, otherwise what the input carries (nothing in a gap) -/
def expectedLabel (x0 z : Rat × Rat × L) (xs : LI L) (sl el : L) (t : Rat) : Option L :=
  if t < x0.1 then some sl else if z.2.1 ≤ t then some el else labelAt xs t

/-- The full-strength claim.  FALSE of the code as it is (not repaired): when `t_min` (`t_max`) cuts an
    internal gap `[e, s')` — `e ≤ t_min < s'`, resp. `e < t_max ≤ s'` — the part of that gap inside the range is
    given the start (end) label.  (Since the repair `b04f12e` drops an interval that ends exactly at `t_min` /
    starts exactly at `t_max`, the crop point coinciding with the edge of the gap is now part of this region.) -/
def adjust_labelAt_full_statement : Prop :=
  ∀ (lo : Rat) (x0 z : Rat × Rat × String) (r out : LI String) (tmin tmax : Option Rat) (sl el : String)
    (t : Rat),
    Chain lo (x0 :: r) → (x0 :: r).getLast? = some z →
    (∀ a b, tmin = some a → tmax = some b → a < b) →
    adjustIntervals (x0 :: r) tmin tmax sl el = .ok out →
    (∀ a, tmin = some a → a ≤ t) → (tmin = none → x0.1 ≤ t) →
    (∀ b, tmax = some b → t < b) → (tmax = none → t < z.2.1) →
    labelAt out t = expectedLabel x0 z (x0 :: r) sl el t

/-- witness: `[[0,1],[5,6]]`, `t_min = 2`: the instant 3 lies in the gap (1,5) but comes back labelled -/
theorem adjust_labelAt_full_statement_false : ¬ adjust_labelAt_full_statement := by
  intro h
  have := h 0 (0, 1, "a") (5, 6, "b") [(5, 6, "b")] [(2, 5, "S"), (5, 6, "b")] (some 2) none "S" "E" 3
    (by refine ⟨?_, ?_, ?_, ?_, trivial⟩ <;> decide +kernel) rfl
    (by intro a b _ h; cases h) (by decide +kernel)
    (by intro a h; cases h; decide +kernel) (by intro h; cases h)
    (by intro b h; cases h) (by intro _; decide +kernel)
  exact absurd this (by decide +kernel)

/-- The strongest true version: neither `t_min` nor `t_max` cuts an internal gap (`NoStraddleMin`,
    `NoStraddleMax`).
    Arbitrary size, arbitrary rational / absent crop points (equal to boundaries, inside intervals, beyond
    either end), zero-length leftovers included. -/
theorem adjust_labelAt_partial {lo : Rat} {x0 z : Rat × Rat × L} {r out : LI L} {tmin tmax : Option Rat}
    {sl el : L} {t : Rat}
    (hc : Chain lo (x0 :: r)) (hz : (x0 :: r).getLast? = some z)
    (hab : ∀ a b, tmin = some a → tmax = some b → a < b)
    (hsa : ∀ a, tmin = some a → NoStraddleMin a (x0 :: r)) (hsb : ∀ b, tmax = some b → NoStraddleMax b (x0 :: r))
    (ho : adjustIntervals (x0 :: r) tmin tmax sl el = .ok out)
    (hta : ∀ a, tmin = some a → a ≤ t) (hta' : tmin = none → x0.1 ≤ t)
    (htb : ∀ b, tmax = some b → t < b) (htb' : tmax = none → t < z.2.1) :
    labelAt out t = expectedLabel x0 z (x0 :: r) sl el t := by
  obtain ⟨x1, h1, h2⟩ := adjustIntervals_ok (by simp) ho
  have hx0z : x0.1 ≤ z.2.1 := ((hc.wchain.le_last hz).2 x0 List.mem_cons_self).1
  -- stage 1
  have hs1 : (∃ l1, WChain l1 x1) ∧
      (labelAt x1 t = if t < x0.1 then some sl else labelAt (x0 :: r) t) ∧
      (∃ z1, x1.getLast? = some z1 ∧ (z1.2.1 ≤ t ↔ z.2.1 ≤ t)) ∧
      (∀ b, tmax = some b → NoStraddleMax b x1) := by
    cases tmin with
    | none =>
      simp only at h1; subst h1
      refine ⟨⟨lo, hc.wchain⟩, ?_, ⟨z, hz, Iff.rfl⟩, hsb⟩
      rw [if_neg (not_lt.2 (hta' rfl))]
    | some a =>
      simp only at h1
      have hat := hta a rfl
      obtain ⟨z1, hz1, hz1e⟩ := adjustMin_last hz h1
      refine ⟨⟨a, (adjustMin_wchain hc.wchain (by simp) h1).1⟩,
        labelAt_adjustMin_chain hc (hsa a rfl) h1 hat, ⟨z1, hz1, ?_⟩, ?_⟩
      · rw [hz1e]; constructor <;> intro hh <;> grind
      · intro b hb
        exact adjustMin_noStraddle hc.wchain (hab a b rfl hb) (hsb b hb) h1
  obtain ⟨⟨l1, hw1⟩, hl1, ⟨z1, hz1, hz1e⟩, hns⟩ := hs1
  -- stage 2
  have hs2 : labelAt out t = if z.2.1 ≤ t then some el else labelAt x1 t := by
    cases tmax with
    | none =>
      simp only at h2; subst h2
      rw [if_neg (not_le.2 (htb' rfl))]
    | some b =>
      simp only at h2
      rw [labelAt_adjustMax_chain hw1 (hns b rfl) hz1 h2 (htb b rfl)]
      simp only [hz1e]
  rw [hs2, hl1]
  unfold expectedLabel
  by_cases h1 : t < x0.1
  · have : ¬ z.2.1 ≤ t := by intro hh; linarith
    simp [h1, this]
  · simp [h1]

/-- non-vacuity: both crop points inside intervals, a gap inside the range -/
example : labelAt [((2 : Rat), (3 : Rat), "a"), (4, 11/2, "b")] (7/2) = none ∧
    adjustIntervals [((1 : Rat), (3 : Rat), "a"), (4, 6, "b")] (some 2) (some (11/2)) "S" "E"
      = .ok [(2, 3, "a"), (4, 11/2, "b")] := by decide +kernel

/-! ### `interpolate_intervals`, `intervals_to_samples` -/

/-- each time point gets the label of the interval containing it, else the fill value (any intervals, any
    non-decreasing time points) -/
theorem interpolate_spec (xs : LI L) (tps : List Rat) (fill : L) (h : isNondecreasing tps = true) :
    interpolate xs tps fill = .ok (tps.map fun t => (labelAtC xs t).getD fill) := by
  rw [interpolate_eq, if_pos h]

theorem interpolate_unsorted_raises (xs : LI L) (tps : List Rat) (fill : L)
    (h : isNondecreasing tps = false) : interpolate xs tps fill = .error .valueError := by
  rw [interpolate_eq, if_neg (by simp [h])]

/-- "the interval containing it": the last row (the later one at a shared boundary) whose closed span
    contains `t` -/
theorem interpolate_label_meaning {xs : LI L} {t : Rat} {l : L} (h : labelAtC xs t = some l) :
    ∃ pre x post, xs = pre ++ x :: post ∧ x.1 ≤ t ∧ t ≤ x.2.1 ∧ x.2.2 = l ∧
      ∀ y ∈ post, ¬ (y.1 ≤ t ∧ t ≤ y.2.1) := labelAtC_some h

/-- the fill value is used exactly outside all intervals -/
theorem interpolate_fill_meaning {xs : LI L} {t : Rat} :
    labelAtC xs t = none ↔ ∀ x ∈ xs, ¬ (x.1 ≤ t ∧ t ≤ x.2.1) := labelAtC_none_iff

/-- on a time-ordered annotation this is the annotation's own label wherever it has one -/
theorem interpolate_agrees_labelAt {lo : Rat} {xs : LI L} (hc : Chain lo xs) {t : Rat} {l : L}
    (h : labelAt xs t = some l) : labelAtC xs t = some l := labelAtC_of_labelAt hc h

/-- `intervals_to_samples`: times `i·size + offset` for `i < ⌊max/size⌋`, each labelled as above -/
theorem samples_spec (xs : LI L) (offset size : Rat) (fill : L) (m : Rat)
    (hm : maxL (entries xs) = some m) (hs : 0 < size) :
    intervalsToSamples xs offset size fill =
      .ok (sampleTimes (m / size).floor.toNat size offset,
           (sampleTimes (m / size).floor.toNat size offset).map fun t => (labelAtC xs t).getD fill) := by
  unfold intervalsToSamples
  rw [hm]
  simp only [ne_of_gt hs, if_false]
  rw [interpolate_spec _ _ _ (isNondecreasing_sampleTimes _ _ _ (le_of_lt hs))]
  rfl

example : intervalsToSamples [((0 : Rat), (1 : Rat), "a"), (1, 2, "b")] 0 (1/2) "F"
    = .ok ([0, 1/2, 1, 3/2], ["a", "a", "b", "b"]) := by decide +kernel

example : interpolate [((0 : Rat), (1 : Rat), "a"), (2, 3, "b")] [-1, 1, 3/2, 2, 3] "F"
    = .ok ["F", "a", "F", "b", "b"] := by decide +kernel

/-! ### boundaries ↔ intervals (mutually inverse on contiguous segmentations with 5-decimal-exact times) -/

/-- `boundaries_to_intervals ∘ intervals_to_boundaries` is the identity on a contiguous segmentation whose
    times survive the documented 5-decimal rounding -/
theorem b2i_i2b {lo : Rat} {xs : LI L} (hc : Contig lo xs) (hex : ∀ v ∈ entries xs, roundDec 5 v = v) :
    boundariesToIntervals (intervalsToBoundaries (ivals xs)) = .ok (ivals xs) := by
  unfold intervalsToBoundaries
  rw [entriesP_ivals]
  have : (entries xs).map (roundDec 5) = entries xs := by
    conv_rhs => rw [← List.map_id (entries xs)]
    exact List.map_congr_left hex
  rw [this, b2i_sorted (usort_sorted _), usort_entries_contig hc, pairs_bounds_contig hc]

/-- `intervals_to_boundaries ∘ boundaries_to_intervals` is the identity on ascending, unique, 5-decimal-exact
    boundary lists with at least two entries -/
theorem i2b_b2i {bs : List Rat} (hs : SSorted bs) (hlen : 2 ≤ bs.length)
    (hex : ∀ v ∈ bs, roundDec 5 v = v) :
    ∃ iv, boundariesToIntervals bs = .ok iv ∧ intervalsToBoundaries iv = bs := by
  refine ⟨pairs bs, b2i_sorted hs, ?_⟩
  unfold intervalsToBoundaries
  have : (entriesP (pairs bs)).map (roundDec 5) = entriesP (pairs bs) := by
    conv_rhs => rw [← List.map_id (entriesP (pairs bs))]
    exact List.map_congr_left (fun v hv => hex v ((mem_entriesP_pairs hlen).1 hv))
  rw [this]
  exact sorted_ext (usort_sorted _) hs (fun v => by rw [mem_usort, mem_entriesP_pairs hlen])

/-- `np.round(·, 5)` moves a time by at most half a unit of the fifth decimal. -/
theorem round5_near (x : Rat) : roundDec 5 x - x ≤ 1 / 200000 ∧ x - roundDec 5 x ≤ 1 / 200000 := by
  have := roundDec_near 5 x
  norm_num at this ⊢
  exact this

/-- **b2i ∘ i2b beyond 5-decimal-exact times** ("up to round5"): on ANY contiguous segmentation whose rows keep a
    positive duration after the documented rounding, the round trip returns the segmentation with every time
    rounded to 5 decimals (`roundRows 5`); `b2i_i2b` is the case where rounding changes nothing. -/
theorem b2i_i2b_rounded {lo : Rat} {xs : LI L} (hc : Contig lo xs)
    (hpos : ∀ x ∈ xs, roundDec 5 x.1 < roundDec 5 x.2.1) :
    boundariesToIntervals (intervalsToBoundaries (ivals xs)) = .ok (ivals (roundRows 5 xs)) :=
  b2i_i2b_roundRows hc hpos

/-- … in particular whenever every row lasts longer than `1e-5` s; each returned time is within `5e-6` of the
    original (`round5_near`). -/
theorem b2i_i2b_rounded_of_durations {lo : Rat} {xs : LI L} (hc : Contig lo xs)
    (hdur : ∀ x ∈ xs, 1 / 100000 < x.2.1 - x.1) :
    boundariesToIntervals (intervalsToBoundaries (ivals xs)) = .ok (ivals (roundRows 5 xs)) :=
  b2i_i2b_roundRows hc (fun x hx => roundDec_lt_of_gap 5 (by have := hdur x hx; norm_num at this ⊢; exact this))

/-- **i2b ∘ b2i beyond 5-decimal-exact times**: on an ascending boundary list whose rounded values are still
    strictly ascending the round trip returns the rounded boundaries. -/
theorem i2b_b2i_rounded {bs : List Rat} (hs : SSorted bs) (hlen : 2 ≤ bs.length)
    (hs' : SSorted (bs.map (roundDec 5))) :
    ∃ iv, boundariesToIntervals bs = .ok iv ∧ intervalsToBoundaries iv = bs.map (roundDec 5) := by
  refine ⟨pairs bs, b2i_sorted hs, ?_⟩
  unfold intervalsToBoundaries
  apply sorted_ext (usort_sorted _) hs'
  intro v
  rw [mem_usort, List.mem_map, List.mem_map]
  constructor
  · rintro ⟨a, ha, rfl⟩; exact ⟨a, (mem_entriesP_pairs hlen).1 ha, rfl⟩
  · rintro ⟨a, ha, rfl⟩; exact ⟨a, (mem_entriesP_pairs hlen).2 ha, rfl⟩

example : Contig 0 [((0 : Rat), (1000004 / 1000000 : Rat), "a"), (1000004 / 1000000, 2, "b")] ∧
    roundDec 5 (1000004 / 1000000 : Rat) = 1 ∧
    boundariesToIntervals (intervalsToBoundaries [((0 : Rat), (1000004 / 1000000 : Rat)), (1000004 / 1000000, 2)])
      = .ok [(0, 1), (1, 2)] := by
  refine ⟨⟨rfl, by norm_num, rfl, by norm_num, trivial⟩, by decide +kernel, by decide +kernel⟩

/-- whatever is accepted is returned as consecutive pairs; lists whose set of distinct values neither has the
    same length nor broadcasts (a single value) are rejected with `ValueError` -/
theorem b2i_rejects {bs : List Rat} (h1 : (usort bs).length ≠ bs.length) (h2 : (usort bs).length ≠ 1) :
    boundariesToIntervals bs = .error .valueError := by
  unfold boundariesToIntervals
  simp only [h1, if_false]
  cases hu : usort bs with
  | nil => rfl
  | cons v r =>
    cases r with
    | nil => rw [hu] at h2; simp at h2
    | cons w r' => rfl

example : roundDec 5 (33 / 32) = 33 / 32 ∧ roundDec 5 (1 / 3) = 33333 / 100000 := by decide +kernel

example : boundariesToIntervals (intervalsToBoundaries [((0 : Rat), (1/32 : Rat)), (1/32, 5/2)])
    = .ok [(0, 1/32), (1/32, 5/2)] := by decide +kernel

/-! ### `merge_labeled_intervals` -/

/-- The merge of two aligned annotations (contiguous segmentations of the same span `[lo, hi]`, any sizes)
    is their common refinement: its boundaries are the union of the boundaries, it is again a contiguous
    segmentation from `lo` with strictly positive durations, every instant of an output interval carries in
    each input exactly the label the output records for that input, and total duration is conserved. -/
theorem merge_refinement {M : Type} {lo hi : Rat} {x : LI L} {y : LI M} (hx : Contig lo x) (hy : Contig lo y)
    {zx : Rat × Rat × L} {zy : Rat × Rat × M} (hzx : x.getLast? = some zx) (hzy : y.getLast? = some zy)
    (hxe : zx.2.1 = hi) (hye : zy.2.1 = hi) :
    ∃ out, mergeLabeled x y = .ok out ∧
      ivals out = pairs (usort (entries x ++ entries y)) ∧
      Contig lo out ∧
      (∀ row ∈ out, ∀ t, row.1 ≤ t → t < row.2.1 →
        labelAt x t = some row.2.2.1 ∧ labelAt y t = some row.2.2.2) ∧
      qsum ((ivals out).map fun p => p.2 - p.1) = hi - lo :=
  mergeLabeled_refines hx hy hzx hzy hxe hye

/-- annotations whose first starts or last ends differ are rejected with `ValueError` -/
theorem merge_misaligned_raises {M : Type} {x : LI L} {y : LI M} {x0 xn : Rat × Rat × L}
    {y0 yn : Rat × Rat × M} (h1 : x.head? = some x0) (h2 : x.getLast? = some xn) (h3 : y.head? = some y0)
    (h4 : y.getLast? = some yn) (hmis : x0.1 ≠ y0.1 ∨ xn.2.1 ≠ yn.2.1) :
    mergeLabeled x y = .error .valueError := by
  unfold mergeLabeled
  simp only [h1, h2, h3, h4]
  rw [if_neg]
  intro h
  rcases hmis with h' | h'
  · exact h' h.1
  · exact h' h.2

example : mergeLabeled [((0 : Rat), (2 : Rat), "a"), (2, 4, "b")] [((0 : Rat), (1 : Rat), "X"), (1, 4, "Y")]
    = .ok [(0, 1, "a", "X"), (1, 2, "a", "Y"), (2, 4, "b", "Y")] := by decide +kernel

/-- non-vacuity of the hypotheses of `adjust_labelAt_partial` / `adjust_posdur_partial` -/
example : NoStraddleMin 2 [((1 : Rat), (3 : Rat), "a"), (4, 6, "b")] ∧
    NoStraddleMax (11/2) [((1 : Rat), (3 : Rat), "a"), (4, 6, "b")] ∧
    ¬ NoStraddleMin 3 [((1 : Rat), (3 : Rat), "a"), (4, 6, "b")] := by
  refine ⟨⟨?_, trivial⟩, ⟨?_, trivial⟩, ?_⟩
  · decide +kernel
  · decide +kernel
  · intro h; exact h.1 (by decide +kernel)

example : interpolate [((0 : Rat), (1 : Rat), "a")] [1, 0] "F" = .error .valueError ∧
    boundariesToIntervals [0, 1, 1, 2] = .error .valueError ∧
    mergeLabeled [((0 : Rat), (2 : Rat), "a")] [((0 : Rat), (3 : Rat), "X")] = .error .valueError := by
  decide +kernel

example : SSorted [(0 : Rat), 1/32, 5/2] ∧ intervalsToBoundaries [((0 : Rat), (1/32 : Rat)), (1/32, 5/2)]
    = [0, 1/32, 5/2] := by
  refine ⟨?_, by decide +kernel⟩
  simp only [SSorted, List.pairwise_cons, List.mem_cons, List.not_mem_nil, or_false, forall_eq_or_imp,
    forall_eq, IsEmpty.forall_iff, implies_true, List.Pairwise.nil, and_true]
  refine ⟨⟨?_, ?_⟩, ?_⟩ <;> decide +kernel

/-! ### `adjust_events`

  `adjustEvents` works on `(time, label)` pairs, so "labels are kept in step with the times" is part of every
  statement below (the synthetic `__T_MIN` / `__T_MAX` labels are `minLab` / `maxLab`).  `EvSorted`: events in
  time order, ties allowed.  `hasTime t xs`: `t` is one of the event times. -/

/-- the documented result for `t_min = a ≤ b = t_max`: the events inside `[a, b]` in their order, `a` put in
    front and `b` appended (with the synthetic labels) exactly when they are not already there -/
def eventsSpec (xs : List (Rat × L)) (a b : Rat) (minLab maxLab : L) : List (Rat × L) :=
  (if hasTime a xs then [] else [(a, minLab)]) ++
    xs.filter (fun x => decide (a ≤ x.1) && decide (x.1 ≤ b)) ++
    (if hasTime b xs || decide (a = b) then [] else [(b, maxLab)])

/-- `t_min` only: the events `≥ a` in order, `a` in front unless it is an event time -/
theorem adjust_events_min_spec {xs : List (Rat × L)} {a : Rat} (minLab maxLab : L) (hs : EvSorted xs)
    (hex : ∃ x ∈ xs, a ≤ x.1) :
    adjustEvents xs (some a) none minLab maxLab =
      .ok ((if hasTime a xs then [] else [(a, minLab)]) ++ xs.filter (fun x => decide (a ≤ x.1))) := by
  rw [adjustEvents_eq]
  simp only
  rw [evMin_spec minLab hs hex]
  rfl

/-- `t_max` only: the events `≤ b` in order, `b` appended unless it is an event time -/
theorem adjust_events_max_spec {xs : List (Rat × L)} {b : Rat} (minLab maxLab : L) (hs : EvSorted xs)
    (hex : ∃ x ∈ xs, x.1 ≤ b) :
    adjustEvents xs none (some b) minLab maxLab =
      .ok (xs.filter (fun x => decide (x.1 ≤ b)) ++ (if hasTime b xs then [] else [(b, maxLab)])) := by
  rw [adjustEvents_eq]
  exact evMax_spec maxLab hs hex

/-- **adjust_events_spec.**  Time-ordered events, `t_min ≤ t_max`, some event reaches `t_min`: the result is
    exactly the documented one. -/
theorem adjust_events_spec {xs : List (Rat × L)} {a b : Rat} (minLab maxLab : L) (hs : EvSorted xs)
    (hab : a ≤ b) (hex : ∃ x ∈ xs, a ≤ x.1) :
    adjustEvents xs (some a) (some b) minLab maxLab = .ok (eventsSpec xs a b minLab maxLab) := by
  rw [adjustEvents_eq]
  simp only
  rw [evMin_spec minLab hs hex]
  show evMax b maxLab _ = _
  have hsF : EvSorted (xs.filter (fun x => decide (a ≤ x.1))) := hs.filter _
  unfold eventsSpec
  cases hta : hasTime a xs with
  | false =>
    simp only [Bool.false_eq_true, if_false, List.singleton_append]
    have hs1 : EvSorted ((a, minLab) :: xs.filter (fun x => decide (a ≤ x.1))) := by
      refine List.pairwise_cons.2 ⟨?_, hsF⟩
      intro y hy
      simpa using (List.mem_filter.1 hy).2
    rw [evMax_spec maxLab hs1 ⟨(a, minLab), List.mem_cons_self, hab⟩]
    congr 1
    have h1 : ((a, minLab) :: xs.filter (fun x => decide (a ≤ x.1))).filter (fun x => decide (x.1 ≤ b)) =
        (a, minLab) :: xs.filter (fun x => decide (a ≤ x.1) && decide (x.1 ≤ b)) := by
      rw [List.filter_cons, if_pos (by simpa using hab), filter_filter_range]
    have h2 : hasTime b ((a, minLab) :: xs.filter (fun x => decide (a ≤ x.1))) =
        (hasTime b xs || decide (a = b)) := by
      have : hasTime b ((a, minLab) :: xs.filter (fun x => decide (a ≤ x.1))) =
          (decide (a = b) || hasTime b (xs.filter (fun x => decide (a ≤ x.1)))) := by
        simp [hasTime]
      rw [this, hasTime_filter_ge hab, Bool.or_comm]
    rw [h1, h2]
  | true =>
    simp only [if_true, List.nil_append]
    obtain ⟨x0, hx0, hx0a⟩ := hasTime_iff.1 hta
    have hex1 : ∃ x ∈ xs.filter (fun x => decide (a ≤ x.1)), x.1 ≤ b :=
      ⟨x0, List.mem_filter.2 ⟨hx0, by simp [hx0a]⟩, by rw [hx0a]; exact hab⟩
    rw [evMax_spec maxLab hsF hex1, filter_filter_range, hasTime_filter_ge hab]
    have h2 : (hasTime b xs || decide (a = b)) = hasTime b xs := by
      by_cases hab' : a = b
      · rw [← hab', hta]; rfl
      · simp [hab']
    rw [h2]

/-- every time of the result lies in `[t_min, t_max]` -/
theorem eventsSpec_range {xs : List (Rat × L)} {a b : Rat} (minLab maxLab : L) (hab : a ≤ b) :
    ∀ x ∈ eventsSpec xs a b minLab maxLab, a ≤ x.1 ∧ x.1 ≤ b := by
  intro x hx
  unfold eventsSpec at hx
  rcases List.mem_append.1 hx with hx | hx
  · rcases List.mem_append.1 hx with hx | hx
    · split at hx
      · cases hx
      · simp only [List.mem_singleton] at hx; subst hx; exact ⟨le_refl _, hab⟩
    · simpa using (List.mem_filter.1 hx).2
  · split at hx
    · cases hx
    · simp only [List.mem_singleton] at hx; subst hx; exact ⟨hab, le_refl _⟩

/-- `t_min` and `t_max` are both among the times of the result -/
theorem eventsSpec_bounds (xs : List (Rat × L)) {a b : Rat} (minLab maxLab : L) (hab : a ≤ b) :
    hasTime a (eventsSpec xs a b minLab maxLab) = true ∧ hasTime b (eventsSpec xs a b minLab maxLab) = true := by
  have hA : hasTime a (eventsSpec xs a b minLab maxLab) = true := by
    rw [hasTime_iff]
    unfold eventsSpec
    cases hta : hasTime a xs with
    | false => exact ⟨(a, minLab), by simp, rfl⟩
    | true =>
      obtain ⟨x0, hx0, hx0a⟩ := hasTime_iff.1 hta
      refine ⟨x0, ?_, hx0a⟩
      apply List.mem_append_left
      apply List.mem_append_right
      exact List.mem_filter.2 ⟨hx0, by simp [hx0a, hab]⟩
  refine ⟨hA, ?_⟩
  by_cases hab' : a = b
  · subst hab'; exact hA
  · rw [hasTime_iff]
    unfold eventsSpec
    cases htb : hasTime b xs with
    | false => exact ⟨(b, maxLab), by simp [hab'], rfl⟩
    | true =>
      obtain ⟨x0, hx0, hx0b⟩ := hasTime_iff.1 htb
      refine ⟨x0, ?_, hx0b⟩
      apply List.mem_append_left
      apply List.mem_append_right
      exact List.mem_filter.2 ⟨hx0, by simp [hx0b, hab]⟩

/-- the result is time-ordered (so it begins at `t_min` and ends at `t_max`) -/
theorem eventsSpec_sorted {xs : List (Rat × L)} {a b : Rat} (minLab maxLab : L) (hs : EvSorted xs) (hab : a ≤ b) :
    EvSorted (eventsSpec xs a b minLab maxLab) := by
  have hr := eventsSpec_range (xs := xs) minLab maxLab hab
  unfold eventsSpec at hr ⊢
  unfold EvSorted
  rw [List.pairwise_append, List.pairwise_append]
  refine ⟨⟨?_, hs.filter _, ?_⟩, ?_, ?_⟩
  · split <;> simp
  · intro x hx y hy
    split at hx
    · cases hx
    · simp only [List.mem_singleton] at hx; subst hx
      exact (hr y (List.mem_append_left _ (List.mem_append_right _ hy))).1
  · split <;> simp
  · intro x hx y hy
    split at hy
    · cases hy
    · simp only [List.mem_singleton] at hy; subst hy
      exact (hr x (List.mem_append_left _ hx)).2

/-! #### the quirk: no event reaches `t_min`

  Docstring: "Any event times outside of the specified range will be removed."  The code slices from the first
  event `≥ t_min` only `if len(first_idx) > 0`; when NO event reaches `t_min` nothing is removed and (the first
  event being below `t_min`) `t_min` is not added either. -/

/-- as the docstring states it (time-ordered, non-empty events, `t_min ≤ t_max`) — false of the code -/
def adjust_events_range_full_statement : Prop :=
  ∀ (xs : List (Rat × String)) (a b : Rat) (out : List (Rat × String)), EvSorted xs → xs ≠ [] → a ≤ b →
    adjustEvents xs (some a) (some b) "__T_MIN" "__T_MAX" = .ok out → ∀ x ∈ out, a ≤ x.1 ∧ x.1 ≤ b

theorem adjust_events_range_full_statement_false : ¬ adjust_events_range_full_statement := by
  intro h
  have := h [((1 : Rat), "x")] 2 3 [((1 : Rat), "x"), (3, "__T_MAX")] (by simp [EvSorted]) (by simp)
    (by decide +kernel) (by decide +kernel) ((1 : Rat), "x") (by simp)
  exact absurd this.1 (by decide +kernel)

/-- true whenever some event reaches `t_min` -/
theorem adjust_events_range_partial {xs out : List (Rat × L)} {a b : Rat} {minLab maxLab : L} (hs : EvSorted xs)
    (hab : a ≤ b) (hex : ∃ x ∈ xs, a ≤ x.1) (ho : adjustEvents xs (some a) (some b) minLab maxLab = .ok out) :
    ∀ x ∈ out, a ≤ x.1 ∧ x.1 ≤ b := by
  rw [adjust_events_spec minLab maxLab hs hab hex] at ho
  cases ho
  exact eventsSpec_range minLab maxLab hab

/-- what the code does instead (any order): every event is below `t_min` ⇒ all of them are kept, `t_min` is
    not added; with `t_max ≥ t_min` only `t_max` is appended -/
theorem adjust_events_none_reach {xs : List (Rat × L)} {a : Rat} (minLab maxLab : L) (hne : xs ≠ [])
    (hall : ∀ x ∈ xs, x.1 < a) :
    adjustEvents xs (some a) none minLab maxLab = .ok xs ∧
    ∀ b, a ≤ b → adjustEvents xs (some a) (some b) minLab maxLab = .ok (xs ++ [(b, maxLab)]) := by
  constructor
  · rw [adjustEvents_eq]
    simp only
    rw [evMin_none_reach minLab hne hall]
    rfl
  · intro b hab
    rw [adjustEvents_eq]
    simp only
    rw [evMin_none_reach minLab hne hall]
    exact evMax_all_below maxLab hne (fun x hx => lt_of_lt_of_le (hall x hx) hab)

/-- no events at all: `events[0]` / `events[-1]` raise `IndexError` as soon as a bound is given -/
theorem adjust_events_empty_raises (a : Rat) (t : Option Rat) (minLab maxLab : L) :
    adjustEvents ([] : List (Rat × L)) (some a) t minLab maxLab = .error .indexError ∧
    adjustEvents ([] : List (Rat × L)) none (some a) minLab maxLab = .error .indexError :=
  ⟨rfl, rfl⟩

/-- `t_max` only, first event (hence, for time-ordered events, every event) after it: the slice is empty and
    `events[-1]` raises `IndexError` (the docstring would have `[t_max]`) -/
theorem adjust_events_max_raises {xs : List (Rat × L)} {b : Rat} (minLab maxLab : L)
    (h : ∀ x, xs.head? = some x → b < x.1) :
    adjustEvents xs none (some b) minLab maxLab = .error .indexError := by
  rw [adjustEvents_eq]
  exact evMax_raises maxLab h

/-- an inverted range (`t_max < t_min`, some event reaching `t_min`) leaves nothing: `IndexError` -/
theorem adjust_events_inverted_raises {xs : List (Rat × L)} {a b : Rat} (minLab maxLab : L) (hs : EvSorted xs)
    (hba : b < a) (hex : ∃ x ∈ xs, a ≤ x.1) :
    adjustEvents xs (some a) (some b) minLab maxLab = .error .indexError := by
  rw [adjustEvents_eq]
  simp only
  rw [evMin_spec minLab hs hex]
  apply evMax_raises
  intro x hx
  have hm := List.mem_of_mem_head? hx
  rcases List.mem_append.1 hm with hm | hm
  · split at hm
    · cases hm
    · simp only [List.mem_singleton] at hm; subst hm; exact hba
  · have : a ≤ x.1 := by simpa using (List.mem_filter.1 hm).2
    linarith

/-- non-vacuity: both bounds missing / both present / `t_min = t_max` / the quirk / the exceptions -/
example :
    let xs : List (Rat × String) := [(1, "a"), (2, "b"), (2, "c"), (4, "d")]
    EvSorted xs ∧
    adjustEvents xs (some (3/2)) (some 3) "m" "M" = .ok [(3/2, "m"), (2, "b"), (2, "c"), (3, "M")] ∧
    eventsSpec xs (3/2) 3 "m" "M" = [(3/2, "m"), (2, "b"), (2, "c"), (3, "M")] ∧
    adjustEvents xs (some 1) (some 4) "m" "M" = .ok xs ∧
    adjustEvents xs (some 3) (some 3) "m" "M" = .ok [(3, "m")] ∧
    adjustEvents xs (some 5) (some 6) "m" "M" = .ok (xs ++ [(6, "M")]) ∧
    adjustEvents xs (some 3) (some 2) "m" "M" = .error .indexError := by
  refine ⟨by simp [EvSorted]; decide +kernel, ?_⟩
  decide +kernel

end Mir.C13
