import MirProofs.Lemmas.PyInt
import MirGen.UtilInt
/-!
  C13 — the interval pre-processing functions of `mir_eval/util.py` as REGENERATED from the source
  (`MirGen/UtilInt.lean`, translator part `utilint`) equal the hand-written model (`MirModel/Intervals.lean`).
-/
namespace Mir.C13.Gen
open Mir Mir.Iv Mir.PyI

/-! ### validate_intervals, intervals_to_durations, intervals_to_boundaries -/

theorem validate_intervals_eq_model (iv : Ivals) :
    Mir.Gen.util.validate_intervals iv = validateIntervals iv := by
  have h1 : anyB (List.map (fun v => decide (v < (0 : Rat))) (ravel iv))
      = iv.any (fun x => decide (x.1 < 0) || decide (x.2 < 0)) := by
    induction iv with
    | nil => rfl
    | cons x r ih => simp [anyB, ravel, entriesP] at ih ⊢; rw [ih]; simp [Bool.or_assoc]
  have h2 : anyB (List.zipWith (fun a b => decide (a ≤ b)) (col1 iv) (col0 iv))
      = iv.any (fun x => decide (x.2 ≤ x.1)) := by
    induction iv with
    | nil => rfl
    | cons x r ih => simp [anyB, col0, col1] at ih ⊢
  simp only [Mir.Gen.util.validate_intervals, validateIntervals, h1, h2]
  by_cases c1 : (iv.any fun x => decide (x.1 < 0) || decide (x.2 < 0)) = true
  · simp [c1, ndim2, shape1]; rfl
  · by_cases c2 : (iv.any fun x => decide (x.2 ≤ x.1)) = true
    · simp [c1, c2, ndim2, shape1]; rfl
    · simp [c1, c2, ndim2, shape1]; rfl

theorem intervals_to_durations_eq_model (iv : Ivals) :
    Mir.Gen.util.intervals_to_durations iv = intervalsToDurations iv := by
  simp only [Mir.Gen.util.intervals_to_durations, intervalsToDurations, validate_intervals_eq_model]
  cases validateIntervals iv with
  | error e => rfl
  | ok u => simp [absV, diffAxis1, Except.map, bind, Except.bind, pure, Except.pure]

theorem intervals_to_boundaries_eq_model (iv : Ivals) (q : Nat) :
    Mir.Gen.util.intervals_to_boundaries iv (q : Int) = .ok (intervalsToBoundaries iv q) := by
  have h : ∀ iv : Ivals, entriesP (Mir.PyI.roundIv iv (q : Int)) = (entriesP iv).map (roundDec q) := by
    intro iv
    induction iv with
    | nil => rfl
    | cons x r ih => simp [Mir.PyI.roundIv, entriesP, Mir.PyI.roundScalar] at ih ⊢; exact ih
  simp [Mir.Gen.util.intervals_to_boundaries, intervalsToBoundaries, Mir.PyI.unique, Mir.PyI.ravel, h]
  rfl

/-- the documented default `q = 5` -/
theorem intervals_to_boundaries_default (iv : Ivals) :
    Mir.Gen.util.intervals_to_boundaries iv = .ok (intervalsToBoundaries iv) :=
  intervals_to_boundaries_eq_model iv 5

/-! ### boundaries_to_intervals -/

theorem zip_slices (bs : List Rat) : List.zip (sliceTo bs (-1)) (sliceFrom bs 1) = pairs bs := by
  have h1 : sliceFrom bs 1 = bs.tail := by
    cases bs with
    | nil => rfl
    | cons x r => simp [sliceFrom, clipIndex]
  have h2 : sliceTo bs (-1) = bs.dropLast := by
    simp [sliceTo, clipIndex, List.dropLast_eq_take]
  rw [h1, h2, pairs]
  clear h1 h2
  induction bs with
  | nil => rfl
  | cons x r ih =>
    cases r with
    | nil => rfl
    | cons y r' => simp [List.dropLast] at ih ⊢; exact ih

theorem boundaries_to_intervals_eq_model (bs : List Rat) :
    Mir.Gen.util.boundaries_to_intervals bs = boundariesToIntervals bs := by
  simp only [Mir.Gen.util.boundaries_to_intervals, boundariesToIntervals, zip_slices, allclose, unique]
  by_cases hlen : bs.length = (usort bs).length
  · simp only [if_pos hlen, if_pos hlen.symm]
    cases hg : (bs.zip (usort bs)).all fun p => isclose p.1 p.2 <;>
      simp [bind, Except.bind, pure, Except.pure, throw, throwThe, MonadExceptOf.throw]
  · have hlen' : ¬ (usort bs).length = bs.length := fun h => hlen h.symm
    simp only [if_neg hlen, if_neg hlen']
    rcases hu : usort bs with _ | ⟨v, _ | ⟨v2, r⟩⟩
    · rcases bs with _ | ⟨b, _ | ⟨b2, r⟩⟩
      · simp [hu] at hlen
      · simp [usort, insertU] at hu
      · simp [bind, Except.bind, throw, throwThe, MonadExceptOf.throw]
    · cases hg : bs.all fun b => isclose b v <;>
        simp [hg, bind, Except.bind, pure, Except.pure, throw, throwThe, MonadExceptOf.throw]
    · rcases bs with _ | ⟨b, _ | ⟨b2, r'⟩⟩
      · simp [usort] at hu
      · simp [usort, insertU] at hu
      · simp [bind, Except.bind, throw, throwThe, MonadExceptOf.throw]

/-! ### sort_labeled_intervals -/

theorem sort_labeled_intervals_eq_model (xs : LI String) :
    Mir.Gen.util.sort_labeled_intervals (ivals xs) (some (labels xs))
      = .ok (ivals (sortLabeled xs), some (labels (sortLabeled xs))) := by
  have h1 := takeIdx_argsort xs (fun x => x.1) (fun x => (x.1, x.2.1))
  have h2 := takeIdx_argsort xs (fun x => x.1) (fun x => x.2.2)
  simp only [takeIdx] at h1 h2
  simp [Mir.Gen.util.sort_labeled_intervals, col0, ivals, labels, sortLabeled, List.map_map, Function.comp_def,
    takeIdx, h1, h2, bind, Except.bind, pure, Except.pure]

theorem sort_labeled_intervals_unlabeled {L : Type} (xs : LI L) :
    Mir.Gen.util.sort_labeled_intervals (ivals xs) none = .ok (ivals (sortLabeled xs), none) := by
  have h1 := takeIdx_argsort xs (fun x => x.1) (fun x => (x.1, x.2.1))
  simp only [takeIdx] at h1
  simp [Mir.Gen.util.sort_labeled_intervals, col0, ivals, sortLabeled, List.map_map, Function.comp_def,
    takeIdx, h1, bind, Except.bind, pure, Except.pure]

/-! ### adjust_events -/

section events
variable {L : Type}

/-- how the zipped rows of the hand model are seen by the code: the time array and, when labels were given
    (`g = some _` renders a label), the label list -/
def unzipE (g : Option (L → String)) (out : List (Rat × L)) : List Rat × Option (List String) :=
  (out.map (·.1), g.map fun g' => out.map fun x => g' x.2)

/-- the `t_min` pass of the hand model -/
def evMin (a : Rat) (minLab : L) (xs : List (Rat × L)) : Py (List (Rat × L)) :=
  let k := match xs.dropWhile (fun x => decide (x.1 < a)) with
    | [] => xs
    | k => k
  match k with
  | [] => .error .indexError
  | h :: _ => if a < h.1 then .ok ((a, minLab) :: k) else .ok k

/-- the `t_max` pass of the hand model -/
def evMax (b : Rat) (maxLab : L) (x1 : List (Rat × L)) : Py (List (Rat × L)) :=
  let k := x1.takeWhile (fun x => decide (x.1 ≤ b))
  match k.getLast? with
  | none => .error .indexError
  | some z => if z.1 < b then .ok (k ++ [(b, maxLab)]) else .ok k

theorem adjustEvents_passes (xs : List (Rat × L)) (tmin tmax : Option Rat) (l1 l2 : L) :
    adjustEvents xs tmin tmax l1 l2
      = (match tmin with | none => .ok xs | some a => evMin a l1 xs) >>= fun x1 =>
          match tmax with | none => .ok x1 | some b => evMax b l2 x1 := rfl

theorem adjust_events_block1_eq (ls : Option (List String)) :
    Mir.Gen.util.adjust_events_block1 ls = .ok ls := by
  cases ls <;> rfl

theorem not_ge_decide (u a : Rat) : (!decide (u ≥ a)) = decide (u < a) := by
  by_cases h : u < a
  · simp [h, not_le.2 h]
  · simp [h, not_lt.1 h]

theorem adjust_events_block2_eq (xs : List (Rat × L)) (g : Option (L → String)) (tmin : Option Rat)
    (pre : String) (minLab : L) (hg : ∀ g' ∈ g, g' minLab = pre ++ "T_MIN") :
    Mir.Gen.util.adjust_events_block2 tmin (unzipE g xs).1 (unzipE g xs).2 pre
      = (match tmin with | none => Except.ok xs | some a => evMin a minLab xs).map (unzipE g) := by
  cases tmin with
  | none => cases g <;> rfl
  | some a =>
    have hq : (fun x : Rat × L => !decide (x.1 ≥ a)) = fun x => decide (x.1 < a) := by
      funext x; exact not_ge_decide x.1 a
    simp only [Mir.Gen.util.adjust_events_block2, unzipE, evMin, List.map_map, Function.comp_def]
    rcases hd : xs.dropWhile (fun x => !decide (x.1 ≥ a)) with _ | ⟨k, r⟩
    · rw [argwhere_nil_of (fun x : Rat × L => decide (x.1 ≥ a)) xs hd]
      rw [hq] at hd
      rw [hd]
      cases xs with
      | nil => cases g <;> simp [len, getItem, normIndex, bind, Except.bind, Except.map, pure, Except.pure]
      | cons x r' =>
        cases g with
        | none => by_cases hx : a < x.1 <;>
            simp [hx, len, bind, Except.bind, Except.map, pure, Except.pure, insertFront, unzipE]
        | some g' =>
          have hg' := hg g' rfl
          by_cases hx : a < x.1 <;>
            simp [hx, hg', len, bind, Except.bind, Except.map, pure, Except.pure, insertFront, unzipE]
    · obtain ⟨t, ht⟩ := argwhere_cons_of (fun x : Rat × L => decide (x.1 ≥ a)) xs hd
      have hdrop := drop_length_takeWhile (fun x : Rat × L => !decide (x.1 ≥ a)) xs
      rw [hd] at hdrop
      rw [ht]
      rw [hq] at hd
      rw [hd]
      cases g with
      | none => by_cases hx : a < k.1 <;>
          simp [hx, hdrop, len, bind, Except.bind, Except.map, pure, Except.pure, insertFront, unzipE, ← List.map_drop]
      | some g' =>
        have hg' := hg g' rfl
        by_cases hx : a < k.1 <;>
          simp [hx, hg', hdrop, len, bind, Except.bind, Except.map, pure, Except.pure, insertFront, unzipE,
            ← List.map_drop]

theorem not_gt_decide (u b : Rat) : (!decide (u > b)) = decide (u ≤ b) := by
  by_cases h : u ≤ b
  · simp [h, not_lt.2 h]
  · simp [h, not_le.1 h]

theorem adjust_events_block3_eq (xs : List (Rat × L)) (g : Option (L → String)) (tmax : Option Rat)
    (pre : String) (maxLab : L) (hg : ∀ g' ∈ g, g' maxLab = pre ++ "T_MAX") :
    Mir.Gen.util.adjust_events_block3 tmax (unzipE g xs).1 (unzipE g xs).2 pre
      = (match tmax with | none => Except.ok xs | some b => evMax b maxLab xs).map (unzipE g) := by
  cases tmax with
  | none => cases g <;> rfl
  | some b =>
    have hq : (fun x : Rat × L => !decide (x.1 > b)) = fun x => decide (x.1 ≤ b) := by
      funext x; exact not_gt_decide x.1 b
    simp only [Mir.Gen.util.adjust_events_block3, unzipE, evMax, List.map_map, Function.comp_def]
    have key : ∀ K : List (Rat × L),
        (do let p ← (pure (K.map (·.1), g.map fun g' => K.map fun x => g' x.2) : Py (List Rat × Option (List String)))
            let t ← getItem p.1 (-1)
            if t < b then
              (do let ls ← (match p.2 with
                    | some labels => pure (some (PyI.append labels (pre ++ "T_MAX")))
                    | none => pure none : Py (Option (List String)))
                  pure (p.1 ++ [b], ls))
            else pure p)
          = (match K.getLast? with
              | none => Except.error PyErr.indexError
              | some z => if z.1 < b then Except.ok (K ++ [(b, maxLab)]) else Except.ok K).map (unzipE g) := by
      intro K
      rcases hK : K.getLast? with _ | z
      · cases g <;> simp [getItem_neg_one, List.getLast?_map, hK, bind, Except.bind, Except.map, pure, Except.pure]
      · cases g with
        | none => by_cases hz : z.1 < b <;>
            simp [hz, getItem_neg_one, List.getLast?_map, hK, bind, Except.bind, Except.map, pure, Except.pure, unzipE]
        | some g' =>
          have hg' := hg g' rfl
          by_cases hz : z.1 < b <;>
            simp [hz, hg', getItem_neg_one, List.getLast?_map, hK, bind, Except.bind, Except.map, pure, Except.pure,
              unzipE, PyI.append]
    rcases hd : xs.dropWhile (fun x => !decide (x.1 > b)) with _ | ⟨k, r⟩
    · rw [argwhere_nil_of (fun x : Rat × L => decide (x.1 > b)) xs hd]
      rw [hq] at hd
      rw [takeWhile_eq_self_of _ xs hd, ← key xs]
      cases g <;> simp [len]
    · obtain ⟨t, ht⟩ := argwhere_cons_of (fun x : Rat × L => decide (x.1 > b)) xs hd
      have htake := take_length_takeWhile (fun x : Rat × L => !decide (x.1 > b)) xs
      rw [ht, ← key]
      rw [hq] at htake
      cases g <;> simp [len, ← List.map_take, htake, hq]

theorem adjust_events_eq_general (xs : List (Rat × L)) (g : Option (L → String)) (tmin tmax : Option Rat)
    (pre : String) (minLab maxLab : L) (h1 : ∀ g' ∈ g, g' minLab = pre ++ "T_MIN")
    (h2 : ∀ g' ∈ g, g' maxLab = pre ++ "T_MAX") :
    Mir.Gen.util.adjust_events (unzipE g xs).1 (unzipE g xs).2 tmin tmax pre
      = (adjustEvents xs tmin tmax minLab maxLab).map (unzipE g) := by
  simp only [Mir.Gen.util.adjust_events, adjust_events_block1_eq, adjustEvents_passes]
  have e1 := adjust_events_block2_eq xs g tmin pre minLab h1
  simp only [bind, Except.bind] at e1 ⊢
  rw [e1]
  cases (match tmin with | none => Except.ok xs | some a => evMin a minLab xs) with
  | error e => rfl
  | ok x1 =>
    have e2 := adjust_events_block3_eq x1 g tmax pre maxLab h2
    simp only [Except.map]
    rw [e2]
    cases (match tmax with | none => Except.ok x1 | some b => evMax b maxLab x1) <;> rfl

/-- `util.adjust_events` with labels, for ALL event lists, label lists of the same length and crop points
    (value or exception class) -/
theorem adjust_events_eq_model (xs : List (Rat × String)) (tmin tmax : Option Rat) (pre : String) :
    Mir.Gen.util.adjust_events (xs.map (·.1)) (some (xs.map (·.2))) tmin tmax pre
      = (adjustEvents xs tmin tmax (pre ++ "T_MIN") (pre ++ "T_MAX")).map
          fun out => (out.map (·.1), some (out.map (·.2))) := by
  have := adjust_events_eq_general xs (some id) tmin tmax pre (pre ++ "T_MIN") (pre ++ "T_MAX")
    (fun g' hg => by cases hg; rfl) (fun g' hg => by cases hg; rfl)
  have e : unzipE (some (id : String → String))
      = fun out : List (Rat × String) => (out.map (·.1), some (out.map (·.2))) := by
    funext out; simp [unzipE]
  rw [e] at this
  simpa [unzipE] using this

/-- `util.adjust_events` without labels: the times are those of the hand model run on ANY labelling -/
theorem adjust_events_unlabeled (xs : List (Rat × L)) (tmin tmax : Option Rat) (pre : String) (l1 l2 : L) :
    Mir.Gen.util.adjust_events (xs.map (·.1)) none tmin tmax pre
      = (adjustEvents xs tmin tmax l1 l2).map fun out => (out.map (·.1), none) := by
  have := adjust_events_eq_general xs none tmin tmax pre l1 l2 (fun g' hg => by cases hg) (fun g' hg => by cases hg)
  have e : unzipE (none : Option (L → String)) = fun out : List (Rat × L) => (out.map (·.1), none) := by
    funext out; simp [unzipE]
  rw [e] at this
  simpa [unzipE] using this

end events

end Mir.C13.Gen
