import MirProofs.Lemmas.Intervals
import MirGen.UtilInt
/-!
  C13 — the interval pre-processing functions of `mir_eval/util.py` as REGENERATED from the source
  (`MirGen/UtilInt.lean`, translator part `utilint`) equal the hand-written model (`MirModel/Intervals.lean`).
-/
namespace Mir.C13.Gen
open Mir Mir.Iv

theorem intervals_to_boundaries_eq_model (iv : Ivals) (q : Nat) :
    Mir.Gen.util.intervals_to_boundaries iv (q : Int) = .ok (intervalsToBoundaries iv q) := by
  have h : ∀ iv : Ivals, entriesP (Mir.PyI.roundIv iv (q : Int)) = (entriesP iv).map (roundDec q) := by
    intro iv
    induction iv with
    | nil => rfl
    | cons x r ih => simp [Mir.PyI.roundIv, entriesP, Mir.PyI.roundScalar] at ih ⊢; exact ih
  simp [Mir.Gen.util.intervals_to_boundaries, intervalsToBoundaries, Mir.PyI.unique, Mir.PyI.ravel, h]
  rfl

end Mir.C13.Gen
