import MirProofs.Lemmas.PyInt
import MirProofs.Props.C13
import MirProofs.Props.C12
import MirGen.UtilInt
/-!
  C13 — the interval pre-processing functions of `mir_eval/util.py` as REGENERATED from the source
  (`MirGen/UtilInt.lean`, translator part `utilint`) equal the hand-written model (`MirModel/Intervals.lean`).
-/
namespace Mir.C13.Gen
open Mir Mir.Iv Mir.PyI

/-! ### validate_intervals, intervals_to_durations, intervals_to_boundaries -/

theorem validate_intervals_eq_model (iv : Ivals) :
    Mir.Gen.util.validate_intervals iv = validateIntervals iv := by
  have h1 : anyB (List.map (fun v => decide (v < (0 : Rat))) (ravel iv))
      = iv.any (fun x => decide (x.1 < 0) || decide (x.2 < 0)) := by
    induction iv with
    | nil => rfl
    | cons x r ih => simp [anyB, ravel, entriesP] at ih ⊢; rw [ih]; simp [Bool.or_assoc]
  have h2 : anyB (List.zipWith (fun a b => decide (a ≤ b)) (col1 iv) (col0 iv))
      = iv.any (fun x => decide (x.2 ≤ x.1)) := by
    induction iv with
    | nil => rfl
    | cons x r ih => simp [anyB, col0, col1] at ih ⊢
  simp only [Mir.Gen.util.validate_intervals, validateIntervals, h1, h2]
  by_cases c1 : (iv.any fun x => decide (x.1 < 0) || decide (x.2 < 0)) = true
  · simp [c1, ndim2, shape1]; rfl
  · by_cases c2 : (iv.any fun x => decide (x.2 ≤ x.1)) = true
    · simp [c1, c2, ndim2, shape1]; rfl
    · simp [c1, c2, ndim2, shape1]; rfl

theorem intervals_to_durations_eq_model (iv : Ivals) :
    Mir.Gen.util.intervals_to_durations iv = intervalsToDurations iv := by
  simp only [Mir.Gen.util.intervals_to_durations, intervalsToDurations, validate_intervals_eq_model]
  cases validateIntervals iv with
  | error e => rfl
  | ok u => simp [absV, diffAxis1, Except.map, bind, Except.bind, pure, Except.pure]

theorem intervals_to_boundaries_eq_model (iv : Ivals) (q : Nat) :
    Mir.Gen.util.intervals_to_boundaries iv (q : Int) = .ok (intervalsToBoundaries iv q) := by
  have h : ∀ iv : Ivals, entriesP (Mir.PyI.roundIv iv (q : Int)) = (entriesP iv).map (roundDec q) := by
    intro iv
    induction iv with
    | nil => rfl
    | cons x r ih => simp [Mir.PyI.roundIv, entriesP, Mir.PyI.roundScalar] at ih ⊢; exact ih
  simp [Mir.Gen.util.intervals_to_boundaries, intervalsToBoundaries, Mir.PyI.unique, Mir.PyI.ravel, h]
  rfl

/-- the documented default `q = 5` -/
theorem intervals_to_boundaries_default (iv : Ivals) :
    Mir.Gen.util.intervals_to_boundaries iv = .ok (intervalsToBoundaries iv) :=
  intervals_to_boundaries_eq_model iv 5

/-! ### boundaries_to_intervals -/

theorem zip_slices (bs : List Rat) : List.zip (sliceTo bs (-1)) (sliceFrom bs 1) = pairs bs := by
  have h1 : sliceFrom bs 1 = bs.tail := by
    cases bs with
    | nil => rfl
    | cons x r => simp [sliceFrom, clipIndex]
  have h2 : sliceTo bs (-1) = bs.dropLast := by
    simp [sliceTo, clipIndex, List.dropLast_eq_take]
  rw [h1, h2, pairs]
  clear h1 h2
  induction bs with
  | nil => rfl
  | cons x r ih =>
    cases r with
    | nil => rfl
    | cons y r' => simp [List.dropLast] at ih ⊢; exact ih

theorem boundaries_to_intervals_eq_model (bs : List Rat) :
    Mir.Gen.util.boundaries_to_intervals bs = boundariesToIntervals bs := by
  simp only [Mir.Gen.util.boundaries_to_intervals, boundariesToIntervals, zip_slices, allclose, unique]
  by_cases hlen : bs.length = (usort bs).length
  · simp only [if_pos hlen, if_pos hlen.symm]
    cases hg : (bs.zip (usort bs)).all fun p => isclose p.1 p.2 <;>
      simp [bind, Except.bind, pure, Except.pure, throw, throwThe, MonadExceptOf.throw]
  · have hlen' : ¬ (usort bs).length = bs.length := fun h => hlen h.symm
    simp only [if_neg hlen, if_neg hlen']
    rcases hu : usort bs with _ | ⟨v, _ | ⟨v2, r⟩⟩
    · rcases bs with _ | ⟨b, _ | ⟨b2, r⟩⟩
      · simp [hu] at hlen
      · simp [usort, insertU] at hu
      · simp [bind, Except.bind, throw, throwThe, MonadExceptOf.throw]
    · cases hg : bs.all fun b => isclose b v <;>
        simp [hg, bind, Except.bind, pure, Except.pure, throw, throwThe, MonadExceptOf.throw]
    · rcases bs with _ | ⟨b, _ | ⟨b2, r'⟩⟩
      · simp [usort] at hu
      · simp [usort, insertU] at hu
      · simp [bind, Except.bind, throw, throwThe, MonadExceptOf.throw]

/-! ### sort_labeled_intervals -/

theorem sort_labeled_intervals_eq_model (xs : LI String) :
    Mir.Gen.util.sort_labeled_intervals (ivals xs) (some (labels xs))
      = .ok (ivals (sortLabeled xs), some (labels (sortLabeled xs))) := by
  have h1 := takeIdx_argsort xs (fun x => x.1) (fun x => (x.1, x.2.1))
  have h2 := takeIdx_argsort xs (fun x => x.1) (fun x => x.2.2)
  simp only [takeIdx] at h1 h2
  simp [Mir.Gen.util.sort_labeled_intervals, col0, ivals, labels, sortLabeled, List.map_map, Function.comp_def,
    takeIdx, h1, h2, bind, Except.bind, pure, Except.pure]

theorem sort_labeled_intervals_unlabeled {L : Type} (xs : LI L) :
    Mir.Gen.util.sort_labeled_intervals (ivals xs) none = .ok (ivals (sortLabeled xs), none) := by
  have h1 := takeIdx_argsort xs (fun x => x.1) (fun x => (x.1, x.2.1))
  simp only [takeIdx] at h1
  simp [Mir.Gen.util.sort_labeled_intervals, col0, ivals, sortLabeled, List.map_map, Function.comp_def,
    takeIdx, h1, bind, Except.bind, pure, Except.pure]

/-! ### adjust_events -/

section events
variable {L : Type}

/-- how the zipped rows of the hand model are seen by the code: the time array and, when labels were given
    (`g = some _` renders a label), the label list -/
def unzipE (g : Option (L → String)) (out : List (Rat × L)) : List Rat × Option (List String) :=
  (out.map (·.1), g.map fun g' => out.map fun x => g' x.2)

/-- the `t_min` pass of the hand model -/
def evMin (a : Rat) (minLab : L) (xs : List (Rat × L)) : Py (List (Rat × L)) :=
  let k := match xs.dropWhile (fun x => decide (x.1 < a)) with
    | [] => xs
    | k => k
  match k with
  | [] => .error .indexError
  | h :: _ => if a < h.1 then .ok ((a, minLab) :: k) else .ok k

/-- the `t_max` pass of the hand model -/
def evMax (b : Rat) (maxLab : L) (x1 : List (Rat × L)) : Py (List (Rat × L)) :=
  let k := x1.takeWhile (fun x => decide (x.1 ≤ b))
  match k.getLast? with
  | none => .error .indexError
  | some z => if z.1 < b then .ok (k ++ [(b, maxLab)]) else .ok k

theorem adjustEvents_passes (xs : List (Rat × L)) (tmin tmax : Option Rat) (l1 l2 : L) :
    adjustEvents xs tmin tmax l1 l2
      = (match tmin with | none => .ok xs | some a => evMin a l1 xs) >>= fun x1 =>
          match tmax with | none => .ok x1 | some b => evMax b l2 x1 := rfl

theorem adjust_events_block1_eq (ls : Option (List String)) :
    Mir.Gen.util.adjust_events_block1 ls = .ok ls := by
  cases ls <;> rfl

theorem not_ge_decide (u a : Rat) : (!decide (u ≥ a)) = decide (u < a) := by
  by_cases h : u < a
  · simp [h, not_le.2 h]
  · simp [h, not_lt.1 h]

theorem adjust_events_block2_eq (xs : List (Rat × L)) (g : Option (L → String)) (tmin : Option Rat)
    (pre : String) (minLab : L) (hg : ∀ g' ∈ g, g' minLab = pre ++ "T_MIN") :
    Mir.Gen.util.adjust_events_block2 tmin (unzipE g xs).1 (unzipE g xs).2 pre
      = (match tmin with | none => Except.ok xs | some a => evMin a minLab xs).map (unzipE g) := by
  cases tmin with
  | none => cases g <;> rfl
  | some a =>
    have hq : (fun x : Rat × L => !decide (x.1 ≥ a)) = fun x => decide (x.1 < a) := by
      funext x; exact not_ge_decide x.1 a
    simp only [Mir.Gen.util.adjust_events_block2, unzipE, evMin, List.map_map, Function.comp_def]
    rcases hd : xs.dropWhile (fun x => !decide (x.1 ≥ a)) with _ | ⟨k, r⟩
    · rw [argwhere_nil_of (fun x : Rat × L => decide (x.1 ≥ a)) xs hd]
      rw [hq] at hd
      rw [hd]
      cases xs with
      | nil => cases g <;> simp [len, getItem, normIndex, bind, Except.bind, Except.map, pure, Except.pure]
      | cons x r' =>
        cases g with
        | none => by_cases hx : a < x.1 <;>
            simp [hx, len, bind, Except.bind, Except.map, pure, Except.pure, insertFront, unzipE]
        | some g' =>
          have hg' := hg g' rfl
          by_cases hx : a < x.1 <;>
            simp [hx, hg', len, bind, Except.bind, Except.map, pure, Except.pure, insertFront, unzipE]
    · obtain ⟨t, ht⟩ := argwhere_cons_of (fun x : Rat × L => decide (x.1 ≥ a)) xs hd
      have hdrop := drop_length_takeWhile (fun x : Rat × L => !decide (x.1 ≥ a)) xs
      rw [hd] at hdrop
      rw [ht]
      rw [hq] at hd
      rw [hd]
      cases g with
      | none => by_cases hx : a < k.1 <;>
          simp [hx, hdrop, len, bind, Except.bind, Except.map, pure, Except.pure, insertFront, unzipE, ← List.map_drop]
      | some g' =>
        have hg' := hg g' rfl
        by_cases hx : a < k.1 <;>
          simp [hx, hg', hdrop, len, bind, Except.bind, Except.map, pure, Except.pure, insertFront, unzipE,
            ← List.map_drop]

theorem not_gt_decide (u b : Rat) : (!decide (u > b)) = decide (u ≤ b) := by
  by_cases h : u ≤ b
  · simp [h, not_lt.2 h]
  · simp [h, not_le.1 h]

theorem adjust_events_block3_eq (xs : List (Rat × L)) (g : Option (L → String)) (tmax : Option Rat)
    (pre : String) (maxLab : L) (hg : ∀ g' ∈ g, g' maxLab = pre ++ "T_MAX") :
    Mir.Gen.util.adjust_events_block3 tmax (unzipE g xs).1 (unzipE g xs).2 pre
      = (match tmax with | none => Except.ok xs | some b => evMax b maxLab xs).map (unzipE g) := by
  cases tmax with
  | none => cases g <;> rfl
  | some b =>
    have hq : (fun x : Rat × L => !decide (x.1 > b)) = fun x => decide (x.1 ≤ b) := by
      funext x; exact not_gt_decide x.1 b
    simp only [Mir.Gen.util.adjust_events_block3, unzipE, evMax, List.map_map, Function.comp_def]
    have key : ∀ K : List (Rat × L),
        (do let p ← (pure (K.map (·.1), g.map fun g' => K.map fun x => g' x.2) : Py (List Rat × Option (List String)))
            let t ← getItem p.1 (-1)
            if t < b then
              (do let ls ← (match p.2 with
                    | some labels => pure (some (PyI.append labels (pre ++ "T_MAX")))
                    | none => pure none : Py (Option (List String)))
                  pure (p.1 ++ [b], ls))
            else pure p)
          = (match K.getLast? with
              | none => Except.error PyErr.indexError
              | some z => if z.1 < b then Except.ok (K ++ [(b, maxLab)]) else Except.ok K).map (unzipE g) := by
      intro K
      rcases hK : K.getLast? with _ | z
      · cases g <;> simp [getItem_neg_one, List.getLast?_map, hK, bind, Except.bind, Except.map, pure, Except.pure]
      · cases g with
        | none => by_cases hz : z.1 < b <;>
            simp [hz, getItem_neg_one, List.getLast?_map, hK, bind, Except.bind, Except.map, pure, Except.pure, unzipE]
        | some g' =>
          have hg' := hg g' rfl
          by_cases hz : z.1 < b <;>
            simp [hz, hg', getItem_neg_one, List.getLast?_map, hK, bind, Except.bind, Except.map, pure, Except.pure,
              unzipE, PyI.append]
    rcases hd : xs.dropWhile (fun x => !decide (x.1 > b)) with _ | ⟨k, r⟩
    · rw [argwhere_nil_of (fun x : Rat × L => decide (x.1 > b)) xs hd]
      rw [hq] at hd
      rw [takeWhile_eq_self_of _ xs hd, ← key xs]
      cases g <;> simp [len]
    · obtain ⟨t, ht⟩ := argwhere_cons_of (fun x : Rat × L => decide (x.1 > b)) xs hd
      have htake := take_length_takeWhile (fun x : Rat × L => !decide (x.1 > b)) xs
      rw [ht, ← key]
      rw [hq] at htake
      cases g <;> simp [len, ← List.map_take, htake, hq]

theorem adjust_events_eq_general (xs : List (Rat × L)) (g : Option (L → String)) (tmin tmax : Option Rat)
    (pre : String) (minLab maxLab : L) (h1 : ∀ g' ∈ g, g' minLab = pre ++ "T_MIN")
    (h2 : ∀ g' ∈ g, g' maxLab = pre ++ "T_MAX") :
    Mir.Gen.util.adjust_events (unzipE g xs).1 (unzipE g xs).2 tmin tmax pre
      = (adjustEvents xs tmin tmax minLab maxLab).map (unzipE g) := by
  simp only [Mir.Gen.util.adjust_events, adjust_events_block1_eq, adjustEvents_passes]
  have e1 := adjust_events_block2_eq xs g tmin pre minLab h1
  simp only [bind, Except.bind] at e1 ⊢
  rw [e1]
  cases (match tmin with | none => Except.ok xs | some a => evMin a minLab xs) with
  | error e => rfl
  | ok x1 =>
    have e2 := adjust_events_block3_eq x1 g tmax pre maxLab h2
    simp only [Except.map]
    rw [e2]
    cases (match tmax with | none => Except.ok x1 | some b => evMax b maxLab x1) <;> rfl

/-- `util.adjust_events` with labels, for ALL event lists, label lists of the same length and crop points
    (value or exception class) -/
theorem adjust_events_eq_model (xs : List (Rat × String)) (tmin tmax : Option Rat) (pre : String) :
    Mir.Gen.util.adjust_events (xs.map (·.1)) (some (xs.map (·.2))) tmin tmax pre
      = (adjustEvents xs tmin tmax (pre ++ "T_MIN") (pre ++ "T_MAX")).map
          fun out => (out.map (·.1), some (out.map (·.2))) := by
  have := adjust_events_eq_general xs (some id) tmin tmax pre (pre ++ "T_MIN") (pre ++ "T_MAX")
    (fun g' hg => by cases hg; rfl) (fun g' hg => by cases hg; rfl)
  have e : unzipE (some (id : String → String))
      = fun out : List (Rat × String) => (out.map (·.1), some (out.map (·.2))) := by
    funext out; simp [unzipE]
  rw [e] at this
  simpa [unzipE] using this

/-- `util.adjust_events` without labels: the times are those of the hand model run on ANY labelling -/
theorem adjust_events_unlabeled (xs : List (Rat × L)) (tmin tmax : Option Rat) (pre : String) (l1 l2 : L) :
    Mir.Gen.util.adjust_events (xs.map (·.1)) none tmin tmax pre
      = (adjustEvents xs tmin tmax l1 l2).map fun out => (out.map (·.1), none) := by
  have := adjust_events_eq_general xs none tmin tmax pre l1 l2 (fun g' hg => by cases hg) (fun g' hg => by cases hg)
  have e : unzipE (none : Option (L → String)) = fun out : List (Rat × L) => (out.map (·.1), none) := by
    funext out; simp [unzipE]
  rw [e] at this
  simpa [unzipE] using this

end events

/-! ### adjust_intervals -/

section intervals
variable {L : Type}

/-- how the rows of the hand model are seen by the code: the `(n, 2)` array and, when labels were given, the label list -/
def unzipI (g : Option (L → String)) (out : LI L) : Ivals × Option (List String) :=
  (ivals out, g.map fun g' => out.map fun x => g' x.2.2)

theorem ravel_ivals (xs : LI L) : ravel (ivals xs) = entries xs := by
  induction xs with
  | nil => rfl
  | cons x r ih => simp [ravel, ivals, entriesP, entries] at ih ⊢; exact ih

theorem ivals_cons (x : Rat × Rat × L) (r : LI L) : ivals (x :: r) = (x.1, x.2.1) :: ivals r := rfl

theorem ivals_nil : ivals ([] : LI L) = [] := rfl

theorem ivals_append (r r' : LI L) : ivals (r ++ r') = ivals r ++ ivals r' := by simp [ivals]

theorem adjustIntervals_passes (x : Rat × Rat × L) (r : LI L) (tmin tmax : Option Rat) (l1 l2 : L) :
    adjustIntervals (x :: r) tmin tmax l1 l2
      = (match tmin with | none => .ok (x :: r) | some a => adjustMin a l1 (x :: r)) >>= fun x1 =>
          match tmax with | none => .ok x1 | some b => adjustMax b l2 x1 := rfl

theorem adjust_intervals_block2_eq (ls : Option (List String)) :
    Mir.Gen.util.adjust_intervals_block2 ls = .ok ls := by
  cases ls <;> rfl

theorem adjust_intervals_block3_eq (xs : LI L) (g : Option (L → String)) (tmin : Option Rat)
    (sl : String) (startL : L) (hg : ∀ g' ∈ g, g' startL = sl) :
    Mir.Gen.util.adjust_intervals_block3 tmin (unzipI g xs).1 (unzipI g xs).2 sl
      = (match tmin with | none => Except.ok xs | some a => adjustMin a startL xs).map (unzipI g) := by
  cases tmin with
  | none => cases g <;> rfl
  | some a =>
    have hq : (fun x : Rat × Rat × L => !decide (x.2.1 > a)) = fun x => decide (x.2.1 ≤ a) := by
      funext x; exact not_gt_decide x.2.1 a
    have key : ∀ K : LI L,
        (do let p ← (pure (maximumIv a (ivals K), g.map fun g' => K.map fun x => g' x.2.2) :
                Py (Ivals × Option (List String)))
            let m ← minOf (ravel p.1)
            if m > a then
              (do let m' ← minOf (ravel p.1)
                  let ls ← (match p.2 with
                    | some labels => pure (some (insertFront labels sl))
                    | none => pure none : Py (Option (List String)))
                  pure ([(a, m')] ++ p.1, ls))
            else pure p)
          = (match minL (entries (clipMin a K)) with
              | none => Except.error PyErr.valueError
              | some m => if a < m then Except.ok ((a, m, startL) :: clipMin a K) else Except.ok (clipMin a K)).map
              (unzipI g) := by
      intro K
      have hc : maximumIv a (ivals K) = ivals (clipMin a K) := by
        simp [maximumIv, ivals, clipMin, List.map_map, Function.comp_def]
      have hl : ∀ g' : L → String, (K.map fun x => g' x.2.2) = (clipMin a K).map fun x => g' x.2.2 := by
        intro g'; simp [clipMin, List.map_map, Function.comp_def]
      rw [hc]
      rcases hm : minL (entries (clipMin a K)) with _ | m
      · cases g <;> simp [minOf, ravel_ivals, hm, Except.map]
      · cases g with
        | none => by_cases hz : a < m <;> simp [hz, minOf, ravel_ivals, hm, unzipI, ivals_cons, Except.map, pure_eq_ok]
        | some g' =>
          have hg' := hg g' rfl
          by_cases hz : a < m <;>
            simp [hz, hg', hl g', minOf, ravel_ivals, hm, unzipI, ivals_cons, Except.map, insertFront, pure_eq_ok]
    simp only [Mir.Gen.util.adjust_intervals_block3, unzipI, adjustMin, cropMin, col1, ivals, List.map_map,
      Function.comp_def]
    rcases hd : xs.dropWhile (fun x => !decide (x.2.1 > a)) with _ | ⟨k, r⟩
    · rw [argwhere_nil_of (fun x : Rat × Rat × L => decide (x.2.1 > a)) xs hd]
      rw [hq] at hd
      simp only [hd]
      refine Eq.trans ?_ (key xs)
      cases g <;> simp [len, ivals]
    · obtain ⟨t, ht⟩ := argwhere_cons_of (fun x : Rat × Rat × L => decide (x.2.1 > a)) xs hd
      have hdrop := drop_length_takeWhile (fun x : Rat × Rat × L => !decide (x.2.1 > a)) xs
      rw [hd] at hdrop
      rw [ht]
      rw [hq] at hd
      simp only [hd]
      refine Eq.trans ?_ (key (k :: r))
      cases g <;> simp [len, ivals, ← List.map_drop, hdrop]

theorem adjust_intervals_block4_eq (xs : LI L) (g : Option (L → String)) (tmax : Option Rat)
    (el : String) (endL : L) (hg : ∀ g' ∈ g, g' endL = el) :
    Mir.Gen.util.adjust_intervals_block4 tmax (unzipI g xs).1 (unzipI g xs).2 el
      = (match tmax with | none => Except.ok xs | some b => adjustMax b endL xs).map (unzipI g) := by
  cases tmax with
  | none => cases g <;> rfl
  | some b =>
    have hq : (fun x : Rat × Rat × L => !decide (x.1 ≥ b)) = fun x => decide (x.1 < b) := by
      funext x; exact not_ge_decide x.1 b
    have key : ∀ K : LI L,
        (do let p ← (pure (minimumIv b (ivals K), g.map fun g' => K.map fun x => g' x.2.2) :
                Py (Ivals × Option (List String)))
            let m ← maxOf (ravel p.1)
            if m < b then
              (do let m' ← maxOf (ravel p.1)
                  let ls ← (match p.2 with
                    | some labels => pure (some (PyI.append labels el))
                    | none => pure none : Py (Option (List String)))
                  pure (p.1 ++ [(m', b)], ls))
            else pure p)
          = (match maxL (entries (clipMax b K)) with
              | none => Except.error PyErr.valueError
              | some m => if m < b then Except.ok (clipMax b K ++ [(m, b, endL)]) else Except.ok (clipMax b K)).map
              (unzipI g) := by
      intro K
      have hc : minimumIv b (ivals K) = ivals (clipMax b K) := by
        simp [minimumIv, ivals, clipMax, List.map_map, Function.comp_def]
      have hl : ∀ g' : L → String, (K.map fun x => g' x.2.2) = (clipMax b K).map fun x => g' x.2.2 := by
        intro g'; simp [clipMax, List.map_map, Function.comp_def]
      rw [hc]
      rcases hm : maxL (entries (clipMax b K)) with _ | m
      · cases g <;> simp [maxOf, ravel_ivals, hm, Except.map]
      · cases g with
        | none => by_cases hz : m < b <;> simp [hz, maxOf, ravel_ivals, hm, unzipI, ivals_append, ivals_cons, ivals_nil, Except.map, pure_eq_ok]
        | some g' =>
          have hg' := hg g' rfl
          by_cases hz : m < b <;>
            simp [hz, hg', hl g', maxOf, ravel_ivals, hm, unzipI, ivals_append, ivals_cons, ivals_nil, Except.map, PyI.append, pure_eq_ok]
    simp only [Mir.Gen.util.adjust_intervals_block4, unzipI, adjustMax, cropMax, col0, ivals, List.map_map,
      Function.comp_def]
    rcases hd : xs.dropWhile (fun x => !decide (x.1 ≥ b)) with _ | ⟨k, r⟩
    · rw [argwhere_nil_of (fun x : Rat × Rat × L => decide (x.1 ≥ b)) xs hd]
      rw [hq] at hd
      rw [takeWhile_eq_self_of _ xs hd]
      refine Eq.trans ?_ (key xs)
      cases g <;> simp [len, ivals]
    · obtain ⟨t, ht⟩ := argwhere_cons_of (fun x : Rat × Rat × L => decide (x.1 ≥ b)) xs hd
      have htake := take_length_takeWhile (fun x : Rat × Rat × L => !decide (x.1 ≥ b)) xs
      rw [ht]
      refine Eq.trans ?_ (key _)
      rw [hq] at htake
      cases g <;> simp [len, ivals, ← List.map_take, htake, hq]

theorem adjust_intervals_empty (ls : Option (List String)) (tmin tmax : Option Rat) (sl el : String) :
    Mir.Gen.util.adjust_intervals [] ls tmin tmax sl el
      = match tmin, tmax with
        | some a, some b => .ok ([(a, b)], some [sl])
        | _, _ => .error .valueError := by
  cases tmin <;> cases tmax <;> simp [Mir.Gen.util.adjust_intervals, size2] <;> rfl

theorem adjust_intervals_eq_general (x : Rat × Rat × L) (r : LI L) (g : Option (L → String))
    (tmin tmax : Option Rat) (sl el : String) (startL endL : L) (h1 : ∀ g' ∈ g, g' startL = sl)
    (h2 : ∀ g' ∈ g, g' endL = el) :
    Mir.Gen.util.adjust_intervals (unzipI g (x :: r)).1 (unzipI g (x :: r)).2 tmin tmax sl el
      = (adjustIntervals (x :: r) tmin tmax startL endL).map (unzipI g) := by
  have hbody : Mir.Gen.util.adjust_intervals (unzipI g (x :: r)).1 (unzipI g (x :: r)).2 tmin tmax sl el
      = (do let labels ← Mir.Gen.util.adjust_intervals_block2 (unzipI g (x :: r)).2
            let p ← Mir.Gen.util.adjust_intervals_block3 tmin (unzipI g (x :: r)).1 labels sl
            let p ← Mir.Gen.util.adjust_intervals_block4 tmax p.1 p.2 el
            pure p) := by
    cases tmin <;> cases tmax <;> simp [Mir.Gen.util.adjust_intervals, unzipI, ivals_cons, size2] <;> rfl
  rw [hbody, adjustIntervals_passes]
  simp only [adjust_intervals_block2_eq, ok_bind]
  rw [adjust_intervals_block3_eq (x :: r) g tmin sl startL h1]
  cases (match tmin with | none => Except.ok (x :: r) | some a => adjustMin a startL (x :: r)) with
  | error e => rfl
  | ok x1 =>
    simp only [Except.map, ok_bind]
    rw [adjust_intervals_block4_eq x1 g tmax el endL h2]
    cases (match tmax with | none => Except.ok x1 | some b => adjustMax b endL x1) <;> rfl

/-- `util.adjust_intervals` with labels, for ALL non-empty interval arrays, label lists of the same length and crop
    points (value or exception class) -/
theorem adjust_intervals_eq_model (x : Rat × Rat × String) (r : LI String) (tmin tmax : Option Rat)
    (sl el : String) :
    Mir.Gen.util.adjust_intervals (ivals (x :: r)) (some (labels (x :: r))) tmin tmax sl el
      = (adjustIntervals (x :: r) tmin tmax sl el).map fun out => (ivals out, some (labels out)) := by
  have := adjust_intervals_eq_general x r (some id) tmin tmax sl el sl el
    (fun g' hg => by cases hg; rfl) (fun g' hg => by cases hg; rfl)
  have e : unzipI (some (id : String → String)) = fun out : LI String => (ivals out, some (labels out)) := by
    funext out; simp [unzipI, labels]
  rw [e] at this
  simpa [labels] using this

/-- `util.adjust_intervals` without labels: the intervals are those of the hand model run on ANY labelling -/
theorem adjust_intervals_unlabeled (x : Rat × Rat × L) (r : LI L) (tmin tmax : Option Rat) (sl el : String)
    (l1 l2 : L) :
    Mir.Gen.util.adjust_intervals (ivals (x :: r)) none tmin tmax sl el
      = (adjustIntervals (x :: r) tmin tmax l1 l2).map fun out => (ivals out, none) := by
  have := adjust_intervals_eq_general x r none tmin tmax sl el l1 l2 (fun g' hg => by cases hg)
    (fun g' hg => by cases hg)
  have e : unzipI (none : Option (L → String)) = fun out : LI L => (ivals out, none) := by
    funext out; simp [unzipI]
  rw [e] at this
  simpa using this

/-- the empty annotation, as the hand model has it -/
theorem adjust_intervals_empty_eq_model (ls : Option (List String)) (tmin tmax : Option Rat) (sl el : String) :
    Mir.Gen.util.adjust_intervals [] ls tmin tmax sl el
      = (adjustIntervals ([] : LI String) tmin tmax sl el).map fun out => (ivals out, some (labels out)) := by
  rw [adjust_intervals_empty]
  cases tmin <;> cases tmax <;> rfl

end intervals

/-! ### interpolate_intervals, intervals_to_samples -/

/-- the rows the hand model works on: labels are `some _`, the fill value may be `None` -/
def rowsO (xs : LI String) : LI (Option String) := xs.map fun x => (x.1, x.2.1, some x.2.2)

theorem interpolate_loop_eq (tps : List Rat) (xs : LI String) (acc : List (Option String))
    (hacc : acc.length = tps.length) :
    Mir.Gen.util.interpolate_intervals_loop1
        (List.zip (searchsortedLeft tps (col0 (ivals xs)))
          (List.zip (searchsortedRight tps (col1 (ivals xs))) (labels xs))) acc
      = .ok ((rowsO xs).foldl (interpolateStep tps) acc) := by
  induction xs generalizing acc with
  | nil => rfl
  | cons x r ih =>
    have h1 : (tps.countP fun t => decide (t < x.1)) ≤ acc.length := hacc ▸ List.countP_le_length
    have h2 : (tps.countP fun t => decide (t ≤ x.2.1)) ≤ acc.length := hacc ▸ List.countP_le_length
    simp only [searchsortedLeft, searchsortedRight, col0, col1, ivals, labels, List.map_cons, List.zip_cons_cons,
      Mir.Gen.util.interpolate_intervals_loop1, rowsO, List.foldl_cons, interpolateStep, List.map_replicate,
      sliceAssign_replicate _ _ _ _ h1 h2] at ih ⊢
    exact ih _ (by rw [length_iv_sliceAssign]; exact hacc)

/-- `util.interpolate_intervals` for ALL labelled interval lists, time grids (sorted or not) and fill values -/
theorem interpolate_intervals_eq_model (xs : LI String) (tps : List Rat) (fill : Option String) :
    Mir.Gen.util.interpolate_intervals (ivals xs) (labels xs) tps fill = interpolate (rowsO xs) tps fill := by
  simp only [Mir.Gen.util.interpolate_intervals, interpolate, anyB_unsorted]
  by_cases h : isNondecreasing tps = true
  · have hl : (List.replicate (len tps) fill).length = tps.length := by simp [len]
    simp [h, interpolate_loop_eq tps xs _ hl, len]
  · simp [h]
    rfl

theorem entries_rowsO (xs : LI String) : entries (rowsO xs) = entries xs := by
  induction xs with
  | nil => rfl
  | cons x r ih => simp [rowsO, entries] at ih ⊢; exact ih

/-- `util.intervals_to_samples` for ALL labelled interval lists, offsets, sample sizes (zero and negative included) and
    fill values; the float32 sample grid is read as the hand model reads it (`i * size + offset`, exactly) -/
theorem intervals_to_samples_eq_model (xs : LI String) (offset size : Rat) (fill : Option String) :
    Mir.Gen.util.intervals_to_samples (ivals xs) (labels xs) offset size fill
      = intervalsToSamples (rowsO xs) offset size fill := by
  simp only [Mir.Gen.util.intervals_to_samples, intervalsToSamples, entries_rowsO, maxOf]
  rw [show ravel (ivals xs) = entries xs from by
    induction xs with
    | nil => rfl
    | cons x r ih => simp [ravel, ivals, entriesP, entries] at ih ⊢; exact ih]
  rcases hm : maxL (entries xs) with _ | m
  · rfl
  · by_cases hs : size = 0
    · by_cases h0 : m = 0 <;> simp [hs, h0, intFloorDivNp]
    · have ht : (List.map (fun v => v + offset) (List.map (fun i : Nat => (i : Rat) * size) (arangeInt (m / size).floor)))
          = sampleTimes (m / size).floor.toNat size offset := by
        simp [arangeInt, sampleTimes, List.map_map, Function.comp_def]
      simp only [hs, intFloorDivNp, if_false, ok_bind, ht, interpolate_intervals_eq_model]
      cases interpolate (rowsO xs) (sampleTimes (m / size).floor.toNat size offset) fill <;> rfl

/-! ### merge_labeled_intervals -/

/-- one output row of the hand model -/
def mergeRow (x y : LI String) (pq : Rat × Rat) : Py (Rat × Rat × String × String) :=
  match lastStarted x pq.1, lastStarted y pq.1 with
  | some lx, some ly => .ok (pq.1, pq.2, lx, ly)
  | _, _ => .error .indexError

theorem mergeRows_eq (x y : LI String) (bs : List Rat) : mergeRows x y bs = (pairs bs).mapM (mergeRow x y) := by
  unfold mergeRows
  congr 1
  funext pq
  unfold mergeRow
  rcases lastStarted x pq.1 with _ | lx <;> rcases lastStarted y pq.1 with _ | ly <;> rfl

theorem mergeRow_mapM_fst (x y : LI String) (P : Ivals) {out : List (Rat × Rat × String × String)}
    (h : P.mapM (mergeRow x y) = .ok out) : out.map (fun r => (r.1, r.2.1)) = P := by
  refine mapM_ok_inv (mergeRow x y) (fun r => (r.1, r.2.1)) ?_ P h
  intro p r hr
  unfold mergeRow at hr
  rcases hx : lastStarted x p.1 with _ | lx <;> rcases hy : lastStarted y p.1 with _ | ly <;>
    simp only [hx, hy] at hr <;> cases hr
  rfl

theorem merge_loop_eq (x y : LI String) (P : Ivals) (ax ay : List String) :
    Mir.Gen.util.merge_labeled_intervals_loop1 (arange (len (labels x))) (ivals x) (labels x)
        (arange (len (labels y))) (ivals y) (labels y) P ax ay
      = (P.mapM (mergeRow x y)).map fun out => (ax ++ out.map (·.2.2.1), ay ++ out.map (·.2.2.2)) := by
  induction P generalizing ax ay with
  | nil => simp [Mir.Gen.util.merge_labeled_intervals_loop1, Except.map, pure, Except.pure]
  | cons pq P ih =>
    obtain ⟨t0, t1⟩ := pq
    simp only [Mir.Gen.util.merge_labeled_intervals_loop1, labels, maskSelect_arange, ok_bind, List.mapM_cons, mergeRow]
    rcases hx : lastStarted x t0 with _ | lx
    · simp [pick_none hx]; rfl
    · obtain ⟨n, hn1, hn2⟩ := pick_some (fun l => l) hx
      simp only [hn1, hn2, ok_bind]
      rcases hy : lastStarted y t0 with _ | ly
      · simp [pick_none hy]; rfl
      · obtain ⟨m, hm1, hm2⟩ := pick_some (fun l => l) hy
        simp only [hm1, hm2, ok_bind]
        have := ih (PyI.append ax lx) (PyI.append ay ly)
        simp only [labels] at this
        rw [this]
        cases P.mapM (mergeRow x y) with
        | error e => rfl
        | ok out => simp [Except.map, PyI.append, bind, Except.bind, pure, Except.pure]

theorem ravel_append (a b : Ivals) : ravel (a ++ b) = ravel a ++ ravel b := by
  induction a with
  | nil => rfl
  | cons x r ih => simp [ravel, entriesP] at ih ⊢; exact ih

theorem getItem_col0_zero {L : Type} (x : LI L) :
    getItem (col0 (ivals x)) 0 = match x.head? with | some x0 => .ok x0.1 | none => .error .indexError := by
  cases x <;> simp [col0, ivals]

theorem getItem_col1_last {L : Type} (x : LI L) :
    getItem (col1 (ivals x)) (-1) = match x.getLast? with | some xn => .ok xn.2.1 | none => .error .indexError := by
  rw [getItem_neg_one]
  simp only [col1, ivals, List.map_map, List.getLast?_map]
  cases x.getLast? <;> rfl

theorem merge_nonempty_case (x y : LI String) {x0 xn y0 yn : Rat × Rat × String} (hx0 : x.head? = some x0)
    (hxn : x.getLast? = some xn) (hy0 : y.head? = some y0) (hyn : y.getLast? = some yn) :
    Mir.Gen.util.merge_labeled_intervals (ivals x) (labels x) (ivals y) (labels y)
      = (mergeLabeled x y).map fun out =>
          (out.map fun r => (r.1, r.2.1), out.map fun r => r.2.2.1, out.map fun r => r.2.2.2) := by
  simp only [Mir.Gen.util.merge_labeled_intervals, mergeLabeled, getItem_col0_zero, getItem_col1_last, hx0, hxn, hy0, hyn,
    ok_bind, zip_slices, unique, ravel_append, ravel_ivals, mergeRows_eq, merge_loop_eq]
  by_cases ha : x0.1 = y0.1 ∧ xn.2.1 = yn.2.1
  · have hb : List.elem false [decide (x0.1 = y0.1), decide (xn.2.1 = yn.2.1)] = false := by simp [ha.1, ha.2]
    simp only [hb, if_pos ha]
    rcases hm : (pairs (usort (entries x ++ entries y))).mapM (mergeRow x y) with e | out
    · rfl
    · simp [Except.map, bind, Except.bind, pure, Except.pure, mergeRow_mapM_fst x y _ hm]
  · have hb : List.elem false [decide (x0.1 = y0.1), decide (xn.2.1 = yn.2.1)] = true := by
      rcases not_and_or.1 ha with h | h <;> simp [h]
    simp only [hb, if_neg ha]
    rfl

/-- `util.merge_labeled_intervals` for ALL pairs of labelled interval lists (empty, misaligned, gapped, overlapping
    included; value or exception class) -/
theorem merge_labeled_intervals_eq_model (x y : LI String) :
    Mir.Gen.util.merge_labeled_intervals (ivals x) (labels x) (ivals y) (labels y)
      = (mergeLabeled x y).map fun out =>
          (out.map fun r => (r.1, r.2.1), out.map fun r => r.2.2.1, out.map fun r => r.2.2.2) := by
  cases x with
  | nil => simp [Mir.Gen.util.merge_labeled_intervals, mergeLabeled, col0, ivals]; rfl
  | cons x0 rx =>
    cases y with
    | nil => simp [Mir.Gen.util.merge_labeled_intervals, mergeLabeled, col0, ivals]; rfl
    | cons y0 ry =>
      rcases hxl : (x0 :: rx).getLast? with _ | xn
      · simp at hxl
      rcases hyl : (y0 :: ry).getLast? with _ | yn
      · simp at hyl
      exact merge_nonempty_case _ _ rfl hxl rfl hyl

/-! ### index_labels -/

theorem nodup_sortedSet (L : List String) : (sortedSet L).Nodup := by
  unfold sortedSet
  refine List.Nodup.map ?_ (nodup_sortedUniq_lo _)
  intro a b h
  have := congrArg String.toList h
  simpa using this

theorem mem_sortedSet {L : List String} {s : String} : s ∈ sortedSet L ↔ s ∈ L := by
  unfold sortedSet
  constructor
  · intro h
    obtain ⟨l, hl, rfl⟩ := List.mem_map.1 h
    obtain ⟨s', hs', rfl⟩ := List.mem_map.1 (Mir.Segment.mem_sortedUniq.1 hl)
    simpa using hs'
  · intro h
    exact List.mem_map.2 ⟨s.toList, Mir.Segment.mem_sortedUniq.2 (List.mem_map.2 ⟨s, h, rfl⟩), by simp⟩

/-- the dict-building loop: afterwards `label_to_index[s]` is the position of `s` among the enumerated labels and
    `index_to_label[i]` is the `i`-th of them -/
theorem index_loop_spec (U : List String) (hU : U.Nodup) (k : Nat) (d1 : List (String × Nat)) (d2 : List (Nat × String)) :
    ∃ d1' d2', Mir.Gen.util.index_labels_loop1 ((U.zipIdx k).map fun p => (p.2, p.1)) d1 d2 = .ok (d1', d2') ∧
      (∀ s, d1'.lookup s = if s ∈ U then some (k + U.idxOf s) else d1.lookup s) ∧
      (∀ s ∈ U, d2'.lookup (k + U.idxOf s) = some s) := by
  induction U generalizing k d1 d2 with
  | nil => exact ⟨d1, d2, rfl, by simp, by simp⟩
  | cons u U ih =>
    obtain ⟨hu, hU'⟩ := List.nodup_cons.1 hU
    obtain ⟨d1', d2', h0, h1, h2⟩ := ih hU' (k + 1) (dictSet d1 u k) (dictSet d2 k u)
    refine ⟨d1', d2', by simpa [List.zipIdx_cons, Mir.Gen.util.index_labels_loop1] using h0, ?_, ?_⟩
    · intro s
      rw [h1 s]
      by_cases hs : s ∈ U
      · have hne : u ≠ s := fun e => hu (e ▸ hs)
        simp [hs, List.idxOf_cons, hne]; omega
      · by_cases hsu : s = u
        · subst hsu; simp [hs, dictSet, List.lookup_cons]
        · have hb : (s == u) = false := by simpa using hsu
          simp [hs, hsu, dictSet, List.lookup_cons, hb]
    · intro s hs
      rcases List.mem_cons.1 hs with rfl | hs'
      · -- the entry written in this iteration survives: later keys are `> k`
        have hk : ∀ (V : List String) (j : Nat) (e1 : List (String × Nat)) (e2 : List (Nat × String)),
            k < j → ∀ r, Mir.Gen.util.index_labels_loop1 ((V.zipIdx j).map fun p => (p.2, p.1)) e1 e2 = .ok r →
              r.2.lookup k = e2.lookup k := by
          intro V
          induction V with
          | nil => intro j e1 e2 _ r hr; cases hr; rfl
          | cons v V ihV =>
            intro j e1 e2 hj r hr
            simp only [List.zipIdx_cons, List.map_cons, Mir.Gen.util.index_labels_loop1] at hr
            have := ihV (j + 1) _ _ (by omega) r hr
            rw [this]
            have hkj : (k == j) = false := by simp; omega
            simp [dictSet, List.lookup_cons, hkj]
        have := hk U (k + 1) _ _ (by omega) _ h0
        simp only at this
        simp [this, dictSet, List.lookup_cons]
      · have hne : u ≠ s := fun e => hu (e ▸ hs')
        have := h2 s hs'
        simp [List.idxOf_cons, hne]
        rw [← this]; congr 1; omega

/-- `util.index_labels`, both case modes: the indices are the positions in `sorted(set(·))` of the (case-folded) labels
    and the returned dict maps every index back to its label (`labels[i] == index_to_label[indices[i]]`) -/
theorem index_labels_spec (ls : List String) (cs : Bool) :
    let L := if cs then ls else ls.map lowerStr
    ∃ d, Mir.Gen.util.index_labels ls cs = .ok (L.map fun s => (sortedSet L).idxOf s, d) ∧
      ∀ s ∈ L, d.lookup ((sortedSet L).idxOf s) = some s := by
  intro L
  obtain ⟨d1, d2, h0, h1, h2⟩ := index_loop_spec (sortedSet L) (nodup_sortedSet L) 0 [] []
  have hb : Mir.Gen.util.index_labels_block1 cs ls = .ok L := by
    cases cs <;> simp [Mir.Gen.util.index_labels_block1, L] <;> rfl
  have hm : List.mapM (fun s => (do let t ← dictGet d1 s; pure t : Py Nat)) L
      = .ok (L.map fun s => (sortedSet L).idxOf s) := by
    have := mapM_ok_of (fun s => (do let t ← dictGet d1 s; pure t : Py Nat)) L id
      (fun s => (sortedSet L).idxOf s) (by
        intro s hs
        have : s ∈ sortedSet L := mem_sortedSet.2 hs
        simp [dictGet, h1 s, this])
    simpa using this
  refine ⟨d2, ?_, ?_⟩
  · simp only [Mir.Gen.util.index_labels, hb, ok_bind, enumerate]
    rw [h0]
    simp only [ok_bind, hm]
    rfl
  · intro s hs
    have := h2 s (mem_sortedSet.2 hs)
    simpa using this

/-- `util.index_labels(labels)[0]` (the default, case-insensitive mode) is the hand model's index sequence, for ALL
    label lists -/
theorem index_labels_eq_model (ls : List String) :
    (Mir.Gen.util.index_labels ls false).map (·.1)
      = .ok (Mir.Segment.indexLabels (ls.map fun s => some s.toList)) := by
  obtain ⟨d, hd, _⟩ := index_labels_spec ls false
  simp only [Bool.false_eq_true, if_false] at hd
  rw [hd]
  simp only [Except.map, Mir.Segment.indexLabels, Mir.Segment.indexNorm, List.map_map]
  congr 1
  apply List.map_congr_left
  intro s _
  have hL : List.map (Mir.Segment.normLabel ∘ fun s => some s.toList) ls
      = (ls.map lowerStr).map String.toList := by
    simp [List.map_map, Function.comp_def, Mir.Segment.normLabel, lowerStr]
  simp only [Function.comp_def] at hL ⊢
  rw [hL]
  unfold sortedSet
  have hinj : Function.Injective String.ofList := by
    intro a b h
    have := congrArg String.toList h
    simpa using this
  have := idxOf_map_inj String.ofList hinj
    (Mir.Segment.sortedUniq ((ls.map lowerStr).map String.toList)) (lowerStr s).toList
  simp only [String.ofList_toList] at this
  rw [this]
  simp [lowerStr, Mir.Segment.normLabel]

/-! ### the C13 headline statements, on the translated definitions -/

section headlines
variable {L : Type}

/-- whatever the translated `adjust_intervals` returns on a labelled non-empty annotation is what the model returns -/
theorem gen_adjust_ok {x : Rat × Rat × String} {r : LI String} {tmin tmax : Option Rat} {sl el : String}
    {p : Ivals × Option (List String)}
    (h : Mir.Gen.util.adjust_intervals (ivals (x :: r)) (some (labels (x :: r))) tmin tmax sl el = .ok p) :
    ∃ out, adjustIntervals (x :: r) tmin tmax sl el = .ok out ∧ p = (ivals out, some (labels out)) := by
  rw [adjust_intervals_eq_model] at h
  cases ho : adjustIntervals (x :: r) tmin tmax sl el with
  | error e => simp [ho, Except.map] at h
  | ok out => exact ⟨out, rfl, by simpa [ho, Except.map] using h.symm⟩

/-- the translated `adjust_intervals` begins at `t_min`, ends at `t_max`, keeps every row inside the range, and
    returns one label per row -/
theorem gen_adjust_span_within {lo : Rat} {x : Rat × Rat × String} {r : LI String} {tmin tmax : Option Rat}
    {sl el : String} {iv : Ivals} {ls : List String} (hc : Chain lo (x :: r))
    (h : Mir.Gen.util.adjust_intervals (ivals (x :: r)) (some (labels (x :: r))) tmin tmax sl el = .ok (iv, some ls)) :
    iv.length = ls.length ∧
    (∀ a, tmin = some a → ∃ hd tl, iv = hd :: tl ∧ hd.1 = a) ∧
    (∀ b, tmax = some b → ∃ z, iv.getLast? = some z ∧ z.2 = b) ∧
    (∀ y ∈ iv, (∀ a, tmin = some a → a ≤ y.1 ∧ a ≤ y.2) ∧ (∀ b, tmax = some b → y.1 ≤ b ∧ y.2 ≤ b)) := by
  obtain ⟨out, ho, hp⟩ := gen_adjust_ok h
  obtain ⟨rfl, hl⟩ := Prod.mk.inj hp
  obtain rfl := Option.some.inj hl
  have hs := adjust_span hc ho
  have hw := adjust_within (List.cons_ne_nil _ _) ho
  refine ⟨by simp [ivals, labels], ?_, ?_, ?_⟩
  · intro a ha
    obtain ⟨hd, tl, rfl, h1⟩ := hs.1 a ha
    exact ⟨_, _, rfl, h1⟩
  · intro b hb
    obtain ⟨z, hz, h1⟩ := hs.2 b hb
    exact ⟨(z.1, z.2.1), by simp [ivals, List.getLast?_map, hz], h1⟩
  · intro y hy
    obtain ⟨w, hw', rfl⟩ := List.mem_map.1 hy
    exact hw w hw'

/-- the translated `adjust_intervals` returns (does not raise) on a time-ordered annotation and a proper range -/
theorem gen_adjust_total {lo : Rat} {x0 : Rat × Rat × String} {r : LI String} {tmin tmax : Option Rat}
    {sl el : String} (hc : Chain lo (x0 :: r)) (hab : ∀ a b, tmin = some a → tmax = some b → a < b)
    (hb : ∀ b, tmin = none → tmax = some b → x0.1 < b) :
    ∃ p, Mir.Gen.util.adjust_intervals (ivals (x0 :: r)) (some (labels (x0 :: r))) tmin tmax sl el = .ok p := by
  obtain ⟨out, ho⟩ := adjust_total (sl := sl) (el := el) hc hab hb
  exact ⟨_, by rw [adjust_intervals_eq_model, ho]; rfl⟩

/-- the translated `adjust_events` is the documented result on time-ordered events when some event reaches `t_min` -/
theorem gen_adjust_events_spec {xs : List (Rat × String)} {a b : Rat} (pre : String) (hs : EvSorted xs)
    (hab : a ≤ b) (hex : ∃ x ∈ xs, a ≤ x.1) :
    Mir.Gen.util.adjust_events (xs.map (·.1)) (some (xs.map (·.2))) (some a) (some b) pre
      = .ok ((eventsSpec xs a b (pre ++ "T_MIN") (pre ++ "T_MAX")).map (·.1),
             some ((eventsSpec xs a b (pre ++ "T_MIN") (pre ++ "T_MAX")).map (·.2))) := by
  rw [adjust_events_eq_model, adjust_events_spec _ _ hs hab hex]
  rfl

/-- the recorded finding, on the translated definition: when no event reaches `t_min` nothing is removed -/
theorem gen_adjust_events_none_reach {xs : List (Rat × String)} {a : Rat} (pre : String) (hne : xs ≠ [])
    (hnone : ∀ x ∈ xs, x.1 < a) :
    Mir.Gen.util.adjust_events (xs.map (·.1)) (some (xs.map (·.2))) (some a) none pre
      = .ok (xs.map (·.1), some (xs.map (·.2))) := by
  rw [adjust_events_eq_model, (adjust_events_none_reach _ _ hne hnone).1]
  rfl

/-- the two translated boundary conversions are mutually inverse on contiguous segmentations with 5-decimal-exact
    times -/
theorem gen_b2i_i2b {lo : Rat} {xs : LI L} (hc : Contig lo xs) (hex : ∀ v ∈ entries xs, roundDec 5 v = v) :
    (Mir.Gen.util.intervals_to_boundaries (ivals xs) >>= Mir.Gen.util.boundaries_to_intervals) = .ok (ivals xs) := by
  rw [intervals_to_boundaries_default, ok_bind, boundaries_to_intervals_eq_model]
  exact b2i_i2b hc hex

theorem gen_i2b_b2i {bs : List Rat} (hs : SSorted bs) (hlen : 2 ≤ bs.length) (hex : ∀ v ∈ bs, roundDec 5 v = v) :
    (Mir.Gen.util.boundaries_to_intervals bs >>= fun iv => Mir.Gen.util.intervals_to_boundaries iv) = .ok bs := by
  obtain ⟨iv, h1, h2⟩ := i2b_b2i hs hlen hex
  rw [boundaries_to_intervals_eq_model, h1, ok_bind, intervals_to_boundaries_default, h2]

/-- the translated `intervals_to_durations` returns one positive duration per row of a valid annotation -/
theorem gen_durations_pos {iv : Ivals} {ds : List Rat} (h : Mir.Gen.util.intervals_to_durations iv = .ok ds) :
    ds = iv.map (fun x => x.2 - x.1) ∧ ∀ d ∈ ds, 0 < d := by
  rw [intervals_to_durations_eq_model] at h
  unfold intervalsToDurations validateIntervals at h
  split at h
  · cases h
  · split at h
    · cases h
    · rename_i h1 h2
      simp only [Except.map, Except.ok.injEq] at h
      have hpos : ∀ x ∈ iv, x.1 < x.2 := by
        intro x hx
        by_contra hc
        exact h2 (List.any_eq_true.2 ⟨x, hx, by simpa using not_lt.1 hc⟩)
      have hd : ds = iv.map (fun x => x.2 - x.1) := by
        rw [← h]
        apply List.map_congr_left
        intro x hx
        have := hpos x hx
        simp [qabs, not_lt.2 (le_of_lt (sub_pos.2 this))]
      refine ⟨hd, ?_⟩
      intro d hdm
      rw [hd] at hdm
      obtain ⟨x, hx, rfl⟩ := List.mem_map.1 hdm
      exact sub_pos.2 (hpos x hx)

/-- the translated `interpolate_intervals`: each time point gets the label of the last closed interval containing it,
    else the fill value (any intervals, any non-decreasing grid); an unsorted grid is a `ValueError` -/
theorem gen_interpolate_spec (xs : LI String) (tps : List Rat) (fill : Option String)
    (h : isNondecreasing tps = true) :
    Mir.Gen.util.interpolate_intervals (ivals xs) (labels xs) tps fill
      = .ok (tps.map fun t => (labelAtC (rowsO xs) t).getD fill) := by
  rw [interpolate_intervals_eq_model, interpolate_spec _ _ _ h]

theorem gen_interpolate_unsorted_raises (xs : LI String) (tps : List Rat) (fill : Option String)
    (h : isNondecreasing tps = false) :
    Mir.Gen.util.interpolate_intervals (ivals xs) (labels xs) tps fill = .error .valueError := by
  rw [interpolate_intervals_eq_model, interpolate_unsorted_raises _ _ _ h]

/-- the translated `intervals_to_samples`: times `i·size + offset` for `i < ⌊max/size⌋`, each labelled as above -/
theorem gen_samples_spec (xs : LI String) (offset size : Rat) (fill : Option String) (m : Rat)
    (hm : maxL (entries xs) = some m) (hs : 0 < size) :
    Mir.Gen.util.intervals_to_samples (ivals xs) (labels xs) offset size fill
      = .ok (sampleTimes (m / size).floor.toNat size offset,
             (sampleTimes (m / size).floor.toNat size offset).map fun t => (labelAtC (rowsO xs) t).getD fill) := by
  rw [intervals_to_samples_eq_model, samples_spec _ _ _ _ m (by rw [entries_rowsO]; exact hm) hs]

/-- C12 on the translated sampling: splitting an interval at an interior point (both pieces keep the label) changes
    neither the sample times nor any sample label -/
theorem gen_samples_split_invariant (x₁ x₂ : LI String) {s r e : Rat} (l : String) (h1 : s ≤ r) (h2 : r ≤ e)
    (offset size : Rat) (fill : Option String) :
    Mir.Gen.util.intervals_to_samples (ivals (x₁ ++ (s, r, l) :: (r, e, l) :: x₂))
        (labels (x₁ ++ (s, r, l) :: (r, e, l) :: x₂)) offset size fill
      = Mir.Gen.util.intervals_to_samples (ivals (x₁ ++ (s, e, l) :: x₂)) (labels (x₁ ++ (s, e, l) :: x₂))
          offset size fill := by
  rw [intervals_to_samples_eq_model, intervals_to_samples_eq_model]
  have e1 : rowsO (x₁ ++ (s, r, l) :: (r, e, l) :: x₂) = rowsO x₁ ++ (s, r, some l) :: (r, e, some l) :: rowsO x₂ := by
    simp [rowsO]
  have e2 : rowsO (x₁ ++ (s, e, l) :: x₂) = rowsO x₁ ++ (s, e, some l) :: rowsO x₂ := by simp [rowsO]
  rw [e1, e2]
  exact Mir.C12.samples_split_invariant _ _ (some l) h1 h2 offset size fill

/-- the translated `merge_labeled_intervals` of two contiguous segmentations of one span is their common refinement -/
theorem gen_merge_refinement {lo hi : Rat} {x y : LI String} (hx : Contig lo x) (hy : Contig lo y)
    {zx zy : Rat × Rat × String} (hzx : x.getLast? = some zx) (hzy : y.getLast? = some zy)
    (hxe : zx.2.1 = hi) (hye : zy.2.1 = hi) :
    ∃ out : List (Rat × Rat × String × String),
      Mir.Gen.util.merge_labeled_intervals (ivals x) (labels x) (ivals y) (labels y)
        = .ok (ivals out, out.map (·.2.2.1), out.map (·.2.2.2)) ∧
      ivals out = pairs (usort (entries x ++ entries y)) ∧
      Contig lo out ∧
      (∀ row ∈ out, ∀ t, row.1 ≤ t → t < row.2.1 →
        labelAt x t = some row.2.2.1 ∧ labelAt y t = some row.2.2.2) ∧
      qsum ((ivals out).map fun p => p.2 - p.1) = hi - lo := by
  obtain ⟨out, ho, h⟩ := merge_refinement hx hy hzx hzy hxe hye
  exact ⟨out, by rw [merge_labeled_intervals_eq_model, ho]; rfl, h⟩

/-- annotations whose first starts or last ends differ are rejected with `ValueError` by the translated function -/
theorem gen_merge_misaligned_raises {x y : LI String} {x0 xn y0 yn : Rat × Rat × String} (h1 : x.head? = some x0)
    (h2 : x.getLast? = some xn) (h3 : y.head? = some y0) (h4 : y.getLast? = some yn)
    (hmis : x0.1 ≠ y0.1 ∨ xn.2.1 ≠ yn.2.1) :
    Mir.Gen.util.merge_labeled_intervals (ivals x) (labels x) (ivals y) (labels y) = .error .valueError := by
  rw [merge_labeled_intervals_eq_model, merge_misaligned_raises h1 h2 h3 h4 hmis]
  rfl

/-- C12 on the translated `adjust_intervals`: cutting one interval of the annotation in two gives the same exception, the
    same rows, or the same rows with one row cut in two (the model results below ARE what the translated function
    returns, by `adjust_intervals_eq_model`) -/
theorem gen_adjust_intervals_split (y₁ y₂ : LI String) {s r e : Rat} (l : String) (h1 : s ≤ r) (h2 : r ≤ e)
    (hord : ∀ row ∈ y₂, e ≤ row.1) (tmin tmax : Option Rat) (sl el : String) :
    ∃ r1 r2 : Py (LI String),
      Mir.Gen.util.adjust_intervals (ivals (y₁ ++ (s, r, l) :: (r, e, l) :: y₂))
          (some (labels (y₁ ++ (s, r, l) :: (r, e, l) :: y₂))) tmin tmax sl el
        = r1.map (fun out => (ivals out, some (labels out))) ∧
      Mir.Gen.util.adjust_intervals (ivals (y₁ ++ (s, e, l) :: y₂)) (some (labels (y₁ ++ (s, e, l) :: y₂))) tmin tmax sl el
        = r2.map (fun out => (ivals out, some (labels out))) ∧
      PyRel SplitOrEq r1 r2 := by
  refine ⟨_, _, ?_, ?_, Mir.C12.adjust_intervals_split y₁ y₂ l h1 h2 hord tmin tmax sl el⟩
  · cases y₁ with
    | nil => exact adjust_intervals_eq_model _ _ tmin tmax sl el
    | cons a y => exact adjust_intervals_eq_model _ _ tmin tmax sl el
  · cases y₁ with
    | nil => exact adjust_intervals_eq_model _ _ tmin tmax sl el
    | cons a y => exact adjust_intervals_eq_model _ _ tmin tmax sl el

/-- the translated `generate_labels`: one synthetic label `prefix ++ str(i)` per item -/
theorem generate_labels_spec (items : List Rat) (pre : String) :
    Mir.Gen.util.generate_labels items pre = .ok ((List.range items.length).map fun n => pre ++ toString n) := rfl

end headlines

/-! ### non-vacuity: the translated definitions compute -/

example : Mir.Gen.util.adjust_intervals [((1 : Rat), (3 : Rat)), (4, 6)] (some ["a", "b"]) (some 2) (some 7) "S" "E"
    = .ok ([(2, 3), (4, 6), (6, 7)], some ["a", "b", "E"]) := by decide +kernel

example : Mir.Gen.util.adjust_intervals [((0 : Rat), (1 : Rat)), (5, 6)] (some ["a", "b"]) (some 2) none "S" "E"
    = .ok ([(2, 5), (5, 6)], some ["S", "b"]) := by decide +kernel      -- the recorded finding: gap labelled start_label

example : Mir.Gen.util.adjust_events [(5 : Rat)] (some ["a"]) none (some 3) "__" = .error .indexError := by
  decide +kernel

example : Mir.Gen.util.boundaries_to_intervals [(0 : Rat), 1, 3] = .ok [(0, 1), (1, 3)] := by decide +kernel

example : Mir.Gen.util.interpolate_intervals [((0 : Rat), (1 : Rat)), (2, 3)] ["a", "b"] [-1, 1, 3/2, 2, 3] none
    = .ok [none, some "a", none, some "b", some "b"] := by decide +kernel

example : Mir.Gen.util.merge_labeled_intervals [((0 : Rat), (2 : Rat)), (2, 4)] ["a", "b"] [((0 : Rat), (1 : Rat)), (1, 4)]
    ["X", "Y"] = .ok ([(0, 1), (1, 2), (2, 4)], ["a", "a", "b"], ["X", "Y", "Y"]) := by decide +kernel

example : Mir.Gen.util.intervals_to_durations [((0 : Rat), (1 : Rat)), (1, 1)] = .error .valueError := by
  decide +kernel

end Mir.C13.Gen
