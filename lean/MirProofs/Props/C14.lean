import MirProofs.Lemmas.Validate

/-!
# C14 (validator level) — valid annotations pass every validator; documented faults raise `ValueError`

For every validator `V` of mir_eval (model: `MirModel/Validate.lean`):
* `V_total`   — `V x` is `ok ()` or `error valueError` (no other exception class can come out);
* `V_ok_iff`  — `V x = ok () ↔ Valid_V x`, `Valid_V` being the documented convention stated independently;
* `V_accepts`, `V_rejects_<fault>` — corollaries for each documented fault class.
All statements are for all inputs (any shape, any number of data).
-/
namespace Mir.C14
open Mir.Validate

/-! ## util.validate_events -/

/-- documented: a 1-d array of event times in increasing order, none above `max_time` -/
structure ValidEvents (e : Arr) (maxTime : Rat) : Prop where
  oneDim : e.shape.length = 1
  bounded : ∀ x ∈ e.data, x ≤ maxTime
  increasing : e.data.Pairwise (· ≤ ·)

theorem validate_events_total (e : Arr) (m : Rat) : OkOrVE (utilEvents e m) := by
  unfold utilEvents
  exact okOrVE_bind (check_total _) (okOrVE_bind (check_total _) (check_total _))

theorem validate_events_ok_iff (e : Arr) (m : Rat) : utilEvents e m = .ok () ↔ ValidEvents e m := by
  simp only [utilEvents, bindU_ok_iff, check_ok_iff, diffs_any_neg_false_iff, Arr.ndim]
  constructor
  · rintro ⟨h1, h2, h3⟩
    exact ⟨by simpa using h2, by simpa using h1, h3⟩
  · rintro ⟨h1, h2, h3⟩
    exact ⟨by simpa using h2, by simpa using h1, h3⟩

theorem validate_events_accepts {e : Arr} {m : Rat} (h : ValidEvents e m) : utilEvents e m = .ok () :=
  (validate_events_ok_iff e m).2 h

theorem validate_events_rejects {e : Arr} {m : Rat} (h : ¬ ValidEvents e m) :
    utilEvents e m = .error .valueError :=
  ve_of_not_ok (validate_events_total e m) fun hok => h ((validate_events_ok_iff e m).1 hok)

/-- fault: some event lies after an earlier, larger one -/
theorem validate_events_rejects_unsorted {e : Arr} {m : Rat} {i j : Nat} (hij : i < j) (hj : j < e.data.length)
    (h : e.data[j] < e.data[i]) : utilEvents e m = .error .valueError :=
  validate_events_rejects fun hv =>
    absurd (List.pairwise_iff_getElem.1 hv.increasing i j (by omega) hj hij) (not_le.2 h)

/-- fault: not one-dimensional (0-d, 2-d, …) -/
theorem validate_events_rejects_multidim {e : Arr} {m : Rat} (h : e.shape.length ≠ 1) :
    utilEvents e m = .error .valueError :=
  validate_events_rejects fun hv => h hv.oneDim

/-- fault: an implausibly large time -/
theorem validate_events_rejects_too_large {e : Arr} {m x : Rat} (hx : x ∈ e.data) (h : m < x) :
    utilEvents e m = .error .valueError :=
  validate_events_rejects fun hv => absurd (hv.bounded x hx) (not_le.2 h)

example : ValidEvents (Arr.vec [0, 1, 1, 30000]) 30000 :=
  ⟨rfl, by decide +kernel, by decide +kernel⟩
example : utilEvents (Arr.vec [0, 2, 1]) 30000 = .error .valueError := by decide +kernel
example : utilEvents ⟨[2, 1], [0, 1]⟩ 30000 = .error .valueError := by decide +kernel

/-! ## util.validate_intervals -/

/-- documented: an n-by-2 array of non-negative times, every interval of strictly positive duration -/
structure ValidIntervals (iv : Arr) : Prop where
  nBy2 : ∃ n, iv.shape = [n, 2]
  nonneg : ∀ x ∈ iv.data, 0 ≤ x
  positive : ∀ i, (h : 2 * i + 1 < iv.data.length) → iv.data[2 * i] < iv.data[2 * i + 1]

theorem validate_intervals_total (iv : Arr) : OkOrVE (utilIntervals iv) := by
  unfold utilIntervals
  exact okOrVE_bind (check_total _) (okOrVE_bind (check_total _) (check_total _))

theorem validate_intervals_ok_iff (iv : Arr) : utilIntervals iv = .ok () ↔ ValidIntervals iv := by
  simp only [utilIntervals, bindU_ok_iff, check_ok_iff, notNby2_false_iff]
  have hrows : ((rows2 iv.data).any fun r => decide (r.2 ≤ r.1)) = false ↔
      ∀ i, (h : 2 * i + 1 < iv.data.length) → iv.data[2 * i] < iv.data[2 * i + 1] := by
    rw [← rows2_forall_iff (fun a b => a < b)]
    simp
  rw [hrows]
  constructor
  · rintro ⟨h1, h2, h3⟩
    exact ⟨h1, by simpa using h2, h3⟩
  · rintro ⟨h1, h2, h3⟩
    exact ⟨h1, by simpa using h2, h3⟩

theorem validate_intervals_accepts {iv : Arr} (h : ValidIntervals iv) : utilIntervals iv = .ok () :=
  (validate_intervals_ok_iff iv).2 h

theorem validate_intervals_rejects {iv : Arr} (h : ¬ ValidIntervals iv) :
    utilIntervals iv = .error .valueError :=
  rejects_of_iff (validate_intervals_total iv) (validate_intervals_ok_iff iv) h

/-- fault: a negative time -/
theorem validate_intervals_rejects_negative {iv : Arr} {x : Rat} (hx : x ∈ iv.data) (h : x < 0) :
    utilIntervals iv = .error .valueError :=
  validate_intervals_rejects fun hv => absurd (hv.nonneg x hx) (not_le.2 h)

/-- fault: an interval whose end is not after its start -/
theorem validate_intervals_rejects_nonpositive_duration {iv : Arr} {i : Nat} (hi : 2 * i + 1 < iv.data.length)
    (h : iv.data[2 * i + 1] ≤ iv.data[2 * i]) : utilIntervals iv = .error .valueError :=
  validate_intervals_rejects fun hv => absurd (hv.positive i hi) (not_lt.2 h)

/-- fault: not n-by-2 (wrong number of axes, or n-by-3, …) -/
theorem validate_intervals_rejects_not_n_by_2 {iv : Arr} (h : ∀ n, iv.shape ≠ [n, 2]) :
    utilIntervals iv = .error .valueError :=
  validate_intervals_rejects fun hv => by obtain ⟨n, hn⟩ := hv.nBy2; exact h n hn

example : ValidIntervals ⟨[2, 2], [0, 1, 1, 5 / 2]⟩ :=
  (validate_intervals_ok_iff _).1 (by decide +kernel)
example : ValidIntervals ⟨[0, 2], []⟩ := ⟨⟨0, rfl⟩, by simp, by intro i hi; simp at hi⟩
example : utilIntervals ⟨[1, 2], [1, 1]⟩ = .error .valueError := by decide +kernel
example : utilIntervals ⟨[1, 3], [0, 1, 2]⟩ = .error .valueError := by decide +kernel

/-! ## util.validate_frequencies -/

/-- what the code enforces: 1-d, every magnitude within [min_freq, max_freq] -/
structure ValidFrequencies (f : Arr) (maxFreq minFreq : Rat) : Prop where
  oneDim : f.shape.length = 1
  inRange : ∀ x ∈ f.data, minFreq ≤ |x| ∧ |x| ≤ maxFreq

theorem validate_frequencies_total (f : Arr) (mx mn : Rat) (neg : Bool) :
    OkOrVE (utilFrequencies f mx mn neg) := by
  unfold utilFrequencies
  exact okOrVE_bind (check_total _) (okOrVE_bind (check_total _) (check_total _))

/-- the `allow_negatives` flag has no effect whatsoever -/
theorem validate_frequencies_flag_irrelevant (f : Arr) (mx mn : Rat) (neg : Bool) :
    utilFrequencies f mx mn neg = utilFrequencies f mx mn true := by
  cases neg
  · simp [utilFrequencies, List.any_map, Function.comp_def, rabs_rabs]
  · rfl

theorem validate_frequencies_ok_iff (f : Arr) (mx mn : Rat) (neg : Bool) :
    utilFrequencies f mx mn neg = .ok () ↔ ValidFrequencies f mx mn := by
  rw [validate_frequencies_flag_irrelevant]
  simp only [utilFrequencies, bindU_ok_iff, check_ok_iff, Arr.ndim, if_true, List.any_map,
    Function.comp_def, rabs_eq_abs]
  constructor
  · rintro ⟨h1, h2, h3⟩
    refine ⟨by simpa using h3, fun x hx => ⟨?_, ?_⟩⟩
    · have := List.any_eq_false.1 h2 x hx; simpa using this
    · have := List.any_eq_false.1 h1 x hx; simpa using this
  · rintro ⟨h1, h2⟩
    refine ⟨?_, ?_, by simpa using h1⟩
    · apply List.any_eq_false.2; intro x hx; simpa using (h2 x hx).2
    · apply List.any_eq_false.2; intro x hx; simpa using (h2 x hx).1

theorem validate_frequencies_accepts {f : Arr} {mx mn : Rat} {neg : Bool} (h : ValidFrequencies f mx mn) :
    utilFrequencies f mx mn neg = .ok () :=
  (validate_frequencies_ok_iff f mx mn neg).2 h

/-- the documented convention proper (1-d, every value itself within [min_freq, max_freq]) is accepted -/
theorem validate_frequencies_accepts_documented {f : Arr} {mx mn : Rat} {neg : Bool} (hmn : 0 ≤ mn)
    (h1 : f.shape.length = 1) (h2 : ∀ x ∈ f.data, mn ≤ x ∧ x ≤ mx) : utilFrequencies f mx mn neg = .ok () :=
  validate_frequencies_accepts ⟨h1, fun x hx => by
    have := h2 x hx
    rw [abs_of_nonneg (le_trans hmn this.1)]
    exact this⟩

theorem validate_frequencies_rejects {f : Arr} {mx mn : Rat} {neg : Bool} (h : ¬ ValidFrequencies f mx mn) :
    utilFrequencies f mx mn neg = .error .valueError :=
  rejects_of_iff (validate_frequencies_total f mx mn neg) (validate_frequencies_ok_iff f mx mn neg) h

/-- fault: a frequency above `max_freq` (in magnitude) -/
theorem validate_frequencies_rejects_too_high {f : Arr} {mx mn x : Rat} {neg : Bool} (hx : x ∈ f.data)
    (h : mx < |x|) : utilFrequencies f mx mn neg = .error .valueError :=
  validate_frequencies_rejects fun hv => absurd (hv.inRange x hx).2 (not_le.2 h)

/-- fault: a frequency below `min_freq` (in magnitude; includes 0) -/
theorem validate_frequencies_rejects_too_low {f : Arr} {mx mn x : Rat} {neg : Bool} (hx : x ∈ f.data)
    (h : |x| < mn) : utilFrequencies f mx mn neg = .error .valueError :=
  validate_frequencies_rejects fun hv => absurd (hv.inRange x hx).1 (not_le.2 h)

/-- fault: not one-dimensional -/
theorem validate_frequencies_rejects_multidim {f : Arr} {mx mn : Rat} {neg : Bool} (h : f.shape.length ≠ 1) :
    utilFrequencies f mx mn neg = .error .valueError :=
  validate_frequencies_rejects fun hv => h hv.oneDim

/-- FINDING.  Documented: with `allow_negatives=False` a negative frequency is rejected. -/
def validate_frequencies_rejects_negative_full_statement : Prop :=
  ∀ (f : Arr) (mx mn x : Rat), x ∈ f.data → x < 0 → utilFrequencies f mx mn false = .error .valueError

/-- …which is false of the code: -440 Hz passes `validate_frequencies(·, 5000, 20, allow_negatives=False)` -/
theorem validate_frequencies_rejects_negative_full_statement_false :
    ¬ validate_frequencies_rejects_negative_full_statement := by
  intro h
  have := h (Arr.vec [-440]) 5000 20 (-440) (by simp [Arr.vec]) (by decide +kernel)
  revert this
  decide +kernel

/-- the strongest true version: a negative frequency is rejected exactly when its magnitude is out of range
    (or the array is not 1-d) -/
theorem validate_frequencies_rejects_negative_partial {f : Arr} {mx mn x : Rat} (hx : x ∈ f.data) (hneg : x < 0)
    (h : -x < mn ∨ mx < -x) : utilFrequencies f mx mn false = .error .valueError := by
  have habs : |x| = -x := abs_of_neg hneg
  rcases h with h | h
  · exact validate_frequencies_rejects_too_low hx (by rw [habs]; exact h)
  · exact validate_frequencies_rejects_too_high hx (by rw [habs]; exact h)

example : ValidFrequencies (Arr.vec [20, 440, 5000]) 5000 20 :=
  ⟨rfl, by
    intro x hx
    simp only [Arr.vec, List.mem_cons, List.not_mem_nil, or_false] at hx
    rcases hx with rfl | rfl | rfl <;> constructor <;> norm_num [abs_of_nonneg]⟩
example : utilFrequencies (Arr.vec [0]) 5000 20 false = .error .valueError := by decide +kernel

/-! ## beat.validate, onset.validate -/

theorem beat_validate_total (r e : Arr) : OkOrVE (beatValidate r e) :=
  okOrVE_bind (validate_events_total _ _) (validate_events_total _ _)

theorem beat_validate_ok_iff (r e : Arr) :
    beatValidate r e = .ok () ↔ ValidEvents r 30000 ∧ ValidEvents e 30000 := by
  simp only [beatValidate, bindU_ok_iff, validate_events_ok_iff, Validate.maxTime]

theorem beat_validate_accepts {r e : Arr} (hr : ValidEvents r 30000) (he : ValidEvents e 30000) :
    beatValidate r e = .ok () :=
  (beat_validate_ok_iff r e).2 ⟨hr, he⟩

/-- any documented fault (unsorted, multi-dimensional, too large) on either side -/
theorem beat_validate_rejects {r e : Arr} (h : ¬ ValidEvents r 30000 ∨ ¬ ValidEvents e 30000) :
    beatValidate r e = .error .valueError :=
  rejects_of_iff (beat_validate_total r e) (beat_validate_ok_iff r e) (by tauto)

theorem onset_validate_total (r e : Arr) : OkOrVE (onsetValidate r e) :=
  okOrVE_bind (validate_events_total _ _) (validate_events_total _ _)

theorem onset_validate_ok_iff (r e : Arr) :
    onsetValidate r e = .ok () ↔ ValidEvents r 30000 ∧ ValidEvents e 30000 := by
  simp only [onsetValidate, bindU_ok_iff, validate_events_ok_iff, Validate.maxTime]

theorem onset_validate_accepts {r e : Arr} (hr : ValidEvents r 30000) (he : ValidEvents e 30000) :
    onsetValidate r e = .ok () :=
  (onset_validate_ok_iff r e).2 ⟨hr, he⟩

theorem onset_validate_rejects {r e : Arr} (h : ¬ ValidEvents r 30000 ∨ ¬ ValidEvents e 30000) :
    onsetValidate r e = .error .valueError :=
  rejects_of_iff (onset_validate_total r e) (onset_validate_ok_iff r e) (by tauto)

/-- empty sides are valid (they only warn) -/
example : beatValidate (Arr.vec []) (Arr.vec [1, 2]) = .ok () := by decide +kernel
example : onsetValidate (Arr.vec [3]) (Arr.vec []) = .ok () := by decide +kernel
example : beatValidate (Arr.vec [2, 1]) (Arr.vec [1, 2]) = .error .valueError := by decide +kernel

/-! ## tempo -/

/-- documented: exactly two non-negative tempi; a reference has at least one tempo greater than zero -/
structure ValidTempi (t : Arr) (reference : Bool) : Prop where
  two : t.data.length = 2
  nonneg : ∀ x ∈ t.data, 0 ≤ x
  someNonzero : reference = true → ∃ x ∈ t.data, x ≠ 0

theorem validate_tempi_total (t : Arr) (ref : Bool) : OkOrVE (tempoTempi t ref) := by
  unfold tempoTempi
  exact okOrVE_bind (check_total _) (okOrVE_bind (check_total _) (check_total _))

theorem validate_tempi_ok_iff (t : Arr) (ref : Bool) : tempoTempi t ref = .ok () ↔ ValidTempi t ref := by
  simp only [tempoTempi, bindU_ok_iff, check_ok_iff, Arr.size]
  constructor
  · rintro ⟨h1, h2, h3⟩
    refine ⟨by simpa using h1, by simpa using h2, ?_⟩
    intro hr
    subst hr
    simpa using h3
  · rintro ⟨h1, h2, h3⟩
    refine ⟨by simpa using h1, by simpa using h2, ?_⟩
    cases ref
    · rfl
    · simpa using h3 rfl

theorem validate_tempi_accepts {t : Arr} {ref : Bool} (h : ValidTempi t ref) : tempoTempi t ref = .ok () :=
  (validate_tempi_ok_iff t ref).2 h

theorem validate_tempi_rejects {t : Arr} {ref : Bool} (h : ¬ ValidTempi t ref) :
    tempoTempi t ref = .error .valueError :=
  rejects_of_iff (validate_tempi_total t ref) (validate_tempi_ok_iff t ref) h

/-- fault: a tempo array that does not hold exactly two values -/
theorem validate_tempi_rejects_wrong_size {t : Arr} {ref : Bool} (h : t.data.length ≠ 2) :
    tempoTempi t ref = .error .valueError :=
  validate_tempi_rejects fun hv => h hv.two

/-- fault: a negative tempo -/
theorem validate_tempi_rejects_negative {t : Arr} {ref : Bool} {x : Rat} (hx : x ∈ t.data) (h : x < 0) :
    tempoTempi t ref = .error .valueError :=
  validate_tempi_rejects fun hv => absurd (hv.nonneg x hx) (not_le.2 h)

/-- fault: an all-zero reference -/
theorem validate_tempi_rejects_all_zero_reference {t : Arr} (h : ∀ x ∈ t.data, x = 0) :
    tempoTempi t true = .error .valueError :=
  validate_tempi_rejects fun hv => by
    obtain ⟨x, hx, hne⟩ := hv.someNonzero rfl
    exact hne (h x hx)

/-- documented for `tempo.validate`: both tempo arrays valid, the reference weight in [0, 1] -/
structure ValidTempo (rt : Arr) (w : Rat) (et : Arr) : Prop where
  ref : ValidTempi rt true
  est : ValidTempi et false
  weight : 0 ≤ w ∧ w ≤ 1

theorem tempo_validate_total (rt : Arr) (w : Rat) (et : Arr) : OkOrVE (tempoValidate rt w et) := by
  unfold tempoValidate
  exact okOrVE_bind (validate_tempi_total _ _) (okOrVE_bind (validate_tempi_total _ _) (check_total _))

theorem tempo_validate_ok_iff (rt : Arr) (w : Rat) (et : Arr) :
    tempoValidate rt w et = .ok () ↔ ValidTempo rt w et := by
  simp only [tempoValidate, bindU_ok_iff, check_ok_iff, validate_tempi_ok_iff, unit_interval_check]
  exact ⟨fun ⟨a, b, c⟩ => ⟨a, b, c⟩, fun ⟨a, b, c⟩ => ⟨a, b, c⟩⟩

theorem tempo_validate_accepts {rt et : Arr} {w : Rat} (h : ValidTempo rt w et) : tempoValidate rt w et = .ok () :=
  (tempo_validate_ok_iff rt w et).2 h

theorem tempo_validate_rejects {rt et : Arr} {w : Rat} (h : ¬ ValidTempo rt w et) :
    tempoValidate rt w et = .error .valueError :=
  rejects_of_iff (tempo_validate_total rt w et) (tempo_validate_ok_iff rt w et) h

/-- fault: reference weight outside [0, 1] -/
theorem tempo_validate_rejects_weight {rt et : Arr} {w : Rat} (h : w < 0 ∨ 1 < w) :
    tempoValidate rt w et = .error .valueError :=
  tempo_validate_rejects fun hv => by rcases h with h | h <;> linarith [hv.weight.1, hv.weight.2]

/-- fault: a malformed tempo array on either side -/
theorem tempo_validate_rejects_tempi {rt et : Arr} {w : Rat} (h : ¬ ValidTempi rt true ∨ ¬ ValidTempi et false) :
    tempoValidate rt w et = .error .valueError :=
  tempo_validate_rejects fun hv => by rcases h with h | h; exact h hv.ref; exact h hv.est

theorem tempo_detection_total (rt : Arr) (w : Rat) (et : Arr) (tol : Rat) : OkOrVE (tempoDetection rt w et tol) :=
  okOrVE_bind (tempo_validate_total _ _ _) (check_total _)

/-- `tempo.detection` starts computing iff the annotation is valid and `tol` is in [0, 1] -/
theorem tempo_detection_ok_iff (rt : Arr) (w : Rat) (et : Arr) (tol : Rat) :
    tempoDetection rt w et tol = .ok () ↔ ValidTempo rt w et ∧ 0 ≤ tol ∧ tol ≤ 1 := by
  simp only [tempoDetection, bindU_ok_iff, check_ok_iff, tempo_validate_ok_iff, unit_interval_check]

/-- fault: tolerance outside [0, 1] -/
theorem tempo_detection_rejects_tolerance {rt et : Arr} {w tol : Rat} (h : tol < 0 ∨ 1 < tol) :
    tempoDetection rt w et tol = .error .valueError :=
  rejects_of_iff (tempo_detection_total rt w et tol) (tempo_detection_ok_iff rt w et tol) (by
    rintro ⟨_, h0, h1⟩; rcases h with h | h <;> linarith)

example : ValidTempo (Arr.vec [60, 0]) 1 (Arr.vec [0, 0]) :=
  (tempo_validate_ok_iff _ _ _).1 (by decide +kernel)
example : tempoDetection (Arr.vec [60, 120]) (1 / 2) (Arr.vec [60, 120]) 0 = .ok () := by decide +kernel
example : tempoTempi (Arr.vec [0, 0]) true = .error .valueError := by decide +kernel
example : tempoDetection (Arr.vec [60, 120]) (1 / 2) (Arr.vec [60, 120]) (101 / 100) = .error .valueError := by
  decide +kernel

/-! ## key -/

/-- documented: `'X'` (any case), or `'(key) (mode)'` with a known tonic other than X and a mode among
    major / minor / other -/
def ValidKey (s : List Char) : Prop :=
  pyLower s = ['x'] ∨
  ∃ k m, pySplit s = [k, m] ∧ pyLower k ∈ keyTable ∧ pyLower k ≠ ['x'] ∧ m ∈ modeTable

theorem validate_key_total (s : List Char) : OkOrVE (keyValidateKey s) := by
  unfold keyValidateKey
  refine okOrVE_bind (check_total _) ?_
  split
  · split
    · exact okOrVE_bind (check_total _) (okOrVE_bind (check_total _) (check_total _))
    · exact okOrVE_ve
  · exact okOrVE_pure

theorem validate_key_ok_iff (s : List Char) : keyValidateKey s = .ok () ↔ ValidKey s := by
  unfold keyValidateKey ValidKey
  by_cases hx : pyLower s = ['x']
  · have hs := pySplit_of_lower_x hx
    simp [hx, hs, check_ok_iff]
  · simp only [bindU_ok_iff, check_ok_iff, hx, false_or]
    rcases hsp : pySplit s with _ | ⟨a, _ | ⟨b, _ | ⟨c, t⟩⟩⟩
    · simp
    · simp [hx]
    · simp [hx, bindU_ok_iff, check_ok_iff]
      tauto
    · simp [hx]

theorem validate_key_accepts {s : List Char} (h : ValidKey s) : keyValidateKey s = .ok () :=
  (validate_key_ok_iff s).2 h

theorem validate_key_rejects {s : List Char} (h : ¬ ValidKey s) : keyValidateKey s = .error .valueError :=
  rejects_of_iff (validate_key_total s) (validate_key_ok_iff s) h

/-- the documented form, generatively: optional blanks, a tonic of the table (any letter case, not X), at
    least one blank, a mode, optional blanks -/
theorem validate_key_accepts_key_mode {ws0 k ws1 m ws2 : List Char}
    (h0 : ∀ c ∈ ws0, isPySpace c = true) (hk : pyLower k ∈ keyTable) (hkx : pyLower k ≠ ['x'])
    (hkb : ∀ c ∈ k, isPySpace c = false)
    (h1 : ws1 ≠ []) (h1' : ∀ c ∈ ws1, isPySpace c = true) (hm : m ∈ modeTable)
    (h2 : ∀ c ∈ ws2, isPySpace c = true) :
    keyValidateKey (ws0 ++ (k ++ (ws1 ++ (m ++ ws2)))) = .ok () := by
  have hkne : k ≠ [] := by
    rintro rfl
    revert hk
    decide
  obtain ⟨hmne, hmb⟩ := mode_no_blank hm
  exact validate_key_accepts (Or.inr ⟨k, m, pySplit_two_words h0 hkne hkb h1 h1' hmne hmb h2, hk, hkx, hm⟩)

/-- `'X'` / `'x'` alone is accepted -/
theorem validate_key_accepts_x {s : List Char} (h : pyLower s = ['x']) : keyValidateKey s = .ok () :=
  validate_key_accepts (Or.inl h)

/-- fault: not of the form `(key) (mode)` (one word, three words, empty, …) and not `X` -/
theorem validate_key_rejects_wrong_form {s : List Char} (hx : pyLower s ≠ ['x']) (h : (pySplit s).length ≠ 2) :
    keyValidateKey s = .error .valueError :=
  validate_key_rejects fun hv => by
    rcases hv with hv | ⟨k, m, hs, _⟩
    · exact hx hv
    · rw [hs] at h; exact h rfl

/-- fault: unknown tonic -/
theorem validate_key_rejects_unknown_tonic {s k m : List Char} (hs : pySplit s = [k, m])
    (h : pyLower k ∉ keyTable) : keyValidateKey s = .error .valueError :=
  validate_key_rejects fun hv => by
    rcases hv with hv | ⟨k', m', hs', hk, _⟩
    · rw [pySplit_of_lower_x hv] at hs; simp at hs
    · rw [hs] at hs'; simp only [List.cons.injEq, and_true] at hs'; rw [hs'.1] at h; exact h hk

/-- fault: unknown mode (the mode is case-sensitive) -/
theorem validate_key_rejects_unknown_mode {s k m : List Char} (hs : pySplit s = [k, m])
    (h : m ∉ modeTable) : keyValidateKey s = .error .valueError :=
  validate_key_rejects fun hv => by
    rcases hv with hv | ⟨k', m', hs', _, _, hm⟩
    · rw [pySplit_of_lower_x hv] at hs; simp at hs
    · rw [hs] at hs'; simp only [List.cons.injEq, and_true] at hs'; rw [hs'.2] at h; exact h hm

/-- fault: `X` with a mode -/
theorem validate_key_rejects_x_with_mode {s k m : List Char} (hs : pySplit s = [k, m])
    (h : pyLower k = ['x']) : keyValidateKey s = .error .valueError :=
  validate_key_rejects fun hv => by
    rcases hv with hv | ⟨k', m', hs', _, hkx, _⟩
    · rw [pySplit_of_lower_x hv] at hs; simp at hs
    · rw [hs] at hs'; simp only [List.cons.injEq, and_true] at hs'; rw [hs'.1] at h; exact hkx h

theorem key_validate_total (r e : List Char) : OkOrVE (keyValidate r e) :=
  okOrVE_bind (validate_key_total r) (validate_key_total e)

theorem key_validate_ok_iff (r e : List Char) : keyValidate r e = .ok () ↔ ValidKey r ∧ ValidKey e := by
  simp only [keyValidate, bindU_ok_iff, validate_key_ok_iff]

theorem key_validate_accepts {r e : List Char} (hr : ValidKey r) (he : ValidKey e) : keyValidate r e = .ok () :=
  (key_validate_ok_iff r e).2 ⟨hr, he⟩

theorem key_validate_rejects {r e : List Char} (h : ¬ ValidKey r ∨ ¬ ValidKey e) :
    keyValidate r e = .error .valueError :=
  rejects_of_iff (key_validate_total r e) (key_validate_ok_iff r e) (by tauto)

example : keyValidateKey " C#\tminor\n".toList = .ok () := by decide +kernel
example : keyValidateKey "X".toList = .ok () := by decide +kernel
example : ValidKey "eb other".toList := (validate_key_ok_iff _).1 (by decide +kernel)
example : keyValidateKey "C Major".toList = .error .valueError := by decide +kernel
example : keyValidateKey "x major".toList = .error .valueError := by decide +kernel
example : keyValidateKey " x".toList = .error .valueError := by decide +kernel
example : keyValidateKey "H minor".toList = .error .valueError := by decide +kernel

/-! ## alignment -/

/-- documented: two 1-d arrays of the same, non-zero, length, each in increasing order and non-negative -/
structure ValidAlignment (r e : Arr) : Prop where
  refOneDim : r.shape.length = 1
  estOneDim : e.shape.length = 1
  nonEmpty : r.data ≠ []
  sameLength : e.data.length = r.data.length
  refIncreasing : r.data.Pairwise (· ≤ ·)
  estIncreasing : e.data.Pairwise (· ≤ ·)
  refNonneg : ∀ x ∈ r.data, 0 ≤ x
  estNonneg : ∀ x ∈ e.data, 0 ≤ x

theorem alignment_validate_total (r e : Arr) : OkOrVE (alignmentValidate r e) := by
  unfold alignmentValidate
  exact okOrVE_bind (check_total _) <| okOrVE_bind (check_total _) <| okOrVE_bind (check_total _) <|
    okOrVE_bind (check_total _) <| okOrVE_bind (check_total _) <| okOrVE_bind (check_total _) <|
    okOrVE_bind (check_total _) (check_total _)

theorem alignment_validate_ok_iff (r e : Arr) : alignmentValidate r e = .ok () ↔ ValidAlignment r e := by
  simp only [alignmentValidate, bindU_ok_iff, check_ok_iff, Arr.ndim, Arr.size, Bool.not_eq_false',
    diffs_all_nonneg_iff]
  constructor
  · rintro ⟨h1, h2, h3, h4, h5, h6, h7, h8⟩
    exact ⟨by simpa using h1, by simpa using h2, by simpa using h3, by simpa using h4, h5, h6,
      by simpa using h7, by simpa using h8⟩
  · rintro ⟨h1, h2, h3, h4, h5, h6, h7, h8⟩
    exact ⟨by simpa using h1, by simpa using h2, by simpa using h3, by simpa using h4, h5, h6,
      by simpa using h7, by simpa using h8⟩

theorem alignment_validate_accepts {r e : Arr} (h : ValidAlignment r e) : alignmentValidate r e = .ok () :=
  (alignment_validate_ok_iff r e).2 h

theorem alignment_validate_rejects {r e : Arr} (h : ¬ ValidAlignment r e) :
    alignmentValidate r e = .error .valueError :=
  rejects_of_iff (alignment_validate_total r e) (alignment_validate_ok_iff r e) h

/-- fault: timestamps of unequal length -/
theorem alignment_validate_rejects_unequal_length {r e : Arr} (h : e.data.length ≠ r.data.length) :
    alignmentValidate r e = .error .valueError :=
  alignment_validate_rejects fun hv => h hv.sameLength

/-- fault: empty reference -/
theorem alignment_validate_rejects_empty {r e : Arr} (h : r.data = []) :
    alignmentValidate r e = .error .valueError :=
  alignment_validate_rejects fun hv => hv.nonEmpty h

/-- fault: multi-dimensional timestamps -/
theorem alignment_validate_rejects_multidim {r e : Arr} (h : r.shape.length ≠ 1 ∨ e.shape.length ≠ 1) :
    alignmentValidate r e = .error .valueError :=
  alignment_validate_rejects fun hv => by rcases h with h | h; exact h hv.refOneDim; exact h hv.estOneDim

/-- fault: timestamps out of order -/
theorem alignment_validate_rejects_unsorted {r e : Arr}
    (h : ¬ r.data.Pairwise (· ≤ ·) ∨ ¬ e.data.Pairwise (· ≤ ·)) :
    alignmentValidate r e = .error .valueError :=
  alignment_validate_rejects fun hv => by rcases h with h | h; exact h hv.refIncreasing; exact h hv.estIncreasing

/-- fault: a negative timestamp -/
theorem alignment_validate_rejects_negative {r e : Arr} {x : Rat} (hx : x ∈ r.data ∨ x ∈ e.data) (h : x < 0) :
    alignmentValidate r e = .error .valueError :=
  alignment_validate_rejects fun hv => by
    rcases hx with hx | hx
    · exact absurd (hv.refNonneg x hx) (not_le.2 h)
    · exact absurd (hv.estNonneg x hx) (not_le.2 h)

example : ValidAlignment (Arr.vec [0, 1, 1]) (Arr.vec [1 / 2, 1, 3]) :=
  (alignment_validate_ok_iff _ _).1 (by decide +kernel)
example : alignmentValidate (Arr.vec []) (Arr.vec []) = .error .valueError := by decide +kernel
example : alignmentValidate (Arr.vec [1, 0]) (Arr.vec [0, 1]) = .error .valueError := by decide +kernel

/-! ## multipitch -/

/-- documented: valid time bases, one frequency array per time stamp, every frequency array 1-d and within
    [20, 5000] Hz (in magnitude, see the `validate_frequencies` finding) -/
structure ValidMultipitch (rt : Arr) (rf : List Arr) (et : Arr) (ef : List Arr) : Prop where
  refTimes : ValidEvents rt 30000
  estTimes : ValidEvents et 30000
  refLength : rt.data.length = rf.length
  estLength : et.data.length = ef.length
  refFreqs : ∀ f ∈ rf, ValidFrequencies f 5000 20
  estFreqs : ∀ f ∈ ef, ValidFrequencies f 5000 20

theorem multipitch_validate_total (rt : Arr) (rf : List Arr) (et : Arr) (ef : List Arr) :
    OkOrVE (multipitchValidate rt rf et ef) := by
  unfold multipitchValidate
  exact okOrVE_bind (validate_events_total _ _) <| okOrVE_bind (validate_events_total _ _) <|
    okOrVE_bind (check_total _) <| okOrVE_bind (check_total _) <| okOrVE_bind (check_total _) <|
    okOrVE_bind (check_total _) <|
    okOrVE_bind (forEach_total fun f _ => validate_frequencies_total f _ _ _)
      (forEach_total fun f _ => validate_frequencies_total f _ _ _)

theorem multipitch_validate_ok_iff (rt : Arr) (rf : List Arr) (et : Arr) (ef : List Arr) :
    multipitchValidate rt rf et ef = .ok () ↔ ValidMultipitch rt rf et ef := by
  simp only [multipitchValidate, bindU_ok_iff, check_ok_iff, validate_events_ok_iff, forEach_ok_iff,
    validate_frequencies_ok_iff, Arr.ndim, Arr.size, Validate.maxTime, Validate.maxFreq, Validate.minFreq]
  constructor
  · rintro ⟨h1, h2, _, _, h5, h6, h7, h8⟩
    exact ⟨h1, h2, by simpa using h5, by simpa using h6, h7, h8⟩
  · rintro ⟨h1, h2, h3, h4, h5, h6⟩
    exact ⟨h1, h2, by simp [h1.oneDim], by simp [h2.oneDim], by simpa using h3, by simpa using h4, h5, h6⟩

theorem multipitch_validate_accepts {rt et : Arr} {rf ef : List Arr} (h : ValidMultipitch rt rf et ef) :
    multipitchValidate rt rf et ef = .ok () :=
  (multipitch_validate_ok_iff rt rf et ef).2 h

theorem multipitch_validate_rejects {rt et : Arr} {rf ef : List Arr} (h : ¬ ValidMultipitch rt rf et ef) :
    multipitchValidate rt rf et ef = .error .valueError :=
  rejects_of_iff (multipitch_validate_total rt rf et ef) (multipitch_validate_ok_iff rt rf et ef) h

/-- fault: malformed time stamps (unsorted, multi-dimensional, too large) on either side -/
theorem multipitch_validate_rejects_times {rt et : Arr} {rf ef : List Arr}
    (h : ¬ ValidEvents rt 30000 ∨ ¬ ValidEvents et 30000) :
    multipitchValidate rt rf et ef = .error .valueError :=
  multipitch_validate_rejects fun hv => by rcases h with h | h; exact h hv.refTimes; exact h hv.estTimes

/-- fault: time stamps and frequency list of unequal length -/
theorem multipitch_validate_rejects_unequal_length {rt et : Arr} {rf ef : List Arr}
    (h : rt.data.length ≠ rf.length ∨ et.data.length ≠ ef.length) :
    multipitchValidate rt rf et ef = .error .valueError :=
  multipitch_validate_rejects fun hv => by rcases h with h | h; exact h hv.refLength; exact h hv.estLength

/-- fault: a frequency out of range or a frequency array that is not 1-d -/
theorem multipitch_validate_rejects_frequency {rt et : Arr} {rf ef : List Arr} {f : Arr} (hf : f ∈ rf ∨ f ∈ ef)
    (h : ¬ ValidFrequencies f 5000 20) : multipitchValidate rt rf et ef = .error .valueError :=
  multipitch_validate_rejects fun hv => by
    rcases hf with hf | hf
    · exact h (hv.refFreqs f hf)
    · exact h (hv.estFreqs f hf)

example : ValidMultipitch (Arr.vec [0, 1]) [Arr.vec [440], Arr.vec []] (Arr.vec []) [] :=
  (multipitch_validate_ok_iff _ _ _ _).1 (by decide +kernel)
example : multipitchValidate (Arr.vec [0]) [Arr.vec [10]] (Arr.vec []) [] = .error .valueError := by decide +kernel

/-! ## melody -/

/-- two arrays have the same (existing) first axis -/
def SameLength (a b : Arr) : Prop := ∃ n, a.shape.head? = some n ∧ b.shape.head? = some n

/-- documented: voicing arrays of the same length with values in [0, 1] -/
structure ValidVoicing (rv ev : Arr) : Prop where
  sameLength : SameLength rv ev
  refRange : ∀ x ∈ rv.data, 0 ≤ x ∧ x ≤ 1
  estRange : ∀ x ∈ ev.data, 0 ≤ x ∧ x ≤ 1

/-- no exception class other than ValueError — provided neither array is 0-d -/
theorem validate_voicing_total {rv ev : Arr} (hr : rv.shape ≠ []) (he : ev.shape ≠ []) :
    OkOrVE (melodyVoicing rv ev) := by
  unfold melodyVoicing
  refine okOrVE_bind_val (shape0_ok_of_ne hr) fun n => okOrVE_bind_val (shape0_ok_of_ne he) fun m => ?_
  exact okOrVE_bind (check_total _) (okOrVE_bind (check_total _) (check_total _))

/-- …and a 0-d voicing array escapes as IndexError (`shape[0]`) -/
theorem validate_voicing_zero_dim {rv ev : Arr} (hr : rv.shape = []) :
    melodyVoicing rv ev = .error .indexError := by
  simp [melodyVoicing, shape0_nil hr, bind, Except.bind]

theorem validate_voicing_ok_iff (rv ev : Arr) : melodyVoicing rv ev = .ok () ↔ ValidVoicing rv ev := by
  simp only [melodyVoicing, bindN_ok_iff, bindU_ok_iff, check_ok_iff, shape0_ok_iff, voicing_range_check]
  constructor
  · rintro ⟨n, hn, m, hm, hnm, h1, h2⟩
    have : n = m := by simpa using hnm
    subst this
    exact ⟨⟨n, hn, hm⟩, h1, h2⟩
  · rintro ⟨⟨n, hn, hm⟩, h1, h2⟩
    exact ⟨n, hn, n, hm, by simp, h1, h2⟩

theorem validate_voicing_accepts {rv ev : Arr} (h : ValidVoicing rv ev) : melodyVoicing rv ev = .ok () :=
  (validate_voicing_ok_iff rv ev).2 h

theorem validate_voicing_rejects {rv ev : Arr} (hr : rv.shape ≠ []) (he : ev.shape ≠ [])
    (h : ¬ ValidVoicing rv ev) : melodyVoicing rv ev = .error .valueError :=
  rejects_of_iff (validate_voicing_total hr he) (validate_voicing_ok_iff rv ev) h

/-- fault: voicing arrays of unequal length -/
theorem validate_voicing_rejects_unequal_length {rv ev : Arr} {n m : Nat} {s t : List Nat}
    (hr : rv.shape = n :: s) (he : ev.shape = m :: t) (h : n ≠ m) : melodyVoicing rv ev = .error .valueError :=
  validate_voicing_rejects (by simp [hr]) (by simp [he]) fun hv => by
    obtain ⟨k, h1, h2⟩ := hv.sameLength
    rw [hr] at h1; rw [he] at h2
    simp at h1 h2
    omega

/-- fault: a voicing value outside [0, 1] -/
theorem validate_voicing_rejects_out_of_range {rv ev : Arr} (hr : rv.shape ≠ []) (he : ev.shape ≠ []) {x : Rat}
    (hx : x ∈ rv.data ∨ x ∈ ev.data) (h : x < 0 ∨ 1 < x) : melodyVoicing rv ev = .error .valueError :=
  validate_voicing_rejects hr he fun hv => by
    rcases hx with hx | hx
    · have := hv.refRange x hx; rcases h with h | h <;> linarith [this.1, this.2]
    · have := hv.estRange x hx; rcases h with h | h <;> linarith [this.1, this.2]

/-- documented for `melody.validate`: the four arrays have the same length -/
def ValidMelody (rv rc ev ec : Arr) : Prop :=
  ∃ n, rv.shape.head? = some n ∧ rc.shape.head? = some n ∧ ev.shape.head? = some n ∧ ec.shape.head? = some n

theorem melody_validate_total {rv rc ev ec : Arr} (h1 : rv.shape ≠ []) (h2 : rc.shape ≠ []) (h3 : ev.shape ≠ [])
    (h4 : ec.shape ≠ []) : OkOrVE (melodyValidate rv rc ev ec) := by
  unfold melodyValidate
  refine okOrVE_bind_val (shape0_ok_of_ne h1) fun a => okOrVE_bind_val (shape0_ok_of_ne h2) fun b => ?_
  refine okOrVE_bind (check_total _) ?_
  refine okOrVE_bind_val (shape0_ok_of_ne h3) fun c => okOrVE_bind_val (shape0_ok_of_ne h4) fun d => ?_
  exact okOrVE_bind (check_total _) (check_total _)

theorem melody_validate_ok_iff (rv rc ev ec : Arr) :
    melodyValidate rv rc ev ec = .ok () ↔ ValidMelody rv rc ev ec := by
  simp only [melodyValidate, bindN_ok_iff, bindU_ok_iff, check_ok_iff, shape0_ok_iff, ValidMelody]
  constructor
  · rintro ⟨a, ha, b, hb, hab, c, hc, d, hd, hcd, hbd⟩
    have e1 : a = b := by simpa using hab
    have e2 : c = d := by simpa using hcd
    have e3 : b = d := by simpa using hbd
    subst e1 e2 e3
    exact ⟨_, ha, hb, hc, hd⟩
  · rintro ⟨n, ha, hb, hc, hd⟩
    exact ⟨n, ha, n, hb, by simp, n, hc, n, hd, by simp, by simp⟩

theorem melody_validate_accepts {rv rc ev ec : Arr} (h : ValidMelody rv rc ev ec) :
    melodyValidate rv rc ev ec = .ok () :=
  (melody_validate_ok_iff rv rc ev ec).2 h

/-- fault: voicing / frequency arrays of unequal length -/
theorem melody_validate_rejects_unequal_length {rv rc ev ec : Arr} (h1 : rv.shape ≠ []) (h2 : rc.shape ≠ [])
    (h3 : ev.shape ≠ []) (h4 : ec.shape ≠ []) (h : ¬ ValidMelody rv rc ev ec) :
    melodyValidate rv rc ev ec = .error .valueError :=
  rejects_of_iff (melody_validate_total h1 h2 h3 h4) (melody_validate_ok_iff rv rc ev ec) h

example : ValidVoicing (Arr.vec [0, 1, 1 / 2]) (Arr.vec [1, 1, 0]) :=
  (validate_voicing_ok_iff _ _).1 (by decide +kernel)
example : ValidVoicing (Arr.vec []) (Arr.vec []) := (validate_voicing_ok_iff _ _).1 (by decide +kernel)
example : melodyVoicing (Arr.vec [0, 9 / 8]) (Arr.vec [1, 1]) = .error .valueError := by decide +kernel
example : melodyValidate (Arr.vec [1]) (Arr.vec [100]) (Arr.vec [1]) (Arr.vec [100]) = .ok () := by decide +kernel
example : melodyValidate (Arr.vec [1]) (Arr.vec [100, 0]) (Arr.vec [1]) (Arr.vec [100]) = .error .valueError := by
  decide +kernel

/-! ## transcription, transcription_velocity -/

theorem validate_note_intervals_total (ri ei : Arr) : OkOrVE (transcriptionIntervals ri ei) :=
  okOrVE_bind (validate_intervals_total ri) (validate_intervals_total ei)

theorem validate_note_intervals_ok_iff (ri ei : Arr) :
    transcriptionIntervals ri ei = .ok () ↔ ValidIntervals ri ∧ ValidIntervals ei := by
  simp only [transcriptionIntervals, bindU_ok_iff, validate_intervals_ok_iff]

theorem validate_note_intervals_accepts {ri ei : Arr} (hr : ValidIntervals ri) (he : ValidIntervals ei) :
    transcriptionIntervals ri ei = .ok () :=
  (validate_note_intervals_ok_iff ri ei).2 ⟨hr, he⟩

/-- any interval fault (negative, non-positive duration, not n-by-2) on either side -/
theorem validate_note_intervals_rejects {ri ei : Arr} (h : ¬ ValidIntervals ri ∨ ¬ ValidIntervals ei) :
    transcriptionIntervals ri ei = .error .valueError :=
  rejects_of_iff (validate_note_intervals_total ri ei) (validate_note_intervals_ok_iff ri ei) (by tauto)

/-- documented: n-by-2 valid intervals, as many pitches as intervals, every pitch positive -/
structure ValidNotes (iv p : Arr) : Prop where
  intervals : ValidIntervals iv
  sameLength : SameLength iv p
  positive : ∀ x ∈ p.data, 0 < x

theorem shape0_of_validIntervals {iv : Arr} (h : ValidIntervals iv) : ∃ n, iv.shape0 = .ok n := by
  obtain ⟨n, hn⟩ := h.nBy2
  exact shape0_ok_of_ne (by simp [hn])

theorem transcription_validate_total {ri rp ei ep : Arr} (hr : rp.shape ≠ []) (he : ep.shape ≠ []) :
    OkOrVE (transcriptionValidate ri rp ei ep) := by
  unfold transcriptionValidate
  refine okOrVE_bind' (validate_note_intervals_total ri ei) fun hok => ?_
  obtain ⟨hri, hei⟩ := (validate_note_intervals_ok_iff ri ei).1 hok
  refine okOrVE_bind_val (shape0_of_validIntervals hri) fun _ => okOrVE_bind_val (shape0_ok_of_ne hr) fun _ => ?_
  refine okOrVE_bind (check_total _) ?_
  refine okOrVE_bind_val (shape0_of_validIntervals hei) fun _ => okOrVE_bind_val (shape0_ok_of_ne he) fun _ => ?_
  exact okOrVE_bind (check_total _) (okOrVE_bind (minNonPositive_total _) (minNonPositive_total _))

/-- a 0-d pitch array escapes as IndexError once the intervals are valid -/
theorem transcription_validate_zero_dim {ri rp ei ep : Arr} (hri : ValidIntervals ri) (hei : ValidIntervals ei)
    (hr : rp.shape = []) : transcriptionValidate ri rp ei ep = .error .indexError := by
  obtain ⟨n, hn⟩ := shape0_of_validIntervals hri
  simp [transcriptionValidate, (validate_note_intervals_ok_iff ri ei).2 ⟨hri, hei⟩, hn, shape0_nil hr, bind,
    Except.bind]

theorem transcription_validate_ok_iff (ri rp ei ep : Arr) :
    transcriptionValidate ri rp ei ep = .ok () ↔ ValidNotes ri rp ∧ ValidNotes ei ep := by
  simp only [transcriptionValidate, bindN_ok_iff, bindU_ok_iff, check_ok_iff, shape0_ok_iff,
    validate_note_intervals_ok_iff, minNonPositive_ok_iff]
  constructor
  · rintro ⟨⟨h1, h2⟩, n, hn, m, hm, hnm, n', hn', m', hm', hnm', hp, hp'⟩
    have e1 : n = m := by simpa using hnm
    have e2 : n' = m' := by simpa using hnm'
    subst e1 e2
    exact ⟨⟨h1, ⟨n, hn, hm⟩, hp⟩, ⟨h2, ⟨n', hn', hm'⟩, hp'⟩⟩
  · rintro ⟨⟨h1, ⟨n, hn, hm⟩, hp⟩, ⟨h2, ⟨n', hn', hm'⟩, hp'⟩⟩
    exact ⟨⟨h1, h2⟩, n, hn, n, hm, by simp, n', hn', n', hm', by simp, hp, hp'⟩

theorem transcription_validate_accepts {ri rp ei ep : Arr} (hr : ValidNotes ri rp) (he : ValidNotes ei ep) :
    transcriptionValidate ri rp ei ep = .ok () :=
  (transcription_validate_ok_iff ri rp ei ep).2 ⟨hr, he⟩

theorem transcription_validate_rejects {ri rp ei ep : Arr} (hr : rp.shape ≠ []) (he : ep.shape ≠ [])
    (h : ¬ ValidNotes ri rp ∨ ¬ ValidNotes ei ep) : transcriptionValidate ri rp ei ep = .error .valueError :=
  rejects_of_iff (transcription_validate_total hr he) (transcription_validate_ok_iff ri rp ei ep) (by tauto)

/-- fault: a non-positive pitch -/
theorem transcription_validate_rejects_nonpositive_pitch {ri rp ei ep : Arr} (hr : rp.shape ≠ [])
    (he : ep.shape ≠ []) {x : Rat} (hx : x ∈ rp.data ∨ x ∈ ep.data) (h : x ≤ 0) :
    transcriptionValidate ri rp ei ep = .error .valueError :=
  transcription_validate_rejects hr he (by
    rcases hx with hx | hx
    · exact Or.inl fun hv => absurd (hv.positive x hx) (not_lt.2 h)
    · exact Or.inr fun hv => absurd (hv.positive x hx) (not_lt.2 h))

/-- fault: intervals and pitches of unequal length -/
theorem transcription_validate_rejects_unequal_length {ri rp ei ep : Arr} (hr : rp.shape ≠ [])
    (he : ep.shape ≠ []) (h : ¬ SameLength ri rp ∨ ¬ SameLength ei ep) :
    transcriptionValidate ri rp ei ep = .error .valueError :=
  transcription_validate_rejects hr he (by
    rcases h with h | h
    · exact Or.inl fun hv => h hv.sameLength
    · exact Or.inr fun hv => h hv.sameLength)

/-- fault: malformed intervals on either side -/
theorem transcription_validate_rejects_intervals {ri rp ei ep : Arr} (hr : rp.shape ≠ []) (he : ep.shape ≠ [])
    (h : ¬ ValidIntervals ri ∨ ¬ ValidIntervals ei) : transcriptionValidate ri rp ei ep = .error .valueError :=
  transcription_validate_rejects hr he (by
    rcases h with h | h
    · exact Or.inl fun hv => h hv.intervals
    · exact Or.inr fun hv => h hv.intervals)

/-- documented for velocities: valid notes, as many velocities as pitches, none negative -/
structure ValidVelocityNotes (iv p v : Arr) : Prop where
  notes : ValidNotes iv p
  sameLength : SameLength v p
  nonneg : ∀ x ∈ v.data, 0 ≤ x

theorem velocity_validate_total {ri rp rv ei ep ev : Arr} (h1 : rp.shape ≠ []) (h2 : ep.shape ≠ [])
    (h3 : rv.shape ≠ []) (h4 : ev.shape ≠ []) : OkOrVE (velocityValidate ri rp rv ei ep ev) := by
  unfold velocityValidate
  refine okOrVE_bind (transcription_validate_total h1 h2) ?_
  refine okOrVE_bind_val (shape0_ok_of_ne h3) fun _ => okOrVE_bind_val (shape0_ok_of_ne h1) fun _ => ?_
  refine okOrVE_bind (check_total _) ?_
  refine okOrVE_bind_val (shape0_ok_of_ne h4) fun _ => okOrVE_bind_val (shape0_ok_of_ne h2) fun _ => ?_
  exact okOrVE_bind (check_total _) (okOrVE_bind (minNegative_total _) (minNegative_total _))

theorem velocity_validate_ok_iff (ri rp rv ei ep ev : Arr) :
    velocityValidate ri rp rv ei ep ev = .ok () ↔ ValidVelocityNotes ri rp rv ∧ ValidVelocityNotes ei ep ev := by
  simp only [velocityValidate, bindN_ok_iff, bindU_ok_iff, check_ok_iff, shape0_ok_iff,
    transcription_validate_ok_iff, minNegative_ok_iff]
  constructor
  · rintro ⟨⟨h1, h2⟩, n, hn, m, hm, hnm, n', hn', m', hm', hnm', hp, hp'⟩
    have e1 : n = m := by simpa using hnm
    have e2 : n' = m' := by simpa using hnm'
    subst e1 e2
    exact ⟨⟨h1, ⟨n, hn, hm⟩, hp⟩, ⟨h2, ⟨n', hn', hm'⟩, hp'⟩⟩
  · rintro ⟨⟨h1, ⟨n, hn, hm⟩, hp⟩, ⟨h2, ⟨n', hn', hm'⟩, hp'⟩⟩
    exact ⟨⟨h1, h2⟩, n, hn, n, hm, by simp, n', hn', n', hm', by simp, hp, hp'⟩

theorem velocity_validate_accepts {ri rp rv ei ep ev : Arr} (hr : ValidVelocityNotes ri rp rv)
    (he : ValidVelocityNotes ei ep ev) : velocityValidate ri rp rv ei ep ev = .ok () :=
  (velocity_validate_ok_iff ri rp rv ei ep ev).2 ⟨hr, he⟩

theorem velocity_validate_rejects {ri rp rv ei ep ev : Arr} (h1 : rp.shape ≠ []) (h2 : ep.shape ≠ [])
    (h3 : rv.shape ≠ []) (h4 : ev.shape ≠ [])
    (h : ¬ ValidVelocityNotes ri rp rv ∨ ¬ ValidVelocityNotes ei ep ev) :
    velocityValidate ri rp rv ei ep ev = .error .valueError :=
  rejects_of_iff (velocity_validate_total h1 h2 h3 h4) (velocity_validate_ok_iff ri rp rv ei ep ev) (by tauto)

/-- fault: a negative velocity -/
theorem velocity_validate_rejects_negative_velocity {ri rp rv ei ep ev : Arr} (h1 : rp.shape ≠ [])
    (h2 : ep.shape ≠ []) (h3 : rv.shape ≠ []) (h4 : ev.shape ≠ []) {x : Rat} (hx : x ∈ rv.data ∨ x ∈ ev.data)
    (h : x < 0) : velocityValidate ri rp rv ei ep ev = .error .valueError :=
  velocity_validate_rejects h1 h2 h3 h4 (by
    rcases hx with hx | hx
    · exact Or.inl fun hv => absurd (hv.nonneg x hx) (not_le.2 h)
    · exact Or.inr fun hv => absurd (hv.nonneg x hx) (not_le.2 h))

/-- fault: velocities and pitches of unequal length -/
theorem velocity_validate_rejects_unequal_length {ri rp rv ei ep ev : Arr} (h1 : rp.shape ≠ [])
    (h2 : ep.shape ≠ []) (h3 : rv.shape ≠ []) (h4 : ev.shape ≠ [])
    (h : ¬ SameLength rv rp ∨ ¬ SameLength ev ep) : velocityValidate ri rp rv ei ep ev = .error .valueError :=
  velocity_validate_rejects h1 h2 h3 h4 (by
    rcases h with h | h
    · exact Or.inl fun hv => h hv.sameLength
    · exact Or.inr fun hv => h hv.sameLength)

example : ValidNotes ⟨[2, 2], [0, 1, 1 / 2, 2]⟩ (Arr.vec [440, 220]) ∧ ValidNotes ⟨[0, 2], []⟩ (Arr.vec []) :=
  (transcription_validate_ok_iff _ _ _ _).1 (by decide +kernel)
example : transcriptionValidate ⟨[1, 2], [0, 1]⟩ (Arr.vec [0]) ⟨[0, 2], []⟩ (Arr.vec []) = .error .valueError := by
  decide +kernel
example : velocityValidate ⟨[1, 2], [0, 1]⟩ (Arr.vec [440]) (Arr.vec [0]) ⟨[1, 2], [0, 1]⟩ (Arr.vec [440])
    (Arr.vec [127]) = .ok () := by decide +kernel
example : velocityValidate ⟨[1, 2], [0, 1]⟩ (Arr.vec [440]) (Arr.vec [-1]) ⟨[1, 2], [0, 1]⟩ (Arr.vec [440])
    (Arr.vec [127]) = .error .valueError := by decide +kernel

/-! ## pattern -/

/-- documented: every pattern has at least one occurrence; every (onset, midi) tuple has exactly 2 elements -/
def ValidPatterns (ps : Patterns) : Prop :=
  ∀ pat ∈ ps, pat ≠ [] ∧ ∀ occ ∈ pat, ∀ om ∈ occ, om.length = 2

theorem patternSide_total (ps : Patterns) : OkOrVE (patternSide ps) := by
  unfold patternSide
  refine forEach_total fun pat _ => okOrVE_bind (check_total _) ?_
  exact forEach_total fun occ _ => forEach_total fun om _ => check_total _

theorem patternSide_ok_iff (ps : Patterns) : patternSide ps = .ok () ↔ ValidPatterns ps := by
  simp only [patternSide, forEach_ok_iff, bindU_ok_iff, check_ok_iff, ValidPatterns]
  constructor
  · intro h pat hp
    obtain ⟨h1, h2⟩ := h pat hp
    refine ⟨?_, fun occ ho om hom => by simpa using h2 occ ho om hom⟩
    rintro rfl; simp at h1
  · intro h pat hp
    obtain ⟨h1, h2⟩ := h pat hp
    refine ⟨?_, fun occ ho om hom => by simpa using h2 occ ho om hom⟩
    cases pat with
    | nil => exact absurd rfl h1
    | cons a t => simp

theorem pattern_validate_total (r e : Patterns) : OkOrVE (patternValidate r e) :=
  okOrVE_bind (patternSide_total r) (patternSide_total e)

theorem pattern_validate_ok_iff (r e : Patterns) :
    patternValidate r e = .ok () ↔ ValidPatterns r ∧ ValidPatterns e := by
  simp only [patternValidate, bindU_ok_iff, patternSide_ok_iff]

theorem pattern_validate_accepts {r e : Patterns} (hr : ValidPatterns r) (he : ValidPatterns e) :
    patternValidate r e = .ok () :=
  (pattern_validate_ok_iff r e).2 ⟨hr, he⟩

theorem pattern_validate_rejects {r e : Patterns} (h : ¬ ValidPatterns r ∨ ¬ ValidPatterns e) :
    patternValidate r e = .error .valueError :=
  rejects_of_iff (pattern_validate_total r e) (pattern_validate_ok_iff r e) (by tauto)

/-- fault: a pattern without any occurrence -/
theorem pattern_validate_rejects_no_occurrence {r e : Patterns} (h : [] ∈ r ∨ [] ∈ e) :
    patternValidate r e = .error .valueError :=
  pattern_validate_rejects (by
    rcases h with h | h
    · exact Or.inl fun hv => (hv [] h).1 rfl
    · exact Or.inr fun hv => (hv [] h).1 rfl)

/-- fault: an (onset, midi) tuple that does not have exactly two elements (e.g. a 3-tuple) -/
theorem pattern_validate_rejects_bad_tuple {r e : Patterns} {pat : List (List (List Rat))}
    {occ : List (List Rat)} {om : List Rat} (hp : pat ∈ r ∨ pat ∈ e) (ho : occ ∈ pat) (hom : om ∈ occ)
    (h : om.length ≠ 2) : patternValidate r e = .error .valueError :=
  pattern_validate_rejects (by
    rcases hp with hp | hp
    · exact Or.inl fun hv => h ((hv pat hp).2 occ ho om hom)
    · exact Or.inr fun hv => h ((hv pat hp).2 occ ho om hom))

example : ValidPatterns [[[[0, 60], [1, 62]], []]] ∧ ValidPatterns [] :=
  (pattern_validate_ok_iff _ _).1 (by decide +kernel)
example : patternValidate [[]] [] = .error .valueError := by decide +kernel
example : patternValidate [[[[0, 60, 1]]]] [] = .error .valueError := by decide +kernel

/-! ## segment -/

/-- no exception class other than ValueError — provided neither array is 0-d (`len()` comes first) -/
theorem validate_boundary_total {r e : Arr} (hr : r.shape ≠ []) (he : e.shape ≠ []) (trim : Bool) :
    OkOrVE (segmentBoundary r e trim) := by
  unfold segmentBoundary
  refine okOrVE_bind_val (len_ok_of_ne hr) fun _ => okOrVE_bind_val (len_ok_of_ne he) fun _ => ?_
  exact okOrVE_bind (validate_intervals_total r) (validate_intervals_total e)

/-- a 0-d array escapes as TypeError (`len()` of an unsized object) -/
theorem validate_boundary_zero_dim {r e : Arr} (hr : r.shape = []) (trim : Bool) :
    segmentBoundary r e trim = .error .typeError := by
  simp [segmentBoundary, len_nil hr, bind, Except.bind]

theorem len_of_validIntervals {iv : Arr} (h : ValidIntervals iv) : ∃ n, iv.len = .ok n := by
  obtain ⟨n, hn⟩ := h.nBy2
  exact len_ok_of_ne (by simp [hn])

theorem validate_boundary_ok_iff (r e : Arr) (trim : Bool) :
    segmentBoundary r e trim = .ok () ↔ ValidIntervals r ∧ ValidIntervals e := by
  simp only [segmentBoundary, bindN_ok_iff, bindU_ok_iff, validate_intervals_ok_iff]
  constructor
  · rintro ⟨_, _, _, _, h1, h2⟩; exact ⟨h1, h2⟩
  · rintro ⟨h1, h2⟩
    obtain ⟨n, hn⟩ := len_of_validIntervals h1
    obtain ⟨m, hm⟩ := len_of_validIntervals h2
    exact ⟨n, hn, m, hm, h1, h2⟩

/-- valid whatever the relative position of the two annotations (estimate earlier / longer, shared
    boundaries), and for empty `(0, 2)` sides -/
theorem validate_boundary_accepts {r e : Arr} (hr : ValidIntervals r) (he : ValidIntervals e) (trim : Bool) :
    segmentBoundary r e trim = .ok () :=
  (validate_boundary_ok_iff r e trim).2 ⟨hr, he⟩

/-- any interval fault on either side -/
theorem validate_boundary_rejects {r e : Arr} (hr : r.shape ≠ []) (he : e.shape ≠ []) (trim : Bool)
    (h : ¬ ValidIntervals r ∨ ¬ ValidIntervals e) : segmentBoundary r e trim = .error .valueError :=
  rejects_of_iff (validate_boundary_total hr he trim) (validate_boundary_ok_iff r e trim) (by tauto)

/-- documented for one side of `validate_structure`: valid intervals, one label per interval, starts at 0 -/
structure ValidSegmentation (iv : Arr) (nLabels : Nat) : Prop where
  intervals : ValidIntervals iv
  labels : iv.shape.head? = some nLabels
  startsAtZero : StartsAtZero iv

theorem structureSide_total (iv : Arr) (n : Nat) : OkOrVE (structureSide iv n) := by
  unfold structureSide
  refine okOrVE_bind' (validate_intervals_total iv) fun hok => ?_
  refine okOrVE_bind_val (shape0_of_validIntervals ((validate_intervals_ok_iff iv).1 hok)) fun _ => ?_
  exact okOrVE_bind (check_total _) (startsAtZero_total iv)

theorem structureSide_ok_iff (iv : Arr) (n : Nat) : structureSide iv n = .ok () ↔ ValidSegmentation iv n := by
  simp only [structureSide, bindN_ok_iff, bindU_ok_iff, check_ok_iff, shape0_ok_iff, validate_intervals_ok_iff,
    startsAtZero_ok_iff]
  constructor
  · rintro ⟨h1, k, hk, hkn, h3⟩
    have : k = n := by simpa using hkn
    subst this
    exact ⟨h1, hk, h3⟩
  · rintro ⟨h1, h2, h3⟩
    exact ⟨h1, n, h2, by simp, h3⟩

/-- documented for `segment.validate_structure` -/
structure ValidStructure (ri : Arr) (nr : Nat) (ei : Arr) (ne : Nat) : Prop where
  ref : ValidSegmentation ri nr
  est : ValidSegmentation ei ne
  endTogether : EndTogether ri ei

/-- for ALL inputs (any shapes): nothing but ValueError can come out of `validate_structure` -/
theorem validate_structure_total (ri : Arr) (nr : Nat) (ei : Arr) (ne : Nat) :
    OkOrVE (segmentStructure ri nr ei ne) := by
  unfold segmentStructure
  exact okOrVE_bind (structureSide_total _ _) (okOrVE_bind (structureSide_total _ _) (endTogether_total _ _))

theorem validate_structure_ok_iff (ri : Arr) (nr : Nat) (ei : Arr) (ne : Nat) :
    segmentStructure ri nr ei ne = .ok () ↔ ValidStructure ri nr ei ne := by
  simp only [segmentStructure, bindU_ok_iff, structureSide_ok_iff, endTogether_ok_iff]
  exact ⟨fun ⟨a, b, c⟩ => ⟨a, b, c⟩, fun ⟨a, b, c⟩ => ⟨a, b, c⟩⟩

theorem validate_structure_accepts {ri ei : Arr} {nr ne : Nat} (h : ValidStructure ri nr ei ne) :
    segmentStructure ri nr ei ne = .ok () :=
  (validate_structure_ok_iff ri nr ei ne).2 h

theorem validate_structure_rejects {ri ei : Arr} {nr ne : Nat} (h : ¬ ValidStructure ri nr ei ne) :
    segmentStructure ri nr ei ne = .error .valueError :=
  rejects_of_iff (validate_structure_total ri nr ei ne) (validate_structure_ok_iff ri nr ei ne) h

/-- fault: a segmentation whose earliest time is not (close to) 0 -/
theorem validate_structure_rejects_start {ri ei : Arr} {nr ne : Nat} {m : Rat}
    (hm : IsLeastOf ri.data m ∨ IsLeastOf ei.data m) (h : ¬ Close m 0) :
    segmentStructure ri nr ei ne = .error .valueError :=
  validate_structure_rejects fun hv => by
    rcases hm with hm | hm
    · exact h (hv.ref.startsAtZero m hm)
    · exact h (hv.est.startsAtZero m hm)

/-- fault: segmentations that do not end together -/
theorem validate_structure_rejects_end {ri ei : Arr} {nr ne : Nat} {a b : Rat} (ha : IsGreatestOf ri.data a)
    (hb : IsGreatestOf ei.data b) (h : ¬ Close a b) : segmentStructure ri nr ei ne = .error .valueError :=
  validate_structure_rejects fun hv => h (hv.endTogether a b ha hb)

/-- fault: number of labels ≠ number of intervals -/
theorem validate_structure_rejects_label_count {ri ei : Arr} {nr ne : Nat}
    (h : ri.shape.head? ≠ some nr ∨ ei.shape.head? ≠ some ne) :
    segmentStructure ri nr ei ne = .error .valueError :=
  validate_structure_rejects fun hv => by
    rcases h with h | h
    · exact h hv.ref.labels
    · exact h hv.est.labels

/-- fault: malformed intervals (negative, non-positive duration, not n-by-2) on either side -/
theorem validate_structure_rejects_intervals {ri ei : Arr} {nr ne : Nat}
    (h : ¬ ValidIntervals ri ∨ ¬ ValidIntervals ei) : segmentStructure ri nr ei ne = .error .valueError :=
  validate_structure_rejects fun hv => by
    rcases h with h | h
    · exact h hv.ref.intervals
    · exact h hv.est.intervals

example : ValidStructure ⟨[2, 2], [0, 1, 1, 4]⟩ 2 ⟨[1, 2], [0, 4]⟩ 1 :=
  (validate_structure_ok_iff _ _ _ _).1 (by decide +kernel)
/-- empty sides are valid -/
example : ValidStructure ⟨[0, 2], []⟩ 0 ⟨[1, 2], [0, 4]⟩ 1 :=
  (validate_structure_ok_iff _ _ _ _).1 (by decide +kernel)
example : segmentStructure ⟨[1, 2], [1, 4]⟩ 1 ⟨[1, 2], [0, 4]⟩ 1 = .error .valueError := by decide +kernel
example : segmentStructure ⟨[1, 2], [0, 4]⟩ 1 ⟨[1, 2], [0, 5]⟩ 1 = .error .valueError := by decide +kernel

/-! ## hierarchy -/

/-- what `validate_hier_intervals` enforces: the hierarchy has a top level, and every LOWER level forms a valid
    structure annotation against the top level -/
def CheckedHierarchy : List Arr → Prop
  | [] => False
  | top :: rest => ∃ n, top.shape.head? = some n ∧
      ∀ lvl ∈ rest, ∃ k, lvl.shape.head? = some k ∧ ValidStructure top n lvl k

/-- the documented convention: every level is a valid segmentation starting at 0, and every level spans the
    duration of the top level -/
def DocumentedHierarchy (levels : List Arr) : Prop :=
  ∃ top rest, levels = top :: rest ∧
    (∀ lvl ∈ levels, ∃ k, lvl.shape.head? = some k ∧ ValidSegmentation lvl k) ∧
    ∀ lvl ∈ rest, EndTogether top lvl

theorem hier_validate_total {levels : List Arr} (hne : levels ≠ []) (h : ∀ l ∈ levels, l.shape ≠ []) :
    OkOrVE (hierValidate levels) := by
  cases levels with
  | nil => exact absurd rfl hne
  | cons top rest =>
      simp only [hierValidate]
      refine okOrVE_bind_val (len_ok_of_ne (h top (by simp))) fun n => ?_
      refine forEach_total fun lvl hl => ?_
      exact okOrVE_bind_val (len_ok_of_ne (h lvl (by simp [hl]))) fun k => validate_structure_total _ _ _ _

/-- an empty hierarchy escapes as IndexError, a 0-d top level as TypeError -/
theorem hier_validate_empty : hierValidate [] = .error .indexError := rfl

theorem hier_validate_zero_dim_top {top : Arr} (rest : List Arr) (h : top.shape = []) :
    hierValidate (top :: rest) = .error .typeError := by
  simp [hierValidate, len_nil h, bind, Except.bind]

theorem hier_validate_ok_iff (levels : List Arr) : hierValidate levels = .ok () ↔ CheckedHierarchy levels := by
  cases levels with
  | nil => simp [hierValidate, CheckedHierarchy]
  | cons top rest =>
      simp only [hierValidate, CheckedHierarchy, bindN_ok_iff, forEach_ok_iff, len_ok_iff,
        validate_structure_ok_iff]

/-- with at least two levels the check is the documented convention -/
theorem hier_validate_ok_iff_documented (top lvl : Arr) (rest : List Arr) :
    hierValidate (top :: lvl :: rest) = .ok () ↔ DocumentedHierarchy (top :: lvl :: rest) := by
  rw [hier_validate_ok_iff]
  constructor
  · rintro ⟨n, hn, h⟩
    refine ⟨top, lvl :: rest, rfl, ?_, ?_⟩
    · intro l hl
      rcases List.mem_cons.1 hl with rfl | hl
      · obtain ⟨k, _, hv⟩ := h lvl (by simp)
        exact ⟨n, hn, hv.ref⟩
      · obtain ⟨k, hk, hv⟩ := h l hl
        exact ⟨k, hk, hv.est⟩
    · intro l hl
      obtain ⟨k, _, hv⟩ := h l hl
      exact hv.endTogether
  · rintro ⟨top', rest', heq, hseg, hend⟩
    simp only [List.cons.injEq] at heq
    obtain ⟨h1, h2⟩ := heq
    subst h1 h2
    obtain ⟨n, hn, hvt⟩ := hseg top (by simp)
    refine ⟨n, hn, fun l hl => ?_⟩
    obtain ⟨k, hk, hvl⟩ := hseg l (List.mem_cons_of_mem _ hl)
    exact ⟨k, hk, hvt, hvl, hend l hl⟩

theorem hier_validate_accepts {top lvl : Arr} {rest : List Arr} (h : DocumentedHierarchy (top :: lvl :: rest)) :
    hierValidate (top :: lvl :: rest) = .ok () :=
  (hier_validate_ok_iff_documented top lvl rest).2 h

/-- a documented hierarchy of any depth (one level included) is accepted -/
theorem hier_validate_accepts_documented {levels : List Arr} (h : DocumentedHierarchy levels) :
    hierValidate levels = .ok () := by
  obtain ⟨top, rest, rfl, hseg, hend⟩ := h
  cases rest with
  | nil =>
      obtain ⟨n, hn, _⟩ := hseg top (by simp)
      exact (hier_validate_ok_iff _).2 ⟨n, hn, by simp⟩
  | cons lvl rest => exact hier_validate_accepts ⟨top, lvl :: rest, rfl, hseg, hend⟩

/-- faults in a hierarchy of at least two levels (a level that does not start at 0, does not end with the top
    level, or has malformed intervals) raise ValueError -/
theorem hier_validate_rejects {top lvl : Arr} {rest : List Arr} (hs : ∀ l ∈ top :: lvl :: rest, l.shape ≠ [])
    (h : ¬ DocumentedHierarchy (top :: lvl :: rest)) : hierValidate (top :: lvl :: rest) = .error .valueError :=
  rejects_of_iff (hier_validate_total (by simp) hs) (hier_validate_ok_iff_documented top lvl rest) h

/-- FINDING.  Documented: `validate_hier_intervals` raises when any segmentation does not start at 0 (or is
    otherwise malformed). -/
def hier_validate_documented_full_statement : Prop :=
  ∀ levels : List Arr, hierValidate levels = .ok () → DocumentedHierarchy levels

/-- …false of the code: the loop runs over `intervals_hier[1:]` only, so a one-level hierarchy is never
    looked at; `[[1, 2]]` (does not start at 0) passes. -/
theorem hier_validate_documented_full_statement_false : ¬ hier_validate_documented_full_statement := by
  intro h
  have hd := h [⟨[1, 2], [1, 2]⟩] (by decide +kernel)
  obtain ⟨top, rest, heq, hseg, _⟩ := hd
  obtain ⟨k, _, hv⟩ := hseg ⟨[1, 2], [1, 2]⟩ (by simp)
  have := (structureSide_ok_iff _ k).2 hv
  have hk : k = 1 := by simpa using hv.labels.symm
  subst hk
  revert this
  decide +kernel

/-- a one-level hierarchy passes whatever it contains (as long as it is not 0-d) -/
theorem hier_validate_single_level_unchecked (a : Arr) (h : a.shape ≠ []) : hierValidate [a] = .ok () := by
  obtain ⟨n, hn⟩ := len_ok_of_ne h
  simp [hierValidate, hn, forEach, bind, Except.bind]

/-- the strongest true version of the documented statement: it holds from two levels on -/
theorem hier_validate_documented_partial {top lvl : Arr} {rest : List Arr}
    (h : hierValidate (top :: lvl :: rest) = .ok ()) : DocumentedHierarchy (top :: lvl :: rest) :=
  (hier_validate_ok_iff_documented top lvl rest).1 h

/-- what `hierarchy.tmeasure` requires before computing -/
structure ValidTmeasureArgs (frameSize : Rat) (window : Option Rat) (ref est : List Arr) : Prop where
  framePositive : 0 < frameSize
  frameWithinWindow : ∀ w, window = some w → frameSize ≤ w
  ref : CheckedHierarchy ref
  est : CheckedHierarchy est

theorem hier_tmeasure_total {ref est : List Arr} (fs : Rat) (w : Option Rat) (hr : ref ≠ [])
    (hr' : ∀ l ∈ ref, l.shape ≠ []) (he : est ≠ []) (he' : ∀ l ∈ est, l.shape ≠ []) :
    OkOrVE (hierTmeasure fs w ref est) := by
  unfold hierTmeasure
  exact okOrVE_bind (check_total _) (okOrVE_bind (windowCheck_total fs w)
    (okOrVE_bind (hier_validate_total hr hr') (hier_validate_total he he')))

theorem hier_tmeasure_ok_iff (fs : Rat) (w : Option Rat) (ref est : List Arr) :
    hierTmeasure fs w ref est = .ok () ↔ ValidTmeasureArgs fs w ref est := by
  simp only [hierTmeasure, bindU_ok_iff, check_ok_iff, hier_validate_ok_iff, windowCheck_ok_iff,
    decide_eq_false_iff_not, not_le]
  exact ⟨fun ⟨a, b, c, d⟩ => ⟨a, b, c, d⟩, fun ⟨a, b, c, d⟩ => ⟨a, b, c, d⟩⟩

/-- fault: frame size not positive (for ALL hierarchies: this check comes first) -/
theorem hier_tmeasure_rejects_frame_size {fs : Rat} (w : Option Rat) (ref est : List Arr) (h : fs ≤ 0) :
    hierTmeasure fs w ref est = .error .valueError := by
  simp [hierTmeasure, check, h, bind, Except.bind]

/-- fault: frame size larger than the window (for ALL hierarchies) -/
theorem hier_tmeasure_rejects_window {fs w : Rat} (ref est : List Arr) (h : w < fs) :
    hierTmeasure fs (some w) ref est = .error .valueError := by
  by_cases h0 : fs ≤ 0
  · exact hier_tmeasure_rejects_frame_size _ _ _ h0
  · simp [hierTmeasure, windowCheck, check, h0, h, bind, Except.bind]

theorem hier_lmeasure_total {ref est : List Arr} (fs : Rat) (hr : ref ≠ [])
    (hr' : ∀ l ∈ ref, l.shape ≠ []) (he : est ≠ []) (he' : ∀ l ∈ est, l.shape ≠ []) :
    OkOrVE (hierLmeasure fs ref est) := by
  unfold hierLmeasure
  exact okOrVE_bind (check_total _) (okOrVE_bind (hier_validate_total hr hr') (hier_validate_total he he'))

theorem hier_lmeasure_ok_iff (fs : Rat) (ref est : List Arr) :
    hierLmeasure fs ref est = .ok () ↔ 0 < fs ∧ CheckedHierarchy ref ∧ CheckedHierarchy est := by
  simp only [hierLmeasure, bindU_ok_iff, check_ok_iff, hier_validate_ok_iff, decide_eq_false_iff_not, not_le]

theorem hier_lmeasure_rejects_frame_size {fs : Rat} (ref est : List Arr) (h : fs ≤ 0) :
    hierLmeasure fs ref est = .error .valueError := by
  simp [hierLmeasure, check, h, bind, Except.bind]

example : DocumentedHierarchy [⟨[1, 2], [0, 4]⟩, ⟨[2, 2], [0, 1, 1, 4]⟩] :=
  (hier_validate_ok_iff_documented _ _ _).1 (by decide +kernel)
example : hierValidate [⟨[1, 2], [0, 4]⟩, ⟨[2, 2], [1, 2, 2, 4]⟩] = .error .valueError := by decide +kernel
example : hierTmeasure (1 / 2) (some (1 / 2)) [⟨[1, 2], [0, 4]⟩] [⟨[1, 2], [0, 4]⟩] = .ok () := by decide +kernel
example : hierTmeasure (1 / 2) none [⟨[1, 2], [0, 4]⟩] [⟨[1, 2], [0, 4]⟩] = .ok () := by decide +kernel

/-! ## chord (label validity given per label) -/

/-- `chord.validate` ends in exactly one of three ways: it returns, raises ValueError, or raises
    InvalidChordException -/
theorem chord_validate_total (r e : List Bool) :
    chordValidate r e = .ok () ∨ chordValidate r e = .error .valueError ∨
      chordValidate r e = .error .invalidChord := by
  unfold chordValidate
  by_cases hl : r.length = e.length
  · have hc : check (r.length != e.length) = .ok () := by simp [check, hl]
    rw [hc]
    rcases labels_ok_or_invalidChord r with h | h
    · rcases labels_ok_or_invalidChord e with h' | h'
      · left; simp [h, h', bind, Except.bind]
      · right; right; simp [h, h', bind, Except.bind]
    · right; right; simp [h, bind, Except.bind]
  · have hc : check (r.length != e.length) = .error .valueError := by simp [check, hl]
    rw [hc]; right; left; rfl

/-- documented: two lists of the same length, every label well-formed -/
theorem chord_validate_ok_iff (r e : List Bool) :
    chordValidate r e = .ok () ↔ r.length = e.length ∧ (∀ b ∈ r, b = true) ∧ ∀ b ∈ e, b = true := by
  simp only [chordValidate, bindU_ok_iff, check_ok_iff, labels_ok_iff]
  simp

theorem chord_validate_accepts {r e : List Bool} (hl : r.length = e.length) (hr : ∀ b ∈ r, b = true)
    (he : ∀ b ∈ e, b = true) : chordValidate r e = .ok () :=
  (chord_validate_ok_iff r e).2 ⟨hl, hr, he⟩

/-- fault: comparison lists of unequal length — ValueError, whatever the labels -/
theorem chord_validate_rejects_unequal_length {r e : List Bool} (h : r.length ≠ e.length) :
    chordValidate r e = .error .valueError := by
  simp [chordValidate, check, h, bind, Except.bind]

/-- fault: a malformed label (lists of equal length) — InvalidChordException, not ValueError -/
theorem chord_validate_rejects_malformed_label {r e : List Bool} (hl : r.length = e.length)
    (h : false ∈ r ∨ false ∈ e) : chordValidate r e = .error .invalidChord := by
  rcases chord_validate_total r e with h' | h' | h'
  · obtain ⟨_, hr, he⟩ := (chord_validate_ok_iff r e).1 h'
    rcases h with h | h
    · exact absurd (hr false h) (by simp)
    · exact absurd (he false h) (by simp)
  · exfalso
    have hc : check (r.length != e.length) = .ok () := by simp [check, hl]
    unfold chordValidate at h'
    rw [hc] at h'
    rcases labels_ok_or_invalidChord r with h1 | h1 <;> rcases labels_ok_or_invalidChord e with h2 | h2 <;>
      simp [h1, h2, bind, Except.bind] at h'
  · exact h'

theorem weighted_accuracy_total {w : Arr} (n : Nat) (h : w.shape ≠ []) : OkOrVE (chordWeightedAccuracy n w) := by
  unfold chordWeightedAccuracy
  exact okOrVE_bind_val (shape0_ok_of_ne h) fun _ => okOrVE_bind (check_total _) (check_total _)

/-- documented: as many weights as comparisons, no negative weight -/
theorem weighted_accuracy_ok_iff (n : Nat) (w : Arr) :
    chordWeightedAccuracy n w = .ok () ↔ w.shape.head? = some n ∧ ∀ x ∈ w.data, 0 ≤ x := by
  simp only [chordWeightedAccuracy, bindN_ok_iff, bindU_ok_iff, check_ok_iff, shape0_ok_iff]
  constructor
  · rintro ⟨k, hk, hkn, h⟩
    have : k = n := by simpa using hkn
    subst this
    exact ⟨hk, by simpa using h⟩
  · rintro ⟨h1, h2⟩
    exact ⟨n, h1, by simp, by simpa using h2⟩

theorem weighted_accuracy_accepts {n : Nat} {w : Arr} (h1 : w.shape.head? = some n) (h2 : ∀ x ∈ w.data, 0 ≤ x) :
    chordWeightedAccuracy n w = .ok () :=
  (weighted_accuracy_ok_iff n w).2 ⟨h1, h2⟩

/-- fault: weights and comparisons of unequal length -/
theorem weighted_accuracy_rejects_unequal_length {n : Nat} {w : Arr} (h : w.shape ≠ [])
    (hn : w.shape.head? ≠ some n) : chordWeightedAccuracy n w = .error .valueError :=
  rejects_of_iff (weighted_accuracy_total n h) (weighted_accuracy_ok_iff n w) fun hv => hn hv.1

/-- fault: a negative weight -/
theorem weighted_accuracy_rejects_negative_weight {n : Nat} {w : Arr} (h : w.shape ≠ []) {x : Rat}
    (hx : x ∈ w.data) (hneg : x < 0) : chordWeightedAccuracy n w = .error .valueError :=
  rejects_of_iff (weighted_accuracy_total n h) (weighted_accuracy_ok_iff n w) fun hv =>
    absurd (hv.2 x hx) (not_le.2 hneg)

example : chordValidate [true, true] [true, true] = .ok () := by decide
example : chordValidate [] [] = .ok () := by decide
example : chordValidate [true, false] [true, true] = .error .invalidChord := by decide
example : chordValidate [true, false] [true] = .error .valueError := by decide
example : chordWeightedAccuracy 2 (Arr.vec [1, 0]) = .ok () := by decide +kernel
example : chordWeightedAccuracy 2 (Arr.vec [1, -1]) = .error .valueError := by decide +kernel

/-! ## separation (shape descriptor + one `silent` flag per source) -/

/-- documented: equal shapes, at most 3 axes, at most 100 sources; unless empty, `(nsrc, nsampl[, nchan])`
    with no silent source -/
structure ValidSources (r e : Src) : Prop where
  sameShape : r.shape = e.shape
  dims : r.shape.length ≤ 3
  refNonSilent : r.size ≠ 0 → 2 ≤ r.shape.length ∧ ∀ b ∈ r.silent, b = false
  estNonSilent : e.size ≠ 0 → 2 ≤ e.shape.length ∧ ∀ b ∈ e.silent, b = false
  count : ∃ n, r.shape.head? = some n ∧ n ≤ 100

/-- for ALL descriptors: nothing but ValueError can come out of `separation.validate` -/
theorem separation_validate_total (r e : Src) : OkOrVE (separationValidate r e) := by
  unfold separationValidate
  refine okOrVE_bind (check_total _) (okOrVE_bind (check_total _) ?_)
  refine okOrVE_bind' (silentCheck_total r) fun hr => okOrVE_bind' (silentCheck_total e) fun he => ?_
  have hre : r.shape ≠ [] := fun h => by rw [silentCheck_zero_dim h] at hr; cases hr
  have hee : e.shape ≠ [] := fun h => by rw [silentCheck_zero_dim h] at he; cases he
  obtain ⟨n, t, hn⟩ := List.exists_cons_of_ne_nil hee
  obtain ⟨m, t', hm⟩ := List.exists_cons_of_ne_nil hre
  have h1 : e.shape0 = .ok n := by simp [Src.shape0, hn]
  have h2 : r.shape0 = .ok m := by simp [Src.shape0, hm]
  rw [h1, h2]
  exact check_total _

theorem separation_validate_ok_iff (r e : Src) : separationValidate r e = .ok () ↔ ValidSources r e := by
  simp only [separationValidate, bindN_ok_iff, bindU_ok_iff, check_ok_iff, silentCheck_ok_iff, src_shape0_ok_iff,
    Src.ndim, maxSources]
  constructor
  · rintro ⟨h1, h2, h3, h4, n, hn, m, hm, h5⟩
    have hs : r.shape = e.shape := by simpa using h1
    have hd : r.shape.length ≤ 3 := Nat.not_lt.1 (of_decide_eq_false (Bool.or_eq_false_iff.1 h2).1)
    have hc : m ≤ 100 := Nat.not_lt.1 (of_decide_eq_false (Bool.or_eq_false_iff.1 h5).2)
    exact ⟨hs, hd, h3, h4, m, hm, hc⟩
  · rintro ⟨h1, h2, h3, h4, n, hn, hc⟩
    have h2' : e.shape.length ≤ 3 := by rw [← h1]; exact h2
    refine ⟨by simpa using h1, Bool.or_eq_false_iff.2 ⟨decide_eq_false (by omega), decide_eq_false (by omega)⟩, h3, h4, n,
      by rw [← h1]; exact hn, n, hn, Bool.or_eq_false_iff.2 ⟨decide_eq_false (by omega), decide_eq_false (by omega)⟩⟩

theorem separation_validate_accepts {r e : Src} (h : ValidSources r e) : separationValidate r e = .ok () :=
  (separation_validate_ok_iff r e).2 h

theorem separation_validate_rejects {r e : Src} (h : ¬ ValidSources r e) :
    separationValidate r e = .error .valueError :=
  rejects_of_iff (separation_validate_total r e) (separation_validate_ok_iff r e) h

/-- fault: reference and estimate of different shapes -/
theorem separation_validate_rejects_shape_mismatch {r e : Src} (h : r.shape ≠ e.shape) :
    separationValidate r e = .error .valueError :=
  separation_validate_rejects fun hv => h hv.sameShape

/-- fault: more than three axes -/
theorem separation_validate_rejects_too_many_dims {r e : Src} (h : 3 < r.shape.length) :
    separationValidate r e = .error .valueError :=
  separation_validate_rejects fun hv => absurd hv.dims (by omega)

/-- fault: a silent (all-zero) source on either side -/
theorem separation_validate_rejects_silent {r e : Src} (h : (r.size ≠ 0 ∧ true ∈ r.silent) ∨ (e.size ≠ 0 ∧ true ∈ e.silent)) :
    separationValidate r e = .error .valueError :=
  separation_validate_rejects fun hv => by
    rcases h with ⟨h0, ht⟩ | ⟨h0, ht⟩
    · exact absurd ((hv.refNonSilent h0).2 true ht) (by simp)
    · exact absurd ((hv.estNonSilent h0).2 true ht) (by simp)

/-- fault: a non-empty array with fewer than two axes -/
theorem separation_validate_rejects_mis_shaped {r e : Src} (h0 : r.size ≠ 0) (h : r.shape.length < 2) :
    separationValidate r e = .error .valueError :=
  separation_validate_rejects fun hv => absurd (hv.refNonSilent h0).1 (by omega)

/-- fault: more than MAX_SOURCES = 100 sources -/
theorem separation_validate_rejects_too_many_sources {r e : Src} {n : Nat} {t : List Nat} (hs : r.shape = n :: t)
    (h : 100 < n) : separationValidate r e = .error .valueError :=
  separation_validate_rejects fun hv => by
    obtain ⟨k, hk, hle⟩ := hv.count
    rw [hs] at hk
    simp at hk
    omega

example : ValidSources ⟨[2, 3], [false, false]⟩ ⟨[2, 3], [false, false]⟩ :=
  (separation_validate_ok_iff _ _).1 (by decide)
/-- empty sources only warn -/
example : ValidSources ⟨[0, 3], []⟩ ⟨[0, 3], []⟩ := (separation_validate_ok_iff _ _).1 (by decide)
example : separationValidate ⟨[2, 3], [false, true]⟩ ⟨[2, 3], [false, false]⟩ = .error .valueError := by decide
example : separationValidate ⟨[101, 1], List.replicate 101 false⟩ ⟨[101, 1], List.replicate 101 false⟩ =
    .error .valueError := by decide

end Mir.C14
