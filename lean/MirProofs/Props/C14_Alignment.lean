import MirProofs.Props.C14
import MirProofs.Lemmas.AlignmentTotal

/-!
# C14 (task level) — `mir_eval.alignment`: every metric and `evaluate`

Model: `MirModel/Alignment.lean`.  `validate_agrees` ties its validator to the validator model of `Props/C14.lean`.

* `absolute_error`, `percentage_correct`, `karaoke_perceptual_metric` are scored on every input that satisfies the
  documented convention (`ValidAlignment`: same non-zero length, increasing, non-negative) — a single timestamp pair
  and duplicate timestamps included;
* `percentage_correct_segments` (and therefore `evaluate`) has one more *documented and explicitly checked* requirement:
  the normalising duration must be positive and must cover both annotations.  Without `duration` this is
  `first reference timestamp < last reference timestamp`, so a single timestamp — or a reference whose timestamps all
  coincide — is rejected with the ValueError "Reference timestamps are all identical, can not compute PCS metric":
  a clean rejection, not an escape (`pcs_rejects_identical`).
* No function of the module can raise anything but `ValueError`, on any input (`*_errors`): `np.median`/`np.mean` of
  nothing, `np.max` of an empty array and `x[-1]`/`x[0]` are all behind the non-emptiness check of `validate`.
-/
namespace Mir.C14.Alignment
open Mir.Alignment Mir.Validate Mir.Totality Mir.MiscStats

/-- the documented convention (Props/C14.lean) on the two 1-d arrays -/
def Valid (ref est : List Rat) : Prop := ValidAlignment (Arr.vec ref) (Arr.vec est)

theorem valid_iff (ref est : List Rat) :
    Valid ref est ↔ ref ≠ [] ∧ est.length = ref.length ∧ ref.Pairwise (· ≤ ·) ∧ est.Pairwise (· ≤ ·) ∧
      (∀ t ∈ ref, 0 ≤ t) ∧ (∀ t ∈ est, 0 ≤ t) := by
  constructor
  · intro h
    exact ⟨h.nonEmpty, h.sameLength, h.refIncreasing, h.estIncreasing, h.refNonneg, h.estNonneg⟩
  · rintro ⟨h1, h2, h3, h4, h5, h6⟩
    exact ⟨rfl, rfl, h1, h2, h3, h4, h5, h6⟩

/-- `alignment.validate` of the metric model = the validator model on the same 1-d arrays -/
theorem validate_agrees (ref est : List Rat) :
    validate ref est = alignmentValidate (Arr.vec ref) (Arr.vec est) := by
  have hiff : validate ref est = .ok () ↔ alignmentValidate (Arr.vec ref) (Arr.vec est) = .ok () := by
    rw [validate_ok_iff, alignment_validate_ok_iff, zip_le_iff_pairwise, zip_le_iff_pairwise]
    exact (valid_iff ref est).symm
  rcases validate_cases ref est with h | h <;>
    rcases alignment_validate_total (Arr.vec ref) (Arr.vec est) with h' | h'
  · rw [h, h']
  · rw [hiff.1 h] at h'; cases h'
  · rw [hiff.2 h'] at h; cases h
  · rw [h, h']

theorem validate_of_valid {ref est : List Rat} (h : Valid ref est) : validate ref est = .ok () := by
  rw [validate_agrees]; exact alignment_validate_accepts h

theorem valid_of_validate {ref est : List Rat} (h : validate ref est = .ok ()) : Valid ref est := by
  rw [validate_agrees] at h; exact (alignment_validate_ok_iff _ _).1 h

theorem valid_ne_nil {ref est : List Rat} (h : Valid ref est) : ref ≠ [] ∧ est ≠ [] := by
  have h1 : ref ≠ [] := h.nonEmpty
  have h2 : est.length = ref.length := h.sameLength
  refine ⟨h1, ?_⟩
  intro he; subst he
  exact h1 (List.length_eq_zero_iff.1 h2.symm)

/-! ## absolute_error -/

theorem absolute_error_total {ref est : List Rat} (h : Valid ref est) : ∃ v, absoluteError ref est = .ok v :=
  ⟨_, absoluteError_of_valid (validate_of_valid h)⟩

theorem absolute_error_errors (ref est : List Rat) :
    (∃ v, absoluteError ref est = .ok v) ∨ absoluteError ref est = .error .valueError := by
  rcases validate_cases ref est with h | h
  · exact Or.inl ⟨_, absoluteError_of_valid h⟩
  · exact Or.inr (absoluteError_of_invalid h)

/-- on valid input neither the median nor the mean is NaN (the deviations are never an empty array) -/
theorem absolute_error_defined {ref est : List Rat} (h : Valid ref est) :
    ∃ med mean : Rat, absoluteError ref est = .ok (some med, some mean) := by
  have hne : deviations ref est ≠ [] := deviations_ne_nil h.nonEmpty h.sameLength
  obtain ⟨m, hm⟩ := mean?_isSome hne
  have hmed : ∃ md, median? (deviations ref est) = some md := median?_isSome hne
  obtain ⟨md, hmd⟩ := hmed
  exact ⟨md, m, by rw [absoluteError_of_valid (validate_of_valid h), hmd, hm]⟩

/-! ## percentage_correct -/

theorem percentage_correct_total {ref est : List Rat} (h : Valid ref est) (window : Rat) :
    ∃ v, percentageCorrect ref est window = .ok v :=
  ⟨_, percentageCorrect_of_valid window (validate_of_valid h)⟩

theorem percentage_correct_errors (ref est : List Rat) (window : Rat) :
    (∃ v, percentageCorrect ref est window = .ok v) ∨ percentageCorrect ref est window = .error .valueError := by
  rcases validate_cases ref est with h | h
  · exact Or.inl ⟨_, percentageCorrect_of_valid window h⟩
  · exact Or.inr (percentageCorrect_of_invalid window h)

/-! ## percentage_correct_segments -/

/-- the documented requirement on the normalising duration: positive, and (when given) covering both annotations -/
def ValidDuration (ref est : List Rat) : Option Rat → Prop
  | none => ∃ first last, ref.head? = some first ∧ ref.getLast? = some last ∧ first < last
  | some d => 0 < d ∧ (∀ t ∈ ref, t ≤ d) ∧ (∀ t ∈ est, t ≤ d)

theorem pcs_total {ref est : List Rat} (h : Valid ref est) {duration : Option Rat}
    (hd : ValidDuration ref est duration) : ∃ v, percentageCorrectSegments ref est duration = .ok v := by
  have hv := validate_of_valid h
  cases duration with
  | none =>
    obtain ⟨first, last, hf, hl, hlt⟩ := hd
    exact ⟨_, pcs_mirex_of_valid hv hf hl (by linarith)⟩
  | some d =>
    obtain ⟨hpos, hr, he⟩ := hd
    obtain ⟨hrn, hen⟩ := valid_ne_nil h
    obtain ⟨r0, rs, rfl⟩ := List.exists_cons_of_ne_nil hrn
    obtain ⟨e0, es, rfl⟩ := List.exists_cons_of_ne_nil hen
    exact ⟨_, pcs_dur_of_valid hv hpos (hr _ (maxOf_mem r0 rs)) (he _ (maxOf_mem e0 es))⟩

/-- valid arrays whose duration requirement fails are rejected with `ValueError` -/
theorem pcs_rejects_duration {ref est : List Rat} (h : Valid ref est) {duration : Option Rat}
    (hd : ¬ ValidDuration ref est duration) : percentageCorrectSegments ref est duration = .error .valueError := by
  have hv := validate_of_valid h
  obtain ⟨hrn, hen⟩ := valid_ne_nil h
  obtain ⟨r0, rs, rfl⟩ := List.exists_cons_of_ne_nil hrn
  obtain ⟨e0, es, rfl⟩ := List.exists_cons_of_ne_nil hen
  cases duration with
  | some d =>
    by_cases h0 : d ≤ 0
    · simp [percentageCorrectSegments, hv, h0, bind, Except.bind]
    · by_cases hr : d < maxOf r0 rs
      · simp [percentageCorrectSegments, hv, h0, hr, bind, Except.bind]
      · by_cases he : d < maxOf e0 es
        · simp [percentageCorrectSegments, hv, h0, hr, he, bind, Except.bind]
        · exfalso
          exact hd ⟨not_le.1 h0, fun t ht => le_trans (le_maxOf r0 rs t ht) (not_lt.1 hr),
            fun t ht => le_trans (le_maxOf e0 es t ht) (not_lt.1 he)⟩
  | none =>
    obtain ⟨last, hl⟩ : ∃ last, (r0 :: rs).getLast? = some last :=
      ⟨_, List.getLast?_eq_some_getLast (by simp)⟩
    have hf : (r0 :: rs).head? = some r0 := rfl
    have h0 : last - r0 ≤ 0 := by
      by_contra hc
      exact hd ⟨r0, last, hf, hl, by linarith [not_le.1 hc]⟩
    simp [percentageCorrectSegments, hv, hl, h0, bind, Except.bind]

theorem pcs_errors (ref est : List Rat) (duration : Option Rat) :
    (∃ v, percentageCorrectSegments ref est duration = .ok v) ∨
      percentageCorrectSegments ref est duration = .error .valueError := by
  rcases validate_cases ref est with hv | hv
  · by_cases hd : ValidDuration ref est duration
    · exact Or.inl (pcs_total (valid_of_validate hv) hd)
    · exact Or.inr (pcs_rejects_duration (valid_of_validate hv) hd)
  · exact Or.inr (pcs_of_invalid duration hv)

/-- the score is returned exactly when the input is valid and the duration requirement holds -/
theorem pcs_ok_iff (ref est : List Rat) (duration : Option Rat) :
    (∃ v, percentageCorrectSegments ref est duration = .ok v) ↔ Valid ref est ∧ ValidDuration ref est duration := by
  constructor
  · rintro ⟨v, hv⟩
    have hval : Valid ref est := valid_of_validate (validate_of_ok (pcs_of_invalid duration) hv)
    refine ⟨hval, ?_⟩
    by_contra hd
    rw [pcs_rejects_duration hval hd] at hv
    cases hv
  · rintro ⟨h, hd⟩; exact pcs_total h hd

/-- a reference whose first and last timestamps coincide (a single timestamp in particular) is rejected by the
    MIREX variant with the documented ValueError — valid for every other metric of the module -/
theorem pcs_rejects_identical {ref est : List Rat} {first last : Rat} (hf : ref.head? = some first)
    (hl : ref.getLast? = some last) (h : last ≤ first) :
    percentageCorrectSegments ref est none = .error .valueError := by
  rcases pcs_errors ref est none with ⟨v, hv⟩ | hv
  · obtain ⟨_, f', l', hf', hl', hlt⟩ := (pcs_ok_iff ref est none).1 ⟨v, hv⟩
    rw [hf] at hf'; rw [hl] at hl'
    cases hf'; cases hl'
    exact absurd hlt (not_lt.2 h)
  · exact hv

/-! ## karaoke_perceptual_metric -/

theorem karaoke_total {ref est : List Rat} (h : Valid ref est) : ∃ v, karaokePerceptualMetric ref est = .ok v := by
  unfold karaokePerceptualMetric
  rw [validate_of_valid h]
  exact ⟨_, rfl⟩

theorem karaoke_errors (ref est : List Rat) :
    (∃ v, karaokePerceptualMetric ref est = .ok v) ∨ karaokePerceptualMetric ref est = .error .valueError := by
  unfold karaokePerceptualMetric
  rcases validate_cases ref est with h | h
  · rw [h]; exact Or.inl ⟨_, rfl⟩
  · rw [h]; exact Or.inr rfl

/-! ## evaluate -/

/-- `evaluate(ref, est, window=…, duration=…)` is scored on every valid input whose duration requirement holds -/
theorem evaluate_total {ref est : List Rat} (h : Valid ref est) (window : Option Rat) {duration : Option Rat}
    (hd : ValidDuration ref est duration) : ∃ v, evaluate ref est window duration = .ok v := by
  obtain ⟨a, ha⟩ := percentage_correct_total h (window.getD (3 / 10))
  obtain ⟨b, hb⟩ := absolute_error_total h
  obtain ⟨c, hc⟩ := pcs_total h hd
  obtain ⟨d, hd'⟩ := karaoke_total h
  unfold evaluate
  rw [ha, hb, hc, hd']
  exact ⟨_, rfl⟩

theorem evaluate_errors (ref est : List Rat) (window duration : Option Rat) :
    (∃ v, evaluate ref est window duration = .ok v) ∨ evaluate ref est window duration = .error .valueError := by
  rw [← raises_ve_iff]
  unfold evaluate
  refine raises_bind ((raises_ve_iff _).2 (percentage_correct_errors ref est _)) fun _ _ => ?_
  refine raises_bind ((raises_ve_iff _).2 (absolute_error_errors ref est)) fun _ _ => ?_
  refine raises_bind ((raises_ve_iff _).2 (pcs_errors ref est duration)) fun _ _ => ?_
  refine raises_bind ((raises_ve_iff _).2 (karaoke_errors ref est)) fun _ _ => ?_
  exact raises_pure _ _

/-- `evaluate` returns its dictionary exactly on the valid inputs whose duration requirement holds -/
theorem evaluate_ok_iff (ref est : List Rat) (window duration : Option Rat) :
    (∃ v, evaluate ref est window duration = .ok v) ↔ Valid ref est ∧ ValidDuration ref est duration := by
  constructor
  · rintro ⟨v, hv⟩
    rw [← pcs_ok_iff]
    unfold evaluate at hv
    cases h1 : percentageCorrect ref est (window.getD (3 / 10)) with
    | error e => rw [h1] at hv; cases hv
    | ok a =>
      cases h2 : absoluteError ref est with
      | error e => rw [h1, h2] at hv; cases hv
      | ok b =>
        cases h3 : percentageCorrectSegments ref est duration with
        | error e => rw [h1, h2, h3] at hv; cases hv
        | ok c => exact ⟨c, rfl⟩
  · rintro ⟨h, hd⟩; exact evaluate_total h window hd

/-! ## non-vacuity -/

-- duplicate timestamps, an estimate that starts earlier and ends later than the reference
example : Valid [1, 1, 2] [1 / 2, 1, 3] := (alignment_validate_ok_iff _ _).1 (by decide +kernel)
example : ValidDuration [1, 1, 2] [1 / 2, 1, 3] none := ⟨1, 2, rfl, rfl, by decide +kernel⟩
example : ValidDuration [1, 1, 2] [1 / 2, 1, 3] (some 3) := by
  refine ⟨by decide +kernel, ?_, ?_⟩ <;> intro t ht <;> simp at ht <;> rcases ht with rfl | rfl | rfl <;> decide +kernel
-- a single timestamp: valid, scored by three metrics, rejected with ValueError by the MIREX PCS and by evaluate
example : Valid [1] [2] := (alignment_validate_ok_iff _ _).1 (by decide +kernel)
example : absoluteError [1] [2] = .ok (some 1, some 1) := by decide +kernel
example : percentageCorrectSegments [1] [2] none = .error .valueError := pcs_rejects_identical rfl rfl (le_refl _)
example : percentageCorrectSegments [1] [2] (some 2) = .ok (1 / 2) := by decide +kernel
example : percentageCorrectSegments [1] [2] (some 1) = .error .valueError := by decide +kernel
example : absoluteError [] [] = .error .valueError := by decide +kernel

end Mir.C14.Alignment
