import MirProofs.Props.C14
import MirProofs.Lemmas.BeatTotal

/-!
# C14 (task level) — `mir_eval.beat`: every metric and `evaluate`

Model: `MirModel/Beat.lean`; `validate_agrees` ties its validator to the validator model of `Props/C14.lean`.

`Valid ref est` is the documented convention of the module (`ValidEvents` of Props/C14.lean on both 1-d arrays:
increasing — ties allowed —, nothing above `MAX_TIME = 30000`).  Empty arrays, single beats, duplicate beats,
estimates that start earlier / run longer than the reference are all valid.

* `f_measure`, `cemgil`, `p_score`, `continuity`, `information_gain`: scored on every valid input under every
  parameter value (`*_total`) and nothing but `ValueError` can come out on any input (`*_errors`).  For `continuity`
  and `information_gain` this needs the body analysis of `Lemmas/BeatTotal.lean`: `argmin` is never taken of an empty
  array, every index `l[nearest ± 1]`, `l[-1]`, `l[-2]`, `l[1]` is in range (the wrap-around `l[-1]` of a one-beat
  metric-level variation included), all five metric-level variations of a reference with two or more beats are
  non-empty.  Division by a zero inter-beat interval (duplicate beats) is NumPy float division: no exception.
* `goto`: **decision on `goto_threshold`.**  The docstring gives no range for it.  The beat errors it is compared
  with are normalised to [-1, 1] (`gotoErrors_abs_le`), and the first and last entry of the error array are the
  constant 1, so for `goto_threshold < 1` at least one beat is "incorrect" and the function is total
  (`goto_total`).  For `goto_threshold ≥ 1` no beat can be incorrect, `incorrect_beats` is empty and
  `incorrect_beats[0]` raises **IndexError** — on every valid input with both sides non-empty
  (`goto_indexError_iff`).  Since the range is *not* documented, the parameter is not rejected cleanly, and the
  value is reachable through `evaluate(goto_threshold=…)`, this is recorded as an escape: the full-strength
  `goto_errors_full_statement` is refuted, the exact escaping set is proved, and the strongest true versions are
  `goto_errors_partial` (any threshold: value / ValueError / IndexError) and `goto_errors_lt_one`
  (threshold < 1: value / ValueError).  `Valid_goto` = `Valid` ∧ `goto_threshold < 1`.
* `evaluate`: validates the untrimmed arrays, trims, then calls the six metrics; `evaluate_total`,
  `evaluate_indexError_iff`, `evaluate_errors_partial`, `evaluate_errors_lt_one`.
-/
namespace Mir.C14.Beat
open Mir.Beat Mir.Validate Mir.Totality

/-! ## validity -/

/-- documented convention: both beat arrays are valid event arrays with `MAX_TIME = 30000` (Props/C14.lean) -/
def Valid (ref est : List Rat) : Prop := ValidEvents (Arr.vec ref) 30000 ∧ ValidEvents (Arr.vec est) 30000

theorem validEvents_vec_iff (xs : List Rat) :
    ValidEvents (Arr.vec xs) 30000 ↔ (∀ x ∈ xs, x ≤ Mir.Beat.maxTime) ∧ xs.Pairwise (· ≤ ·) := by
  constructor
  · intro h; exact ⟨h.bounded, h.increasing⟩
  · rintro ⟨h1, h2⟩; exact ⟨rfl, h1, h2⟩

/-- `util.validate_events` of the metric model = the validator model on the same 1-d array -/
theorem validateEvents_agrees (xs : List Rat) :
    validateEvents xs = utilEvents (Arr.vec xs) Mir.Validate.maxTime := by
  have hiff : validateEvents xs = .ok () ↔ utilEvents (Arr.vec xs) Mir.Validate.maxTime = .ok () := by
    rw [validateEvents_ok_iff, validate_events_ok_iff, ← validEvents_vec_iff]; rfl
  rcases validateEvents_cases xs with h | h <;>
    rcases validate_events_total (Arr.vec xs) Mir.Validate.maxTime with h' | h'
  · rw [h, h']
  · rw [hiff.1 h] at h'; cases h'
  · rw [hiff.2 h'] at h; cases h
  · rw [h, h']

/-- `beat.validate` of the metric model = the validator model on the same 1-d arrays -/
theorem validate_agrees (ref est : List Rat) :
    validate ref est = beatValidate (Arr.vec ref) (Arr.vec est) := by
  unfold validate beatValidate
  rw [validateEvents_agrees, validateEvents_agrees]

theorem validate_ok_iff (ref est : List Rat) : validate ref est = .ok () ↔ Valid ref est := by
  rw [validate_agrees, beat_validate_ok_iff]; rfl

theorem validate_of_valid {ref est : List Rat} (h : Valid ref est) : validate ref est = .ok () :=
  (validate_ok_iff ref est).2 h

theorem validate_of_not_valid {ref est : List Rat} (h : ¬ Valid ref est) : validate ref est = .error .valueError := by
  rcases validate_cases ref est with hv | hv
  · exact absurd ((validate_ok_iff ref est).1 hv) h
  · exact hv

/-- trimming (`trim_beats`, any `min_beat_time`) keeps a valid pair valid -/
theorem valid_trim {ref est : List Rat} (h : Valid ref est) (t : Rat) : Valid (trimBeats ref t) (trimBeats est t) :=
  (validate_ok_iff _ _).1 (validate_trim t (validate_of_valid h))

/-! ## f_measure -/

theorem f_measure_total {ref est : List Rat} (h : Valid ref est) (thr : Rat) : ∃ v, Mir.Beat.fMeasure ref est thr = .ok v :=
  fMeasure_ok (validate_of_valid h) thr

theorem f_measure_errors (ref est : List Rat) (thr : Rat) :
    (∃ v, Mir.Beat.fMeasure ref est thr = .ok v) ∨ Mir.Beat.fMeasure ref est thr = .error .valueError := by
  rcases validate_cases ref est with hv | hv
  · exact Or.inl (fMeasure_ok hv thr)
  · exact Or.inr (fMeasure_invalid hv thr)

/-! ## cemgil -/

theorem cemgil_total {α : Type} (T : TOps α) {ref est : List Rat} (h : Valid ref est) (sigma : Rat) :
    ∃ v, cemgil T ref est sigma = .ok v :=
  cemgil_ok T (validate_of_valid h) sigma

theorem cemgil_errors {α : Type} (T : TOps α) (ref est : List Rat) (sigma : Rat) :
    (∃ v, cemgil T ref est sigma = .ok v) ∨ cemgil T ref est sigma = .error .valueError := by
  rcases validate_cases ref est with hv | hv
  · exact Or.inl (cemgil_ok T hv sigma)
  · exact Or.inr (cemgil_invalid T hv sigma)

/-! ## p_score -/

theorem p_score_total {ref est : List Rat} (h : Valid ref est) (thr : Rat) : ∃ v, pScore ref est thr = .ok v :=
  pScore_ok (validate_of_valid h) thr

theorem p_score_errors (ref est : List Rat) (thr : Rat) :
    (∃ v, pScore ref est thr = .ok v) ∨ pScore ref est thr = .error .valueError := by
  rcases validate_cases ref est with hv | hv
  · exact Or.inl (pScore_ok hv thr)
  · exact Or.inr (pScore_invalid hv thr)

/-! ## continuity -/

theorem continuity_total {ref est : List Rat} (h : Valid ref est) (pthr qthr : Rat) :
    ∃ v, continuity ref est pthr qthr = .ok v :=
  continuity_ok (validate_of_valid h) pthr qthr

theorem continuity_errors (ref est : List Rat) (pthr qthr : Rat) :
    (∃ v, continuity ref est pthr qthr = .ok v) ∨ continuity ref est pthr qthr = .error .valueError := by
  rcases validate_cases ref est with hv | hv
  · exact Or.inl (continuity_ok hv pthr qthr)
  · exact Or.inr (continuity_invalid hv pthr qthr)

/-! ## information_gain -/

theorem information_gain_total {α : Type} (T : TOps α) {ref est : List Rat} (h : Valid ref est) (bins : Nat) :
    ∃ v, informationGain T ref est bins = .ok v :=
  informationGain_ok T (validate_of_valid h) bins

theorem information_gain_errors {α : Type} (T : TOps α) (ref est : List Rat) (bins : Nat) :
    (∃ v, informationGain T ref est bins = .ok v) ∨ informationGain T ref est bins = .error .valueError := by
  rcases validate_cases ref est with hv | hv
  · exact Or.inl (informationGain_ok T hv bins)
  · exact Or.inr (informationGain_invalid T hv bins)

/-! ## goto -/

/-- every valid input is scored when `goto_threshold < 1` (any `goto_mu`, `goto_sigma`) -/
theorem goto_total {ref est : List Rat} (h : Valid ref est) {thr : Rat} (hthr : thr < 1) (mu sigma : Rat) :
    ∃ v, goto ref est thr mu sigma = .ok v := by
  rw [goto_eq_map, gotoFull_valid (validate_of_valid h)]
  rcases gotoCore_classify ref est thr mu sigma with ⟨_, _, _, h1⟩ | ⟨hok, _⟩
  · exact absurd hthr (not_lt.2 h1)
  · exact ok_map _ hok

/-- exactly these inputs escape with `IndexError`: valid arrays, both non-empty, `goto_threshold ≥ 1` -/
theorem goto_indexError_iff (ref est : List Rat) (thr mu sigma : Rat) :
    goto ref est thr mu sigma = .error .indexError ↔ Valid ref est ∧ ref ≠ [] ∧ est ≠ [] ∧ 1 ≤ thr := by
  rw [goto_eq_map]
  by_cases hv : Valid ref est
  · rw [gotoFull_valid (validate_of_valid hv)]
    rcases gotoCore_classify ref est thr mu sigma with ⟨he, h1⟩ | ⟨⟨v, hok⟩, hn⟩
    · rw [he]; exact ⟨fun _ => ⟨hv, h1⟩, fun _ => rfl⟩
    · rw [hok]
      constructor
      · intro h; cases h
      · intro h; exact absurd h.2 hn
  · rw [gotoFull_invalid (validate_of_not_valid hv)]
    constructor
    · intro h; cases h
    · intro h; exact absurd h.1 hv

def goto_errors_full_statement : Prop :=
  ∀ (ref est : List Rat) (thr mu sigma : Rat),
    (∃ v, goto ref est thr mu sigma = .ok v) ∨ goto ref est thr mu sigma = .error .valueError

/-- refuted: `goto([1, 2], [1], goto_threshold=1)` raises `IndexError` -/
theorem goto_errors_full_false : ¬ goto_errors_full_statement := by
  intro h
  have h1 : goto [1, 2] [1] 1 (1 / 5) (1 / 5) = .error .indexError := by decide +kernel
  rcases h [1, 2] [1] 1 (1 / 5) (1 / 5) with ⟨v, hv⟩ | hv <;> rw [h1] at hv <;> cases hv

theorem goto_errors_partial (ref est : List Rat) (thr mu sigma : Rat) :
    (∃ v, goto ref est thr mu sigma = .ok v) ∨ goto ref est thr mu sigma = .error .valueError ∨
      goto ref est thr mu sigma = .error .indexError := by
  rw [goto_eq_map]
  rcases validate_cases ref est with hv | hv
  · rw [gotoFull_valid hv]
    rcases gotoCore_classify ref est thr mu sigma with ⟨he, _⟩ | ⟨hok, _⟩
    · rw [he]; exact Or.inr (Or.inr rfl)
    · exact Or.inl (ok_map _ hok)
  · rw [gotoFull_invalid hv]; exact Or.inr (Or.inl rfl)

/-- with the threshold in its meaningful range only `ValueError` can come out -/
theorem goto_errors_lt_one (ref est : List Rat) {thr : Rat} (hthr : thr < 1) (mu sigma : Rat) :
    (∃ v, goto ref est thr mu sigma = .ok v) ∨ goto ref est thr mu sigma = .error .valueError := by
  rcases goto_errors_partial ref est thr mu sigma with h | h | h
  · exact Or.inl h
  · exact Or.inr h
  · exact absurd ((goto_indexError_iff ref est thr mu sigma).1 h).2.2.2 (not_le.2 hthr)

/-! ## evaluate -/

/-- what `evaluate` does once the untrimmed arrays have passed `validate` -/
theorem evaluate_classify {α : Type} (T : TOps α) {ref0 est0 : List Rat} (hv : Valid ref0 est0) (p : Params) :
    (gotoCore (trimBeats ref0 p.minBeatTime) (trimBeats est0 p.minBeatTime) p.gotoThr p.gotoMu p.gotoSigma
        = .error .indexError → evaluate T ref0 est0 p = .error .indexError) ∧
    (Ok (gotoCore (trimBeats ref0 p.minBeatTime) (trimBeats est0 p.minBeatTime) p.gotoThr p.gotoMu p.gotoSigma)
        → Ok (evaluate T ref0 est0 p)) := by
  have hv0 := validate_of_valid hv
  have hvt := validate_trim p.minBeatTime hv0
  obtain ⟨f, hf⟩ := fMeasure_ok hvt p.fThr
  obtain ⟨c, hc⟩ := cemgil_ok T hvt p.cemgilSigma
  obtain ⟨ps, hps⟩ := pScore_ok hvt p.pThr
  obtain ⟨ct, hct⟩ := continuity_ok hvt p.phaseThr p.periodThr
  obtain ⟨ig, hig⟩ := informationGain_ok T hvt p.bins
  have hg := gotoFull_valid hvt p.gotoThr p.gotoMu p.gotoSigma
  constructor
  · intro he
    unfold evaluate
    simp only [hv0, hf, hc, hg, he, bind_ok_eq, bind_error_eq]
  · rintro ⟨g, hgo⟩
    unfold evaluate
    simp only [hv0, hf, hc, hg, hgo, hps, hct, hig, bind_ok_eq, pure_eq_ok]
    exact ⟨_, rfl⟩

/-- every valid input is scored by `evaluate` when `goto_threshold < 1`, whatever the other parameters -/
theorem evaluate_total {α : Type} (T : TOps α) {ref0 est0 : List Rat} (hv : Valid ref0 est0) (p : Params)
    (hthr : p.gotoThr < 1) : ∃ v, evaluate T ref0 est0 p = .ok v := by
  refine (evaluate_classify T hv p).2 ?_
  rcases gotoCore_classify (trimBeats ref0 p.minBeatTime) (trimBeats est0 p.minBeatTime) p.gotoThr p.gotoMu
    p.gotoSigma with ⟨_, _, _, h1⟩ | ⟨hok, _⟩
  · exact absurd hthr (not_lt.2 h1)
  · exact hok

theorem evaluate_invalid {α : Type} (T : TOps α) {ref0 est0 : List Rat} (hv : ¬ Valid ref0 est0) (p : Params) :
    evaluate T ref0 est0 p = .error .valueError := by
  unfold evaluate
  rw [validate_of_not_valid hv]
  rfl

/-- exactly these inputs make `evaluate` escape with `IndexError`: valid arrays, a beat at or after `min_beat_time`
    on both sides, `goto_threshold ≥ 1` -/
theorem evaluate_indexError_iff {α : Type} (T : TOps α) (ref0 est0 : List Rat) (p : Params) :
    evaluate T ref0 est0 p = .error .indexError ↔
      Valid ref0 est0 ∧ trimBeats ref0 p.minBeatTime ≠ [] ∧ trimBeats est0 p.minBeatTime ≠ [] ∧ 1 ≤ p.gotoThr := by
  by_cases hv : Valid ref0 est0
  · obtain ⟨h1, h2⟩ := evaluate_classify T hv p
    rcases gotoCore_classify (trimBeats ref0 p.minBeatTime) (trimBeats est0 p.minBeatTime) p.gotoThr p.gotoMu
      p.gotoSigma with ⟨he, hc⟩ | ⟨hok, hn⟩
    · exact ⟨fun _ => ⟨hv, hc⟩, fun _ => h1 he⟩
    · obtain ⟨v, hv'⟩ := h2 hok
      rw [hv']
      constructor
      · intro h; cases h
      · intro h; exact absurd h.2 hn
  · rw [evaluate_invalid T hv]
    constructor
    · intro h; cases h
    · intro h; exact absurd h.1 hv

def evaluate_errors_full_statement : Prop :=
  ∀ (ref0 est0 : List Rat) (p : Params),
    (∃ v, evaluate floatOps ref0 est0 p = .ok v) ∨ evaluate floatOps ref0 est0 p = .error .valueError

/-- refuted: `evaluate([6, 7], [6], goto_threshold=1)` raises `IndexError` -/
theorem evaluate_errors_full_false : ¬ evaluate_errors_full_statement := by
  intro h
  have h1 : evaluate floatOps [6, 7] [6] { gotoThr := 1 } = .error .indexError :=
    (evaluate_indexError_iff floatOps [6, 7] [6] { gotoThr := 1 }).2
      ⟨(validate_ok_iff _ _).1 (by decide +kernel), by decide +kernel, by decide +kernel, by decide +kernel⟩
  rcases h [6, 7] [6] { gotoThr := 1 } with ⟨v, hv⟩ | hv <;> rw [h1] at hv <;> cases hv

theorem evaluate_errors_partial {α : Type} (T : TOps α) (ref0 est0 : List Rat) (p : Params) :
    (∃ v, evaluate T ref0 est0 p = .ok v) ∨ evaluate T ref0 est0 p = .error .valueError ∨
      evaluate T ref0 est0 p = .error .indexError := by
  by_cases hv : Valid ref0 est0
  · obtain ⟨h1, h2⟩ := evaluate_classify T hv p
    rcases gotoCore_classify (trimBeats ref0 p.minBeatTime) (trimBeats est0 p.minBeatTime) p.gotoThr p.gotoMu
      p.gotoSigma with ⟨he, _⟩ | ⟨hok, _⟩
    · exact Or.inr (Or.inr (h1 he))
    · exact Or.inl (h2 hok)
  · exact Or.inr (Or.inl (evaluate_invalid T hv p))

theorem evaluate_errors_lt_one {α : Type} (T : TOps α) (ref0 est0 : List Rat) (p : Params) (hthr : p.gotoThr < 1) :
    (∃ v, evaluate T ref0 est0 p = .ok v) ∨ evaluate T ref0 est0 p = .error .valueError := by
  rcases evaluate_errors_partial T ref0 est0 p with h | h | h
  · exact Or.inl h
  · exact Or.inr h
  · exact absurd ((evaluate_indexError_iff T ref0 est0 p).1 h).2.2.2 (not_le.2 hthr)

/-! ## non-vacuity -/

-- duplicate beats, an estimate that starts earlier and runs longer than the reference
example : Valid [6, 7, 7, 8] [11 / 2, 6, 7, 9, 30000] := (validate_ok_iff _ _).1 (by decide +kernel)
-- empty and single-beat sides are valid
example : Valid [] [7] := (validate_ok_iff _ _).1 (by decide +kernel)
example : goto [] [7] = .ok 0 := by decide +kernel
example : continuity [6, 6] [6, 7] = .ok (0, 0, 0, 0) := by decide +kernel
example : ¬ Valid [7, 6] [] := fun h => by
  have := (validate_ok_iff _ _).2 h
  revert this; decide +kernel
example : continuity [7, 6] [] = .error .valueError := by decide +kernel
example : goto [1, 2] [1] (99 / 100) = .ok 0 := by decide +kernel
example : ∃ v, evaluate floatOps [6, 7, 7] [6] {} = .ok v :=
  evaluate_total floatOps ((validate_ok_iff _ _).1 (by decide +kernel)) {} (by decide +kernel)

end Mir.C14.Beat
