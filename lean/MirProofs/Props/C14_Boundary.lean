import MirProofs.Props.C14
import MirProofs.Lemmas.BoundaryTotal

/-!
# C14 (task level) — `mir_eval.segment` boundary metrics: `detection`, `deviation`

`Props/C14.lean` proves that the *validator* accepts exactly the documented convention.  Here the whole metric
functions (model: `MirModel/Boundary.lean`) are shown

* `*_total`  — to return a value on every valid input (empty `(0, 2)` sides, single intervals, estimates that start
  earlier / run longer than the reference and shared boundaries included: validity says nothing about the relative
  position of the two annotations), under every window / beta / trim setting;
* `*_errors` — to raise nothing but `ValueError` on any input whatsoever (`np.median` of nothing and `min` over an
  empty axis are guarded by the `(NaN, NaN)` branch of `deviation`).

The validator of the metric model (rows `(start, end)`) is tied to the validator model of `Props/C14.lean`
(array descriptors) by `validateBoundary_agrees`.
-/
namespace Mir.C14.Boundary
open Mir.Boundary Mir.Validate Mir.Totality

/-- the documented convention of `validate_boundary`: both sides are valid interval arrays (Props/C14.lean) -/
def Valid (ref est : List (Rat × Rat)) : Prop := ValidIntervals (ofRows ref) ∧ ValidIntervals (ofRows est)

/-- the interval validator of the metric model is `util.validate_intervals` of the validator model -/
theorem validateIntervals_agrees (iv : List (Rat × Rat)) :
    Mir.Boundary.validateIntervals iv = utilIntervals (ofRows iv) := by
  unfold Mir.Boundary.validateIntervals utilIntervals
  rw [rows2_ofRows, any_neg_ofRows]
  have h0 : notNby2 (ofRows iv).shape = false := by simp [ofRows, notNby2]
  rw [h0]
  cases h1 : iv.any (fun p => decide (p.1 < 0) || decide (p.2 < 0)) <;>
    cases h2 : iv.any (fun p => decide (p.2 ≤ p.1)) <;> rfl

/-- `segment.validate_boundary` of the metric model = the validator model on the same `(n, 2)` arrays -/
theorem validateBoundary_agrees (ref est : List (Rat × Rat)) (trim : Bool) :
    validateBoundary ref est trim = segmentBoundary (ofRows ref) (ofRows est) trim := by
  unfold validateBoundary segmentBoundary
  rw [validateIntervals_agrees, validateIntervals_agrees]
  rfl

theorem validate_of_valid {ref est : List (Rat × Rat)} (h : Valid ref est) (trim : Bool) :
    validateBoundary ref est trim = .ok () := by
  rw [validateBoundary_agrees]
  exact validate_boundary_accepts h.1 h.2 trim

/-- validity in elementary terms: no negative time, every duration strictly positive -/
theorem valid_iff (ref est : List (Rat × Rat)) :
    Valid ref est ↔ (∀ p ∈ ref, 0 ≤ p.1 ∧ 0 ≤ p.2 ∧ p.1 < p.2) ∧ (∀ p ∈ est, 0 ≤ p.1 ∧ 0 ≤ p.2 ∧ p.1 < p.2) := by
  unfold Valid
  rw [← validate_intervals_ok_iff, ← validate_intervals_ok_iff, ← validateIntervals_agrees,
    ← validateIntervals_agrees, validateIntervals_ok_iff, validateIntervals_ok_iff]

/-! ## detection -/

/-- every valid input is scored, whatever the window, beta and trim -/
theorem detection_total {ref est : List (Rat × Rat)} (h : Valid ref est) (window beta : Rat) (trim : Bool) :
    ∃ v, detection ref est window beta trim = .ok v :=
  ⟨_, detection_of_valid window beta (validate_of_valid h trim)⟩

/-- on any input: a score or `ValueError`, nothing else -/
theorem detection_errors (ref est : List (Rat × Rat)) (window beta : Rat) (trim : Bool) :
    (∃ v, detection ref est window beta trim = .ok v) ∨ detection ref est window beta trim = .error .valueError := by
  rcases validateBoundary_cases ref est trim with h | h
  · exact Or.inl ⟨_, detection_of_valid window beta h⟩
  · exact Or.inr (detection_of_invalid window beta h)

/-- the score is returned exactly on the valid inputs -/
theorem detection_ok_iff (ref est : List (Rat × Rat)) (window beta : Rat) (trim : Bool) :
    (∃ v, detection ref est window beta trim = .ok v) ↔ Valid ref est := by
  constructor
  · rintro ⟨v, hv⟩
    have := validate_of_detection_ok hv
    rw [validateBoundary_agrees, validate_boundary_ok_iff] at this
    exact this
  · intro h; exact detection_total h window beta trim

/-! ## deviation -/

theorem deviation_total {ref est : List (Rat × Rat)} (h : Valid ref est) (trim : Bool) :
    ∃ v, deviation ref est trim = .ok v := by
  have hv := validate_of_valid h trim
  unfold deviation
  rw [hv]
  show ∃ v, (match boundaries ref trim, boundaries est trim with
    | r0 :: rs, e0 :: es => _
    | _, _ => _) = Except.ok v
  split
  · exact ⟨_, rfl⟩
  · exact ⟨_, rfl⟩

theorem deviation_errors (ref est : List (Rat × Rat)) (trim : Bool) :
    (∃ v, deviation ref est trim = .ok v) ∨ deviation ref est trim = .error .valueError := by
  rcases validateBoundary_cases ref est trim with h | h
  · left
    unfold deviation
    rw [h]
    show ∃ v, (match boundaries ref trim, boundaries est trim with
      | r0 :: rs, e0 :: es => _
      | _, _ => _) = Except.ok v
    split
    · exact ⟨_, rfl⟩
    · exact ⟨_, rfl⟩
  · exact Or.inr (deviation_of_invalid h)

theorem deviation_ok_iff (ref est : List (Rat × Rat)) (trim : Bool) :
    (∃ v, deviation ref est trim = .ok v) ↔ Valid ref est := by
  constructor
  · rintro ⟨v, hv⟩
    have := validate_of_deviation_ok hv
    rw [validateBoundary_agrees, validate_boundary_ok_iff] at this
    exact this
  · intro h; exact deviation_total h trim

/-! ## non-vacuity -/

-- estimate starts earlier and runs longer than the reference; a boundary coincides with the reference end
example : Valid [(1, 2), (2, 4)] [(0, 2), (2, 4), (4, 9)] := (valid_iff _ _).2 (by decide +kernel)
-- empty sides are valid and scored (NaN deviations)
example : Valid [] [] := (valid_iff _ _).2 (by simp)
example : deviation [] [(0, 1)] false = .ok (none, none) := by decide +kernel
example : detection [(0, 1)] [(0, 1)] (1 / 2) 1 true = .ok (0, 0, 0) := by decide +kernel
example : deviation [(0, 1)] [(0, 1)] true = .ok (none, none) := by decide +kernel
example : detection [(1, 1)] [(0, 1)] (1 / 2) 1 false = .error .valueError := by decide +kernel
example : ¬ Valid [(1, 1)] [] := fun h => by
  have := ((valid_iff _ _).1 h).1 (1, 1) (by simp)
  exact absurd this.2.2 (by decide +kernel)

end Mir.C14.Boundary
