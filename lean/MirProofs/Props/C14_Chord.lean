import MirProofs.Lemmas.C14Chord
/-!
  C14 (task level, chord interval scores) — valid annotations are always scored; malformed ones are rejected
  cleanly.

  Model functions (`MirModel/Intervals.lean`): `wacc` = `chord.weighted_accuracy` on already computed
  comparison scores, `dhd` = `chord.directional_hamming_distance`, `overseg`, `underseg`, `seg`, and
  `chordScore cmp` = one accuracy of `chord.evaluate` (merge, durations, weighted accuracy).

  For each function `f`:
  * `f_total`   — `Valid_f x → ∃ v, f x = .ok v`, `Valid_f` being the documented convention, stated here as an
                  independent predicate;
  * `f_ok_iff`  — … and nothing else is scored;
  * `f_errors`  — every failure is a `ValueError` — where that is true.  For `dhd`/`overseg`/`underseg`/`seg`
                  it is NOT: an EMPTY reference passes every check and `reference_intervals[-1, 1]` raises
                  `IndexError`.  `f_errors_full_statement` is refuted by a witness and the exact trichotomy
                  is proved as `f_errors_partial`.
  All statements are for interval lists of arbitrary size.
-/
namespace Mir.C14.Chord
open Mir Mir.Iv

/-! ## the documented conventions, as predicates -/

/-- `util.validate_intervals`: no negative time, every duration strictly positive -/
structure ValidIntervals (xs : Ivals) : Prop where
  nonneg : ∀ x ∈ xs, 0 ≤ x.1 ∧ 0 ≤ x.2
  positive : ∀ x ∈ xs, x.1 < x.2

/-- a segmentation that can be the reference side of `directional_hamming_distance`: valid intervals, at
    least one, and none starts before its predecessor ended -/
structure ValidSegmentation (xs : Ivals) : Prop where
  valid : ValidIntervals xs
  nonempty : xs ≠ []
  disjoint : overlaps xs = false

/-- `chord.weighted_accuracy`: as many weights as comparison scores, no negative weight -/
structure ValidWeighted (cs ws : List Rat) : Prop where
  sameLength : cs.length = ws.length
  weightsNonneg : ∀ w ∈ ws, 0 ≤ w

/-- `directional_hamming_distance(reference, estimated)` -/
structure ValidDhd (ref est : Ivals) : Prop where
  reference : ValidSegmentation ref
  estimated : ValidIntervals est

/-- `seg` uses both directions: both sides must be segmentations -/
structure ValidSeg (ref est : Ivals) : Prop where
  reference : ValidSegmentation ref
  estimated : ValidSegmentation est

/-! ## `util.validate_intervals` (as used inside the scores) -/

theorem validate_intervals_ok_iff (xs : Ivals) : validateIntervals xs = .ok () ↔ ValidIntervals xs := by
  rw [validateIntervals_ok_iff]
  exact ⟨fun h => ⟨h.1, h.2⟩, fun h => ⟨h.nonneg, h.positive⟩⟩

theorem validate_intervals_errors (xs : Ivals) :
    validateIntervals xs = .ok () ∨ validateIntervals xs = .error .valueError :=
  validateIntervals_cases xs

/-- `overlaps` is the documented check: it compares each row's end with the next row's start -/
theorem overlaps_false_iff_consecutive (xs : Ivals) :
    overlaps xs = false ↔ ∀ (i : Nat) (h : i + 1 < xs.length), xs[i].2 ≤ xs[i + 1].1 :=
  overlaps_false_iff xs

example : ValidSegmentation [(0, 1), (1, 5 / 2), (3, 4)] :=
  ⟨⟨by decide +kernel, by decide +kernel⟩, by decide, by decide +kernel⟩
example : validateIntervals [(0, 1), (2, 2)] = .error .valueError := by decide +kernel
example : validateIntervals [(-1, 1)] = .error .valueError := by decide +kernel

/-! ## `chord.weighted_accuracy` -/

/-- well-formed arguments are always scored (possibly with `nan`: a returned value, not an exception) -/
theorem wacc_total {cs ws : List Rat} (h : ValidWeighted cs ws) : ∃ v, wacc cs ws = .ok v :=
  wacc_ok_of h.sameLength h.weightsNonneg

/-- … and nothing else is -/
theorem wacc_ok_iff (cs ws : List Rat) : (∃ v, wacc cs ws = .ok v) ↔ ValidWeighted cs ws := by
  rw [Mir.C14.Chord.wacc_ok_iff_raw]
  exact ⟨fun h => ⟨h.1, h.2⟩, fun h => ⟨h.sameLength, h.weightsNonneg⟩⟩

/-- every failure is a `ValueError` -/
theorem wacc_errors (cs ws : List Rat) : (∃ v, wacc cs ws = .ok v) ∨ wacc cs ws = .error .valueError :=
  wacc_cases cs ws

theorem wacc_rejects {cs ws : List Rat} (h : ¬ ValidWeighted cs ws) : wacc cs ws = .error .valueError := by
  rcases wacc_errors cs ws with hok | he
  · exact absurd ((wacc_ok_iff cs ws).1 hok) h
  · exact he

example : ValidWeighted [1, 0, -1] [1 / 2, 1 / 4, 8] ∧ wacc [1, 0, -1] [1 / 2, 1 / 4, 8] = .ok (.val (2 / 3)) :=
  ⟨⟨rfl, by decide +kernel⟩, by decide +kernel⟩
/-- `nan` is a value: the only comparable entry has weight 0 -/
example : ValidWeighted [-1, 1] [1, 0] ∧ wacc [-1, 1] [1, 0] = .ok .nan :=
  ⟨⟨rfl, by decide +kernel⟩, by decide +kernel⟩
example : wacc [1, 0] [1] = .error .valueError ∧ wacc [1, 0] [1, -1] = .error .valueError := by
  decide +kernel

/-! ## `chord.directional_hamming_distance` -/

/-- the per-row term never fails: `np.hstack([start, …, end])` has at least two entries, so
    `np.diff(…).max()` is never taken over an empty array -/
theorem dhdRow_total (ts : List Rat) (x : Rat × Rat) : ∃ d, dhdRow ts x = .ok d := dhdRow_ok ts x

theorem stacked_has_diff (a b : Rat) (mid : List Rat) : ∃ d, maxDiff ([a] ++ mid ++ [b]) = some d :=
  maxDiff_some_of_two_le (stacked_length a b mid)

theorem dhd_ok_iff (ref est : Ivals) : (∃ v, dhd ref est = .ok v) ↔ ValidDhd ref est := by
  constructor
  · rintro ⟨v, hv⟩
    rcases dhd_cases ref est with ⟨h, _⟩ | ⟨h, _⟩ | ⟨_, he, hr, ho, hne⟩
    · rw [h] at hv; cases hv
    · rw [h] at hv; cases hv
    · exact ⟨⟨(validate_intervals_ok_iff ref).1 hr, hne, ho⟩, (validate_intervals_ok_iff est).1 he⟩
  · intro hV
    have hr := (validate_intervals_ok_iff ref).2 hV.reference.valid
    have he := (validate_intervals_ok_iff est).2 hV.estimated
    rcases dhd_cases ref est with ⟨_, h | h | h⟩ | ⟨_, _, h⟩ | ⟨h, _⟩
    · rw [he] at h; cases h
    · rw [hr] at h; cases h
    · rw [hV.reference.disjoint] at h; cases h
    · exact absurd h hV.reference.nonempty
    · exact h

/-- valid annotations are always scored -/
theorem dhd_total {ref est : Ivals} (h : ValidDhd ref est) : ∃ v, dhd ref est = .ok v :=
  (dhd_ok_iff ref est).2 h

/-- … with a number, never `nan`: a valid non-overlapping reference spans a positive duration -/
theorem dhd_total_number {ref est : Ivals} (h : ValidDhd ref est) : ∃ q, dhd ref est = .ok (.val q) := by
  have hr := (validate_intervals_ok_iff ref).2 h.reference.valid
  have he := (validate_intervals_ok_iff est).2 h.estimated
  rcases dhd_spec ref est with ⟨_, g | g | g⟩ | ⟨_, _, g⟩ | ⟨⟨rows, a, z, _, ha, hz, hd⟩, _⟩
  · rw [he] at g; cases g
  · rw [hr] at g; cases g
  · rw [h.reference.disjoint] at g; cases g
  · exact absurd g h.reference.nonempty
  · have hpos := span_pos h.reference.valid.positive h.reference.disjoint ha hz
    refine ⟨qsum rows / (z.2 - a.1), ?_⟩
    rw [hd, dhdValue, if_neg (by intro h0; linarith)]

/-- FULL-STRENGTH error statement: every failure is a `ValueError`.  FALSE of the code as it is. -/
def dhd_errors_full_statement : Prop :=
  ∀ ref est : Ivals, (∃ v, dhd ref est = .ok v) ∨ dhd ref est = .error .valueError

/-- witness: an empty reference against one estimated interval — `reference_intervals[-1, 1]` raises
    `IndexError` -/
theorem dhd_errors_full_statement_false : ¬ dhd_errors_full_statement := by
  intro h
  have e : dhd [] [(0, 1)] = .error .indexError := by decide +kernel
  rcases h [] [(0, 1)] with ⟨v, hv⟩ | hv <;> rw [e] at hv <;> cases hv

/-- when exactly the `IndexError` escapes: empty reference, estimate passing validation -/
theorem dhd_indexError_iff (ref est : Ivals) :
    dhd ref est = .error .indexError ↔ ref = [] ∧ ValidIntervals est := by
  constructor
  · intro hv
    rcases dhd_cases ref est with ⟨h, _⟩ | ⟨_, he, hr⟩ | ⟨⟨v, h⟩, _⟩
    · rw [h] at hv; cases hv
    · exact ⟨hr, (validate_intervals_ok_iff est).1 he⟩
    · rw [h] at hv; cases hv
  · rintro ⟨rfl, hV⟩
    have he := (validate_intervals_ok_iff est).2 hV
    rcases dhd_cases [] est with ⟨_, h | h | h⟩ | ⟨h, _⟩ | ⟨_, _, _, _, h⟩
    · rw [he] at h; cases h
    · cases h
    · cases h
    · exact h
    · exact absurd rfl h

/-- the exact trichotomy: scored, `ValueError`, or the `IndexError` of an empty reference -/
theorem dhd_errors_partial (ref est : Ivals) :
    (∃ v, dhd ref est = .ok v) ∨ dhd ref est = .error .valueError ∨
      (dhd ref est = .error .indexError ∧ ref = [] ∧ validateIntervals est = .ok ()) := by
  rcases dhd_cases ref est with ⟨h, _⟩ | ⟨h, he, hr⟩ | ⟨h, _⟩
  · exact Or.inr (Or.inl h)
  · exact Or.inr (Or.inr ⟨h, hr, he⟩)
  · exact Or.inl h

/-- with a non-empty reference every failure is a `ValueError` -/
theorem dhd_errors_nonempty {ref : Ivals} (est : Ivals) (hne : ref ≠ []) :
    (∃ v, dhd ref est = .ok v) ∨ dhd ref est = .error .valueError := by
  rcases dhd_errors_partial ref est with h | h | ⟨_, h, _⟩
  · exact Or.inl h
  · exact Or.inr h
  · exact absurd h hne

/-- malformed input with a non-empty reference is rejected with `ValueError` -/
theorem dhd_rejects {ref est : Ivals} (hne : ref ≠ []) (h : ¬ ValidDhd ref est) :
    dhd ref est = .error .valueError := by
  rcases dhd_errors_nonempty est hne with hok | he
  · exact absurd ((dhd_ok_iff ref est).1 hok) h
  · exact he

example : ValidDhd [(0, 2), (2, 4)] [(0, 1), (1, 3), (3, 4)] ∧
    dhd [(0, 2), (2, 4)] [(0, 1), (1, 3), (3, 4)] = .ok (.val (1 / 2)) :=
  ⟨⟨⟨⟨by decide +kernel, by decide +kernel⟩, by decide, by decide +kernel⟩,
    ⟨by decide +kernel, by decide +kernel⟩⟩, by decide +kernel⟩
/-- an empty ESTIMATE is scored -/
example : ValidDhd [(0, 1)] [] ∧ dhd [(0, 1)] [] = .ok (.val 0) :=
  ⟨⟨⟨⟨by decide +kernel, by decide +kernel⟩, by decide, by decide +kernel⟩, ⟨by simp, by simp⟩⟩,
    by decide +kernel⟩
example : dhd [] [(0, 1)] = .error .indexError ∧ dhd [] [] = .error .indexError ∧
    dhd [] [(1, 0)] = .error .valueError ∧ dhd [(0, 2), (1, 3)] [(0, 1)] = .error .valueError := by
  decide +kernel

/-! ## `chord.overseg` = `1 - dhd(reference, estimated)` -/

theorem overseg_ok_iff (ref est : Ivals) : (∃ v, overseg ref est = .ok v) ↔ ValidDhd ref est := by
  rw [← dhd_ok_iff]
  unfold overseg
  cases dhd ref est with
  | ok v => exact ⟨fun _ => ⟨_, rfl⟩, fun _ => ⟨_, rfl⟩⟩
  | error e => exact ⟨fun ⟨_, h⟩ => (by cases h), fun ⟨_, h⟩ => (by cases h)⟩

theorem overseg_total {ref est : Ivals} (h : ValidDhd ref est) : ∃ v, overseg ref est = .ok v :=
  (overseg_ok_iff ref est).2 h

theorem overseg_total_number {ref est : Ivals} (h : ValidDhd ref est) :
    ∃ q, overseg ref est = .ok (.val q) := by
  obtain ⟨q, hq⟩ := dhd_total_number h
  exact ⟨1 - q, by unfold overseg; rw [hq]; rfl⟩

def overseg_errors_full_statement : Prop :=
  ∀ ref est : Ivals, (∃ v, overseg ref est = .ok v) ∨ overseg ref est = .error .valueError

theorem overseg_errors_full_statement_false : ¬ overseg_errors_full_statement := by
  intro h
  have e : overseg [] [(0, 1)] = .error .indexError := by decide +kernel
  rcases h [] [(0, 1)] with ⟨v, hv⟩ | hv <;> rw [e] at hv <;> cases hv

theorem overseg_errors_partial (ref est : Ivals) :
    (∃ v, overseg ref est = .ok v) ∨ overseg ref est = .error .valueError ∨
      (overseg ref est = .error .indexError ∧ ref = [] ∧ validateIntervals est = .ok ()) := by
  rcases overseg_cases ref est with ⟨h, _⟩ | ⟨h, he, hr⟩ | ⟨h, _⟩
  · exact Or.inr (Or.inl h)
  · exact Or.inr (Or.inr ⟨h, hr, he⟩)
  · exact Or.inl h

theorem overseg_errors_nonempty {ref : Ivals} (est : Ivals) (hne : ref ≠ []) :
    (∃ v, overseg ref est = .ok v) ∨ overseg ref est = .error .valueError := by
  rcases overseg_errors_partial ref est with h | h | ⟨_, h, _⟩
  · exact Or.inl h
  · exact Or.inr h
  · exact absurd h hne

example : overseg [(0, 2), (2, 4)] [(0, 1), (1, 3), (3, 4)] = .ok (.val (1 / 2)) ∧
    overseg [(0, 1)] [] = .ok (.val 1) ∧ overseg [] [(0, 1)] = .error .indexError := by decide +kernel

/-! ## `chord.underseg` = `1 - dhd(estimated, reference)`: the roles swap -/

theorem underseg_ok_iff (ref est : Ivals) : (∃ v, underseg ref est = .ok v) ↔ ValidDhd est ref := by
  rw [← dhd_ok_iff]
  unfold underseg
  cases dhd est ref with
  | ok v => exact ⟨fun _ => ⟨_, rfl⟩, fun _ => ⟨_, rfl⟩⟩
  | error e => exact ⟨fun ⟨_, h⟩ => (by cases h), fun ⟨_, h⟩ => (by cases h)⟩

theorem underseg_total {ref est : Ivals} (h : ValidDhd est ref) : ∃ v, underseg ref est = .ok v :=
  (underseg_ok_iff ref est).2 h

theorem underseg_total_number {ref est : Ivals} (h : ValidDhd est ref) :
    ∃ q, underseg ref est = .ok (.val q) := by
  obtain ⟨q, hq⟩ := dhd_total_number h
  exact ⟨1 - q, by unfold underseg; rw [hq]; rfl⟩

def underseg_errors_full_statement : Prop :=
  ∀ ref est : Ivals, (∃ v, underseg ref est = .ok v) ∨ underseg ref est = .error .valueError

/-- witness: an empty ESTIMATE (the side that plays the reference role) -/
theorem underseg_errors_full_statement_false : ¬ underseg_errors_full_statement := by
  intro h
  have e : underseg [(0, 1)] [] = .error .indexError := by decide +kernel
  rcases h [(0, 1)] [] with ⟨v, hv⟩ | hv <;> rw [e] at hv <;> cases hv

theorem underseg_errors_partial (ref est : Ivals) :
    (∃ v, underseg ref est = .ok v) ∨ underseg ref est = .error .valueError ∨
      (underseg ref est = .error .indexError ∧ est = [] ∧ validateIntervals ref = .ok ()) := by
  rcases underseg_cases ref est with ⟨h, _⟩ | ⟨h, hr, he⟩ | ⟨h, _⟩
  · exact Or.inr (Or.inl h)
  · exact Or.inr (Or.inr ⟨h, he, hr⟩)
  · exact Or.inl h

theorem underseg_errors_nonempty (ref : Ivals) {est : Ivals} (hne : est ≠ []) :
    (∃ v, underseg ref est = .ok v) ∨ underseg ref est = .error .valueError := by
  rcases underseg_errors_partial ref est with h | h | ⟨_, h, _⟩
  · exact Or.inl h
  · exact Or.inr h
  · exact absurd h hne

example : underseg [(0, 1), (1, 3), (3, 4)] [(0, 2), (2, 4)] = .ok (.val (1 / 2)) ∧
    underseg [] [(0, 1)] = .ok (.val 1) ∧ underseg [(0, 1)] [] = .error .indexError := by decide +kernel

/-! ## `chord.seg` = `min(overseg, underseg)` -/

theorem seg_ok_iff (ref est : Ivals) : (∃ v, seg ref est = .ok v) ↔ ValidSeg ref est := by
  constructor
  · rintro ⟨v, hv⟩
    rcases seg_cases ref est with ⟨h, _⟩ | ⟨h, _⟩ | ⟨_, hr, he, hor, hoe, hnr, hne⟩
    · rw [h] at hv; cases hv
    · rw [h] at hv; cases hv
    · exact ⟨⟨(validate_intervals_ok_iff ref).1 hr, hnr, hor⟩, ⟨(validate_intervals_ok_iff est).1 he, hne, hoe⟩⟩
  · intro hV
    have hr := (validate_intervals_ok_iff ref).2 hV.reference.valid
    have he := (validate_intervals_ok_iff est).2 hV.estimated.valid
    rcases seg_cases ref est with ⟨_, h | h | h | ⟨h, _⟩⟩ | ⟨_, _, _, h | ⟨h, _⟩⟩ | ⟨h, _⟩
    · rw [hr] at h; cases h
    · rw [he] at h; cases h
    · rw [hV.estimated.disjoint] at h; cases h
    · rw [hV.reference.disjoint] at h; cases h
    · exact absurd h hV.estimated.nonempty
    · exact absurd h hV.reference.nonempty
    · exact h

theorem seg_total {ref est : Ivals} (h : ValidSeg ref est) : ∃ v, seg ref est = .ok v :=
  (seg_ok_iff ref est).2 h

theorem seg_total_number {ref est : Ivals} (h : ValidSeg ref est) : ∃ q, seg ref est = .ok (.val q) := by
  obtain ⟨u, hu⟩ := underseg_total_number (ref := ref) (est := est) ⟨h.estimated, h.reference.valid⟩
  obtain ⟨o, ho⟩ := overseg_total_number (ref := ref) (est := est) ⟨h.reference, h.estimated.valid⟩
  unfold seg
  simp only [bind, Except.bind, pure, Except.pure, hu, ho, Num.pymin]
  split
  · exact ⟨_, rfl⟩
  · exact ⟨_, rfl⟩

def seg_errors_full_statement : Prop :=
  ∀ ref est : Ivals, (∃ v, seg ref est = .ok v) ∨ seg ref est = .error .valueError

theorem seg_errors_full_statement_false : ¬ seg_errors_full_statement := by
  intro h
  have e : seg [] [(0, 1)] = .error .indexError := by decide +kernel
  rcases h [] [(0, 1)] with ⟨v, hv⟩ | hv <;> rw [e] at hv <;> cases hv

/-- exactly when the `IndexError` escapes (`underseg` is evaluated first) -/
theorem seg_indexError_iff (ref est : Ivals) :
    seg ref est = .error .indexError ↔
      ValidIntervals ref ∧ ValidIntervals est ∧ (est = [] ∨ (ref = [] ∧ overlaps est = false)) := by
  constructor
  · intro hv
    rcases seg_cases ref est with ⟨h, _⟩ | ⟨_, hr, he, hc⟩ | ⟨⟨v, h⟩, _⟩
    · rw [h] at hv; cases hv
    · refine ⟨(validate_intervals_ok_iff ref).1 hr, (validate_intervals_ok_iff est).1 he, ?_⟩
      rcases hc with hc | ⟨h1, _, h3⟩
      · exact Or.inl hc
      · exact Or.inr ⟨h1, h3⟩
    · rw [h] at hv; cases hv
  · rintro ⟨hVr, hVe, hc⟩
    have hr := (validate_intervals_ok_iff ref).2 hVr
    have he := (validate_intervals_ok_iff est).2 hVe
    rcases seg_cases ref est with ⟨_, h | h | h | h⟩ | ⟨h, _⟩ | ⟨_, _, _, _, _, hnr, hne⟩
    · rw [hr] at h; cases h
    · rw [he] at h; cases h
    · rcases hc with hc | ⟨_, hc⟩
      · subst hc; cases h
      · rw [hc] at h; cases h
    · obtain ⟨h, hne⟩ := h
      rcases hc with hc | ⟨hc, _⟩
      · exact absurd hc hne
      · subst hc; cases h
    · exact h
    · rcases hc with hc | ⟨hc, _⟩
      · exact absurd hc hne
      · exact absurd hc hnr

/-- the exact trichotomy: an `IndexError` only when one side is empty (and everything passed validation) -/
theorem seg_errors_partial (ref est : Ivals) :
    (∃ v, seg ref est = .ok v) ∨ seg ref est = .error .valueError ∨
      (seg ref est = .error .indexError ∧ (ref = [] ∨ est = []) ∧
        validateIntervals ref = .ok () ∧ validateIntervals est = .ok ()) := by
  rcases seg_cases ref est with ⟨h, _⟩ | ⟨h, hr, he, hc⟩ | ⟨h, _⟩
  · exact Or.inr (Or.inl h)
  · refine Or.inr (Or.inr ⟨h, ?_, hr, he⟩)
    rcases hc with hc | ⟨hc, _⟩
    · exact Or.inr hc
    · exact Or.inl hc
  · exact Or.inl h

theorem seg_errors_nonempty {ref est : Ivals} (hr : ref ≠ []) (he : est ≠ []) :
    (∃ v, seg ref est = .ok v) ∨ seg ref est = .error .valueError := by
  rcases seg_errors_partial ref est with h | h | ⟨_, h | h, _⟩
  · exact Or.inl h
  · exact Or.inr h
  · exact absurd h hr
  · exact absurd h he

example : ValidSeg [(0, 2), (2, 4)] [(0, 1), (1, 3), (3, 4)] ∧
    seg [(0, 2), (2, 4)] [(0, 1), (1, 3), (3, 4)] = .ok (.val (1 / 2)) :=
  ⟨⟨⟨⟨by decide +kernel, by decide +kernel⟩, by decide, by decide +kernel⟩,
    ⟨⟨by decide +kernel, by decide +kernel⟩, by decide, by decide +kernel⟩⟩, by decide +kernel⟩
example : seg [] [(0, 1)] = .error .indexError ∧ seg [(0, 1)] [] = .error .indexError ∧
    seg [] [] = .error .indexError ∧ seg [] [(0, 2), (1, 3)] = .error .valueError := by decide +kernel

/-! ## bonus: the accuracy of `chord.evaluate` on two aligned segmentations -/

/-- two contiguous segmentations (each row starts where the previous one ended, positive durations) with the
    same non-negative start `lo` and the same end `hi` are always scored, whatever the comparison function:
    `merge_labeled_intervals`, `intervals_to_durations` and `weighted_accuracy` all succeed -/
theorem chordScore_total {L M : Type} (cmp : L → M → Rat) {lo hi : Rat} {ref : LI L} {est : LI M}
    (href : Contig lo ref) (hest : Contig lo est) {zr : Rat × Rat × L} {ze : Rat × Rat × M}
    (hzr : ref.getLast? = some zr) (hze : est.getLast? = some ze) (hre : zr.2.1 = hi) (hee : ze.2.1 = hi)
    (h0 : 0 ≤ lo) : ∃ v, chordScore cmp ref est = .ok v :=
  chordScore_ok cmp href hest hzr hze hre hee h0

example : ∃ v, chordScore (fun a b : Nat => if a = b then (1 : Rat) else 0)
    [((0 : Rat), (3 : Rat), 7), (3, 4, 9)] [((0 : Rat), (2 : Rat), 7), (2, 4, 9)] = .ok v :=
  chordScore_total _ (lo := 0) (hi := 4)
    (by refine ⟨rfl, by decide +kernel, rfl, by decide +kernel, trivial⟩)
    (by refine ⟨rfl, by decide +kernel, rfl, by decide +kernel, trivial⟩) rfl rfl rfl rfl (le_refl _)

end Mir.C14.Chord
