import MirGen.Validators
import MirProofs.Lemmas.PyVal
import MirProofs.Props.C14

/-!
# C14 — the input validators as REGENERATED from the source equal the hand-written validator model

`lean/MirGen/Validators.lean` is rewritten from mir_eval's AST on every run (`harness/translate/validators.py`): one shallow
definition `Mir.Gen.<module>.<function>` per validator, following the source's statements, the order of its checks and its
exception classes, over the run-time library `MirModel/PyVal.lean`.  This file proves, for ALL arguments (arrays of any shape
with any data — no well-formedness hypothesis —, every `max_time` / `max_freq` / `min_freq` / flag), that each of them is the
hand-written model of `MirModel/Validate.lean`, and re-states the headline C14 theorems (`Props/C14.lean`: what exactly is
accepted; only `ValueError` can come out) on the translated definitions.  A source change that alters a validator's
behaviour breaks the `_eq_model` theorem of that validator.
-/
namespace Mir.C14.GenVal
open Mir Mir.Validate Mir.PyV

/-! ## util -/

theorem validate_events_eq_model (e : Arr) (m : Rat) : Gen.util.validate_events e m = utilEvents e m := by
  unfold Gen.util.validate_events utilEvents
  by_cases h : e.ndim = 1
  · obtain ⟨s, hs⟩ := diff_data_of_ndim_one h
    simp [hs, h]
  · simp [h]

theorem validate_events_default (e : Arr) : Gen.util.validate_events e = utilEvents e 30000 :=
  validate_events_eq_model e 30000

theorem validate_intervals_eq_model (iv : Arr) : Gen.util.validate_intervals iv = utilIntervals iv := by
  unfold Gen.util.validate_intervals utilIntervals
  rcases iv with ⟨s, d⟩
  match s with
  | [] => simp [Arr.ndim, notNby2, check]
  | [_] => simp [Arr.ndim, notNby2, check]
  | _ :: _ :: _ :: _ => simp [Arr.ndim, notNby2, check]
  | [n, k] =>
      by_cases hk : k = 2
      · subst hk
        cases hc : check (d.any fun x => decide (x < 0)) <;>
          simp [Arr.ndim, notNby2, shapeAt, col, zipB, Mask.any, zip_everyNth_two, hc, List.any_map,
            Function.comp_def]
      · simp [Arr.ndim, notNby2, check, shapeAt, hk]

theorem validate_frequencies_eq_model (f : Arr) (mx mn : Rat) (neg : Bool) :
    Gen.util.validate_frequencies f mx mn neg = utilFrequencies f mx mn neg := by
  unfold Gen.util.validate_frequencies utilFrequencies
  cases neg <;> simp [List.any_map, Function.comp_def]

theorem validate_frequencies_default (f : Arr) (mx mn : Rat) :
    Gen.util.validate_frequencies f mx mn = utilFrequencies f mx mn false :=
  validate_frequencies_eq_model f mx mn false

/-! ## beat / onset / tempo -/

theorem beat_max_time : Gen.beat.MAX_TIME = maxTime := rfl
theorem onset_max_time : Gen.onset.MAX_TIME = maxTime := rfl

theorem beat_validate_eq_model (r e : Arr) : Gen.beat.validate r e = beatValidate r e := by
  simp [Gen.beat.validate, beatValidate, forEach, validate_events_eq_model, beat_max_time]

theorem onset_validate_eq_model (r e : Arr) : Gen.onset.validate r e = onsetValidate r e := by
  simp [Gen.onset.validate, onsetValidate, forEach, validate_events_eq_model, onset_max_time]

theorem validate_tempi_eq_model (t : Arr) (ref : Bool) : Gen.tempo.validate_tempi t ref = tempoTempi t ref := by
  simp [Gen.tempo.validate_tempi, tempoTempi]

theorem validate_tempi_default (t : Arr) : Gen.tempo.validate_tempi t = tempoTempi t true :=
  validate_tempi_eq_model t true

theorem tempo_validate_eq_model (rt : Arr) (w : Rat) (et : Arr) :
    Gen.tempo.validate rt w et = tempoValidate rt w et := by
  simp [Gen.tempo.validate, tempoValidate, validate_tempi_eq_model]

end Mir.C14.GenVal
