import MirGen.Validators
import MirProofs.Lemmas.PyVal
import MirProofs.Props.C14

/-!
# C14 — the input validators as REGENERATED from the source equal the hand-written validator model

`lean/MirGen/Validators.lean` is rewritten from mir_eval's AST on every run (`harness/translate/validators.py`): one shallow
definition `Mir.GenV.<module>.<function>` per validator, following the source's statements, the order of its checks and its
exception classes, over the run-time library `MirModel/PyVal.lean`.  This file proves, for ALL arguments (arrays of any shape
with any data — no well-formedness hypothesis —, every `max_time` / `max_freq` / `min_freq` / flag), that each of them is the
hand-written model of `MirModel/Validate.lean`, and re-states the headline C14 theorems (`Props/C14.lean`: what exactly is
accepted; only `ValueError` can come out) on the translated definitions.  A source change that alters a validator's
behaviour breaks the `_eq_model` theorem of that validator.
-/
-- simp sets carry fallbacks for harmless rewrites of the source (swapped operands, other column order)
set_option linter.unusedSimpArgs false

namespace Mir.C14.GenVal
open Mir Mir.Validate Mir.PyV

/-! ## util -/

theorem validate_events_eq_model (e : Arr) (m : Rat) : GenV.util.validate_events e m = utilEvents e m := by
  unfold GenV.util.validate_events utilEvents
  by_cases h : e.ndim = 1
  · obtain ⟨s, hs⟩ := diff_data_of_ndim_one h
    simp [hs, h]
  · simp [decide_eq_comm, Bool.or_comm, h]

theorem validate_events_default (e : Arr) : GenV.util.validate_events e = utilEvents e 30000 :=
  validate_events_eq_model e 30000

theorem validate_intervals_eq_model (iv : Arr) : GenV.util.validate_intervals iv = utilIntervals iv := by
  unfold GenV.util.validate_intervals utilIntervals
  rcases iv with ⟨s, d⟩
  match s with
  | [] => simp [decide_eq_comm, Bool.or_comm, Arr.ndim, notNby2, check]
  | [_] => simp [decide_eq_comm, Bool.or_comm, Arr.ndim, notNby2, check]
  | _ :: _ :: _ :: _ => simp [decide_eq_comm, Bool.or_comm, Arr.ndim, notNby2, check]
  | [n, k] =>
      by_cases hk : k = 2
      · subst hk
        cases hc : check (d.any fun x => decide (x < 0)) <;>
          simp [decide_eq_comm, Bool.or_comm, Arr.ndim, notNby2, shapeAt, col, zipB, Mask.any, zip_everyNth_two, zip_everyNth_two', hc, List.any_map,
            Function.comp_def]
      · simp [decide_eq_comm, Bool.or_comm, Arr.ndim, notNby2, check, shapeAt, hk]

theorem validate_frequencies_eq_model (f : Arr) (mx mn : Rat) (neg : Bool) :
    GenV.util.validate_frequencies f mx mn neg = utilFrequencies f mx mn neg := by
  unfold GenV.util.validate_frequencies utilFrequencies
  cases neg <;> simp [decide_eq_comm, Bool.or_comm, List.any_map, Function.comp_def]

theorem validate_frequencies_default (f : Arr) (mx mn : Rat) :
    GenV.util.validate_frequencies f mx mn = utilFrequencies f mx mn false :=
  validate_frequencies_eq_model f mx mn false

/-! ## beat / onset / tempo -/

theorem beat_max_time : GenV.beat.MAX_TIME = maxTime := rfl
theorem onset_max_time : GenV.onset.MAX_TIME = maxTime := rfl

theorem beat_validate_eq_model (r e : Arr) : GenV.beat.validate r e = beatValidate r e := by
  simp [decide_eq_comm, Bool.or_comm, GenV.beat.validate, beatValidate, forEach, validate_events_eq_model, beat_max_time]

theorem onset_validate_eq_model (r e : Arr) : GenV.onset.validate r e = onsetValidate r e := by
  simp [decide_eq_comm, Bool.or_comm, GenV.onset.validate, onsetValidate, forEach, validate_events_eq_model, onset_max_time]

theorem validate_tempi_eq_model (t : Arr) (ref : Bool) : GenV.tempo.validate_tempi t ref = tempoTempi t ref := by
  simp [decide_eq_comm, Bool.or_comm, GenV.tempo.validate_tempi, tempoTempi]

theorem validate_tempi_default (t : Arr) : GenV.tempo.validate_tempi t = tempoTempi t true :=
  validate_tempi_eq_model t true

theorem tempo_validate_eq_model (rt : Arr) (w : Rat) (et : Arr) :
    GenV.tempo.validate rt w et = tempoValidate rt w et := by
  simp [decide_eq_comm, Bool.or_comm, GenV.tempo.validate, tempoValidate, validate_tempi_eq_model]

/-! ## segment -/

theorem validate_boundary_eq_model (r e : Arr) (trim : Bool) :
    GenV.segment.validate_boundary r e trim = segmentBoundary r e trim := by
  simp [decide_eq_comm, Bool.or_comm, GenV.segment.validate_boundary, segmentBoundary, forEach, validate_intervals_eq_model]

/-- one turn of the loop of `validate_structure` -/
theorem structure_side (iv : Arr) (n : Nat) :
    (do
      GenV.util.validate_intervals iv
      let t ← shapeAt iv 0
      raiseIf PyErr.valueError (decide (t ≠ n))
      if (decide (iv.size > 0)) then do
        let m ← amin iv
        raiseIf PyErr.valueError (!(allclose m 0))
      else do
        pure ()) = structureSide iv n := by
  simp only [structureSide, startsAtZero, validate_intervals_eq_model]
  by_cases h : iv.size > 0 <;> simp [decide_eq_comm, Bool.or_comm, h]

theorem validate_structure_eq_model (ri : Arr) (nr : Nat) (ei : Arr) (ne : Nat) :
    GenV.segment.validate_structure ri nr ei ne = segmentStructure ri nr ei ne := by
  unfold GenV.segment.validate_structure segmentStructure
  simp only [forEach]
  rw [← structure_side ri nr, ← structure_side ei ne]
  unfold endTogether
  by_cases h1 : ri.size > 0 <;> by_cases h2 : ei.size > 0 <;> simp [decide_eq_comm, Bool.or_comm, h1, h2, bind_assoc]

/-! ## alignment -/

theorem alignment_validate_eq_model (r e : Arr) : GenV.alignment.validate r e = alignmentValidate r e := by
  unfold GenV.alignment.validate alignmentValidate
  by_cases hr : r.ndim = 1
  · by_cases he : e.ndim = 1
    · obtain ⟨s, h1, h2, h3⟩ := sub_tail_init_of_ndim_one hr
      obtain ⟨s', h1', h2', h3'⟩ := sub_tail_init_of_ndim_one he
      simp [decide_eq_comm, Bool.or_comm, hr, he, h1, h2, h1', h2']
    · simp [decide_eq_comm, Bool.or_comm, hr, he]
  · simp [decide_eq_comm, Bool.or_comm, hr]

/-! ## melody -/

theorem validate_voicing_eq_model (rv ev : Arr) : GenV.melody.validate_voicing rv ev = melodyVoicing rv ev := by
  simp [decide_eq_comm, Bool.or_comm, GenV.melody.validate_voicing, melodyVoicing, forEach]

theorem melody_validate_eq_model (rv rc ev ec : Arr) :
    GenV.melody.validate rv rc ev ec = melodyValidate rv rc ev ec := by
  unfold GenV.melody.validate melodyValidate
  rcases rv with ⟨_ | ⟨a, _⟩, _⟩ <;> rcases rc with ⟨_ | ⟨b, _⟩, _⟩ <;> simp [decide_eq_comm, Bool.or_comm, Arr.shape0]
  by_cases h1 : a = b
  · rcases ev with ⟨_ | ⟨c, _⟩, _⟩ <;> rcases ec with ⟨_ | ⟨d, _⟩, _⟩ <;> simp [decide_eq_comm, Bool.or_comm, h1]
    by_cases h2 : c = d <;> simp [decide_eq_comm, Bool.or_comm, h2]
  · simp [decide_eq_comm, Bool.or_comm, h1]

/-! ## transcription / transcription_velocity -/

theorem transcription_validate_intervals_eq_model (ri ei : Arr) :
    GenV.transcription.validate_intervals ri ei = transcriptionIntervals ri ei := by
  simp [decide_eq_comm, Bool.or_comm, GenV.transcription.validate_intervals, transcriptionIntervals, validate_intervals_eq_model]

/-- `if a.size > 0 and np.min(a) <cmp> 0: raise` -/
theorem size_and_min (a : Arr) (g : Rat → Bool) :
    (do
      let b ← (if (decide (a.size > 0)) then (do let m ← amin a; pure (g m)) else pure false : Py Bool)
      raiseIf PyErr.valueError b) =
    (if a.size > 0 then do
        let m ← npMin a.data
        check (g m)
      else .ok ()) := by
  by_cases h : a.size > 0
  · simp only [h, decide_true, if_true, amin_eq, raiseIf_valueError]
    cases npMin a.data <;> rfl
  · simp only [h, decide_false, if_false, raiseIf_valueError]
    rfl

theorem transcription_validate_eq_model (ri rp ei ep : Arr) :
    GenV.transcription.validate ri rp ei ep = transcriptionValidate ri rp ei ep := by
  unfold GenV.transcription.validate transcriptionValidate minNonPositive
  rw [← size_and_min rp (fun m => decide (m ≤ 0)), ← size_and_min ep (fun m => decide (m ≤ 0))]
  simp [decide_eq_comm, Bool.or_comm, transcription_validate_intervals_eq_model, bind_assoc]

theorem velocity_validate_eq_model (ri rp rv ei ep ev : Arr) :
    GenV.transcription_velocity.validate ri rp rv ei ep ev = velocityValidate ri rp rv ei ep ev := by
  unfold GenV.transcription_velocity.validate velocityValidate minNegative
  rw [← size_and_min rv (fun m => decide (m < 0)), ← size_and_min ev (fun m => decide (m < 0))]
  simp [decide_eq_comm, Bool.or_comm, transcription_validate_eq_model, bind_assoc]

/-! ## multipitch -/

theorem multipitch_validate_eq_model (rt : Arr) (rf : List Arr) (et : Arr) (ef : List Arr) :
    GenV.multipitch.validate rt rf et ef = multipitchValidate rt rf et ef := by
  have h1 : GenV.multipitch.MAX_TIME = maxTime := rfl
  have h2 : GenV.multipitch.MAX_FREQ = maxFreq := rfl
  have h3 : GenV.multipitch.MIN_FREQ = minFreq := rfl
  simp [decide_eq_comm, Bool.or_comm, GenV.multipitch.validate, multipitchValidate, validate_events_eq_model, validate_frequencies_eq_model, h1, h2, h3]

/-! ## hierarchy (mirrors the known defect: a one-level hierarchy is never looked at) -/

theorem validate_hier_intervals_eq_model (levels : List Arr) :
    GenV.hierarchy.validate_hier_intervals levels = hierValidate levels := by
  unfold GenV.hierarchy.validate_hier_intervals hierValidate
  cases levels with
  | nil => simp
  | cons top rest => simp [decide_eq_comm, Bool.or_comm, validate_structure_eq_model]

/-! ## pattern -/

theorem n_onset_midi_eq (p : Patterns) :
    GenV.pattern._n_onset_midi p = .ok (p.flatMap fun pat => pat.flatMap fun occ => occ).length := by
  simp [decide_eq_comm, Bool.or_comm, GenV.pattern._n_onset_midi, pure, Except.pure]

theorem pattern_validate_eq_model (r e : Patterns) : GenV.pattern.validate r e = patternValidate r e := by
  simp [decide_eq_comm, Bool.or_comm, GenV.pattern.validate, n_onset_midi_eq, patternValidate, patternSide, forEach]

/-! ## separation -/

theorem separation_validate_eq_model (r e : Src) : GenV.separation.validate r e = separationValidate r e := by
  unfold GenV.separation.validate separationValidate silentCheck
  have hm : GenV.separation.MAX_SOURCES = maxSources := rfl
  by_cases hs : r.shape = e.shape
  · rcases r with ⟨rs, rf⟩
    rcases e with ⟨es, ef⟩
    simp only at hs
    subst hs
    cases rs with
    | nil => simp [decide_eq_comm, Bool.or_comm, Src.shape0, Src.ndim, Src.size, hm, anySourceSilent, Arr.prodL]
    | cons n t =>
        simp only [Src.shape0, hm, Src.size, Src.ndim, anySourceSilent, List.length_cons]
        by_cases hz : Arr.prodL (n :: t) = 0 <;> by_cases hd : t.length + 1 < 2 <;> by_cases h3 : 3 < t.length + 1 <;>
          by_cases hn : maxSources < n <;> cases rf.any id <;> cases ef.any id <;> simp [decide_eq_comm, Bool.or_comm, hz, hd, h3, hn]
  · have hb : (r.shape != e.shape) = true := by simp [decide_eq_comm, Bool.or_comm, bne_iff_ne, hs]
    simp [decide_eq_comm, Bool.or_comm, hs, hb]

/-! ## The headline C14 statements on the TRANSLATED validators

`OkOrVE p` : `p` returns or raises `ValueError` — no other exception class can come out.  `Valid…` are the documented
conventions stated independently in `Props/C14.lean`.  Where Python partiality is reachable (0-d arrays: `shape[0]` →
`IndexError`, `len()` → `TypeError`) the statement says exactly where. -/

theorem gen_validate_events_total (e : Arr) (m : Rat) : OkOrVE (GenV.util.validate_events e m) := by
  rw [validate_events_eq_model]; exact validate_events_total e m
theorem gen_validate_events_ok_iff (e : Arr) (m : Rat) : GenV.util.validate_events e m = .ok () ↔ ValidEvents e m := by
  rw [validate_events_eq_model]; exact validate_events_ok_iff e m

theorem gen_validate_intervals_total (iv : Arr) : OkOrVE (GenV.util.validate_intervals iv) := by
  rw [validate_intervals_eq_model]; exact validate_intervals_total iv
theorem gen_validate_intervals_ok_iff (iv : Arr) : GenV.util.validate_intervals iv = .ok () ↔ ValidIntervals iv := by
  rw [validate_intervals_eq_model]; exact validate_intervals_ok_iff iv

theorem gen_validate_frequencies_total (f : Arr) (mx mn : Rat) (neg : Bool) :
    OkOrVE (GenV.util.validate_frequencies f mx mn neg) := by
  rw [validate_frequencies_eq_model]; exact validate_frequencies_total f mx mn neg
theorem gen_validate_frequencies_ok_iff (f : Arr) (mx mn : Rat) (neg : Bool) :
    GenV.util.validate_frequencies f mx mn neg = .ok () ↔ ValidFrequencies f mx mn := by
  rw [validate_frequencies_eq_model]; exact validate_frequencies_ok_iff f mx mn neg
/-- the known defect, on the translated code: `allow_negatives` changes nothing -/
theorem gen_validate_frequencies_flag_irrelevant (f : Arr) (mx mn : Rat) (neg : Bool) :
    GenV.util.validate_frequencies f mx mn neg = GenV.util.validate_frequencies f mx mn true := by
  rw [validate_frequencies_eq_model, validate_frequencies_eq_model]; exact validate_frequencies_flag_irrelevant f mx mn neg

theorem gen_beat_validate_total (r e : Arr) : OkOrVE (GenV.beat.validate r e) := by
  rw [beat_validate_eq_model]; exact beat_validate_total r e
theorem gen_beat_validate_ok_iff (r e : Arr) :
    GenV.beat.validate r e = .ok () ↔ ValidEvents r 30000 ∧ ValidEvents e 30000 := by
  rw [beat_validate_eq_model]; exact beat_validate_ok_iff r e
theorem gen_onset_validate_total (r e : Arr) : OkOrVE (GenV.onset.validate r e) := by
  rw [onset_validate_eq_model]; exact onset_validate_total r e
theorem gen_onset_validate_ok_iff (r e : Arr) :
    GenV.onset.validate r e = .ok () ↔ ValidEvents r 30000 ∧ ValidEvents e 30000 := by
  rw [onset_validate_eq_model]; exact onset_validate_ok_iff r e

theorem gen_validate_tempi_total (t : Arr) (ref : Bool) : OkOrVE (GenV.tempo.validate_tempi t ref) := by
  rw [validate_tempi_eq_model]; exact validate_tempi_total t ref
theorem gen_validate_tempi_ok_iff (t : Arr) (ref : Bool) : GenV.tempo.validate_tempi t ref = .ok () ↔ ValidTempi t ref := by
  rw [validate_tempi_eq_model]; exact validate_tempi_ok_iff t ref
theorem gen_tempo_validate_total (rt : Arr) (w : Rat) (et : Arr) : OkOrVE (GenV.tempo.validate rt w et) := by
  rw [tempo_validate_eq_model]; exact tempo_validate_total rt w et
theorem gen_tempo_validate_ok_iff (rt : Arr) (w : Rat) (et : Arr) :
    GenV.tempo.validate rt w et = .ok () ↔ ValidTempo rt w et := by
  rw [tempo_validate_eq_model]; exact tempo_validate_ok_iff rt w et

theorem gen_validate_boundary_total {r e : Arr} (hr : r.shape ≠ []) (he : e.shape ≠ []) (trim : Bool) :
    OkOrVE (GenV.segment.validate_boundary r e trim) := by
  rw [validate_boundary_eq_model]; exact validate_boundary_total hr he trim
theorem gen_validate_boundary_zero_dim {r e : Arr} (hr : r.shape = []) (trim : Bool) :
    GenV.segment.validate_boundary r e trim = .error .typeError := by
  rw [validate_boundary_eq_model]; exact validate_boundary_zero_dim hr trim
theorem gen_validate_boundary_ok_iff (r e : Arr) (trim : Bool) :
    GenV.segment.validate_boundary r e trim = .ok () ↔ ValidIntervals r ∧ ValidIntervals e := by
  rw [validate_boundary_eq_model]; exact validate_boundary_ok_iff r e trim
theorem gen_validate_structure_total (ri : Arr) (nr : Nat) (ei : Arr) (ne : Nat) :
    OkOrVE (GenV.segment.validate_structure ri nr ei ne) := by
  rw [validate_structure_eq_model]; exact validate_structure_total ri nr ei ne
theorem gen_validate_structure_ok_iff (ri : Arr) (nr : Nat) (ei : Arr) (ne : Nat) :
    GenV.segment.validate_structure ri nr ei ne = .ok () ↔ ValidStructure ri nr ei ne := by
  rw [validate_structure_eq_model]; exact validate_structure_ok_iff ri nr ei ne

theorem gen_alignment_validate_total (r e : Arr) : OkOrVE (GenV.alignment.validate r e) := by
  rw [alignment_validate_eq_model]; exact alignment_validate_total r e
theorem gen_alignment_validate_ok_iff (r e : Arr) : GenV.alignment.validate r e = .ok () ↔ ValidAlignment r e := by
  rw [alignment_validate_eq_model]; exact alignment_validate_ok_iff r e

theorem gen_validate_voicing_total {rv ev : Arr} (hr : rv.shape ≠ []) (he : ev.shape ≠ []) :
    OkOrVE (GenV.melody.validate_voicing rv ev) := by
  rw [validate_voicing_eq_model]; exact validate_voicing_total hr he
theorem gen_validate_voicing_zero_dim {rv ev : Arr} (hr : rv.shape = []) :
    GenV.melody.validate_voicing rv ev = .error .indexError := by
  rw [validate_voicing_eq_model]; exact validate_voicing_zero_dim hr
theorem gen_validate_voicing_ok_iff (rv ev : Arr) : GenV.melody.validate_voicing rv ev = .ok () ↔ ValidVoicing rv ev := by
  rw [validate_voicing_eq_model]; exact validate_voicing_ok_iff rv ev
theorem gen_melody_validate_total {rv rc ev ec : Arr} (h1 : rv.shape ≠ []) (h2 : rc.shape ≠ []) (h3 : ev.shape ≠ [])
    (h4 : ec.shape ≠ []) : OkOrVE (GenV.melody.validate rv rc ev ec) := by
  rw [melody_validate_eq_model]; exact melody_validate_total h1 h2 h3 h4
theorem gen_melody_validate_ok_iff (rv rc ev ec : Arr) :
    GenV.melody.validate rv rc ev ec = .ok () ↔ ValidMelody rv rc ev ec := by
  rw [melody_validate_eq_model]; exact melody_validate_ok_iff rv rc ev ec

theorem gen_validate_note_intervals_total (ri ei : Arr) : OkOrVE (GenV.transcription.validate_intervals ri ei) := by
  rw [transcription_validate_intervals_eq_model]; exact validate_note_intervals_total ri ei
theorem gen_validate_note_intervals_ok_iff (ri ei : Arr) :
    GenV.transcription.validate_intervals ri ei = .ok () ↔ ValidIntervals ri ∧ ValidIntervals ei := by
  rw [transcription_validate_intervals_eq_model]; exact validate_note_intervals_ok_iff ri ei
theorem gen_transcription_validate_total {ri rp ei ep : Arr} (hr : rp.shape ≠ []) (he : ep.shape ≠ []) :
    OkOrVE (GenV.transcription.validate ri rp ei ep) := by
  rw [transcription_validate_eq_model]; exact transcription_validate_total hr he
theorem gen_transcription_validate_zero_dim {ri rp ei ep : Arr} (hri : ValidIntervals ri) (hei : ValidIntervals ei)
    (hr : rp.shape = []) : GenV.transcription.validate ri rp ei ep = .error .indexError := by
  rw [transcription_validate_eq_model]; exact transcription_validate_zero_dim hri hei hr
theorem gen_transcription_validate_ok_iff (ri rp ei ep : Arr) :
    GenV.transcription.validate ri rp ei ep = .ok () ↔ ValidNotes ri rp ∧ ValidNotes ei ep := by
  rw [transcription_validate_eq_model]; exact transcription_validate_ok_iff ri rp ei ep
theorem gen_velocity_validate_total {ri rp rv ei ep ev : Arr} (h1 : rp.shape ≠ []) (h2 : ep.shape ≠ [])
    (h3 : rv.shape ≠ []) (h4 : ev.shape ≠ []) : OkOrVE (GenV.transcription_velocity.validate ri rp rv ei ep ev) := by
  rw [velocity_validate_eq_model]; exact velocity_validate_total h1 h2 h3 h4
theorem gen_velocity_validate_ok_iff (ri rp rv ei ep ev : Arr) :
    GenV.transcription_velocity.validate ri rp rv ei ep ev = .ok () ↔
      ValidVelocityNotes ri rp rv ∧ ValidVelocityNotes ei ep ev := by
  rw [velocity_validate_eq_model]; exact velocity_validate_ok_iff ri rp rv ei ep ev

theorem gen_multipitch_validate_total (rt : Arr) (rf : List Arr) (et : Arr) (ef : List Arr) :
    OkOrVE (GenV.multipitch.validate rt rf et ef) := by
  rw [multipitch_validate_eq_model]; exact multipitch_validate_total rt rf et ef
theorem gen_multipitch_validate_ok_iff (rt : Arr) (rf : List Arr) (et : Arr) (ef : List Arr) :
    GenV.multipitch.validate rt rf et ef = .ok () ↔ ValidMultipitch rt rf et ef := by
  rw [multipitch_validate_eq_model]; exact multipitch_validate_ok_iff rt rf et ef

theorem gen_hier_validate_total {levels : List Arr} (hne : levels ≠ []) (h : ∀ l ∈ levels, l.shape ≠ []) :
    OkOrVE (GenV.hierarchy.validate_hier_intervals levels) := by
  rw [validate_hier_intervals_eq_model]; exact hier_validate_total hne h
theorem gen_hier_validate_zero_dim_top {top : Arr} (rest : List Arr) (h : top.shape = []) :
    GenV.hierarchy.validate_hier_intervals (top :: rest) = .error .typeError := by
  rw [validate_hier_intervals_eq_model]; exact hier_validate_zero_dim_top rest h
theorem gen_hier_validate_ok_iff (levels : List Arr) :
    GenV.hierarchy.validate_hier_intervals levels = .ok () ↔ CheckedHierarchy levels := by
  rw [validate_hier_intervals_eq_model]; exact hier_validate_ok_iff levels
theorem gen_hier_validate_ok_iff_documented (top lvl : Arr) (rest : List Arr) :
    GenV.hierarchy.validate_hier_intervals (top :: lvl :: rest) = .ok () ↔ DocumentedHierarchy (top :: lvl :: rest) := by
  rw [validate_hier_intervals_eq_model]; exact hier_validate_ok_iff_documented top lvl rest
/-- the known defect, on the translated code: a one-level hierarchy is never looked at -/
theorem gen_hier_validate_single_level_unchecked (a : Arr) (h : a.shape ≠ []) :
    GenV.hierarchy.validate_hier_intervals [a] = .ok () := by
  rw [validate_hier_intervals_eq_model]; exact hier_validate_single_level_unchecked a h

theorem gen_pattern_validate_total (r e : Patterns) : OkOrVE (GenV.pattern.validate r e) := by
  rw [pattern_validate_eq_model]; exact pattern_validate_total r e
theorem gen_pattern_validate_ok_iff (r e : Patterns) :
    GenV.pattern.validate r e = .ok () ↔ ValidPatterns r ∧ ValidPatterns e := by
  rw [pattern_validate_eq_model]; exact pattern_validate_ok_iff r e

theorem gen_separation_validate_total (r e : Src) : OkOrVE (GenV.separation.validate r e) := by
  rw [separation_validate_eq_model]; exact separation_validate_total r e
theorem gen_separation_validate_ok_iff (r e : Src) : GenV.separation.validate r e = .ok () ↔ ValidSources r e := by
  rw [separation_validate_eq_model]; exact separation_validate_ok_iff r e

/-! ## non-vacuity: the translated definitions compute -/

example : GenV.util.validate_events (Arr.vec [0, 1, 1, 30000]) = .ok () := by decide +kernel
example : GenV.util.validate_events (Arr.vec [0, 2, 1]) = .error .valueError := by decide +kernel
example : GenV.util.validate_events ⟨[2, 1], [0, 1]⟩ = .error .valueError := by decide +kernel
example : GenV.util.validate_intervals ⟨[2, 2], [0, 1, 1, 5 / 2]⟩ = .ok () := by decide +kernel
example : GenV.util.validate_intervals ⟨[1, 3], [0, 1, 2]⟩ = .error .valueError := by decide +kernel
example : GenV.util.validate_intervals ⟨[1, 2], [1, 1]⟩ = .error .valueError := by decide +kernel
example : GenV.util.validate_frequencies (Arr.vec [-440]) 5000 20 = .ok () := by decide +kernel
example : GenV.segment.validate_boundary ⟨[], [1]⟩ ⟨[1, 2], [0, 1]⟩ true = .error .typeError := by decide +kernel
example : GenV.melody.validate_voicing ⟨[], [1]⟩ (Arr.vec [1]) = .error .indexError := by decide +kernel
example : GenV.alignment.validate (Arr.vec [0, 1, 1]) (Arr.vec [1 / 2, 1, 3]) = .ok () := by decide +kernel
example : GenV.hierarchy.validate_hier_intervals [] = .error .indexError := by decide +kernel
example : GenV.hierarchy.validate_hier_intervals [⟨[1, 2], [5, 4]⟩] = .ok () := by decide +kernel
example : GenV.pattern._n_onset_midi [[[[0, 60], [1, 62]], [[2, 60]]], [[[3, 64]]]] = .ok 4 := by decide +kernel

end Mir.C14.GenVal
