import MirModel.Key
import MirProofs.Props.C14
import MirProofs.Lemmas.Totality

/-!
# C14 (task level) — `mir_eval.key`: `validate_key`, `weighted_score` (= `evaluate`'s only metric)

Model: `MirModel/Key.lean` (string level: `validateKey`, `splitKeyString`, `weightedScoreStr`; the regenerated
`Mir.Gen.key.*` are proved equal to it in `Props/C04_KeyGen.lean`).

`weighted_score` validates both key strings, then splits them again (`split_key_string`) and looks the tonic up in
`KEY_TO_SEMITONE`.  The second pass could raise `KeyError` (unknown tonic) or the unpacking `ValueError`; the theorems
show it never does once validation has passed:

* `split_of_valid`        — an accepted key string is split and looked up successfully;
* `weighted_score_total`  — two accepted key strings are scored;
* `weighted_score_errors` — on ANY two strings the result is a value or `ValueError`: `KeyError` cannot escape;
* `validate_key_errors`   — the validator itself raises nothing but `ValueError`.
-/
namespace Mir.C14.Key
open Mir.Key Mir.Totality

theorem validate_key_errors (key : List Char) :
    validateKey key = .ok () ∨ validateKey key = .error .valueError := by
  unfold validateKey
  simp only
  split
  · exact Or.inr rfl
  · split
    · split
      · split
        · exact Or.inr rfl
        · split
          · exact Or.inr rfl
          · split
            · exact Or.inr rfl
            · exact Or.inl rfl
      · exact Or.inr rfl
    · exact Or.inl rfl

theorem keyLookup_x : keyLookup ['x'] = some none := by decide

/-- an accepted key string is split and looked up without `KeyError` / unpacking error -/
theorem split_of_valid {key : List Char} (h : validateKey key = .ok ()) : ∃ v, splitKeyString key = .ok v := by
  unfold validateKey at h
  unfold splitKeyString
  simp only at h
  by_cases hx : lower key ≠ ['x']
  · rw [if_pos hx] at h ⊢
    split at h
    · cases h
    · split at h
      · rename_i k mode hk
        split at h
        · cases h
        · split at h
          · cases h
          · rename_i hnone
            cases hl : keyLookup (lower k) with
            | none => rw [hl] at hnone; simp at hnone
            | some v => exact ⟨_, rfl⟩
      · cases h
  · rw [if_neg hx]
    have hx' : lower key = ['x'] := not_not.1 hx
    rw [hx', keyLookup_x]
    exact ⟨_, rfl⟩

/-- **totality**: two accepted key strings are scored -/
theorem weighted_score_total {r e : List Char} (hr : validateKey r = .ok ()) (he : validateKey e = .ok ()) :
    ∃ v, weightedScoreStr r e = .ok v := by
  obtain ⟨⟨rk, rm⟩, h1⟩ := split_of_valid hr
  obtain ⟨⟨ek, em⟩, h2⟩ := split_of_valid he
  unfold weightedScoreStr
  rw [hr, he, h1, h2]
  exact ⟨_, rfl⟩

/-- nothing but `ValueError` can come out of `weighted_score`, on any two strings -/
theorem weighted_score_errors (r e : List Char) :
    (∃ v, weightedScoreStr r e = .ok v) ∨ weightedScoreStr r e = .error .valueError := by
  rcases validate_key_errors r with hr | hr
  · rcases validate_key_errors e with he | he
    · exact Or.inl (weighted_score_total hr he)
    · right; unfold weightedScoreStr; rw [hr, he]; rfl
  · right; unfold weightedScoreStr; rw [hr]; rfl

/-- a value exactly when both strings pass `validate_key` -/
theorem weighted_score_ok_iff (r e : List Char) :
    (∃ v, weightedScoreStr r e = .ok v) ↔ validateKey r = .ok () ∧ validateKey e = .ok () := by
  constructor
  · rintro ⟨v, hv⟩
    rcases validate_key_errors r with hr | hr
    · rcases validate_key_errors e with he | he
      · exact ⟨hr, he⟩
      · unfold weightedScoreStr at hv; rw [hr, he] at hv; cases hv
    · unfold weightedScoreStr at hv; rw [hr] at hv; cases hv
  · rintro ⟨hr, he⟩; exact weighted_score_total hr he

example : weightedScoreStr "C major".toList "c# minor".toList = .ok 0 ∧
    weightedScoreStr "X".toList "a minor".toList = .ok 0 ∧
    weightedScoreStr "H major".toList "a minor".toList = .error .valueError ∧
    splitKeyString "H major".toList = .error .keyError := by
  refine ⟨by decide +kernel, by decide +kernel, by decide +kernel, by decide +kernel⟩

end Mir.C14.Key
