import MirProofs.Lemmas.C14Melody
/-! C14 (melody): task-level totality.  On input that follows the documented conventions the five frame measures,
    `freq_to_voicing`, `constant_hop_timebase`, `resample_melody_series` (every `kind`), `to_cent_voicing` and
    `evaluate` return a result; and the exceptions they can raise at all are charted: `ValueError` only, except
    for three escapes of the unchanged code that the model mirrors (an empty series and a voicing array of the
    wrong length raise `IndexError`, `hop = 0` raises `OverflowError`), each refuted from a concrete witness and
    followed by the strongest true statement. -/
namespace Mir.C14.Melody
open Mir Mir.Melody

/-- the only two outcomes a cleanly rejecting function may have -/
def OkOrValueError {α : Type} (r : Py α) : Prop := (∃ v, r = .ok v) ∨ r = .error .valueError

/-! ### validators (on the frame arrays the measures take) -/

/-- the documented convention of the voicing arrays: equally long, all values in `[0, 1]` -/
structure ValidVoicing (rv ev : List Rat) : Prop where
  len : rv.length = ev.length
  ref : InUnit rv
  est : InUnit ev

/-- … and of the four frame arrays together -/
structure ValidFrames (rv rc ev ec : List Rat) : Prop extends ValidVoicing rv ev where
  lenRef : rv.length = rc.length
  lenEst : ev.length = ec.length

theorem validate_voicing_ok_iff (rv ev : List Rat) : validateVoicing rv ev = .ok () ↔ ValidVoicing rv ev := by
  unfold validateVoicing
  constructor
  · intro h
    split at h
    · rename_i hv
      obtain ⟨h1, h2, h3⟩ := validVoicingB_iff.1 hv
      exact ⟨h1, inUnit_iff.1 h2, inUnit_iff.1 h3⟩
    · cases h
  · intro h
    rw [if_pos (validVoicingB_iff.2 ⟨h.len, inUnit_iff.2 h.ref, inUnit_iff.2 h.est⟩)]

theorem validate_voicing_errors (rv ev : List Rat) : OkOrValueError (validateVoicing rv ev) := by
  unfold validateVoicing
  split_ifs
  · exact Or.inl ⟨_, rfl⟩
  · exact Or.inr rfl

theorem validate_ok_iff (rv rc ev ec : List Rat) :
    validate rv rc ev ec = .ok () ↔ rv.length = rc.length ∧ ev.length = ec.length ∧ rc.length = ec.length := by
  unfold validate
  constructor
  · intro h
    split at h
    · rename_i hv; exact validLenB_iff.1 hv
    · cases h
  · intro h
    rw [if_pos (validLenB_iff.2 h)]

theorem validate_errors (rv rc ev ec : List Rat) : OkOrValueError (validate rv rc ev ec) := by
  unfold validate
  split_ifs
  · exact Or.inl ⟨_, rfl⟩
  · exact Or.inr rfl

theorem valid_voicing_accepted {rv ev : List Rat} (h : ValidVoicing rv ev) : validVoicingB rv ev = true :=
  validVoicingB_iff.2 ⟨h.len, inUnit_iff.2 h.ref, inUnit_iff.2 h.est⟩

theorem valid_frames_accepted {rv rc ev ec : List Rat} (h : ValidFrames rv rc ev ec) : validLenB rv rc ev ec = true :=
  validLenB_iff.2 ⟨h.lenRef, h.lenEst, by have := h.len; have := h.lenRef; have := h.lenEst; omega⟩

/-! ### the five frame measures -/

/-- `voicing_recall` does not validate; equally long arrays (empty ones included) are always scored -/
theorem voicing_recall_total {rv ev : List Rat} (h : rv.length = ev.length) : ∃ x, voicingRecall rv ev = .ok x :=
  voicingRate_ok h

/-- … and so is an empty array against anything (the code returns 0 before looking further) -/
theorem voicing_recall_empty (ev : List Rat) : voicingRecall [] ev = .ok 0 ∧ voicingRecall ev [] = .ok 0 := by
  constructor <;> simp [voicingRecall, voicingRate]

/-- whatever the two arrays are, the only exception is the `ValueError` of a failed NumPy broadcast -/
theorem voicing_recall_errors (rv ev : List Rat) : OkOrValueError (voicingRecall rv ev) :=
  voicingRate_errors _ _ rv ev

theorem voicing_false_alarm_total {rv ev : List Rat} (h : rv.length = ev.length) :
    ∃ x, voicingFalseAlarm rv ev = .ok x :=
  voicingRate_ok h

theorem voicing_false_alarm_empty (ev : List Rat) :
    voicingFalseAlarm [] ev = .ok 0 ∧ voicingFalseAlarm ev [] = .ok 0 := by
  constructor <;> simp [voicingFalseAlarm, voicingRate]

theorem voicing_false_alarm_errors (rv ev : List Rat) : OkOrValueError (voicingFalseAlarm rv ev) :=
  voicingRate_errors _ _ rv ev

theorem voicing_measures_total {rv ev : List Rat} (h : ValidVoicing rv ev) :
    ∃ x, voicingMeasures rv ev = .ok x := by
  obtain ⟨a, ha⟩ := voicing_recall_total h.len
  obtain ⟨b, hb⟩ := voicing_false_alarm_total h.len
  unfold voicingMeasures
  rw [if_pos (valid_voicing_accepted h), ha, hb]
  exact ⟨_, rfl⟩

theorem voicing_measures_errors (rv ev : List Rat) : OkOrValueError (voicingMeasures rv ev) := by
  unfold voicingMeasures
  split_ifs
  · rcases voicing_recall_errors rv ev with ⟨a, ha⟩ | ha
    · rcases voicing_false_alarm_errors rv ev with ⟨b, hb⟩ | hb
      · rw [ha, hb]; exact Or.inl ⟨_, rfl⟩
      · rw [ha, hb]; exact Or.inr rfl
    · rw [ha]; exact Or.inr rfl
  · exact Or.inr rfl

theorem raw_pitch_accuracy_total {rv rc ev ec : List Rat} (tol : Rat) (h : ValidFrames rv rc ev ec) :
    ∃ x, rawPitchAccuracy rv rc ev ec tol = .ok x := by
  unfold rawPitchAccuracy pitchAcc
  rw [valid_voicing_accepted h.toValidVoicing, valid_frames_accepted h]
  exact ⟨_, rfl⟩

theorem raw_pitch_accuracy_errors (rv rc ev ec : List Rat) (tol : Rat) :
    OkOrValueError (rawPitchAccuracy rv rc ev ec tol) := by
  unfold rawPitchAccuracy pitchAcc
  split_ifs
  · exact Or.inl ⟨_, rfl⟩
  · exact Or.inr rfl

theorem raw_chroma_accuracy_total {rv rc ev ec : List Rat} (tol : Rat) (h : ValidFrames rv rc ev ec) :
    ∃ x, rawChromaAccuracy rv rc ev ec tol = .ok x := by
  unfold rawChromaAccuracy pitchAcc
  rw [valid_voicing_accepted h.toValidVoicing, valid_frames_accepted h]
  exact ⟨_, rfl⟩

theorem raw_chroma_accuracy_errors (rv rc ev ec : List Rat) (tol : Rat) :
    OkOrValueError (rawChromaAccuracy rv rc ev ec tol) := by
  unfold rawChromaAccuracy pitchAcc
  split_ifs
  · exact Or.inl ⟨_, rfl⟩
  · exact Or.inr rfl

theorem overall_accuracy_total {rv rc ev ec : List Rat} (tol : Rat) (h : ValidFrames rv rc ev ec) :
    ∃ x, overallAccuracy rv rc ev ec tol = .ok x := by
  unfold overallAccuracy
  rw [valid_voicing_accepted h.toValidVoicing, valid_frames_accepted h]
  exact ⟨_, rfl⟩

theorem overall_accuracy_errors (rv rc ev ec : List Rat) (tol : Rat) :
    OkOrValueError (overallAccuracy rv rc ev ec tol) := by
  unfold overallAccuracy
  split_ifs
  · exact Or.inl ⟨_, rfl⟩
  · exact Or.inr rfl

/-- the empty frame arrays are valid and scored (the documented zero) -/
theorem frame_measures_empty (tol : Rat) :
    rawPitchAccuracy [] [] [] [] tol = .ok 0 ∧ rawChromaAccuracy [] [] [] [] tol = .ok 0 ∧
      overallAccuracy [] [] [] [] tol = .ok 0 ∧ voicingMeasures [] [] = .ok (0, 0) := by
  refine ⟨?_, ?_, ?_, ?_⟩ <;> rfl

/-! ### `freq_to_voicing` -/

theorem freq_to_voicing_total {fs : List Freq} {v : Option (List Rat)} (h : OptLen v fs.length) :
    ∃ r, freqToVoicing fs v = .ok r := by
  by_cases hne : fs = []
  · subst hne
    cases v <;> exact ⟨_, rfl⟩
  · obtain ⟨V, hV, _⟩ := freqToVoicing_shape hne h
    exact ⟨_, hV⟩

/-- full strength: a malformed voicing array is rejected with `ValueError` … -/
def freq_to_voicing_errors_full_statement : Prop :=
  ∀ (fs : List Freq) (v : Option (List Rat)), OkOrValueError (freqToVoicing fs v)

/-- … which is false of the code: the boolean-mask assignment `voicing[frequencies == 0] = 0` raises `IndexError`
    when the two arrays differ in length -/
theorem freq_to_voicing_errors_full_statement_false : ¬ freq_to_voicing_errors_full_statement := by
  intro h
  have h1 : freqToVoicing [⟨0, 0⟩, ⟨1, 100⟩] (some [1]) = .error .indexError := by decide +kernel
  rcases h [⟨0, 0⟩, ⟨1, 100⟩] (some [1]) with ⟨r, hr⟩ | hr
  · rw [h1] at hr; cases hr
  · rw [h1] at hr; cases hr

/-- what is true: it returns, or raises `IndexError`, and the latter exactly on a length mismatch -/
theorem freq_to_voicing_errors_partial (fs : List Freq) (v : Option (List Rat)) :
    (∃ r, freqToVoicing fs v = .ok r) ∨
      (freqToVoicing fs v = .error .indexError ∧ ∃ w, v = some w ∧ fs ≠ [] ∧ w.length ≠ fs.length) := by
  cases v with
  | none => exact Or.inl ⟨_, rfl⟩
  | some w =>
    by_cases hne : fs = []
    · subst hne; exact Or.inl ⟨_, rfl⟩
    · by_cases hl : w.length = fs.length
      · exact Or.inl (freq_to_voicing_total (v := some w) hl)
      · refine Or.inr ⟨?_, w, rfl, hne, hl⟩
        unfold freqToVoicing
        have he : fs.isEmpty = false := by cases fs <;> simp_all
        simp only [he, Bool.false_eq_true, if_false, if_neg hl]

/-! ### `constant_hop_timebase` -/

theorem constant_hop_timebase_total {hop endTime : Rat} (hh : 0 < hop) (he : 0 ≤ endTime) :
    ∃ tb, constantHopTimebase hop endTime = .ok tb ∧ tb ≠ [] := by
  obtain ⟨tb, h1, h2, _⟩ := constantHop_ok hh he
  exact ⟨tb, h1, h2⟩

def constant_hop_timebase_errors_full_statement : Prop :=
  ∀ hop endTime : Rat, OkOrValueError (constantHopTimebase hop endTime)

/-- false of the code: `hop = 0` makes `int(np.floor(end_time / hop))` raise `OverflowError` -/
theorem constant_hop_timebase_errors_full_statement_false : ¬ constant_hop_timebase_errors_full_statement := by
  intro h
  have h1 : constantHopTimebase 0 1 = .error .other := by decide +kernel
  rcases h 0 1 with ⟨r, hr⟩ | hr
  · rw [h1] at hr; cases hr
  · rw [h1] at hr; cases hr

theorem constant_hop_timebase_errors_partial {hop : Rat} (endTime : Rat) (hh : hop ≠ 0) :
    OkOrValueError (constantHopTimebase hop endTime) :=
  constantHop_errors endTime hh

/-! ### `resample_melody_series` (every `kind`; `linear` is the default) -/

theorem resample_total {times freqs voicing timesNew : List Rat} {kind : Kind}
    (h : ResampleOk times freqs voicing timesNew kind) :
    ∃ r, resampleMelodySeries times freqs voicing timesNew kind = .ok r ∧
      r.1.length = timesNew.length ∧ r.2.length = timesNew.length := by
  obtain ⟨f', v', hres, hf, hv, _⟩ := resample_spec h
  exact ⟨_, hres, hf, hv⟩

/-- the linear (default) kind spelled out: series as long as `times`, both time bases non-empty, rounded time
    stamps pairwise different, no query before the first time stamp -/
theorem resample_linear_total {times freqs voicing timesNew : List Rat}
    (hF : freqs.length = times.length) (hV : voicing.length = times.length) (hne : times ≠ [])
    (hnew : timesNew ≠ []) (hnd : (times.map round10).Nodup)
    (hlo : ∃ t ∈ times, ∀ x ∈ timesNew, round10 t ≤ round10 x) :
    ∃ r, resampleMelodySeries times freqs voicing timesNew .linear = .ok r :=
  let ⟨r, hr, _⟩ := resample_total (kind := .linear) ⟨hF, hV, hne, hnew, fun _ => hnd, hlo⟩
  ⟨r, hr⟩

/-- a voicing array in `[0, 1]` stays in `[0, 1]` (so that the measures' validator accepts the result) -/
theorem resample_voicing_unit {times freqs voicing timesNew : List Rat} {kind : Kind}
    (h : ResampleOk times freqs voicing timesNew kind) (hv : InUnit voicing) {r : List Rat × List Rat}
    (hr : resampleMelodySeries times freqs voicing timesNew kind = .ok r) : InUnit r.2 := by
  obtain ⟨f', v', hres, _, _, hu⟩ := resample_spec h
  rw [hres] at hr
  cases hr
  exact hu hv

/-- on ANY input (any lengths, duplicates, queries out of range, empty arrays) only `ValueError` can come out -/
theorem resample_errors (times freqs voicing timesNew : List Rat) (kind : Kind) :
    OkOrValueError (resampleMelodySeries times freqs voicing timesNew kind) :=
  Mir.Melody.resample_errors times freqs voicing timesNew kind

/-! ### `to_cent_voicing` and `evaluate` -/

/-- time stamps on the 1e-10 grid (`np.round(·, 10)` fixes them) that strictly increase from a non-negative
    start form a valid series -/
theorem valid_series_of_grid {times : List Rat} {freqs : List Freq} (hne : times ≠ [])
    (hlen : freqs.length = times.length) (hnn : ∀ t ∈ times, 0 ≤ t) (hgrid : ∀ t ∈ times, round10 t = t)
    (hinc : times.Pairwise (· < ·)) : ValidSeries times freqs := by
  refine ⟨hne, hlen, hnn, ?_⟩
  cases times with
  | nil => exact absurd rfl hne
  | cons t0 ts =>
    simp only [padTimes]
    split_ifs with h0
    · have hm : (0 :: t0 :: ts).map round10 = 0 :: t0 :: ts := by
        rw [List.map_cons, round10_zero]
        congr 1
        exact (List.map_congr_left hgrid).trans (List.map_id _)
      rw [hm]
      refine List.Pairwise.cons ?_ hinc
      intro t ht
      rcases List.mem_cons.1 ht with rfl | ht
      · exact h0
      · exact lt_trans h0 (List.rel_of_pairwise_cons hinc ht)
    · have hm : (t0 :: ts).map round10 = t0 :: ts := (List.map_congr_left hgrid).trans (List.map_id _)
      rw [hm]
      exact hinc

theorem to_cent_voicing_total {rt : List Rat} {rf : List Freq} {et : List Rat} {ef : List Freq}
    {ev rr : Option (List Rat)} {hop : Option Rat} (kind : Kind) (h : ValidMelody rt rf et ef ev rr hop) :
    ∃ cv, toCentVoicing rt rf et ef ev rr hop kind = .ok cv ∧ Aligned cv :=
  toCentVoicing_ok kind h

/-- what `to_cent_voicing` returns on valid input is valid input of the five measures -/
theorem to_cent_voicing_valid_frames {rt : List Rat} {rf : List Freq} {et : List Rat} {ef : List Freq}
    {ev rr : Option (List Rat)} {hop : Option Rat} {kind : Kind} {cv : CentVoicing}
    (h : ValidMelody rt rf et ef ev rr hop) (hcv : toCentVoicing rt rf et ef ev rr hop kind = .ok cv) :
    ValidFrames cv.refVoicing cv.refCent cv.estVoicing cv.estCent := by
  obtain ⟨cv', hcv', ha⟩ := toCentVoicing_ok kind h
  rw [hcv] at hcv'
  cases hcv'
  exact ⟨⟨ha.lenV, ha.unitR, ha.unitE⟩, ha.lenR, ha.lenE⟩

theorem evaluate_total {rt : List Rat} {rf : List Freq} {et : List Rat} {ef : List Freq}
    {ev rr : Option (List Rat)} {hop : Option Rat} (kind : Kind) (tol : Rat)
    (h : ValidMelody rt rf et ef ev rr hop) :
    ∃ scores, evaluate rt rf et ef ev rr hop kind tol = .ok scores := by
  obtain ⟨cv, hcv, ha⟩ := toCentVoicing_ok kind h
  obtain ⟨kvs, hk⟩ := scoreAll_ok tol ha.lenV ha.lenR ha.lenE ha.unitR ha.unitE
  exact ⟨kvs, by simp only [evaluate, hcv, hk]⟩

/-- the convention as a reader of the docstring would write it — strictly increasing, non-negative time stamps
    compared as they are, not after the 10-decimal rounding the code applies internally -/
structure NaiveSeries (times : List Rat) (freqs : List Freq) : Prop where
  nonempty : times ≠ []
  len : freqs.length = times.length
  nonneg : ∀ t ∈ times, 0 ≤ t
  increasing : times.Pairwise (· < ·)

def evaluate_total_naive_full_statement : Prop :=
  ∀ (rt : List Rat) (rf : List Freq) (et : List Rat) (ef : List Freq) (kind : Kind) (tol : Rat),
    NaiveSeries rt rf → NaiveSeries et ef → ∃ scores, evaluate rt rf et ef none none none kind tol = .ok scores

/-- false of the code: a first time stamp in `(0, 5e-11)` collides, after `np.round(times, 10)`, with the sample
    that `to_cent_voicing` inserts at time 0, and `interp1d` raises `ValueError` ("Expect x to not have
    duplicates"); likewise two stamps closer than 1e-10.  `evaluate_total` (stamps compared after rounding) is the
    strongest true version. -/
theorem evaluate_total_naive_full_statement_false : ¬ evaluate_total_naive_full_statement := by
  intro h
  have hw : evaluate [0, 1, 2] [⟨1, 4800⟩, ⟨1, 4800⟩, ⟨1, 4800⟩] [1 / 100000000000, 1, 5 / 2]
      [⟨1, 4800⟩, ⟨1, 4800⟩, ⟨1, 4800⟩] none none none .linear 50 = .error .valueError := by decide +kernel
  obtain ⟨s, hs⟩ := h [0, 1, 2] [⟨1, 4800⟩, ⟨1, 4800⟩, ⟨1, 4800⟩] [1 / 100000000000, 1, 5 / 2]
    [⟨1, 4800⟩, ⟨1, 4800⟩, ⟨1, 4800⟩] .linear 50
    ⟨by simp, rfl, by decide +kernel, by decide +kernel⟩ ⟨by simp, rfl, by decide +kernel, by decide +kernel⟩
  rw [hw] at hs
  cases hs

/-- the five documented keys, in order -/
theorem evaluate_keys {rt : List Rat} {rf : List Freq} {et : List Rat} {ef : List Freq}
    {ev rr : Option (List Rat)} {hop : Option Rat} {kind : Kind} {tol : Rat} {scores : List (String × Rat)}
    (h : evaluate rt rf et ef ev rr hop kind tol = .ok scores) :
    scores.map Prod.fst = ["Voicing Recall", "Voicing False Alarm", "Raw Pitch Accuracy", "Raw Chroma Accuracy",
      "Overall Accuracy"] := by
  unfold evaluate at h
  split at h
  · cases h
  · unfold scoreAll at h
    repeat' split at h
    all_goals cases h
    all_goals rfl

/-- full strength: whatever is wrong with the input, `to_cent_voicing` / `evaluate` answer with `ValueError` -/
def to_cent_voicing_errors_full_statement : Prop :=
  ∀ (rt : List Rat) (rf : List Freq) (et : List Rat) (ef : List Freq) (ev rr : Option (List Rat))
    (hop : Option Rat) (kind : Kind), OkOrValueError (toCentVoicing rt rf et ef ev rr hop kind)

def evaluate_errors_full_statement : Prop :=
  ∀ (rt : List Rat) (rf : List Freq) (et : List Rat) (ef : List Freq) (ev rr : Option (List Rat))
    (hop : Option Rat) (kind : Kind) (tol : Rat), OkOrValueError (evaluate rt rf et ef ev rr hop kind tol)

/-- escape 1: an empty series (`ref_time[0]`) raises `IndexError` -/
theorem evaluate_empty_index_error :
    evaluate [] [] [] [] none none none .linear 50 = .error .indexError ∧
    evaluate [] [] [0, 1] [⟨1, 100⟩, ⟨1, 100⟩] none none none .linear 50 = .error .indexError ∧
    evaluate [0, 1] [⟨1, 100⟩, ⟨1, 100⟩] [] [] none none none .linear 50 = .error .indexError := by
  refine ⟨?_, ?_, ?_⟩ <;> rfl

/-- escape 2: an `est_voicing` array shorter than the estimate raises `IndexError` (boolean-mask assignment) -/
theorem evaluate_short_voicing_index_error :
    evaluate [0, 1] [⟨1, 100⟩, ⟨1, 100⟩] [0, 1] [⟨1, 100⟩, ⟨0, 0⟩] (some [1]) none none .linear 50 =
      .error .indexError := by decide +kernel

/-- escape 3: `hop = 0` raises `OverflowError` (`int(inf)`) -/
theorem evaluate_zero_hop_other :
    evaluate [0, 1] [⟨1, 100⟩, ⟨1, 100⟩] [0, 1] [⟨1, 100⟩, ⟨1, 100⟩] none none (some 0) .linear 50 =
      .error .other := by decide +kernel

theorem evaluate_errors_full_statement_false : ¬ evaluate_errors_full_statement := by
  intro h
  rcases h [] [] [] [] none none none .linear 50 with ⟨r, hr⟩ | hr
  · rw [evaluate_empty_index_error.1] at hr; cases hr
  · rw [evaluate_empty_index_error.1] at hr; cases hr

theorem to_cent_voicing_errors_full_statement_false : ¬ to_cent_voicing_errors_full_statement := by
  intro h
  have h1 : toCentVoicing [] [] [] [] none none none .linear = .error .indexError := rfl
  rcases h [] [] [] [] none none none .linear with ⟨r, hr⟩ | hr
  · rw [h1] at hr; cases hr
  · rw [h1] at hr; cases hr

/-- the strongest true version: as soon as the SHAPES are right (non-empty series, one frequency per time stamp,
    optional voicing / reward as long as the frequencies) and `hop ≠ 0`, every other defect — unsorted or
    duplicate times, negative times, voicing outside `[0, 1]`, negative hop … — is answered with `ValueError` or
    scored; no other exception class can come out -/
theorem to_cent_voicing_errors_partial {rt : List Rat} {rf : List Freq} {et : List Rat} {ef : List Freq}
    {ev rr : Option (List Rat)} {hop : Option Rat} (kind : Kind)
    (hr : rt ≠ []) (hrl : rf.length = rt.length) (he : et ≠ []) (hel : ef.length = et.length)
    (hev : OptLen ev ef.length) (hrr : OptLen rr rf.length) (hhop : hop ≠ some 0) :
    OkOrValueError (toCentVoicing rt rf et ef ev rr hop kind) :=
  toCentVoicing_errors kind hr hrl he hel hev hrr hhop

theorem evaluate_errors_partial {rt : List Rat} {rf : List Freq} {et : List Rat} {ef : List Freq}
    {ev rr : Option (List Rat)} {hop : Option Rat} (kind : Kind) (tol : Rat)
    (hr : rt ≠ []) (hrl : rf.length = rt.length) (he : et ≠ []) (hel : ef.length = et.length)
    (hev : OptLen ev ef.length) (hrr : OptLen rr rf.length) (hhop : hop ≠ some 0) :
    OkOrValueError (evaluate rt rf et ef ev rr hop kind tol) := by
  unfold evaluate
  rcases toCentVoicing_errors kind hr hrl he hel hev hrr hhop with ⟨cv, hcv⟩ | hcv
  · rw [hcv]
    exact scoreAll_errors cv tol
  · rw [hcv]
    exact Or.inr rfl

/-! ### non-vacuity -/

/-- a reference on a 0.5 s grid with an unvoiced frame, an estimate that starts later (a sample at time 0 is
    added), runs longer, carries a negative ("unvoiced, but …") frequency -/
theorem demo_valid (hop : Option Rat) (hh : ∀ h, hop = some h → 0 < h) :
    ValidMelody [0, 1/2, 1] [⟨1, 4800⟩, ⟨0, 0⟩, ⟨1, 5000⟩] [1/4, 3/4, 5/4, 7/4]
      [⟨1, 4810⟩, ⟨1, 4900⟩, ⟨-1, 5000⟩, ⟨1, 5100⟩] none none hop := by
  refine ⟨valid_series_of_grid (by simp) rfl ?_ ?_ ?_, valid_series_of_grid (by simp) rfl ?_ ?_ ?_,
    trivial, trivial, hh⟩
  all_goals decide +kernel

example : ∃ s, evaluate [0, 1/2, 1] [⟨1, 4800⟩, ⟨0, 0⟩, ⟨1, 5000⟩] [1/4, 3/4, 5/4, 7/4]
    [⟨1, 4810⟩, ⟨1, 4900⟩, ⟨-1, 5000⟩, ⟨1, 5100⟩] none none none .linear 50 = .ok s :=
  evaluate_total .linear 50 (demo_valid none (by simp))

example : ∃ s, evaluate [0, 1/2, 1] [⟨1, 4800⟩, ⟨0, 0⟩, ⟨1, 5000⟩] [1/4, 3/4, 5/4, 7/4]
    [⟨1, 4810⟩, ⟨1, 4900⟩, ⟨-1, 5000⟩, ⟨1, 5100⟩] none none (some (1/10)) .linear 50 = .ok s :=
  evaluate_total .linear 50 (demo_valid (some (1/10)) (by intro h hh; cases hh; norm_num))

/-- continuous estimate voicing and a reference reward -/
example : ∃ cv, toCentVoicing [0, 1] [⟨1, 4800⟩, ⟨1, 4800⟩] [0, 1] [⟨1, 4800⟩, ⟨0, 0⟩] (some [1/2, 1/4])
    (some [1, 1/3]) none .linear = .ok cv ∧ Aligned cv :=
  to_cent_voicing_total .linear
    ⟨valid_series_of_grid (by simp) rfl (by decide +kernel) (by decide +kernel) (by decide +kernel),
     valid_series_of_grid (by simp) rfl (by decide +kernel) (by decide +kernel) (by decide +kernel),
     ⟨rfl, by decide +kernel⟩, ⟨rfl, by decide +kernel⟩, by simp⟩

example : evaluate [0, 1] [⟨1, 4800⟩, ⟨1, 4800⟩] [0, 1] [⟨1, 4800⟩, ⟨1, 4830⟩] none none none .linear 50 =
    .ok [("Voicing Recall", 1), ("Voicing False Alarm", 0), ("Raw Pitch Accuracy", 1),
         ("Raw Chroma Accuracy", 1), ("Overall Accuracy", 1)] := by decide +kernel

example : ValidFrames [1, 0, 1/2] [4800, 0, 5000] [1, 1, 0] [4800, 4900, 0] :=
  ⟨⟨rfl, by decide +kernel, by decide +kernel⟩, rfl, rfl⟩

example : ResampleOk [0, 1, 2] [100, 0, 300] [1, 0, 1] [1/2, 3/2, 5/2] .linear :=
  ⟨rfl, rfl, by simp, by simp, fun _ => by decide +kernel, ⟨0, by simp, by decide +kernel⟩⟩

example : resampleMelodySeries [0, 1, 2] [100, 0, 300] [1, 0, 1] [1/2, 3/2, 5/2] .linear =
    .ok ([100, 0, 0], [1, 0, 0]) := by decide +kernel

example : resampleMelodySeries [0, 1, 1] [100, 0, 300] [1, 0, 1] [1/2] .linear = .error .valueError := by
  decide +kernel

example : constantHopTimebase (-1) 5 = .error .valueError := by decide +kernel

end Mir.C14.Melody
