import MirProofs.Lemmas.C14Multipitch
/-!
  C14 (task level, `mir_eval.multipitch`) — valid annotations are always scored; malformed ones are rejected
  cleanly.

  Model (`MirModel/Multipitch.lean`, pitches in the MIDI domain): `validate`, `resample`
  (= `resample_multipitch`), `metrics`, `evaluate`.  Every failure of every one of them is a `ValueError`,
  for ALL inputs (any number of frames, any number of pitches per frame, any window — negative included).
-/
namespace Mir.C14.Multipitch
open Mir Mir.Multipitch

/-! ## the documented convention, as predicates -/

/-- `util.validate_events(times, max_time=30000)`: nothing later than 30000 s, non-decreasing
    (no negative `np.diff`) -/
structure ValidTimes (ts : List Rat) : Prop where
  bounded : ∀ t ∈ ts, t ≤ maxTime
  nondecreasing : ts.Pairwise (· ≤ ·)

/-- `util.validate_frequencies` on every frame: every pitch within `[MIN_FREQ, MAX_FREQ]` (MIDI images) -/
def ValidFrames (fs : Frames) : Prop := ∀ f ∈ fs, ∀ m ∈ f, midiMin ≤ m ∧ m ≤ midiMax

/-- what `multipitch.validate` documents: valid time bases, as many frames as time stamps on each side, every
    frequency within range.  Empty annotations are valid (the code only warns). -/
structure ValidMultipitch (rt : List Rat) (rf : Frames) (et : List Rat) (ef : Frames) : Prop where
  refTimes : ValidTimes rt
  estTimes : ValidTimes et
  refLength : rt.length = rf.length
  estLength : et.length = ef.length
  refFreqs : ValidFrames rf
  estFreqs : ValidFrames ef

/-! ## `multipitch.validate` -/

theorem validate_ok_iff (rt : List Rat) (rf : Frames) (et : List Rat) (ef : Frames) :
    validate rt rf et ef = .ok () ↔ ValidMultipitch rt rf et ef := by
  rw [validate_eq]
  constructor
  · intro h
    split at h
    · rename_i hv
      obtain ⟨⟨a1, a2⟩, ⟨b1, b2⟩, c, d, e, f⟩ := (valid_iff rt rf et ef).1 hv
      exact ⟨⟨a1, a2⟩, ⟨b1, b2⟩, c, d, e, f⟩
    · cases h
  · intro h
    rw [if_pos ((valid_iff rt rf et ef).2
      ⟨⟨h.refTimes.bounded, h.refTimes.nondecreasing⟩, ⟨h.estTimes.bounded, h.estTimes.nondecreasing⟩,
        h.refLength, h.estLength, h.refFreqs, h.estFreqs⟩)]

/-- the Boolean the model computes is the documented predicate -/
theorem valid_eq_true_iff (rt : List Rat) (rf : Frames) (et : List Rat) (ef : Frames) :
    valid rt rf et ef = true ↔ ValidMultipitch rt rf et ef := by
  rw [← validate_ok_iff, validate_eq]
  constructor
  · intro h; rw [if_pos h]
  · intro h
    split at h
    · assumption
    · cases h

theorem validate_total {rt : List Rat} {rf : Frames} {et : List Rat} {ef : Frames}
    (h : ValidMultipitch rt rf et ef) : validate rt rf et ef = .ok () :=
  (validate_ok_iff rt rf et ef).2 h

/-- every failure is a `ValueError` -/
theorem validate_errors (rt : List Rat) (rf : Frames) (et : List Rat) (ef : Frames) :
    validate rt rf et ef = .ok () ∨ validate rt rf et ef = .error .valueError := by
  rw [validate_eq]
  split
  · exact Or.inl rfl
  · exact Or.inr rfl

theorem validate_rejects {rt : List Rat} {rf : Frames} {et : List Rat} {ef : Frames}
    (h : ¬ ValidMultipitch rt rf et ef) : validate rt rf et ef = .error .valueError := by
  rcases validate_errors rt rf et ef with hok | he
  · exact absurd ((validate_ok_iff rt rf et ef).1 hok) h
  · exact he

example : ValidMultipitch [0, 1 / 4, 1 / 4, 30000] [[60, 64], [60], [], [111]] [1 / 8] [[16]] :=
  ⟨⟨by decide +kernel, by decide +kernel⟩, ⟨by decide +kernel, by decide +kernel⟩, rfl, rfl,
    by unfold ValidFrames; decide +kernel, by unfold ValidFrames; decide +kernel⟩
/-- unsorted times / too late / unequal lengths / pitch out of range: each rejected -/
example : validate [1, 0] [[], []] [] [] = .error .valueError ∧
    validate [30001] [[]] [] [] = .error .valueError ∧
    validate [0] [] [] [] = .error .valueError ∧
    validate [] [] [0] [[112]] = .error .valueError ∧
    validate [] [] [0] [[15]] = .error .valueError := by decide +kernel

/-! ## `multipitch.metrics` -/

theorem metrics_ok_iff (rt : List Rat) (rf : Frames) (et : List Rat) (ef : Frames) (w : Rat) :
    (∃ v, metrics rt rf et ef w = .ok v) ↔ ValidMultipitch rt rf et ef := by
  rw [← valid_eq_true_iff, metrics_eq]
  constructor
  · rintro ⟨v, h⟩
    split at h
    · assumption
    · cases h
  · intro h
    rw [if_pos h]
    exact ⟨_, rfl⟩

/-- valid annotations are always scored, for every window -/
theorem metrics_total {rt : List Rat} {rf : Frames} {et : List Rat} {ef : Frames} (w : Rat)
    (h : ValidMultipitch rt rf et ef) : ∃ v, metrics rt rf et ef w = .ok v :=
  (metrics_ok_iff rt rf et ef w).2 h

/-- every failure is a `ValueError`, for all inputs and every window -/
theorem metrics_errors (rt : List Rat) (rf : Frames) (et : List Rat) (ef : Frames) (w : Rat) :
    (∃ v, metrics rt rf et ef w = .ok v) ∨ metrics rt rf et ef w = .error .valueError := by
  rw [metrics_eq]
  split
  · exact Or.inl ⟨_, rfl⟩
  · exact Or.inr rfl

theorem metrics_rejects {rt : List Rat} {rf : Frames} {et : List Rat} {ef : Frames} (w : Rat)
    (h : ¬ ValidMultipitch rt rf et ef) : metrics rt rf et ef w = .error .valueError := by
  rcases metrics_errors rt rf et ef w with hok | he
  · exact absurd ((metrics_ok_iff rt rf et ef w).1 hok) h
  · exact he

/-- `metrics` fails exactly when `validate` does -/
theorem metrics_ok_iff_validate (rt : List Rat) (rf : Frames) (et : List Rat) (ef : Frames) (w : Rat) :
    (∃ v, metrics rt rf et ef w = .ok v) ↔ validate rt rf et ef = .ok () := by
  rw [metrics_ok_iff, validate_ok_iff]

/-! ### empty annotations are scored -/

/-- an EMPTY REFERENCE against any valid estimate is scored -/
theorem metrics_empty_reference {et : List Rat} {ef : Frames} (w : Rat) (ht : ValidTimes et)
    (hl : et.length = ef.length) (hf : ValidFrames ef) : ∃ v, metrics [] [] et ef w = .ok v :=
  metrics_total w ⟨⟨by simp, List.Pairwise.nil⟩, ht, rfl, hl, (by intro f hf'; cases hf'), hf⟩

/-- an EMPTY ESTIMATE against any valid reference is scored -/
theorem metrics_empty_estimate {rt : List Rat} {rf : Frames} (w : Rat) (ht : ValidTimes rt)
    (hl : rt.length = rf.length) (hf : ValidFrames rf) : ∃ v, metrics rt rf [] [] w = .ok v :=
  metrics_total w ⟨ht, ⟨by simp, List.Pairwise.nil⟩, hl, rfl, hf, (by intro f hf'; cases hf')⟩

/-- BOTH EMPTY: fourteen zeros, for every window -/
theorem metrics_both_empty (w : Rat) :
    metrics [] [] [] [] w = .ok (⟨0, 0, 0, 0, 0, 0, 0⟩, ⟨0, 0, 0, 0, 0, 0, 0⟩) := by
  rw [metrics_eq, if_pos (by decide)]
  rfl

example : ∃ v, metrics [0, 1 / 4, 1 / 2, 3 / 4] [[60, 64], [60], [], [67, 72]] [1 / 8, 5 / 8] [[60, 76], [55]]
    (1 / 2) = .ok v :=
  metrics_total _ ⟨⟨by decide +kernel, by decide +kernel⟩, ⟨by decide +kernel, by decide +kernel⟩, rfl, rfl,
    by unfold ValidFrames; decide +kernel, by unfold ValidFrames; decide +kernel⟩
/-- empty reference / empty estimate, concretely (the latter: miss error 1, total error 1) -/
example : metrics [] [] [0, 1 / 2] [[69], []] (1 / 2) = .ok (⟨0, 0, 0, 0, 0, 0, 0⟩, ⟨0, 0, 0, 0, 0, 0, 0⟩) ∧
    metrics [0, 1 / 2] [[69], []] [] [] (1 / 2) = .ok (⟨0, 0, 0, 0, 1, 0, 1⟩, ⟨0, 0, 0, 0, 1, 0, 1⟩) := by
  decide +kernel
/-- a negative window is not an error -/
example : metrics [0] [[69]] [0] [[69]] (-1) = .ok (⟨0, 0, 0, 1, 0, 0, 1⟩, ⟨0, 0, 0, 1, 0, 0, 1⟩) := by
  decide +kernel
example : metrics [0, 1] [[69]] [0] [[69]] (1 / 2) = .error .valueError := by decide +kernel

/-! ## `multipitch.evaluate` -/

theorem evaluate_ok_iff (rt : List Rat) (rf : Frames) (et : List Rat) (ef : Frames) (w : Rat) :
    (∃ kvs, evaluate rt rf et ef w = .ok kvs) ↔ ValidMultipitch rt rf et ef := by
  rw [← valid_eq_true_iff, evaluate_eq]
  constructor
  · rintro ⟨v, h⟩
    split at h
    · assumption
    · cases h
  · intro h
    rw [if_pos h]
    exact ⟨_, rfl⟩

theorem evaluate_total {rt : List Rat} {rf : Frames} {et : List Rat} {ef : Frames} (w : Rat)
    (h : ValidMultipitch rt rf et ef) : ∃ kvs, evaluate rt rf et ef w = .ok kvs :=
  (evaluate_ok_iff rt rf et ef w).2 h

theorem evaluate_errors (rt : List Rat) (rf : Frames) (et : List Rat) (ef : Frames) (w : Rat) :
    (∃ kvs, evaluate rt rf et ef w = .ok kvs) ∨ evaluate rt rf et ef w = .error .valueError := by
  rw [evaluate_eq]
  split
  · exact Or.inl ⟨_, rfl⟩
  · exact Or.inr rfl

theorem evaluate_rejects {rt : List Rat} {rf : Frames} {et : List Rat} {ef : Frames} (w : Rat)
    (h : ¬ ValidMultipitch rt rf et ef) : evaluate rt rf et ef w = .error .valueError := by
  rcases evaluate_errors rt rf et ef w with hok | he
  · exact absurd ((evaluate_ok_iff rt rf et ef w).1 hok) h
  · exact he

/-- whenever `evaluate` returns, it returns exactly the 14 documented keys, in the documented order -/
theorem evaluate_keys (rt : List Rat) (rf : Frames) (et : List Rat) (ef : Frames) (w : Rat)
    (kvs : List (String × Rat)) (h : evaluate rt rf et ef w = .ok kvs) :
    kvs.map Prod.fst = evaluateKeys := by
  rw [evaluate_eq] at h
  split at h
  · simp only [Except.ok.injEq] at h
    subst h
    rfl
  · cases h

/-- … and the values are the seven raw scores followed by the seven chroma scores of `metrics` -/
theorem evaluate_values (rt : List Rat) (rf : Frames) (et : List Rat) (ef : Frames) (w : Rat)
    (kvs : List (String × Rat)) (h : evaluate rt rf et ef w = .ok kvs) :
    ∃ m, metrics rt rf et ef w = .ok m ∧ kvs.map Prod.snd = m.1.toList ++ m.2.toList := by
  rw [evaluate_eq] at h
  split at h
  · rename_i hv
    simp only [Except.ok.injEq] at h
    subst h
    exact ⟨_, by rw [metrics_eq, if_pos hv], rfl⟩
  · cases h

example : evaluateKeys.length = 14 ∧ evaluateKeys.Nodup := by decide
example : ∃ kvs, evaluate [0] [[69]] [0] [[69]] (1 / 2) = .ok kvs ∧ kvs.map Prod.fst = evaluateKeys := by
  obtain ⟨kvs, h⟩ := evaluate_total (rt := [0]) (rf := [[69]]) (et := [0]) (ef := [[69]]) (1 / 2)
    ⟨⟨by decide +kernel, by decide +kernel⟩, ⟨by decide +kernel, by decide +kernel⟩, rfl, rfl,
      by unfold ValidFrames; decide +kernel, by unfold ValidFrames; decide +kernel⟩
  exact ⟨kvs, h, evaluate_keys _ _ _ _ _ _ h⟩
example : (evaluate [0, 1 / 2] [[69], []] [] [] (1 / 2)).map (fun kvs => kvs.map Prod.snd)
    = .ok [0, 0, 0, 0, 1, 0, 1, 0, 0, 0, 0, 1, 0, 1] := by decide +kernel

/-! ## `multipitch.resample_multipitch` -/

/-- scored exactly when the target is empty, or the time base is empty, or there is one frame per time stamp
    (`interp1d` refuses `x` and `y` of unequal length) -/
theorem resample_ok_iff (ts : List Rat) (fs : Frames) (tg : List Rat) :
    (∃ v, resample ts fs tg = .ok v) ↔ tg = [] ∨ ts = [] ∨ ts.length = fs.length := by
  rw [resample_eq]
  constructor
  · rintro ⟨v, h⟩
    split at h
    · exact Or.inl ‹_›
    · split at h
      · exact Or.inr (Or.inl ‹_›)
      · split at h
        · cases h
        · rename_i hl
          exact Or.inr (Or.inr (not_not.1 hl))
  · intro h
    split
    · exact ⟨_, rfl⟩
    · split
      · exact ⟨_, rfl⟩
      · rename_i h1 h2
        rcases h with h | h | h
        · exact absurd h h1
        · exact absurd h h2
        · rw [if_neg (not_not.2 h)]
          exact ⟨_, rfl⟩

theorem resample_total {ts : List Rat} {fs : Frames} (tg : List Rat) (h : ts.length = fs.length) :
    ∃ v, resample ts fs tg = .ok v :=
  (resample_ok_iff ts fs tg).2 (Or.inr (Or.inr h))

/-- every failure is a `ValueError` -/
theorem resample_errors (ts : List Rat) (fs : Frames) (tg : List Rat) :
    (∃ v, resample ts fs tg = .ok v) ∨ resample ts fs tg = .error .valueError := by
  rw [resample_eq]
  split
  · exact Or.inl ⟨_, rfl⟩
  · split
    · exact Or.inl ⟨_, rfl⟩
    · split
      · exact Or.inr rfl
      · exact Or.inl ⟨_, rfl⟩

/-- one output frame per target time -/
theorem resample_length (ts : List Rat) (fs : Frames) (tg : List Rat) (v : Frames)
    (h : resample ts fs tg = .ok v) : v.length = tg.length := by
  rw [resample_eq] at h
  split at h
  · rename_i h1
    simp only [Except.ok.injEq] at h
    subst h; subst h1; rfl
  · split at h
    · simp only [Except.ok.injEq] at h
      subst h; simp
    · split at h
      · cases h
      · simp only [Except.ok.injEq] at h
        subst h
        exact resampleCore_length ts fs tg

example : resample [0, 1 / 2] [[69], []] [1 / 10, 3 / 10, 9] = .ok [[69], [], []] ∧
    resample [0, 1 / 2] [[69]] [] = .ok [] ∧
    resample [] [[69], []] [0, 1 / 2] = .ok [[], []] ∧
    resample [0, 1 / 2] [[69]] [0, 1 / 2] = .error .valueError := by decide +kernel

end Mir.C14.Multipitch
