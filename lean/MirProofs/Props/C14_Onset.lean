import MirModel.Onset
import MirProofs.Props.C14
import MirProofs.Lemmas.MiscStats
import MirProofs.Lemmas.AlignmentTotal

/-!
# C14 (task level) — `mir_eval.onset`: `validate`, `f_measure`, `evaluate`

Model: `MirModel/Onset.lean`.  `validate_agrees` ties its validator to the validator model of `Props/C14.lean`.
`Valid ref est` is the documented convention (`ValidEvents` on both 1-d arrays: increasing — ties allowed —, nothing
above `MAX_TIME = 30000`); empty arrays, single and duplicate onsets, estimates before / after the reference are valid.

* `f_measure` and `evaluate` return a value on every valid input, for every `window` (`*_total`);
* on any input whatsoever nothing but `ValueError` can come out (`*_errors`), and it comes out exactly on the
  inputs the validator documents as faulty (`f_measure_ok_iff`): the matching and the three quotients of the body
  cannot raise (empty sides return zeros, `util.f_measure` guards `0/0`).
-/
namespace Mir.C14.Onset
open Mir.Onset Mir.Validate Mir.MiscStats

/-- documented convention: both onset arrays are valid event arrays with `MAX_TIME = 30000` (Props/C14.lean) -/
def Valid (ref est : List Rat) : Prop := ValidEvents (Arr.vec ref) 30000 ∧ ValidEvents (Arr.vec est) 30000

theorem validEvents_vec_iff (xs : List Rat) :
    ValidEvents (Arr.vec xs) 30000 ↔ (∀ x ∈ xs, x ≤ Mir.Onset.maxTime) ∧ xs.Pairwise (· ≤ ·) := by
  constructor
  · intro h; exact ⟨h.bounded, h.increasing⟩
  · rintro ⟨h1, h2⟩; exact ⟨rfl, h1, h2⟩

/-- `util.validate_events` of the metric model = the validator model on the same 1-d array -/
theorem validateEvents_agrees (xs : List Rat) :
    validateEvents xs Mir.Onset.maxTime = utilEvents (Arr.vec xs) Mir.Validate.maxTime := by
  have hiff : validateEvents xs Mir.Onset.maxTime = .ok () ↔
      utilEvents (Arr.vec xs) Mir.Validate.maxTime = .ok () := by
    rw [validateEvents_ok_iff, validate_events_ok_iff, Mir.Alignment.zip_le_iff_pairwise,
      ← validEvents_vec_iff]; rfl
  rcases validateEvents_cases xs Mir.Onset.maxTime with h | h <;>
    rcases validate_events_total (Arr.vec xs) Mir.Validate.maxTime with h' | h'
  · rw [h, h']
  · rw [hiff.1 h] at h'; cases h'
  · rw [hiff.2 h'] at h; cases h
  · rw [h, h']

/-- `onset.validate` of the metric model = the validator model on the same 1-d arrays -/
theorem validate_agrees (ref est : List Rat) :
    validate ref est = onsetValidate (Arr.vec ref) (Arr.vec est) := by
  unfold validate onsetValidate
  rw [validateEvents_agrees, validateEvents_agrees]

theorem validate_ok_iff (ref est : List Rat) : validate ref est = .ok () ↔ Valid ref est := by
  rw [validate_agrees, onset_validate_ok_iff]; rfl

theorem validate_cases (ref est : List Rat) : validate ref est = .ok () ∨ validate ref est = .error .valueError := by
  rw [validate_agrees]; exact onset_validate_total _ _

/-! ## f_measure -/

/-- the body after validation cannot raise: the result is the validated hit statistics, reordered `(F, P, R)` -/
theorem f_measure_of_valid {ref est : List Rat} (h : Valid ref est) (window : Rat) :
    Mir.Onset.fMeasure ref est window =
      .ok ((hitPRF (withinWindow window) ref est 1).2.2, (hitPRF (withinWindow window) ref est 1).1,
        (hitPRF (withinWindow window) ref est 1).2.1) := by
  unfold Mir.Onset.fMeasure
  rw [(validate_ok_iff ref est).2 h]
  rfl

theorem f_measure_total {ref est : List Rat} (h : Valid ref est) (window : Rat) :
    ∃ v, Mir.Onset.fMeasure ref est window = .ok v :=
  ⟨_, f_measure_of_valid h window⟩

theorem f_measure_of_invalid {ref est : List Rat} (h : ¬ Valid ref est) (window : Rat) :
    Mir.Onset.fMeasure ref est window = .error .valueError := by
  rcases validate_cases ref est with hv | hv
  · exact absurd ((validate_ok_iff ref est).1 hv) h
  · unfold Mir.Onset.fMeasure; rw [hv]; rfl

theorem f_measure_errors (ref est : List Rat) (window : Rat) :
    (∃ v, Mir.Onset.fMeasure ref est window = .ok v) ∨ Mir.Onset.fMeasure ref est window = .error .valueError := by
  by_cases h : Valid ref est
  · exact Or.inl (f_measure_total h window)
  · exact Or.inr (f_measure_of_invalid h window)

/-- a value exactly on the documented inputs -/
theorem f_measure_ok_iff (ref est : List Rat) (window : Rat) :
    (∃ v, Mir.Onset.fMeasure ref est window = .ok v) ↔ Valid ref est := by
  constructor
  · rintro ⟨v, hv⟩
    by_contra h
    rw [f_measure_of_invalid h window] at hv
    cases hv
  · exact fun h => f_measure_total h window

/-! ## evaluate -/

theorem evaluate_total {ref est : List Rat} (h : Valid ref est) (window : Option Rat) :
    ∃ v, Mir.Onset.evaluate ref est window = .ok v := by
  unfold Mir.Onset.evaluate
  rw [f_measure_of_valid h]
  exact ⟨_, rfl⟩

theorem evaluate_errors (ref est : List Rat) (window : Option Rat) :
    (∃ v, Mir.Onset.evaluate ref est window = .ok v) ∨ Mir.Onset.evaluate ref est window = .error .valueError := by
  by_cases h : Valid ref est
  · exact Or.inl (evaluate_total h window)
  · right
    unfold Mir.Onset.evaluate
    rw [f_measure_of_invalid h]
    rfl

example : Valid [] [1, 1, 2] ∧ Valid [0, 3] [] ∧ ¬ Valid [2, 1] [1] ∧
    Mir.Onset.fMeasure [] [1, 1, 2] (1 / 20) = .ok (0, 0, 0) ∧ Mir.Onset.fMeasure [2, 1] [1] (1 / 20) = .error .valueError := by
  refine ⟨⟨⟨rfl, by simp [Arr.vec], by simp [Arr.vec]⟩, ⟨rfl, ?_, ?_⟩⟩,
    ⟨⟨rfl, ?_, ?_⟩, ⟨rfl, by simp [Arr.vec], by simp [Arr.vec]⟩⟩, ?_, by decide +kernel, by decide +kernel⟩
  · intro x hx; simp only [Arr.vec, List.mem_cons, List.not_mem_nil, or_false] at hx
    rcases hx with rfl | rfl | rfl <;> norm_num
  · simp [Arr.vec]
  · intro x hx; simp only [Arr.vec, List.mem_cons, List.not_mem_nil, or_false] at hx
    rcases hx with rfl | rfl <;> norm_num
  · simp [Arr.vec]
  · rintro ⟨⟨_, _, h⟩, _⟩
    simp [Arr.vec] at h

end Mir.C14.Onset
