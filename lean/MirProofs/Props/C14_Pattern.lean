import MirProofs.Props.C14
import MirProofs.Lemmas.PatternTotal

/-!
# C14 (task level) — `mir_eval.pattern`: the seven metrics and `evaluate`

Model: `MirModel/Pattern.lean`; `validate_agrees` ties its validator to the validator model of `Props/C14.lean`.

*Convention.*  `pattern.validate` only checks that every pattern has an occurrence (and that points are 2-tuples).
The module's conventions additionally describe an occurrence as a list of `(onset, midi)` tuples; an *empty*
occurrence has no cardinality score (`0 / max(0, 0)`), no first-layer precision (`0 / 0`) and no prototype.
`ValidSide` is therefore: the validator's convention **and** every occurrence has at least one point.
(Distinctness of the points is not needed for totality; `ValidPats` of the C02 slice, which asks for it, implies
`ValidSide`.)  Empty pattern *lists* are valid: every metric returns zeros for them.

*Results.*
* `*_total` : every metric and `evaluate` return a value on every `ValidSide` input, for every `tol`, `thres`, `n`
  (zero and negative `n` included) and the documented `similarity_metric`;
* the `*_errors` statement "only `ValueError` can come out" is **false of the code** for every metric that divides
  by an occurrence length: `ZeroDivisionError` escapes on inputs the validator accepts.  For each function the
  full-strength statement is kept as `*_errors_full_statement`, refuted by a witness (`*_errors_full_false`), the
  exact set of escaping inputs is proved (`*_zeroDivision_iff`), and the strongest true version is proved
  (`*_errors_partial`: a value, `ValueError` or `ZeroDivisionError`; nothing else — in particular no `IndexError`
  from `pattern[0]` / `np.ix_` and no NaN mean of an empty array);
* `standard_FPR` is the exception: two empty prototypes reach `np.max` of an empty array, which happens to be a
  `ValueError`, so `standard_FPR_errors` holds at full strength.
-/
namespace Mir.C14.Pattern
set_option linter.unusedSimpArgs false
open Mir.Pattern Mir.Pattern.Spec Mir.Validate Mir.Totality

/-! ## validity -/

/-- the nested-list form the validator model sees: every point is a 2-list -/
def raw (x : Pats) : Patterns := x.map fun pat => pat.map fun occ => occ.map fun pt => [pt.1, pt.2]

/-- documented convention for one side: what `validate` checks (Props/C14.lean) and no empty occurrence -/
structure ValidSide (x : Pats) : Prop where
  shape : ValidPatterns (raw x)
  occNonEmpty : ∀ p ∈ x, ∀ o ∈ p, o ≠ []

theorem validPatterns_raw_iff (x : Pats) : ValidPatterns (raw x) ↔ ∀ p ∈ x, p ≠ [] := by
  unfold ValidPatterns raw
  constructor
  · intro h p hp hnil
    subst hnil
    have := (h _ (List.mem_map.2 ⟨[], hp, rfl⟩)).1
    simp at this
  · intro h pat hpat
    obtain ⟨p, hp, rfl⟩ := List.mem_map.1 hpat
    refine ⟨by simpa using h p hp, ?_⟩
    intro occ hocc om hom
    obtain ⟨o, _, rfl⟩ := List.mem_map.1 hocc
    obtain ⟨pt, _, rfl⟩ := List.mem_map.1 hom
    rfl

/-- `pattern.validate` of the metric model = the validator model on the same nested lists -/
theorem validate_agrees (ref est : Pats) :
    Mir.Pattern.validate ref est = patternValidate (raw ref) (raw est) := by
  have hiff : Mir.Pattern.validate ref est = .ok () ↔ patternValidate (raw ref) (raw est) = .ok () := by
    rw [pattern_validate_ok_iff, validPatterns_raw_iff, validPatterns_raw_iff, validate_eq, List.any_append]
    rw [← any_isEmpty_false_iff, ← any_isEmpty_false_iff]
    cases ref.any List.isEmpty <;> cases est.any List.isEmpty <;> simp
  have hc : Mir.Pattern.validate ref est = .ok () ∨ Mir.Pattern.validate ref est = .error .valueError := by
    rw [validate_eq]; split
    · exact Or.inr rfl
    · exact Or.inl rfl
  rcases hc with h | h <;> rcases pattern_validate_total (raw ref) (raw est) with h' | h'
  · rw [h, h']
  · rw [hiff.1 h] at h'; cases h'
  · rw [hiff.2 h'] at h; cases h
  · rw [h, h']

theorem ValidSide.no_empty_pat {x : Pats} (h : ValidSide x) : x.any List.isEmpty = false :=
  (any_isEmpty_false_iff x).2 ((validPatterns_raw_iff x).1 h.shape)

theorem valid_any {ref est : Pats} (hr : ValidSide ref) (he : ValidSide est) :
    (ref ++ est).any List.isEmpty = false := by
  rw [List.any_append, hr.no_empty_pat, he.no_empty_pat]; rfl

theorem ValidSide.no_empty_occ {x : Pats} (h : ValidSide x) : anyEmptyOcc x = false := by
  rw [Bool.eq_false_iff]
  intro hh
  obtain ⟨p, hp, he⟩ := List.any_eq_true.1 hh
  obtain ⟨o, ho, hoe⟩ := List.any_eq_true.1 he
  exact h.occNonEmpty p hp o ho (List.isEmpty_iff.1 hoe)

theorem ValidSide.no_empty_proto {x : Pats} (h : ValidSide x) : anyEmptyProto x = false := by
  rw [Bool.eq_false_iff]
  intro hh
  obtain ⟨p, hp, he⟩ := List.any_eq_true.1 hh
  obtain ⟨o, os, rfl⟩ := List.exists_cons_of_ne_nil ((validPatterns_raw_iff x).1 h.shape p hp)
  exact h.occNonEmpty _ hp o (by simp) (List.isEmpty_iff.1 he)

/-- the first `n` estimated patterns of a valid side are a valid side (any `n`, also zero or negative) -/
theorem ValidSide.firstN {est : Pats} (h : ValidSide est) (n : Int) : ValidSide (firstN est n) := by
  refine ⟨(validPatterns_raw_iff _).2 fun p hp => ?_, fun p hp => h.occNonEmpty p (firstN_sublist est n p hp)⟩
  exact (validPatterns_raw_iff est).1 h.shape p (firstN_sublist est n p hp)

/-- the C02 notion of a valid pattern list (non-empty, distinct points) is stronger -/
theorem validSide_of_validPats {x : Pats} (h : ValidPats x) : ValidSide x :=
  ⟨(validPatterns_raw_iff x).2 fun p hp => (h.2 p hp).1, fun p hp o ho => ((h.2 p hp).2 o ho).1⟩

/-! ## standard_FPR -/

theorem standard_FPR_total {ref est : Pats} (hr : ValidSide ref) (he : ValidSide est) (tol : Rat) :
    ∃ v, standardFPR ref est tol = .ok v := by
  rw [standardFPR_eq, valid_any hr he, hr.no_empty_proto]
  cases isZero ref est <;> exact ⟨_, rfl⟩

/-- full strength: on any input a value or `ValueError` (two empty prototypes end in `np.max([])`: ValueError) -/
theorem standard_FPR_errors (ref est : Pats) (tol : Rat) :
    (∃ v, standardFPR ref est tol = .ok v) ∨ standardFPR ref est tol = .error .valueError := by
  rw [standardFPR_eq]
  cases (ref ++ est).any List.isEmpty <;> cases isZero ref est <;>
    cases anyEmptyProto ref && anyEmptyProto est <;> first | exact Or.inl ⟨_, rfl⟩ | exact Or.inr rfl

/-! ## establishment_FPR -/

theorem establishment_FPR_total {ref est : Pats} (hr : ValidSide ref) (he : ValidSide est) :
    ∃ v, establishmentFPR ref est cardName = .ok v := by
  rw [establishmentFPR_eq, valid_any hr he, hr.no_empty_occ]
  cases isZero ref est <;> exact ⟨_, rfl⟩

/-- exactly these inputs escape with `ZeroDivisionError`: accepted by `validate`, some point on both sides, and an
    empty occurrence on *both* sides -/
theorem establishment_FPR_zeroDivision_iff (ref est : Pats) :
    establishmentFPR ref est cardName = .error .zeroDivision ↔
      (ref ++ est).any List.isEmpty = false ∧ isZero ref est = false ∧
        anyEmptyOcc ref = true ∧ anyEmptyOcc est = true := by
  rw [establishmentFPR_eq]
  cases (ref ++ est).any List.isEmpty <;> cases isZero ref est <;>
    cases anyEmptyOcc ref <;> cases anyEmptyOcc est <;> simp

/-- an undocumented similarity metric is rejected with `ValueError` as soon as a score matrix is needed -/
theorem establishment_FPR_other {metric : String} (hm : metric ≠ cardName) (ref est : Pats) :
    establishmentFPR ref est metric =
      if (ref ++ est).any List.isEmpty then .error .valueError
      else if isZero ref est then .ok (0, 0, 0) else .error .valueError := by
  unfold establishmentFPR
  rw [validate_eq]
  split
  · rfl
  · rename_i hv
    obtain ⟨hr, he⟩ := valid_mem (Bool.eq_false_iff.2 hv)
    rw [bind_ok]
    split
    · rfl
    · rename_i hz
      obtain ⟨hrn, hen⟩ := nonzero_ne_nil (Bool.eq_false_iff.2 hz)
      obtain ⟨rp, rs, rfl⟩ := List.exists_cons_of_ne_nil hrn
      obtain ⟨ep, es, rfl⟩ := List.exists_cons_of_ne_nil hen
      have : estMatrix (rp :: rs) (ep :: es) metric = .error .valueError := by
        unfold estMatrix
        apply mapM_head_error
        apply mapM_head_error
        rw [scoreMatrix_other hm (hr rp (by simp)) (he ep (by simp))]
        rfl
      rw [this]
      rfl

def establishment_FPR_errors_full_statement : Prop :=
  ∀ (ref est : Pats) (metric : String),
    (∃ v, establishmentFPR ref est metric = .ok v) ∨ establishmentFPR ref est metric = .error .valueError

/-- refuted: `establishment_FPR([[[], [(0, 60)]]], [[[], [(0, 60)]]])` raises `ZeroDivisionError` -/
theorem establishment_FPR_errors_full_false : ¬ establishment_FPR_errors_full_statement := by
  intro h
  have h1 : establishmentFPR [[[], [(0, 60)]]] [[[], [(0, 60)]]] cardName = .error .zeroDivision :=
    (establishment_FPR_zeroDivision_iff _ _).2 (by decide)
  rcases h [[[], [(0, 60)]]] [[[], [(0, 60)]]] cardName with ⟨v, hv⟩ | hv <;> rw [h1] at hv <;> cases hv

theorem establishment_FPR_errors_partial (ref est : Pats) (metric : String) :
    (∃ v, establishmentFPR ref est metric = .ok v) ∨ establishmentFPR ref est metric = .error .valueError ∨
      establishmentFPR ref est metric = .error .zeroDivision := by
  by_cases hm : metric = cardName
  · subst hm
    rw [establishmentFPR_eq]
    cases (ref ++ est).any List.isEmpty <;> cases isZero ref est <;>
      cases anyEmptyOcc ref && anyEmptyOcc est <;>
      first | exact Or.inl ⟨_, rfl⟩ | exact Or.inr (Or.inl rfl) | exact Or.inr (Or.inr rfl)
  · rw [establishment_FPR_other hm]
    cases (ref ++ est).any List.isEmpty <;> cases isZero ref est <;>
      first | exact Or.inl ⟨_, rfl⟩ | exact Or.inr (Or.inl rfl)

/-! ## occurrence_FPR -/

theorem occurrence_FPR_total {ref est : Pats} (hr : ValidSide ref) (he : ValidSide est) (thres : Rat) :
    ∃ v, occurrenceFPR ref est thres cardName = .ok v := by
  rw [occurrenceFPR_eq, valid_any hr he, hr.no_empty_occ]
  cases isZero ref est <;> exact ⟨_, rfl⟩

theorem occurrence_FPR_zeroDivision_iff (ref est : Pats) (thres : Rat) :
    occurrenceFPR ref est thres cardName = .error .zeroDivision ↔
      (ref ++ est).any List.isEmpty = false ∧ isZero ref est = false ∧
        anyEmptyOcc ref = true ∧ anyEmptyOcc est = true := by
  rw [occurrenceFPR_eq]
  cases (ref ++ est).any List.isEmpty <;> cases isZero ref est <;>
    cases anyEmptyOcc ref <;> cases anyEmptyOcc est <;> simp

theorem occurrence_FPR_other {metric : String} (hm : metric ≠ cardName) (ref est : Pats) (thres : Rat) :
    occurrenceFPR ref est thres metric =
      if (ref ++ est).any List.isEmpty then .error .valueError
      else if isZero ref est then .ok (0, 0, 0) else .error .valueError := by
  unfold occurrenceFPR
  rw [validate_eq]
  split
  · rfl
  · rename_i hv
    obtain ⟨hr, he⟩ := valid_mem (Bool.eq_false_iff.2 hv)
    rw [bind_ok]
    split
    · rfl
    · rename_i hz
      obtain ⟨hrn, hen⟩ := nonzero_ne_nil (Bool.eq_false_iff.2 hz)
      obtain ⟨rp, rs, rfl⟩ := List.exists_cons_of_ne_nil hrn
      obtain ⟨ep, es, rfl⟩ := List.exists_cons_of_ne_nil hen
      have : occMatrix thres metric (rp :: rs) (ep :: es) = .error .valueError := by
        unfold occMatrix
        apply mapM_head_error
        apply mapM_head_error
        unfold occCell
        rw [scoreMatrix_other hm (hr rp (by simp)) (he ep (by simp))]
        rfl
      rw [this]
      rfl

def occurrence_FPR_errors_full_statement : Prop :=
  ∀ (ref est : Pats) (thres : Rat) (metric : String),
    (∃ v, occurrenceFPR ref est thres metric = .ok v) ∨ occurrenceFPR ref est thres metric = .error .valueError

theorem occurrence_FPR_errors_full_false : ¬ occurrence_FPR_errors_full_statement := by
  intro h
  have h1 : occurrenceFPR [[[], [(0, 60)]]] [[[], [(0, 60)]]] (3 / 4) cardName = .error .zeroDivision :=
    (occurrence_FPR_zeroDivision_iff _ _ _).2 (by decide)
  rcases h [[[], [(0, 60)]]] [[[], [(0, 60)]]] (3 / 4) cardName with ⟨v, hv⟩ | hv <;> rw [h1] at hv <;> cases hv

theorem occurrence_FPR_errors_partial (ref est : Pats) (thres : Rat) (metric : String) :
    (∃ v, occurrenceFPR ref est thres metric = .ok v) ∨ occurrenceFPR ref est thres metric = .error .valueError ∨
      occurrenceFPR ref est thres metric = .error .zeroDivision := by
  by_cases hm : metric = cardName
  · subst hm
    rw [occurrenceFPR_eq]
    cases (ref ++ est).any List.isEmpty <;> cases isZero ref est <;>
      cases anyEmptyOcc ref && anyEmptyOcc est <;>
      first | exact Or.inl ⟨_, rfl⟩ | exact Or.inr (Or.inl rfl) | exact Or.inr (Or.inr rfl)
  · rw [occurrence_FPR_other hm]
    cases (ref ++ est).any List.isEmpty <;> cases isZero ref est <;>
      first | exact Or.inl ⟨_, rfl⟩ | exact Or.inr (Or.inl rfl)

/-! ## three_layer_FPR -/

theorem three_layer_FPR_total {ref est : Pats} (hr : ValidSide ref) (he : ValidSide est) :
    ∃ v, threeLayerFPR ref est = .ok v := by
  rw [threeLayerFPR_eq, valid_any hr he, hr.no_empty_occ, he.no_empty_occ]
  cases isZero ref est <;> exact ⟨_, rfl⟩

/-- here one empty occurrence on *either* side is enough (the first layer divides by each length) -/
theorem three_layer_FPR_zeroDivision_iff (ref est : Pats) :
    threeLayerFPR ref est = .error .zeroDivision ↔
      (ref ++ est).any List.isEmpty = false ∧ isZero ref est = false ∧
        (anyEmptyOcc ref = true ∨ anyEmptyOcc est = true) := by
  rw [threeLayerFPR_eq]
  cases (ref ++ est).any List.isEmpty <;> cases isZero ref est <;>
    cases anyEmptyOcc ref <;> cases anyEmptyOcc est <;> simp

def three_layer_FPR_errors_full_statement : Prop :=
  ∀ ref est : Pats, (∃ v, threeLayerFPR ref est = .ok v) ∨ threeLayerFPR ref est = .error .valueError

/-- refuted: `three_layer_FPR([[[(0, 60)]]], [[[]], [[(0, 60)]]])` raises `ZeroDivisionError` -/
theorem three_layer_FPR_errors_full_false : ¬ three_layer_FPR_errors_full_statement := by
  intro h
  have h1 : threeLayerFPR [[[(0, 60)]]] [[[]], [[(0, 60)]]] = .error .zeroDivision :=
    (three_layer_FPR_zeroDivision_iff _ _).2 (by decide)
  rcases h [[[(0, 60)]]] [[[]], [[(0, 60)]]] with ⟨v, hv⟩ | hv <;> rw [h1] at hv <;> cases hv

theorem three_layer_FPR_errors_partial (ref est : Pats) :
    (∃ v, threeLayerFPR ref est = .ok v) ∨ threeLayerFPR ref est = .error .valueError ∨
      threeLayerFPR ref est = .error .zeroDivision := by
  rw [threeLayerFPR_eq]
  cases (ref ++ est).any List.isEmpty <;> cases isZero ref est <;>
    cases anyEmptyOcc ref || anyEmptyOcc est <;>
    first | exact Or.inl ⟨_, rfl⟩ | exact Or.inr (Or.inl rfl) | exact Or.inr (Or.inr rfl)

/-! ## first_n_three_layer_P, first_n_target_proportion_R -/

theorem first_n_three_layer_P_total {ref est : Pats} (hr : ValidSide ref) (he : ValidSide est) (n : Int) :
    ∃ v, firstNThreeLayerP ref est n = .ok v := by
  rw [firstNThreeLayerP_eq, valid_any hr he]
  cases isZero ref est
  · obtain ⟨v, hv⟩ := three_layer_FPR_total hr (he.firstN n)
    exact ⟨v.2.1, by simp [hv, Except.map]⟩
  · exact ⟨_, rfl⟩

theorem first_n_target_proportion_R_total {ref est : Pats} (hr : ValidSide ref) (he : ValidSide est) (n : Int) :
    ∃ v, firstNTargetProportionR ref est n = .ok v := by
  rw [firstNTargetProportionR_eq, valid_any hr he]
  cases isZero ref est
  · obtain ⟨v, hv⟩ := establishment_FPR_total hr (he.firstN n)
    exact ⟨v.2.2, by simp [hv, Except.map]⟩
  · exact ⟨_, rfl⟩

theorem first_n_three_layer_P_zeroDivision_iff (ref est : Pats) (n : Int) :
    firstNThreeLayerP ref est n = .error .zeroDivision ↔
      (ref ++ est).any List.isEmpty = false ∧ isZero ref est = false ∧
        threeLayerFPR ref (firstN est n) = .error .zeroDivision := by
  rw [firstNThreeLayerP_eq]
  cases (ref ++ est).any List.isEmpty <;> cases isZero ref est <;>
    cases threeLayerFPR ref (firstN est n) <;> simp [Except.map]

theorem first_n_target_proportion_R_zeroDivision_iff (ref est : Pats) (n : Int) :
    firstNTargetProportionR ref est n = .error .zeroDivision ↔
      (ref ++ est).any List.isEmpty = false ∧ isZero ref est = false ∧
        establishmentFPR ref (firstN est n) cardName = .error .zeroDivision := by
  rw [firstNTargetProportionR_eq]
  cases (ref ++ est).any List.isEmpty <;> cases isZero ref est <;>
    cases establishmentFPR ref (firstN est n) cardName <;> simp [Except.map]

def first_n_three_layer_P_errors_full_statement : Prop :=
  ∀ (ref est : Pats) (n : Int),
    (∃ v, firstNThreeLayerP ref est n = .ok v) ∨ firstNThreeLayerP ref est n = .error .valueError

theorem first_n_three_layer_P_errors_full_false : ¬ first_n_three_layer_P_errors_full_statement := by
  intro h
  have h1 : firstNThreeLayerP [[[(0, 60)]]] [[[]], [[(0, 60)]]] 5 = .error .zeroDivision :=
    (first_n_three_layer_P_zeroDivision_iff _ _ _).2
      ⟨by decide, by decide, (three_layer_FPR_zeroDivision_iff _ _).2 (by decide)⟩
  rcases h [[[(0, 60)]]] [[[]], [[(0, 60)]]] 5 with ⟨v, hv⟩ | hv <;> rw [h1] at hv <;> cases hv

theorem first_n_three_layer_P_errors_partial (ref est : Pats) (n : Int) :
    (∃ v, firstNThreeLayerP ref est n = .ok v) ∨ firstNThreeLayerP ref est n = .error .valueError ∨
      firstNThreeLayerP ref est n = .error .zeroDivision := by
  rw [firstNThreeLayerP_eq]
  cases (ref ++ est).any List.isEmpty <;> cases isZero ref est <;>
    first
    | exact Or.inl ⟨_, rfl⟩
    | exact Or.inr (Or.inl rfl)
    | (rcases three_layer_FPR_errors_partial ref (firstN est n) with ⟨v, hv⟩ | hv | hv <;> rw [hv]
       · exact Or.inl ⟨_, rfl⟩
       · exact Or.inr (Or.inl rfl)
       · exact Or.inr (Or.inr rfl))

def first_n_target_proportion_R_errors_full_statement : Prop :=
  ∀ (ref est : Pats) (n : Int),
    (∃ v, firstNTargetProportionR ref est n = .ok v) ∨ firstNTargetProportionR ref est n = .error .valueError

theorem first_n_target_proportion_R_errors_full_false : ¬ first_n_target_proportion_R_errors_full_statement := by
  intro h
  have h1 : firstNTargetProportionR [[[], [(0, 60)]]] [[[], [(0, 60)]]] 5 = .error .zeroDivision :=
    (first_n_target_proportion_R_zeroDivision_iff _ _ _).2
      ⟨by decide, by decide, (establishment_FPR_zeroDivision_iff _ _).2 (by decide)⟩
  rcases h [[[], [(0, 60)]]] [[[], [(0, 60)]]] 5 with ⟨v, hv⟩ | hv <;> rw [h1] at hv <;> cases hv

theorem first_n_target_proportion_R_errors_partial (ref est : Pats) (n : Int) :
    (∃ v, firstNTargetProportionR ref est n = .ok v) ∨ firstNTargetProportionR ref est n = .error .valueError ∨
      firstNTargetProportionR ref est n = .error .zeroDivision := by
  rw [firstNTargetProportionR_eq]
  cases (ref ++ est).any List.isEmpty <;> cases isZero ref est <;>
    first
    | exact Or.inl ⟨_, rfl⟩
    | exact Or.inr (Or.inl rfl)
    | (rcases establishment_FPR_errors_partial ref (firstN est n) cardName with ⟨v, hv⟩ | hv | hv <;> rw [hv]
       · exact Or.inl ⟨_, rfl⟩
       · exact Or.inr (Or.inl rfl)
       · exact Or.inr (Or.inr rfl))

/-! ## evaluate -/

/-- `evaluate(ref, est, tol=…, thres=…, similarity_metric=…, n=…)` returns its 17 scores on every valid input
    (the only documented `similarity_metric` is the default one) -/
theorem evaluate_total {ref est : Pats} (hr : ValidSide ref) (he : ValidSide est) (tol thres : Option Rat)
    {metric : Option String} (hm : metric.getD cardName = cardName) (n : Option Int) :
    ∃ v, evaluate ref est tol thres metric n = .ok v := by
  obtain ⟨a, ha⟩ := standard_FPR_total hr he (tol.getD defaultTol)
  obtain ⟨b, hb⟩ := establishment_FPR_total hr he
  obtain ⟨c, hc⟩ := occurrence_FPR_total hr he (1 / 2)
  obtain ⟨d, hd⟩ := occurrence_FPR_total hr he (3 / 4)
  obtain ⟨e, he'⟩ := three_layer_FPR_total hr he
  obtain ⟨f, hf⟩ := first_n_three_layer_P_total hr he (n.getD defaultN)
  obtain ⟨g, hg⟩ := first_n_target_proportion_R_total hr he (n.getD defaultN)
  unfold evaluate
  rw [hm, ha, hb, hc, hd, he', hf, hg]
  exact ⟨_, rfl⟩

theorem evaluate_errors_partial (ref est : Pats) (tol thres : Option Rat) (metric : Option String) (n : Option Int) :
    (∃ v, evaluate ref est tol thres metric n = .ok v) ∨ evaluate ref est tol thres metric n = .error .valueError ∨
      evaluate ref est tol thres metric n = .error .zeroDivision := by
  rw [← raises_vezd_iff]
  unfold evaluate
  refine raises_bind (raises_mono ((raises_ve_iff _).2 (standard_FPR_errors ref est _))
    fun e h => Or.inl h) fun _ _ => ?_
  refine raises_bind ((raises_vezd_iff _).2 (establishment_FPR_errors_partial ref est _)) fun _ _ => ?_
  refine raises_bind ((raises_vezd_iff _).2 (occurrence_FPR_errors_partial ref est _ _)) fun _ _ => ?_
  refine raises_bind ((raises_vezd_iff _).2 (occurrence_FPR_errors_partial ref est _ _)) fun _ _ => ?_
  refine raises_bind ((raises_vezd_iff _).2 (three_layer_FPR_errors_partial ref est)) fun _ _ => ?_
  refine raises_bind ((raises_vezd_iff _).2 (first_n_three_layer_P_errors_partial ref est _)) fun _ _ => ?_
  refine raises_bind ((raises_vezd_iff _).2 (first_n_target_proportion_R_errors_partial ref est _)) fun _ _ => ?_
  exact raises_pure _ _

/-- exactly these inputs make `evaluate` (default similarity metric) escape with `ZeroDivisionError`: accepted by
    `validate`, some point on both sides, not both sides with an empty prototype (that is `standard_FPR`'s
    ValueError, which comes first), and an empty occurrence somewhere -/
theorem evaluate_zeroDivision_iff (ref est : Pats) (tol thres : Option Rat) (n : Option Int) :
    evaluate ref est tol thres none n = .error .zeroDivision ↔
      (ref ++ est).any List.isEmpty = false ∧ isZero ref est = false ∧
        (anyEmptyProto ref && anyEmptyProto est) = false ∧ (anyEmptyOcc ref = true ∨ anyEmptyOcc est = true) := by
  have hS := standardFPR_eq ref est (tol.getD defaultTol)
  have hE := establishmentFPR_eq ref est
  have hO5 := occurrenceFPR_eq ref est (1 / 2)
  have hO75 := occurrenceFPR_eq ref est (3 / 4)
  have hT := threeLayerFPR_eq ref est
  have hF := firstNThreeLayerP_eq ref est (n.getD defaultN)
  have hG := firstNTargetProportionR_eq ref est (n.getD defaultN)
  have hdef : (none : Option String).getD cardName = cardName := rfl
  cases hv : (ref ++ est).any List.isEmpty
  · cases hz : isZero ref est
    · cases hp : anyEmptyProto ref && anyEmptyProto est
      · simp only [hv, hz, hp, Bool.false_eq_true, if_false, if_true] at hS
        cases ho : anyEmptyOcc ref <;> cases ho' : anyEmptyOcc est
        · -- no empty occurrence anywhere: everything is scored
          have hT' := threeLayerFPR_eq ref (firstN est (n.getD defaultN))
          have hE' := establishmentFPR_eq ref (firstN est (n.getD defaultN))
          simp only [any_isEmpty_firstN hv, ho, anyEmptyOcc_firstN ho', Bool.false_eq_true, if_false, if_true, Bool.and_self, Bool.or_self] at hT' hE'
          simp only [hv, hz, ho, ho', Bool.false_eq_true, if_false, if_true, Bool.and_self, Bool.or_self, Bool.and_true, Bool.and_false, Bool.or_true, Bool.or_false] at hE hO5 hO75 hT
          simp only [hv, hz, Bool.false_eq_true, if_false, if_true] at hF hG
          have hF' : ∃ v, firstNThreeLayerP ref est (n.getD defaultN) = .ok v := by
            rw [hF, hT']; cases isZero ref (firstN est (n.getD defaultN)) <;> exact ⟨_, rfl⟩
          have hG' : ∃ v, firstNTargetProportionR ref est (n.getD defaultN) = .ok v := by
            rw [hG, hE']; cases isZero ref (firstN est (n.getD defaultN)) <;> exact ⟨_, rfl⟩
          obtain ⟨f, hf⟩ := hF'
          obtain ⟨g, hg⟩ := hG'
          unfold evaluate
          rw [hdef, hS, hE, hO5, hO75, hT, hf, hg]
          simp only [bind_ok, bind_err, pure_eq]
          simp
        · simp only [hv, hz, ho, ho', Bool.false_eq_true, if_false, if_true, Bool.and_self, Bool.or_self, Bool.and_true, Bool.and_false, Bool.or_true, Bool.or_false] at hE hO5 hO75 hT
          unfold evaluate
          rw [hdef, hS, hE, hO5, hO75, hT]
          simp only [bind_ok, bind_err, pure_eq]
          simp
        · simp only [hv, hz, ho, ho', Bool.false_eq_true, if_false, if_true, Bool.and_self, Bool.or_self, Bool.and_true, Bool.and_false, Bool.or_true, Bool.or_false] at hE hO5 hO75 hT
          unfold evaluate
          rw [hdef, hS, hE, hO5, hO75, hT]
          simp only [bind_ok, bind_err, pure_eq]
          simp
        · simp only [hv, hz, ho, ho', Bool.false_eq_true, if_false, if_true, Bool.and_self] at hE
          unfold evaluate
          rw [hdef, hS, hE]
          simp only [bind_ok, bind_err, pure_eq]
          simp
      · simp only [hv, hz, hp, Bool.false_eq_true, if_false, if_true] at hS
        unfold evaluate
        rw [hS]
        simp only [bind_ok, bind_err, pure_eq]
        simp
    · simp only [hv, hz, Bool.false_eq_true, if_false, if_true] at hS hE hO5 hO75 hT hF hG
      unfold evaluate
      rw [hdef, hS, hE, hO5, hO75, hT, hF, hG]
      simp only [bind_ok, bind_err, pure_eq]
      simp
  · simp only [hv, if_true] at hS
    unfold evaluate
    rw [hS]
    simp only [bind_ok, bind_err, pure_eq]
    simp

def evaluate_errors_full_statement : Prop :=
  ∀ (ref est : Pats) (tol thres : Option Rat) (metric : Option String) (n : Option Int),
    (∃ v, evaluate ref est tol thres metric n = .ok v) ∨ evaluate ref est tol thres metric n = .error .valueError

/-- refuted: `evaluate([[[(0, 60)]]], [[[]], [[(0, 60)]]])` raises `ZeroDivisionError` (from the three-layer score) -/
theorem evaluate_errors_full_false : ¬ evaluate_errors_full_statement := by
  intro h
  have h1 : evaluate [[[(0, 60)]]] [[[]], [[(0, 60)]]] none none none none = .error .zeroDivision :=
    (evaluate_zeroDivision_iff _ _ _ _ _).2 (by decide)
  rcases h [[[(0, 60)]]] [[[]], [[(0, 60)]]] none none none none with ⟨v, hv⟩ | hv <;> rw [h1] at hv <;> cases hv

/-! ## non-vacuity -/

example : ValidSide [[[(0, 60), (1, 62)], [(4, 60), (5, 62)]]] :=
  ⟨(validPatterns_raw_iff _).2 (by simp), by simp⟩
-- empty pattern lists are valid (all scores are zero)
example : ValidSide [] := ⟨(validPatterns_raw_iff _).2 (by simp), by simp⟩
example : ∃ v, evaluate [] [[[(0, 60)]]] none none none none = .ok v :=
  evaluate_total ⟨(validPatterns_raw_iff _).2 (by simp), by simp⟩ ⟨(validPatterns_raw_iff _).2 (by simp), by simp⟩
    none none rfl none
example : standardFPR [[[(0, 60)]]] [[[(1, 62)]]] = .ok (1, 1, 1) := by decide +kernel
-- an empty occurrence is accepted by validate and escapes
example : Mir.Pattern.validate [[[]]] [[[]]] = .ok () := by decide +kernel
example : establishmentFPR [[[]]] [[[]]] = .ok (0, 0, 0) := by decide +kernel
example : standardFPR [[[], [(0, 60)]]] [[[], [(0, 60)]]] = .error .valueError := by decide +kernel
example : firstNThreeLayerP [[[(0, 60)]]] [[[(0, 60)]], [[]]] 1 = .ok 1 := by decide +kernel
example : firstNThreeLayerP [[[(0, 60)]]] [[[(0, 60)]], [[]]] 2 = .error .zeroDivision := by decide +kernel
example : establishmentFPR [[[(0, 60)]]] [[[(0, 60)]]] "other" = .error .valueError := by decide +kernel

end Mir.C14.Pattern
