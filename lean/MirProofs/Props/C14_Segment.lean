import MirModel.Segment
import MirProofs.Lemmas.Segment
import MirProofs.Lemmas.C14Segment
import MirProofs.Props.C16
/-!
# C14 (task level, `mir_eval.segment`) — valid annotations are always scored; malformed ones are rejected cleanly

About the executable model `MirModel.Segment` (tied to `mir_eval.segment` by the correspondence check), for
annotations of any size, any labels, any frame size:

* `validateStructure_ok_iff` — the validator accepts exactly the documented convention `ValidStructure`
  (stated independently of the code: non-negative times, positive durations, one label per interval, earliest
  time `allclose` to 0, the two latest times `allclose`);
* `f_total` — on a `ValidAnnot` (the convention + both annotations are sampled into equally many frames)
  every public function returns a value; `f_ok_iff` — the exact set of inputs on which it returns a value;
* `f_errors` — on *any* input the only exception is `ValueError` (no IndexError / ZeroDivisionError /
  TypeError / KeyError / other);
* `f_empty` — an empty reference or estimate gives the documented zeros;
* `f_rejects_frame_mismatch` and `pairwise_total_on_validated_full_statement_false` — the escape: the validator
  only asks for `allclose` ends, so it accepts inputs whose frame sequences differ in length, and the metric
  then raises `ValueError` (numpy broadcasting / `coo_matrix`) although validation passed.
-/
namespace Mir.C14.Segment
open Mir Mir.Segment

/-! ## the validator -/

/-- `segment.validate_structure` raises nothing but `ValueError`. -/
theorem validateStructure_errors (ri : List (Rat × Rat)) (nrl : Nat) (ei : List (Rat × Rat)) (nel : Nat) :
    validateStructure ri nrl ei nel = .ok () ∨ validateStructure ri nrl ei nel = .error .valueError := by
  rcases Mir.Segment.validateStructure_errors ri nrl ei nel with ⟨v, hv⟩ | he
  · exact Or.inl hv
  · exact Or.inr he

/-- `segment.validate_structure` accepts exactly the documented convention. -/
theorem validateStructure_ok_iff (ri : List (Rat × Rat)) (nrl : Nat) (ei : List (Rat × Rat)) (nel : Nat) :
    validateStructure ri nrl ei nel = .ok () ↔ ValidStructure ri nrl ei nel :=
  Mir.Segment.validateStructure_ok_iff ri nrl ei nel

/-- every violation of the convention is a `ValueError` -/
theorem validateStructure_rejects {ri : List (Rat × Rat)} {nrl : Nat} {ei : List (Rat × Rat)} {nel : Nat}
    (h : ¬ ValidStructure ri nrl ei nel) : validateStructure ri nrl ei nel = .error .valueError := by
  rcases validateStructure_errors ri nrl ei nel with hv | he
  · exact absurd ((validateStructure_ok_iff ri nrl ei nel).1 hv) h
  · exact he

/-- fault: a negative time -/
theorem validateStructure_rejects_negative {ri : List (Rat × Rat)} {nrl : Nat} {ei : List (Rat × Rat)} {nel : Nat}
    {p : Rat × Rat} (hp : p ∈ ri ∨ p ∈ ei) (h : p.1 < 0 ∨ p.2 < 0) :
    validateStructure ri nrl ei nel = .error .valueError :=
  validateStructure_rejects fun hv => by
    have := hp.elim (hv.ref.nonneg p) (hv.est.nonneg p)
    rcases h with h | h
    · exact absurd this.1 (not_le.2 h)
    · exact absurd this.2 (not_le.2 h)

/-- fault: an interval of zero or negative duration -/
theorem validateStructure_rejects_nonpositive_duration {ri : List (Rat × Rat)} {nrl : Nat}
    {ei : List (Rat × Rat)} {nel : Nat} {p : Rat × Rat} (hp : p ∈ ri ∨ p ∈ ei) (h : p.2 ≤ p.1) :
    validateStructure ri nrl ei nel = .error .valueError :=
  validateStructure_rejects fun hv =>
    absurd (hp.elim (hv.ref.posDuration p) (hv.est.posDuration p)) (not_lt.2 h)

/-- fault: number of labels differs from the number of intervals -/
theorem validateStructure_rejects_label_count {ri : List (Rat × Rat)} {nrl : Nat} {ei : List (Rat × Rat)}
    {nel : Nat} (h : ri.length ≠ nrl ∨ ei.length ≠ nel) :
    validateStructure ri nrl ei nel = .error .valueError :=
  validateStructure_rejects fun hv => h.elim (fun c => c hv.ref.labelCount) (fun c => c hv.est.labelCount)

example : ValidStructure [(0, 1), (1, 2)] 2 [(0, 2)] 1 :=
  (validateStructure_ok_iff _ _ _ _).1 (by decide +kernel)
example : validateStructure [(0, 1), (1, 2)] 2 [(0, 2)] 1 = .ok () := by decide +kernel
example : validateStructure [(0, 1), (1, 2)] 2 [(0, 3)] 1 = .error .valueError
    ∧ validateStructure [(1, 2)] 1 [(0, 2)] 1 = .error .valueError
    ∧ validateStructure [(0, 1), (1, 1)] 2 [(0, 1)] 1 = .error .valueError
    ∧ validateStructure [(0, 1)] 2 [(0, 1)] 1 = .error .valueError
    ∧ validateStructure [(-1, 1)] 1 [(-1, 1)] 1 = .error .valueError := by decide +kernel
example : validateStructure [(-1, 1)] 1 [(0, 1)] 1 = .error .valueError :=
  validateStructure_rejects_negative (p := (-1, 1)) (Or.inl (by simp)) (Or.inl (by decide +kernel))

/-! ## sampling: both frame sequences have `numSamples` entries -/

/-- the frame-label index sequence of an annotation has `int(floor(max / frame_size))` entries -/
theorem frameIndices_length (ivs : List (Rat × Rat)) (labs : List Label) (fs : Rat) :
    (frameIndices ivs labs fs).length = numSamples ivs fs :=
  length_frameIndices ivs labs fs

/-- equal maxima (the documented model domain) give equally many frames for every frame size -/
theorem numSamples_eq_of_equal_maxima {ri ei : List (Rat × Rat)} (h : listMax (flat ri) = listMax (flat ei))
    (fs : Rat) : numSamples ri fs = numSamples ei fs :=
  numSamples_eq_of_listMax_eq h fs

/-- the convention + a positive frame size + equal maxima is a valid task input -/
theorem validAnnot_of_equal_maxima {A : Annot} {fs : Rat} (hfs : 0 < fs)
    (hc : ValidStructure A.refIvs A.refLabs.length A.estIvs A.estLabs.length)
    (h : listMax (flat A.refIvs) = listMax (flat A.estIvs)) : ValidAnnot A fs :=
  ⟨hfs, hc, numSamples_eq_of_listMax_eq h fs⟩

/-- the running valid example: reference `[0,1) a, [1,2) b`, estimate `[0,2) a`, frame size 1/2 (4 frames) -/
example : ValidAnnot ⟨[(0, 1), (1, 2)], ["a".toList, "b".toList], [(0, 2)], ["a".toList]⟩ (1/2) :=
  validAnnot_of_equal_maxima (by decide +kernel) ((validateStructure_ok_iff _ _ _ _).1 (by decide +kernel))
    (by decide +kernel)
example : frameIndices [(0, 1), (1, 2)] ["a".toList, "b".toList] (1/2) = [0, 0, 1, 1]
    ∧ frameIndices [(0, 2)] ["a".toList] (1/2) = [0, 0, 0, 0]
    ∧ numSamples [(0, 1), (1, 2)] (1/2) = 4 := by decide +kernel
/-- `ValidAnnot` with merely `allclose` (unequal) maxima: 2 and 2.00001 at frame size 1/2 -/
example : ValidAnnot ⟨[(0, 1), (1, 2)], ["a".toList, "b".toList], [(0, 200001/100000)], ["a".toList]⟩ (1/2) :=
  ⟨by decide +kernel, (validateStructure_ok_iff _ _ _ _).1 (by decide +kernel), by decide +kernel⟩

/-! ## the common prologue and the bodies after sampling -/

theorem prologue_errors (A : Annot) (fs : Rat) :
    (∃ v, prologue A fs = .ok v) ∨ prologue A fs = .error .valueError :=
  Mir.Segment.prologue_errors A fs

/-- on a valid input the prologue succeeds, and if it samples, the two index sequences are equally long -/
theorem prologue_total {A : Annot} {fs : Rat} (hv : ValidAnnot A fs) :
    prologue A fs = .ok none ∨
    ∃ yr ye, prologue A fs = .ok (some (yr, ye)) ∧ yr.length = ye.length := by
  rcases prologue_of_valid hv with h | h
  · exact Or.inl h.1
  · exact Or.inr ⟨_, _, h.1, h.2⟩

/-- the prologue fails exactly when the validator does -/
theorem prologue_ok_iff (A : Annot) (fs : Rat) :
    (∃ v, prologue A fs = .ok v) ↔ ValidStructure A.refIvs A.refLabs.length A.estIvs A.estLabs.length := by
  rw [← validateStructure_ok_iff]
  constructor
  · rintro ⟨v, hv⟩
    by_contra hc
    rw [prologue_of_not_validated hc] at hv
    cases hv
  · intro h
    exact ⟨_, prologue_of_validated h⟩

theorem pairwiseIdx_total {yr ye : List Nat} (h : yr.length = ye.length) (beta : Rat) :
    ∃ v, pairwiseIdx yr ye beta = .ok v :=
  Mir.Segment.pairwiseIdx_total h beta

theorem pairwiseIdx_errors (yr ye : List Nat) (beta : Rat) :
    (∃ v, pairwiseIdx yr ye beta = .ok v) ∨ pairwiseIdx yr ye beta = .error .valueError :=
  Mir.Segment.pairwiseIdx_errors yr ye beta

theorem randIdx_total {yr ye : List Nat} (h : yr.length = ye.length) : ∃ v, randIdx yr ye = .ok v :=
  Mir.Segment.randIdx_total h

theorem randIdx_errors (yr ye : List Nat) :
    (∃ v, randIdx yr ye = .ok v) ∨ randIdx yr ye = .error .valueError :=
  Mir.Segment.randIdx_errors yr ye

/-- `_adjusted_rand_index` on any two sequences: a value or `ValueError`; its two `ZeroDivisionError` branches
    are unreachable (equal lengths: `C16.ari_total`; unequal lengths: special case 1.0 or the `coo_matrix` error) -/
theorem adjustedRandIdx_errors (yr ye : List Nat) :
    (∃ q, adjustedRandIdx yr ye = .ok q) ∨ adjustedRandIdx yr ye = .error .valueError := by
  by_cases h : yr.length = ye.length
  · exact Or.inl (C16.ari_total yr ye h)
  · rcases adjustedRandIdx_mismatch h with h1 | h1
    · exact Or.inl ⟨_, h1⟩
    · exact Or.inr h1

example : pairwiseIdx [0, 0, 1, 1] [0, 0, 0, 0] 1 = .ok (.val (1/3), .val 1, .val (1/2))
    ∧ randIdx [0, 0, 1, 1] [0, 0, 0, 0] = .ok (.val (1/3))
    ∧ adjustedRandIdx [0, 0, 1, 1] [0, 0, 0, 0] = .ok 0
    ∧ pairwiseIdx [0, 0, 1] [0, 0, 0, 0] 1 = .error .valueError
    ∧ randIdx [0, 0, 1] [0, 0, 0, 0] = .error .valueError
    ∧ adjustedRandIdx [0, 0, 1] [0, 0, 0, 0] = .error .valueError
    ∧ adjustedRandIdx [0, 0, 0] [0, 0, 0, 0] = .ok 1 := by decide +kernel

/-! ## pairwise -/

theorem pairwise_total {A : Annot} {fs : Rat} (hv : ValidAnnot A fs) (beta : Rat) :
    ∃ v, pairwise A fs beta = .ok v := by
  rcases prologue_of_valid hv with h | h
  · exact ⟨_, pairwise_of_none h.1 beta⟩
  · obtain ⟨v, hv'⟩ := Mir.Segment.pairwiseIdx_total h.2 beta
    exact ⟨triple v, by rw [pairwise_of_some h.1, hv']; rfl⟩

theorem pairwise_errors (A : Annot) (fs beta : Rat) :
    (∃ v, pairwise A fs beta = .ok v) ∨ pairwise A fs beta = .error .valueError := by
  rcases prologue_cases A fs with he | hn | hs
  · exact Or.inr (pairwise_of_error he beta)
  · exact Or.inl ⟨_, pairwise_of_none hn.1 beta⟩
  · rw [pairwise_of_some hs.1]
    rcases Mir.Segment.pairwiseIdx_errors (frameIndices A.refIvs A.refLabs fs) (frameIndices A.estIvs A.estLabs fs) beta
      with ⟨v, h⟩ | h
    · rw [h]; exact Or.inl ⟨_, rfl⟩
    · rw [h]; exact Or.inr rfl

/-- an empty reference or estimate (that passes validation) scores `0., 0., 0.` -/
theorem pairwise_empty {A : Annot} {fs : Rat}
    (hc : ValidStructure A.refIvs A.refLabs.length A.estIvs A.estLabs.length)
    (he : A.refIvs = [] ∨ A.estIvs = []) (beta : Rat) : pairwise A fs beta = .ok zeros3 := by
  have h := prologue_of_validated (fs := fs) ((validateStructure_ok_iff _ _ _ _).2 hc)
  rw [if_pos he] at h
  exact pairwise_of_none h beta

/-- validated, both sides non-empty, but different numbers of frames: `ValueError` from numpy broadcasting -/
theorem pairwise_rejects_frame_mismatch {A : Annot} {fs : Rat}
    (hc : validateStructure A.refIvs A.refLabs.length A.estIvs A.estLabs.length = .ok ())
    (hr : A.refIvs ≠ []) (he : A.estIvs ≠ []) (hn : numSamples A.refIvs fs ≠ numSamples A.estIvs fs)
    (beta : Rat) : pairwise A fs beta = .error .valueError := by
  have h := prologue_of_validated (fs := fs) hc
  rw [if_neg (by simp [hr, he])] at h
  rw [pairwise_of_some h, pairwiseIdx_mismatch (by rw [length_frameIndices, length_frameIndices]; exact hn)]
  rfl

/-- the exact set of inputs `pairwise` scores: the convention, and (an empty side or equally many frames) -/
theorem pairwise_ok_iff (A : Annot) (fs beta : Rat) :
    (∃ v, pairwise A fs beta = .ok v) ↔
      ValidStructure A.refIvs A.refLabs.length A.estIvs A.estLabs.length ∧
      (A.refIvs = [] ∨ A.estIvs = [] ∨ numSamples A.refIvs fs = numSamples A.estIvs fs) := by
  constructor
  · rintro ⟨v, hv⟩
    rcases prologue_cases A fs with he | hn | hs
    · rw [pairwise_of_error he] at hv; cases hv
    · exact ⟨(prologue_ok_iff A fs).1 ⟨_, hn.1⟩, by tauto⟩
    · refine ⟨(prologue_ok_iff A fs).1 ⟨_, hs.1⟩, Or.inr (Or.inr ?_)⟩
      by_contra hc
      rw [pairwise_rejects_frame_mismatch hs.2.1 hs.2.2.1 hs.2.2.2 hc] at hv
      cases hv
  · rintro ⟨hc, he | he | hn⟩
    · exact ⟨_, pairwise_empty hc (Or.inl he) beta⟩
    · exact ⟨_, pairwise_empty hc (Or.inr he) beta⟩
    · by_cases hemp : A.refIvs = [] ∨ A.estIvs = []
      · exact ⟨_, pairwise_empty hc hemp beta⟩
      · have h := prologue_of_validated (fs := fs) ((validateStructure_ok_iff _ _ _ _).2 hc)
        rw [if_neg hemp] at h
        have hl : (frameIndices A.refIvs A.refLabs fs).length = (frameIndices A.estIvs A.estLabs fs).length := by
          rw [length_frameIndices, length_frameIndices]; exact hn
        obtain ⟨v, hv'⟩ := Mir.Segment.pairwiseIdx_total hl beta
        exact ⟨triple v, by rw [pairwise_of_some h, hv']; rfl⟩

example : ∃ v, pairwise ⟨[(0, 1), (1, 2)], ["a".toList, "b".toList], [(0, 2)], ["a".toList]⟩ (1/2) 1 = .ok v :=
  pairwise_total (validAnnot_of_equal_maxima (by decide +kernel)
    ((validateStructure_ok_iff _ _ _ _).1 (by decide +kernel)) (by decide +kernel)) 1
/-- the value on the running example: precision 1/3, recall 1, F 1/2 -/
example : pairwise ⟨[(0, 1), (1, 2)], ["a".toList, "b".toList], [(0, 2)], ["a".toList]⟩ (1/2) 1
    = .ok (triple (.val (1/3), .val 1, .val (1/2))) := by
  rw [pairwise_of_some (prologue_some_of_validated (by decide +kernel) (by simp) (by simp))]
  have : pairwiseIdx (frameIndices [(0, 1), (1, 2)] ["a".toList, "b".toList] (1/2))
      (frameIndices [(0, 2)] ["a".toList] (1/2)) 1 = .ok (.val (1/3), .val 1, .val (1/2)) := by decide +kernel
  rw [this]; rfl
example : pairwise ⟨[], [], [(0, 2)], ["a".toList]⟩ (1/2) 1 = .ok zeros3 :=
  pairwise_empty ((validateStructure_ok_iff _ _ _ _).1 (by decide +kernel)) (Or.inl rfl) 1
example : pairwise ⟨[(0, 1)], [], [(0, 2)], ["a".toList]⟩ (1/2) 1 = .error .valueError :=
  pairwise_of_error (prologue_of_not_validated (by decide +kernel)) 1

/-! ## rand_index -/

theorem randIndex_total {A : Annot} {fs : Rat} (hv : ValidAnnot A fs) : ∃ v, randIndex A fs = .ok v := by
  rcases prologue_of_valid hv with h | h
  · exact ⟨_, randIndex_of_none h.1⟩
  · obtain ⟨v, hv'⟩ := Mir.Segment.randIdx_total h.2
    exact ⟨v.toVal, by rw [randIndex_of_some h.1, hv']; rfl⟩

theorem randIndex_errors (A : Annot) (fs : Rat) :
    (∃ v, randIndex A fs = .ok v) ∨ randIndex A fs = .error .valueError := by
  rcases prologue_cases A fs with he | hn | hs
  · exact Or.inr (randIndex_of_error he)
  · exact Or.inl ⟨_, randIndex_of_none hn.1⟩
  · rw [randIndex_of_some hs.1]
    rcases Mir.Segment.randIdx_errors (frameIndices A.refIvs A.refLabs fs) (frameIndices A.estIvs A.estLabs fs)
      with ⟨v, h⟩ | h
    · rw [h]; exact Or.inl ⟨_, rfl⟩
    · rw [h]; exact Or.inr rfl

theorem randIndex_empty {A : Annot} {fs : Rat}
    (hc : ValidStructure A.refIvs A.refLabs.length A.estIvs A.estLabs.length)
    (he : A.refIvs = [] ∨ A.estIvs = []) : randIndex A fs = .ok (.rat 0) :=
  randIndex_of_none (prologue_none_of_validated ((validateStructure_ok_iff _ _ _ _).2 hc) he)

theorem randIndex_rejects_frame_mismatch {A : Annot} {fs : Rat}
    (hc : validateStructure A.refIvs A.refLabs.length A.estIvs A.estLabs.length = .ok ())
    (hr : A.refIvs ≠ []) (he : A.estIvs ≠ []) (hn : numSamples A.refIvs fs ≠ numSamples A.estIvs fs) :
    randIndex A fs = .error .valueError := by
  rw [randIndex_of_some (prologue_some_of_validated hc hr he), randIdx_mismatch (frameIndices_length_ne hn)]
  rfl

theorem randIndex_ok_iff (A : Annot) (fs : Rat) :
    (∃ v, randIndex A fs = .ok v) ↔
      ValidStructure A.refIvs A.refLabs.length A.estIvs A.estLabs.length ∧
      (A.refIvs = [] ∨ A.estIvs = [] ∨ numSamples A.refIvs fs = numSamples A.estIvs fs) := by
  constructor
  · rintro ⟨v, hv⟩
    rcases prologue_cases A fs with he | hn | hs
    · rw [randIndex_of_error he] at hv; cases hv
    · exact ⟨(prologue_ok_iff A fs).1 ⟨_, hn.1⟩, by tauto⟩
    · refine ⟨(prologue_ok_iff A fs).1 ⟨_, hs.1⟩, Or.inr (Or.inr ?_)⟩
      by_contra hc
      rw [randIndex_rejects_frame_mismatch hs.2.1 hs.2.2.1 hs.2.2.2 hc] at hv
      cases hv
  · rintro ⟨hc, he | he | hn⟩
    · exact ⟨_, randIndex_empty hc (Or.inl he)⟩
    · exact ⟨_, randIndex_empty hc (Or.inr he)⟩
    · by_cases hemp : A.refIvs = [] ∨ A.estIvs = []
      · exact ⟨_, randIndex_empty hc hemp⟩
      · have h := prologue_of_validated (fs := fs) ((validateStructure_ok_iff _ _ _ _).2 hc)
        rw [if_neg hemp] at h
        obtain ⟨v, hv'⟩ := Mir.Segment.randIdx_total (frameIndices_length_eq (A := A) hn)
        exact ⟨v.toVal, by rw [randIndex_of_some h, hv']; rfl⟩

example : ∃ v, randIndex ⟨[(0, 1), (1, 2)], ["a".toList, "b".toList], [(0, 2)], ["a".toList]⟩ (1/2) = .ok v :=
  randIndex_total (validAnnot_of_equal_maxima (by decide +kernel)
    ((validateStructure_ok_iff _ _ _ _).1 (by decide +kernel)) (by decide +kernel))
example : randIndex ⟨[(0, 1), (1, 2)], ["a".toList, "b".toList], [(0, 2)], ["a".toList]⟩ (1/2)
    = .ok (.rat (1/3)) := by
  rw [randIndex_of_some (prologue_some_of_validated (by decide +kernel) (by simp) (by simp))]
  have : randIdx (frameIndices [(0, 1), (1, 2)] ["a".toList, "b".toList] (1/2))
      (frameIndices [(0, 2)] ["a".toList] (1/2)) = .ok (.val (1/3)) := by decide +kernel
  rw [this]; rfl
example : randIndex ⟨[(0, 2)], ["a".toList], [], []⟩ (1/2) = .ok (.rat 0) :=
  randIndex_empty ((validateStructure_ok_iff _ _ _ _).1 (by decide +kernel)) (Or.inr rfl)

/-! ## ari -/

/-- uses `C16.ari_total`: the two `ZeroDivisionError` branches of `_adjusted_rand_index` are unreachable -/
theorem ari_total {A : Annot} {fs : Rat} (hv : ValidAnnot A fs) : ∃ v, ari A fs = .ok v := by
  rcases prologue_of_valid hv with h | h
  · exact ⟨_, ari_of_none h.1⟩
  · obtain ⟨q, hq⟩ := C16.ari_total _ _ h.2
    exact ⟨.rat q, by rw [ari_of_some h.1, hq]; rfl⟩

theorem ari_errors (A : Annot) (fs : Rat) : (∃ v, ari A fs = .ok v) ∨ ari A fs = .error .valueError := by
  rcases prologue_cases A fs with he | hn | hs
  · exact Or.inr (ari_of_error he)
  · exact Or.inl ⟨_, ari_of_none hn.1⟩
  · rw [ari_of_some hs.1]
    rcases adjustedRandIdx_errors (frameIndices A.refIvs A.refLabs fs) (frameIndices A.estIvs A.estLabs fs)
      with ⟨v, h⟩ | h
    · rw [h]; exact Or.inl ⟨_, rfl⟩
    · rw [h]; exact Or.inr rfl

theorem ari_empty {A : Annot} {fs : Rat}
    (hc : ValidStructure A.refIvs A.refLabs.length A.estIvs A.estLabs.length)
    (he : A.refIvs = [] ∨ A.estIvs = []) : ari A fs = .ok (.rat 0) :=
  ari_of_none (prologue_none_of_validated ((validateStructure_ok_iff _ _ _ _).2 hc) he)

/-- validated, non-empty, different numbers of frames: `ari` answers 1.0 when both sides have one label (or
    both have none, or both are all-singletons of the reference length) — the class counts are compared before
    the contingency table is built — and raises `ValueError` (scipy `coo_matrix`) otherwise -/
theorem ari_frame_mismatch {A : Annot} {fs : Rat}
    (hc : validateStructure A.refIvs A.refLabs.length A.estIvs A.estLabs.length = .ok ())
    (hr : A.refIvs ≠ []) (he : A.estIvs ≠ []) (hn : numSamples A.refIvs fs ≠ numSamples A.estIvs fs) :
    ari A fs = .ok (.rat 1) ∨ ari A fs = .error .valueError := by
  rw [ari_of_some (prologue_some_of_validated hc hr he)]
  rcases adjustedRandIdx_mismatch (frameIndices_length_ne (A := A) hn) with h | h
  · rw [h]; exact Or.inl rfl
  · rw [h]; exact Or.inr rfl

example : ∃ v, ari ⟨[(0, 1), (1, 2)], ["a".toList, "b".toList], [(0, 2)], ["a".toList]⟩ (1/2) = .ok v :=
  ari_total (validAnnot_of_equal_maxima (by decide +kernel)
    ((validateStructure_ok_iff _ _ _ _).1 (by decide +kernel)) (by decide +kernel))
example : ari ⟨[(0, 1), (1, 2)], ["a".toList, "b".toList], [(0, 2)], ["a".toList]⟩ (1/2) = .ok (.rat 0) := by
  rw [ari_of_some (prologue_some_of_validated (by decide +kernel) (by simp) (by simp))]
  have : adjustedRandIdx (frameIndices [(0, 1), (1, 2)] ["a".toList, "b".toList] (1/2))
      (frameIndices [(0, 2)] ["a".toList] (1/2)) = .ok 0 := by decide +kernel
  rw [this]; rfl
example : ari ⟨[], [], [], []⟩ 1 = .ok (.rat 0) :=
  ari_empty ((validateStructure_ok_iff _ _ _ _).1 (by decide +kernel)) (Or.inl rfl)

/-! ## mutual_information -/

theorem mutualInformation_total {A : Annot} {fs : Rat} (hv : ValidAnnot A fs) :
    ∃ v, mutualInformation A fs = .ok v := by
  rcases prologue_of_valid hv with h | h
  · exact ⟨_, mutualInformation_of_none h.1⟩
  · exact mutualInformation_of_some_ok h.1 h.2

theorem mutualInformation_errors (A : Annot) (fs : Rat) :
    (∃ v, mutualInformation A fs = .ok v) ∨ mutualInformation A fs = .error .valueError := by
  rcases prologue_cases A fs with he | hn | hs
  · exact Or.inr (mutualInformation_of_error he)
  · exact Or.inl ⟨_, mutualInformation_of_none hn.1⟩
  · by_cases hl : (frameIndices A.refIvs A.refLabs fs).length = (frameIndices A.estIvs A.estLabs fs).length
    · exact Or.inl (mutualInformation_of_some_ok hs.1 hl)
    · exact Or.inr (mutualInformation_of_some_mismatch hs.1 hl)

theorem mutualInformation_empty {A : Annot} {fs : Rat}
    (hc : ValidStructure A.refIvs A.refLabs.length A.estIvs A.estLabs.length)
    (he : A.refIvs = [] ∨ A.estIvs = []) : mutualInformation A fs = .ok zeros3 :=
  mutualInformation_of_none (prologue_none_of_validated ((validateStructure_ok_iff _ _ _ _).2 hc) he)

theorem mutualInformation_rejects_frame_mismatch {A : Annot} {fs : Rat}
    (hc : validateStructure A.refIvs A.refLabs.length A.estIvs A.estLabs.length = .ok ())
    (hr : A.refIvs ≠ []) (he : A.estIvs ≠ []) (hn : numSamples A.refIvs fs ≠ numSamples A.estIvs fs) :
    mutualInformation A fs = .error .valueError :=
  mutualInformation_of_some_mismatch (prologue_some_of_validated hc hr he) (frameIndices_length_ne hn)

theorem mutualInformation_ok_iff (A : Annot) (fs : Rat) :
    (∃ v, mutualInformation A fs = .ok v) ↔
      ValidStructure A.refIvs A.refLabs.length A.estIvs A.estLabs.length ∧
      (A.refIvs = [] ∨ A.estIvs = [] ∨ numSamples A.refIvs fs = numSamples A.estIvs fs) := by
  constructor
  · rintro ⟨v, hv⟩
    rcases prologue_cases A fs with he | hn | hs
    · rw [mutualInformation_of_error he] at hv; cases hv
    · exact ⟨(prologue_ok_iff A fs).1 ⟨_, hn.1⟩, by tauto⟩
    · refine ⟨(prologue_ok_iff A fs).1 ⟨_, hs.1⟩, Or.inr (Or.inr ?_)⟩
      by_contra hc
      rw [mutualInformation_rejects_frame_mismatch hs.2.1 hs.2.2.1 hs.2.2.2 hc] at hv
      cases hv
  · rintro ⟨hc, he | he | hn⟩
    · exact ⟨_, mutualInformation_empty hc (Or.inl he)⟩
    · exact ⟨_, mutualInformation_empty hc (Or.inr he)⟩
    · by_cases hemp : A.refIvs = [] ∨ A.estIvs = []
      · exact ⟨_, mutualInformation_empty hc hemp⟩
      · have h := prologue_of_validated (fs := fs) ((validateStructure_ok_iff _ _ _ _).2 hc)
        rw [if_neg hemp] at h
        exact mutualInformation_of_some_ok h (frameIndices_length_eq hn)

example : ∃ v, mutualInformation ⟨[(0, 1), (1, 2)], ["a".toList, "b".toList], [(0, 2)], ["a".toList]⟩ (1/2)
    = .ok v :=
  mutualInformation_total (validAnnot_of_equal_maxima (by decide +kernel)
    ((validateStructure_ok_iff _ _ _ _).1 (by decide +kernel)) (by decide +kernel))
example : mutualInformation ⟨[], [], [(0, 2)], ["a".toList]⟩ (1/2) = .ok zeros3 :=
  mutualInformation_empty ((validateStructure_ok_iff _ _ _ _).1 (by decide +kernel)) (Or.inl rfl)

/-! ## nce and vmeasure -/

theorem nce_total {A : Annot} {fs : Rat} (hv : ValidAnnot A fs) (beta : Rat) (marginal : Bool) :
    ∃ v, nce A fs beta marginal = .ok v := by
  rcases prologue_of_valid hv with h | h
  · exact ⟨_, nce_of_none h.1 beta marginal⟩
  · exact ⟨_, nce_of_some_ok h.1 h.2 beta marginal⟩

theorem nce_errors (A : Annot) (fs beta : Rat) (marginal : Bool) :
    (∃ v, nce A fs beta marginal = .ok v) ∨ nce A fs beta marginal = .error .valueError := by
  rcases prologue_cases A fs with he | hn | hs
  · exact Or.inr (nce_of_error he beta marginal)
  · exact Or.inl ⟨_, nce_of_none hn.1 beta marginal⟩
  · by_cases hl : (frameIndices A.refIvs A.refLabs fs).length = (frameIndices A.estIvs A.estLabs fs).length
    · exact Or.inl ⟨_, nce_of_some_ok hs.1 hl beta marginal⟩
    · exact Or.inr (nce_of_some_mismatch hs.1 hl beta marginal)

theorem nce_empty {A : Annot} {fs : Rat}
    (hc : ValidStructure A.refIvs A.refLabs.length A.estIvs A.estLabs.length)
    (he : A.refIvs = [] ∨ A.estIvs = []) (beta : Rat) (marginal : Bool) :
    nce A fs beta marginal = .ok zeros3 :=
  nce_of_none (prologue_none_of_validated ((validateStructure_ok_iff _ _ _ _).2 hc) he) beta marginal

theorem nce_rejects_frame_mismatch {A : Annot} {fs : Rat}
    (hc : validateStructure A.refIvs A.refLabs.length A.estIvs A.estLabs.length = .ok ())
    (hr : A.refIvs ≠ []) (he : A.estIvs ≠ []) (hn : numSamples A.refIvs fs ≠ numSamples A.estIvs fs)
    (beta : Rat) (marginal : Bool) : nce A fs beta marginal = .error .valueError :=
  nce_of_some_mismatch (prologue_some_of_validated hc hr he) (frameIndices_length_ne hn) beta marginal

theorem nce_ok_iff (A : Annot) (fs beta : Rat) (marginal : Bool) :
    (∃ v, nce A fs beta marginal = .ok v) ↔
      ValidStructure A.refIvs A.refLabs.length A.estIvs A.estLabs.length ∧
      (A.refIvs = [] ∨ A.estIvs = [] ∨ numSamples A.refIvs fs = numSamples A.estIvs fs) := by
  constructor
  · rintro ⟨v, hv⟩
    rcases prologue_cases A fs with he | hn | hs
    · rw [nce_of_error he] at hv; cases hv
    · exact ⟨(prologue_ok_iff A fs).1 ⟨_, hn.1⟩, by tauto⟩
    · refine ⟨(prologue_ok_iff A fs).1 ⟨_, hs.1⟩, Or.inr (Or.inr ?_)⟩
      by_contra hc
      rw [nce_rejects_frame_mismatch hs.2.1 hs.2.2.1 hs.2.2.2 hc] at hv
      cases hv
  · rintro ⟨hc, he | he | hn⟩
    · exact ⟨_, nce_empty hc (Or.inl he) beta marginal⟩
    · exact ⟨_, nce_empty hc (Or.inr he) beta marginal⟩
    · by_cases hemp : A.refIvs = [] ∨ A.estIvs = []
      · exact ⟨_, nce_empty hc hemp beta marginal⟩
      · have h := prologue_of_validated (fs := fs) ((validateStructure_ok_iff _ _ _ _).2 hc)
        rw [if_neg hemp] at h
        exact ⟨_, nce_of_some_ok h (frameIndices_length_eq hn) beta marginal⟩

theorem vmeasure_total {A : Annot} {fs : Rat} (hv : ValidAnnot A fs) (beta : Rat) :
    ∃ v, vmeasure A fs beta = .ok v :=
  nce_total hv beta true

theorem vmeasure_errors (A : Annot) (fs beta : Rat) :
    (∃ v, vmeasure A fs beta = .ok v) ∨ vmeasure A fs beta = .error .valueError :=
  nce_errors A fs beta true

theorem vmeasure_empty {A : Annot} {fs : Rat}
    (hc : ValidStructure A.refIvs A.refLabs.length A.estIvs A.estLabs.length)
    (he : A.refIvs = [] ∨ A.estIvs = []) (beta : Rat) : vmeasure A fs beta = .ok zeros3 :=
  nce_empty hc he beta true

theorem vmeasure_rejects_frame_mismatch {A : Annot} {fs : Rat}
    (hc : validateStructure A.refIvs A.refLabs.length A.estIvs A.estLabs.length = .ok ())
    (hr : A.refIvs ≠ []) (he : A.estIvs ≠ []) (hn : numSamples A.refIvs fs ≠ numSamples A.estIvs fs)
    (beta : Rat) : vmeasure A fs beta = .error .valueError :=
  nce_rejects_frame_mismatch hc hr he hn beta true

theorem vmeasure_ok_iff (A : Annot) (fs beta : Rat) :
    (∃ v, vmeasure A fs beta = .ok v) ↔
      ValidStructure A.refIvs A.refLabs.length A.estIvs A.estLabs.length ∧
      (A.refIvs = [] ∨ A.estIvs = [] ∨ numSamples A.refIvs fs = numSamples A.estIvs fs) :=
  nce_ok_iff A fs beta true

example : (∃ v, nce ⟨[(0, 1), (1, 2)], ["a".toList, "b".toList], [(0, 2)], ["a".toList]⟩ (1/2) 1 false = .ok v)
    ∧ ∃ v, vmeasure ⟨[(0, 1), (1, 2)], ["a".toList, "b".toList], [(0, 2)], ["a".toList]⟩ (1/2) 1 = .ok v :=
  have hv : ValidAnnot ⟨[(0, 1), (1, 2)], ["a".toList, "b".toList], [(0, 2)], ["a".toList]⟩ (1/2) :=
    validAnnot_of_equal_maxima (by decide +kernel)
      ((validateStructure_ok_iff _ _ _ _).1 (by decide +kernel)) (by decide +kernel)
  ⟨nce_total hv 1 false, vmeasure_total hv 1⟩
example : nce ⟨[(0, 2)], ["a".toList], [], []⟩ (1/2) 1 false = .ok zeros3
    ∧ vmeasure ⟨[(0, 2)], ["a".toList], [], []⟩ (1/2) 1 = .ok zeros3 :=
  ⟨nce_empty ((validateStructure_ok_iff _ _ _ _).1 (by decide +kernel)) (Or.inr rfl) 1 false,
   vmeasure_empty ((validateStructure_ok_iff _ _ _ _).1 (by decide +kernel)) (Or.inr rfl) 1⟩

/-! ## the escape: validated, yet `ValueError` from the metric body

`validate_structure` only requires the two latest times to be `np.allclose`; the bodies sample each annotation
up to *its own* maximum, so a reference ending at 9.99995 (99 frames of 0.1 s) and an estimate ending at 10.0
(100 frames) pass validation and then fail in `np.logical_and` / `coo_matrix` with a `ValueError`. -/

/-- FALSE of the code as it is: "whatever `validate_structure` accepts is scored". -/
def pairwise_total_on_validated_full_statement : Prop :=
  ∀ (A : Annot) (fs beta : Rat),
    validateStructure A.refIvs A.refLabs.length A.estIvs A.estLabs.length = .ok () →
    ∃ v, pairwise A fs beta = .ok v

/-- the witness: reference `[0,5) a, [5,9.99995) b`, estimate `[0,10) a` -/
def escapeWitness : Annot :=
  ⟨[(0, 5), (5, 999995/100000)], ["a".toList, "b".toList], [(0, 10)], ["a".toList]⟩

/-- the witness is accepted by the validator, and is sampled into 99 and 100 frames at frame size 0.1 -/
theorem escapeWitness_validated :
    validateStructure escapeWitness.refIvs escapeWitness.refLabs.length
        escapeWitness.estIvs escapeWitness.estLabs.length = .ok ()
    ∧ numSamples escapeWitness.refIvs (1/10) = 99 ∧ numSamples escapeWitness.estIvs (1/10) = 100 := by
  decide +kernel

theorem escapeWitness_pairwise : pairwise escapeWitness (1/10) 1 = .error .valueError :=
  pairwise_rejects_frame_mismatch escapeWitness_validated.1 (by simp [escapeWitness]) (by simp [escapeWitness])
    (by rw [escapeWitness_validated.2.1, escapeWitness_validated.2.2]; decide) 1

theorem pairwise_total_on_validated_full_statement_false : ¬ pairwise_total_on_validated_full_statement := by
  intro h
  obtain ⟨v, hv⟩ := h escapeWitness (1/10) 1 escapeWitness_validated.1
  rw [escapeWitness_pairwise] at hv
  cases hv

/-- the same input makes every other metric raise `ValueError` as well (`ari`: two reference labels, so none
    of its special cases applies) -/
theorem escapeWitness_others :
    randIndex escapeWitness (1/10) = .error .valueError
    ∧ mutualInformation escapeWitness (1/10) = .error .valueError
    ∧ nce escapeWitness (1/10) 1 false = .error .valueError
    ∧ vmeasure escapeWitness (1/10) 1 = .error .valueError := by
  have hn : numSamples escapeWitness.refIvs (1/10) ≠ numSamples escapeWitness.estIvs (1/10) := by
    rw [escapeWitness_validated.2.1, escapeWitness_validated.2.2]; decide
  have hr : escapeWitness.refIvs ≠ [] := by simp [escapeWitness]
  have he : escapeWitness.estIvs ≠ [] := by simp [escapeWitness]
  exact ⟨randIndex_rejects_frame_mismatch escapeWitness_validated.1 hr he hn,
    mutualInformation_rejects_frame_mismatch escapeWitness_validated.1 hr he hn,
    nce_rejects_frame_mismatch escapeWitness_validated.1 hr he hn 1 false,
    vmeasure_rejects_frame_mismatch escapeWitness_validated.1 hr he hn 1⟩

theorem escapeWitness_ari : ari escapeWitness (1/10) = .error .valueError := by
  rw [ari_of_some (prologue_some_of_validated escapeWitness_validated.1 (by simp [escapeWitness])
    (by simp [escapeWitness]))]
  have : adjustedRandIdx (frameIndices escapeWitness.refIvs escapeWitness.refLabs (1/10))
      (frameIndices escapeWitness.estIvs escapeWitness.estLabs (1/10)) = .error .valueError := by
    decide +kernel
  rw [this]; rfl

/-- the strongest true version: validated + equally many frames (or an empty side) is scored — this is
    `pairwise_ok_iff` read from right to left -/
theorem pairwise_total_on_validated_partial (A : Annot) (fs beta : Rat)
    (hc : validateStructure A.refIvs A.refLabs.length A.estIvs A.estLabs.length = .ok ())
    (hn : A.refIvs = [] ∨ A.estIvs = [] ∨ numSamples A.refIvs fs = numSamples A.estIvs fs) :
    ∃ v, pairwise A fs beta = .ok v :=
  (pairwise_ok_iff A fs beta).2 ⟨(validateStructure_ok_iff _ _ _ _).1 hc, hn⟩

/-- the same annotations at frame size 3 (3 frames each) are scored -/
example : ∃ v, pairwise escapeWitness 3 1 = .ok v :=
  pairwise_total_on_validated_partial escapeWitness 3 1 escapeWitness_validated.1
    (Or.inr (Or.inr (by decide +kernel)))

end Mir.C14.Segment
