import MirModel.Tempo
import MirProofs.Props.C14
import MirProofs.Lemmas.Totality

/-!
# C14 (task level) — `mir_eval.tempo`: `validate_tempi`, `validate`, `detection`, `evaluate`

Model: `MirModel/Tempo.lean`; `validateTempi_agrees` / `validate_agrees` tie its validators to the validator model of
`Props/C14.lean` (`ValidTempi`, `ValidTempo`: exactly two non-negative tempi, a reference not all zero, weight in
[0, 1]).

* `detection` / `evaluate` return a value on every valid annotation with `tol` in [0, 1] (`detection_total`) — a zero
  reference tempo included (its hit stays `False`, no division is evaluated for it) —,
* raise `ValueError` on every other input (`detection_rejects`) and can raise nothing else (`detection_errors`): after
  validation both arrays have exactly two entries, so the unpacking of the body cannot fail.
-/
namespace Mir.C14.Tempo
open Mir.Tempo Mir.Validate Mir.Totality

/-- `tempo.validate_tempi` of the metric model = the validator model on the same 1-d array -/
theorem validateTempi_agrees (t : List Rat) (reference : Bool) :
    validateTempi t reference = tempoTempi (Arr.vec t) reference := by
  unfold validateTempi tempoTempi
  simp only [Arr.size, Arr.vec]
  by_cases h1 : t.length ≠ 2
  · simp [h1, check]; rfl
  · have h1' : t.length = 2 := not_not.1 h1
    by_cases h2 : (t.any fun x => decide (x < 0)) = true
    · simp [h1', h2, check]; rfl
    · by_cases h3 : (reference && t.all fun x => decide (x = 0)) = true
      · simp [h1', h2, h3, check]; rfl
      · simp [h1', h2, h3, check]; rfl

/-- `tempo.validate` of the metric model = the validator model -/
theorem validate_agrees (ref : List Rat) (w : Rat) (est : List Rat) :
    validate ref w est = tempoValidate (Arr.vec ref) w (Arr.vec est) := by
  unfold validate tempoValidate
  rw [validateTempi_agrees, validateTempi_agrees]
  congr 1; funext _; congr 1; funext _
  by_cases h : w < 0 ∨ 1 < w
  · have : (decide (w < 0) || decide (1 < w)) = true := by simpa using h
    simp [h, this, check]
  · have : (decide (w < 0) || decide (1 < w)) = false := by simpa using h
    simp [h, this, check]

/-- the documented convention (Props/C14.lean) -/
def Valid (ref : List Rat) (w : Rat) (est : List Rat) : Prop := ValidTempo (Arr.vec ref) w (Arr.vec est)

theorem validate_ok_iff (ref : List Rat) (w : Rat) (est : List Rat) : validate ref w est = .ok () ↔ Valid ref w est := by
  rw [validate_agrees, tempo_validate_ok_iff]; rfl

theorem validate_cases (ref : List Rat) (w : Rat) (est : List Rat) :
    validate ref w est = .ok () ∨ validate ref w est = .error .valueError := by
  rw [validate_agrees]; exact tempo_validate_total _ _ _

theorem valid_shapes {ref est : List Rat} {w : Rat} (h : Valid ref w est) :
    (∃ r0 r1, ref = [r0, r1]) ∧ ∃ e0 e1, est = [e0, e1] := by
  have h1 : ref.length = 2 := h.ref.two
  have h2 : est.length = 2 := h.est.two
  constructor
  · match ref, h1 with
    | [a, b], _ => exact ⟨a, b, rfl⟩
  · match est, h2 with
    | [a, b], _ => exact ⟨a, b, rfl⟩

/-- **totality**: a valid annotation and a tolerance in [0, 1] are scored -/
theorem detection_total {ref est : List Rat} {w tol : Rat} (h : Valid ref w est) (ht : 0 ≤ tol ∧ tol ≤ 1) :
    ∃ v, detection ref w est tol = .ok v := by
  obtain ⟨⟨r0, r1, rfl⟩, ⟨e0, e1, rfl⟩⟩ := valid_shapes h
  unfold detection
  rw [(validate_ok_iff _ _ _).2 h]
  have : ¬ (tol < 0 ∨ 1 < tol) := by rintro (h' | h') <;> linarith [ht.1, ht.2]
  simp only [bind_ok_eq, if_neg this]
  exact ⟨_, rfl⟩

/-- every other input is rejected with `ValueError` -/
theorem detection_rejects {ref est : List Rat} {w tol : Rat} (h : ¬ (Valid ref w est ∧ 0 ≤ tol ∧ tol ≤ 1)) :
    detection ref w est tol = .error .valueError := by
  unfold detection
  rcases validate_cases ref w est with hv | hv
  · rw [hv]
    have hvalid := (validate_ok_iff _ _ _).1 hv
    have : tol < 0 ∨ 1 < tol := by
      by_contra hc
      have hc' := not_or.1 hc
      exact h ⟨hvalid, not_lt.1 hc'.1, not_lt.1 hc'.2⟩
    simp only [bind_ok_eq, if_pos this]
  · rw [hv]; rfl

/-- nothing but `ValueError` can come out, on any input -/
theorem detection_errors (ref : List Rat) (w : Rat) (est : List Rat) (tol : Rat) :
    (∃ v, detection ref w est tol = .ok v) ∨ detection ref w est tol = .error .valueError := by
  by_cases h : Valid ref w est ∧ 0 ≤ tol ∧ tol ≤ 1
  · exact Or.inl (detection_total h.1 h.2)
  · exact Or.inr (detection_rejects h)

theorem evaluate_total {ref est : List Rat} {w : Rat} (h : Valid ref w est) (tol : Option Rat)
    (ht : ∀ t, tol = some t → 0 ≤ t ∧ t ≤ 1) : ∃ v, evaluate ref w est tol = .ok v := by
  unfold evaluate
  apply detection_total h
  cases tol with
  | none => simp only [Option.getD_none]; norm_num
  | some t => exact ht t rfl

theorem evaluate_errors (ref : List Rat) (w : Rat) (est : List Rat) (tol : Option Rat) :
    (∃ v, evaluate ref w est tol = .ok v) ∨ evaluate ref w est tol = .error .valueError :=
  detection_errors ref w est _

example : Valid [60, 0] 1 [0, 0] ∧ detection [60, 0] 1 [0, 0] (2 / 25) = .ok (0, false, false) ∧
    detection [60, 120] (1 / 2) [60, 119] (2 / 25) = .ok (1, true, true) ∧
    detection [60] (1 / 2) [60, 119] (2 / 25) = .error .valueError := by
  refine ⟨(tempo_validate_ok_iff _ _ _).1 (by decide +kernel), by decide +kernel, by decide +kernel,
    by decide +kernel⟩

end Mir.C14.Tempo
